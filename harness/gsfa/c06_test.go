package gsfa

// Verification harness for C06 (injected with `go test -overlay`; not part of the repository).
//
// Property: write (NewGsfaWriter / Push* / Close) then read (NewGsfaReader.Get) returns, for every
// address that appeared, exactly the entries pushed with it, each once, newest first.
//
// Two modes, selected by the environment variable VERIF_C06_MODE (set in bin/propsd/C06.py):
//   shrunk : gsfa-write.go is compiled from an edited copy (batch size, channel capacity, parked
//            capacity, periodic flush thresholds and the 1 s poll are rewritten to small values), so that
//            every threshold is crossed by histories of <= 8 pushes; these are enumerated exhaustively.
//   real   : the untouched source; histories with per-address counts around the 1000-entry batch.
// The constants that are actually in effect are measured (itemsPerBatch and the channel capacity directly,
// the function-local ones by reading the very source file that was compiled), never assumed.
//
// For every history the harness evaluates the property oracle on the implementation's answers
// (rep.Fail with a stable signature) and writes history + observations as a Coq case that
// YF.C06_Check evaluates against the model.

import (
	"context"
	"encoding/binary"
	"encoding/json"
	"fmt"
	"io"
	"os"
	"path/filepath"
	"regexp"
	"runtime"
	"sort"
	"strconv"
	"strings"
	"sync"
	"sync/atomic"
	"testing"
	"time"

	"github.com/gagliardetto/solana-go"
	"github.com/ipfs/go-cid"
	"github.com/rpcpool/yellowstone-faithful/gsfa/linkedlog"
	"github.com/rpcpool/yellowstone-faithful/indexes"
	"github.com/rpcpool/yellowstone-faithful/indexmeta"
	"github.com/rpcpool/yellowstone-faithful/tooling"
	"github.com/rpcpool/yellowstone-faithful/zzverif/vh"
	"k8s.io/klog/v2"
)

// ---------------------------------------------------------------- constants in effect

type vc6Consts struct {
	B    int    `json:"items_per_batch"`
	C    int    `json:"chan_cap"`
	P    int    `json:"parked_cap"`
	FE   int    `json:"flush_every_slots"`
	FM   int    `json:"flush_min_keys"`
	FS   int    `json:"flush_small"`
	R    int    `json:"rank_size"`
	Poll string `json:"poll"`
	Src  string `json:"source_read"`
}

func vc6Int(s string) int {
	v, err := strconv.Atoi(strings.ReplaceAll(s, "_", ""))
	if err != nil {
		return -1
	}
	return v
}

// vc6ReadConsts reads the function-local constants from the source file that was compiled.
func vc6ReadConsts(mode string) (vc6Consts, []string) {
	c := vc6Consts{B: -1, C: -1, P: -1, FE: -1, FM: -1, FS: -1, R: -1}
	var notes []string
	path := "gsfa-write.go" // go test runs in the package directory
	if mode == "shrunk" {
		p := filepath.Join(vh.OutDir(), "rewrite_gsfa_gsfa-write.go")
		if _, err := os.Stat(p); err == nil {
			path = p
		} else {
			notes = append(notes, "no rewritten copy of gsfa-write.go found: the real constants are in effect")
		}
	}
	b, err := os.ReadFile(path)
	if err != nil {
		notes = append(notes, "cannot read "+path+": "+err.Error())
		return c, notes
	}
	c.Src = path
	src := string(b)
	get := func(re string, n int) []string {
		m := regexp.MustCompile(re).FindStringSubmatch(src)
		if m == nil {
			notes = append(notes, "pattern not found in source: "+re)
			return make([]string, n+1)
		}
		return m
	}
	c.B = vc6Int(get(`const itemsPerBatch = ([0-9_]+)`, 1)[1])
	c.C = vc6Int(get(`make\(chan linkedlog\.KeyToOffsetAndSizeAndBlocktime, ([0-9_]+)\)`, 1)[1])
	c.P = vc6Int(get(`howManyBuffersToFlushConcurrently := ([0-9_]+)`, 1)[1])
	m := get(`slot%([0-9_]+) == 0 && a\.accum\.Len\(\) > ([0-9_]+)`, 2)
	c.FE, c.FM = vc6Int(m[1]), vc6Int(m[2])
	c.FS = vc6Int(get(`len\(values\) < ([0-9_]+) &&`, 1)[1])
	c.R = vc6Int(get(`newRollingRankOfTopPerformers\(([0-9_]+)\)`, 1)[1])
	c.Poll = get(`time\.After\(([^)]*)\)`, 1)[1]
	return c, notes
}

// ---------------------------------------------------------------- histories

type vc6Push struct {
	Slot uint64 `json:"slot"`
	Keys []int  `json:"keys"` // address numbers; duplicates allowed (Push dedupes)
	ID   int    `json:"id"`   // 1-based number of the push
	Off  uint64 `json:"offset"`
	Size uint64 `json:"size"`
}

// vc6P builds a push whose entry is determined by its number (distinct offsets within a history).
func vc6P(id int, slot uint64, keys []int) vc6Push {
	return vc6Push{Slot: slot, Keys: keys, ID: id, Off: 1000 + 37*uint64(id), Size: 100 + uint64(id)%50}
}

type vc6Ent struct {
	Off, Size, Slot uint64
	Flags           uint8
}

func vc6EntryOf(p vc6Push) vc6Ent {
	return vc6Ent{Off: p.Off, Size: p.Size, Slot: p.Slot, Flags: uint8(p.ID % 8)}
}

func vc6Key(i int) solana.PublicKey {
	var k solana.PublicKey
	k[0] = byte(i >> 8)
	k[1] = byte(i)
	k[2] = byte(i >> 16)
	k[31] = 7
	return k
}

type vc6Run struct {
	Part  string    `json:"part"`
	Hist  []vc6Push `json:"hist"`
	Procs int       `json:"gomaxprocs"`
	Pace  int       `json:"pace"`
	Rank  int       `json:"rank_size"` // 0: leave the writer's own pop rank
	Seed  uint64    `json:"pace_seed"`
	// Hot (optional): the history is too long to be stored in a report; it is (re)generated from this
	// description by vc6HotHist and Hist is left out of the replay.
	Hot *vc6Hot `json:"hot,omitempty"`
}

// vc6Hot describes a history with very hot addresses (see vc6HotHist).
type vc6Hot struct {
	Seed   uint64 `json:"seed"`
	N      int    `json:"pushes_per_hot_address"`
	NHot   int    `json:"hot_addresses"`
	Others int    `json:"other_addresses"`
}

type vc6Obs struct {
	Key  int
	Got  []vc6Ent
	Err  string // "" | "notfound" | "error"
	Emsg string
}

var vc6Root = cid.MustParse("bafyreics5uul5lbtxslcigtoa5fkba7qgwu7cyb7ih7z6fzsh4lgfgraau")
var vc6DirSeq atomic.Int64
var vc6Seen = map[string]bool{}

type vc6Files struct {
	Log   []byte
	Heads map[int][2]uint64
	HasHd map[int]bool
}

// vc6Exec runs one history on the real code: write, Close, re-open, Get every address.
func vc6Exec(r vc6Run, wantFiles bool) (obs []vc6Obs, files *vc6Files, infra string) {
	dir := filepath.Join(vh.OutDir(), fmt.Sprintf("gsfa-%d", vc6DirSeq.Add(1)))
	_ = os.RemoveAll(dir)
	if err := os.MkdirAll(filepath.Join(dir, "tmp"), 0o755); err != nil {
		return nil, nil, "mkdir: " + err.Error()
	}
	defer os.RemoveAll(dir)
	defer func() {
		// a panic of the writer in the pushing goroutine is an observation of this history, not the end of the run
		if x := recover(); x != nil {
			obs, files, infra = nil, nil, fmt.Sprintf("PANIC in Push: %v", x)
		}
	}()
	w, err := NewGsfaWriter(filepath.Join(dir, "idx"), indexmeta.Meta{}, 0, vc6Root, indexes.NetworkMainnet, filepath.Join(dir, "tmp"))
	if err != nil {
		return nil, nil, "NewGsfaWriter: " + err.Error()
	}
	if r.Rank > 0 {
		w.popRank = newRollingRankOfTopPerformers(r.Rank)
	}
	rng := vh.NewRng(r.Seed + 77)
	keyset := map[int]bool{}
	for _, p := range r.Hist {
		e := vc6EntryOf(p)
		pks := make(solana.PublicKeySlice, len(p.Keys))
		for i, k := range p.Keys {
			pks[i] = vc6Key(k)
			keyset[k] = true
		}
		if err := w.Push(e.Off, e.Size, e.Slot, pks, e.Flags&1 != 0, e.Flags&2 != 0, e.Flags&4 != 0); err != nil {
			return nil, nil, "Push: " + err.Error()
		}
		switch r.Pace {
		case 1:
			runtime.Gosched()
		case 2: // let the background writer take everything that is in the channel
			for i := 0; i < 2000 && len(w.fullBufferWriterChan) > 0; i++ {
				time.Sleep(20 * time.Microsecond)
			}
			time.Sleep(100 * time.Microsecond)
		case 3:
			switch rng.Intn(4) {
			case 0:
				runtime.Gosched()
			case 1:
				time.Sleep(time.Duration(30+rng.Intn(250)) * time.Microsecond)
			}
		}
	}
	done := make(chan error, 1)
	go func() {
		defer func() {
			if x := recover(); x != nil {
				done <- fmt.Errorf("PANIC: %v", x)
			}
		}()
		done <- w.Close()
	}()
	select {
	case err := <-done:
		if err != nil {
			return nil, nil, "Close: " + err.Error()
		}
	case <-time.After(60 * time.Second):
		return []vc6Obs{{Key: -1, Err: "hang"}}, nil, ""
	}
	rd, err := NewGsfaReader(filepath.Join(dir, "idx"))
	if err != nil {
		return nil, nil, "NewGsfaReader: " + err.Error()
	}
	defer rd.Close()
	keys := make([]int, 0, len(keyset))
	for k := range keyset {
		keys = append(keys, k)
	}
	sort.Ints(keys)
	if wantFiles {
		files = &vc6Files{Heads: map[int][2]uint64{}, HasHd: map[int]bool{}}
		files.Log, _ = os.ReadFile(filepath.Join(dir, "idx", "linked-log"))
	}
	for _, k := range keys {
		o := vc6Obs{Key: k}
		func() {
			defer func() {
				if x := recover(); x != nil {
					o.Err, o.Emsg = "panic", fmt.Sprint(x)
				}
			}()
			got, err := rd.Get(context.Background(), vc6Key(k), 1<<30)
			if err != nil {
				o.Err, o.Emsg = "error", err.Error()
				if strings.Contains(err.Error(), "not found") {
					o.Err = "notfound"
				}
				return
			}
			for _, g := range got {
				o.Got = append(o.Got, vc6Ent{g.Offset, g.Size, g.Slot, uint8(g.Flags)})
			}
		}()
		if files != nil {
			if hd, err := rd.offsets.Get(vc6Key(k)); err == nil && hd != nil {
				files.Heads[k] = [2]uint64{hd.Offset, hd.Size}
				files.HasHd[k] = true
			}
		}
		obs = append(obs, o)
	}
	return obs, files, ""
}

// vc6Expected: per address, newest first, each push once even when the address is repeated in the push.
func vc6Expected(h []vc6Push) map[int][]vc6Ent {
	m := map[int][]vc6Ent{}
	for i := len(h) - 1; i >= 0; i-- {
		seen := map[int]bool{}
		for _, k := range h[i].Keys {
			if !seen[k] {
				seen[k] = true
				m[k] = append(m[k], vc6EntryOf(h[i]))
			}
		}
	}
	return m
}

// vc6Classify evaluates the property on one address. Returns the violated clauses (stable signatures).
func vc6Classify(exp []vc6Ent, o vc6Obs) []string {
	if o.Err == "hang" {
		return []string{"close-hang"}
	}
	if o.Err == "panic" {
		return []string{"get-panic"}
	}
	if o.Err == "notfound" {
		return []string{"lost-entries"} // the address appeared, so it has at least one entry
	}
	if o.Err != "" {
		return []string{"unreadable-record"}
	}
	var sigs []string
	pos := map[vc6Ent]int{}
	for i, e := range exp {
		pos[e] = i
	}
	seen := map[vc6Ent]int{}
	foreign := false
	for _, g := range o.Got {
		if _, ok := pos[g]; !ok {
			foreign = true
		}
		seen[g]++
	}
	lost, dup := false, false
	for _, e := range exp {
		if seen[e] == 0 {
			lost = true
		}
		if seen[e] > 1 {
			dup = true
		}
	}
	// relative order of the survivors
	last, order := -1, true
	for _, g := range o.Got {
		if p, ok := pos[g]; ok {
			if p < last {
				order = false
			}
			last = p
		}
	}
	if lost {
		sigs = append(sigs, "lost-entries")
	}
	if dup {
		sigs = append(sigs, "duplicate-entries")
	}
	if foreign {
		sigs = append(sigs, "foreign-entries")
	}
	if !order {
		sigs = append(sigs, "wrong-order")
	}
	return sigs
}

func vc6Short(es []vc6Ent, idOf func(vc6Ent) int) string {
	var sb strings.Builder
	sb.WriteString("[")
	for i, e := range es {
		if i >= 12 {
			fmt.Fprintf(&sb, " ...(%d entries)", len(es))
			break
		}
		if i > 0 {
			sb.WriteString(" ")
		}
		fmt.Fprintf(&sb, "#%d", idOf(e))
	}
	sb.WriteString("]")
	return sb.String()
}

func vc6IDMap(h []vc6Push) func(vc6Ent) int {
	m := map[vc6Ent]int{}
	for _, p := range h {
		m[vc6EntryOf(p)] = p.ID
	}
	return func(e vc6Ent) int {
		if id, ok := m[e]; ok {
			return id
		}
		return 0 // not an entry of this history
	}
}

func vc6HistString(h []vc6Push) string {
	if len(h) > 24 {
		cnt := map[int]int{}
		for _, p := range h {
			for _, k := range p.Keys {
				cnt[k]++
			}
		}
		return fmt.Sprintf("%d pushes, per-address counts %v", len(h), cnt)
	}
	var parts []string
	for _, p := range h {
		parts = append(parts, fmt.Sprintf("#%d:slot%d->%v", p.ID, p.Slot, p.Keys))
	}
	return strings.Join(parts, " ")
}

// ---------------------------------------------------------------- Coq printing

func vc6CoqEnt(e vc6Ent) string {
	return fmt.Sprintf("(%d,%d,%d,%d)", e.Off, e.Size, e.Slot, e.Flags)
}

func vc6CoqKeys(ks []int) string {
	items := make([]string, len(ks))
	for i, k := range ks {
		items[i] = strconv.Itoa(k)
	}
	return "[" + strings.Join(items, ";") + "]"
}

func vc6CoqPrm(c vc6Consts, rank int) string {
	r := c.R
	if rank > 0 {
		r = rank
	}
	return fmt.Sprintf("(%d,%d,%d,%d,%d,%d,%d)", c.B, c.P, c.C, c.FE, c.FM, c.FS, r)
}

// small case: entries are 4-tuples (offset,size,slot,flags)
func vc6CoqSmall(c vc6Consts, r vc6Run, obs []vc6Obs, xr string) string {
	var hs []string
	for _, p := range r.Hist {
		hs = append(hs, fmt.Sprintf("(%d,%s,%s)", p.Slot, vc6CoqKeys(p.Keys), vc6CoqEnt(vc6EntryOf(p))))
	}
	var os_ []string
	for _, o := range obs {
		if o.Err != "" {
			os_ = append(os_, fmt.Sprintf("(%d,None)", o.Key))
			continue
		}
		var es []string
		for _, e := range o.Got {
			es = append(es, vc6CoqEnt(e))
		}
		os_ = append(os_, fmt.Sprintf("(%d,Some %s)", o.Key, vh.CoqList(es)))
	}
	return fmt.Sprintf("(%s, %s, %s, %s)%%N", vc6CoqPrm(c, r.Rank), vh.CoqList(hs), vh.CoqList(os_), xr)
}

// big case: an entry is the number of its push (the Go oracle has compared all fields). Run-length encoded:
// history = runs (count, slot, keys) of consecutive pushes with the same slot and keys (push numbers are
// consecutive from 1); an observed list = ranges (from, to) of consecutive push numbers, descending or ascending.
func vc6CoqBig(c vc6Consts, r vc6Run, obs []vc6Obs) string {
	var hs []string
	for i := 0; i < len(r.Hist); {
		j := i + 1
		for j < len(r.Hist) && r.Hist[j].Slot == r.Hist[i].Slot && fmt.Sprint(r.Hist[j].Keys) == fmt.Sprint(r.Hist[i].Keys) && r.Hist[j].ID == r.Hist[j-1].ID+1 {
			j++
		}
		hs = append(hs, fmt.Sprintf("(%d,%d,%s)", j-i, r.Hist[i].Slot, vc6CoqKeys(r.Hist[i].Keys)))
		i = j
	}
	idOf := vc6IDMap(r.Hist)
	var os_ []string
	for _, o := range obs {
		if o.Err != "" {
			os_ = append(os_, fmt.Sprintf("(%d,None)", o.Key))
			continue
		}
		ids := make([]int, len(o.Got))
		for i, e := range o.Got {
			ids[i] = idOf(e)
		}
		var rs []string
		for i := 0; i < len(ids); {
			j := i + 1
			if j < len(ids) && (ids[j] == ids[i]-1 || ids[j] == ids[i]+1) {
				step := ids[j] - ids[i]
				for j < len(ids) && ids[j] == ids[j-1]+step {
					j++
				}
			}
			rs = append(rs, fmt.Sprintf("(%d,%d)", ids[i], ids[j-1]))
			i = j
		}
		os_ = append(os_, fmt.Sprintf("(%d,Some %s)", o.Key, vh.CoqList(rs)))
	}
	return fmt.Sprintf("(%s, %s, %s)%%N", vc6CoqPrm(c, r.Rank), vh.CoqList(hs), vh.CoqList(os_))
}

// vc6CrossRead renders the bytes of the linked log written by the Go code, the table
// compressed-bytes -> payload of its records (zstd is abstract in the model) and the heads found in the
// pubkey index, so that the model's byte-level reader is run on the file the implementation wrote.
func vc6CrossRead(f *vc6Files) (string, bool) {
	if f == nil || len(f.Log) > 4096 {
		return "None", false
	}
	var tab []string
	pos := 0
	for pos < len(f.Log) {
		p, n := binary.Uvarint(f.Log[pos:])
		if n <= 0 || p < 9 || pos+n+int(p) > len(f.Log) {
			return "None", false
		}
		z := f.Log[pos+n : pos+n+int(p)-9]
		raw, err := tooling.DecompressZstd(z)
		if err != nil {
			return "None", false
		}
		tab = append(tab, fmt.Sprintf("(%s,%s)", vh.CoqBytes(z), vh.CoqBytes(raw)))
		pos += n + int(p)
	}
	keys := make([]int, 0, len(f.Heads))
	for k := range f.Heads {
		keys = append(keys, k)
	}
	sort.Ints(keys)
	var hs []string
	for _, k := range keys {
		hs = append(hs, fmt.Sprintf("(%d,(%d,%d))", k, f.Heads[k][0], f.Heads[k][1]))
	}
	return fmt.Sprintf("(Some (%s, %s, %s))", vh.CoqBytes(f.Log), vh.CoqList(tab), vh.CoqList(hs)), true
}

// ---------------------------------------------------------------- generators

// vc6Canonical enumerates all address sequences of length n over <= maxKeys addresses up to renaming
// (restricted growth strings: the addresses appear for the first time in the order 0,1,2).
func vc6Canonical(n, maxKeys int) [][]int {
	var res [][]int
	var rec func(cur []int, used int)
	rec = func(cur []int, used int) {
		if len(cur) == n {
			res = append(res, append([]int(nil), cur...))
			return
		}
		for k := 0; k <= used && k < maxKeys; k++ {
			u := used
			if k == used {
				u++
			}
			rec(append(cur, k), u)
		}
	}
	rec(nil, 0)
	return res
}

func vc6SlotOf(pattern, idx int) uint64 {
	switch pattern % 3 {
	case 0:
		return uint64(idx + 1) // every FE-th push looks at the periodic flush condition
	case 1:
		return 0 // every push does
	}
	return 1 // none does (FE > 1)
}

func vc6HistOfSeq(seq []int, pattern int) []vc6Push {
	h := make([]vc6Push, len(seq))
	for i, k := range seq {
		// address numbers 1..3 in the history (0 is kept for "no address")
		h[i] = vc6P(i+1, vc6SlotOf(pattern, i), []int{k + 1})
	}
	return h
}

func vc6RandomHist(rng *vh.Rng, nkeys, npush int, multi bool) []vc6Push {
	h := make([]vc6Push, npush)
	hot := 1 + rng.Intn(nkeys)
	for i := range h {
		var ks []int
		nk := 1
		if multi {
			nk = 1 + rng.Intn(3)
		}
		for j := 0; j < nk; j++ {
			if rng.Intn(3) == 0 {
				ks = append(ks, hot)
			} else {
				ks = append(ks, 1+rng.Intn(nkeys))
			}
		}
		var slot uint64
		switch rng.Intn(3) {
		case 0:
			slot = 0
		case 1:
			slot = uint64(rng.Intn(7))
		default:
			slot = uint64(i)
		}
		h[i] = vc6P(i+1, slot, ks)
	}
	return h
}

// vc6PopRankScenario: address 2 has a full batch parked in the background writer, is dropped from the pop
// rank by purge (rank list of size 1: address 1 has the higher flush count) and has one younger entry in
// the accumulator when a push with slot%FE == 0 finds more than FM addresses accumulated.
func vc6PopRankScenario(c vc6Consts) []vc6Push {
	var h []vc6Push
	id := 0
	push := func(slot uint64, k int) {
		id++
		h = append(h, vc6P(id, slot, []int{k}))
	}
	for i := 0; i < 2*c.B; i++ { // two full batches for address 1: flush count 2
		push(1, 1)
	}
	for i := 0; i < c.B; i++ { // one full batch for address 2: flush count 1, batch parked
		push(1, 2)
	}
	push(1, 2) // a younger entry of address 2 stays in the accumulator
	for k := 3; k < 3+c.FM; k++ {
		push(1, k) // enough other addresses accumulated
	}
	push(0, 3+c.FM) // periodic flush: purge drops address 2; its accumulator is flushed
	push(1, 2)
	return h
}

// ---------------------------------------------------------------- the test

type vc6Job struct {
	run      vc6Run
	files    bool
	poprank  bool // compare with the same history under the writer's own rank size
	nontriv  bool
	category string
}

func TestVerif_C06(t *testing.T) {
	klog.LogToStderr(false)
	klog.SetOutput(io.Discard)
	mode := os.Getenv("VERIF_C06_MODE")
	if mode == "" {
		mode = "real"
		if itemsPerBatch < 10 {
			mode = "shrunk"
		}
	}
	// part names sort so that the small-scope report (with the shortest failing histories) is read first
	part := map[string]string{"shrunk": "gsfa_a_shrunk", "real": "gsfa_b_real"}[mode]
	if part == "" {
		part = "gsfa_c_" + mode
	}
	if tag := os.Getenv("VERIF_C06_TAG"); tag != "" {
		part += tag
	}
	rule := "write -> Close -> NewGsfaReader.Get for every address of the history = entries pushed for it, newest first, each once (all four fields compared); "
	if mode == "shrunk" {
		rule += "exhaustive address sequences (<=3 addresses up to renaming, <=8 pushes) under the measured shrunk thresholds x GOMAXPROCS/pacing passes, random multi-address histories, pop-rank scenarios; non-trivial = at least one full batch or one periodic flush"
	} else {
		rule += "real thresholds, per-address counts around the batch size and multiples, and one history with a very hot address (more incompressible entries than one record of the 3-byte size fields can hold, a handful of other addresses interleaved; compared by the Go oracle only, not part of the Coq case files); non-trivial = at least one full batch"
	}
	rep := vh.NewReport("C06", part, rule)
	defer func() {
		if err := rep.Write(); err != nil {
			t.Fatalf("setup failed: cannot write report: %v", err)
		}
	}()

	// ---- constants in effect
	cst, notes := vc6ReadConsts(mode)
	for _, n := range notes {
		rep.Note("%s", n)
	}
	{
		dir := filepath.Join(vh.OutDir(), "gsfa-probe")
		_ = os.MkdirAll(filepath.Join(dir, "tmp"), 0o755)
		w, err := NewGsfaWriter(filepath.Join(dir, "idx"), indexmeta.Meta{}, 0, vc6Root, indexes.NetworkMainnet, filepath.Join(dir, "tmp"))
		if err != nil {
			t.Fatalf("setup failed: NewGsfaWriter: %v", err)
		}
		measuredC := cap(w.fullBufferWriterChan)
		measuredR := w.popRank.rankListSize
		_ = w.Close()
		_ = os.RemoveAll(dir)
		if cst.B != itemsPerBatch || cst.C != measuredC || cst.R != measuredR {
			rep.Note("constants read from source (B=%d C=%d R=%d) differ from the measured ones (B=%d C=%d R=%d): measured ones are used", cst.B, cst.C, cst.R, itemsPerBatch, measuredC, measuredR)
		}
		cst.B, cst.C, cst.R = itemsPerBatch, measuredC, measuredR
	}
	if cst.P < 0 || cst.FE <= 0 || cst.FM < 0 || cst.FS < 0 {
		t.Fatalf("setup failed: cannot determine the writer's constants from %s: %+v", cst.Src, cst)
	}
	rep.Flag("constants", cst)
	rep.Flag("mode", mode)
	shrunkOK := cst.B <= 4 && cst.P <= 4
	if mode == "shrunk" && !shrunkOK {
		rep.Note("the rewrites did not take effect (batch=%d parked=%d): small-scope histories do not reach the thresholds; coverage is reduced to sub-batch histories", cst.B, cst.P)
	}

	rng := vh.NewRng(vh.Seed())
	var jobs [][]vc6Job // one slice per pass (GOMAXPROCS is process wide)
	passProcs := []int{1, 2, 16}

	if rp := vh.Replay(); rp != "" {
		var doc struct {
			Failures []struct {
				Replay vc6Run `json:"replay"`
			} `json:"failures"`
		}
		b, err := os.ReadFile(rp)
		if err != nil || json.Unmarshal(b, &doc) != nil {
			t.Fatalf("setup failed: cannot read replay %s", rp)
		}
		for _, f := range doc.Failures {
			if f.Replay.Part == part && f.Replay.Hot != nil {
				f.Replay.Hist = vc6HotHist(*f.Replay.Hot, itemsPerBatch)
			}
			if f.Replay.Part == part && len(f.Replay.Hist) > 0 {
				jobs = append(jobs, []vc6Job{{run: f.Replay, files: len(f.Replay.Hist) <= 40, nontriv: true, category: "replay"}})
				passProcs = append([]int{f.Replay.Procs}, passProcs...)
				break
			}
		}
	} else if mode == "shrunk" {
		jobs = vc6ShrunkJobs(rng, cst, part)
	} else {
		jobs = vc6RealJobs(rng, cst, part)
	}

	smallCases := vh.NewCases("cases_c06_"+part+"_small", []string{"YF.C06_Check"}, "scase", "check_small")
	bigCases := vh.NewCases("cases_c06_"+part+"_big", []string{"YF.C06_Check"}, "bcase", "check_big")
	var mu sync.Mutex
	nXR := 0
	maxXR := 250
	if vh.Thorough() {
		maxXR = 1500
	}

	oldProcs := runtime.GOMAXPROCS(0)
	defer runtime.GOMAXPROCS(oldProcs)
	for pi, pass := range jobs {
		procs := passProcs[pi%len(passProcs)]
		if len(pass) > 0 && pass[0].run.Procs > 0 {
			procs = pass[0].run.Procs
		}
		runtime.GOMAXPROCS(procs)
		workers := 1
		if procs >= 2 {
			workers = 6
		}
		if mode == "real" {
			workers = 8 // each Close waits for the 1 s poll of the background writer
		}
		var wg sync.WaitGroup
		ch := make(chan vc6Job)
		for wk := 0; wk < workers; wk++ {
			wg.Add(1)
			go func() {
				defer wg.Done()
				for j := range ch {
					vc6Do(rep, cst, j, smallCases, bigCases, &mu, &nXR, maxXR)
				}
			}()
		}
		for _, j := range pass {
			j.run.Procs = procs
			ch <- j
		}
		close(ch)
		wg.Wait()
	}
	runtime.GOMAXPROCS(oldProcs)

	rep.Exhaustive = false
	if smallCases.Len() > 0 {
		if err := smallCases.Write(); err != nil {
			t.Fatalf("setup failed: %v", err)
		}
		rep.CasesWritten(smallCases)
	}
	if bigCases.Len() > 0 {
		if err := bigCases.Write(); err != nil {
			t.Fatalf("setup failed: %v", err)
		}
		rep.CasesWritten(bigCases)
	}
}

func vc6Do(rep *vh.Report, cst vc6Consts, j vc6Job, small, big *vh.CasesFile, mu *sync.Mutex, nXR *int, maxXR int) {
	obs, files, infra := vc6Exec(j.run, j.files)
	rp := j.run // what goes into a replay file
	if rp.Hot != nil {
		rp.Hist = nil // regenerated from rp.Hot
	}
	if infra != "" {
		rep.Fail("writer-error", infra+" on "+vc6HistString(j.run.Hist), rp)
		return
	}
	exp := vc6Expected(j.run.Hist)
	// distribution
	maxCount, fullBatches := 0, 0
	for _, es := range exp {
		if len(es) > maxCount {
			maxCount = len(es)
		}
		fullBatches += len(es) / cst.B
	}
	key := fmt.Sprintf("%s|p%d|pace%d|r%d|%s", j.category, j.run.Procs, j.run.Pace, j.run.Rank, vc6HistKey(j.run.Hist))
	rep.Case(key, j.nontriv || fullBatches > 0)
	rep.Count("category:" + j.category)
	rep.Count(fmt.Sprintf("gomaxprocs:%d", j.run.Procs))
	rep.Count(fmt.Sprintf("pace:%d", j.run.Pace))
	rep.Count(fmt.Sprintf("addresses:%d", len(exp)))
	switch {
	case fullBatches == 0:
		rep.Count("full-batches:0")
	case fullBatches <= 2:
		rep.Count(fmt.Sprintf("full-batches:%d", fullBatches))
	default:
		rep.Count("full-batches:3+")
	}
	for k, es := range exp {
		_ = k
		switch d := len(es) % cst.B; {
		case len(es) >= cst.B && d == 0:
			rep.Count("count-vs-batch:multiple")
		case len(es) > cst.B && d == 1:
			rep.Count("count-vs-batch:multiple+1")
		case d == cst.B-1:
			rep.Count("count-vs-batch:multiple-1")
		default:
			rep.Count("count-vs-batch:other")
		}
	}
	if len(obs) == 1 && obs[0].Key == -1 {
		rep.Fail("close-hang", "Close did not return within 60 s: "+vc6HistString(j.run.Hist), rp)
		return
	}
	bad := map[string]string{}
	idOf := vc6IDMap(j.run.Hist)
	for _, o := range obs {
		for _, sig := range vc6Classify(exp[o.Key], o) {
			if _, ok := bad[sig]; !ok {
				d := fmt.Sprintf("address %d: expected %s got %s", o.Key, vc6Short(exp[o.Key], idOf), vc6Short(o.Got, idOf))
				if o.Err != "" {
					d = fmt.Sprintf("address %d: expected %d entries, Get failed (%s): %s", o.Key, len(exp[o.Key]), o.Err, o.Emsg)
				}
				bad[sig] = d
			}
		}
	}
	if len(bad) > 0 && j.poprank {
		// is the failure due to the pop rank having dropped an address with a pending batch?
		base := j.run
		base.Rank = 0
		obs0, _, infra0 := vc6Exec(base, false)
		ok0 := infra0 == ""
		for _, o := range obs0 {
			if len(vc6Classify(exp[o.Key], o)) > 0 {
				ok0 = false
			}
		}
		if ok0 {
			nb := map[string]string{}
			for s, d := range bad {
				nb["periodic-flush-"+s] = d + " (same history is answered correctly with the default rank size: the periodic flush wrote an address that the pop rank had purged while a batch of it was pending)"
			}
			bad = nb
		}
	}
	for sig, d := range bad {
		rep.Fail(sig, fmt.Sprintf("%s; history: %s; constants batch=%d chan=%d parked=%d flush(slot%%%d,keys>%d,len<%d) rank=%d gomaxprocs=%d pace=%d",
			d, vc6HistString(j.run.Hist), cst.B, cst.C, cst.P, cst.FE, cst.FM, cst.FS, vc6Rank(cst, j.run), j.run.Procs, j.run.Pace), rp)
	}
	if len(j.run.Hist) <= 3 {
		rep.Sample(map[string]interface{}{"history": vc6HistString(j.run.Hist), "observed": fmt.Sprint(obs)})
	}
	// Coq case
	total := 0
	for _, es := range exp {
		total += len(es)
	}
	if j.run.Hot != nil || total > vc6MaxCoqEntries {
		// the Go oracle above has compared every field of every entry; a history of this length is not given to coqc
		rep.Count("oracle-only (history too long for the Coq run)")
		rep.CountN("oracle-only entries compared", total)
		return
	}
	if total <= 80 {
		if !vh.Thorough() && j.category == "exhaustive" && len(j.run.Hist) >= 7 && (len(j.run.Hist)*7+int(j.run.Seed))%5 != 0 {
			rep.Count("oracle-only (quick tier: 1 in 5 of the exhaustive histories of length 7..8 goes to the Coq run)")
			return
		}
		xr := "None"
		mu.Lock()
		doXR := files != nil && *nXR < maxXR
		mu.Unlock()
		if doXR {
			var ok bool
			xr, ok = vc6CrossRead(files)
			if ok {
				mu.Lock()
				*nXR++
				mu.Unlock()
				rep.Count("cross-read:model reader on the Go-written linked log")
			}
		}
		term := vc6CoqSmall(cst, j.run, obs, xr)
		mu.Lock()
		dup := vc6Seen[term]
		vc6Seen[term] = true
		mu.Unlock()
		if dup {
			rep.Count("same history and answers as an earlier case (not repeated in the Coq run)")
		} else {
			small.Add(term)
		}
	} else if len(exp) <= 64 {
		big.Add(vc6CoqBig(cst, j.run, obs))
	} else {
		rep.Count("oracle-only (too many addresses for the Coq run)")
	}
}

func vc6Rank(c vc6Consts, r vc6Run) int {
	if r.Rank > 0 {
		return r.Rank
	}
	return c.R
}

func vc6HistKey(h []vc6Push) string {
	if len(h) > 40 {
		return vc6HistString(h)
	}
	var sb strings.Builder
	for _, p := range h {
		fmt.Fprintf(&sb, "%d%v;", p.Slot, p.Keys)
	}
	return sb.String()
}

func vc6ShrunkJobs(rng *vh.Rng, c vc6Consts, part string) [][]vc6Job {
	passes := make([][]vc6Job, 3)
	paceOf := []int{0, 3, 2}
	maxLen := 8
	idx := 0
	for n := 1; n <= maxLen; n++ {
		for _, seq := range vc6Canonical(n, 3) {
			idx++
			for pass := 0; pass < 3; pass++ {
				if !vh.Thorough() && pass > 0 && n > 6 && rng.Intn(5) != 0 {
					continue // quick: lengths 7..8 are exhaustive in the first pass, sampled 1:5 in the others
				}
				h := vc6HistOfSeq(seq, idx+pass)
				passes[pass] = append(passes[pass], vc6Job{
					run:      vc6Run{Part: part, Hist: h, Pace: paceOf[pass], Seed: uint64(idx)},
					files:    n <= 8,
					category: "exhaustive",
				})
			}
		}
	}
	// random histories with several addresses per push (duplicates included), random slots and rank sizes
	nr := 150
	if vh.Thorough() {
		nr = 1500
	}
	for i := 0; i < nr; i++ {
		h := vc6RandomHist(rng, 2+rng.Intn(3), 5+rng.Intn(26), true)
		rank := []int{0, 1, 2}[rng.Intn(3)]
		pass := rng.Intn(3)
		passes[pass] = append(passes[pass], vc6Job{
			run:   vc6Run{Part: part, Hist: h, Pace: rng.Intn(4), Rank: rank, Seed: rng.U64() % 1000},
			files: true, poprank: rank > 0, category: "random-multi",
		})
	}
	// pop-rank scenarios
	if c.B <= 4 && c.FM <= 8 {
		for pass := 0; pass < 3; pass++ {
			for _, pace := range []int{0, 2} {
				passes[pass] = append(passes[pass], vc6Job{
					run:   vc6Run{Part: part, Hist: vc6PopRankScenario(c), Pace: pace, Rank: 1},
					files: true, poprank: true, nontriv: true, category: "pop-rank-scenario",
				})
			}
		}
	}
	return passes
}

func vc6RealJobs(rng *vh.Rng, c vc6Consts, part string) [][]vc6Job {
	B := c.B
	single := []int{1, B - 1, B, B + 1, 2*B - 1, 2 * B, 2*B + 1, 3 * B}
	if vh.Thorough() {
		single = append(single, 2, B/2, 3*B+1, 4*B, 5*B+3, 7*B-1, 10*B)
	}
	passes := make([][]vc6Job, 3)
	mk := func(h []vc6Push, pace int, cat string) vc6Job {
		return vc6Job{run: vc6Run{Part: part, Hist: h, Pace: pace, Seed: rng.U64() % 1000}, category: cat}
	}
	for i, n := range single {
		if n <= 0 {
			continue
		}
		h := make([]vc6Push, n)
		for j := range h {
			h[j] = vc6P(j+1, uint64(1+j/400), []int{1})
		}
		passes[i%3] = append(passes[i%3], mk(h, 0, "single-address"))
		if vh.Thorough() {
			passes[(i+1)%3] = append(passes[(i+1)%3], mk(h, 3, "single-address"))
			passes[(i+2)%3] = append(passes[(i+2)%3], mk(h, 1, "single-address"))
		}
	}
	// several addresses, interleaved
	mixes := [][]int{{B, B}, {2*B + 1, B - 1, 1}, {2*B + B/2, B + 1}, {B + 1, B + 1, B + 1, 5}}
	if vh.Thorough() {
		for i := 0; i < 30; i++ {
			var m []int
			for k := 0; k < 2+rng.Intn(4); k++ {
				m = append(m, rng.Pick(1, B-1, B, B+1, 2*B-1, 2*B, 2*B+1, 3*B, rng.Range(1, 3*B)))
			}
			mixes = append(mixes, m)
		}
	}
	for i, m := range mixes {
		left := append([]int(nil), m...)
		total := 0
		for _, x := range m {
			total += x
		}
		var h []vc6Push
		for id := 1; id <= total; {
			// pick an address with pushes left, weighted by what is left; push a short run for it
			x := rng.Intn(total - (id - 1))
			k := 0
			for ; k < len(left); k++ {
				if x < left[k] {
					break
				}
				x -= left[k]
			}
			run := 1 + rng.Intn(40)
			if rng.Intn(4) == 0 {
				run = 1
			}
			keys := []int{k + 1}
			if i == 2 && rng.Intn(4) == 0 { // the same address twice in one push: recorded once
				keys = append(keys, k+1)
			}
			slot := uint64(1 + id/2)
			for ; run > 0 && left[k] > 0; run-- {
				left[k]--
				h = append(h, vc6P(id, slot, keys))
				id++
			}
		}
		passes[i%3] = append(passes[i%3], mk(h, []int{0, 3, 1}[i%3], "interleaved"))
	}
	// many full batches of SEVERAL addresses parked in the background writer at the same time (more than a
	// dozen parked buffers, two or three of them per address): their records must still be chained in push order
	{
		nAddr, per := 7, 2*B+7
		if vh.Thorough() {
			nAddr, per = 20, 3*B+7
		}
		var h []vc6Push
		id := 0
		for round := 0; round < per; round++ {
			for k := 1; k <= nAddr; k++ {
				id++
				h = append(h, vc6P(id, uint64(1+round/50), []int{k}))
			}
		}
		passes[0] = append(passes[0], mk(h, 0, "many-parked-batches"))
	}
	// one transaction naming two addresses at once
	{
		var h []vc6Push
		for id := 1; id <= 2*B+1; id++ {
			keys := []int{1}
			if (id/25)%2 == 0 || id > 2*B-3 {
				keys = []int{2, 1, 2}
			}
			h = append(h, vc6P(id, uint64(1+id/100), keys))
		}
		passes[0] = append(passes[0], mk(h, 0, "multi-address-push"))
	}
	// a record whose total length is 128 / 16384 / 16385 bytes (directed search over entry values)
	for i, target := range []int{128, 16384, 16385} {
		if h := vc6DirectedRecord(rng, target, B); h != nil {
			passes[i%3] = append(passes[i%3], mk(h, 0, fmt.Sprintf("record-length-%d", target)))
		}
	}
	// "any per-address count": one very hot address (more entries than one record of the pointer format can
	// ever hold, see vc6HotCount) with incompressible 64-bit locations and slots, a handful of other addresses
	// interleaved, on the unmodified constants. Close must succeed and every address must read back exactly its
	// entries, newest first. Checked by the Go oracle only (not part of the Coq case files).
	{
		hs := vc6Hot{Seed: rng.U64() % 100000, N: vc6HotCount(), NHot: 1, Others: 5}
		j := mk(vc6HotHist(hs, B), 0, "hot-address")
		j.run.Hot, j.nontriv = &hs, true
		passes[1] = append(passes[1], j)
		if vh.Thorough() {
			// two hot addresses taking turns, the pusher yielding to the background writer after every push
			hs2 := vc6Hot{Seed: rng.U64() % 100000, N: vc6HotCount(), NHot: 2, Others: 3}
			j2 := mk(vc6HotHist(hs2, B), 1, "hot-address")
			j2.run.Hot, j2.nontriv = &hs2, true
			passes[2] = append(passes[2], j2)
		}
	}
	// enough distinct addresses to trigger the periodic partial flush at the real thresholds
	if vh.Thorough() && c.FM <= 200000 {
		var h []vc6Push
		id := 0
		for i := 0; i < B+5; i++ {
			id++
			h = append(h, vc6P(id, 1, []int{1}))
		}
		for k := 2; k < c.FM+10; k++ {
			id++
			h = append(h, vc6P(id, 1, []int{k}))
		}
		id++
		h = append(h, vc6P(id, uint64(c.FE)*3, []int{1, 2}))
		for i := 0; i < B; i++ {
			id++
			h = append(h, vc6P(id, 7, []int{1, 3}))
		}
		passes[1] = append(passes[1], mk(h, 0, "periodic-flush-real"))
	}
	return passes
}

// vc6MaxCoqEntries: histories with more entries than this are checked by the Go oracle only.
const vc6MaxCoqEntries = 100_000

// vc6RecordSizeLimit is the largest record the on-disk format can point at: record sizes are stored in 3 bytes
// (uint24) in the pubkey index and in the 9-byte previous-record pointer.
const vc6RecordSizeLimit = 1<<24 - 1

// vc6HotCount: a per-address count whose entries cannot fit ONE addressable record, whatever the compressor
// does: the entries built by vc6HotHist carry 3 x 63 random bits, i.e. at least 24 bytes of entropy each.
// The property quantifies over any per-address count; a writer is free to lay the entries out as it likes, but
// it must stay within its own pointer format.
func vc6HotCount() int { return vc6RecordSizeLimit/24 + 1 + 1000 }

// vc6HotHist builds a history in which NHot addresses (numbers 1..NHot) take part in N pushes each, with
// pseudo-random 64-bit offsets, sizes and slots (top bit set: every uvarint is 10 bytes wide, the entries do
// not compress), while a handful of other addresses (numbers NHot+1 ..) show up now and then: named together
// with a hot address, in single pushes of their own, and one of them in a run of B+1 pushes of its own so that
// a full batch of ANOTHER address reaches the background writer while the hot ones are busy.
func vc6HotHist(hs vc6Hot, B int) []vc6Push {
	rng := vh.NewRng(hs.Seed*2654435761 + 99)
	if hs.NHot < 1 {
		hs.NHot = 1
	}
	total := hs.N * hs.NHot
	h := make([]vc6Push, 0, total+B+64)
	id := 0
	runner := hs.NHot + 1 // the other address that crosses a batch boundary on its own
	every := total/(7*(hs.Others+1)) + 1
	hot := 1
	left := 0
	for i := 0; i < total; i++ {
		if left == 0 { // the hot addresses take turns in runs of 1..3000 pushes
			hot = 1 + (hot % hs.NHot)
			left = 1 + rng.Intn(3000)
		}
		left--
		id++
		keys := []int{hot}
		if hs.Others > 0 && i%every == every/2 {
			keys = append(keys, hs.NHot+1+(i/every)%hs.Others)
		}
		h = append(h, vc6Push{Slot: rng.U64() | 1<<63, Keys: keys, ID: id, Off: rng.U64() | 1<<63, Size: rng.U64() | 1<<63})
		if hs.Others > 0 && i == total/2 {
			for k := 0; k < B+1; k++ {
				id++
				h = append(h, vc6P(id, uint64(3+k/300), []int{runner}))
			}
		}
		if hs.Others > 1 && i%(3*every) == every {
			id++
			h = append(h, vc6P(id, uint64(1+i/1000), []int{hs.NHot + 1 + rng.Intn(hs.Others)}))
		}
	}
	return h
}

// vc6DirectedRecord searches entry values such that the record written at Close for one address
// (all entries still in the accumulator: fewer than B) has exactly `target` bytes in total:
// uvarint(len(z)+9) + z + 9 with z = zstd(entries newest first).
// The entries of a history are determined by the push numbers (vc6EntryOf), so the search is over
// (first id, count, slots).
func vc6DirectedRecord(rng *vh.Rng, target, B int) []vc6Push {
	sizeOf := func(h []vc6Push) int {
		var raw []byte
		for i := len(h) - 1; i >= 0; i-- {
			e := vc6EntryOf(h[i])
			o := linkedlog.OffsetAndSizeAndSlot{Offset: e.Off, Size: e.Size, Slot: e.Slot, Flags: linkedlog.Bitmap(e.Flags)}
			raw = append(raw, o.Bytes()...)
		}
		z, err := tooling.CompressZstd(raw)
		if err != nil {
			return -1
		}
		p := len(z) + 9
		return len(binary.AppendUvarint(nil, uint64(p))) + p
	}
	// offsets, sizes and slots are free 64-bit values: random ones make the payload nearly incompressible;
	// the number of entries tunes the length coarsely, the varint width of single slots byte by byte
	fresh := func(id int) vc6Push {
		return vc6Push{Slot: rng.U64() | 1<<63, Keys: []int{1}, ID: id, Off: rng.U64() | 1<<63, Size: rng.U64() | 1<<63}
	}
	width := func(v uint64) int { return len(binary.AppendUvarint(nil, v)) }
	n := 3
	if target > 1000 {
		n = target / 31
	}
	var h []vc6Push
	for i := 0; i < n; i++ {
		h = append(h, fresh(i+1))
	}
	for iter := 0; iter < 600; iter++ {
		s := sizeOf(h)
		if s == target {
			return h
		}
		d := target - s
		switch {
		case d > 35 && len(h) < B-1:
			for k := 0; k < d/31 && len(h) < B-1; k++ {
				h = append(h, fresh(len(h)+1))
			}
		case d < -35 && len(h) > 1:
			k := (-d) / 31
			if k >= len(h) {
				k = len(h) - 1
			}
			h = h[:len(h)-k]
		case d > 0:
			i := rng.Intn(len(h))
			if width(h[i].Slot) < 10 {
				h[i].Slot = h[i].Slot<<7 | uint64(rng.Intn(128)) | 1
			} else if len(h) < B-1 {
				p := fresh(len(h) + 1)
				p.Slot, p.Size = uint64(1+rng.Intn(100)), uint64(1+rng.Intn(100))
				h = append(h, p)
			}
		default:
			i := rng.Intn(len(h))
			if width(h[i].Slot) > 1 {
				h[i].Slot >>= 7
			} else if width(h[i].Size) > 1 {
				h[i].Size >>= 7
			}
		}
	}
	return nil
}
