package manifest

// Verification harness for C12, gsfa manifest files (injected with `go test -overlay`; not part of the repository).
// Structure-aware mutation of valid manifest files (written by the real NewManifest / Put / Close) written to a
// fresh file and opened with NewManifest, then ReadAll / ContentSizeBytes / Meta / Version / Close, under the c12h
// watchdog (child process under ulimit -v, recover(), allocation accounting). Oracle only: no panic, no allocation
// out of proportion to the input, no hang.
//
// An EMPTY file is initialised by NewManifest (writer behaviour), so an empty input is replaced by a 1-byte file.

import (
	"fmt"
	"os"
	"path/filepath"
	"runtime"
	"testing"
	"time"

	"github.com/rpcpool/yellowstone-faithful/indexmeta"
	"github.com/rpcpool/yellowstone-faithful/zzverif/c12h"
	"github.com/rpcpool/yellowstone-faithful/zzverif/vh"
)

func vc12Seeds(dir string, rng *vh.Rng) ([]c12h.Seed, error) {
	var seeds []c12h.Seed
	type shape struct{ nmeta, nputs int }
	for i, sh := range []shape{{2, 3}, {0, 1}, {1, 20}, {4, 0}} {
		var meta indexmeta.Meta
		for m := 0; m < sh.nmeta; m++ {
			key, val := rng.Bytes(1+rng.Intn(6)), rng.Bytes(rng.Intn(12))
			if m == 0 {
				key, val = []byte("epoch"), []byte("test")
			}
			if err := meta.Add(key, val); err != nil {
				return seeds, err
			}
		}
		path := fmt.Sprintf("%s/manifest%d", dir, i)
		_ = os.Remove(path)
		m, err := NewManifest(path, meta)
		if err != nil {
			return seeds, err
		}
		for p := 0; p < sh.nputs; p++ {
			if err := m.Put(rng.U64(), rng.U64()); err != nil {
				return seeds, err
			}
		}
		if err := m.Close(); err != nil {
			return seeds, err
		}
		data, err := os.ReadFile(path)
		if err != nil {
			return seeds, err
		}
		metaLen := len(meta.Bytes())
		if len(data) != 16+metaLen+16*sh.nputs {
			c12h.SkipSeed(fmt.Sprintf("seed %d", i), fmt.Sprintf("unexpected file size %d", len(data)))
			continue
		}
		// the valid file must open and give back what was put
		m2, err := NewManifest(path, indexmeta.Meta{})
		if err != nil {
			c12h.SkipSeed(fmt.Sprintf("seed %d", i), fmt.Sprintf("does not open: %v", err))
			continue
		}
		all, err := m2.ReadAll()
		_ = m2.Close()
		if err != nil || len(all) != sh.nputs {
			c12h.SkipSeed(fmt.Sprintf("seed %d", i), fmt.Sprintf("ReadAll gave %d values, %v", len(all), err))
			continue
		}
		seeds = append(seeds, c12h.Seed{Name: fmt.Sprintf("manifest-m%d-p%d", sh.nmeta, sh.nputs), Data: data,
			Nums: []uint64{uint64(16 + metaLen)}})
	}
	return seeds, nil
}

func vc12Fields(s *c12h.Seed) (fields []c12h.Field, boundaries []int) {
	end := int(s.Nums[0]) // end of header + meta
	fields = append(fields, c12h.Field{Name: "hdr.magic0", Off: 0, Len: 1}, c12h.Field{Name: "hdr.version", Off: 8, Len: 8},
		c12h.Field{Name: "meta.count", Off: 16, Len: 1})
	boundaries = append(boundaries, 8, 16, 17, end)
	p := 17
	cnt := int(s.Data[16])
	for i := 0; i < cnt && p < end; i++ {
		fields = append(fields, c12h.Field{Name: "meta.keylen", Off: p, Len: 1})
		p += 1 + int(s.Data[p])
		if p >= end {
			break
		}
		fields = append(fields, c12h.Field{Name: "meta.vallen", Off: p, Len: 1})
		p += 1 + int(s.Data[p])
		boundaries = append(boundaries, p)
	}
	for q := end + 16; q <= len(s.Data) && q <= end+48; q += 16 {
		boundaries = append(boundaries, q)
	}
	return
}

func vc12Gen(seeds []c12h.Seed, rng *vh.Rng, thorough bool) []c12h.Input {
	var ins []c12h.Input
	nrand := 700
	if thorough {
		nrand = 8000
	}
	for si := range seeds {
		s := &seeds[si]
		fields, bounds := vc12Fields(s)
		end := int(s.Nums[0])
		ins = append(ins, c12h.Input{Entry: "open", Label: "valid", Data: s.Data})
		ins = append(ins, c12h.MutateFields("open", s, fields, nil, nil)...)
		ins = append(ins, c12h.Truncations("open", s, bounds, nil, nil)...)
		// every truncation of the small files, and extensions by 1..33 bytes (content that is not a multiple of 16)
		if len(s.Data) < 200 {
			for n := 1; n < len(s.Data); n++ {
				ins = append(ins, c12h.Input{Entry: "open", Label: "truncate-all", Data: append([]byte(nil), s.Data[:n]...)})
			}
		}
		for _, k := range []int{1, 2, 8, 15, 16, 17, 32, 33} {
			ins = append(ins, c12h.Input{Entry: "open", Label: "extend", Data: append(append([]byte(nil), s.Data...), rng.Bytes(k)...)})
		}
		// meta length bytes changed AND the file padded so that the content is again a multiple of 16
		for _, f := range fields[2:] {
			for _, v := range []byte{0, 1, 2, 15, 16, 17, 127, 128, 254, 255} {
				for pad := 0; pad < 16; pad += 5 {
					d := append([]byte(nil), s.Data...)
					d[f.Off] = v
					d = append(d, rng.Bytes(pad)...)
					ins = append(ins, c12h.Input{Entry: "open", Label: "field+pad:" + f.Name, Data: d})
				}
			}
		}
		ins = append(ins, c12h.RandomMutations("open", s, rng, nrand, end, nil, nil)...)
		// same-length edits only (the content stays a multiple of 16, so that the file opens more often)
		for i := 0; i < nrand; i++ {
			d := append([]byte(nil), s.Data...)
			k := 1 + rng.Intn(3)
			for j := 0; j < k; j++ {
				pos := rng.Intn(len(d))
				if rng.Intn(3) != 0 && end > 8 {
					pos = 8 + rng.Intn(end-8)
				}
				d[pos] = []byte{0, 1, 2, 4, 5, 6, 0x7f, 0x80, 0xff, byte(rng.U64())}[rng.Intn(10)]
			}
			ins = append(ins, c12h.Input{Entry: "open", Label: "random-inplace", Data: d})
		}
	}
	hdr := append(append([]byte(nil), _MAGIC[:]...), 5, 0, 0, 0, 0, 0, 0, 0)
	ins = append(ins, c12h.Junk("open", rng, 300, hdr)...)
	return ins
}

var vc12Counter int

func vc12Exec(in *c12h.Input) c12h.Obs {
	data := in.Data
	if len(data) == 0 {
		data = []byte{0} // an empty file would be initialised (writer behaviour), not parsed
	}
	dir := filepath.Join(vh.OutDir(), "c12_manifest_run")
	if err := os.MkdirAll(dir, 0o755); err != nil {
		panic("VERIF-HARNESS-BUG cannot create run directory: " + err.Error())
	}
	vc12Counter++
	path := filepath.Join(dir, fmt.Sprintf("m-%d-%d", os.Getpid(), vc12Counter))
	var werr error
	for attempt := 0; attempt < 5; attempt++ {
		// NewManifest does not close the file when it returns an error: the descriptors are released by the
		// finalizers only, so make room when the process runs out of them
		if werr = os.WriteFile(path, data, 0o644); werr == nil {
			break
		}
		runtime.GC()
		time.Sleep(20 * time.Millisecond)
	}
	if werr != nil {
		panic("VERIF-HARNESS-BUG cannot write the input file: " + werr.Error())
	}
	defer os.Remove(path)
	if vc12Counter%256 == 0 {
		runtime.GC() // see above: close leaked descriptors
	}
	m, err := NewManifest(path, indexmeta.Meta{})
	if err != nil {
		return c12h.Obs{Class: "error", Fine: "open-error"}
	}
	defer m.Close()
	version := m.Version()
	meta := m.Meta()
	_, _ = meta.GetString([]byte("epoch"))
	size, err := m.ContentSizeBytes()
	if err != nil {
		return c12h.Obs{Class: "error", Fine: "size-error"}
	}
	all, err := m.ReadAll()
	if err != nil {
		return c12h.Obs{Class: "error", Fine: "readall-error", Nums: []uint64{version, uint64(size)}}
	}
	_, _ = all.First()
	_, _ = all.Last()
	return c12h.Obs{Class: "ok", Nums: []uint64{version, uint64(size), uint64(len(all)), uint64(len(meta.KeyVals))}}
}

func vc12Budget(in *c12h.Input) uint64 { return uint64(16*len(in.Data)) + 256<<10 }

func TestVerif_C12(t *testing.T) {
	c12h.Run(t, &c12h.Part{
		Name:  "manifest",
		Rule:  "gsfa manifest: mutated valid manifest files (version, meta count, key/value length bytes, truncation at every byte, extension, random edits, junk) written to a file and opened with NewManifest, then ReadAll / ContentSizeBytes / Meta / Version / Close: no panic, allocation <= 16*len+256KiB, no hang",
		Seeds: vc12Seeds, Gen: vc12Gen, Exec: vc12Exec, Budget: vc12Budget,
	})
}
