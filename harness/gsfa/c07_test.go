package gsfa

// Verification harness for C07 (injected with `go test -overlay`; not part of the repository).
//
// Three per-epoch GSFA indexes are written ONCE with the real writer (NewGsfaWriter / Push / Close; record
// boundaries are made with the writer's own flushKVs, exactly as Push's periodic flush does). They hold many
// addresses; address A(n0,n1,n2,variant) has n_i entries in epoch i (0 = the address never appears there), split
// into linked-log records by a composition of n_i. The index directories are opened with NewGsfaReader +
// NewGsfaReaderMultiepoch and GetBeforeUntil / GetBeforeUntilSlot are called with an in-memory fetcher.
//
// Oracle (property text, evaluated in Go on the flat newest-first history): the slice specification for the
// signature-bounded call; "only slots inside [until, before), and the first `limit` of them" for the slot-bounded
// call; no error when the address is absent from some epochs. A sample of the calls is written as Coq cases
// (YF.C07_Check.check) with the observed result maps.

import (
	"context"
	"encoding/binary"
	"encoding/json"
	"fmt"
	"os"
	"path/filepath"
	"sort"
	"strings"
	"sync"
	"testing"

	"github.com/gagliardetto/solana-go"
	"github.com/ipfs/go-cid"
	"github.com/rpcpool/yellowstone-faithful/gsfa/linkedlog"
	"github.com/rpcpool/yellowstone-faithful/indexes"
	"github.com/rpcpool/yellowstone-faithful/indexmeta"
	"github.com/rpcpool/yellowstone-faithful/ipld/ipldbindcode"
	"github.com/rpcpool/yellowstone-faithful/slottools"
	"github.com/rpcpool/yellowstone-faithful/zzverif/vh"
)

var vc07Epochs = []uint64{8, 6, 5} // newest first; deliberately not contiguous

type vc07Entry struct {
	Sig   int    `json:"sig"` // identifier; the 64-byte signature is derived from it
	Slot  uint64 `json:"slot"`
	Epoch uint64 `json:"epoch"`
}

type vc07Addr struct {
	pk     solana.PublicKey
	counts [3]int
	// chain[i] = records of epoch vc07Epochs[i], head (newest record) first, entries newest first; nil = absent
	chain [3][][]vc07Entry
}

func vc07SigBytes(id int) solana.Signature {
	var s solana.Signature
	binary.LittleEndian.PutUint64(s[0:8], uint64(id))
	for i := 8; i < 64; i++ {
		s[i] = byte(0xA0 + i)
	}
	return s
}

func vc07SigID(s solana.Signature) int { return int(binary.LittleEndian.Uint64(s[0:8])) }

// compositions of n (ordered lists of positive integers summing to n)
func vc07Compositions(n int) [][]int {
	if n == 0 {
		return [][]int{{}}
	}
	var res [][]int
	for first := 1; first <= n; first++ {
		for _, rest := range vc07Compositions(n - first) {
			res = append(res, append([]int{first}, rest...))
		}
	}
	return res
}

type vc07Fixture struct {
	dirs    [3]string
	readers [3]*GsfaReader
	addrs   []*vc07Addr
	txs     map[[2]uint64]*ipldbindcode.Transaction // (epoch, offset) -> transaction node
	fetches int
}

func (fx *vc07Fixture) fetcher(epoch uint64, oas linkedlog.OffsetAndSizeAndSlot) (*ipldbindcode.Transaction, error) {
	fx.fetches++
	tx, ok := fx.txs[[2]uint64{epoch, oas.Offset}]
	if !ok {
		return nil, fmt.Errorf("vc07: no transaction at epoch %d offset %d", epoch, oas.Offset)
	}
	return tx, nil
}

// vc07Build writes the three indexes. Everything random comes from rng.
func vc07Build(t *testing.T, rng *vh.Rng, variants int, allCompositions bool) *vc07Fixture {
	fx := &vc07Fixture{txs: map[[2]uint64]*ipldbindcode.Transaction{}}
	root := filepath.Join(vh.OutDir(), "c07idx")
	_ = os.RemoveAll(root)
	nextOff := uint64(1000)
	// plan the addresses
	addrNo := 0
	newAddr := func(counts [3]int, comps [3][]int) {
		a := &vc07Addr{counts: counts}
		addrNo++
		nextSig := addrNo*100 + 1 // global id = address number * 100 + position in the address's history (1 = oldest)
		binary.LittleEndian.PutUint32(a.pk[0:4], uint32(addrNo))
		a.pk[5] = byte(rng.Intn(256))
		a.pk[31] = 0xC7
		for i := 2; i >= 0; i-- { // oldest epoch first so that signature ids grow with time
			if counts[i] == 0 {
				continue
			}
			e := vc07Epochs[i]
			base := e * slottools.EpochLen
			slot := base + uint64(rng.Pick(0, 0, 1, 7, 431990))
			var recsOldestFirst [][]vc07Entry
			for _, sz := range comps[i] {
				var rec []vc07Entry
				for k := 0; k < sz; k++ {
					rec = append(rec, vc07Entry{Sig: nextSig, Slot: slot, Epoch: e})
					nextSig++
					slot += uint64(rng.Pick(0, 0, 1, 1, 2, 5))
					if slot > base+slottools.EpochLen-1 {
						slot = base + slottools.EpochLen - 1
					}
				}
				recsOldestFirst = append(recsOldestFirst, rec)
			}
			// store newest first
			for r := len(recsOldestFirst) - 1; r >= 0; r-- {
				rec := recsOldestFirst[r]
				rev := make([]vc07Entry, len(rec))
				for k := range rec {
					rev[len(rec)-1-k] = rec[k]
				}
				a.chain[i] = append(a.chain[i], rev)
			}
		}
		fx.addrs = append(fx.addrs, a)
	}
	for n0 := 0; n0 <= 4; n0++ {
		for n1 := 0; n1 <= 4; n1++ {
			for n2 := 0; n2 <= 4; n2++ {
				counts := [3]int{n0, n1, n2}
				if allCompositions {
					c0, c1, c2 := vc07Compositions(n0), vc07Compositions(n1), vc07Compositions(n2)
					for _, a := range c0 {
						for _, b := range c1 {
							for _, c := range c2 {
								newAddr(counts, [3][]int{a, b, c})
							}
						}
					}
					continue
				}
				for v := 0; v < variants; v++ {
					var comps [3][]int
					for i, n := range counts {
						if n == 0 {
							continue
						}
						if v == 0 {
							comps[i] = []int{n} // one record, what the writer produces below 1000 entries
						} else {
							cs := vc07Compositions(n)
							comps[i] = cs[rng.Intn(len(cs))]
						}
					}
					newAddr(counts, comps)
				}
			}
		}
	}
	// a noise address present in every epoch, pushed together with some entries (a transaction mentions several accounts)
	var noise solana.PublicKey
	noise[0], noise[31] = 0xEE, 0xC7

	dummyRoot := cid.MustParse("bafyreics5uul5lbtxslcigtoa5fkba7qgwu7cyb7ih7z6fzsh4lgfgraau")
	var wg sync.WaitGroup
	errs := make([]error, 3)
	var mu sync.Mutex
	for i := 0; i < 3; i++ {
		i := i
		e := vc07Epochs[i]
		fx.dirs[i] = filepath.Join(root, fmt.Sprintf("epoch-%d", e))
		tmp := filepath.Join(root, fmt.Sprintf("tmp-%d", e))
		if err := os.MkdirAll(tmp, 0o755); err != nil {
			t.Fatalf("setup failed: %v", err)
		}
		// decide offsets and flush points sequentially (rng is not concurrency safe), then write concurrently
		type op struct {
			flush bool
			pk    solana.PublicKey
			ent   vc07Entry
			off   uint64
			size  uint64
			noise bool
		}
		var ops []op
		for _, a := range fx.addrs {
			recs := a.chain[i]
			for r := len(recs) - 1; r >= 0; r-- { // oldest record first
				rec := recs[r]
				for k := len(rec) - 1; k >= 0; k-- { // oldest entry first
					nextOff += uint64(200 + rng.Intn(50))
					ops = append(ops, op{pk: a.pk, ent: rec[k], off: nextOff, size: uint64(150 + rng.Intn(40)), noise: rng.Intn(6) == 0})
				}
				// the newest record may be left for Close (flushAccum) or flushed like the older ones
				if r > 0 || rng.Bool() {
					ops = append(ops, op{flush: true, pk: a.pk})
				}
			}
		}
		for _, o := range ops {
			if !o.flush {
				fx.txs[[2]uint64{e, o.off}] = &ipldbindcode.Transaction{
					Kind: 0,
					Data: ipldbindcode.DataFrame{Kind: 6, Data: append([]byte{1}, func() []byte { s := vc07SigBytes(o.ent.Sig); return s[:] }()...)},
					Slot: int(o.ent.Slot),
				}
			}
		}
		wg.Add(1)
		go func() {
			defer wg.Done()
			w, err := NewGsfaWriter(fx.dirs[i], indexmeta.Meta{}, e, dummyRoot, indexes.NetworkMainnet, tmp)
			if err != nil {
				mu.Lock()
				errs[i] = err
				mu.Unlock()
				return
			}
			for _, o := range ops {
				if o.flush {
					// what Push does for a key when its periodic flush condition holds: flushKVs + accum.Delete
					w.mu.Lock()
					vals, ok := w.accum.Get(o.pk)
					if ok && len(vals) > 0 {
						err = w.flushKVs(linkedlog.KeyToOffsetAndSizeAndBlocktime{Key: o.pk, Values: vals})
						w.accum.Delete(o.pk)
					}
					w.mu.Unlock()
				} else {
					keys := solana.PublicKeySlice{o.pk}
					if o.noise {
						keys = append(keys, noise)
					}
					err = w.Push(o.off, o.size, o.ent.Slot, keys, true, true, false)
				}
				if err != nil {
					break
				}
			}
			if err == nil {
				err = w.Close()
			}
			mu.Lock()
			errs[i] = err
			mu.Unlock()
		}()
	}
	wg.Wait()
	for i, err := range errs {
		if err != nil {
			t.Fatalf("setup failed: writing the index of epoch %d: %v", vc07Epochs[i], err)
		}
	}
	for i := 0; i < 3; i++ {
		r, err := NewGsfaReader(fx.dirs[i])
		if err != nil {
			t.Fatalf("setup failed: opening the index of epoch %d: %v", vc07Epochs[i], err)
		}
		r.SetEpoch(vc07Epochs[i])
		fx.readers[i] = r
	}
	return fx
}

// ---------- oracle on the flat history ----------

// flat history of an address over the given reader positions (in that order)
func (a *vc07Addr) flat(readers []int) []vc07Entry {
	var h []vc07Entry
	for _, i := range readers {
		for _, rec := range a.chain[i] {
			h = append(h, rec...)
		}
	}
	return h
}

func vc07SliceSpec(h []vc07Entry, limit int, before, until *int) []vc07Entry {
	exp := h
	if before != nil {
		idx := -1
		for i, x := range exp {
			if x.Sig == *before {
				idx = i
				break
			}
		}
		if idx < 0 {
			exp = nil
		} else {
			exp = exp[idx+1:]
		}
	}
	if limit <= 0 {
		return nil
	}
	if len(exp) > limit {
		exp = exp[:limit]
	}
	if until != nil {
		for i, x := range exp {
			if x.Sig == *until {
				exp = exp[:i+1]
				break
			}
		}
	}
	return exp
}

func vc07SlotSpec(h []vc07Entry, limit int, before, until uint64) []vc07Entry {
	var exp []vc07Entry
	if limit <= 0 {
		return nil
	}
	for _, x := range h {
		if x.Slot >= until && x.Slot < before {
			exp = append(exp, x)
			if len(exp) == limit {
				break
			}
		}
	}
	return exp
}

type vc07Obs struct {
	Err    string                 `json:"err,omitempty"`
	Epochs []uint64               `json:"epochs"` // keys in descending order, empty slices dropped
	ByEp   map[uint64][]vc07Entry `json:"by_epoch"`
}

func vc07Observe(m EpochToTransactionObjects, err error) vc07Obs {
	o := vc07Obs{ByEp: map[uint64][]vc07Entry{}}
	if err != nil {
		o.Err = err.Error()
		return o
	}
	for e, txs := range m {
		if len(txs) == 0 {
			continue
		}
		o.Epochs = append(o.Epochs, e)
		for _, tx := range txs {
			sig, serr := tx.Signature()
			if serr != nil {
				o.Err = "returned transaction without signature: " + serr.Error()
				return o
			}
			o.ByEp[e] = append(o.ByEp[e], vc07Entry{Sig: vc07SigID(sig), Slot: uint64(tx.Slot), Epoch: e})
		}
	}
	sort.Slice(o.Epochs, func(i, j int) bool { return o.Epochs[i] > o.Epochs[j] })
	return o
}

func (o vc07Obs) flat() []vc07Entry {
	var l []vc07Entry
	for _, e := range o.Epochs {
		l = append(l, o.ByEp[e]...)
	}
	return l
}

func vc07SameGrouped(exp []vc07Entry, o vc07Obs) bool {
	// expected grouped by epoch (entries carry their epoch) must equal the observed map
	got := o.flat()
	if len(got) != len(exp) {
		return false
	}
	// exp is in descending epoch order by construction when the readers are; compare per epoch
	byEp := map[uint64][]vc07Entry{}
	for _, x := range exp {
		byEp[x.Epoch] = append(byEp[x.Epoch], x)
	}
	if len(byEp) != len(o.Epochs) {
		return false
	}
	for e, l := range byEp {
		g := o.ByEp[e]
		if len(g) != len(l) {
			return false
		}
		for i := range l {
			if g[i] != l[i] {
				return false
			}
		}
	}
	return true
}

// ---------- Coq terms ----------

// Coq terms use the position of the entry in its address's history (1..12) as the signature identifier (small nat literals)
func vc07CoqEntry(x vc07Entry) string { return fmt.Sprintf("(%d, %d%%N)", x.Sig%100, x.Slot) }

func vc07CoqEpochs(a *vc07Addr, readers []int) string {
	var eps []string
	for _, i := range readers {
		if a.chain[i] == nil {
			eps = append(eps, fmt.Sprintf("(%d%%N, NotFound)", vc07Epochs[i]))
			continue
		}
		var recs []string
		for _, rec := range a.chain[i] {
			var es []string
			for _, x := range rec {
				es = append(es, vc07CoqEntry(x))
			}
			recs = append(recs, "["+strings.Join(es, "; ")+"]")
		}
		eps = append(eps, fmt.Sprintf("(%d%%N, Found [%s])", vc07Epochs[i], strings.Join(recs, "; ")))
	}
	return "[" + strings.Join(eps, "; ") + "]"
}

func vc07CoqObs(o vc07Obs) string {
	if o.Err != "" {
		return "None"
	}
	var items []string
	for _, e := range o.Epochs {
		var es []string
		for _, x := range o.ByEp[e] {
			es = append(es, vc07CoqEntry(x))
		}
		items = append(items, fmt.Sprintf("(%d%%N, [%s])", e, strings.Join(es, "; ")))
	}
	return "(Some [" + strings.Join(items, "; ") + "])"
}

func vc07CoqOptSig(p *int) string {
	if p == nil {
		return "None"
	}
	return fmt.Sprintf("(Some %d)", *p%100)
}

// ---------- one call ----------

type vc07Call struct {
	Kind    string  `json:"kind"` // "sig" | "slot"
	Addr    int     `json:"addr"` // index into the fixture's address list (deterministic from the seed and tier)
	Counts  [3]int  `json:"entries_per_epoch_8_6_5"`
	Records [3][]int `json:"record_sizes_newest_first"`
	Readers []int   `json:"reader_positions"` // positions into epochs [8 6 5], in the order given to NewGsfaReaderMultiepoch
	Limit   int     `json:"limit"`
	Before  *int    `json:"before_sig,omitempty"`
	Until   *int    `json:"until_sig,omitempty"`
	BeforeS uint64  `json:"before_slot,omitempty"`
	UntilS  uint64  `json:"until_slot,omitempty"`
	History []vc07Entry `json:"history_newest_first"`
	Expect  []vc07Entry `json:"expected"`
	Got     vc07Obs     `json:"observed"`
	// long-lived-reader runs (c07shared_test.go) only:
	Preceded []string `json:"preceded_by_on_the_same_readers,omitempty"` // the calls issued just before this one, oldest first
	Fresh    *vc07Obs `json:"observed_on_freshly_opened_readers,omitempty"`
}

type vc07Run struct {
	fx     *vc07Fixture
	rep    *vh.Report
	cases  *vh.CasesFile
	multis map[string]*GsfaReaderMultiepoch
	named  map[string]string
	t      *testing.T
	// long-lived-reader runs (c07shared_test.go): calls are labelled, remember what preceded them on the same readers,
	// and a mismatch may be re-classified (same call on freshly opened readers). Unset in the single-address sweep.
	kind       string
	recent     []string
	onMismatch func(c *vc07Call, sig string) string // returns the failure signature to report ("" = count only)
}

// remember keeps the last calls issued on the long-lived readers (for the replay record of a later failure)
func (r *vc07Run) remember(key string) {
	if r.kind == "" {
		return
	}
	if len(r.recent) >= 12 {
		r.recent = append(r.recent[:0], r.recent[1:]...)
	}
	r.recent = append(r.recent, key)
}

// failMismatch reports a result that is not the slice / window the property describes
func (r *vc07Run) failMismatch(sig, detail string, c vc07Call) {
	if r.onMismatch != nil {
		if sig = r.onMismatch(&c, sig); sig == "" {
			return
		}
	}
	r.rep.Fail(sig, detail, c)
}

// epsTerm names the (address, readers) description once in the case file's preamble and returns the name
func (r *vc07Run) epsTerm(ai int, readers []int) string {
	k := fmt.Sprintf("a%d", ai)
	for _, i := range readers {
		k += fmt.Sprintf("_%d", i)
	}
	if n, ok := r.named[k]; ok {
		return n
	}
	r.cases.Preamble(fmt.Sprintf("Definition %s : list epoch := %s.", k, vc07CoqEpochs(r.fx.addrs[ai], readers)))
	r.named[k] = k
	return k
}

func (r *vc07Run) multi(readers []int) *GsfaReaderMultiepoch {
	k := fmt.Sprint(readers)
	if m, ok := r.multis[k]; ok {
		return m
	}
	var rs []*GsfaReader
	for _, i := range readers {
		rs = append(rs, r.fx.readers[i])
	}
	m, err := NewGsfaReaderMultiepoch(rs)
	if err != nil {
		r.t.Fatalf("setup failed: %v", err)
	}
	r.multis[k] = m
	return m
}

func vc07Descending(readers []int) bool {
	for i := 1; i < len(readers); i++ {
		if readers[i] <= readers[i-1] { // positions grow as epochs get older
			return false
		}
	}
	return true
}

func (r *vc07Run) describe(ai int, readers []int) vc07Call {
	a := r.fx.addrs[ai]
	c := vc07Call{Addr: ai, Counts: a.counts, Readers: readers, History: a.flat(readers)}
	for i := range a.chain {
		for _, rec := range a.chain[i] {
			c.Records[i] = append(c.Records[i], len(rec))
		}
	}
	return c
}

// sig-bounded call; toCoq: also write it as a Coq case
func (r *vc07Run) callSig(ai int, readers []int, limit int, before, until *int, toCoq bool) {
	a := r.fx.addrs[ai]
	var bp, up *solana.Signature
	if before != nil {
		s := vc07SigBytes(*before)
		bp = &s
	}
	if until != nil {
		s := vc07SigBytes(*until)
		up = &s
	}
	var obs vc07Obs
	func() {
		defer func() {
			if p := recover(); p != nil {
				obs = vc07Obs{Err: fmt.Sprintf("panic: %v", p)}
			}
		}()
		m, err := r.multi(readers).GetBeforeUntil(context.Background(), a.pk, limit, bp, up, r.fx.fetcher)
		obs = vc07Observe(m, err)
	}()
	h := a.flat(readers)
	key := fmt.Sprintf("sig a%d r%v l%d b%v u%v", ai, readers, limit, vc07CoqOptSig(before), vc07CoqOptSig(until))
	exp := vc07SliceSpec(h, limit, before, until)
	r.rep.Case(key, len(h) >= 2 && len(exp) >= 1)
	if vc07Descending(readers) {
		call := func() vc07Call {
			c := r.describe(ai, readers)
			c.Kind, c.Limit, c.Before, c.Until, c.Expect, c.Got = r.kind+"sig", limit, before, until, exp, obs
			c.Preceded = append([]string(nil), r.recent...)
			return c
		}
		if obs.Err != "" {
			absent := false
			for _, i := range readers {
				if a.chain[i] == nil {
					absent = true
				}
			}
			if absent {
				r.rep.Fail("error-with-absent-epoch", "GetBeforeUntil failed although the address is merely absent from some epoch: "+obs.Err, call())
			} else {
				r.rep.Fail("unexpected-error", "GetBeforeUntil failed: "+obs.Err, call())
			}
		} else if !vc07SameGrouped(exp, obs) {
			r.failMismatch("sig-slice-mismatch", fmt.Sprintf("result is not the slice of the history: expected %v, observed %v", exp, obs.flat()), call())
		}
	}
	r.remember(key)
	if toCoq {
		r.cases.Add(fmt.Sprintf("CSig %s (%d)%%Z %s %s %s", r.epsTerm(ai, readers), limit, vc07CoqOptSig(before), vc07CoqOptSig(until), vc07CoqObs(obs)))
	}
}

func (r *vc07Run) callSlot(ai int, readers []int, limit int, before, until uint64, toCoq bool) {
	a := r.fx.addrs[ai]
	var obs vc07Obs
	func() {
		defer func() {
			if p := recover(); p != nil {
				obs = vc07Obs{Err: fmt.Sprintf("panic: %v", p)}
			}
		}()
		m, err := r.multi(readers).GetBeforeUntilSlot(context.Background(), a.pk, limit, before, until, r.fx.fetcher)
		obs = vc07Observe(m, err)
	}()
	h := a.flat(readers)
	exp := vc07SlotSpec(h, limit, before, until)
	key := fmt.Sprintf("slot a%d r%v l%d b%d u%d", ai, readers, limit, before, until)
	r.rep.Case(key, len(h) >= 2 && len(exp) >= 1)
	if vc07Descending(readers) {
		call := func() vc07Call {
			c := r.describe(ai, readers)
			c.Kind, c.Limit, c.BeforeS, c.UntilS, c.Expect, c.Got = r.kind+"slot", limit, before, until, exp, obs
			c.Preceded = append([]string(nil), r.recent...)
			return c
		}
		if obs.Err != "" {
			r.rep.Fail("unexpected-error", "GetBeforeUntilSlot failed: "+obs.Err, call())
		} else {
			above, below := 0, 0
			for _, x := range obs.flat() {
				if x.Slot >= before {
					above++
				}
				if x.Slot < until {
					below++
				}
			}
			switch {
			case above > 0:
				r.rep.Fail("slot-above-window", fmt.Sprintf("GetBeforeUntilSlot(before=%d exclusive, until=%d inclusive) returned %d transaction(s) with slot >= before: %v", before, until, above, obs.flat()), call())
			case below > 0:
				r.rep.Fail("slot-below-window", fmt.Sprintf("GetBeforeUntilSlot(before=%d, until=%d) returned %d transaction(s) with slot < until: %v", before, until, below, obs.flat()), call())
			case !vc07SameGrouped(exp, obs):
				r.failMismatch("slot-window-mismatch", fmt.Sprintf("not the first %d entries of the window [%d,%d): expected %v, observed %v", limit, until, before, exp, obs.flat()), call())
			}
		}
	}
	r.remember(key)
	if toCoq {
		r.cases.Add(fmt.Sprintf("CSlot %s (%d)%%Z %d%%N %d%%N %s", r.epsTerm(ai, readers), limit, before, until, vc07CoqObs(obs)))
	}
}

func vc07Subsets() [][]int {
	return [][]int{{0, 1, 2}, {0, 1}, {0, 2}, {1, 2}, {0}, {1}, {2}}
}

func TestVerif_C07(t *testing.T) {
	rng := vh.NewRng(vh.Seed())
	variants := 2 // quick: per (n8,n6,n5) one address with single-record chains and one with random record compositions
	rep := vh.NewReport("C07", "gsfa",
		"addresses: every (n8,n6,n5) in {0..4}^3 entries per epoch (0 = absent from that epoch's index) x record compositions (quick: one record + a random composition; thorough: all compositions); "+
			"sig-bounded calls: every limit in {-1,0,1..N+1,1000} x before in {none, every signature of the history, an absent one} x until likewise, on all 3 readers, plus every descending sub-list of readers on a sample; "+
			"slot-bounded calls: every (before,until) over the slots of the history and their neighbours, epoch boundaries, 0, huge x limits {1,2,N,1000}; "+
			"a case is non-trivial when the history has >= 2 entries and the expected result is non-empty; distinct by (address, readers, parameters)")
	cases := vh.NewCases("cases_c07_gsfa", []string{"YF.C07_Model", "YF.C07_Check"}, "case", "check")
	fx := vc07Build(t, rng, variants, vh.Thorough()) // thorough: every combination of record compositions (4096 addresses)
	defer func() {
		for _, r := range fx.readers {
			if r != nil {
				r.Close()
			}
		}
		_ = os.RemoveAll(filepath.Join(vh.OutDir(), "c07idx"))
	}()
	run := &vc07Run{fx: fx, rep: rep, cases: cases, multis: map[string]*GsfaReaderMultiepoch{}, named: map[string]string{}, t: t}
	rep.Flag("epoch_len", slottools.EpochLen)
	rep.Flag("addresses", len(fx.addrs))

	if rp := vh.Replay(); rp != "" {
		vc07Replay(t, run, rp)
		_ = cases.Write()
		rep.CasesWritten(cases)
		_ = rep.Write()
		return
	}

	full := []int{0, 1, 2}
	// probability with which a call is also handed to the Coq checker
	coqEvery := 100
	if vh.Thorough() {
		coqEvery = 700
	}
	for ai, a := range fx.addrs {
		h := a.flat(full)
		n := len(h)
		rep.Count(fmt.Sprintf("history-len=%d", n))
		nabsent := 0
		for i := range a.chain {
			if a.chain[i] == nil {
				nabsent++
			}
		}
		rep.Count(fmt.Sprintf("absent-epochs=%d", nabsent))
		multiRecord := false
		for i := range a.chain {
			if len(a.chain[i]) > 1 {
				multiRecord = true
			}
		}
		if multiRecord {
			rep.Count("address-with-multi-record-chain")
		}
		limits := []int{-1, 0, 1000}
		for l := 1; l <= n+1; l++ {
			limits = append(limits, l)
		}
		absentSig := (ai+1)*100 + 99
		var marks []*int
		marks = append(marks, nil)
		for i := range h {
			s := h[i].Sig
			marks = append(marks, &s)
		}
		marks = append(marks, &absentSig)
		// --- signature-bounded, all readers ---
		for _, limit := range limits {
			for _, b := range marks {
				for _, u := range marks {
					run.callSig(ai, full, limit, b, u, rng.Intn(coqEvery) == 0)
					rep.Count("sig-calls")
				}
			}
		}
		// --- sub-lists of readers (1..3 epochs loaded), sample of parameters ---
		for _, sub := range vc07Subsets()[1:] {
			hs := a.flat(sub)
			for k := 0; k < 6; k++ {
				var b, u *int
				if len(hs) > 0 && rng.Intn(3) != 0 {
					s := hs[rng.Intn(len(hs))].Sig
					b = &s
				}
				if len(hs) > 0 && rng.Intn(3) != 0 {
					s := hs[rng.Intn(len(hs))].Sig
					u = &s
				}
				run.callSig(ai, sub, rng.Range(1, len(hs)+1), b, u, rng.Intn(12) == 0)
				rep.Count("sig-calls-sublist")
			}
		}
		// readers in a non-descending order: outside the property (no oracle), model/implementation agreement only
		if rng.Intn(8) == 0 {
			p := rng.Perm(3)
			var b *int
			if n > 0 && rng.Bool() {
				s := h[rng.Intn(n)].Sig
				b = &s
			}
			run.callSig(ai, p, rng.Range(1, n+1), b, nil, true)
			rep.Count("sig-calls-unordered-readers")
		}
		// --- slot-bounded ---
		pts := map[uint64]bool{0: true, 1: true, 1 << 40: true}
		for _, e := range vc07Epochs {
			base := e * slottools.EpochLen
			pts[base] = true
			pts[base-1] = true
			pts[base+slottools.EpochLen-1] = true
			pts[base+slottools.EpochLen] = true
		}
		for _, x := range h {
			pts[x.Slot] = true
			pts[x.Slot+1] = true
			if x.Slot > 0 {
				pts[x.Slot-1] = true
			}
		}
		var ps []uint64
		for p := range pts {
			ps = append(ps, p)
		}
		sort.Slice(ps, func(i, j int) bool { return ps[i] < ps[j] })
		slimits := []int{1, 2, 1000}
		if n > 2 {
			slimits = append(slimits, n)
		}
		for _, before := range ps {
			for _, until := range ps {
				if until > before && rng.Intn(10) != 0 {
					continue // before < until: empty by definition; keep a sample
				}
				for _, limit := range slimits {
					run.callSlot(ai, full, limit, before, until, rng.Intn(coqEvery*2) == 0)
					rep.Count("slot-calls")
				}
			}
		}
		for _, sub := range vc07Subsets()[1:] {
			for k := 0; k < 4; k++ {
				before := ps[rng.Intn(len(ps))]
				until := ps[rng.Intn(len(ps))]
				if until > before {
					before, until = until, before
				}
				run.callSlot(ai, sub, rng.Pick(1, 2, 1000), before, until, rng.Intn(12) == 0)
				rep.Count("slot-calls-sublist")
			}
		}
		if len(rep.Samples) < 4 && n >= 5 && rng.Intn(20) == 0 {
			c := run.describe(ai, full)
			rep.Sample(map[string]interface{}{"entries_per_epoch_8_6_5": c.Counts, "record_sizes": c.Records, "history": c.History})
		}
	}
	rep.Flag("fetcher_calls", fx.fetches)
	rep.Flag("slot_upper_bound_checked", rep.Distribution["failure:slot-above-window"] == 0)
	rep.Note("record boundaries inside an epoch are made with the writer's own flushKVs (the path of Push's periodic flush); every address stays far below the 1000-entry batch (C06's territory)")
	rep.Note("not covered here: index lookups failing with an I/O error (model: Failed), contexts cancelled mid-call")
	if err := cases.Write(); err != nil {
		t.Fatal(err)
	}
	rep.CasesWritten(cases)
	if err := rep.Write(); err != nil {
		t.Fatal(err)
	}
}

// vc07Replay re-runs the calls recorded in a replay file written by bin/check (same seed and tier => same fixture).
func vc07Replay(t *testing.T, run *vc07Run, path string) {
	raw, err := os.ReadFile(path)
	if err != nil {
		t.Fatalf("setup failed: %v", err)
	}
	var doc struct {
		Failures []struct {
			Replay vc07Call `json:"replay"`
		} `json:"failures"`
	}
	if err := json.Unmarshal(raw, &doc); err != nil {
		t.Fatalf("setup failed: %v", err)
	}
	for _, f := range doc.Failures {
		c := f.Replay
		if c.Addr < 0 || c.Addr >= len(run.fx.addrs) || len(c.Readers) == 0 {
			continue
		}
		switch c.Kind {
		case "sig":
			run.callSig(c.Addr, c.Readers, c.Limit, c.Before, c.Until, true)
		case "slot":
			run.callSlot(c.Addr, c.Readers, c.Limit, c.BeforeS, c.UntilS, true)
		}
	}
}
