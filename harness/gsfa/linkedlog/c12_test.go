package linkedlog

// Verification harness for C12 (injected with `go test -overlay`; not part of the repository).
// Linked-log files written by the real LinkedLog.Put, mutated, read back with ReadWithSize(offset, size) and
// Read(offset) for consistent and inconsistent (offset, size) pairs, under the c12h watchdog.
// Oracle: no panic, allocation <= 16*len + 1 MiB (+ the decoded entries of a valid record), no hang.
// Correspondence: outcome class of ReadWithSize against YF.C12_Parsers.ll_read (zstd payload abstract) under the
// two measured guard flags.

import (
	"fmt"
	"os"
	"path/filepath"
	"testing"

	"github.com/gagliardetto/solana-go"
	"github.com/rpcpool/yellowstone-faithful/indexes"
	"github.com/rpcpool/yellowstone-faithful/zzverif/c12h"
	"github.com/rpcpool/yellowstone-faithful/zzverif/vh"
)

func vc12Seeds(dir string, rng *vh.Rng) ([]c12h.Seed, error) {
	var seeds []c12h.Seed
	for si, counts := range [][]int{{1, 3}, {2}, {40, 1, 7}} {
		path := filepath.Join(dir, fmt.Sprintf("log%d", si))
		_ = os.Remove(path)
		ll, err := NewLinkedLog(path)
		if err != nil {
			return seeds, err
		}
		var recs []uint64
		prev := map[solana.PublicKey]indexes.OffsetAndSize{}
		for round, n := range counts {
			var vals []KeyToOffsetAndSizeAndBlocktime
			for k := 0; k < 2; k++ {
				var pk solana.PublicKey
				pk[0], pk[1] = byte(k), byte(si)
				var items []*OffsetAndSizeAndSlot
				for i := 0; i < n; i++ {
					items = append(items, NewOffsetAndSizeAndSlot(uint64(1000*round+i*50+rng.Intn(40)), uint64(100+rng.Intn(900)), uint64(si*432000+round*10+i)))
				}
				vals = append(vals, KeyToOffsetAndSizeAndBlocktime{Key: pk, Values: items})
			}
			_, err := ll.Put(
				func(pk solana.PublicKey) (indexes.OffsetAndSize, error) { return prev[pk], nil },
				func(pk solana.PublicKey, offset uint64, ln uint32) error {
					prev[pk] = indexes.OffsetAndSize{Offset: offset, Size: uint64(ln)}
					recs = append(recs, offset, uint64(ln))
					return nil
				}, vals...)
			if err != nil {
				return seeds, err
			}
		}
		if err := ll.Close(); err != nil {
			return seeds, err
		}
		data, err := os.ReadFile(path)
		if err != nil {
			return seeds, err
		}
		seeds = append(seeds, c12h.Seed{Name: fmt.Sprintf("log%d", si), Data: data, Nums: recs})
	}
	return seeds, nil
}

func vc12Gen(seeds []c12h.Seed, rng *vh.Rng, thorough bool) []c12h.Input {
	var ins []c12h.Input
	nrand := 150
	if thorough {
		nrand = 2500
	}
	for si := range seeds {
		s := &seeds[si]
		L := uint64(len(s.Data))
		for r := 0; r+1 < len(s.Nums); r += 2 {
			off, size := s.Nums[r], s.Nums[r+1]
			ins = append(ins, c12h.Input{Entry: "readwithsize", Label: "valid", Data: s.Data, Aux: []uint64{off, size}})
			ins = append(ins, c12h.Input{Entry: "read", Label: "valid", Data: s.Data, Aux: []uint64{off}})
			sizes := []uint64{0, 1, 2, 3, 4, 5, 6, 7, 8, 9, 10, 11, 12, size - 1, size + 1, size - 9, size + 9, 127, 128, 129, 16383, 16384, L - off, L - off + 1, L,
				1 << 20, 1 << 24, 1<<28 - 1, 1 << 28, 1<<28 + 1, 1 << 32, 1 << 40, 1 << 63, 1<<64 - 1}
			for _, sz := range sizes {
				ins = append(ins, c12h.Input{Entry: "readwithsize", Label: "size", Data: s.Data, Aux: []uint64{off, sz}})
			}
			for _, o := range []uint64{0, off + 1, off - 1, L - 1, L, L + 1, L - size, L - size + 1, 1 << 40, 1 << 63, 1<<64 - 1} {
				ins = append(ins, c12h.Input{Entry: "readwithsize", Label: "offset", Data: s.Data, Aux: []uint64{o, size}})
				if r == 0 { // offset and size both inconsistent with the file
					ins = append(ins, c12h.Input{Entry: "readwithsize", Label: "offset+size", Data: s.Data, Aux: []uint64{o, 1<<28 - 1}})
					ins = append(ins, c12h.Input{Entry: "readwithsize", Label: "offset+size", Data: s.Data, Aux: []uint64{o, L}})
				}
				ins = append(ins, c12h.Input{Entry: "read", Label: "offset", Data: s.Data, Aux: []uint64{o}})
			}
			// the record's own length prefix ...
			prefixFields := []c12h.Field{{Name: "record.prefix", Off: int(off), Len: 1}, {Name: "record.prefix2", Off: int(off), Len: 2}}
			// ... and the zstd payload / previous-record pointer. Payload edits go under their own entries: the zstd frame
			// header can declare any content size (third-party decoder, see known-findings.txt)
			payloadFields := []c12h.Field{{Name: "zstd.magic", Off: int(off) + 1, Len: 4}, {Name: "zstd.header", Off: int(off) + 5, Len: 2},
				{Name: "record.next", Off: int(off+size) - 9, Len: 6}, {Name: "record.nextsize", Off: int(off+size) - 3, Len: 3}}
			ins = append(ins, c12h.MutateFields("readwithsize", s, prefixFields, nil, []uint64{off, size})...)
			ins = append(ins, c12h.MutateFields("read", s, prefixFields, nil, []uint64{off, size})...)
			ins = append(ins, c12h.MutateFields("record-bytes", s, payloadFields, nil, []uint64{off, size})...)
			ins = append(ins, c12h.MutateFields("read-bytes", s, payloadFields, nil, []uint64{off, size})...)
			if r < 8 {
				// truncated files
				for _, cut := range []uint64{off, off + 1, off + size - 9, off + size - 1, off + size} {
					if cut < L {
						ins = append(ins, c12h.Input{Entry: "readwithsize", Label: "truncate", Data: append([]byte(nil), s.Data[:cut]...), Aux: []uint64{off, size}})
						ins = append(ins, c12h.Input{Entry: "read", Label: "truncate", Data: append([]byte(nil), s.Data[:cut]...), Aux: []uint64{off}})
					}
				}
				rec := &c12h.Seed{Data: s.Data}
				classify := func(in c12h.Input, plain, bytesEntry string) c12h.Input {
					// only edits that start at the record's length prefix (or behind the record) stay under the plain entry; everything
					// else can put attacker-chosen bytes where the zstd frame header is read
					first := 0
					for first < len(in.Data) && first < len(s.Data) && in.Data[first] == s.Data[first] {
						first++
					}
					in.Entry = bytesEntry
					if uint64(first) == off || uint64(first) == off+1 || uint64(first) >= off+size {
						in.Entry = plain // the length prefix itself, or bytes behind the record
					}
					return in
				}
				for _, in := range c12h.RandomMutations("readwithsize", rec, rng, nrand, 0, nil, []uint64{off, size}) {
					ins = append(ins, classify(in, "readwithsize", "record-bytes"))
				}
				for _, in := range c12h.RandomMutations("read", rec, rng, nrand/2, 0, nil, []uint64{off}) {
					ins = append(ins, classify(in, "read", "read-bytes"))
				}
			}
		}
	}
	// hand-made tiny records: a length prefix that AGREES with the size, declaring 0..24 payload bytes (fewer than, exactly
	// and more than the 9 bytes of the previous-record pointer), plain and as a padded two-byte uvarint, at offset 0 and
	// behind other bytes
	for n := 0; n <= 24; n++ {
		for _, padded := range []bool{false, true} {
			for _, lead := range []int{0, 5} {
				var rec []byte
				if padded {
					rec = append(rec, 0x80|byte(n), 0x00)
				} else {
					rec = append(rec, byte(n))
				}
				rec = append(rec, rng.Bytes(n)...)
				data := append(append([]byte(nil), rng.Bytes(lead)...), rec...)
				data = append(data, rng.Bytes(3)...) // bytes behind the record
				off, size := uint64(lead), uint64(len(rec))
				ins = append(ins, c12h.Input{Entry: "record-bytes", Label: "tiny-record", Data: data, Aux: []uint64{off, size}})
				ins = append(ins, c12h.Input{Entry: "read-bytes", Label: "tiny-record", Data: data, Aux: []uint64{off}})
			}
		}
	}
	return ins
}

var vc12Run int

func vc12Exec(in *c12h.Input) c12h.Obs {
	dir := filepath.Join(vh.OutDir(), "c12_linkedlog")
	vc12Run++
	path := filepath.Join(dir, fmt.Sprintf("run%d.log", vc12Run%4))
	if err := os.WriteFile(path, in.Data, 0o644); err != nil {
		panic("VERIF-HARNESS-BUG " + err.Error())
	}
	ll, err := NewLinkedLog(path)
	if err != nil {
		panic("VERIF-HARNESS-BUG " + err.Error())
	}
	defer ll.Close()
	if in.Entry == "read" || in.Entry == "read-bytes" {
		_, _, err = ll.Read(in.Aux[0])
	} else {
		_, _, err = ll.ReadWithSize(in.Aux[0], in.Aux[1])
	}
	if err != nil {
		return c12h.Obs{Class: "error"}
	}
	return c12h.Obs{Class: "ok"}
}

func vc12Budget(in *c12h.Input) uint64 {
	// 1 MiB constant part: os.File / bufio.Writer of 12 MiB is allocated by NewLinkedLog itself (harness setup),
	// measured together with the call
	return 13<<20 + uint64(64*len(in.Data)) + 1<<20
}

func vc12CoqCase(in *c12h.Input, r *c12h.Result) (string, bool) {
	cls, ok := c12h.ClassN(r.Class)
	if !ok || (in.Entry != "readwithsize" && in.Entry != "record-bytes") || len(in.Data) > 500 {
		return "", false
	}
	return fmt.Sprintf("CLl %s %s %s %s", vh.CoqBytes(in.Data), vh.CoqN(in.Aux[0]), vh.CoqN(in.Aux[1]), vh.CoqN(cls)), true
}

func TestVerif_C12(t *testing.T) {
	c12h.Run(t, &c12h.Part{
		Name:  "linkedlog",
		Rule:  "linkedlog.ReadWithSize / Read on mutated log files and inconsistent (offset,size) pairs: no panic, allocation <= 64*len + 14 MiB (12 MiB of it is NewLinkedLog's write buffer), no hang; class = Coq model",
		Seeds: vc12Seeds, Gen: vc12Gen, Exec: vc12Exec, Budget: vc12Budget,
		Witnesses: func(seeds []c12h.Seed) map[string]c12h.Input {
			s := &seeds[0]
			return map[string]c12h.Input{
				"g_ll_size":  {Entry: "readwithsize", Label: "witness", Data: s.Data, Aux: []uint64{s.Nums[0], 5}},
				"g_ll_bound": {Entry: "readwithsize", Label: "witness", Data: s.Data, Aux: []uint64{s.Nums[0], 1<<28 - 1}},
			}
		},
		CoqImports: []string{"YF.C12_Check"}, CoqType: "ll_case",
		CoqChecker: func(f map[string]bool) string {
			return "(check_ll " + vh.CoqBool(f["g_ll_size"]) + " " + vh.CoqBool(f["g_ll_bound"]) + ")"
		},
		CoqCase: vc12CoqCase, MaxCoq: 500,
	})
}
