package linkedlog

// Verification harness for C06, linked-log codec (injected with `go test -overlay`).
//
// Property (the codec half of C06): for every batch of entries and every previous pointer,
// LinkedLog.Put followed by ReadWithSize(offset, size) with the (offset, size) that Put reported
// returns the entries newest first and the previous pointer - for every serialized record length.
// Record lengths on both sides of the uvarint width boundaries (total 128, 16384/16385, and in the
// thorough tier 2^21) are reached by a directed search over the entry values (zstd output length is
// not controllable directly).

import (
	"encoding/binary"
	"encoding/json"
	"fmt"
	"os"
	"path/filepath"
	"slices"
	"testing"

	"github.com/gagliardetto/solana-go"
	"github.com/rpcpool/yellowstone-faithful/indexes"
	"github.com/rpcpool/yellowstone-faithful/tooling"
	"github.com/rpcpool/yellowstone-faithful/zzverif/vh"
)

type vc6llCase struct {
	Category string        `json:"category"`
	Values   [][4]uint64   `json:"values"` // oldest first: offset,size,slot,flags
	Prev     [2]uint64     `json:"prev"`
	Before   [][][4]uint64 `json:"records_before"`
}

func vc6llVals(vs [][4]uint64) []*OffsetAndSizeAndSlot {
	out := make([]*OffsetAndSizeAndSlot, len(vs))
	for i, v := range vs {
		out[i] = &OffsetAndSizeAndSlot{Offset: v[0], Size: v[1], Slot: v[2], Flags: Bitmap(v[3])}
	}
	return out
}

// total record size Put will produce for these values (oldest first)
func vc6llSize(vs [][4]uint64) int {
	vals := vc6llVals(vs)
	slices.Reverse(vals)
	z, err := createIndexesPayload(vals)
	if err != nil {
		return -1
	}
	p := len(z) + 9
	return len(binary.AppendUvarint(nil, uint64(p))) + p
}

func vc6llFresh(rng *vh.Rng) [4]uint64 {
	return [4]uint64{rng.U64() | 1<<63, rng.U64() | 1<<63, rng.U64() | 1<<63, rng.U64() & 255}
}

func vc6llWidth(v uint64) int { return len(binary.AppendUvarint(nil, v)) }

// vc6llSearch: entry values whose record has exactly `target` bytes.
func vc6llSearch(rng *vh.Rng, target int) [][4]uint64 {
	n := 3
	if target > 1000 {
		n = target / 31
	}
	var h [][4]uint64
	for i := 0; i < n; i++ {
		h = append(h, vc6llFresh(rng))
	}
	for iter := 0; iter < 800; iter++ {
		s := vc6llSize(h)
		if s == target {
			return h
		}
		d := target - s
		switch {
		case d > 35:
			for k := 0; k < d/31; k++ {
				h = append(h, vc6llFresh(rng))
			}
		case d < -35 && len(h) > 1:
			k := (-d) / 31
			if k >= len(h) {
				k = len(h) - 1
			}
			h = h[:len(h)-k]
		case d > 0:
			i := rng.Intn(len(h))
			if vc6llWidth(h[i][2]) < 10 {
				h[i][2] = h[i][2]<<7 | uint64(rng.Intn(128)) | 1
			} else {
				h = append(h, [4]uint64{uint64(rng.Intn(100)), uint64(rng.Intn(100)), uint64(rng.Intn(100)), 1})
			}
		default:
			i := rng.Intn(len(h))
			if vc6llWidth(h[i][2]) > 1 {
				h[i][2] >>= 7
			} else if vc6llWidth(h[i][1]) > 1 {
				h[i][1] >>= 7
			} else if vc6llWidth(h[i][0]) > 1 {
				h[i][0] >>= 7
			}
		}
	}
	return nil
}

func vc6llCoqEnts(vs [][4]uint64, reverse bool) string {
	items := make([]string, 0, len(vs))
	for i := range vs {
		v := vs[i]
		if reverse {
			v = vs[len(vs)-1-i]
		}
		items = append(items, fmt.Sprintf("(%d,%d,%d,%d)", v[0], v[1], v[2], v[3]))
	}
	return vh.CoqList(items)
}

func TestVerif_C06LL(t *testing.T) {
	rep := vh.NewReport("C06", "linkedlog",
		"LinkedLog.Put then ReadWithSize(offset,size reported by Put) = (entries newest first, previous pointer); record lengths by directed search on both sides of the uvarint width boundaries plus a sweep of small and random batches; non-trivial = every case (distinct by record length and position)")
	defer func() {
		if err := rep.Write(); err != nil {
			t.Fatalf("setup failed: %v", err)
		}
	}()
	rng := vh.NewRng(vh.Seed())
	cases := vh.NewCases("cases_c06_linkedlog", []string{"YF.C06_Check"}, "llcase", "check_ll")

	var todo []vc6llCase
	targets := []int{126, 127, 128, 130, 131, 16383, 16384, 16385, 16387}
	if vh.Thorough() {
		targets = append(targets, 100, 120, 125, 132, 140, 255, 256, 257, 1000, 16380, 16381, 16382, 16388, 16390, 20000)
	}
	randPrev := func() [2]uint64 {
		switch rng.Intn(4) {
		case 0:
			return [2]uint64{0, 0}
		case 1:
			return [2]uint64{1<<48 - 1, 1<<24 - 1}
		case 2:
			return [2]uint64{0, uint64(10 + rng.Intn(1000))} // a record at offset 0 is a valid previous record
		}
		return [2]uint64{rng.U64() % (1 << 48), 10 + rng.U64()%(1<<24-10)}
	}
	randBefore := func() [][][4]uint64 {
		var b [][][4]uint64
		for k := rng.Intn(3); k > 0; k-- {
			var r [][4]uint64
			for i := 1 + rng.Intn(4); i > 0; i-- {
				r = append(r, [4]uint64{uint64(rng.Intn(1 << 20)), uint64(rng.Intn(2000)), uint64(rng.Intn(1 << 28)), uint64(rng.Intn(8))})
			}
			b = append(b, r)
		}
		return b
	}
	for _, tg := range targets {
		reps := 1
		if tg == 128 || vh.Thorough() {
			reps = 3
		}
		for r := 0; r < reps; r++ {
			vs := vc6llSearch(rng, tg)
			if vs == nil {
				rep.Note("directed search did not reach record length %d", tg)
				continue
			}
			c := vc6llCase{Category: fmt.Sprintf("directed-%d", tg), Values: vs, Prev: randPrev()}
			if r > 0 || tg > 1000 {
				c.Before = randBefore()
			}
			todo = append(todo, c)
		}
	}
	// sweep: 1..N realistic entries (small offsets/sizes/slots as in a CAR file) and random ones
	sweepN := 40
	if vh.Thorough() {
		sweepN = 250
	}
	for n := 1; n <= sweepN; n++ {
		var vs [][4]uint64
		base := rng.U64() % (1 << 36)
		for i := 0; i < n; i++ {
			if n%2 == 0 {
				vs = append(vs, [4]uint64{base + uint64(i)*uint64(200+rng.Intn(900)), uint64(150 + rng.Intn(1100)), 250_000_000 + uint64(i/3), uint64(rng.Intn(8))})
			} else {
				vs = append(vs, [4]uint64{rng.U64() >> uint(rng.Intn(64)), rng.U64() >> uint(rng.Intn(64)), rng.U64() >> uint(rng.Intn(64)), rng.U64() & 255})
			}
		}
		todo = append(todo, vc6llCase{Category: "sweep", Values: vs, Prev: randPrev(), Before: randBefore()})
	}
	if vh.Thorough() {
		// third uvarint boundary: total 2^21 (payload 2097149..2097151 has a 3-byte prefix, the total takes 4)
		for _, tg := range []int{1<<21 - 1, 1 << 21, 1<<21 + 2} {
			if vs := vc6llSearch(rng, tg); vs != nil {
				todo = append(todo, vc6llCase{Category: fmt.Sprintf("directed-%d", tg), Values: vs, Prev: randPrev()})
			} else {
				rep.Note("directed search did not reach record length %d", tg)
			}
		}
	}

	if rp := vh.Replay(); rp != "" {
		// replay: only the codec cases named in the replay file (none if it is a replay of a writer history)
		var doc struct {
			Failures []struct {
				Replay vc6llCase `json:"replay"`
			} `json:"failures"`
		}
		b, err := os.ReadFile(rp)
		if err != nil || json.Unmarshal(b, &doc) != nil {
			t.Fatalf("setup failed: cannot read replay %s", rp)
		}
		todo = nil
		for _, f := range doc.Failures {
			if len(f.Replay.Values) > 0 && f.Replay.Category != "" {
				todo = append(todo, f.Replay)
			}
		}
	}
	dirSeq := 0
	big16k := 0
	for _, c := range todo {
		dirSeq++
		dir := filepath.Join(vh.OutDir(), fmt.Sprintf("ll-%d", dirSeq))
		_ = os.RemoveAll(dir)
		_ = os.MkdirAll(dir, 0o755)
		func() {
			defer os.RemoveAll(dir)
			ll, err := NewLinkedLog(filepath.Join(dir, "linked-log"))
			if err != nil {
				t.Fatalf("setup failed: %v", err)
			}
			defer ll.Close()
			var pk solana.PublicKey
			pk[0] = 9
			put := func(vs [][4]uint64, prev [2]uint64) (uint64, uint32, error) {
				var off uint64
				var sz uint32
				_, err := ll.Put(
					func(solana.PublicKey) (indexes.OffsetAndSize, error) {
						return indexes.OffsetAndSize{Offset: prev[0], Size: prev[1]}, nil
					},
					func(_ solana.PublicKey, o uint64, l uint32) error { off, sz = o, l; return nil },
					KeyToOffsetAndSizeAndBlocktime{Key: pk, Values: vc6llVals(vs)},
				)
				return off, sz, err
			}
			for _, b := range c.Before {
				if _, _, err := put(b, [2]uint64{0, 0}); err != nil {
					rep.Fail("put-error", err.Error(), c)
					return
				}
			}
			off, sz, err := put(c.Values, c.Prev)
			if err != nil {
				rep.Fail("put-error", err.Error(), c)
				return
			}
			if err := ll.Flush(); err != nil {
				t.Fatalf("setup failed: flush: %v", err)
			}
			key := fmt.Sprintf("%d@%d", sz, off)
			rep.Case(key, true)
			rep.Count("category:" + c.Category)
			switch {
			case sz < 128:
				rep.Count("record-length:<128")
			case sz == 128:
				rep.Count("record-length:=128")
			case sz < 16384:
				rep.Count("record-length:129..16383")
			case sz <= 16385:
				rep.Count("record-length:16384..16385")
			default:
				rep.Count("record-length:>16385")
			}
			var got []OffsetAndSizeAndSlot
			var next indexes.OffsetAndSize
			var rerr error
			panicked := ""
			func() {
				defer func() {
					if x := recover(); x != nil {
						panicked = fmt.Sprint(x)
					}
				}()
				got, next, rerr = ll.ReadWithSize(off, uint64(sz))
			}()
			what := fmt.Sprintf("record of %d entries, total length %d at offset %d, previous pointer (%d,%d)", len(c.Values), sz, off, c.Prev[0], c.Prev[1])
			obs := "None"
			switch {
			case panicked != "":
				rep.Fail("read-panic", what+": ReadWithSize panicked: "+panicked, c)
			case rerr != nil:
				rep.Fail("unreadable-record", what+": ReadWithSize failed: "+rerr.Error(), c)
			default:
				same := len(got) == len(c.Values)
				for i := 0; same && i < len(got); i++ {
					v := c.Values[len(c.Values)-1-i]
					same = got[i].Offset == v[0] && got[i].Size == v[1] && got[i].Slot == v[2] && uint64(got[i].Flags) == v[3]
				}
				if !same {
					rep.Fail("wrong-record-content", what+": entries read back differ from the entries written (newest first)", c)
				}
				if next.Offset != c.Prev[0] || next.Size != c.Prev[1] {
					rep.Fail("wrong-previous-pointer", fmt.Sprintf("%s: read back (%d,%d)", what, next.Offset, next.Size), c)
				}
				gs := make([][4]uint64, len(got))
				for i, g := range got {
					gs[i] = [4]uint64{g.Offset, g.Size, g.Slot, uint64(g.Flags)}
				}
				obs = fmt.Sprintf("(Some (%s,(%d,%d)))", vc6llCoqEnts(gs, false), next.Offset, next.Size)
			}
			if len(rep.Samples) < 3 {
				rep.Sample(map[string]interface{}{"what": what, "observed_error": fmt.Sprint(rerr)})
			}
			// Coq case: the file the implementation wrote, the zstd table of the record, expectation, observation
			file, err := os.ReadFile(filepath.Join(dir, "linked-log"))
			// records of the 16 KiB class are expensive for coqc to parse (about 0.1 ms per byte literal):
			// quick sends one of them (total length 16385) to the Coq run, thorough six; all go through the oracle
			limit := 3000
			if len(file) > limit && big16k < 6 && (vh.Thorough() || (c.Category == "directed-16385" && big16k == 0)) {
				limit = 40000
				big16k++
			}
			if err != nil || len(file) > limit || uint64(len(file)) < off+uint64(sz) {
				rep.Count("oracle-only (file too large for the Coq run of this tier)")
				return
			}
			rec := file[off : off+uint64(sz)]
			p, n := binary.Uvarint(rec)
			if n <= 0 || int(p)+n != len(rec) || p < 9 {
				rep.Fail("malformed-record", what+": the record written by Put does not start with uvarint(len(record)-prefix)", c)
				return
			}
			z := rec[n : len(rec)-9]
			raw, err := tooling.DecompressZstd(z)
			if err != nil {
				rep.Fail("malformed-record", what+": payload does not decompress: "+err.Error(), c)
				return
			}
			// the compressed bytes are a slice of the file: only (position, length) and the decompressed payload are written
			cases.Add(fmt.Sprintf("(%s, %d, %d, [(%d,%d,%s)], (%s,(%d,%d)), %s)%%N",
				vh.CoqBytes(file), off, sz, off+uint64(n), len(z), vh.CoqBytes(raw),
				vc6llCoqEnts(c.Values, true), c.Prev[0], c.Prev[1], obs))
		}()
	}
	if err := cases.Write(); err != nil {
		t.Fatalf("setup failed: %v", err)
	}
	rep.CasesWritten(cases)
}
