package accum

// Verification harness for C12, CAR stream -> ObjectAccumulator -> ObjectsToTransactionsAndMetadata (injected with
// `go test -overlay`; not part of the repository). Small valid CARv1 byte streams (header written with go-car,
// sections with util.LdWrite, nodes encoded by the repository's own MarshalCBOR: Transaction / Entry / Rewards /
// DataFrame / Block) are mutated (section-length varints, CID prefix bytes, objects replaced by 0/1/2-byte objects,
// truncations at section boundaries, random edits, junk) and run through carreader.New + NewObjectAccumulator
// (flush on KindBlock) + Run + ObjectsToTransactionsAndMetadata under the c12h watchdog (child process under
// ulimit -v, recover(), allocation accounting). Oracle only: no panic, no allocation out of proportion, no hang.
//
// The accumulator calls the callback on its own flusher goroutine, where a panic cannot be recovered by anybody
// (and a callback error is turned into a panic by startFlusher). So that panics of ObjectsToTransactionsAndMetadata
// are observations with a proper call site, the callback only records the (parent, children) groups and returns
// nil; the groups are handed to ObjectsToTransactionsAndMetadata on the calling goroutine after Run has returned
// (Run waits for all callbacks; the object buffers are freshly allocated per section, never reused).
// A second entry "objects" reads the sections with CarReader.NextNodeBytes and groups them by hand, so that
// ObjectsToTransactionsAndMetadata also sees the 0- and 1-byte objects that Run does not get past.

import (
	"bytes"
	"context"
	"crypto/sha256"
	"encoding/binary"
	"errors"
	"fmt"
	"hash/crc64"
	"io"
	"testing"

	"github.com/gagliardetto/solana-go"
	"github.com/ipfs/go-cid"
	carv1 "github.com/ipld/go-car"
	"github.com/ipld/go-car/util"
	"github.com/ipld/go-ipld-prime/datamodel"
	cidlink "github.com/ipld/go-ipld-prime/linking/cid"
	"github.com/rpcpool/yellowstone-faithful/carreader"
	"github.com/rpcpool/yellowstone-faithful/ipld/ipldbindcode"
	"github.com/rpcpool/yellowstone-faithful/iplddecoders"
	"github.com/rpcpool/yellowstone-faithful/third_party/solana_proto/confirmed_block"
	"github.com/rpcpool/yellowstone-faithful/tooling"
	"github.com/rpcpool/yellowstone-faithful/zzverif/c12h"
	"github.com/rpcpool/yellowstone-faithful/zzverif/vh"
	"google.golang.org/protobuf/proto"
)

// ---------------------------------------------------------------- valid streams

func vc12PInt(v int) **int { p := &v; return &p }

func vc12Cid(data []byte) cid.Cid { // CIDv1 dag-cbor sha2-256, as in the real archives
	h := sha256.Sum256(data)
	c, err := cid.Cast(append([]byte{0x01, 0x71, 0x12, 0x20}, h[:]...))
	if err != nil {
		panic("VERIF-HARNESS-BUG: " + err.Error())
	}
	return c
}

func vc12Links(cs ...cid.Cid) ipldbindcode.List__Link {
	ll := make(ipldbindcode.List__Link, 0, len(cs))
	for _, c := range cs {
		ll = append(ll, datamodel.Link(cidlink.Link{Cid: c}))
	}
	return ll
}

func vc12Crc(b []byte) int { return int(crc64.Checksum(b, crc64.MakeTable(crc64.ISO))) }

func vc12TxBytes(n uint64) ([]byte, error) {
	var sig solana.Signature
	for i := range sig {
		sig[i] = byte(n + uint64(i)*7)
	}
	var k1, k2 solana.PublicKey
	k1[0], k2[0] = 1, 2
	k1[9] = byte(n)
	tx := solana.Transaction{
		Signatures: []solana.Signature{sig},
		Message: solana.Message{
			AccountKeys:     []solana.PublicKey{k1, k2, solana.SystemProgramID},
			Header:          solana.MessageHeader{NumRequiredSignatures: 1, NumReadonlyUnsignedAccounts: 1},
			RecentBlockhash: solana.Hash(k2),
			Instructions:    []solana.CompiledInstruction{{ProgramIDIndex: 2, Accounts: []uint16{0, 1}, Data: []byte{1, 2, 3}}},
		},
	}
	return tx.MarshalBinary()
}

func vc12Meta(rng *vh.Rng, logBytes int) ([]byte, error) {
	meta := &confirmed_block.TransactionStatusMeta{Fee: 5000, PreBalances: []uint64{10, 20}, PostBalances: []uint64{5, 25},
		LogMessages: []string{vh.Hex(rng.Bytes(logBytes))}}
	mb, err := proto.Marshal(meta)
	if err != nil {
		return nil, err
	}
	return tooling.CompressZstd(mb)
}

// a single frame holding all of `data`
func vc12Single(data []byte) ipldbindcode.DataFrame {
	return ipldbindcode.DataFrame{Kind: int(iplddecoders.KindDataFrame), Hash: vc12PInt(vc12Crc(data)), Index: vc12PInt(0), Total: vc12PInt(1), Data: data}
}

type vc12Sec struct {
	c    cid.Cid
	data []byte
}

type vc12Stream struct {
	secs []vc12Sec
}

func (s *vc12Stream) add(data []byte, err error) cid.Cid {
	if err != nil {
		panic("VERIF-HARNESS-BUG: " + err.Error())
	}
	c := vc12Cid(data)
	s.secs = append(s.secs, vc12Sec{c, data})
	return c
}

// one transaction (metadata in nframes frames; the continuation frames are written before it), returns its CID
func (s *vc12Stream) tx(rng *vh.Rng, n uint64, slot int, nframes int) cid.Cid {
	txb, err := vc12TxBytes(n)
	if err != nil {
		panic("VERIF-HARNESS-BUG: " + err.Error())
	}
	mz, err := vc12Meta(rng, 20+int(n)*9)
	if err != nil {
		panic("VERIF-HARNESS-BUG: " + err.Error())
	}
	md := vc12Single(mz)
	if nframes > 1 {
		chunk := (len(mz) + nframes - 1) / nframes
		var rest []cid.Cid
		for i := 1; i < nframes; i++ {
			lo, hi := i*chunk, (i+1)*chunk
			if hi > len(mz) {
				hi = len(mz)
			}
			f := ipldbindcode.DataFrame{Kind: int(iplddecoders.KindDataFrame), Hash: vc12PInt(vc12Crc(mz)), Index: vc12PInt(i), Total: vc12PInt(nframes), Data: mz[lo:hi]}
			rest = append(rest, s.add(f.MarshalCBOR()))
		}
		ll := vc12Links(rest...)
		pl := &ll
		md = ipldbindcode.DataFrame{Kind: int(iplddecoders.KindDataFrame), Hash: vc12PInt(vc12Crc(mz)), Index: vc12PInt(0), Total: vc12PInt(nframes), Data: mz[:chunk], Next: &pl}
	}
	t := ipldbindcode.Transaction{Kind: int(iplddecoders.KindTransaction), Data: vc12Single(txb), Metadata: md, Slot: slot, Index: vc12PInt(int(n))}
	return s.add(t.MarshalCBOR())
}

func (s *vc12Stream) entry(rng *vh.Rng, txs ...cid.Cid) cid.Cid {
	e := ipldbindcode.Entry{Kind: int(iplddecoders.KindEntry), NumHashes: 12, Hash: rng.Bytes(32), Transactions: vc12Links(txs...)}
	return s.add(e.MarshalCBOR())
}

func (s *vc12Stream) block(rng *vh.Rng, slot int, withRewards bool, entries ...cid.Cid) cid.Cid {
	rw := vc12Cid([]byte("no rewards"))
	if withRewards {
		r := ipldbindcode.Rewards{Kind: int(iplddecoders.KindRewards), Slot: slot, Data: vc12Single(rng.Bytes(11))}
		rw = s.add(r.MarshalCBOR())
	}
	b := ipldbindcode.Block{Kind: int(iplddecoders.KindBlock), Slot: slot, Shredding: ipldbindcode.List__Shredding{{EntryEndIdx: 0, ShredEndIdx: 1}},
		Entries: vc12Links(entries...), Meta: ipldbindcode.SlotMeta{Parent_slot: slot - 1, Blocktime: 1700000000 + slot, Block_height: vc12PInt(slot - 3)},
		Rewards: cidlink.Link{Cid: rw}}
	return s.add(b.MarshalCBOR())
}

// bytes of the stream + layout: Nums = [headerLen, nsections, then per section: start, varintLen, cidLen, dataLen]
func (s *vc12Stream) bytes(root cid.Cid) ([]byte, []uint64, error) {
	var buf bytes.Buffer
	if err := carv1.WriteHeader(&carv1.CarHeader{Roots: []cid.Cid{root}, Version: 1}, &buf); err != nil {
		return nil, nil, err
	}
	nums := []uint64{uint64(buf.Len()), uint64(len(s.secs))}
	for _, sec := range s.secs {
		start := buf.Len()
		if err := util.LdWrite(&buf, sec.c.Bytes(), sec.data); err != nil {
			return nil, nil, err
		}
		cl := len(sec.c.Bytes())
		nums = append(nums, uint64(start), uint64(buf.Len()-start-cl-len(sec.data)), uint64(cl), uint64(len(sec.data)))
	}
	return buf.Bytes(), nums, nil
}

func vc12Seeds(dir string, rng *vh.Rng) (seeds []c12h.Seed, err error) {
	defer func() {
		if r := recover(); r != nil {
			err = fmt.Errorf("building seeds: %v", r)
		}
	}()
	type want struct{ groups, txs int }
	var wants []want
	add := func(name string, s *vc12Stream, root cid.Cid, w want) error {
		data, nums, err := s.bytes(root)
		if err != nil {
			return err
		}
		seeds = append(seeds, c12h.Seed{Name: name, Data: data, Nums: nums})
		wants = append(wants, w)
		return nil
	}
	{ // one block: tx, entry, block
		s := &vc12Stream{}
		t1 := s.tx(rng, 1, 7, 1)
		e1 := s.entry(rng, t1)
		b := s.block(rng, 7, false, e1)
		if err := add("car-1block", s, b, want{1, 1}); err != nil {
			return seeds, err
		}
	}
	{ // two blocks: metadata split into 3 frames, two transactions, rewards node; an entry after the last block
		s := &vc12Stream{}
		t1 := s.tx(rng, 2, 8, 3)
		t2 := s.tx(rng, 3, 8, 1)
		e1 := s.entry(rng, t1, t2)
		e2 := s.entry(rng)
		b1 := s.block(rng, 8, true, e1, e2)
		t3 := s.tx(rng, 4, 9, 2)
		e3 := s.entry(rng, t3)
		_ = s.block(rng, 9, false, e3)
		_ = s.entry(rng) // trailing object: delivered as a parentless group
		if err := add("car-2blocks", s, b1, want{3, 3}); err != nil {
			return seeds, err
		}
	}
	{ // a block without entries
		s := &vc12Stream{}
		b := s.block(rng, 1, false)
		if err := add("car-emptyblock", s, b, want{1, 0}); err != nil {
			return seeds, err
		}
	}
	seeds = c12h.KeepSeeds(seeds, func(i int, s *c12h.Seed) error {
		in := c12h.Input{Entry: "accumulate", Data: s.Data}
		o := vc12Exec(&in)
		if o.Class != "ok" || len(o.Nums) < 3 || int(o.Nums[0]) != wants[i].groups || int(o.Nums[1]) != wants[i].txs || int(o.Nums[2]) != wants[i].txs {
			return fmt.Errorf("valid stream gave %s/%s %v, expected %d groups and %d transactions with parsed metadata", o.Class, o.Fine, o.Nums, wants[i].groups, wants[i].txs)
		}
		return nil
	})
	return seeds, nil
}

// ---------------------------------------------------------------- mutations

type vc12Layout struct{ start, vlen, cidLen, dataLen int }

func vc12LayoutOf(s *c12h.Seed) (hdr int, secs []vc12Layout) {
	hdr = int(s.Nums[0])
	n := int(s.Nums[1])
	for i := 0; i < n; i++ {
		q := s.Nums[2+4*i:]
		secs = append(secs, vc12Layout{int(q[0]), int(q[1]), int(q[2]), int(q[3])})
	}
	return
}

func vc12Uvarint(v uint64) []byte {
	var b [binary.MaxVarintLen64]byte
	return append([]byte(nil), b[:binary.PutUvarint(b[:], v)]...)
}

func vc12Gen(seeds []c12h.Seed, rng *vh.Rng, thorough bool) []c12h.Input {
	const entry = "accumulate"
	var ins []c12h.Input
	nrand, maxSecs := 900, 8
	if thorough {
		nrand, maxSecs = 12000, 100
	}
	for si := range seeds {
		s := &seeds[si]
		hdr, secs := vc12LayoutOf(s)
		ins = append(ins, c12h.Input{Entry: entry, Label: "valid", Data: s.Data})
		// header: length varint, and the bytes after it
		fields := []c12h.Field{{Name: "header.len", Off: 0, Len: 1}, {Name: "header.cbor0", Off: 1, Len: 1}}
		bounds := []int{1, hdr}
		for i, l := range secs {
			bounds = append(bounds, l.start, l.start+l.vlen, l.start+l.vlen+l.cidLen, l.start+l.vlen+l.cidLen+l.dataLen)
			if i >= maxSecs && i < len(secs)-2 {
				continue
			}
			for v := 0; v < l.vlen; v++ {
				fields = append(fields, c12h.Field{Name: fmt.Sprintf("section.len.byte%d", v), Off: l.start + v, Len: 1})
			}
			c := l.start + l.vlen
			fields = append(fields, c12h.Field{Name: "cid.version", Off: c, Len: 1}, c12h.Field{Name: "cid.codec", Off: c + 1, Len: 1},
				c12h.Field{Name: "cid.mhcode", Off: c + 2, Len: 1}, c12h.Field{Name: "cid.mhlen", Off: c + 3, Len: 1},
				c12h.Field{Name: "object.byte0", Off: c + l.cidLen, Len: 1}, c12h.Field{Name: "object.kind", Off: c + l.cidLen + 1, Len: 1})
		}
		ins = append(ins, c12h.MutateFields(entry, s, fields, nil, nil)...)
		ins = append(ins, c12h.Truncations(entry, s, bounds, nil, nil)...)
		// section i rewritten: declared length = len(cid)+n with an n-byte object (n = 0, 1, 2, several contents), and
		// declared lengths below the length of the CID
		for i, l := range secs {
			if i >= maxSecs && i < len(secs)-2 {
				continue
			}
			head := s.Data[:l.start]
			cidb := s.Data[l.start+l.vlen : l.start+l.vlen+l.cidLen]
			obj := s.Data[l.start+l.vlen+l.cidLen : l.start+l.vlen+l.cidLen+l.dataLen]
			tail := s.Data[l.start+l.vlen+l.cidLen+l.dataLen:]
			rewrite := func(label string, declared uint64, body []byte, keepTail bool) {
				d := append([]byte(nil), head...)
				d = append(d, vc12Uvarint(declared)...)
				d = append(d, cidb...)
				d = append(d, body...)
				if keepTail {
					d = append(d, tail...)
				}
				ins = append(ins, c12h.Input{Entry: entry, Label: label, Data: d})
				if len(body) <= 2 || declared < uint64(l.cidLen) {
					ins = append(ins, c12h.Input{Entry: "objects", Label: label, Data: d})
				}
			}
			objs := [][]byte{{}, {obj[0]}, {0x00}, {0xff}, {obj[0], obj[1]}}
			for k := 0; k <= 7; k++ {
				objs = append(objs, []byte{0x80 | byte(k+1), byte(k)}) // two bytes claiming each kind (7 = unknown)
			}
			for _, o := range objs {
				for _, keep := range []bool{true, false} {
					rewrite(fmt.Sprintf("object:%dbytes", len(o)), uint64(l.cidLen+len(o)), o, keep)
				}
			}
			for _, declared := range []int{0, 1, 2, l.cidLen - 1, l.cidLen - 2, l.cidLen / 2} {
				rewrite("section-shorter-than-cid", uint64(declared), obj, true)
				rewrite("section-shorter-than-cid", uint64(declared), nil, false)
			}
			for _, declared := range []uint64{uint64(l.cidLen+l.dataLen) + 1, 1 << 20, 32<<20 - 1, 32 << 20, 32<<20 + 1, 1 << 31, 1<<63 - 1, 1 << 63, 1<<64 - 1} {
				rewrite("section-longer-than-data", declared, obj, true)
			}
		}
		// a 0/1/2-byte object in front of everything and behind everything
		for _, o := range [][]byte{{}, {0x86}, {0x86, 0x02}, {0x85, 0x00}} {
			c := vc12Cid(append([]byte("extra"), o...)).Bytes()
			sec := append(append(vc12Uvarint(uint64(len(c)+len(o))), c...), o...)
			front := append(append(append([]byte(nil), s.Data[:hdr]...), sec...), s.Data[hdr:]...)
			back := append(append([]byte(nil), s.Data...), sec...)
			ins = append(ins, c12h.Input{Entry: entry, Label: "extra-section", Data: front}, c12h.Input{Entry: entry, Label: "extra-section", Data: back},
				c12h.Input{Entry: "objects", Label: "extra-section", Data: front}, c12h.Input{Entry: "objects", Label: "extra-section", Data: back})
		}
		hot := 0
		if len(secs) > 0 {
			hot = secs[0].start + secs[0].vlen + 4
		}
		ins = append(ins, c12h.RandomMutations(entry, s, rng, nrand, 0, nil, nil)...)
		ins = append(ins, c12h.RandomMutations(entry, s, rng, nrand/3, hot, nil, nil)...)
		ins = append(ins, c12h.Input{Entry: "objects", Label: "valid", Data: s.Data})
		ins = append(ins, c12h.RandomMutations("objects", s, rng, nrand/3, 0, nil, nil)...)
	}
	ins = append(ins, c12h.Junk(entry, rng, 100, nil)...)
	ins = append(ins, c12h.Junk(entry, rng, 200, seeds[0].Data[:seeds[0].Nums[0]])...) // junk behind a valid header
	return ins
}

// ---------------------------------------------------------------- run

type vc12Group struct {
	parent   *ObjectWithMetadata
	children []ObjectWithMetadata
}

func vc12Exec(in *c12h.Input) c12h.Obs {
	cr, err := carreader.New(io.NopCloser(bytes.NewReader(in.Data)))
	if err != nil {
		return c12h.Obs{Class: "error", Fine: "open-error"}
	}
	var groups []vc12Group
	fine := ""
	switch in.Entry {
	case "accumulate":
		ctx, cancel := context.WithCancel(context.Background())
		defer cancel()
		oa := NewObjectAccumulator(cr, iplddecoders.KindBlock, func(parent *ObjectWithMetadata, children []ObjectWithMetadata) error {
			groups = append(groups, vc12Group{parent, children})
			return nil
		})
		if runErr := oa.Run(ctx); runErr != nil { // a panic in Run itself happens on this goroutine
			fine = "run-error"
		}
	case "objects":
		// the grouping done by hand (objects shorter than 2 bytes are children), so that what
		// ObjectsToTransactionsAndMetadata does with such objects is observed even when Run would not deliver them
		var children []ObjectWithMetadata
		off := uint64(0)
		for {
			c, slen, data, err := cr.NextNodeBytes()
			if err != nil {
				if !errors.Is(err, io.EOF) {
					fine = "read-error"
				}
				break
			}
			el := ObjectWithMetadata{Cid: c, Offset: off, SectionLength: slen, ObjectData: data}
			off += slen
			if len(data) >= 2 && iplddecoders.Kind(data[1]) == iplddecoders.KindBlock {
				parent := el
				groups = append(groups, vc12Group{&parent, children})
				children = nil
			} else {
				children = append(children, el)
			}
		}
		if len(children) > 0 { // for this entry the trailing objects are handed over too, under an empty block
			groups = append(groups, vc12Group{nil, children})
		}
	default:
		panic("VERIF-HARNESS-BUG unknown entry " + in.Entry)
	}
	var nTx, nMeta uint64
	for _, g := range groups {
		if g.parent == nil && in.Entry == "accumulate" {
			continue // objects after the last block: the repository's callbacks ignore a parentless group
		}
		block := &ipldbindcode.Block{Kind: int(iplddecoders.KindBlock), Slot: 1}
		if g.parent != nil {
			block, err = iplddecoders.DecodeBlock(g.parent.ObjectData)
			if err != nil {
				if fine == "" {
					fine = "block-decode-error"
				}
				continue
			}
		}
		txs, err := ObjectsToTransactionsAndMetadata(block, g.children)
		if err != nil {
			if fine == "" {
				fine = "objects-error"
			}
			continue
		}
		for _, t := range txs {
			nTx++
			if t.Ok() && t.Metadata != nil && t.Metadata.Ok() {
				nMeta++
			}
			_ = t.IsMetaNotFound()
			_ = t.IsMetaParseError()
		}
		PutTransactionWithSlotSlice(txs)
	}
	nums := []uint64{uint64(len(groups)), nTx, nMeta}
	if fine != "" {
		return c12h.Obs{Class: "error", Fine: fine, Nums: nums}
	}
	return c12h.Obs{Class: "ok", Nums: nums}
}

// go-car caps a section at 32 MiB (one buffer of the declared size is allocated before the bytes are read); the
// accumulator allocates a children buffer of capacity 5000 (56 bytes each) per flushed group, a realistic section is
// at least 40 bytes (36-byte CID).
func vc12Budget(in *c12h.Input) uint64 {
	return 80<<20 + uint64(16*len(in.Data)) + uint64(len(in.Data)/40+2)*5000*64 // 32 MiB section cap (go-car) + 32 MiB digest cap (go-cid) + growth
}

func TestVerif_C12(t *testing.T) {
	c12h.Run(t, &c12h.Part{
		Name:  "accum",
		Rule:  "carreader.New + ObjectAccumulator(flush on Block).Run + ObjectsToTransactionsAndMetadata (entry accumulate; entry objects: the same objects read with NextNodeBytes and grouped by hand) on mutated valid CARv1 streams (section-length varints, CID prefix bytes, objects replaced by 0/1/2-byte objects, declared lengths below the CID length / above the data, truncations, random edits, junk): no panic, allocation <= 80MiB (go-car's 32 MiB section cap + go-cid's 32 MiB digest cap + growth) + 16*len + one children buffer (5000 slots) per 40 input bytes, no hang",
		Seeds: vc12Seeds, Gen: vc12Gen, Exec: vc12Exec, Budget: vc12Budget,
	})
}
