package accum

// Verification harness for C15 (injected with `go test -overlay`; not part of the repository).
//
// Generates CARv1 files (header written with go-car, sections with util.LdWrite), runs the real
// ObjectAccumulator over them with instantaneous / slow / randomly delayed / gated callbacks under
// GOMAXPROCS 1, 4, 16, and checks directly on the observations that
//   * the callback sequence is exactly the generator's ground truth (each block once, file order, the kept
//     objects since the previous block as children, trailing kept objects as a final parentless group),
//   * every delivered object's (Offset, SectionLength) reads back exactly its section from the file bytes,
//   * contents are still right when they are read late inside a slow callback (no aliasing of pooled buffers),
//   * every delivered payload is the bytes stored in the file at the object's position, also on CARs of several MiB
//     with consumers that start after the reader is done, and a consumer that appends to `children` (as the CAR
//     splitter does) neither sees its own slice change nor alters a later group (see c15_consumers_test.go).
// The observations are written as a Coq case file checked against YF.C15_Check (model + groups_spec).

import (
	"bytes"
	"context"
	"crypto/sha256"
	"encoding/binary"
	"fmt"
	"io"
	"os"
	"path/filepath"
	"runtime"
	"sort"
	"strings"
	"sync"
	"sync/atomic"
	"testing"
	"time"

	"github.com/ipfs/go-cid"
	carv1 "github.com/ipld/go-car"
	"github.com/ipld/go-car/util"
	"github.com/rpcpool/yellowstone-faithful/carreader"
	"github.com/rpcpool/yellowstone-faithful/iplddecoders"
	"github.com/rpcpool/yellowstone-faithful/zzverif/vh"
)

// ---------------------------------------------------------------- generator

type vc15ObjSpec struct {
	Kind     byte `json:"kind"`
	DataLen  int  `json:"data_len"`
	CidStyle int  `json:"cid_style"`
}

type vc15Spec struct {
	Name      string        `json:"name"`
	Roots     int           `json:"roots"`
	RootStyle int           `json:"root_style"`
	Objs      []vc15ObjSpec `json:"-"`
}

type vc15Obj struct {
	cid  cid.Cid
	data []byte
	kind byte
	off  uint64
	slen uint64
}

type vc15Car struct {
	spec   vc15Spec
	id     int
	path   string
	bytes  []byte
	hdrLen uint64
	objs   []vc15Obj
	byCid  map[string]int
}

func vc15Uvarint(v uint64) []byte {
	var b [binary.MaxVarintLen64]byte
	n := binary.PutUvarint(b[:], v)
	return b[:n]
}

// vc15RawCid builds a CID from its parts without hashing: style decides version, codec, hash code and digest length.
func vc15RawCid(style int, uniq uint64, rng *vh.Rng) (cid.Cid, bool) {
	var raw []byte
	digest := func(n int) []byte {
		d := make([]byte, n)
		var u [8]byte
		binary.BigEndian.PutUint64(u[:], uniq)
		copy(d, rng.Bytes(n))
		if n >= 8 {
			copy(d, u[:])
		} else {
			copy(d, u[8-n:])
		}
		return d
	}
	switch style {
	case 1: // CIDv0: sha2-256 multihash only (34 bytes)
		raw = append([]byte{0x12, 0x20}, digest(32)...)
	case 2: // CIDv1 raw, identity multihash, short digest (12 bytes total)
		raw = append([]byte{0x01, 0x55, 0x00, 0x08}, digest(8)...)
	case 3: // CIDv1 dag-cbor, sha2-512 (68 bytes)
		raw = append([]byte{0x01, 0x71, 0x13, 0x40}, digest(64)...)
	case 4: // CIDv1 dag-cbor, identity multihash with a 2-byte length varint (digest of 130 bytes)
		raw = append([]byte{0x01, 0x71, 0x00, 0x82, 0x01}, digest(130)...)
	default: // CIDv1 dag-cbor sha2-256 with a made-up digest (36 bytes)
		raw = append([]byte{0x01, 0x71, 0x12, 0x20}, digest(32)...)
	}
	c, err := cid.Cast(raw)
	if err != nil {
		return cid.Undef, false
	}
	// the reader must parse it back to the same bytes, otherwise the style is not usable as a fixture
	n, c2, err := cid.CidFromReader(bytes.NewReader(append(append([]byte{}, raw...), 0xAA, 0xBB)))
	if err != nil || n != len(raw) || !c2.Equals(c) {
		return cid.Undef, false
	}
	return c, true
}

var vc15StyleOK [5]bool

func vc15ProbeStyles() {
	rng := vh.NewRng(12345)
	for s := 0; s < 5; s++ {
		_, ok := vc15RawCid(s, 1, rng)
		vc15StyleOK[s] = ok
	}
}

func vc15SumCid(data []byte) cid.Cid {
	h := sha256.Sum256(data)
	c, err := cid.Cast(append([]byte{0x01, 0x71, 0x12, 0x20}, h[:]...))
	if err != nil {
		panic("VERIF-HARNESS-BUG: " + err.Error())
	}
	return c
}

func vc15Build(spec vc15Spec, id int, rng *vh.Rng, dir string) *vc15Car {
	car := &vc15Car{spec: spec, id: id, byCid: map[string]int{}}
	var buf bytes.Buffer
	roots := make([]cid.Cid, 0, spec.Roots)
	for i := 0; i < spec.Roots; i++ {
		st := spec.RootStyle
		if !vc15StyleOK[st] {
			st = 0
		}
		c, ok := vc15RawCid(st, uint64(1_000_000+i), rng)
		if !ok {
			panic("VERIF-HARNESS-BUG: cannot build root cid")
		}
		roots = append(roots, c)
	}
	if err := carv1.WriteHeader(&carv1.CarHeader{Roots: roots, Version: 1}, &buf); err != nil {
		panic("VERIF-HARNESS-BUG: " + err.Error())
	}
	car.hdrLen = uint64(buf.Len())
	for i, os_ := range spec.Objs {
		n := os_.DataLen
		if n < 2 {
			n = 2
		}
		data := rng.Bytes(n)
		data[0] = 0x80 | byte(rng.Intn(8)+1) // CBOR array header, as the real nodes start
		data[1] = os_.Kind
		if n >= 10 {
			binary.BigEndian.PutUint64(data[2:10], uint64(i)+1)
		}
		var c cid.Cid
		st := os_.CidStyle
		if st < 0 || st > 4 || !vc15StyleOK[st] {
			st = 0
		}
		if st == 0 && n >= 10 {
			c = vc15SumCid(data) // like the real archive: CIDv1 dag-cbor sha2-256 of the payload
		} else {
			var ok bool
			c, ok = vc15RawCid(st, uint64(i)+1, rng)
			if !ok {
				panic("VERIF-HARNESS-BUG: cannot build cid")
			}
		}
		off := uint64(buf.Len())
		if err := util.LdWrite(&buf, c.Bytes(), data); err != nil {
			panic("VERIF-HARNESS-BUG: " + err.Error())
		}
		o := vc15Obj{cid: c, data: data, kind: os_.Kind, off: off, slen: uint64(buf.Len()) - off}
		if _, dup := car.byCid[string(c.Bytes())]; dup {
			panic("VERIF-HARNESS-BUG: duplicate cid in generated car")
		}
		car.byCid[string(c.Bytes())] = i
		car.objs = append(car.objs, o)
	}
	car.bytes = buf.Bytes()
	car.path = filepath.Join(dir, fmt.Sprintf("c15_%03d.car", id))
	if err := os.WriteFile(car.path, car.bytes, 0o644); err != nil {
		panic("VERIF-HARNESS-BUG: " + err.Error())
	}
	return car
}

var vc15Kinds = []byte{0, 1, 2, 3, 4, 5, 6}

func vc15RandLen(rng *vh.Rng, cidLen int) int {
	switch rng.Intn(20) {
	case 0:
		return 127 - cidLen // section length varint: largest 1-byte value
	case 1:
		return 128 - cidLen // smallest 2-byte value
	case 2:
		return 16383 - cidLen // largest 2-byte value
	case 3:
		return 16384 - cidLen // smallest 3-byte value
	case 4:
		return rng.Range(16400, 21000)
	case 5, 6, 7:
		return rng.Range(100, 3000)
	default:
		return rng.Range(2, 90)
	}
}

func vc15CidLen(style int) int {
	switch style {
	case 1:
		return 34
	case 2:
		return 12
	case 3:
		return 68
	case 4:
		return 135
	}
	return 36
}

func vc15RandomSpec(rng *vh.Rng, name string, maxObjs int, flush byte) vc15Spec {
	sp := vc15Spec{Name: name, Roots: rng.Range(1, 5), RootStyle: rng.Intn(5)}
	n := rng.Intn(maxObjs + 1)
	pBlock := []int{5, 20, 50, 90}[rng.Intn(4)]
	for i := 0; i < n; i++ {
		var k byte
		switch {
		case rng.Intn(100) < pBlock:
			k = flush
		case rng.Intn(40) == 0:
			k = []byte{7, 0x17, 0x18, 0xff}[rng.Intn(4)] // bytes that are not a kind of the schema
		default:
			k = vc15Kinds[rng.Intn(len(vc15Kinds))]
		}
		st := 0
		if rng.Intn(4) == 0 {
			st = rng.Intn(5)
		}
		dl := vc15RandLen(rng, vc15CidLen(st))
		if dl < 2 {
			dl = 2
		}
		sp.Objs = append(sp.Objs, vc15ObjSpec{Kind: k, DataLen: dl, CidStyle: st})
	}
	return sp
}

func vc15Small(k byte) vc15ObjSpec { return vc15ObjSpec{Kind: k, DataLen: 4, CidStyle: 2} }

// fixed shapes named by the property's quantifier
func vc15FixedSpecs(rng *vh.Rng, thorough bool, prealloc int) []vc15Spec {
	B := byte(iplddecoders.KindBlock)
	var out []vc15Spec
	mk := func(name string, kinds ...byte) {
		sp := vc15Spec{Name: name, Roots: 1, RootStyle: 0}
		for _, k := range kinds {
			sp.Objs = append(sp.Objs, vc15ObjSpec{Kind: k, DataLen: rng.Range(2, 60), CidStyle: rng.Pick(0, 0, 2)})
		}
		out = append(out, sp)
	}
	mk("empty")
	mk("only-children", 0, 1, 5, 6, 0, 1)
	mk("only-blocks", B, B, B, B, B)
	mk("block-last", 0, 1, B, 0, 0, 1, B)
	mk("trailing", 0, 1, B, 0, 1, 6)
	mk("trailing-ignorable", 0, 1, B, 4, 3, 4) // with ignore {3,4} the final group is empty: no callback
	mk("single-block", B)
	mk("single-child", 0)
	mk("block-first", B, 0, 0, B, 1)
	// every kind present, several groups: used for the sweep over all 128 ignore sets
	{
		sp := vc15Spec{Name: "allkinds", Roots: 2, RootStyle: 0}
		for rep := 0; rep < 4; rep++ {
			for _, k := range rng.Perm(7) {
				sp.Objs = append(sp.Objs, vc15ObjSpec{Kind: byte(k), DataLen: rng.Range(2, 200), CidStyle: 0})
			}
		}
		sp.Objs = append(sp.Objs, vc15ObjSpec{Kind: 4, DataLen: 20}, vc15ObjSpec{Kind: 3, DataLen: 20})
		out = append(out, sp)
	}
	// more children than the preallocation of the children slice
	big := func(name string, n int) {
		sp := vc15Spec{Name: name, Roots: 1}
		sp.Objs = append(sp.Objs, vc15Small(0), vc15Small(B))
		for i := 0; i < n; i++ {
			sp.Objs = append(sp.Objs, vc15Small([]byte{0, 1, 6, 5}[rng.Intn(4)]))
		}
		sp.Objs = append(sp.Objs, vc15Small(B), vc15Small(1), vc15Small(0), vc15Small(B), vc15Small(5))
		out = append(out, sp)
	}
	big("children>prealloc", prealloc+3)
	if thorough {
		big("children=prealloc", prealloc)
		big("children=prealloc+1", prealloc+1)
		big("children=2.4*prealloc", prealloc*12/5)
	}
	return out
}

// more groups than the queue holds (run with a gated callback so that the producer blocks on the full queue)
func vc15ManyGroups(rng *vh.Rng, groups int) vc15Spec {
	B := byte(iplddecoders.KindBlock)
	sp := vc15Spec{Name: "groups>queue", Roots: 1}
	for i := 0; i < groups; i++ {
		for j := rng.Intn(3); j > 0; j-- {
			sp.Objs = append(sp.Objs, vc15Small([]byte{0, 1, 4}[rng.Intn(3)]))
		}
		sp.Objs = append(sp.Objs, vc15Small(B))
	}
	sp.Objs = append(sp.Objs, vc15Small(0))
	return sp
}

// ---------------------------------------------------------------- ground truth

type vc15Item struct {
	Idx  int    `json:"idx"` // position of the object in the file (-1: bytes of no object of the file)
	Off  uint64 `json:"off"`
	Slen uint64 `json:"slen"`
}

type vc15Group struct {
	Parent   *vc15Item  `json:"parent"`
	Children []vc15Item `json:"children"`
}

func vc15Has(ign []byte, k byte) bool {
	for _, x := range ign {
		if x == k {
			return true
		}
	}
	return false
}

// what the property says, computed from what the generator wrote
func vc15Expected(car *vc15Car, flush byte, ign []byte, skip int) []vc15Group {
	var out []vc15Group
	cur := []vc15Item{}
	for i, o := range car.objs {
		if i < skip {
			continue
		}
		it := vc15Item{Idx: i, Off: o.off, Slen: o.slen}
		if o.kind == flush {
			p := it
			out = append(out, vc15Group{Parent: &p, Children: cur})
			cur = []vc15Item{}
			continue
		}
		if vc15Has(ign, o.kind) {
			continue
		}
		cur = append(cur, it)
	}
	if len(cur) > 0 {
		out = append(out, vc15Group{Parent: nil, Children: cur})
	}
	return out
}

func vc15GroupsEqual(a, b []vc15Group) bool {
	if len(a) != len(b) {
		return false
	}
	for i := range a {
		if (a[i].Parent == nil) != (b[i].Parent == nil) {
			return false
		}
		if a[i].Parent != nil && *a[i].Parent != *b[i].Parent {
			return false
		}
		if len(a[i].Children) != len(b[i].Children) {
			return false
		}
		for j := range a[i].Children {
			if a[i].Children[j] != b[i].Children[j] {
				return false
			}
		}
	}
	return true
}

// ---------------------------------------------------------------- one run of the real code

const (
	vc15Instant = iota
	vc15Slow
	vc15Random
	vc15Gated    // the first callback is held until the reader has queued everything the queue can take (reader ahead)
	vc15Lockstep // the reader gets the file group by group from the consumer (reader behind), see vc15GateReader
)

var vc15ModeNames = []string{"instant", "slow", "random", "gated", "lockstep"}

type vc15Run struct {
	CarName  string `json:"car"`
	CarID    int    `json:"car_id"`
	Flush    byte   `json:"flush_kind"`
	Ignore   []int  `json:"ignore"`
	Skip     int    `json:"skip"`
	Mode     string `json:"callback"`
	Consumer string `json:"consumer"`
	Procs    int    `json:"gomaxprocs"`
	FromMem  bool   `json:"from_memory"`
	Kinds    string `json:"kinds,omitempty"`
	Seed     uint64 `json:"seed"`
}

type vc15Result struct {
	groups        []vc15Group
	problems      map[string]string // signature -> first detail
	timedOut      bool
	runErr        error
	panicked      interface{}
	maxQueue      int
	queueCap      int
	hdrSize       uint64
	retainedBad   int
	callbacksLate int
	gateTimeouts  int // the gated first callback gave up waiting for the reader (informational)
	readerStalls  int // the lockstep reader stopped gating because nobody released it (informational)
	lockstepWaits int // lockstep callbacks that did not see the next group queued within their bound (informational)
}

func (r *vc15Result) problem(sig, detail string) {
	if _, ok := r.problems[sig]; !ok {
		r.problems[sig] = detail
	}
}

func vc15Section(c cid.Cid, data []byte) []byte {
	cb := c.Bytes()
	out := vc15Uvarint(uint64(len(cb) + len(data)))
	out = append(out, cb...)
	return append(out, data...)
}

// check one delivered object against the file bytes and the generator's ground truth; returns its item
func vc15CheckObj(car *vc15Car, op *ObjectWithMetadata, res *vc15Result, where string) vc15Item {
	ov := *op // one copy: if the implementation overwrites the value meanwhile, the checks below stay consistent
	o := &ov
	it := vc15Item{Idx: -1, Off: o.Offset, Slen: o.SectionLength}
	idx, ok := car.byCid[string(o.Cid.Bytes())]
	if !ok {
		res.problem("wrong-content", fmt.Sprintf("%s: delivered cid %s is the cid of no object of the file", where, o.Cid))
	} else {
		it.Idx = idx
		g := car.objs[idx]
		// the payload both consumers decode must be the bytes stored in the file at the object's position
		if stored := vc15StoredPayload(car, idx); !bytes.Equal(o.ObjectData, stored) {
			d := vc15FirstDiff(o.ObjectData, stored)
			res.problem("payload-differs-from-file", fmt.Sprintf("%s: object #%d (cid %s, offset %d, section length %d) is delivered with a payload that is not the one stored in the file at that position: %d bytes delivered, %d stored, first difference at payload byte %d", where, idx, o.Cid, g.off, g.slen, len(o.ObjectData), len(stored), d))
		}
		if o.Offset != g.off {
			res.problem("wrong-offset", fmt.Sprintf("%s: object #%d delivered with offset %d, it sits at %d", where, idx, o.Offset, g.off))
		}
		if o.SectionLength != g.slen {
			res.problem("wrong-section-length", fmt.Sprintf("%s: object #%d delivered with section length %d, its section has %d bytes", where, idx, o.SectionLength, g.slen))
		}
	}
	// independent of the generator: the bytes at (offset, length) in the file are this object's section
	sec := vc15Section(o.Cid, o.ObjectData)
	end := o.Offset + o.SectionLength
	if end < o.Offset || end > uint64(len(car.bytes)) || !bytes.Equal(car.bytes[o.Offset:end], sec) {
		res.problem("offset-does-not-read-back", fmt.Sprintf("%s: file bytes at offset %d length %d are not the section of the delivered object (cid %s, %d payload bytes)", where, o.Offset, o.SectionLength, o.Cid, len(o.ObjectData)))
	}
	return it
}

type vc15Fingerprint struct {
	cid  string
	off  uint64
	slen uint64
	dlen int
	d0   byte
}

func vc15Finger(o *ObjectWithMetadata) vc15Fingerprint {
	f := vc15Fingerprint{cid: string(o.Cid.Bytes()), off: o.Offset, slen: o.SectionLength, dlen: len(o.ObjectData)}
	if len(o.ObjectData) > 1 {
		f.d0 = o.ObjectData[1]
	}
	return f
}

func vc15RunOnce(car *vc15Car, flush byte, ign []byte, skip int, opts vc15Opts, drng *vh.Rng) *vc15Result {
	out := &vc15Result{problems: map[string]string{}}
	vc15RunInto(out, car, flush, ign, skip, opts, drng)
	return out
}

// "observe" (default): objects that changed AFTER their callback returned are counted only (neither consumer keeps
// them that long); "enforce": reported as `retained-object-changed-after-return`.
func vc15RetainedEnforced() bool { return os.Getenv("VERIF_C15_RETAINED") == "enforce" }

func vc15RunInto(out *vc15Result, car *vc15Car, flush byte, ign []byte, skip int, opts vc15Opts, drng *vh.Rng) {
	res := &vc15Result{problems: map[string]string{}}
	mode := opts.mode
	exp := vc15Expected(car, flush, ign, skip)
	nExpected := len(exp)
	totalSends := 1 // hand-overs to the flusher: one per object of the flush kind and the final one
	var ends []uint64
	for i, o := range car.objs {
		if i >= skip && o.kind == flush {
			totalSends++
			ends = append(ends, o.off+o.slen)
		}
	}
	var rc io.ReadCloser
	var gate *vc15GateReader
	switch {
	case mode == vc15Lockstep:
		gate = vc15NewGateReader(car.bytes, ends)
		rc = gate
	case opts.fromMem:
		rc = io.NopCloser(bytes.NewReader(car.bytes))
	default:
		f, err := os.Open(car.path)
		if err != nil {
			panic("VERIF-HARNESS-BUG: " + err.Error())
		}
		rc = f
	}
	defer rc.Close()
	rd, err := carreader.New(rc)
	if err != nil {
		out.runErr = fmt.Errorf("carreader.New: %w", err)
		return
	}
	if hs, err := rd.HeaderSize(); err == nil {
		res.hdrSize = hs
	}

	var mu sync.Mutex // protects res.groups/problems when Run does not return (timeout path)
	var inCallback, returned atomic.Int32
	perGroup := 200 * time.Microsecond
	if nExpected > 0 && time.Duration(nExpected)*perGroup > 12*time.Millisecond {
		perGroup = 12 * time.Millisecond / time.Duration(nExpected)
	}
	type kept struct {
		parent   *ObjectWithMetadata
		children []ObjectWithMetadata
		pf       vc15Fingerprint
		cf       []vc15Fingerprint
		family   []ObjectWithMetadata
		famWant  []vc15Fingerprint
	}
	var retained []kept
	appended := map[vc15AppKey]vc15Appended{} // what the splitter-style consumer appended to the slices it was given
	var oa *ObjectAccumulator
	first := true
	ignKinds := make([]iplddecoders.Kind, len(ign))
	for i, k := range ign {
		ignKinds[i] = iplddecoders.Kind(k)
	}
	cb := func(parent *ObjectWithMetadata, children []ObjectWithMetadata) error {
		mu.Lock()
		defer mu.Unlock()
		if inCallback.Add(1) != 1 {
			res.problem("callbacks-overlap", "two callback invocations were active at the same time")
		}
		defer inCallback.Add(-1)
		if returned.Load() != 0 {
			res.callbacksLate++
			res.problem("callback-after-return", "the callback was invoked after Run had returned")
		}
		if q := len(oa.flushQueue); q > res.maxQueue {
			res.maxQueue = q
		}
		gi := len(res.groups)
		// what is visible at the moment the callback starts
		var pf vc15Fingerprint
		if parent != nil {
			pf = vc15Finger(parent)
		}
		cf := make([]vc15Fingerprint, len(children))
		for i := range children {
			cf[i] = vc15Finger(&children[i])
		}
		// the splitter builds the DAG of the block by appending to the slice it was given
		var family []ObjectWithMetadata
		var famWant []vc15Fingerprint
		if opts.splitter {
			family = children
			famWant = append(make([]vc15Fingerprint, 0, len(cf)+4), cf...)
			if parent != nil {
				family = append(family, *parent)
				famWant = append(famWant, pf)
				appended[vc15KeyOf(parent)] = vc15Appended{gi, fmt.Sprintf("the block delivered as the parent of group %d", gi)}
			}
			for e, n := 0, drng.Intn(4); e < n; e++ {
				s := vc15Sentinel(gi, e)
				family = append(family, s)
				famWant = append(famWant, vc15Finger(&s))
				appended[vc15KeyOf(&s)] = vc15Appended{gi, fmt.Sprintf("extra element %d", e)}
			}
		}
		switch mode {
		case vc15Slow:
			time.Sleep(perGroup)
		case vc15Random:
			switch drng.Intn(4) {
			case 0:
			case 1:
				runtime.Gosched()
			default:
				time.Sleep(time.Duration(drng.Intn(int(perGroup)*2 + 1)))
			}
		case vc15Gated:
			if first { // hold the consumer until the producer has queued everything the queue can take
				target := totalSends - 1
				if c := cap(oa.flushQueue); target > c {
					target = c
				}
				last, lastChange, start := -1, time.Now(), time.Now()
				for {
					q := len(oa.flushQueue)
					if q >= target {
						break
					}
					now := time.Now()
					if q != last {
						last, lastChange = q, now
					}
					if now.Sub(lastChange) > 200*time.Millisecond || now.Sub(start) > 5*time.Second {
						res.gateTimeouts++ // only less is exercised; the verdict does not depend on it
						break
					}
					time.Sleep(100 * time.Microsecond)
				}
				time.Sleep(2 * time.Millisecond) // the producer is now done or blocked in its send
				if q := len(oa.flushQueue); q > res.maxQueue {
					res.maxQueue = q
				}
			}
		case vc15Lockstep:
			// only now may the reader read the next group; wait (bounded) until it has handed it over
			gate.releaseNext()
			if parent != nil {
				start := time.Now()
				for len(oa.flushQueue) == 0 && !gate.free.Load() {
					if time.Since(start) > 20*time.Millisecond {
						res.lockstepWaits++
						break
					}
					time.Sleep(20 * time.Microsecond)
				}
			}
		}
		first = false
		// read everything only now, after the delay
		var g vc15Group
		if parent != nil {
			if vc15Finger(parent) != pf {
				res.problem("content-changed-while-consuming", fmt.Sprintf("group %d: the parent changed while the callback was running", gi))
			}
			it := vc15CheckObj(car, parent, res, fmt.Sprintf("group %d parent", gi))
			g.Parent = &it
		}
		g.Children = make([]vc15Item, len(children))
		if len(children) != len(cf) {
			res.problem("content-changed-while-consuming", fmt.Sprintf("group %d: children slice changed length", gi))
		}
		for i := range children {
			if i < len(cf) && vc15Finger(&children[i]) != cf[i] {
				res.problem("content-changed-while-consuming", fmt.Sprintf("group %d: child %d changed while the callback was running", gi, i))
			}
			g.Children[i] = vc15CheckObj(car, &children[i], res, fmt.Sprintf("group %d child %d", gi, i))
			if opts.splitter && gi < len(exp) && i < len(exp[gi].Children) && g.Children[i] != exp[gi].Children[i] {
				// not the object stored there: is it something this consumer appended to the slice of an earlier group?
				if a, ok := appended[vc15KeyOf(&children[i])]; ok && a.group < gi {
					e := exp[gi].Children[i]
					res.problem("children-altered-by-consumer-append", fmt.Sprintf("group %d: child %d is %s, which the consumer of group %d had appended to ITS children slice (append(children, *parent, ...), as cmd-car-split.go does); the file has object #%d (offset %d, section length %d) there and that object was never delivered", gi, i, a.what, a.group, e.Idx, e.Off, e.Slen))
				}
			}
		}
		// the slice the consumer built by appending must still hold what was delivered plus what it appended
		for j := range family {
			if j < len(famWant) {
				if now := vc15Finger(&family[j]); now != famWant[j] {
					res.problem("family-altered-under-consumer", fmt.Sprintf("group %d (%d children): element %d of family := append(children, *parent, ...) changed while the callback was still using it: appended/delivered as %s, now %s", gi, len(cf), j, vc15Describe(famWant[j]), vc15Describe(now)))
					break
				}
			}
		}
		res.groups = append(res.groups, g)
		if len(retained) < 3000 {
			retained = append(retained, kept{parent, children, pf, cf, family, famWant})
		}
		return nil
	}
	oa = NewObjectAccumulator(rd, iplddecoders.Kind(flush), cb, ignKinds...)
	res.queueCap = cap(oa.flushQueue)
	if skip > 0 {
		oa.SetSkip(uint64(skip))
	}
	type outcome struct {
		err error
		pan interface{}
	}
	done := make(chan outcome, 1)
	go func() {
		var o outcome
		defer func() {
			if p := recover(); p != nil {
				o.pan = p
			}
			returned.Store(1)
			done <- o
		}()
		o.err = oa.Run(context.Background())
	}()
	select {
	case o := <-done:
		res.runErr, res.panicked = o.err, o.pan
	case <-time.After(60 * time.Second):
		res.timedOut = true
	}
	// Run must not return while a delivery is still in progress (its callers finalise their output right after)
	inFlightAtReturn := !res.timedOut && inCallback.Load() != 0
	mu.Lock()
	defer mu.Unlock()
	if gate != nil {
		res.readerStalls = int(gate.stalls.Load())
	}
	if inFlightAtReturn {
		res.problem("run-returned-before-delivery-finished", "Run returned while a callback invocation was still running")
	}
	if !res.timedOut && !vc15GroupsEqual(res.groups, exp) {
		// something is missing at the moment Run returned: give late callbacks a moment to show up
		mu.Unlock()
		time.Sleep(30 * time.Millisecond)
		mu.Lock()
	}
	// the caller gets a snapshot: a callback arriving even later writes to res only
	snap := *res
	snap.groups = append([]vc15Group(nil), res.groups...)
	snap.problems = map[string]string{}
	for k, v := range res.problems {
		snap.problems[k] = v
	}
	fin := &snap
	defer func() { *out = *fin }()
	if !fin.timedOut {
		// are the values handed to the callback (fingerprints, payloads against the file, the consumer's family
		// slices) still intact after Run returned? Informational unless VERIF_C15_RETAINED=enforce.
		scratch := &vc15Result{problems: map[string]string{}}
		for gi, k := range retained {
			bad := ""
			if k.parent != nil {
				if vc15Finger(k.parent) != k.pf {
					bad = "the parent changed"
				}
				vc15CheckObj(car, k.parent, scratch, fmt.Sprintf("group %d parent, after Run returned", gi))
			}
			if len(k.children) != len(k.cf) {
				bad = "the children slice changed length"
			}
			for i := range k.children {
				if i < len(k.cf) && vc15Finger(&k.children[i]) != k.cf[i] {
					bad = fmt.Sprintf("child %d changed", i)
				}
				vc15CheckObj(car, &k.children[i], scratch, fmt.Sprintf("group %d child %d, after Run returned", gi, i))
			}
			for j := range k.family {
				if j < len(k.famWant) && vc15Finger(&k.family[j]) != k.famWant[j] {
					bad = fmt.Sprintf("element %d of the consumer's family slice changed", j)
				}
			}
			if bad == "" && len(scratch.problems) > 0 {
				for _, d := range scratch.problems {
					bad = d
					break
				}
			}
			scratch.problems = map[string]string{}
			if bad != "" {
				fin.retainedBad++
				if vc15RetainedEnforced() {
					fin.problem("retained-object-changed-after-return", fmt.Sprintf("group %d, looked at again after Run returned: %s", gi, bad))
				}
			}
		}
	}
}

// classify the difference between the observed and the expected callback sequence (property text)
func vc15Classify(obs, exp []vc15Group) (string, string) {
	parents := func(gs []vc15Group) []int {
		var p []int
		for _, g := range gs {
			if g.Parent != nil {
				p = append(p, g.Parent.Idx)
			}
		}
		return p
	}
	po, pe := parents(obs), parents(exp)
	seen := map[int]int{}
	for _, p := range po {
		seen[p]++
		if seen[p] > 1 && p >= 0 {
			return "block-delivered-twice", fmt.Sprintf("block object #%d was delivered %d times", p, seen[p])
		}
	}
	if fmt.Sprint(po) != fmt.Sprint(pe) {
		so, se := append([]int{}, po...), append([]int{}, pe...)
		sort.Ints(so)
		sort.Ints(se)
		if fmt.Sprint(so) == fmt.Sprint(se) {
			return "wrong-order", fmt.Sprintf("blocks delivered in order %v, file order is %v", vc15Head(po), vc15Head(pe))
		}
		for _, p := range pe {
			if seen[p] == 0 {
				return "block-missing", fmt.Sprintf("block object #%d was never delivered (delivered %d parents, expected %d)", p, len(po), len(pe))
			}
		}
		return "unexpected-parent", fmt.Sprintf("parents delivered %v, blocks of the file %v", vc15Head(po), vc15Head(pe))
	}
	for i := range exp {
		if i >= len(obs) {
			if exp[i].Parent == nil {
				return "trailing-group-missing", fmt.Sprintf("the %d kept objects after the last block were not delivered", len(exp[i].Children))
			}
			break
		}
		if (obs[i].Parent == nil) != (exp[i].Parent == nil) {
			return "wrong-groups", fmt.Sprintf("group %d: parent presence differs", i)
		}
		if fmt.Sprint(obs[i].Children) != fmt.Sprint(exp[i].Children) {
			sig := "wrong-children"
			if exp[i].Parent == nil {
				sig = "wrong-trailing-group"
			}
			oc, ec := []int{}, []int{}
			for _, c := range obs[i].Children {
				oc = append(oc, c.Idx)
			}
			for _, c := range exp[i].Children {
				ec = append(ec, c.Idx)
			}
			if fmt.Sprint(oc) == fmt.Sprint(ec) {
				return "wrong-offset", fmt.Sprintf("group %d: the right children but with other offsets/lengths", i)
			}
			return sig, fmt.Sprintf("group %d: children delivered %v (%d), expected %v (%d)", i, vc15Head(oc), len(oc), vc15Head(ec), len(ec))
		}
		if obs[i].Parent != nil && *obs[i].Parent != *exp[i].Parent {
			return "wrong-offset", fmt.Sprintf("group %d: parent delivered as %+v, expected %+v", i, *obs[i].Parent, *exp[i].Parent)
		}
	}
	if len(obs) > len(exp) {
		g := obs[len(exp)]
		if g.Parent == nil && len(g.Children) == 0 {
			return "empty-group-delivered", "a group with neither parent nor children was handed to the callback"
		}
		return "extra-group", fmt.Sprintf("%d groups delivered, %d expected", len(obs), len(exp))
	}
	return "wrong-groups", "callback sequence differs from the expected one"
}

func vc15Head(v []int) string {
	if len(v) > 12 {
		return fmt.Sprint(v[:12]) + "…"
	}
	return fmt.Sprint(v)
}

// ---------------------------------------------------------------- Coq terms

func vc15CoqItem(it vc15Item) string {
	idx := uint64(999999999)
	if it.Idx >= 0 {
		idx = uint64(it.Idx)
	}
	return fmt.Sprintf("(%d,%d,%d)", idx, it.Off, it.Slen)
}

func vc15CoqGroups(gs []vc15Group) string {
	items := make([]string, len(gs))
	for i, g := range gs {
		ch := make([]string, len(g.Children))
		for j, c := range g.Children {
			ch[j] = vc15CoqItem(c)
		}
		p := "None"
		if g.Parent != nil {
			p = "Some " + vc15CoqItem(*g.Parent)
		}
		items[i] = "(" + p + ", [" + strings.Join(ch, ";") + "])"
	}
	if len(items) == 0 {
		return "([] : list ogroup)"
	}
	return "([" + strings.Join(items, "; ") + "]%N : list ogroup)"
}

func vc15CoqSecs(car *vc15Car) string {
	items := make([]string, len(car.objs))
	for i, o := range car.objs {
		items[i] = fmt.Sprintf("(%d,%d)", o.slen, o.kind)
	}
	if len(items) == 0 {
		return "([] : list (N*N))"
	}
	return "([" + strings.Join(items, ";") + "]%N : list (N*N))"
}

func vc15KindsString(car *vc15Car) string {
	var sb strings.Builder
	for i, o := range car.objs {
		if i >= 400 {
			fmt.Fprintf(&sb, "…(+%d)", len(car.objs)-i)
			break
		}
		fmt.Fprintf(&sb, "%d:%d ", o.kind, o.slen)
	}
	return strings.TrimSpace(sb.String())
}

// ---------------------------------------------------------------- the test

func TestVerif_C15(t *testing.T) {
	thorough := vh.Thorough()
	rng := vh.NewRng(vh.Seed())
	vc15ProbeStyles()
	dir := filepath.Join(vh.OutDir(), "cars")
	_ = os.MkdirAll(dir, 0o755)
	defer os.RemoveAll(dir)

	rep := vh.NewReport("C15", "accum",
		"generated CARv1 files (incl. CARs of several MiB with payloads of 0.2..5 KiB) x ignore sets x skip counts x callback {instant, slow, random delay, gated until the reader has queued all the queue can take, lockstep = reader fed group by group by the consumer} x consumer {read-only, splitter-style: appends parent and extra elements to children} x GOMAXPROCS {1,4,16}, "+
			"half read from a file, half from memory; every delivered payload is compared late with the bytes stored in the file; a run is non-trivial when it delivers >= 2 groups with >= 1 child overall; distinct by (car, flush kind, ignore set, skip, callback, consumer, GOMAXPROCS)")
	cases := vh.NewCases("cases_c15", []string{"YF.C15_Accum", "YF.C15_Check"}, "case", "check")

	// constants of the implementation, measured
	probe := NewObjectAccumulator(nil, iplddecoders.KindBlock, func(*ObjectWithMetadata, []ObjectWithMetadata) error { return nil })
	queueCap := cap(probe.flushQueue)
	rep.Flag("flush_queue_capacity", queueCap)
	prealloc := 5000
	rep.Flag("children_prealloc_assumed", prealloc)
	styles := []string{}
	for s, ok := range vc15StyleOK {
		if ok {
			styles = append(styles, fmt.Sprint(s))
		}
	}
	rep.Flag("cid_styles_usable", strings.Join(styles, ","))

	B := byte(iplddecoders.KindBlock)
	nRandom, maxObjs := 30, 120
	if thorough {
		nRandom, maxObjs = 480, 260
	}
	var cars []*vc15Car
	flushOf := map[int]byte{}
	for _, sp := range vc15FixedSpecs(rng, thorough, prealloc) {
		c := vc15Build(sp, len(cars), rng, dir)
		flushOf[c.id] = B
		cars = append(cars, c)
	}
	nGroups := queueCap*2 + 300
	if nGroups > 6000 {
		nGroups = 6000
	}
	many := vc15Build(vc15ManyGroups(rng, nGroups), len(cars), rng, dir)
	flushOf[many.id] = B
	cars = append(cars, many)
	// CARs larger than any plausible read buffer, with payloads of realistic size: one with fewer groups than the queue
	// holds (a gated consumer starts after the reader is done), one with more (the reader blocks on the full queue)
	payloadCars := map[int]bool{}
	{
		gFit := queueCap * 7 / 10
		if gFit > 700 {
			gFit = 700
		}
		if gFit < 40 {
			gFit = 40
		}
		gOver := queueCap*2 + 300
		if gOver > 2300 {
			gOver = 2300
		}
		specs := []vc15Spec{
			vc15PayloadSpec(rng, "payload-groups<queue", gFit, 4, 500, 5500),  // about 6 MiB
			vc15PayloadSpec(rng, "payload-groups>queue", gOver, 1, 300, 2400), // about 4.5 MiB
		}
		if thorough {
			specs = append(specs,
				vc15PayloadSpec(rng, "payload-large-groups<queue", gFit+gFit/4, 8, 2000, 14000), // about 35 MiB
				vc15PayloadSpec(rng, "payload-large-groups>queue", gOver+300, 2, 1000, 6000))    // about 18 MiB
		}
		for _, sp := range specs {
			c := vc15Build(sp, len(cars), rng, dir)
			flushOf[c.id] = B
			payloadCars[c.id] = true
			cars = append(cars, c)
			rep.CountN("payload-car-MiB", len(c.bytes)>>20)
		}
	}
	for i := 0; i < nRandom; i++ {
		fk := B
		if rng.Intn(5) == 0 {
			fk = byte(rng.Intn(7)) // another flush kind
		}
		c := vc15Build(vc15RandomSpec(rng, fmt.Sprintf("random-%d", i), maxObjs, fk), len(cars), rng, dir)
		flushOf[c.id] = fk
		cars = append(cars, c)
	}
	for _, c := range cars {
		cases.Preamble(fmt.Sprintf("Definition car%d : list (N*N) := %s.", c.id, vc15CoqSecs(c)))
		rep.Count("car-shape=" + strings.SplitN(c.spec.Name, "-", 2)[0])
		v1, v2, v3 := 0, 0, 0
		for _, o := range c.objs {
			switch pl := o.slen; {
			case pl < 128+1:
				v1++
			case pl < 16384+2:
				v2++
			default:
				v3++
			}
		}
		rep.CountN("sections-varint-1-byte", v1)
		rep.CountN("sections-varint-2-bytes", v2)
		rep.CountN("sections-varint-3-bytes", v3)
		rep.Count(fmt.Sprintf("header-bytes=%d", c.hdrLen))
	}

	// plan: (car, ignore set, skip)
	type combo struct {
		car   *vc15Car
		ign   []byte
		skip  int
		key   string
		noCoq bool // observation not written to the Coq case file (large CARs: one combo each is)
	}
	var combos []combo
	subset := func(mask int) []byte {
		var s []byte
		for k := 0; k < 7; k++ {
			if mask&(1<<uint(k)) != 0 {
				s = append(s, byte(k))
			}
		}
		return s
	}
	add := func(c *vc15Car, ign []byte, skip int) {
		combos = append(combos, combo{car: c, ign: ign, skip: skip, key: fmt.Sprintf("%d|%v|%d", c.id, ign, skip)})
	}
	nextMask := 0
	for _, c := range cars {
		big := len(c.objs) > 2000
		add(c, nil, 0)
		add(c, []byte{byte(iplddecoders.KindEpoch), byte(iplddecoders.KindSubset)}, 0) // as cmd-car-split does
		if payloadCars[c.id] {
			combos[len(combos)-1].noCoq = true
			if c.spec.Name != "payload-groups<queue" && (!thorough || c.spec.Name != "payload-groups>queue") {
				combos[len(combos)-2].noCoq = true // the Coq checker sees one of the large CARs (thorough tier: two)
			}
			add(c, []byte{byte(iplddecoders.KindEntry), byte(iplddecoders.KindRewards)}, 0) // as the address indexer does
			combos[len(combos)-1].noCoq = true
		}
		if big {
			continue
		}
		for j := 0; j < 2; j++ {
			ign := subset(nextMask % 128)
			nextMask++
			if rng.Intn(6) == 0 {
				ign = append(ign, ign...) // duplicates in the ignore list
			}
			if rng.Intn(6) == 0 {
				ign = append(ign, 0x17) // a byte that is no kind of the schema
			}
			skip := 0
			if rng.Intn(3) == 0 {
				skip = rng.Intn(len(c.objs) + 3)
			}
			add(c, ign, skip)
		}
	}
	var allkinds *vc15Car
	for _, c := range cars {
		if c.spec.Name == "allkinds" {
			allkinds = c
		}
	}

	type obsKey struct{ key, obs string }
	written := map[obsKey]bool{}
	record := func(cb combo, fk byte, res *vc15Result) {
		if cb.noCoq {
			return
		}
		obs := vc15CoqGroups(res.groups)
		k := obsKey{cb.key + fmt.Sprintf("|%d", fk), obs}
		if written[k] {
			return
		}
		written[k] = true
		ign := make([]uint64, len(cb.ign))
		for i, x := range cb.ign {
			ign[i] = uint64(x)
		}
		modelCap := res.queueCap // an unbuffered queue behaves like a sub-set of the capacity-1 schedules
		if modelCap < 1 {
			modelCap = 1
		}
		cases.Add(fmt.Sprintf("(%d%%N, car%d, %d%%N, %s, %d%%N, %d%%N, %s)", cb.car.hdrLen, cb.car.id, fk, vh.CoqNs(ign), cb.skip, modelCap, obs))
	}

	runs := 0
	evaluateWith := func(cb combo, fk byte, mode, procs int, fromMem, splitter bool) {
		drng := vh.NewRng(rng.U64())
		opts := vc15Opts{mode: mode, fromMem: fromMem, splitter: splitter}
		res := vc15RunOnce(cb.car, fk, cb.ign, cb.skip, opts, drng)
		runs++
		ignInts := make([]int, len(cb.ign))
		for i, x := range cb.ign {
			ignInts[i] = int(x)
		}
		info := vc15Run{CarName: cb.car.spec.Name, CarID: cb.car.id, Flush: fk, Ignore: ignInts, Skip: cb.skip,
			Mode: vc15ModeNames[mode], Consumer: opts.consumer(), Procs: procs, FromMem: fromMem, Seed: vh.Seed()}
		if len(cb.car.objs) <= 400 {
			info.Kinds = vc15KindsString(cb.car)
		}
		exp := vc15Expected(cb.car, fk, cb.ign, cb.skip)
		nchildren := 0
		for _, g := range exp {
			nchildren += len(g.Children)
		}
		rep.Case(fmt.Sprintf("%s|%d|%s|%v|%d", cb.key, fk, vc15ModeNames[mode], splitter, procs), len(exp) >= 2 && nchildren >= 1)
		rep.Count("callback=" + vc15ModeNames[mode])
		if splitter {
			rep.Count("consumer=splitter-style")
		} else {
			rep.Count("consumer=read-only")
		}
		if payloadCars[cb.car.id] {
			rep.Count("runs-on-multi-MiB-car")
			if mode == vc15Gated {
				rep.Count("runs-on-multi-MiB-car-gated")
			}
		}
		if res.gateTimeouts > 0 {
			rep.Count("gated-wait-gave-up(info)")
		}
		if res.readerStalls > 0 {
			rep.Count("lockstep-reader-stopped-gating(info)")
		}
		if res.lockstepWaits > 0 {
			rep.CountN("lockstep-next-group-not-seen-in-time(info)", res.lockstepWaits)
		}
		rep.Count(fmt.Sprintf("gomaxprocs=%d", procs))
		if cb.skip > 0 {
			rep.Count("with-skip")
		}
		if len(exp) > 0 && exp[len(exp)-1].Parent == nil {
			rep.Count("with-trailing-group")
		}
		if res.maxQueue >= res.queueCap && res.queueCap > 0 {
			rep.Count("queue-full-observed")
		}
		if res.hdrSize != 0 && res.hdrSize != cb.car.hdrLen {
			res.problem("wrong-header-size", fmt.Sprintf("HeaderSize() = %d, the header written has %d bytes", res.hdrSize, cb.car.hdrLen))
		}
		if res.timedOut {
			rep.Fail("no-termination", "Run did not return within 60 s", info)
			return
		}
		if res.panicked != nil {
			rep.Fail("run-panic", fmt.Sprintf("Run panicked: %v", res.panicked), info)
			return
		}
		if res.runErr != nil {
			rep.Fail("run-error", "Run returned an error on a well-formed CAR: "+res.runErr.Error(), info)
			return
		}
		if !vc15GroupsEqual(res.groups, exp) {
			sig, detail := vc15Classify(res.groups, exp)
			if _, dup := res.problems[sig]; !dup {
				res.problem(sig, detail)
			}
		}
		sigs := make([]string, 0, len(res.problems))
		for s := range res.problems {
			sigs = append(sigs, s)
		}
		sort.Strings(sigs)
		for _, s := range sigs {
			rep.Fail(s, res.problems[s], info)
			rep.Count(fmt.Sprintf("failure-at:%s|callback=%s|consumer=%s|multi-MiB-car=%v|gomaxprocs=%d", s, vc15ModeNames[mode], opts.consumer(), payloadCars[cb.car.id], procs))
		}
		if res.retainedBad > 0 {
			rep.Count("retained-values-changed-after-return(info)")
		}
		record(cb, fk, res)
		if len(exp) >= 3 && nchildren >= 3 && len(cb.car.objs) <= 12 {
			rep.Sample(map[string]interface{}{"run": info, "header_bytes": cb.car.hdrLen, "delivered": res.groups})
		}
	}
	evaluate := func(cb combo, fk byte, mode, procs int, fromMem bool) {
		evaluateWith(cb, fk, mode, procs, fromMem, false)
	}

	prev := runtime.GOMAXPROCS(0)
	defer runtime.GOMAXPROCS(prev)
	for pi, procs := range []int{1, 4, 16} {
		runtime.GOMAXPROCS(procs)
		payloadSlot := 0
		for ci, cb := range combos {
			fk := flushOf[cb.car.id]
			big := len(cb.car.objs) > 2000
			if payloadCars[cb.car.id] {
				// CARs of several MiB. Consumers that start late: every payload is compared with the file only after the
				// reader is done (or blocked on the full queue), i.e. after it went through all its read buffers.
				evaluate(cb, fk, vc15Gated, procs, (ci+pi)%2 == 1)
				// and the other callbacks / the consumer that appends: all of them in the thorough tier (two for the CARs of
				// tens of MiB, the race detector makes those runs slow), in the quick tier one per (combo, GOMAXPROCS),
				// rotated so that every car sees every one of them
				type alt struct {
					mode     int
					splitter bool
				}
				alts := []alt{{vc15Instant, false}, {vc15Random, false}, {vc15Slow, false}, {vc15Gated, true}, {vc15Lockstep, true}, {vc15Random, true}}
				largest := len(cb.car.bytes) > 12<<20 // thorough tier only: two of the alternatives per (combo, GOMAXPROCS)
				for ai, a := range alts {
					pick := (payloadSlot + 2*pi) % len(alts)
					if (thorough && !largest) || ai == pick || (thorough && ai == (pick+3)%len(alts)) {
						evaluateWith(cb, fk, a.mode, procs, a.mode == vc15Lockstep || (ci+ai)%2 == 0, a.splitter)
					}
				}
				payloadSlot++
				continue
			}
			for _, mode := range []int{vc15Instant, vc15Slow, vc15Random} {
				if big && mode == vc15Slow && !thorough && procs != 4 {
					continue
				}
				evaluate(cb, fk, mode, procs, (ci+mode+procs)%2 == 0)
			}
			if cb.car == many && cb.ign == nil {
				evaluate(cb, fk, vc15Gated, procs, false)
			}
			// a consumer that appends to the children slice, as the CAR splitter does: reader ahead (gated), reader
			// behind (lockstep), and free running. Quick tier: cars with thousands of objects get one of the three per
			// (combo, GOMAXPROCS), the small ones the two forced schedules always and a free-running one every other time.
			// Thorough tier (16 x more cars, race detector): the large cars all three, the small ones one of the three.
			third := []int{vc15Random, vc15Instant, vc15Slow}[(ci+2*pi+1)%3]
			for si, mode := range []int{vc15Gated, vc15Lockstep, third} {
				switch {
				case thorough && big:
				case thorough && si != (ci+pi)%3:
					continue
				case thorough:
				case big && si != (ci+pi)%3:
					continue
				case !big && si == 2 && (ci+pi)%2 == 1:
					continue
				}
				evaluateWith(cb, fk, mode, procs, mode == vc15Lockstep || (ci+pi+si)%2 == 0, true)
			}
		}
		// every ignore set over the seven kinds, on the car that holds every kind
		if allkinds != nil && (procs == 4 || thorough) {
			for mask := 0; mask < 128; mask++ {
				cb := combo{car: allkinds, ign: subset(mask), key: fmt.Sprintf("%d|%v|%d", allkinds.id, subset(mask), 0)}
				evaluate(cb, B, []int{vc15Instant, vc15Random}[mask%2], procs, mask%3 == 0)
				rep.Count("ignore-set-sweep")
			}
			// and every flush kind
			for fk := 0; fk < 7; fk++ {
				cb := combo{car: allkinds, ign: []byte{byte((fk + 1) % 7), byte(fk)}, skip: fk % 3, key: fmt.Sprintf("%d|%v|%d", allkinds.id, []byte{byte((fk + 1) % 7), byte(fk)}, fk%3)}
				evaluate(cb, byte(fk), vc15Random, procs, false)
				rep.Count("flush-kind-sweep")
			}
		}
	}
	runtime.GOMAXPROCS(prev)
	rep.Flag("runs", runs)

	vc15Asides(rep, cars[3])

	// data races reported by the race detector (thorough tier: GORACE log_path points into the scratch directory)
	if matches, _ := filepath.Glob(filepath.Join(vh.OutDir(), "race_report*")); len(matches) > 0 {
		b, _ := os.ReadFile(matches[0])
		if len(b) > 3000 {
			b = b[:3000]
		}
		rep.Fail("data-race", "the race detector reported a data race:\n"+string(b), map[string]interface{}{"seed": vh.Seed(), "tier": vh.Tier()})
	}

	if err := cases.Write(); err != nil {
		t.Fatal(err)
	}
	rep.CasesWritten(cases)
	if err := rep.Write(); err != nil {
		t.Fatal(err)
	}
}

// Observations outside the property's quantifier, recorded in the evidence only (never a failure).
func vc15Asides(rep *vh.Report, car *vc15Car) {
	// (1) a callback that returns ErrStop: the flusher returns without flushWg.Done(); does Run still return?
	{
		rd, err := carreader.New(io.NopCloser(bytes.NewReader(car.bytes)))
		if err == nil {
			oa := NewObjectAccumulator(rd, iplddecoders.KindBlock, func(*ObjectWithMetadata, []ObjectWithMetadata) error { return ErrStop })
			done := make(chan struct{})
			go func() {
				defer func() { _ = recover(); close(done) }()
				_ = oa.Run(context.Background())
			}()
			select {
			case <-done:
				rep.Flag("aside_errstop_run_returns", true)
			case <-time.After(1500 * time.Millisecond):
				rep.Flag("aside_errstop_run_returns", false)
				rep.Note("aside (outside C15's quantifier): a callback returning accum.ErrStop makes the flusher return without flushWg.Done(); Run then never returns (still blocked in flushWg.Wait() after 1.5 s)")
			}
		}
	}
	// (2) a payload shorter than 2 bytes: kind := data[1]
	{
		var buf bytes.Buffer
		c := vc15SumCid([]byte("x"))
		_ = carv1.WriteHeader(&carv1.CarHeader{Roots: []cid.Cid{c}, Version: 1}, &buf)
		_ = util.LdWrite(&buf, c.Bytes(), []byte{0x80})
		rd, err := carreader.New(io.NopCloser(bytes.NewReader(buf.Bytes())))
		if err == nil {
			oa := NewObjectAccumulator(rd, iplddecoders.KindBlock, func(*ObjectWithMetadata, []ObjectWithMetadata) error { return nil })
			done := make(chan string, 1)
			go func() {
				defer func() {
					if p := recover(); p != nil {
						done <- fmt.Sprint(p)
					}
				}()
				err := oa.Run(context.Background())
				done <- fmt.Sprintf("returned %v", err)
			}()
			select {
			case s := <-done:
				rep.Flag("aside_one_byte_payload", s)
				if strings.Contains(s, "index out of range") {
					rep.Note("aside (outside C15's quantifier): an object whose payload has fewer than 2 bytes makes Run panic at `data[1]` (%s)", s)
				}
			case <-time.After(1500 * time.Millisecond):
				rep.Flag("aside_one_byte_payload", "no return within 1.5 s")
			}
		}
	}
}
