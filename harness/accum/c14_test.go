package accum

// Verification harness for C14, indexer path (injected with `go test -overlay`; not part of the repository).
// A transaction whose metadata is split into frames is handed to ObjectsToTransactionsAndMetadata as the
// CAR objects the accumulator would deliver (frames first, real sha256 CIDs, dag-cbor encodings made by
// the repository's own MarshalCBOR).  The metadata is a zstd-compressed protobuf TransactionStatusMeta
// carrying a random log line, so that the reassembled bytes are observable through the parsed result.

import (
	"bytes"
	"encoding/hex"
	"fmt"
	"os"
	"os/exec"
	"runtime/debug"
	"strings"
	"testing"
	"time"

	"github.com/gagliardetto/solana-go"
	"github.com/ipfs/go-cid"
	"github.com/rpcpool/yellowstone-faithful/ipld/ipldbindcode"
	"github.com/rpcpool/yellowstone-faithful/third_party/solana_proto/confirmed_block"
	"github.com/rpcpool/yellowstone-faithful/tooling"
	"github.com/rpcpool/yellowstone-faithful/zzverif/c14gen"
	"github.com/rpcpool/yellowstone-faithful/zzverif/vh"
	"google.golang.org/protobuf/proto"
)

func vc14TxBytes(n uint64) []byte {
	var sig solana.Signature
	for i := range sig {
		sig[i] = byte(n + uint64(i)*7)
	}
	var k1, k2 solana.PublicKey
	k1[0], k2[0] = 1, 2
	k1[9] = byte(n)
	tx := solana.Transaction{
		Signatures: []solana.Signature{sig},
		Message: solana.Message{
			AccountKeys:     []solana.PublicKey{k1, k2, solana.SystemProgramID},
			Header:          solana.MessageHeader{NumRequiredSignatures: 1, NumReadonlyUnsignedAccounts: 1},
			RecentBlockhash: solana.Hash(k2),
			Instructions:    []solana.CompiledInstruction{{ProgramIDIndex: 2, Accounts: []uint16{0, 1}, Data: []byte{1, 2, 3}}},
		},
	}
	b, err := tx.MarshalBinary()
	if err != nil {
		panic("VERIF-HARNESS-BUG: " + err.Error())
	}
	return b
}

// vc14Meta returns (log line, compressed metadata payload)
func vc14Meta(rng *vh.Rng, logBytes int) (string, []byte) {
	line := hex.EncodeToString(rng.Bytes(logBytes))
	meta := &confirmed_block.TransactionStatusMeta{Fee: 5000, LogMessages: []string{line}}
	mb, err := proto.Marshal(meta)
	if err != nil {
		panic("VERIF-HARNESS-BUG: " + err.Error())
	}
	mz, err := tooling.CompressZstd(mb)
	if err != nil {
		panic("VERIF-HARNESS-BUG: " + err.Error())
	}
	return line, mz
}

func vc14Single(data []byte) ipldbindcode.DataFrame {
	f := ipldbindcode.DataFrame{Kind: 6, Hash: c14gen.PInt(int(c14gen.Crc(data))), Index: c14gen.PInt(0), Total: c14gen.PInt(1), Data: data}
	c14gen.SetLinks(&f, nil)
	return f
}

// vc14Objects: the frames of the scenario's store (any order) followed by the transaction object.
func vc14Objects(rng *vh.Rng, s *c14gen.Scenario, txBytes []byte, slot int) []ObjectWithMetadata {
	var objs []ObjectWithMetadata
	keys := make([]cid.Cid, 0, len(s.Store))
	for c := range s.Store {
		keys = append(keys, c)
	}
	c14gen.SortCids(keys)
	perm := rng.Perm(len(keys))
	for _, pi := range perm {
		c := keys[pi]
		b, err := s.Store[c].MarshalCBOR()
		if err != nil {
			panic("VERIF-HARNESS-BUG: " + err.Error())
		}
		objs = append(objs, ObjectWithMetadata{Cid: c, ObjectData: b, SectionLength: uint64(len(b))})
	}
	tn := ipldbindcode.Transaction{Kind: 0, Data: vc14Single(txBytes), Metadata: *s.First, Slot: slot, Index: c14gen.PInt(0)}
	tb, err := tn.MarshalCBOR()
	if err != nil {
		panic("VERIF-HARNESS-BUG: " + err.Error())
	}
	objs = append(objs, ObjectWithMetadata{Cid: c14gen.CidOfBytes(tb), ObjectData: tb, SectionLength: uint64(len(tb))})
	return objs
}

type vc14Obs struct {
	err      error
	panicked string
	logs     [][]string // per transaction; nil entry = metadata not parsed
	metaErr  []string
}

func vc14Run(objs []ObjectWithMetadata) (o vc14Obs) {
	defer func() {
		if r := recover(); r != nil {
			o.panicked = fmt.Sprint(r)
		}
	}()
	block := &ipldbindcode.Block{Kind: 2, Slot: 7, Meta: ipldbindcode.SlotMeta{Blocktime: 1700000000}}
	txs, err := ObjectsToTransactionsAndMetadata(block, objs)
	o.err = err
	if err != nil {
		return
	}
	for _, tw := range txs {
		if tw.Metadata != nil && tw.Metadata.IsProtobuf() {
			o.logs = append(o.logs, tw.Metadata.GetProtobuf().LogMessages)
			o.metaErr = append(o.metaErr, "")
		} else {
			o.logs = append(o.logs, nil)
			o.metaErr = append(o.metaErr, fmt.Sprint(tw.Error))
		}
	}
	return
}

func vc14Child() {
	debug.SetMaxStack(64 << 20)
	rng := vh.NewRng(11)
	_, mz := vc14Meta(rng, 200)
	p := &c14gen.Payload{ID: 1, Data: mz, Chunks: c14gen.SplitEven(mz, 10), Fanout: 5, RealCids: true}
	p.Build(rng)
	s := c14gen.NewScenario(p)
	s.Store[p.Cids[5]] = p.Frames[0] // the CAR section carrying CID 5 holds a copy of frame 0
	o := vc14Run(vc14Objects(rng, s, vc14TxBytes(1), 7))
	switch {
	case o.panicked != "":
		fmt.Println("C14CHILD-RESULT panic " + o.panicked)
	case o.err != nil:
		fmt.Println("C14CHILD-RESULT error")
	default:
		fmt.Println("C14CHILD-RESULT ok")
	}
}

func vc14ProbeCycle(t *testing.T, rep *vh.Report) bool {
	cmd := exec.Command(os.Args[0], "-test.run", "^TestVerif_C14$", "-test.count=1")
	cmd.Env = append(os.Environ(), "VERIF_C14_CHILD=accum")
	var out bytes.Buffer
	cmd.Stdout, cmd.Stderr = &out, &out
	if err := cmd.Start(); err != nil {
		t.Fatalf("VERIF-HARNESS-BUG: cannot start child: %v", err)
	}
	done := make(chan error, 1)
	go func() { done <- cmd.Wait() }()
	timedOut := false
	select {
	case <-done:
	case <-time.After(90 * time.Second):
		timedOut = true
		_ = cmd.Process.Kill()
		<-done
	}
	o := out.String()
	head := o
	if len(head) > 1200 {
		head = head[:1200]
	}
	replay := map[string]interface{}{"shape": "accum/root-dup", "how": "10 metadata frames, fan-out 5; the object listed under the CID of frame 5 is a copy of frame 0; ObjectsToTransactionsAndMetadata"}
	rep.Case("cycle:accum", true)
	rep.Count("fault=cyclic-link")
	switch {
	case strings.Contains(o, "C14CHILD-RESULT error"):
		return true
	case timedOut:
		rep.Fail("cyclic-link-no-return", "ObjectsToTransactionsAndMetadata did not return within 90 s on cyclic `next` links", replay)
	case strings.Contains(o, "stack overflow") || strings.Contains(o, "goroutine stack exceeds"):
		rep.Fail("cyclic-link-stack-overflow", "ObjectsToTransactionsAndMetadata -> LoadDataFromDataFrames recursed without bound on cyclic `next` links; the Go runtime ended the process:\n"+head, replay)
	case strings.Contains(o, "C14CHILD-RESULT ok"):
		rep.Fail("cyclic-link-accepted", "metadata accepted for cyclic links: "+head, replay)
	case strings.Contains(o, "C14CHILD-RESULT panic"):
		rep.Fail("cyclic-link-panic", head, replay)
	default:
		t.Fatalf("VERIF-HARNESS-BUG: child gave no result:\n%s", head)
	}
	return false
}

func TestVerif_C14(t *testing.T) {
	if os.Getenv("VERIF_C14_CHILD") != "" {
		vc14Child()
		return
	}
	rng := vh.NewRng(vh.Seed() + 1000)
	thorough := vh.Thorough()
	rep := vh.NewReport("C14", "accum",
		"transactions with metadata split into {2,3,10,60} frames x fan-outs {1,2,5,10} x {CRC64,FNV} handed to ObjectsToTransactionsAndMetadata as CAR objects (real CIDs, frames in any order), "+
			"every single-frame fault kind on every frame; two-transaction blocks; non-trivial = >= 2 frames; distinct by (config, fault, frame)")
	cases := vh.NewCases("cases_c14_accum", []string{"YF.C14_Hash", "YF.C14_Frames", "YF.C14_Term", "YF.C14_Layout", "YF.C14_Check"}, "case", "check")

	cycleSafe := vc14ProbeCycle(t, rep)
	rep.Flag("cyclic_links_return_error", cycleSafe)

	// single-frame metadata and transaction data split into frames (what this entry point does with them)
	{
		line, mz := vc14Meta(rng, 50)
		p := &c14gen.Payload{ID: 2, Data: mz, Chunks: [][]byte{mz}, Fanout: 5, RealCids: true}
		p.Build(rng)
		o := vc14Run(vc14Objects(rng, c14gen.NewScenario(p), vc14TxBytes(2), 7))
		rep.Case("single-frame", false)
		if o.err != nil || o.panicked != "" || len(o.logs) != 1 || len(o.logs[0]) != 1 || o.logs[0][0] != line {
			rep.Fail("accum-roundtrip-error", fmt.Sprintf("single-frame metadata not returned: err=%v panic=%q", o.err, o.panicked), nil)
		}
		// transaction bytes split into 3 frames
		txb := vc14TxBytes(3)
		pt := &c14gen.Payload{ID: 3, Data: txb, Chunks: c14gen.SplitEven(txb, 3), Fanout: 5, RealCids: true}
		pt.Build(rng)
		var objs []ObjectWithMetadata
		for i := 1; i < pt.N(); i++ {
			b, _ := pt.Frames[i].MarshalCBOR()
			objs = append(objs, ObjectWithMetadata{Cid: pt.Cids[i], ObjectData: b})
		}
		tn := ipldbindcode.Transaction{Kind: 0, Data: *pt.Frames[0], Metadata: vc14Single(mz), Slot: 7, Index: c14gen.PInt(0)}
		tb, _ := tn.MarshalCBOR()
		objs = append(objs, ObjectWithMetadata{Cid: c14gen.CidOfBytes(tb), ObjectData: tb})
		o2 := vc14Run(objs)
		rep.Case("split-transaction-data", true)
		if o2.err != nil {
			rep.Fail("accum-split-transaction-data-unsupported",
				"a transaction whose `data` is split into 3 intact frames is rejected by ObjectsToTransactionsAndMetadata: "+o2.err.Error(),
				map[string]interface{}{"frames": 3, "tx_len": len(txb)})
		} else {
			rep.Count("split-transaction-data-accepted")
		}
	}

	logSizes := []int{1, 40, 400}
	if thorough {
		logSizes = []int{1, 40, 400, 5000, 100000}
	}
	frameCounts := []int{2, 3, 10, 60}
	fanouts := []int{1, 2, 5, 10}
	coqBudget := 90
	if thorough {
		coqBudget = 600
	}
	pid := 100
	for _, ls := range logSizes {
		for _, nf := range frameCounts {
			for _, fo := range fanouts {
				pid += 2
				useFnv := rng.Bool()
				line, mz := vc14Meta(rng, ls)
				_, mz2 := vc14Meta(rng, ls)
				random := rng.Bool()
				split := func(x []byte) [][]byte {
					if random {
						return c14gen.SplitRandom(rng, x, nf)
					}
					return c14gen.SplitEven(x, nf)
				}
				p := &c14gen.Payload{ID: pid, Data: mz, Chunks: split(mz), Fanout: fo, UseFnv: useFnv, RealCids: true}
				p.Build(rng)
				other := &c14gen.Payload{ID: pid + 1, Data: mz2, Chunks: split(mz2), Fanout: fo, UseFnv: useFnv, RealCids: true}
				other.Build(rng)
				cfgKey := fmt.Sprintf("log=%d,payload=%d,frames=%d,fanout=%d,fnv=%v,randomsplit=%v", ls, len(mz), nf, fo, useFnv, random)
				rep.Count(fmt.Sprintf("frames=%d", nf))
				rep.Count(fmt.Sprintf("fanout=%d", fo))
				rep.Count(fmt.Sprintf("log-bytes=%d", ls))
				txb := vc14TxBytes(uint64(pid))

				one := func(s *c14gen.Scenario, mixed bool) {
					o := vc14Run(vc14Objects(rng, s, txb, 7))
					rep.Case(fmt.Sprintf("%s/%s/%d/%d", cfgKey, s.Kind, s.J, s.I), true)
					rep.Count("fault=" + s.Kind)
					replay := map[string]interface{}{"seed": vh.Seed(), "config": cfgKey, "fault": s.Kind, "frame": s.J, "other_frame": s.I}
					if o.panicked != "" {
						rep.Fail("panic", "ObjectsToTransactionsAndMetadata panicked: "+o.panicked, replay)
						return
					}
					same := o.err == nil && len(o.logs) == 1 && len(o.logs[0]) == 1 && o.logs[0][0] == line
					switch {
					case o.err != nil:
						rep.Count("result=error")
					case same:
						rep.Count("result=ok")
					default:
						rep.Count("result=other-bytes")
					}
					if s.Kind == "none" {
						if o.err != nil {
							rep.Fail("accum-roundtrip-error", "intact frames rejected: "+o.err.Error(), replay)
						} else if !same {
							rep.Fail("accum-roundtrip-wrong-bytes", fmt.Sprintf("intact frames: metadata differs (%v)", o.metaErr), replay)
						}
					} else if o.err == nil && !same {
						rep.Fail("fault-accepted-different-bytes:"+s.Kind, fmt.Sprintf("fault %s on frame %d: no error, yet the metadata differs from what was written (%v)", s.Kind, s.J, o.metaErr), replay)
					}
					if coqBudget > 0 && nf <= 10 && len(mz) <= 600 && (s.Kind == "none" || rng.Intn(25) == 0) {
						coqBudget--
						var others []*c14gen.Payload
						if mixed {
							others = append(others, other)
						}
						nm := c14gen.NewNumbering(p, others...)
						var data []byte
						if same {
							data = p.Data
						}
						var e error
						if !same {
							e = fmt.Errorf("rejected")
						}
						cases.Add(c14gen.CoqLoadCase(s, nm, rng, data, e))
						rep.Count("coq-load-cases")
					}
				}
				base := c14gen.NewScenario(p)
				mixed := c14gen.NewScenario(p, other)
				one(base, false)
				one(c14gen.PermuteLinks(rng, base), false)
				one(mixed, true)
				for j := 0; j < nf; j++ {
					for _, k := range c14gen.FaultKinds {
						needsOther := k == "swap" || k == "mix-links"
						b := base
						if needsOther {
							b = mixed
						}
						s := c14gen.ApplyFault(rng, b, other, k, j)
						if s == nil {
							continue
						}
						if s.Cyclic && !cycleSafe {
							rep.Count("skipped-cyclic-on-this-tree")
							continue
						}
						one(s, needsOther)
					}
				}

				// two transactions in one block, each with its own frames in front of it
				if fo == 5 {
					o1 := vc14Objects(rng, base, txb, 7)
					l2, m2 := vc14Meta(rng, ls)
					q := &c14gen.Payload{ID: pid + 7000, Data: m2, Chunks: c14gen.SplitEven(m2, nf), Fanout: fo, RealCids: true}
					q.Build(rng)
					o2 := vc14Objects(rng, c14gen.NewScenario(q), vc14TxBytes(uint64(pid+7000)), 7)
					ob := vc14Run(append(append([]ObjectWithMetadata{}, o1...), o2...))
					rep.Case(cfgKey+"/two-tx", true)
					rep.Count("two-transaction-blocks")
					if ob.err != nil || ob.panicked != "" || len(ob.logs) != 2 || len(ob.logs[0]) != 1 || len(ob.logs[1]) != 1 || ob.logs[0][0] != line || ob.logs[1][0] != l2 {
						rep.Fail("accum-two-tx-roundtrip", fmt.Sprintf("two transactions with split metadata: err=%v panic=%q metaErr=%v", ob.err, ob.panicked, ob.metaErr), map[string]interface{}{"config": cfgKey})
					}
				}
			}
		}
	}
	rep.Sample(map[string]interface{}{"entry": "accum.ObjectsToTransactionsAndMetadata", "observable": "LogMessages[0] of the parsed protobuf metadata"})
	if err := cases.Write(); err != nil {
		t.Fatal(err)
	}
	rep.CasesWritten(cases)
	if err := rep.Write(); err != nil {
		t.Fatal(err)
	}
}
