package accum

// Verification harness for C15, second file (injected with `go test -overlay`; not part of the repository).
//
// The property is about what the two consumers named in its statement observe: the address indexer and the CAR
// splitter (a) decode the PAYLOAD of every delivered object and (b) the splitter builds the DAG of a block with
// `family := append(children, *parent)`. This file holds what the harness needs to run callbacks that behave like them:
//
//   * CARs of several MiB (objects of a few hundred bytes to a few KiB) — larger than any plausible read buffer, so
//     that a payload that is only a view into such a buffer is overwritten while the object still waits for its
//     consumer; the payload of every delivered object is compared with the bytes STORED IN THE FILE at its position,
//     late (after the callback has been held / delayed);
//   * a splitter-style consumer (vc15Opts.splitter): appends the parent and a few extra elements to the `children`
//     slice it was given, keeps the resulting slice over the callback's delay and re-checks it, and — through the
//     deliveries that follow — checks that no later group contains anything the consumer appended;
//   * two forced relative speeds that need no timing assumption for their verdict (timing only decides how much is
//     exercised): "gated" = the first callback is held until the reading goroutine has queued everything the queue can
//     take (reader ahead), "lockstep" = the reading goroutine is fed the file group by group by the consumer, after the
//     consumer has appended to its slice (reader behind).

import (
	"fmt"
	"io"
	"sync/atomic"
	"time"

	"github.com/rpcpool/yellowstone-faithful/iplddecoders"
	"github.com/rpcpool/yellowstone-faithful/zzverif/vh"
)

type vc15Opts struct {
	mode     int
	fromMem  bool
	splitter bool // the consumer appends to `children` like cmd-car-split.go
}

func (o vc15Opts) consumer() string {
	if o.splitter {
		return "splitter-style (appends to children)"
	}
	return "read-only"
}

// ---------------------------------------------------------------- CARs with real-sized payloads

// groups of 0..maxChildren objects of minLen..maxLen payload bytes, each closed by a block of the same size range;
// trailing Subset / Epoch objects and one transaction after the last block.
func vc15PayloadSpec(rng *vh.Rng, name string, groups, maxChildren, minLen, maxLen int) vc15Spec {
	B := byte(iplddecoders.KindBlock)
	sp := vc15Spec{Name: name, Roots: 1}
	kinds := []byte{0, 0, 0, 1, 1, 5, 6, 6, 3, 4}
	for g := 0; g < groups; g++ {
		for j := rng.Intn(maxChildren + 1); j > 0; j-- {
			sp.Objs = append(sp.Objs, vc15ObjSpec{Kind: kinds[rng.Intn(len(kinds))], DataLen: rng.Range(minLen, maxLen)})
		}
		sp.Objs = append(sp.Objs, vc15ObjSpec{Kind: B, DataLen: rng.Range(minLen, maxLen)})
	}
	sp.Objs = append(sp.Objs,
		vc15ObjSpec{Kind: 0, DataLen: rng.Range(minLen, maxLen)},
		vc15ObjSpec{Kind: 3, DataLen: rng.Range(minLen, maxLen)},
		vc15ObjSpec{Kind: 4, DataLen: rng.Range(40, 200)})
	return sp
}

// the payload bytes of object #idx as they are stored in the file
func vc15StoredPayload(car *vc15Car, idx int) []byte {
	o := car.objs[idx]
	end := o.off + o.slen
	return car.bytes[end-uint64(len(o.data)) : end]
}

func vc15FirstDiff(a, b []byte) int {
	n := len(a)
	if len(b) < n {
		n = len(b)
	}
	for i := 0; i < n; i++ {
		if a[i] != b[i] {
			return i
		}
	}
	return n
}

// ---------------------------------------------------------------- what a splitter-style consumer appends

// an element that is no object of any generated file (its cid is the hash of a text no generator writes)
func vc15Sentinel(group, e int) ObjectWithMetadata {
	data := []byte(fmt.Sprintf("\x81\x7fverif-extra-element group=%d n=%d", group, e))
	return ObjectWithMetadata{Cid: vc15SumCid(data), Offset: 1<<62 + uint64(group)<<8 + uint64(e), SectionLength: 0, ObjectData: data}
}

type vc15AppKey struct {
	cid string
	off uint64
}

type vc15Appended struct {
	group int
	what  string
}

func vc15KeyOf(o *ObjectWithMetadata) vc15AppKey {
	return vc15AppKey{cid: string(o.Cid.Bytes()), off: o.Offset}
}

func vc15Describe(f vc15Fingerprint) string {
	return fmt.Sprintf("(cid …%x, offset %d, section length %d, %d payload bytes, payload byte 1 = 0x%02x)", []byte(f.cid)[max(0, len(f.cid)-6):], f.off, f.slen, f.dlen, f.d0)
}

// ---------------------------------------------------------------- a reader the consumer feeds group by group

// vc15GateReader serves the bytes of a CAR only up to a limit that the consumer raises: the reading goroutine cannot
// get ahead of the consumer by more than one group. A conforming io.Reader (short reads, then io.EOF). If nobody
// raises the limit for 100 ms it stops gating for good, so that no implementation can be blocked by it.
type vc15GateReader struct {
	data   []byte
	pos    int
	ends   []uint64 // end offsets of the sections of the flush kind
	next   atomic.Int64
	limit  atomic.Int64
	free   atomic.Bool
	stalls atomic.Int32
	wake   chan struct{}
}

func vc15NewGateReader(data []byte, ends []uint64) *vc15GateReader {
	g := &vc15GateReader{data: data, ends: ends, wake: make(chan struct{}, 1)}
	g.limit.Store(int64(len(data)))
	if len(ends) > 0 {
		g.limit.Store(int64(ends[0]))
		g.next.Store(1)
	}
	return g
}

// releaseNext lets the reader go on up to the end of the next section of the flush kind (or to the end of the file).
func (g *vc15GateReader) releaseNext() {
	n := int(g.next.Add(1) - 1)
	if n < len(g.ends) {
		g.limit.Store(int64(g.ends[n]))
	} else {
		g.limit.Store(int64(len(g.data)))
	}
	select {
	case g.wake <- struct{}{}:
	default:
	}
}

func (g *vc15GateReader) Read(p []byte) (int, error) {
	if len(p) == 0 {
		return 0, nil
	}
	if g.pos >= len(g.data) {
		return 0, io.EOF
	}
	if !g.free.Load() && int64(g.pos) >= g.limit.Load() {
		deadline := time.NewTimer(100 * time.Millisecond)
	wait:
		for int64(g.pos) >= g.limit.Load() {
			select {
			case <-g.wake:
			case <-deadline.C:
				g.free.Store(true)
				g.stalls.Add(1)
				break wait
			}
		}
		deadline.Stop()
	}
	end := len(g.data)
	if !g.free.Load() {
		if l := int(g.limit.Load()); l < end && l > g.pos {
			end = l
		}
	}
	n := copy(p, g.data[g.pos:end])
	g.pos += n
	return n, nil
}

func (g *vc15GateReader) Close() error { return nil }
