package splitcarfetcher

// Verification harness for C17, second observation point: HTTPSingleFileRemoteReaderAt.ReadAt, i.e. the range
// cache together with the HTTP fetch function it is given in remote-file.go (injected with `go test -overlay`;
// not part of the repository).
//
// The Coq theorems take as a premise that a remote fetch which reports success filled the buffer with the
// remote's bytes.  This harness checks that premise and the property itself on the real reader against a
// loopback HTTP server whose behaviour is chosen per request: healthy (206 + Content-Range), error statuses with
// a long body, a server that ignores Range (200 + whole file) or answers for another offset, a truncated body, a 206 with an
// empty body (the client's read ends with a plain io.EOF), a dropped connection.
// Oracle only (no Coq case file): every ReadAt returns exactly the file's bytes or an error; after a failed
// fetch a healthy re-read tells the truth; reads reaching past the end are refused.
//
// The behaviours also COMPOSE over the consecutive requests of one ReadAt (a client may retry or resume): a
// server behaviour written "a>b>c" answers the first request of the read with a, the second with b, every
// further one with c; the atoms are 206 (range honoured), 206/k and 200/k (body breaks off after k bytes), 200
// (whole file, Range ignored), error statuses, 206-other-range and drop.  All short sequences are enumerated
// over read offsets {0, 1, middle, end-len} and several lengths, each followed by healthy re-reads of the same
// range and of an overlapping one through the cache (nothing wrong may have been cached).

import (
	"context"
	"fmt"
	"net/http"
	"net/http/httptest"
	"os"
	"strconv"
	"strings"
	"sync"
	"testing"
	"time"

	"github.com/rpcpool/yellowstone-faithful/zzverif/vh"
)

type vc17hOp struct {
	Off  int64  `json:"off"`
	Len  int    `json:"len"`
	Mode string `json:"server"` // what the server does with the request(s) of this read
}

func (o vc17hOp) String() string {
	return fmt.Sprintf("ReadAt(off=%d,len=%d)@%s", o.Off, o.Len, o.Mode)
}

type vc17hServer struct {
	mu       sync.Mutex
	data     []byte
	mode     string
	requests int
	release  func()   // closes every connection the server holds (httptest.Server.CloseClientConnections)
	script   []string // behaviours for the consecutive requests since the last set(); the last one repeats
	served   []string // the behaviours actually applied to the requests since the last set()
}

// set installs the behaviour for the requests that follow: one atom, or a sequence "a>b>c".
func (s *vc17hServer) set(mode string) {
	s.mu.Lock()
	s.mode = mode
	s.script = strings.Split(mode, ">")
	s.served = nil
	s.mu.Unlock()
}
func (s *vc17hServer) count() int { s.mu.Lock(); defer s.mu.Unlock(); return s.requests }

// misbehaved reports whether any request since the last set() got an answer other than an honoured range.
func (s *vc17hServer) misbehaved() bool {
	s.mu.Lock()
	defer s.mu.Unlock()
	for _, b := range s.served {
		if b != "ok" && b != "206" {
			return true
		}
	}
	return false
}

// vc17hCut splits "206/3" into ("206", 3); cut < 0 when the atom has no break-off point.
func vc17hCut(atom string) (string, int) {
	if i := strings.IndexByte(atom, '/'); i >= 0 {
		if k, err := strconv.Atoi(atom[i+1:]); err == nil && k >= 0 {
			return atom[:i], k
		}
	}
	return atom, -1
}

// vc17hBreakOff sends the first k bytes of an announced longer body and returns; the server then closes the
// connection, the client sees the body end early.
func vc17hBreakOff(w http.ResponseWriter, body []byte, k int) {
	if k > 0 {
		w.Write(body[:k])
	}
	if f, ok := w.(http.Flusher); ok {
		f.Flush()
	}
}

// parse "bytes=a-b" (inclusive), clamp to the file
func vc17hRange(h string, size int64) (int64, int64, bool) {
	if !strings.HasPrefix(h, "bytes=") {
		return 0, 0, false
	}
	parts := strings.SplitN(strings.TrimPrefix(h, "bytes="), "-", 2)
	if len(parts) != 2 {
		return 0, 0, false
	}
	a, err1 := strconv.ParseInt(parts[0], 10, 64)
	b, err2 := strconv.ParseInt(parts[1], 10, 64)
	if err1 != nil || err2 != nil || a < 0 || a >= size || b < a {
		return 0, 0, false
	}
	if b >= size {
		b = size - 1
	}
	return a, b, true
}

func (s *vc17hServer) ServeHTTP(w http.ResponseWriter, r *http.Request) {
	s.mu.Lock()
	mode := s.mode
	if r.Method != http.MethodHead {
		s.requests++
		if len(s.script) > 0 {
			i := len(s.served)
			if i >= len(s.script) {
				i = len(s.script) - 1
			}
			mode = s.script[i]
			s.served = append(s.served, mode)
		}
	}
	data := s.data
	s.mu.Unlock()
	mode, cut := vc17hCut(mode)
	switch mode {
	case "206":
		mode = "ok"
	case "200":
		mode = "200-range-ignored"
	}
	size := int64(len(data))
	if r.Method == http.MethodHead {
		w.Header().Set("Content-Length", strconv.FormatInt(size, 10))
		w.WriteHeader(200)
		return
	}
	long := strings.Repeat("<html>the origin is having a bad day</html>\n", 8)
	switch mode {
	case "500", "503", "404", "403":
		code, _ := strconv.Atoi(mode)
		w.WriteHeader(code)
		fmt.Fprint(w, long)
		return
	case "200-range-ignored":
		w.Header().Set("Content-Length", strconv.FormatInt(size, 10))
		w.WriteHeader(200)
		if cut >= 0 && int64(cut) < size {
			vc17hBreakOff(w, data, cut)
			return
		}
		w.Write(data)
		return
	case "drop":
		if hj, ok := w.(http.Hijacker); ok {
			if c, _, err := hj.Hijack(); err == nil {
				c.Close()
				return
			}
		}
		w.WriteHeader(500)
		return
	}
	a, b, ok := vc17hRange(r.Header.Get("Range"), size)
	if !ok {
		w.Header().Set("Content-Range", fmt.Sprintf("bytes */%d", size))
		w.WriteHeader(http.StatusRequestedRangeNotSatisfiable)
		fmt.Fprint(w, long)
		return
	}
	if mode == "206-other-range" && size > 1 { // a confused proxy: a valid partial response, for another offset
		n := b - a
		a = (a + 1) % size
		b = a + n
		if b >= size {
			b = size - 1
		}
	}
	body := data[a : b+1]
	if mode == "206-empty" { // the announced range, and a complete, EMPTY body: the client's read ends with a plain io.EOF
		w.Header().Set("Content-Range", fmt.Sprintf("bytes %d-%d/%d", a, b, size))
		w.Header().Set("Content-Length", "0")
		w.WriteHeader(http.StatusPartialContent)
		return
	}
	w.Header().Set("Content-Range", fmt.Sprintf("bytes %d-%d/%d", a, b, size))
	w.Header().Set("Content-Length", strconv.Itoa(len(body)))
	w.WriteHeader(http.StatusPartialContent)
	if mode == "truncated" {
		if len(body) > 1 {
			w.Write(body[:len(body)/2]) // the handler returns early: the client sees an unexpected EOF
		}
		return
	}
	if cut >= 0 && cut < len(body) {
		vc17hBreakOff(w, body, cut)
		return
	}
	w.Write(body)
}

type vc17hReplay struct {
	File    []byte    `json:"file"`
	History []vc17hOp `json:"history"`
	Step    int       `json:"failing_step"`
	Shown   string    `json:"history_text"`
}

func vc17hSig(mode string) string {
	if strings.Contains(mode, ">") {
		return "http-wrong-bytes-after-retried-or-resumed-transfer"
	}
	if strings.HasPrefix(mode, "200") {
		return "http-range-ignored-served-as-data"
	}
	switch mode {
	case "500", "503", "404", "403":
		return "http-error-status-served-as-data"
	case "200-range-ignored", "206-other-range":
		return "http-range-ignored-served-as-data"
	case "ok":
		return "wrong-bytes-http"
	}
	return "http-failed-fetch-served-as-data"
}

// vc17hRun opens a fresh reader (fresh cache) on the server and runs one history; if the client could not even
// reach the server on a request the server would have answered (local resource trouble: descriptors, ports),
// the history is run once more after releasing connections, and only the second outcome counts.
func vc17hRun(rep *vh.Report, srv *vc17hServer, url string, ops []vc17hOp) {
	if vc17hRunOnce(rep, srv, url, ops, true) {
		rep.Count("environment-retry")
		time.Sleep(200 * time.Millisecond)
		vc17hRunOnce(rep, srv, url, ops, false)
	}
}

func vc17hRunOnce(rep *vh.Report, srv *vc17hServer, url string, ops []vc17hOp, mayRetry bool) (retry bool) {
	data := srv.data
	size := int64(len(data))
	text := func() string {
		parts := make([]string, len(ops))
		for i, o := range ops {
			parts[i] = o.String()
		}
		return strings.Join(parts, " ; ")
	}
	var pending []func()
	unreachable := false
	fail := func(sig string, step int, format string, a ...interface{}) {
		detail := fmt.Sprintf("file=%q history=%s step=%d: ", data, text(), step) + fmt.Sprintf(format, a...)
		pending = append(pending, func() {
			rep.Fail(sig, detail, vc17hReplay{File: data, History: ops, Step: step, Shown: text()})
		})
	}
	defer func() {
		// The repository's reader keeps its keep-alive connection after Close (Client.CloseIdleConnections does not
		// reach through the gzip transport wrapper): drop the connections from the server side so that tens of
		// thousands of histories do not run the process out of descriptors.
		if srv.release != nil {
			srv.release()
		}
		if unreachable && mayRetry {
			retry = true
			return
		}
		for _, f := range pending {
			f()
		}
	}()
	srv.set("ok")
	ctx, cancel := context.WithCancel(context.Background())
	defer cancel()
	rd, gotSize, err := NewRemoteHTTPFileAsIoReaderAt(ctx, url)
	if err != nil || gotSize != size {
		unreachable = true
		fail("open-failed", -1, "NewRemoteHTTPFileAsIoReaderAt: size %d err %v", gotSize, err)
		return
	}
	defer rd.Close()
	blamed := "" // the first server behaviour of this history whose read already broke the property
	read := func(i int, o vc17hOp) {
		srv.set(o.Mode)
		req0 := srv.count()
		p := make([]byte, o.Len)
		for k := range p {
			p[k] = 0x7e
		}
		var n int
		var err error
		func() {
			defer func() {
				if r := recover(); r != nil {
					fail("panic-http", i, "%s panicked: %v", o, r)
					err = fmt.Errorf("panic")
				}
			}()
			n, err = rd.ReadAt(p, o.Off)
		}()
		fetched := srv.count() > req0
		misbehaved := srv.misbehaved()
		srv.set("ok")
		inside := o.Off >= 0 && o.Off+int64(o.Len) <= size
		switch {
		case !inside:
			if err == nil {
				fail("past-eof-not-refused-http", i, "%s on a %d-byte file returned %q without error", o, size, p[:n])
			} else if n > 0 && !(o.Off < size && string(p[:n]) == string(data[o.Off:o.Off+int64(n)])) {
				fail("past-eof-not-refused-http", i, "%s on a %d-byte file returned %d bytes %q with %v", o, size, n, p[:n], err)
			}
		case err == nil:
			if n != o.Len || string(p) != string(data[o.Off:o.Off+int64(o.Len)]) {
				sig := vc17hSig(o.Mode)
				if !fetched || (blamed != "" && o.Mode == "ok") {
					sig = vc17hSig(blamed) // served from the cache: the damage was done by an earlier read
					if blamed == "" {
						sig = "wrong-bytes-http"
					}
				}
				if blamed == "" {
					blamed = o.Mode
				}
				fail(sig, i, "%s returned n=%d %q with a nil error; the file holds %q there (a request reached the server: %v)", o, n, p[:n], data[o.Off:o.Off+int64(o.Len)], fetched)
			}
		default: // an error on a read inside the file needs a cause: the server misbehaved on a request of this very read
			if !misbehaved || !fetched {
				if !fetched && !strings.Contains(o.Mode, "drop") {
					unreachable = true // the request never arrived although the server was listening
				}
				fail("spurious-error-http", i, "%s failed (%v) although the server answered correctly (request reached the server: %v)", o, err, fetched)
			}
		}
	}
	for i, o := range ops {
		read(i, o)
		if n := strings.Count(o.Mode, ">"); n > 0 {
			rep.Count(fmt.Sprintf("read@sequence-of-%d-behaviours", n+1))
		} else {
			rep.Count("read@" + o.Mode)
		}
	}
	// whatever happened, a healthy re-read tells the truth (a failed fetch must not have been cached)
	read(len(ops), vc17hOp{Off: 0, Len: int(size), Mode: "ok"})
	for off := int64(0); off+3 <= size; off += 3 {
		read(len(ops)+1, vc17hOp{Off: off, Len: 3, Mode: "ok"})
	}
	return false // the deferred function decides
}

func vc17hFds() int {
	d, err := os.ReadDir("/proc/self/fd")
	if err != nil {
		return -1
	}
	return len(d)
}

func TestVerif_C17HTTP(t *testing.T) {
	rng := vh.NewRng(vh.Seed())
	rep := vh.NewReport("C17", "httpreader",
		"HTTPSingleFileRemoteReaderAt.ReadAt against a loopback server: every history of length<=2 (3 in thorough) of reads x per-request server behaviour (healthy 206, 500/503/404/403 with a long body, Range ignored with 200, 206 for another offset, truncated body, 206 with an empty body) over a 12-byte file incl. reads past the end, + random longer histories, + dropped connections, + every sequence of <=3 behaviours over the consecutive requests of ONE read (206, body broken off after k bytes of a 206 or of a 200, 200 whole file, 500, 206 for another offset; dropped connection in front) x read offsets {0,1,middle,end-len} x lengths {2,5,whole}, followed by healthy re-reads of the same and of an overlapping range; each followed by a healthy truth sweep; + several remote files open at the same time (two loopback servers serving different content under the same path with the same size; controls with another size, another path, another query string; opened concurrently or in turn in a seeded order, interleaved and concurrent reads, readers closed and re-opened while the others keep reading: every read returns the bytes of its own remote); oracle only. Non-trivial: a history with at least one misbehaving request")
	rep.CaseFiles = []string{} // oracle only: no Coq case file from this part
	data := []byte("0123456789ab")
	srv := &vc17hServer{data: data, mode: "ok"}
	ts := httptest.NewServer(srv)
	defer ts.Close()
	srv.release = ts.CloseClientConnections
	url := ts.URL + "/epoch.car"
	fds0 := vc17hFds()

	var alpha []vc17hOp
	modes := []string{"ok", "500", "503", "404", "200-range-ignored", "206-other-range", "truncated", "206-empty"}
	for _, r := range [][2]int{{0, 4}, {2, 4}, {4, 4}, {0, 12}, {8, 4}, {3, 2}, {11, 1}, {5, 0}} {
		for _, m := range modes {
			alpha = append(alpha, vc17hOp{Off: int64(r[0]), Len: r[1], Mode: m})
		}
	}
	for _, r := range [][2]int{{10, 4}, {12, 1}, {20, 1}, {0, 13}} {
		alpha = append(alpha, vc17hOp{Off: int64(r[0]), Len: r[1], Mode: "ok"})
	}
	alpha = append(alpha, vc17hOp{Off: 10, Len: 4, Mode: "500"}, vc17hOp{Off: 1, Len: 2, Mode: "403"})
	rep.Flag("alphabet", len(alpha))
	maxLen := 2
	if vh.Thorough() {
		maxLen = 3
	}
	for n := 1; n <= maxLen; n++ {
		idx := make([]int, n)
		for {
			ops := make([]vc17hOp, n)
			bad := false
			for i := range idx {
				ops[i] = alpha[idx[i]]
				bad = bad || ops[i].Mode != "ok"
			}
			// length 3 is sampled 1 in 12 (each history costs several HTTP round trips)
			if n < 3 || rng.Intn(12) == 0 {
				vc17hRun(rep, srv, url, ops)
				rep.Case(fmt.Sprint("h", idx), bad)
				rep.Count(fmt.Sprintf("len=%d", n))
			}
			k := n - 1
			for k >= 0 {
				idx[k]++
				if idx[k] < len(alpha) {
					break
				}
				idx[k] = 0
				k--
			}
			if k < 0 {
				break
			}
		}
	}
	rep.Exhaustive = true
	// random longer histories
	nLong := 150
	if vh.Thorough() {
		nLong = 1500
	}
	for h := 0; h < nLong; h++ {
		n := rng.Range(4, 25)
		ops := make([]vc17hOp, n)
		for i := range ops {
			off := rng.Intn(len(data))
			ln := rng.Intn(len(data) - off + 1)
			if rng.Intn(12) == 0 {
				ln += 1 + rng.Intn(3) // may reach past the end
			}
			m := "ok"
			if rng.Intn(3) == 0 {
				m = modes[1+rng.Intn(len(modes)-1)]
			}
			if off+ln > len(data) { // past the end: healthy server or a 500
				m = "ok"
				if rng.Bool() {
					m = "500"
				}
			}
			ops[i] = vc17hOp{Off: int64(off), Len: ln, Mode: m}
		}
		vc17hRun(rep, srv, url, ops)
		rep.Case(fmt.Sprint("long", h, vh.Seed()), true)
		rep.Count("random-long")
	}
	vc17hComposed(rep, srv, url, rng)
	// several remote files open at the same time (c17multi_test.go)
	vc17hMulti(rep, vh.Seed())
	// dropped connections (each costs the client's retry back-off, ~0.7 s): a few directed histories
	for _, ops := range [][]vc17hOp{
		{{Off: 2, Len: 4, Mode: "drop"}},
		{{Off: 0, Len: 4, Mode: "ok"}, {Off: 2, Len: 6, Mode: "drop"}, {Off: 2, Len: 6, Mode: "ok"}},
	} {
		vc17hRun(rep, srv, url, ops)
		rep.Case(fmt.Sprint("drop", ops), true)
		rep.Count("dropped-connection")
	}
	rep.Flag("open_descriptors_start_end", []int{fds0, vc17hFds()})
	rep.Sample(map[string]interface{}{"file": string(data), "history": "ReadAt(off=2,len=4)@503 ; ReadAt(off=2,len=4)@ok", "expected": "error, then \"2345\""})
	if err := rep.Write(); err != nil {
		t.Fatal(err)
	}
}

// vc17hComposed: the server behaviours composed over the consecutive requests of ONE read. A reader may spend
// several requests on a read (retry after a transport error, resume a broken transfer, ...); whatever it does,
// a read that reports success returned the file's bytes of its range, and nothing else was cached: the read is
// followed by healthy reads of the same range, of an overlapping range that starts before or ends after it, and
// of a range inside it, then by the truth sweep of vc17hRunOnce. An error is always acceptable when a request
// of the read was answered with something other than the honoured range.
func vc17hComposed(rep *vh.Report, srv *vc17hServer, url string, rng *vh.Rng) {
	size := len(srv.data)
	type shape struct {
		off, ln int
		full    bool // every sequence of length 3 also in the quick tier
	}
	var shapes []shape
	for _, ln := range []int{5, 2} {
		for i, off := range []int{0, 1, (size - ln) / 2, size - ln} {
			shapes = append(shapes, shape{off, ln, ln == 5 && i == 0})
		}
	}
	shapes = append(shapes, shape{0, size, false})
	run := func(sh shape, seq []string) {
		mode := strings.Join(seq, ">")
		ops := []vc17hOp{{Off: int64(sh.off), Len: sh.ln, Mode: mode}, {Off: int64(sh.off), Len: sh.ln, Mode: "ok"}}
		// an overlapping range and a nested one, through the cache
		if sh.off > 0 {
			ops = append(ops, vc17hOp{Off: int64(sh.off - 1), Len: sh.ln, Mode: "ok"})
		} else if sh.off+sh.ln < size {
			ops = append(ops, vc17hOp{Off: int64(sh.off + 1), Len: sh.ln, Mode: "ok"})
		}
		if sh.ln > 1 {
			ops = append(ops, vc17hOp{Off: int64(sh.off + 1), Len: sh.ln - 1, Mode: "ok"})
		}
		vc17hRun(rep, srv, url, ops)
		rep.Case(fmt.Sprintf("seq/%d/%d/%s", sh.off, sh.ln, mode), len(seq) > 1 || mode != "206")
		rep.Count(fmt.Sprintf("composed len=%d", len(seq)))
	}
	for _, sh := range shapes {
		atoms := []string{"206", "200", "500", "206-other-range"}
		seen := map[int]bool{}
		for _, k := range []int{1, sh.ln / 2, sh.ln - 1} { // break-off points inside the bytes the read needs
			if k >= 1 && k < sh.ln && !seen[k] {
				seen[k] = true
				atoms = append(atoms, fmt.Sprintf("206/%d", k), fmt.Sprintf("200/%d", k))
			}
		}
		// a healthy complete answer ends a read: it only occurs in the last place of a sequence
		var enum func(prefix []string, n int)
		enum = func(prefix []string, n int) {
			if len(prefix) == n {
				if n < 3 || sh.full || vh.Thorough() || rng.Intn(5) == 0 {
					run(sh, prefix)
				}
				return
			}
			for _, a := range atoms {
				if a == "206" && len(prefix) < n-1 {
					continue
				}
				enum(append(append([]string(nil), prefix...), a), n)
			}
		}
		for n := 1; n <= 3; n++ {
			enum(nil, n)
		}
		// a dropped connection costs the client's back-off (0.1 s, then 0.2 s, then 0.4 s): in the quick tier only in
		// front of every atom and inside a few directed sequences, at offset 0 and in the middle
		if sh.ln == 5 && (sh.off == 0 || sh.off == (size-sh.ln)/2) {
			for _, a := range atoms {
				run(sh, []string{"drop", a})
			}
			for _, seq := range [][]string{{"200/2", "drop", "200"}, {"206/2", "drop", "206"}} {
				run(sh, seq)
			}
			if sh.off == 0 {
				run(sh, []string{"drop", "drop", "200/2"})
			}
			if vh.Thorough() {
				withDrop := append(append([]string(nil), atoms...), "drop")
				for _, a := range withDrop {
					for _, b := range withDrop {
						for _, c := range withDrop {
							if a == "206" || b == "206" || (a != "drop" && b != "drop" && c != "drop") {
								continue
							}
							if a == "drop" && b == "drop" && c == "drop" {
								continue // 0.7 s each; the directed histories of the caller cover it
							}
							run(sh, []string{a, b, c})
						}
					}
				}
			}
		}
	}
}
