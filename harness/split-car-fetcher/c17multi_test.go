package splitcarfetcher

// Verification harness for C17, HTTP reader, SEVERAL remote files open at the same time (injected with
// `go test -overlay` next to c17_test.go; not part of the repository).
//
// "Any sequence of reads of a remote file through its range cache ... returns for each read exactly the bytes the
// remote holds at that range": the remote file of a reader is the URL it was opened with. A process keeps many remote
// files open at once (one per epoch / per piece), so the property is checked on several readers that live at the same
// time, over healthy loopback servers (HEAD, 206 + Content-Range):
//   - two servers (different ports) serving DIFFERENT content under the SAME path with the SAME size,
//   - controls: the same path with another size (third server), another path with the same size on the same server, and
//     the same path on the same server with different query strings (same size, different content).
// In every round the readers are opened (concurrently or one after the other, in a seeded order), then read
// interleaved - the same range from every reader, a range nested in it, an overlapping one, a fresh one, the tail ending at
// the size, the whole file -, then from one goroutine per reader at the same time; then some readers are closed and the
// others keep reading; then the closed ones are opened again and read. Every read must return the bytes of ITS remote.
// Oracle only. Signatures: http-bytes-of-another-remote (the reply differs from the reader's remote; the detail says whose
// bytes it holds when they are another open remote's), spurious-error-http (an error although every server is healthy; the
// whole round is repeated once first, as local resource trouble can make a loopback request fail), open-failed, panic-http.

import (
	"bytes"
	"context"
	"fmt"
	"net/http"
	"net/http/httptest"
	"strconv"
	"sync"
	"sync/atomic"
	"time"

	"github.com/rpcpool/yellowstone-faithful/zzverif/vh"
)

// vc17mServer serves the files of one host, healthy: keyed by the request URI (path and query).
type vc17mServer struct {
	files    map[string][]byte
	requests atomic.Int64
}

func (s *vc17mServer) ServeHTTP(w http.ResponseWriter, r *http.Request) {
	data, ok := s.files[r.URL.RequestURI()]
	if !ok {
		w.WriteHeader(404)
		return
	}
	size := int64(len(data))
	if r.Method == http.MethodHead {
		w.Header().Set("Content-Length", strconv.FormatInt(size, 10))
		w.WriteHeader(200)
		return
	}
	s.requests.Add(1)
	a, b, ok := vc17hRange(r.Header.Get("Range"), size)
	if !ok {
		w.Header().Set("Content-Range", fmt.Sprintf("bytes */%d", size))
		w.WriteHeader(http.StatusRequestedRangeNotSatisfiable)
		return
	}
	body := data[a : b+1]
	w.Header().Set("Content-Range", fmt.Sprintf("bytes %d-%d/%d", a, b, size))
	w.Header().Set("Content-Length", strconv.Itoa(len(body)))
	w.WriteHeader(http.StatusPartialContent)
	w.Write(body)
}

type vc17mRemote struct {
	Name string // host letter + request URI
	URL  string
	Data []byte
}

type vc17mRead struct {
	Reader string `json:"reader"`
	Off    int64  `json:"off"`
	Len    int    `json:"len"`
	Phase  string `json:"phase"`
}

// vc17hMulti: see the head of the file.
func vc17hMulti(rep *vh.Report, seed uint64) {
	rng := vh.NewRng(seed + 0x3e307e)
	rounds := 4
	if vh.Thorough() {
		rounds = 40
	}
	for round := 0; round < rounds; round++ {
		rseed := rng.U64()
		if vc17mRound(rep, seed, round, rseed, true) {
			rep.Count("multi: environment-retry")
			time.Sleep(200 * time.Millisecond)
			vc17mRound(rep, seed, round, rseed, false)
		}
		rep.Case(fmt.Sprint("multi", seed, round), true)
		rep.Count("multi: rounds")
	}
}

func vc17mContent(rng *vh.Rng, n int, tag byte) []byte {
	d := rng.Bytes(n)
	for i := range d { // 0x7e is the filler of the read buffers
		if d[i] == 0x7e {
			d[i] = tag
		}
	}
	return d
}

// vc17mRound runs one round; with mayRetry, a round in which a read or an open failed although every server is healthy
// reports nothing and asks for a repetition.
func vc17mRound(rep *vh.Report, seed uint64, round int, rseed uint64, mayRetry bool) (retry bool) {
	rng := vh.NewRng(rseed)
	size := rng.Range(200, 3000)
	hostA := &vc17mServer{files: map[string][]byte{
		"/epoch.car":     vc17mContent(rng, size, 'A'),
		"/other.car":     vc17mContent(rng, size, 'a'),
		"/piece?id=1":    vc17mContent(rng, size, '1'),
		"/piece?id=2":    vc17mContent(rng, size, '2'),
		"/dir/epoch.car": vc17mContent(rng, size, 'd'),
	}}
	hostB := &vc17mServer{files: map[string][]byte{"/epoch.car": vc17mContent(rng, size, 'B'), "/dir/epoch.car": vc17mContent(rng, size, 'b')}}
	hostC := &vc17mServer{files: map[string][]byte{"/epoch.car": vc17mContent(rng, size+rng.Range(1, 40), 'C')}}
	var remotes []*vc17mRemote
	var servers []*httptest.Server
	for i, h := range []*vc17mServer{hostA, hostB, hostC} {
		ts := httptest.NewServer(h)
		servers = append(servers, ts)
		uris := make([]string, 0, len(h.files))
		for _, u := range []string{"/epoch.car", "/other.car", "/piece?id=1", "/piece?id=2", "/dir/epoch.car"} {
			if _, ok := h.files[u]; ok {
				uris = append(uris, u)
			}
		}
		for _, u := range uris {
			remotes = append(remotes, &vc17mRemote{Name: string(rune('A'+i)) + u, URL: ts.URL + u, Data: h.files[u]})
		}
	}
	defer func() {
		for _, ts := range servers {
			ts.CloseClientConnections()
			ts.Close()
		}
	}()
	// the order in which the readers are opened (and later read) differs from round to round
	order := rng.Perm(len(remotes))
	if round == 1 {
		for i := range order {
			order[i] = len(remotes) - 1 - i
		}
	}
	ordered := make([]*vc17mRemote, len(remotes))
	for i, j := range order {
		ordered[i] = remotes[j]
	}
	remotes = ordered
	names := make([]string, len(remotes))
	for i, r := range remotes {
		names[i] = r.Name
	}
	input := map[string]interface{}{"part": "several remote files open at once", "seed": seed, "round": round, "file_size": size,
		"readers_in_opening_order": names, "note": "host letter + request URI; hosts are loopback servers on different ports; contents are drawn from the round's seed"}

	var mu sync.Mutex
	var pending []func()
	trouble := false
	fail := func(sig, detail string, rd vc17mRead) {
		mu.Lock()
		defer mu.Unlock()
		if sig == "spurious-error-http" || sig == "open-failed" {
			trouble = true
		}
		if len(pending) < 12 {
			pending = append(pending, func() { rep.Fail(sig, detail, map[string]interface{}{"read": rd, "input": input}) })
		}
	}
	defer func() {
		if trouble && mayRetry {
			retry = true
			return
		}
		for _, f := range pending {
			f()
		}
	}()

	ctx, cancel := context.WithCancel(context.Background())
	defer cancel()
	readers := make([]ReaderAtCloserSize, len(remotes))
	open := func(i int, phase string) {
		var rd ReaderAtCloserSize
		var sz int64
		var err error
		func() {
			defer func() {
				if r := recover(); r != nil {
					err = fmt.Errorf("panic: %v", r)
				}
			}()
			rd, sz, err = NewRemoteHTTPFileAsIoReaderAt(ctx, remotes[i].URL)
		}()
		if err != nil || rd == nil || sz != int64(len(remotes[i].Data)) {
			fail("open-failed", fmt.Sprintf("NewRemoteHTTPFileAsIoReaderAt(%s) on a healthy server: size %d (the file has %d bytes) err %v", remotes[i].Name, sz, len(remotes[i].Data), err),
				vc17mRead{Reader: remotes[i].Name, Phase: phase})
			if rd != nil && err == nil {
				rd.Close()
			}
			rd = nil
		}
		readers[i] = rd
	}
	closeRd := func(i int) {
		if readers[i] != nil {
			func() {
				defer func() { recover() }()
				readers[i].Close()
			}()
			readers[i] = nil
		}
	}
	defer func() {
		for i := range readers {
			closeRd(i)
		}
	}()
	var nreads atomic.Int64
	read := func(i int, off int64, ln int, phase string) {
		rd := readers[i]
		if rd == nil {
			return
		}
		me := remotes[i]
		what := vc17mRead{Reader: me.Name, Off: off, Len: ln, Phase: phase}
		p := bytes.Repeat([]byte{0x7e}, ln)
		var n int
		var err error
		func() {
			defer func() {
				if r := recover(); r != nil {
					fail("panic-http", fmt.Sprintf("ReadAt(off=%d,len=%d) on %s panicked: %v", off, ln, me.Name, r), what)
					n, err = 0, fmt.Errorf("panic")
				}
			}()
			n, err = rd.ReadAt(p, off)
		}()
		nreads.Add(1)
		if err != nil {
			fail("spurious-error-http", fmt.Sprintf("[%s] ReadAt(off=%d,len=%d) on %s (%d bytes) failed (%v) although every server is healthy", phase, off, ln, me.Name, len(me.Data), err), what)
			return
		}
		want := me.Data[off : off+int64(ln)]
		if n == ln && bytes.Equal(p, want) {
			return
		}
		whose := "no open remote's bytes at that range"
		for j, o := range remotes {
			if j != i && off+int64(ln) <= int64(len(o.Data)) && ln > 0 && bytes.Equal(p[:n], o.Data[off:off+int64(n)]) && n == ln {
				whose = "the bytes of " + o.Name + " at that range"
				break
			}
		}
		fail("http-bytes-of-another-remote", fmt.Sprintf("[%s] ReadAt(off=%d,len=%d) on %s returned n=%d %s.. with a nil error; its remote holds %s.. there; the reply holds %s (readers open in this order: %v)",
			phase, off, ln, me.Name, n, vh.Hex(p[:vc17mMin(n, 12)]), vh.Hex(want[:vc17mMin(ln, 12)]), whose, names), what)
	}

	// ---- phase 1: open all (concurrently in odd rounds), interleaved reads of the same ranges
	if round%2 == 1 {
		var wg sync.WaitGroup
		for i := range remotes {
			wg.Add(1)
			go func(i int) { defer wg.Done(); open(i, "open-concurrently") }(i)
		}
		wg.Wait()
	} else {
		for i := range remotes {
			open(i, "open")
		}
	}
	minSize := size
	randRange := func(r *vh.Rng) (int64, int) {
		ln := r.Range(1, 64)
		if r.Intn(6) == 0 {
			ln = r.Range(65, minSize)
		}
		off := r.Intn(minSize - ln + 1)
		return int64(off), ln
	}
	for k := 0; k < 6; k++ {
		off, ln := randRange(rng)
		if ln < 4 {
			ln = 4
			if int(off)+ln > minSize {
				off = int64(minSize - ln)
			}
		}
		for i := range remotes { // the same range from every reader, one after the other
			read(i, off, ln, "interleaved: same range")
		}
		for _, i := range rng.Perm(len(remotes)) { // nested in it (served from the caches)
			read(i, off+1, ln-2, "interleaved: nested range")
		}
		for _, i := range rng.Perm(len(remotes)) { // overlapping it
			o := off - 1
			if o < 0 {
				o = 0
			}
			read(i, o, ln, "interleaved: overlapping range")
		}
	}
	for i := range remotes { // the tail ending exactly at each file's size, and the whole file
		own := len(remotes[i].Data)
		tl := rng.Range(1, 50)
		read(i, int64(own-tl), tl, "interleaved: tail")
	}
	for _, i := range rng.Perm(len(remotes)) {
		read(i, 0, len(remotes[i].Data), "interleaved: whole file")
	}
	// ---- phase 2: one goroutine per reader at the same time
	{
		var wg sync.WaitGroup
		for i := range remotes {
			wg.Add(1)
			grng := vh.NewRng(rng.U64())
			go func(i int) {
				defer wg.Done()
				for k := 0; k < 25; k++ {
					off, ln := randRange(grng)
					read(i, off, ln, "concurrent readers")
				}
			}(i)
		}
		wg.Wait()
	}
	// ---- phase 3: close some readers; the others keep reading (fresh ranges and cached ones)
	closed := rng.Perm(len(remotes))[:len(remotes)/2]
	for _, i := range closed {
		closeRd(i)
	}
	for k := 0; k < 6; k++ {
		off, ln := randRange(rng)
		for i := range remotes {
			read(i, off, ln, "after closing other readers")
		}
	}
	// ---- phase 4: the closed ones are opened again, everybody reads
	for _, i := range closed {
		open(i, "re-open")
	}
	for k := 0; k < 6; k++ {
		off, ln := randRange(rng)
		for _, i := range rng.Perm(len(remotes)) {
			read(i, off, ln, "after re-opening")
		}
	}
	rep.CountN("multi: reads", int(nreads.Load()))
	rep.CountN("multi: readers opened at the same time", len(remotes))
	return false // the deferred function decides
}

func vc17mMin(a, b int) int {
	if a < b {
		return a
	}
	return b
}
