package splitcarfetcher

// Verification harness for C16, part (a) (injected with `go test -overlay`; not part of the repository).
// MultiReaderAt.ReadAt and SplitCarReader.ReadAt over ideal segment readers (bytes.Reader, io.SectionReader
// over a bytes.Reader, io.SectionReader over an *os.File, FileSplitCarReader): exhaustive piece-size vectors
// x every (offset, length) including beyond the end, random large vectors, pieces with header and trailer
// behind NewSplitCarReader.  Oracle: plain slicing of the concatenation.  Observations go to a Coq case file
// that YF.C16_Check.check_mr compares with the model the theorems are about.

import (
	"bytes"
	"encoding/base64"
	"encoding/binary"
	"fmt"
	"io"
	"os"
	"path/filepath"
	"strings"
	"testing"

	"github.com/anjor/carlet"
	"github.com/rpcpool/yellowstone-faithful/zzverif/vh"
)

const (
	vc16KindBytes   = 0 // bytes.Reader
	vc16KindSection = 1 // io.SectionReader over a bytes.Reader with padding around the segment
	vc16KindFile    = 2 // io.SectionReader over an *os.File holding all segments with padding
)

func vc16Code(err error) int {
	if err == nil {
		return 0
	}
	if err == io.EOF {
		return 1
	}
	return 2
}

// vc16Readers builds one reader per segment of the requested kind. cleanup closes files.
func vc16Readers(segs [][]byte, kind int, scratch string) (readers []io.ReaderAt, sizes []int64, cleanup func()) {
	cleanup = func() {}
	switch kind {
	case vc16KindBytes:
		for _, s := range segs {
			readers = append(readers, bytes.NewReader(s))
			sizes = append(sizes, int64(len(s)))
		}
	case vc16KindSection:
		for _, s := range segs {
			buf := append([]byte{0xEE, 0xEE, 0xEE}, s...)
			buf = append(buf, 0xDD, 0xDD)
			readers = append(readers, io.NewSectionReader(bytes.NewReader(buf), 3, int64(len(s))))
			sizes = append(sizes, int64(len(s)))
		}
	case vc16KindFile:
		var all []byte
		var starts []int64
		for _, s := range segs {
			all = append(all, 0xEE, 0xEE)
			starts = append(starts, int64(len(all)))
			all = append(all, s...)
			all = append(all, 0xDD)
		}
		if err := os.WriteFile(scratch, all, 0o644); err != nil {
			panic("VERIF-HARNESS-BUG: " + err.Error())
		}
		f, err := os.Open(scratch)
		if err != nil {
			panic("VERIF-HARNESS-BUG: " + err.Error())
		}
		cleanup = func() { f.Close() }
		for i, s := range segs {
			readers = append(readers, io.NewSectionReader(f, starts[i], int64(len(s))))
			sizes = append(sizes, int64(len(s)))
		}
	}
	return
}

type vc16Obs struct {
	n    int
	code int
	data []byte
	pan  string
}

func vc16ReadAt(r io.ReaderAt, off int64, ln int) (o vc16Obs) {
	defer func() {
		if e := recover(); e != nil {
			o.pan = fmt.Sprint(e)
		}
	}()
	p := make([]byte, ln)
	n, err := r.ReadAt(p, off)
	o.n, o.code = n, vc16Code(err)
	if n >= 0 && n <= ln {
		o.data = p[:n]
	}
	return
}

// vc16Oracle evaluates the property on one observation. Returns "" or a failure signature.
func vc16Oracle(all []byte, off int64, ln int, o vc16Obs) string {
	if o.pan != "" {
		return "panic"
	}
	lo := off
	if lo > int64(len(all)) {
		lo = int64(len(all))
	}
	hi := off + int64(ln)
	if hi > int64(len(all)) {
		hi = int64(len(all))
	}
	exp := all[lo:hi]
	switch {
	case o.code == 2:
		return "unexpected-error"
	case o.n != len(exp):
		return "wrong-count"
	case !bytes.Equal(o.data, exp):
		return "wrong-bytes"
	case o.n < ln && o.code != 1:
		return "short-read-without-eof"
	case o.n == ln && o.code != 0:
		return "eof-before-true-end"
	}
	return ""
}

func vc16Bytes(b []byte) string {
	if len(b) == 0 {
		return "[]"
	}
	items := make([]string, len(b))
	for i, x := range b {
		items[i] = fmt.Sprint(int(x))
	}
	return "[" + strings.Join(items, ";") + "]"
}

func vc16Segs(segs [][]byte) string {
	items := make([]string, len(segs))
	for i, s := range segs {
		items[i] = vc16Bytes(s)
	}
	return "[" + strings.Join(items, ";") + "]"
}

// one Coq case: segments, rows (off, bytes of the longest read, (n,code) for len = 0,1,2,...), explicit reads
type vc16Case struct {
	segs  [][]byte
	rows  []string
	reads []string
}

func (c *vc16Case) term() string {
	return fmt.Sprintf("(%s, [%s], [%s])%%N", vc16Segs(c.segs), strings.Join(c.rows, ";"), strings.Join(c.reads, ";"))
}
func (c *vc16Case) addRead(off int64, ln int, o vc16Obs) {
	c.reads = append(c.reads, fmt.Sprintf("(%d,%d,%s,%d)", off, ln, vc16Bytes(o.data), o.code))
}

func vc16Enumerate(maxPieces, maxSize int, f func(sizes []int)) {
	var rec func(cur []int)
	rec = func(cur []int) {
		if len(cur) >= 1 {
			f(cur)
		}
		if len(cur) == maxPieces {
			return
		}
		for s := 0; s <= maxSize; s++ {
			rec(append(cur, s))
		}
	}
	rec(nil)
}

func TestVerif_C16(t *testing.T) {
	rng := vh.NewRng(vh.Seed())
	rep := vh.NewReport("C16", "multireader",
		"exhaustive: every vector of 1..4 pieces of 0..6 bytes x every offset 0..total+2 x every length 0..total+3 x 3 reader kinds "+
			"(bytes.Reader, SectionReader over bytes.Reader, SectionReader over os.File) on MultiReaderAt.ReadAt; random vectors of up to 12 pieces "+
			"of 0..3000 bytes with random and boundary reads; random header+content+trailer pieces behind NewSplitCarReader (in memory and FileSplitCarReader). "+
			"Evaluations = ReadAt calls checked against plain slicing of the concatenation; a vector is non-trivial when it has >= 2 pieces; distinct by the size vector (+ group)")
	cases := vh.NewCases("cases_c16_mr", []string{"YF.C16_MR", "YF.C16_Check"}, "case_mr", "check_mr")
	rep.Exhaustive = true
	scratch := filepath.Join(vh.OutDir(), "c16_segments.bin")
	fail := func(sig string, detail string, segs [][]byte, kind int, off int64, ln int, o vc16Obs) {
		sz := make([]int, len(segs))
		for i, s := range segs {
			sz[i] = len(s)
		}
		rep.Fail(sig, detail, map[string]interface{}{"piece_sizes": sz, "reader_kind": kind, "off": off, "len": ln,
			"got_n": o.n, "got_code(0 nil,1 EOF,2 other)": o.code, "got_bytes": vh.Hex(o.data), "panic": o.pan})
	}

	// ---------- 1. exhaustive small vectors ----------
	const maxPieces, maxSize = 4, 6
	// which vectors go to the Coq case file: all of them in thorough; in quick all vectors of <= 3 pieces x 0..4 bytes
	// plus a seeded sample of the others
	inCoq := func(sizes []int) bool {
		if vh.Thorough() {
			return true
		}
		small := len(sizes) <= 3
		for _, s := range sizes {
			if s > 4 {
				small = false
			}
		}
		return small || rng.Intn(40) == 0
	}
	nvec, nreads := 0, 0
	vc16Enumerate(maxPieces, maxSize, func(sizes []int) {
		nvec++
		segs := make([][]byte, len(sizes))
		var all []byte
		b := byte(1)
		for i, s := range sizes {
			segs[i] = make([]byte, s)
			for j := range segs[i] {
				segs[i][j] = b
				b++
			}
			all = append(all, segs[i]...)
		}
		total := len(all)
		rep.Case("exh:"+fmt.Sprint(sizes), len(sizes) >= 2)
		rep.Evaluations--
		rep.Count(fmt.Sprintf("exhaustive/pieces=%d", len(sizes)))
		toCoq := inCoq(sizes)
		coqKind := nvec % 3
		var cc *vc16Case
		if toCoq {
			cc = &vc16Case{segs: segs}
		}
		for kind := 0; kind < 3; kind++ {
			readers, szs, cleanup := vc16Readers(segs, kind, scratch)
			m := NewMultiReaderAt(readers, szs)
			for off := int64(0); off <= int64(total+2); off++ {
				maxLen := total + 3
				obs := make([]vc16Obs, maxLen+1)
				for ln := 0; ln <= maxLen; ln++ {
					o := vc16ReadAt(m, off, ln)
					obs[ln] = o
					nreads++
					rep.Evaluations++
					if sig := vc16Oracle(all, off, ln, o); sig != "" {
						fail(sig, "MultiReaderAt.ReadAt differs from slicing the concatenation", segs, kind, off, ln, o)
					}
					switch {
					case o.code == 1:
						rep.Count("reads/eof")
					case ln > 0 && off < int64(total):
						rep.Count("reads/full")
					default:
						rep.Count("reads/empty")
					}
				}
				if toCoq && kind == coqKind {
					longest := obs[maxLen]
					compact := longest.pan == ""
					for _, o := range obs {
						if o.pan != "" || o.n > len(longest.data) || !bytes.Equal(o.data, longest.data[:o.n]) {
							compact = false
						}
					}
					if compact {
						pairs := make([]string, len(obs))
						for i, o := range obs {
							pairs[i] = fmt.Sprintf("(%d,%d)", o.n, o.code)
						}
						cc.rows = append(cc.rows, fmt.Sprintf("(%d,%s,[%s])", off, vc16Bytes(longest.data), strings.Join(pairs, ";")))
					} else {
						for ln, o := range obs {
							if o.pan == "" {
								cc.addRead(off, ln, o)
							}
						}
					}
				}
			}
			cleanup()
		}
		if toCoq {
			cases.Add(cc.term())
			rep.Count("coq/exhaustive-vectors")
		}
	})
	rep.Note("exhaustive part: %d size vectors (1..%d pieces of 0..%d bytes), %d ReadAt calls over 3 reader kinds", nvec, maxPieces, maxSize, nreads)
	rep.Sample(map[string]interface{}{"piece_sizes": []int{3, 0, 1, 2}, "off": 2, "len": 3, "expect": "bytes 3,4,5 of the concatenation, nil error"})

	// ---------- 2. random large vectors ----------
	nrand := 60
	if vh.Thorough() {
		nrand = 600
	}
	for v := 0; v < nrand; v++ {
		toCoq := v < 24 || (vh.Thorough() && v < 120)
		np := rng.Range(1, 12)
		if toCoq { // keep the Coq case file small: fewer and shorter segments
			np = rng.Range(1, 7)
		}
		segs := make([][]byte, np)
		var all []byte
		var bounds []int64
		for i := range segs {
			var sz int
			switch rng.Intn(6) {
			case 0:
				sz = 0
			case 1:
				sz = rng.Range(1, 3)
			case 2:
				sz = rng.Range(100, 3000)
			default:
				sz = rng.Range(1, 300)
			}
			if toCoq && sz > 3 {
				sz = 1 + sz%90
			}
			segs[i] = rng.Bytes(sz)
			all = append(all, segs[i]...)
			bounds = append(bounds, int64(len(all)))
		}
		total := int64(len(all))
		kind := rng.Intn(3)
		readers, szs, cleanup := vc16Readers(segs, kind, scratch)
		m := NewMultiReaderAt(readers, szs)
		sizes := make([]int, np)
		for i := range segs {
			sizes[i] = len(segs[i])
		}
		rep.Case("rnd:"+fmt.Sprint(sizes), np >= 2)
		rep.Evaluations--
		rep.Count("random/vectors")
		cc := &vc16Case{segs: segs}
		nr := 60
		for k := 0; k < nr; k++ {
			var off int64
			var ln int
			switch rng.Intn(5) {
			case 0: // starts exactly at / around a boundary
				off = bounds[rng.Intn(len(bounds))] + int64(rng.Range(-2, 2))
			case 1: // beyond the end
				off = total + int64(rng.Intn(5))
			default:
				off = int64(rng.Intn(int(total) + 1))
			}
			if off < 0 {
				off = 0
			}
			switch rng.Intn(5) {
			case 0:
				ln = rng.Intn(4)
			case 1: // ends exactly at / around a boundary or the end
				e := bounds[rng.Intn(len(bounds))] + int64(rng.Range(-1, 1))
				if e > off {
					ln = int(e - off)
				}
			case 2:
				ln = int(total-off) + rng.Range(-1, 3)
				if ln < 0 {
					ln = rng.Intn(3)
				}
			default:
				ln = rng.Intn(int(total) + 3)
			}
			o := vc16ReadAt(m, off, ln)
			rep.Evaluations++
			rep.Count("random/reads")
			if sig := vc16Oracle(all, off, ln, o); sig != "" {
				fail(sig, "MultiReaderAt.ReadAt differs from slicing the concatenation (random vector)", segs, kind, off, ln, o)
			}
			if toCoq && k < 12 && o.pan == "" {
				cc.addRead(off, ln, o)
			}
		}
		cleanup()
		if toCoq {
			cases.Add(cc.term())
			rep.Count("coq/random-vectors")
		}
	}

	// ---------- 3. pieces with header and trailer behind NewSplitCarReader ----------
	nscr := 40
	if vh.Thorough() {
		nscr = 400
	}
	for v := 0; v < nscr; v++ {
		np := rng.Range(1, 6)
		bodyLen := rng.Pick(1, 2, 17, 58, 127, 128, 200, 300)
		body := rng.Bytes(bodyLen)
		hdr := binary.AppendUvarint(nil, uint64(len(body)))
		hdr = append(hdr, body...)
		useFiles := v%4 == 3 // FileSplitCarReader: the size check requires file size == HeaderSize + ContentSize
		meta := &carlet.CarPiecesAndMetadata{OriginalCarHeader: base64.StdEncoding.EncodeToString(body), OriginalCarHeaderSize: uint64(len(hdr))}
		segs := [][]byte{hdr}
		files := map[string][]byte{}
		all := append([]byte(nil), hdr...)
		for i := 0; i < np; i++ {
			hs := rng.Range(0, 70)
			cs := rng.Pick(0, 1, 2, 5, 40, 300, 1000)
			if cs > 2 {
				cs = rng.Range(1, cs)
			}
			if v < 16 && cs > 100 { // these vectors go to the Coq case file
				cs = 1 + cs%100
			}
			tr := rng.Pick(0, 0, 1, 50)
			if useFiles {
				tr = 0
			}
			content := rng.Bytes(cs)
			fb := append(rng.Bytes(hs), content...)
			fb = append(fb, rng.Bytes(tr)...)
			name := fmt.Sprintf("c16piece-%d-%d.bin", v, i)
			files[name] = fb
			meta.CarPieces = append(meta.CarPieces, carlet.CarFile{Name: name, HeaderSize: uint64(hs), ContentSize: uint64(cs)})
			segs = append(segs, content)
			all = append(all, content...)
		}
		var scr *SplitCarReader
		var err error
		var toRemove []string
		func() {
			defer func() {
				if e := recover(); e != nil {
					err = fmt.Errorf("panic: %v", e)
				}
			}()
			scr, err = NewSplitCarReader(meta, func(cf carlet.CarFile) (ReaderAtCloserSize, error) {
				if useFiles {
					p := filepath.Join(vh.OutDir(), cf.Name)
					if e := os.WriteFile(p, files[cf.Name], 0o644); e != nil {
						return nil, e
					}
					toRemove = append(toRemove, p)
					return NewFileSplitCarReader(p)
				}
				return &vc16Mem{Reader: bytes.NewReader(files[cf.Name]), size: int64(len(files[cf.Name]))}, nil
			})
		}()
		sizes := make([]int, len(segs))
		for i := range segs {
			sizes[i] = len(segs[i])
		}
		rep.Case("scr:"+fmt.Sprint(sizes, useFiles), true)
		rep.Evaluations--
		rep.Count("splitreader/vectors")
		if err != nil {
			rep.Fail("split-reader-rejects-consistent-pieces", "NewSplitCarReader failed on pieces whose sizes match the metadata: "+err.Error(),
				map[string]interface{}{"sizes(header first)": sizes, "files": useFiles})
			continue
		}
		cc := &vc16Case{segs: segs}
		total := int64(len(all))
		for k := 0; k < 50; k++ {
			off := int64(rng.Intn(int(total) + 3))
			ln := rng.Intn(int(total) + 4)
			if k%5 == 0 {
				ln = int(total-off) + rng.Range(-1, 1)
				if ln < 0 {
					ln = 0
				}
			}
			o := vc16ReadAt(scr, off, ln)
			rep.Evaluations++
			rep.Count("splitreader/reads")
			if sig := vc16Oracle(all, off, ln, o); sig != "" {
				fail(sig, "SplitCarReader.ReadAt differs from header ++ piece contents", segs, 10, off, ln, o)
			}
			if v < 16 && k < 10 && o.pan == "" {
				cc.addRead(off, ln, o)
			}
		}
		scr.Close()
		for _, p := range toRemove {
			os.Remove(p)
		}
		if v < 16 {
			cases.Add(cc.term())
			rep.Count("coq/splitreader-vectors")
		}
	}
	os.Remove(scratch)

	if err := cases.Write(); err != nil {
		t.Fatal(err)
	}
	rep.CasesWritten(cases)
	if err := rep.Write(); err != nil {
		t.Fatal(err)
	}
}

// in-memory piece (neither *FileSplitCarReader nor *HTTPSingleFileRemoteReaderAt: no size check applies)
type vc16Mem struct {
	*bytes.Reader
	size int64
}

func (m *vc16Mem) Close() error { return nil }
func (m *vc16Mem) Size() int64  { return m.size }
