package bucketteer

// Verification harness for C05, current file format (injected with `go test -overlay`; not part of
// the repository). The shared part is c05_common_test.go.
//
// bucketteer.NewWriter pre-allocates 65 536 slices of capacity 16 000 (8 GiB virtual): the first writer
// of a process is instant, every later one pays for re-zeroing. Every writer is therefore created in
// its own short-lived child process (re-exec of this test binary), at most four at a time.

import (
	"context"
	"encoding/json"
	"fmt"
	"os"
	"os/exec"
	"path/filepath"
	"strings"
	"sync"
	"testing"
	"time"

	"github.com/rpcpool/yellowstone-faithful/indexmeta"
	"github.com/rpcpool/yellowstone-faithful/zzverif/vh"
)

func vc05Version() int { return 2 }

type vc05Writer2 struct{ *Writer }

func (w vc05Writer2) SealMeta(meta [][2][]byte) (int64, error) {
	var m indexmeta.Meta
	for _, kv := range meta {
		m.KeyVals = append(m.KeyVals, indexmeta.KV{Key: kv[0], Value: kv[1]})
	}
	return w.Writer.Seal(m)
}

func vc05MakeWriter(path string) (vc05W, error) {
	w, err := NewWriter(path)
	if err != nil {
		return nil, err
	}
	return vc05Writer2{w}, nil
}

const vc05ChildEnv = "VERIF_C05_CHILD"

// TestVerif_C05_Child runs ONE writer (one spec) and writes the result next to the spec.
func TestVerif_C05_Child(t *testing.T) {
	specPath := os.Getenv(vc05ChildEnv)
	if specPath == "" {
		t.Skip("helper of TestVerif_C05")
	}
	spec, err := vc05ReadSpec(specPath)
	if err != nil {
		t.Fatalf("VERIF-HARNESS-BUG: %v", err)
	}
	base := strings.TrimSuffix(specPath, ".spec.json")
	res := vc05Exercise(spec, base+".idx")
	js, _ := json.Marshal(res)
	if err := os.WriteFile(base+".res.json", js, 0o644); err != nil {
		t.Fatalf("VERIF-HARNESS-BUG: %v", err)
	}
}

func vc05SeedTier() (uint64, bool) {
	seed, thorough := vh.Seed(), vh.Thorough()
	if rp := vh.Replay(); rp != "" {
		if b, err := os.ReadFile(rp); err == nil {
			var r struct {
				Seed uint64 `json:"seed"`
				Tier string `json:"tier"`
			}
			if json.Unmarshal(b, &r) == nil && r.Seed != 0 {
				seed, thorough = r.Seed, r.Tier == "thorough"
			}
		}
	}
	return seed, thorough
}

func TestVerif_C05(t *testing.T) {
	seed, thorough := vc05SeedTier()
	rng := vh.NewRng(seed)
	dir := filepath.Join(vh.OutDir(), "c05v2")
	if err := os.MkdirAll(dir, 0o755); err != nil {
		t.Fatalf("setup failed: %v", err)
	}
	rep := vh.NewReport("C05", "current", "current format (Version 2): every added signature must be reported present by Writer.Has and by the sealed file read through mmap, *os.File and bytes.Reader; a probe is reported present only if an added signature has its two-byte prefix and xxhash64; Writer.Has = Reader.Has on every probe; bucket populations 0,1,2,3,2^k-1,2^k,2^k+1 and crowded prefixes (16 000, 16 001, ~16 040, more than 32 000 signatures: the current writer starts every bucket with room for 16 000) whose neighbour prefixes (numerically and in byte order) are filled before, while and after the crowded one; small runs are re-evaluated by the Coq model (writer, model reader on the Go-written bytes, model reader on the model-written file)")
	cases := vh.NewCases("c05_current_cases", []string{"YF.C05_Model", "YF.C05_Check"}, "case", "check")
	nCoq := 2
	if thorough {
		nCoq = 8
	}
	specs := vc05Specs(rng, 2, thorough, nCoq)
	results := make([]*vc05Result, len(specs))
	outputs := make([]string, len(specs))
	hung := make([]bool, len(specs))
	limit := 2 * time.Minute
	if thorough {
		limit = 12 * time.Minute
	}
	sem := make(chan struct{}, 4)
	var wg sync.WaitGroup
	for i, spec := range specs {
		specPath, err := vc05WriteSpec(dir, spec)
		if err != nil {
			t.Fatalf("setup failed: %v", err)
		}
		wg.Add(1)
		go func(i int, specPath string) {
			defer wg.Done()
			sem <- struct{}{}
			defer func() { <-sem }()
			ctx, cancel := context.WithTimeout(context.Background(), limit)
			defer cancel()
			cmd := exec.CommandContext(ctx, os.Args[0], "-test.run=^TestVerif_C05_Child$", "-test.count=1", "-test.timeout=30m")
			cmd.Env = append(os.Environ(), vc05ChildEnv+"="+specPath)
			out, err := cmd.CombinedOutput()
			outputs[i] = string(out)
			if err != nil {
				outputs[i] += "\n" + err.Error()
			}
			if ctx.Err() != nil {
				hung[i] = true
			}
			b, err := os.ReadFile(strings.TrimSuffix(specPath, ".spec.json") + ".res.json")
			if err != nil {
				return
			}
			var r vc05Result
			if json.Unmarshal(b, &r) == nil {
				results[i] = &r
			}
		}(i, specPath)
	}
	wg.Wait()
	for i, spec := range specs {
		base := filepath.Join(dir, spec.Name)
		if results[i] == nil {
			o := outputs[i]
			if len(o) > 2000 {
				o = o[len(o)-2000:]
			}
			if strings.Contains(o, "VERIF-HARNESS-BUG") {
				t.Fatalf("VERIF-HARNESS-BUG in child %s: %s", spec.Name, o)
			}
			if hung[i] {
				rep.Fail("hang", fmt.Sprintf("the process running one Writer/Reader did not finish within %v (killed)", limit), map[string]interface{}{"spec": spec.Name, "seed": seed, "signatures": len(spec.Sigs)})
				continue
			}
			rep.Fail("child-crash", "the process running one Writer died without a result: "+o, map[string]interface{}{"spec": spec.Name, "seed": seed})
			continue
		}
		if err := vc05Absorb(rep, cases, spec, results[i], base+".idx"); err != nil {
			t.Fatalf("%v", err)
		}
		// keep the scratch directory small
		for _, ext := range []string{".idx", ".sigs", ".probes"} {
			_ = os.Remove(base + ext)
		}
	}
	vc05HashCases(rng, cases, 12)
	rep.Flag("child_processes", len(specs))
	rep.Note("format v2: %d writer runs, each in its own child process; %d of them also evaluated by the Coq model", len(specs), cases.Len()-12)
	if err := cases.Write(); err != nil {
		t.Fatalf("setup failed: %v", err)
	}
	rep.CasesWritten(cases)
	if err := rep.Write(); err != nil {
		t.Fatalf("setup failed: %v", err)
	}
	fmt.Printf("C05 current: runs=%d evaluations=%d failures=%d\n", len(specs), rep.Evaluations, len(rep.Failures))
}
