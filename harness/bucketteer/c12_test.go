package bucketteer

// Verification harness for C12 (injected with `go test -overlay`; not part of the repository).
// Mutated sig-exists (bucketteer) files through NewReader / Reader.Has under the c12h watchdog.
// Seeds: one file sealed by the real Writer (its header always lists all 65 536 prefixes: 655 KB) for the oracle, and
// small files with the same layout but a handful of prefixes, assembled here byte by byte (the reader accepts any
// prefix count), for the bulk of the mutations and for the Coq cases.
// Oracle: no panic, allocation <= 8*len + 2 MiB (1 MiB first read chunk + the 512 KiB prefix table), no hang.
// Correspondence: outcome class of NewReader = YF.C12_Parsers.bkt_open under the measured guard flag.

import (
	"bytes"
	"encoding/binary"
	"fmt"
	"os"
	"path/filepath"
	"testing"

	"github.com/rpcpool/yellowstone-faithful/indexmeta"
	"github.com/rpcpool/yellowstone-faithful/zzverif/c12h"
	"github.com/rpcpool/yellowstone-faithful/zzverif/vh"
)

func vc12Small(rng *vh.Rng, nprefix int, meta indexmeta.Meta) ([]byte, [][]byte) {
	var sigs [][]byte
	var content bytes.Buffer
	var table bytes.Buffer
	for i := 0; i < nprefix; i++ {
		sig := rng.Bytes(64)
		sig[0], sig[1] = byte(i*37), byte(i)
		var s64 [64]byte
		copy(s64[:], sig)
		table.Write(sig[:2])
		_ = binary.Write(&table, binary.LittleEndian, uint64(content.Len()))
		_ = binary.Write(&content, binary.LittleEndian, uint32(1))
		_ = binary.Write(&content, binary.LittleEndian, Hash(s64))
		sigs = append(sigs, sig)
	}
	var hdr bytes.Buffer
	hdr.Write(_Magic[:])
	_ = binary.Write(&hdr, binary.LittleEndian, Version)
	hdr.Write(meta.Bytes())
	_ = binary.Write(&hdr, binary.LittleEndian, uint64(nprefix))
	hdr.Write(table.Bytes())
	var out bytes.Buffer
	_ = binary.Write(&out, binary.LittleEndian, uint32(hdr.Len()))
	out.Write(hdr.Bytes())
	out.Write(content.Bytes())
	return out.Bytes(), sigs
}

func vc12Seeds(dir string, rng *vh.Rng) ([]c12h.Seed, error) {
	var seeds []c12h.Seed
	var meta indexmeta.Meta
	_ = meta.AddUint64(indexmeta.MetadataKey_Epoch, 9)
	_ = meta.AddString([]byte("note"), "x")
	for i, n := range []int{3, 1, 0, 12} {
		m := meta
		if i == 1 {
			m = indexmeta.Meta{}
		}
		data, sigs := vc12Small(rng, n, m)
		sigs = append(sigs, rng.Bytes(64))
		seeds = append(seeds, c12h.Seed{Name: fmt.Sprintf("small%d", n), Data: data, Keys: sigs})
	}
	// the real writer
	path := filepath.Join(dir, "real.index")
	w, err := NewWriter(path)
	if err != nil {
		return seeds, err
	}
	var sigs [][]byte
	for i := 0; i < 40; i++ {
		var s [64]byte
		copy(s[:], rng.Bytes(64))
		if i%4 == 0 && i > 0 {
			copy(s[:2], sigs[0][:2]) // several hashes in one bucket
		}
		w.Put(s)
		sigs = append(sigs, append([]byte(nil), s[:]...))
	}
	if _, err := w.Seal(meta); err != nil {
		return seeds, err
	}
	if err := w.Close(); err != nil {
		return seeds, err
	}
	data, err := os.ReadFile(path)
	if err != nil {
		return seeds, err
	}
	sigs = append(sigs[:6], rng.Bytes(64))
	seeds = append(seeds, c12h.Seed{Name: "real", Data: data, Keys: sigs})
	seeds = c12h.KeepSeeds(seeds, func(i int, s *c12h.Seed) error {
		in := c12h.Input{Entry: "has", Data: s.Data, Keys: s.Keys, Aux: []uint64{0}}
		if o := vc12Exec(&in); o.Class != "ok" || (len(s.Keys) > 1 && o.Fine != "present") {
			return fmt.Errorf("does not open and answer (%s %s)", o.Class, o.Fine)
		}
		return nil
	})
	return seeds, nil
}

func vc12Fields(d []byte) (fields []c12h.Field, bounds []int) {
	hs := int(binary.LittleEndian.Uint32(d[:4]))
	fields = append(fields, c12h.Field{Name: "headersize", Off: 0, Len: 4}, c12h.Field{Name: "version", Off: 12, Len: 8}, c12h.Field{Name: "meta.count", Off: 20, Len: 1})
	bounds = append(bounds, 4, 12, 20, 21, 4+hs)
	p := 21
	for i := 0; i < int(d[20]); i++ {
		fields = append(fields, c12h.Field{Name: "meta.keylen", Off: p, Len: 1})
		p += 1 + int(d[p])
		fields = append(fields, c12h.Field{Name: "meta.vallen", Off: p, Len: 1})
		p += 1 + int(d[p])
	}
	fields = append(fields, c12h.Field{Name: "numprefixes", Off: p, Len: 8})
	bounds = append(bounds, p, p+8)
	np := int(binary.LittleEndian.Uint64(d[p : p+8]))
	for i := 0; i < np && i < 3; i++ {
		fields = append(fields, c12h.Field{Name: "prefix.offset", Off: p + 8 + 10*i + 2, Len: 8})
		bounds = append(bounds, p+8+10*i)
	}
	if 4+hs+4 <= len(d) {
		fields = append(fields, c12h.Field{Name: "bucket.numhashes", Off: 4 + hs, Len: 4})
	}
	return
}

func vc12Gen(seeds []c12h.Seed, rng *vh.Rng, thorough bool) []c12h.Input {
	var ins []c12h.Input
	nrand := 1500
	if thorough {
		nrand = 20000
	}
	for si := range seeds {
		s := &seeds[si]
		fields, bounds := vc12Fields(s.Data)
		if s.Name == "real" { // 655 KB per input: a few directed mutations only
			ins = append(ins, c12h.Input{Entry: "has", Label: "valid", Data: s.Data, Keys: s.Keys, Aux: []uint64{0}})
			ins = append(ins, c12h.Input{Entry: "has", Label: "valid", Data: s.Data, Keys: s.Keys, Aux: []uint64{uint64(len(s.Keys) - 1)}})
			for fi, f := range fields {
				if fi == 0 {
					continue // the header size field of the real file: three values below
				}
				for k, v := range c12h.FieldValues(c12h.GetLE(s.Data, f.Off, f.Len), f.Len, len(s.Data)) {
					if k%4 != 0 {
						continue
					}
					d := append([]byte(nil), s.Data...)
					for i := 0; i < f.Len; i++ {
						d[f.Off+i] = byte(v >> (8 * uint(i)))
					}
					ins = append(ins, c12h.Input{Entry: "has", Label: "field:" + f.Name, Data: d, Keys: s.Keys, Aux: []uint64{0}})
				}
			}
			for _, v := range []uint32{0, uint32(len(s.Data)), 1 << 26} {
				d := append([]byte(nil), s.Data...)
				binary.LittleEndian.PutUint32(d[:4], v)
				ins = append(ins, c12h.Input{Entry: "open", Label: "field:headersize", Data: d})
			}
			ins = append(ins, c12h.Truncations("open", s, bounds[:5], nil, nil)...)
			continue
		}
		ins = append(ins, c12h.Input{Entry: "open", Label: "valid", Data: s.Data})
		ins = append(ins, c12h.MutateFields("open", s, fields, nil, nil)...)
		ins = append(ins, c12h.Truncations("open", s, bounds, nil, nil)...)
		for n := 0; n < len(s.Data); n += 3 {
			ins = append(ins, c12h.Input{Entry: "open", Label: "truncate", Data: append([]byte(nil), s.Data[:n]...)})
		}
		for ki := range s.Keys {
			if ki > 1 && ki < len(s.Keys)-1 {
				continue
			}
			aux := []uint64{uint64(ki)}
			ins = append(ins, c12h.Input{Entry: "has", Label: "valid", Data: s.Data, Keys: s.Keys, Aux: aux})
			ins = append(ins, c12h.MutateFields("has", s, fields[1:], s.Keys, aux)...) // the header size field: through "open"
		}
		ins = append(ins, c12h.RandomMutations("open", s, rng, nrand, 0, nil, nil)...)
		ins = append(ins, c12h.RandomMutations("has", s, rng, nrand, 0, s.Keys, []uint64{0})...)
	}
	ins = append(ins, c12h.Junk("open", rng, 200, append([]byte{30, 0, 0, 0}, _Magic[:]...))...)
	return ins
}

func vc12Exec(in *c12h.Input) c12h.Obs {
	r, err := NewReader(bytes.NewReader(in.Data))
	if err != nil {
		return c12h.Obs{Class: "error", Fine: "open-error"}
	}
	_ = r.Meta()
	if in.Entry == "open" {
		return c12h.Obs{Class: "ok"}
	}
	var sig [64]byte
	copy(sig[:], in.Keys[in.Aux[0]])
	has, err := r.Has(sig)
	if err != nil {
		return c12h.Obs{Class: "error", Fine: "has-error"}
	}
	if has {
		return c12h.Obs{Class: "ok", Fine: "present"}
	}
	return c12h.Obs{Class: "ok", Fine: "absent"}
}

func vc12CoqCase(in *c12h.Input, r *c12h.Result) (string, bool) {
	cls, ok := c12h.ClassN(r.Class)
	if !ok || len(in.Data) > 500 || in.Entry != "open" {
		return "", false
	}
	return fmt.Sprintf("CBkt %s %s", vh.CoqBytes(in.Data), vh.CoqN(cls)), true
}

func TestVerif_C12(t *testing.T) {
	c12h.Run(t, &c12h.Part{
		Name:  "bucketteer",
		Rule:  "bucketteer.NewReader / Reader.Has on mutated sig-exists files: no panic, allocation <= 8*len + 2 MiB, no hang; class of NewReader = Coq model",
		Seeds: vc12Seeds, Gen: vc12Gen, Exec: vc12Exec,
		Budget: func(in *c12h.Input) uint64 { return uint64(8*len(in.Data)) + 2<<20 },
		Witnesses: func(seeds []c12h.Seed) map[string]c12h.Input {
			d := append([]byte(nil), seeds[0].Data...)
			binary.LittleEndian.PutUint32(d[:4], 1<<28)
			return map[string]c12h.Input{"g_bkt_incr": {Entry: "open", Label: "witness", Data: d}}
		},
		CoqImports: []string{"YF.C12_Check"}, CoqType: "bkt_case",
		CoqChecker: func(f map[string]bool) string { return "(check_bkt " + vh.CoqBool(f["g_bkt_incr"]) + ")" },
		CoqCase:    vc12CoqCase, MaxCoq: 500,
	})
}
