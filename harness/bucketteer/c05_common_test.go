package bucketteer

// Verification harness for C05, part shared by the current format (package bucketteer) and the legacy
// format (package deprecated/bucketteer): this one file is injected into BOTH packages with
// `go test -overlay` (both have the package clause `bucketteer` and the same reader API);
// nothing here is part of the repository.
//
// What it does: builds signature multisets (duplicates, chosen bucket populations, empty prefixes,
// edge prefixes, crowded prefixes - 16 000, 16 001, ~16 040 and more than 32 000 signatures - next to
// populated neighbour prefixes filled before / while / after the crowded one), runs the real Writer (Put / Has / Seal) and the real Reader (Open = mmap, and
// NewReader over an *os.File and over a bytes.Reader), evaluates the property oracle on what they
// answered, and prints small runs as Coq terms for YF.C05_Check.check (file bytes included).

import (
	"bytes"
	"encoding/binary"
	"encoding/hex"
	"encoding/json"
	"fmt"
	"math/big"
	"os"
	"path/filepath"
	"sort"
	"strconv"
	"strings"

	"github.com/rpcpool/yellowstone-faithful/zzverif/vh"
)

// vc05W is the writer surface the property talks about; the two packages differ only in the
// metadata type handed to Seal, so each package wraps its Writer (c05_test.go / c05dep_test.go).
type vc05W interface {
	Put(sig [64]byte)
	Has(sig [64]byte) bool
	SealMeta(meta [][2][]byte) (int64, error)
	Close() error
}

type vc05Spec struct {
	Name   string      `json:"name"`
	Kind   string      `json:"kind"`
	Meta   [][2][]byte `json:"meta"`
	Coq    bool        `json:"coq"`    // also written as a Coq case (small runs only)
	MetaOK bool        `json:"metaOK"` // false: the metadata is one the format refuses; Seal must fail
	Sigs   [][64]byte  `json:"-"`
	Probes [][64]byte  `json:"-"`
}

type vc05Fail struct {
	Sig    string `json:"sig"`
	Detail string `json:"detail"`
	Input  string `json:"input"`
}

type vc05Result struct {
	Panic      string     `json:"panic"`
	SetupErr   string     `json:"setupErr"`
	SealErr    string     `json:"sealErr"`
	Sealed     bool       `json:"sealed"`
	SealSize   int64      `json:"sealSize"`
	FileLen    int64      `json:"fileLen"`
	WriterHas  []bool     `json:"writerHas"` // per probe, before Seal
	Mmap       []int      `json:"mmap"`      // per probe: 1 true, 0 false, -1 error
	Rdr        []int      `json:"rdr"`       // per probe, NewReader(*os.File)
	Checks     int        `json:"checks"`    // membership questions asked
	Fails      []vc05Fail `json:"fails"`
	Pops       []int      `json:"pops"` // distinct bucket populations seen (after dedupe), sorted
	NonEmpty   int        `json:"nonEmpty"`
	Duplicates int        `json:"duplicates"`
}

func (r *vc05Result) fail(sig, detail, input string) {
	n := 0
	for _, f := range r.Fails {
		if f.Sig == sig {
			n++
		}
	}
	if n < 3 {
		r.Fails = append(r.Fails, vc05Fail{sig, detail, input})
	}
}

func vc05Prefix(sig [64]byte) uint16 { return binary.LittleEndian.Uint16(sig[:2]) }

type vc05Key struct {
	p uint16
	h uint64
}

// vc05Exercise runs the real code on one spec and evaluates the property on its answers.
func vc05Exercise(spec *vc05Spec, path string) (res *vc05Result) {
	res = &vc05Result{}
	defer func() {
		if e := recover(); e != nil {
			res.Panic = fmt.Sprint(e)
		}
	}()
	ver := vc05Version()
	in := func(sig [64]byte) string {
		return fmt.Sprintf("format v%d spec=%s sigs=%d sig=%s prefix=%d", ver, spec.Name, len(spec.Sigs), hex.EncodeToString(sig[:]), vc05Prefix(sig))
	}
	added := make(map[vc05Key]bool, len(spec.Sigs))
	addedSig := make(map[[64]byte]bool, len(spec.Sigs))
	perPrefix := map[uint16]map[uint64]bool{}
	for _, s := range spec.Sigs {
		if addedSig[s] {
			res.Duplicates++
		}
		addedSig[s] = true
		k := vc05Key{vc05Prefix(s), Hash(s)}
		added[k] = true
		if perPrefix[k.p] == nil {
			perPrefix[k.p] = map[uint64]bool{}
		}
		perPrefix[k.p][k.h] = true
	}
	popSet := map[int]bool{}
	for _, m := range perPrefix {
		popSet[len(m)] = true
	}
	for p := range popSet {
		res.Pops = append(res.Pops, p)
	}
	sort.Ints(res.Pops)
	res.NonEmpty = len(perPrefix)

	_ = os.Remove(path)
	w, err := vc05MakeWriter(path)
	if err != nil {
		res.SetupErr = "NewWriter: " + err.Error()
		return res
	}
	for _, s := range spec.Sigs {
		w.Put(s)
	}
	// the writer's in-memory membership test
	for _, s := range spec.Sigs {
		res.Checks++
		if !w.Has(s) {
			res.fail("writer-false-negative", "Writer.Has is false for a signature that was Put", in(s))
		}
	}
	res.WriterHas = make([]bool, len(spec.Probes))
	for i, s := range spec.Probes {
		res.Checks++
		res.WriterHas[i] = w.Has(s)
		if res.WriterHas[i] && !added[vc05Key{vc05Prefix(s), Hash(s)}] {
			res.fail("writer-false-positive", "Writer.Has is true although no added signature has this prefix and hash", in(s))
		}
		if !res.WriterHas[i] && added[vc05Key{vc05Prefix(s), Hash(s)}] {
			res.fail("writer-false-negative", "Writer.Has is false for a signature that was Put", in(s))
		}
	}
	size, err := w.SealMeta(spec.Meta)
	cerr := w.Close()
	if err != nil {
		res.SealErr = err.Error()
		if spec.MetaOK {
			res.fail("seal-error", "Seal failed on a valid input: "+err.Error(), "format v"+strconv.Itoa(ver)+" spec="+spec.Name)
		}
		return res
	}
	if cerr != nil {
		res.SealErr = "close: " + cerr.Error()
		res.fail("seal-error", "Close after Seal failed: "+cerr.Error(), "format v"+strconv.Itoa(ver)+" spec="+spec.Name)
		return res
	}
	res.Sealed = true
	res.SealSize = size
	if !spec.MetaOK {
		res.fail("seal-accepted-bad-meta", "Seal accepted metadata the format cannot represent", "format v"+strconv.Itoa(ver)+" spec="+spec.Name)
	}
	// after Seal the writer must still know its signatures (Seal sorts the slices in place)
	for _, s := range spec.Sigs {
		res.Checks++
		if !w.Has(s) {
			res.fail("writer-false-negative", "Writer.Has is false after Seal for a signature that was Put", in(s))
		}
	}
	fileBytes, err := os.ReadFile(path)
	if err != nil {
		res.SetupErr = "read back: " + err.Error()
		return res
	}
	res.FileLen = int64(len(fileBytes))

	type rd struct {
		name string
		r    *Reader
	}
	var readers []rd
	if r, err := Open(path); err != nil {
		res.fail("open-error", "Open (mmap) failed on the sealed file: "+err.Error(), "format v"+strconv.Itoa(ver)+" spec="+spec.Name)
	} else {
		readers = append(readers, rd{"mmap", r})
		defer r.Close()
	}
	osf, err := os.Open(path)
	if err == nil {
		defer osf.Close()
		if r, err := NewReader(osf); err != nil {
			res.fail("open-error", "NewReader(*os.File) failed on the sealed file: "+err.Error(), "format v"+strconv.Itoa(ver)+" spec="+spec.Name)
		} else {
			readers = append(readers, rd{"osfile", r})
		}
	}
	if r, err := NewReader(bytes.NewReader(fileBytes)); err != nil {
		res.fail("open-error", "NewReader(bytes.Reader) failed on the sealed file: "+err.Error(), "format v"+strconv.Itoa(ver)+" spec="+spec.Name)
	} else {
		readers = append(readers, rd{"bytes", r})
	}
	// every added signature is reported present by the sealed file
	for _, x := range readers {
		for _, s := range spec.Sigs {
			res.Checks++
			has, err := x.r.Has(s)
			if err != nil {
				res.fail("reader-error", "Reader.Has ("+x.name+") returned an error for an added signature: "+err.Error(), in(s))
			} else if !has {
				res.fail("false-negative", fmt.Sprintf("added signature not reported present by the sealed file (reader %s; its bucket holds %d distinct hashes)", x.name, len(perPrefix[vc05Prefix(s)])), in(s))
			}
		}
	}
	// probes (present and absent): positives only on equal prefix+hash, and agreement with the writer
	obs := make([][]int, len(readers))
	for ri, x := range readers {
		obs[ri] = make([]int, len(spec.Probes))
		for i, s := range spec.Probes {
			res.Checks++
			has, err := x.r.Has(s)
			switch {
			case err != nil:
				obs[ri][i] = -1
				res.fail("reader-error", "Reader.Has ("+x.name+") returned an error: "+err.Error(), in(s))
			case has:
				obs[ri][i] = 1
				if !added[vc05Key{vc05Prefix(s), Hash(s)}] {
					res.fail("false-positive", "reported present although no added signature has this prefix and 64-bit hash (reader "+x.name+")", in(s))
				}
			}
			if err == nil && has != res.WriterHas[i] {
				res.fail("writer-reader-disagree", fmt.Sprintf("Writer.Has=%v but sealed file says %v (reader %s)", res.WriterHas[i], has, x.name), in(s))
			}
			if ri > 0 && obs[ri][i] != obs[0][i] {
				res.fail("readers-disagree", fmt.Sprintf("reader %s answers %d, reader %s answers %d", readers[0].name, obs[0][i], x.name, obs[ri][i]), in(s))
			}
		}
	}
	for ri, x := range readers {
		if x.name == "mmap" {
			res.Mmap = obs[ri]
		}
		if x.name == "osfile" {
			res.Rdr = obs[ri]
		}
	}
	return res
}

// ---------- transport of specs between the parent and a child process ----------

func vc05WriteSpec(dir string, spec *vc05Spec) (string, error) {
	base := filepath.Join(dir, spec.Name)
	raw := func(xs [][64]byte) []byte {
		b := make([]byte, 0, 64*len(xs))
		for i := range xs {
			b = append(b, xs[i][:]...)
		}
		return b
	}
	if err := os.WriteFile(base+".sigs", raw(spec.Sigs), 0o644); err != nil {
		return "", err
	}
	if err := os.WriteFile(base+".probes", raw(spec.Probes), 0o644); err != nil {
		return "", err
	}
	js, _ := json.Marshal(spec)
	if err := os.WriteFile(base+".spec.json", js, 0o644); err != nil {
		return "", err
	}
	return base + ".spec.json", nil
}

func vc05ReadSpec(specPath string) (*vc05Spec, error) {
	js, err := os.ReadFile(specPath)
	if err != nil {
		return nil, err
	}
	var spec vc05Spec
	if err := json.Unmarshal(js, &spec); err != nil {
		return nil, err
	}
	base := strings.TrimSuffix(specPath, ".spec.json")
	load := func(p string) ([][64]byte, error) {
		b, err := os.ReadFile(p)
		if err != nil {
			return nil, err
		}
		out := make([][64]byte, len(b)/64)
		for i := range out {
			copy(out[i][:], b[64*i:])
		}
		return out, nil
	}
	if spec.Sigs, err = load(base + ".sigs"); err != nil {
		return nil, err
	}
	if spec.Probes, err = load(base + ".probes"); err != nil {
		return nil, err
	}
	return &spec, nil
}

// ---------- generators ----------

// vc05SigFromTag: two prefix bytes, then the first 62 bytes of eight little-endian words expanded from a
// 64-bit tag (C05_Check.sg expands the same way, which keeps the Coq case files short; bucketteer only
// looks at the prefix and at the hash of the whole signature).
func vc05SigFromTag(prefix uint16, t uint64) [64]byte {
	var buf, s [64]byte
	x := t
	for i := 0; i < 8; i++ {
		binary.LittleEndian.PutUint64(buf[8*i:], x)
		x = x*6364136223846793005 + 1442695040888963407
	}
	binary.LittleEndian.PutUint16(s[:2], prefix)
	copy(s[2:], buf[:62])
	return s
}

func vc05Sig(rng *vh.Rng, prefix uint16) [64]byte { return vc05SigFromTag(prefix, rng.U64()) }

// vc05SigRandom: 62 independent random bytes (bulk runs).
func vc05SigRandom(rng *vh.Rng, prefix uint16) [64]byte {
	var s [64]byte
	copy(s[:], rng.Bytes(64))
	binary.LittleEndian.PutUint16(s[:2], prefix)
	return s
}

func vc05Swap(p uint16) uint16 { return p<<8 | p>>8 }

// vc05PopSpec: chosen prefixes with chosen populations, duplicates, shuffled; probes = some added,
// absent ones with the same prefix, the byte-swapped prefix, and random ones.
func vc05PopSpec(rng *vh.Rng, name, kind string, prefixes []uint16, pops []int, dupPct int, maxPresentProbes int) *vc05Spec {
	spec := &vc05Spec{Name: name, Kind: kind, MetaOK: true}
	var distinct [][64]byte
	for i, p := range prefixes {
		for j := 0; j < pops[i]; j++ {
			distinct = append(distinct, vc05Sig(rng, p))
		}
	}
	all := append([][64]byte(nil), distinct...)
	for _, s := range distinct {
		if rng.Intn(100) < dupPct {
			all = append(all, s)
			if rng.Intn(3) == 0 {
				all = append(all, s)
			}
		}
	}
	perm := rng.Perm(len(all))
	spec.Sigs = make([][64]byte, len(all))
	for i, j := range perm {
		spec.Sigs[i] = all[j]
	}
	// probes
	if len(distinct) <= maxPresentProbes {
		spec.Probes = append(spec.Probes, distinct...)
	} else {
		for i := 0; i < maxPresentProbes; i++ {
			spec.Probes = append(spec.Probes, distinct[rng.Intn(len(distinct))])
		}
	}
	for pi, p := range prefixes {
		spec.Probes = append(spec.Probes, vc05Sig(rng, p))
		if pi < 3 || pi%4 == 0 {
			spec.Probes = append(spec.Probes, vc05Sig(rng, p))
			spec.Probes = append(spec.Probes, vc05Sig(rng, vc05Swap(p)))
			// same body as an added signature, neighbouring prefix
			if len(distinct) > 0 {
				s := distinct[rng.Intn(len(distinct))]
				binary.LittleEndian.PutUint16(s[:2], p+1)
				spec.Probes = append(spec.Probes, s)
			}
		}
	}
	for i := 0; i < 3; i++ {
		spec.Probes = append(spec.Probes, vc05Sig(rng, uint16(rng.U64())))
	}
	return spec
}

func vc05DistinctPrefixes(rng *vh.Rng, n int, must ...uint16) []uint16 {
	seen := map[uint16]bool{}
	var out []uint16
	for _, p := range must {
		if !seen[p] {
			seen[p] = true
			out = append(out, p)
		}
	}
	for len(out) < n {
		p := uint16(rng.U64())
		if !seen[p] {
			seen[p] = true
			out = append(out, p)
		}
	}
	return out
}

// ---------- crowded buckets with populated neighbours ----------

// vc05Prealloc is the initial room the current writer gives every bucket (bucketteer/write.go,
// newPrefixToHashes: capacity 16 000); a real epoch puts about 15 000 hashes into each bucket, so
// populations around and beyond this number are the ordinary case. The crowded runs put 16 000,
// 16 001, ~16 040 and many more signatures under one prefix while the prefixes NEXT to it (p-2 .. p+2
// as little-endian uint16 = neighbours in the current format's table, and the neighbours in byte order =
// neighbours in the legacy format's sorted table) hold signatures too, some put before the crowded
// prefix is filled, some while it is filled and some afterwards. (If the constant of the writer changes
// these are still valid multisets; the oracle does not depend on it.)
const vc05Prealloc = 16000

type vc05Neighbour struct {
	Off  int    // prefix = crowded prefix + Off (uint16 arithmetic); ignored when Bytewise
	N    int    // distinct signatures
	When string // "before", "during", "after" (relative to the Puts of the crowded prefix), "split" (half before, half after)
	// Bytewise: the prefix that follows (Off > 0) / precedes (Off < 0) the crowded one when prefixes are ordered as byte strings
	Bytewise bool
}

type vc05Crowd struct {
	P          uint16
	N          int // distinct signatures put under P
	Dups       int // of those, how many are put a second time (at the very end)
	Neighbours []vc05Neighbour
}

func (c vc05Crowd) neighbourPrefix(nb vc05Neighbour) uint16 {
	if nb.Bytewise {
		return vc05Swap(uint16(int(vc05Swap(c.P)) + nb.Off))
	}
	return uint16(int(c.P) + nb.Off)
}

// vc05CrowdPrefixes picks n crowded prefixes whose neighbourhoods (p-3..p+3 numerically and bytewise) do not overlap.
func vc05CrowdPrefixes(rng *vh.Rng, n int, must ...uint16) []uint16 {
	taken := map[uint16]bool{}
	hood := func(p uint16) []uint16 {
		var h []uint16
		for d := -3; d <= 3; d++ {
			h = append(h, uint16(int(p)+d), vc05Swap(uint16(int(vc05Swap(p))+d)))
		}
		return h
	}
	var out []uint16
	try := func(p uint16) bool {
		for _, q := range hood(p) {
			if taken[q] {
				return false
			}
		}
		for _, q := range hood(p) {
			taken[q] = true
		}
		out = append(out, p)
		return true
	}
	for _, p := range must {
		try(p)
	}
	for len(out) < n {
		try(uint16(rng.U64()))
	}
	return out
}

// vc05CrowdedSpec: the Put sequence is [neighbours "before"] [crowded prefixes and neighbours "during", merged at
// random] [neighbours "after"] [second Puts of some crowded signatures]. Probes: every neighbour signature, a sample
// of the crowded ones, absent signatures under every touched prefix and under the prefixes around them.
func vc05CrowdedSpec(rng *vh.Rng, name string, crowds []vc05Crowd) *vc05Spec {
	spec := &vc05Spec{Name: name, Kind: "crowded-buckets-with-neighbours", MetaOK: true}
	var before, during, after, dups, small [][64]byte
	touched := map[uint16]bool{}
	var touchedList []uint16
	touch := func(p uint16) {
		if !touched[p] {
			touched[p] = true
			touchedList = append(touchedList, p)
		}
	}
	for _, c := range crowds {
		touch(c.P)
		own := make([][64]byte, c.N)
		for i := range own {
			own[i] = vc05SigRandom(rng, c.P)
		}
		during = append(during, own...)
		for i := 0; i < c.Dups && i < len(own); i++ {
			dups = append(dups, own[rng.Intn(len(own))])
		}
		for i := 0; i < 60 && i < len(own); i++ {
			spec.Probes = append(spec.Probes, own[rng.Intn(len(own))])
		}
		for _, nb := range c.Neighbours {
			p := c.neighbourPrefix(nb)
			touch(p)
			for i := 0; i < nb.N; i++ {
				s := vc05Sig(rng, p)
				small = append(small, s)
				when := nb.When
				if when == "split" {
					when = "before"
					if i >= nb.N/2 {
						when = "after"
					}
				}
				switch when {
				case "before":
					before = append(before, s)
				case "after":
					after = append(after, s)
				default:
					during = append(during, s)
				}
			}
		}
	}
	shuffle := func(xs [][64]byte) [][64]byte {
		out := make([][64]byte, len(xs))
		for i, j := range rng.Perm(len(xs)) {
			out[i] = xs[j]
		}
		return out
	}
	for _, part := range [][][64]byte{before, during, after, dups} {
		spec.Sigs = append(spec.Sigs, shuffle(part)...)
	}
	spec.Probes = append(spec.Probes, small...)
	for _, p := range touchedList {
		spec.Probes = append(spec.Probes, vc05Sig(rng, p), vc05Sig(rng, p))
		for _, d := range []int{-1, 1} {
			if q := uint16(int(p) + d); !touched[q] {
				spec.Probes = append(spec.Probes, vc05Sig(rng, q))
			}
		}
		// the body of an added signature under the next prefix
		if len(small) > 0 {
			s := small[rng.Intn(len(small))]
			binary.LittleEndian.PutUint16(s[:2], p+1)
			spec.Probes = append(spec.Probes, s)
		}
	}
	for i := 0; i < 8; i++ {
		spec.Probes = append(spec.Probes, vc05Sig(rng, uint16(rng.U64())))
	}
	return spec
}

// vc05CrowdedSpecs: the crowded runs of one tier (two runs in the quick tier, so that they seal in parallel).
func vc05CrowdedSpecs(rng *vh.Rng, ver int, thorough bool) []*vc05Spec {
	name := func(i int) string { return fmt.Sprintf("v%d_crowded_%d", ver, i) }
	few := func() int { return 1 + rng.Intn(6) }
	var specs []*vc05Spec
	{
		ps := vc05CrowdPrefixes(rng, 3)
		s := vc05CrowdedSpec(rng, name(0), []vc05Crowd{
			// one more than the initial room; the next prefix was filled before, the previous one afterwards
			{P: ps[0], N: vc05Prealloc + 1, Neighbours: []vc05Neighbour{{Off: 1, N: 3, When: "before"}, {Off: -1, N: few(), When: "after"},
				{Off: 1, N: 2, When: "before", Bytewise: true}, {Off: -1, N: 2, When: "after", Bytewise: true}}},
			// a little more; the next prefix is filled afterwards, the previous one before
			{P: ps[1], N: vc05Prealloc + 30 + rng.Intn(20), Dups: 40, Neighbours: []vc05Neighbour{{Off: 1, N: 5, When: "after"}, {Off: -1, N: few(), When: "before"},
				{Off: 2, N: few(), When: "during"}, {Off: 1, N: 2, When: "after", Bytewise: true}, {Off: -1, N: 2, When: "before", Bytewise: true}}},
			// exactly the initial room
			{P: ps[2], N: vc05Prealloc, Neighbours: []vc05Neighbour{{Off: 1, N: few(), When: "split"}, {Off: -1, N: few(), When: "split"}}},
		})
		s.Meta, s.MetaOK = vc05Meta(rng, ver, 1)
		specs = append(specs, s)
	}
	{
		big := 2*vc05Prealloc + 500 + rng.Intn(1000)
		if thorough {
			big = 4*vc05Prealloc + 500 + rng.Intn(6000)
		}
		ps := vc05CrowdPrefixes(rng, 2)
		s := vc05CrowdedSpec(rng, name(1), []vc05Crowd{
			// far beyond the initial room, between populated prefixes on both sides (the second next one as well)
			{P: ps[0], N: big, Dups: 100, Neighbours: []vc05Neighbour{{Off: 1, N: 40 + rng.Intn(100), When: "split"}, {Off: 2, N: few(), When: "before"},
				{Off: 3, N: few(), When: "after"}, {Off: -1, N: 20 + rng.Intn(50), When: "split"}, {Off: -2, N: few(), When: "during"},
				{Off: 1, N: 3, When: "split", Bytewise: true}, {Off: -1, N: 3, When: "split", Bytewise: true}}},
			// two crowded prefixes side by side, small ones around them
			{P: ps[1], N: vc05Prealloc + 10, Neighbours: []vc05Neighbour{{Off: -1, N: few(), When: "before"}}},
			{P: ps[1] + 1, N: vc05Prealloc + 20, Neighbours: []vc05Neighbour{{Off: 1, N: few(), When: "before"}, {Off: 2, N: few(), When: "after"}}},
		})
		s.Meta, s.MetaOK = vc05Meta(rng, ver, 2)
		specs = append(specs, s)
	}
	if thorough {
		// the ends of the prefix space and of each 256-prefix row of the table
		s := vc05CrowdedSpec(rng, name(2), []vc05Crowd{
			{P: 0xFFFE, N: vc05Prealloc + 1 + rng.Intn(100), Neighbours: []vc05Neighbour{{Off: 1, N: few(), When: "before"}, {Off: -1, N: few(), When: "after"}}},
			{P: 0x0000, N: vc05Prealloc + 1 + rng.Intn(100), Neighbours: []vc05Neighbour{{Off: 1, N: few(), When: "after"}}},
			{P: 0x41FF, N: vc05Prealloc + 1 + rng.Intn(100), Neighbours: []vc05Neighbour{{Off: 1, N: few(), When: "before"}, {Off: -1, N: few(), When: "before"}}},
			{P: 0x8000, N: vc05Prealloc + 1 + rng.Intn(100), Neighbours: []vc05Neighbour{{Off: 1, N: few(), When: "after"}, {Off: -1, N: few(), When: "before"}}},
		})
		s.Meta, s.MetaOK = vc05Meta(rng, ver, 0)
		specs = append(specs, s)
	}
	return specs
}

func vc05Meta(rng *vh.Rng, ver int, shape int) ([][2][]byte, bool) {
	str := func(n int) []byte {
		b := make([]byte, n)
		for i := range b {
			b[i] = byte('a' + rng.Intn(26))
		}
		return b
	}
	switch shape {
	case 0:
		return nil, true
	case 1:
		return [][2][]byte{{[]byte("epoch"), []byte("123")}}, true
	case 2:
		return [][2][]byte{{[]byte("epoch"), str(8)}, {[]byte("network"), []byte("mainnet")}, {[]byte("root_cid"), str(36)}}, true
	case 3:
		return [][2][]byte{{[]byte{}, []byte{}}, {[]byte("k"), []byte{}}}, true
	case 4: // the longest strings the current format takes
		return [][2][]byte{{str(255), str(255)}, {str(1), str(254)}}, true
	case 5: // refused by the current format (key of 256 bytes); fine for the legacy one
		return [][2][]byte{{str(256), str(3)}}, ver == 1
	default: // 256 pairs: refused by the current format
		var m [][2][]byte
		for i := 0; i < 256; i++ {
			m = append(m, [2][]byte{[]byte(fmt.Sprintf("k%03d", i)), str(2)})
		}
		return m, ver == 1
	}
}

// vc05Specs: the runs of one tier. Coq runs are small; bulk runs are checked by the oracle only.
func vc05Specs(rng *vh.Rng, ver int, thorough bool, nCoq int) []*vc05Spec {
	var specs []*vc05Spec
	smallPops := []int{1, 2, 3, 4, 5, 6, 7, 8, 9, 15, 16, 17}
	name := func(k string, i int) string { return fmt.Sprintf("v%d_%s_%d", ver, k, i) }
	// --- small runs, also evaluated by the Coq model ---
	coq := 0
	addCoq := func(s *vc05Spec) {
		// runs whose Seal is refused cost the model nothing; the others count against the budget
		if !s.MetaOK {
			s.Coq = true
		} else if coq < nCoq {
			s.Coq = true
			coq++
		}
		specs = append(specs, s)
	}
	// edge prefixes: catches byte-order mix-ups and the ends of the prefix table
	{
		ps := []uint16{0x0000, 0xFFFF, 0x00FF, 0xFF00, 0x0100, 0x0001, 0x0102, 0x0201}
		pops := make([]int, len(ps))
		for i := range pops {
			pops[i] = 1 + rng.Intn(3)
		}
		nPresent := 12
		if ver == 2 {
			nPresent = 6 // reading a probe from the 900 KB file costs the model seconds
		}
		s := vc05PopSpec(rng, name("edge", 0), "edge-prefixes", ps, pops, 30, nPresent)
		s.Meta, s.MetaOK = vc05Meta(rng, ver, 1)
		addCoq(s)
	}
	// no signature at all; one signature; one signature three times
	{
		s := &vc05Spec{Name: name("empty", 0), Kind: "empty", MetaOK: true}
		for i := 0; i < 4; i++ {
			s.Probes = append(s.Probes, vc05Sig(rng, uint16(rng.U64())))
		}
		s.Probes = append(s.Probes, vc05Sig(rng, 0), vc05Sig(rng, 0xFFFF))
		cheap := ver == 1 || thorough
		if cheap {
			addCoq(s)
		} else {
			specs = append(specs, s)
		}
		one := vc05Sig(rng, uint16(rng.U64()))
		s1 := &vc05Spec{Name: name("single", 0), Kind: "single", MetaOK: true, Sigs: [][64]byte{one, one, one}}
		s1.Probes = [][64]byte{one, vc05Sig(rng, vc05Prefix(one)), vc05Sig(rng, vc05Swap(vc05Prefix(one))), vc05Sig(rng, 7)}
		s1.Meta, s1.MetaOK = vc05Meta(rng, ver, 2)
		if cheap {
			addCoq(s1)
		} else {
			specs = append(specs, s1)
		}
	}
	// metadata the current format refuses: Seal must fail (model: Err), for the legacy format it must work
	for i, shape := range []int{5, 6} {
		ps := vc05DistinctPrefixes(rng, 2)
		s := vc05PopSpec(rng, name("meta", i), "metadata-limits", ps, []int{2, 3}, 0, 5)
		s.Meta, s.MetaOK = vc05Meta(rng, ver, shape)
		addCoq(s)
	}
	nSmall := 10
	if thorough {
		nSmall = 30
	}
	for i := 0; i < nSmall; i++ {
		np := 2 + rng.Intn(3)
		ps := vc05DistinctPrefixes(rng, np)
		pops := make([]int, np)
		tot := 0
		for j := range pops {
			pops[j] = smallPops[rng.Intn(len(smallPops))]
			if tot+pops[j] > 40 {
				pops[j] = 1 + rng.Intn(3)
			}
			tot += pops[j]
		}
		nPresent := 14
		if ver == 2 {
			nPresent = 8
		}
		s := vc05PopSpec(rng, name("small", i), "small-populations", ps, pops, 25, nPresent)
		s.Meta, s.MetaOK = vc05Meta(rng, ver, i%5)
		addCoq(s)
	}
	// one middle-sized bucket for the model as well
	{
		k := 5
		if thorough {
			k = 6
		}
		ps := vc05DistinctPrefixes(rng, 3)
		s := vc05PopSpec(rng, name("mid", 0), "mid-populations", ps, []int{1<<k - 1, 1 << k, 1<<k + 1}, 10, 10)
		s.Meta, s.MetaOK = vc05Meta(rng, ver, 4)
		if thorough || ver == 1 {
			addCoq(s)
		} else {
			specs = append(specs, s)
		}
	}
	// --- bulk runs (oracle only) ---
	kmax := 11
	if thorough {
		kmax = 15
	}
	{
		var ps []uint16
		var pops []int
		base := vc05DistinctPrefixes(rng, 3*kmax+3, 0, 0xFFFF)
		bi := 0
		for _, n := range []int{1, 2, 3} {
			ps, pops = append(ps, base[bi]), append(pops, n)
			bi++
		}
		for k := 2; k <= kmax; k++ {
			for _, n := range []int{1<<k - 1, 1 << k, 1<<k + 1} {
				ps, pops = append(ps, base[bi]), append(pops, n)
				bi++
			}
		}
		s := vc05PopSpec(rng, name("pops", 0), "populations-2^k", ps, pops, 5, 3000)
		s.Meta, s.MetaOK = vc05Meta(rng, ver, 2)
		specs = append(specs, s)
	}
	{
		n := 20000
		if thorough {
			n = 200000
		}
		s := &vc05Spec{Name: name("random", 0), Kind: "random-prefixes", MetaOK: true}
		for i := 0; i < n; i++ {
			s.Sigs = append(s.Sigs, vc05SigRandom(rng, uint16(rng.U64())))
		}
		for i := 0; i < n/20; i++ {
			s.Sigs = append(s.Sigs, s.Sigs[rng.Intn(n)])
		}
		for i := 0; i < 2000; i++ {
			s.Probes = append(s.Probes, vc05SigRandom(rng, uint16(rng.U64())))
		}
		for i := 0; i < 500; i++ {
			x := s.Sigs[rng.Intn(n)]
			s.Probes = append(s.Probes, x)
			y := x
			y[2+rng.Intn(62)] ^= 1 << uint(rng.Intn(8))
			s.Probes = append(s.Probes, y)
			z := x
			binary.LittleEndian.PutUint16(z[:2], vc05Swap(vc05Prefix(x)))
			s.Probes = append(s.Probes, z)
		}
		s.Meta, s.MetaOK = vc05Meta(rng, ver, 1)
		specs = append(specs, s)
	}
	// every one of the 65 536 prefixes populated (the ends of every prefix table / counter), and all but one
	for i, missing := range []int{-1, 0xFFFF, int(rng.U64() % 65536)} {
		var ps []uint16
		var pops []int
		for p := 0; p < 65536; p++ {
			if p == missing {
				continue
			}
			ps = append(ps, uint16(p))
			n := 1
			if rng.Intn(50) == 0 {
				n = 2 + rng.Intn(3)
			}
			pops = append(pops, n)
		}
		s := vc05PopSpec(rng, name("allprefixes", i), "all-prefixes-populated", ps, pops, 2, 80000)
		if missing >= 0 {
			s.Kind = "all-prefixes-but-one"
			s.Probes = append(s.Probes, vc05Sig(rng, uint16(missing)), vc05Sig(rng, uint16(missing)))
		}
		s.Meta, s.MetaOK = vc05Meta(rng, ver, 1)
		specs = append(specs, s)
	}
	if thorough {
		ps := vc05DistinctPrefixes(rng, 16)
		pops := make([]int, 16)
		for i := range pops {
			pops[i] = 2000 + rng.Intn(3000)
		}
		s := vc05PopSpec(rng, name("skewed", 0), "skewed", ps, pops, 10, 3000)
		specs = append(specs, s)
	}
	// bucket populations at and beyond the writer's initial room, next to populated prefixes
	specs = append(specs, vc05CrowdedSpecs(rng, ver, thorough)...)
	return specs
}

// ---------- Coq printing ----------

func vc05CoqSig(s [64]byte) string {
	// compact form when the body is the expansion of its first word
	t := binary.LittleEndian.Uint64(s[2:10])
	if vc05SigFromTag(vc05Prefix(s), t) == s {
		return fmt.Sprintf("(sg %d %d %d)", s[0], s[1], t)
	}
	// general form: sgx p0 p1 t with t the little-endian number of the remaining 62 bytes
	rev := make([]byte, 62)
	for i := 0; i < 62; i++ {
		rev[i] = s[63-i]
	}
	return fmt.Sprintf("(sgx %d %d %s)", s[0], s[1], new(big.Int).SetBytes(rev).String())
}

func vc05CoqSigs(xs [][64]byte) string {
	items := make([]string, len(xs))
	for i := range xs {
		items[i] = vc05CoqSig(xs[i])
	}
	return vh.CoqList(items)
}

func vc05CoqMeta(m [][2][]byte) string {
	items := make([]string, len(m))
	for i, kv := range m {
		items[i] = "(" + vh.CoqBytes(kv[0]) + ", " + vh.CoqBytes(kv[1]) + ")"
	}
	if len(items) == 0 {
		return "([] : meta)"
	}
	return vh.CoqList(items)
}

func vc05Obs(o int) string {
	switch o {
	case 1:
		return "OTrue"
	case 0:
		return "OFalse"
	}
	return "OErr"
}

type vc05Seg struct {
	kind        int // 0 lit, 1 rep, 2 arith
	n           uint64
	bs          []byte
	p, dp, o, d uint64
}

// vc05Compress: a lossless segment encoding of the file bytes (the 65 536-entry table of the
// current format is far too long to hand to coqc byte by byte). The Coq side expands it again
// (C05_Check.expand); vc05Expand is the same expansion, used to check the encoding before use.
func vc05Compress(b []byte) []vc05Seg {
	var out []vc05Seg
	var lit []byte
	flush := func() {
		// literal runs are cut into pieces: coqc cannot parse one list literal of 100 000 elements
		for len(lit) > 0 {
			n := len(lit)
			if n > 2000 {
				n = 2000
			}
			out = append(out, vc05Seg{kind: 0, bs: append([]byte(nil), lit[:n]...)})
			lit = lit[n:]
		}
		lit = nil
	}
	rec := func(j int) (uint64, uint64) {
		return uint64(binary.LittleEndian.Uint16(b[j:])), binary.LittleEndian.Uint64(b[j+2:])
	}
	i := 0
outer:
	for i < len(b) {
		for _, pl := range []int{4, 8, 1} {
			if i+pl*4 <= len(b) {
				n := 1
				for i+pl*(n+1) <= len(b) && bytes.Equal(b[i:i+pl], b[i+pl*n:i+pl*(n+1)]) {
					n++
				}
				if n*pl >= 24 {
					flush()
					out = append(out, vc05Seg{kind: 1, n: uint64(n), bs: append([]byte(nil), b[i:i+pl]...)})
					i += pl * n
					continue outer
				}
			}
		}
		if i+40 <= len(b) {
			p0, o0 := rec(i)
			p1, o1 := rec(i + 10)
			// only plain tables (prefix strictly increasing by a constant, moderate offsets): a misaligned view of the table
			// is an arithmetic progression too, but of huge numbers that are slow to re-encode in Coq
			if p1 > p0 && o1 >= o0 && o1-o0 < 1<<32 && o0 < 1<<48 {
				dp, d := p1-p0, o1-o0
				n := 2
				pp, po := p1, o1
				for i+10*(n+1) <= len(b) {
					pn, on := rec(i + 10*n)
					if pn >= pp && on >= po && pn-pp == dp && on-po == d {
						n++
						pp, po = pn, on
					} else {
						break
					}
				}
				if n >= 4 {
					flush()
					out = append(out, vc05Seg{kind: 2, n: uint64(n), p: p0, dp: dp, o: o0, d: d})
					i += 10 * n
					continue outer
				}
			}
		}
		lit = append(lit, b[i])
		i++
	}
	flush()
	return out
}

func vc05Expand(segs []vc05Seg) []byte {
	var out []byte
	for _, s := range segs {
		switch s.kind {
		case 0:
			out = append(out, s.bs...)
		case 1:
			for i := uint64(0); i < s.n; i++ {
				out = append(out, s.bs...)
			}
		case 2:
			p, o := s.p, s.o
			for i := uint64(0); i < s.n; i++ {
				var r [10]byte
				binary.LittleEndian.PutUint16(r[:2], uint16(p))
				binary.LittleEndian.PutUint64(r[2:], o)
				out = append(out, r[:]...)
				p += s.dp
				o += s.d
			}
		}
	}
	return out
}

func vc05CoqSegs(segs []vc05Seg) string {
	items := make([]string, len(segs))
	for i, s := range segs {
		switch s.kind {
		case 0:
			items[i] = "Lit " + vh.CoqBytes(s.bs)
		case 1:
			items[i] = fmt.Sprintf("Rep %d %s", s.n, vh.CoqBytes(s.bs))
		case 2:
			items[i] = fmt.Sprintf("Arith %d %d %d %d %d", s.n, s.p, s.dp, s.o, s.d)
		}
	}
	return vh.CoqList(items)
}

// vc05CoqCase prints one run as a C05_Check.case. fileBytes is nil when Seal failed.
func vc05CoqCase(spec *vc05Spec, res *vc05Result, fileBytes []byte) (string, error) {
	ver := "V" + strconv.Itoa(vc05Version())
	segs := vc05Compress(fileBytes)
	if !bytes.Equal(vc05Expand(segs), fileBytes) {
		return "", fmt.Errorf("VERIF-HARNESS-BUG: segment encoding of %s does not expand to the file bytes", spec.Name)
	}
	litBytes := 0
	for _, sg := range segs {
		if sg.kind == 0 {
			litBytes += len(sg.bs)
		}
	}
	if litBytes > 60000 {
		return "", nil // too irregular to hand to coqc; the caller notes it
	}
	probes := make([]string, len(spec.Probes))
	for i, s := range spec.Probes {
		mm, rr := -1, -1
		if res.Sealed && i < len(res.Mmap) {
			mm = res.Mmap[i]
		}
		if res.Sealed && i < len(res.Rdr) {
			rr = res.Rdr[i]
		}
		probes[i] = fmt.Sprintf("(%s, (%s, (%s, %s)))", vc05CoqSig(s), vh.CoqBool(res.WriterHas[i]), vc05Obs(mm), vc05Obs(rr))
	}
	return fmt.Sprintf("CSeal %s %s %s %s %s %s", ver, vc05CoqMeta(spec.Meta), vc05CoqSigs(spec.Sigs),
		vh.CoqBool(res.Sealed), vc05CoqSegs(segs), vh.CoqList(probes)), nil
}

// vc05Absorb moves one run's outcome into the report (and the case file).
func vc05Absorb(rep *vh.Report, cases *vh.CasesFile, spec *vc05Spec, res *vc05Result, idxPath string) error {
	rep.Case(spec.Name, len(spec.Sigs) > 0)
	rep.Evaluations += res.Checks
	rep.Count("runs:" + spec.Kind)
	rep.CountN("signatures-added", len(spec.Sigs))
	rep.CountN("duplicate-adds", res.Duplicates)
	rep.CountN("non-empty-prefixes", res.NonEmpty)
	rep.CountN("probes", len(spec.Probes))
	for _, p := range res.Pops {
		b := "bucket-population:" + strconv.Itoa(p)
		if p > 17 && (p&(p-1)) != 0 && ((p+1)&p) != 0 && ((p-1)&(p-2)) != 0 {
			b = "bucket-population:other"
		}
		switch {
		case p == vc05Prealloc || p == vc05Prealloc+1:
			b = "bucket-population:" + strconv.Itoa(p)
		case p > vc05Prealloc+1 && p <= vc05Prealloc+100:
			b = fmt.Sprintf("bucket-population:%d..%d", vc05Prealloc+2, vc05Prealloc+100)
		case p > vc05Prealloc+100:
			b = fmt.Sprintf("bucket-population:more-than-%d", vc05Prealloc+100)
		}
		rep.Count(b)
	}
	if res.Panic != "" {
		rep.Fail("panic", "the bucketteer code panicked: "+res.Panic, map[string]interface{}{"spec": spec.Name, "format": vc05Version()})
	}
	if res.SetupErr != "" {
		rep.Fail("setup-error", res.SetupErr, map[string]interface{}{"spec": spec.Name, "format": vc05Version()})
	}
	for _, f := range res.Fails {
		rp := map[string]interface{}{"input": f.Input, "spec": spec.Name, "seed": vh.Seed(), "tier": vh.Tier()}
		if len(spec.Sigs) <= 64 {
			// small runs: the whole input, in Put order
			var all []string
			for _, s := range spec.Sigs {
				all = append(all, hex.EncodeToString(s[:]))
			}
			rp["added_signatures_in_put_order"] = all
			rp["metadata_pairs"] = len(spec.Meta)
		}
		rep.Fail(f.Sig, f.Detail, rp)
	}
	if res.Sealed && res.SealSize != res.FileLen {
		rep.Note("spec %s: Seal returned size %d but the file has %d bytes", spec.Name, res.SealSize, res.FileLen)
	}
	if spec.Coq && res.Panic == "" && res.SetupErr == "" && len(res.WriterHas) == len(spec.Probes) {
		var fileBytes []byte
		if res.Sealed {
			b, err := os.ReadFile(idxPath)
			if err != nil {
				return err
			}
			fileBytes = b
		}
		term, err := vc05CoqCase(spec, res, fileBytes)
		if err != nil {
			return err
		}
		if term == "" {
			rep.Count("coq-case-skipped:file-not-compressible")
			rep.Note("spec %s: the sealed file (%d bytes) has no compact segment encoding; not handed to the Coq model", spec.Name, res.FileLen)
			return nil
		}
		cases.Add(term)
		rep.Count("coq-cases:" + spec.Kind)
		rep.Sample(map[string]interface{}{"spec": spec.Name, "format": vc05Version(), "signatures": len(spec.Sigs),
			"populations": res.Pops, "file_bytes": res.FileLen, "probes": len(spec.Probes)})
	}
	return nil
}

// vc05HashCases: cespare/xxhash (through the package's Hash) against the Coq xxh64.
func vc05HashCases(rng *vh.Rng, cases *vh.CasesFile, n int) {
	for i := 0; i < n; i++ {
		s := vc05Sig(rng, uint16(rng.U64()))
		if i%4 == 3 {
			s = vc05SigRandom(rng, uint16(rng.U64()))
		}
		if i == 0 {
			s = [64]byte{}
		}
		if i == 1 {
			for j := range s {
				s[j] = 0xFF
			}
		}
		cases.Add(fmt.Sprintf("CHash %s %d", vc05CoqSig(s), Hash(s)))
	}
}
