package bucketteer

// Verification harness for C05, robustness part (injected with `go test -overlay` into BOTH package
// bucketteer and package deprecated/bucketteer, like c05_common_test.go; not part of the repository).
//
// The property quantifies over every multiset "with any distribution over the 65 536 prefixes" and over
// a sealed file "opened through mmap or any ReaderAt". Two things the main harness does not vary:
//
//  (a) the configuration the writer runs under. Every run here seals in its own child process with
//      GOMAXPROCS set to 1, 2, 3, 5, 6, 7, 12, 16 (environment variable AND runtime.GOMAXPROCS, before
//      NewWriter). The multisets populate the first prefixes, the last ones (ffff, feff, ...), their
//      byte-swapped twins, the prefixes around every k/n-th of the prefix space (where a split of the
//      table over n workers has its seams) and random ones, with 2..9 signatures each plus duplicates,
//      put in an order whose per-bucket hash sequence is NOT already a valid eytzinger layout
//      (descending / ascending / random; checked with an independent search over the raw order), so a
//      bucket that Seal forgets to sort, dedupe or lay out shows as a false negative.
//      The oracle is vc05Exercise of the main harness (writer Has, Seal, mmap / *os.File / bytes.Reader).
//
//  (b) the io.ReaderAt the file is read through. Opaque wrappers (no other method than ReadAt):
//      * a transient fault: for every k in the read trace of (NewReader + Has of present signatures) the
//        k-th ReadAt fails once (nothing or half of the bytes delivered, the rest of the buffer
//        scribbled, as the contract of io.ReaderAt allows). The call that met the fault may fail, it may
//        never answer (false, nil) for an added signature; the failed call is retried and afterwards
//        every added signature is asked again on the same Reader: all must be present;
//      * end of file reported together with the data: a read that ends exactly at the end of the file
//        returns (len(p), io.EOF), which io.ReaderAt explicitly allows.
//      Short reads without an error are NOT generated: the contract forbids them.
//      * concurrent lookups ("clients of ReadAt can execute parallel ReadAt calls on the same input source"): many
//        goroutines ask ONE Reader for all added signatures and the absent probes at the same time, several rounds,
//        with the reading process under GOMAXPROCS 1, 16, 3 and the default; the ReaderAt, after it has filled the
//        caller's buffer and before it returns, yields (runtime.Gosched), blocks on a channel handshake with a
//        helper goroutine, does both in turn, or returns at once (one behaviour per round). Every answer must be
//        the sequential one. This runs on a Reader that never met a read error and, after every fault injection
//        above (failed call retried), on the Reader that met the fault.
//
// Nothing here depends on timing (only the answers are judged); every random choice derives from the seed.

import (
	"context"
	"encoding/hex"
	"encoding/json"
	"errors"
	"fmt"
	"io"
	"os"
	"os/exec"
	"path/filepath"
	"runtime"
	"sort"
	"strconv"
	"strings"
	"sync"
	"sync/atomic"
	"testing"
	"time"

	"github.com/rpcpool/yellowstone-faithful/zzverif/vh"
)

const vc05rChildEnv = "VERIF_C05R_CHILD"

// vc05rExtra travels next to the vc05Spec files of a run.
type vc05rExtra struct {
	GoMaxProcs int    `json:"gomaxprocs"` // 0: leave the default
	Order      string `json:"order"`      // how the signatures of one bucket are ordered in the Put sequence
	Fault      bool   `json:"fault"`      // also run the ReaderAt wrappers on the sealed file
}

type vc05rFaultRes struct {
	Counts   map[string]int `json:"counts"`
	Checks   int            `json:"checks"`
	Fails    []vc05Fail     `json:"fails"`
	Observed []vc05Fail     `json:"observed"` // violations seen by a check that runs in observe mode (see vc05rEOFMode)
}

// vc05rEOFMode: "enforce" (default) reports a Reader that does not serve a ReaderAt returning (len(p), io.EOF)
// at the end of the file as a failure; "observe" (set by bin/propsd/C05.py while the pinned tree has that defect
// and neither a repair nor a known-findings entry exists) records it in the evidence as a note and a count only.
const vc05rEOFModeEnv = "VERIF_C05_EOF_FULL_READ"

func vc05rEOFMode() string {
	if os.Getenv(vc05rEOFModeEnv) == "observe" {
		return "observe"
	}
	return "enforce"
}

func (f *vc05rFaultRes) eofFail(detail, input string) {
	const sig = "eof-with-full-read-not-served"
	if vc05rEOFMode() == "enforce" {
		f.fail(sig, detail, input)
		return
	}
	f.Counts["observed-not-enforced:"+sig]++
	if len(f.Observed) < 2 {
		f.Observed = append(f.Observed, vc05Fail{sig, detail, input})
	}
}

func (f *vc05rFaultRes) fail(sig, detail, input string) {
	f.Counts["failure-observations:"+sig]++
	n := 0
	for _, x := range f.Fails {
		if x.Sig == sig {
			n++
		}
	}
	if n < 3 {
		f.Fails = append(f.Fails, vc05Fail{sig, detail, input})
	}
}

type vc05rResult struct {
	GoMaxProcs    int            `json:"gomaxprocs"` // runtime.GOMAXPROCS(0) observed in the child
	Base          *vc05Result    `json:"base"`
	Buckets       int            `json:"buckets"`
	NotLayout     int            `json:"notLayout"`     // buckets whose raw Put order is not a valid eytzinger layout
	LastNotLayout int            `json:"lastNotLayout"` // ... among the last 16 prefixes
	Fault         *vc05rFaultRes `json:"fault"`
	Panic         string         `json:"panic"`
}

// ---------- independent eytzinger search over a raw hash sequence ----------

// vc05rSearchable: would a reader that walks `raw` as an eytzinger tree find every element of it?
// (Written independently of the package's searchEytzinger.)
func vc05rSearchable(raw []uint64) bool {
	for _, x := range raw {
		i, found := 0, false
		for i < len(raw) {
			k := raw[i]
			if k == x {
				found = true
				break
			}
			if k < x {
				i = 2*i + 2
			} else {
				i = 2*i + 1
			}
		}
		if !found {
			return false
		}
	}
	return true
}

// ---------- generators ----------

// vc05rOrderBucket orders the signatures of one bucket; the result is never a valid eytzinger layout
// when the bucket holds two or more distinct hashes (ascending order never is).
func vc05rOrderBucket(rng *vh.Rng, sigs [][64]byte, order string, dupPct int) [][64]byte {
	out := append([][64]byte(nil), sigs...)
	asc := func() {
		sort.Slice(out, func(i, j int) bool { return Hash(out[i]) < Hash(out[j]) })
	}
	switch order {
	case "descending":
		sort.Slice(out, func(i, j int) bool { return Hash(out[i]) > Hash(out[j]) })
	case "ascending":
		asc()
	default:
		perm := rng.Perm(len(out))
		tmp := make([][64]byte, len(out))
		for i, j := range perm {
			tmp[i] = out[j]
		}
		out = tmp
	}
	hs := func() []uint64 {
		h := make([]uint64, len(out))
		for i := range out {
			h[i] = Hash(out[i])
		}
		return h
	}
	if len(out) >= 2 && vc05rSearchable(hs()) {
		asc() // e.g. two hashes in descending order ARE a layout
	}
	// duplicates: some right after the original, some at the end of the bucket's sequence
	var tail [][64]byte
	var withDups [][64]byte
	for _, s := range out {
		withDups = append(withDups, s)
		if rng.Intn(100) < dupPct {
			if rng.Bool() {
				withDups = append(withDups, s)
			} else {
				tail = append(tail, s)
			}
		}
	}
	return append(withDups, tail...)
}

// vc05rBuildSpec: per-bucket sequences merged at random (the order inside every bucket is kept).
func vc05rBuildSpec(rng *vh.Rng, name, kind string, prefixes []uint16, pops []int, order string, dupPct int) *vc05Spec {
	spec := &vc05Spec{Name: name, Kind: kind, MetaOK: true}
	seqs := make([][][64]byte, len(prefixes))
	total := 0
	var distinct [][64]byte
	for i, p := range prefixes {
		var b [][64]byte
		for j := 0; j < pops[i]; j++ {
			b = append(b, vc05Sig(rng, p))
		}
		distinct = append(distinct, b...)
		o := order
		if order == "monotone" { // descending and ascending buckets side by side
			o = "descending"
			if i%3 == 2 {
				o = "ascending"
			}
		}
		seqs[i] = vc05rOrderBucket(rng, b, o, dupPct)
		total += len(seqs[i])
	}
	// random merge
	live := make([]int, 0, len(seqs))
	for i := range seqs {
		if len(seqs[i]) > 0 {
			live = append(live, i)
		}
	}
	spec.Sigs = make([][64]byte, 0, total)
	for len(live) > 0 {
		li := rng.Intn(len(live))
		i := live[li]
		spec.Sigs = append(spec.Sigs, seqs[i][0])
		seqs[i] = seqs[i][1:]
		if len(seqs[i]) == 0 {
			live[li] = live[len(live)-1]
			live = live[:len(live)-1]
		}
	}
	// probes: every added signature, an absent one per prefix, the byte-swapped prefix, neighbours
	spec.Probes = append(spec.Probes, distinct...)
	for pi, p := range prefixes {
		spec.Probes = append(spec.Probes, vc05Sig(rng, p))
		if pi%4 == 0 {
			spec.Probes = append(spec.Probes, vc05Sig(rng, vc05Swap(p)), vc05Sig(rng, p+1), vc05Sig(rng, p-1))
		}
	}
	for i := 0; i < 8; i++ {
		spec.Probes = append(spec.Probes, vc05Sig(rng, uint16(rng.U64())))
	}
	return spec
}

// vc05rSweepPrefixes: both ends of the prefix space (numerically and bytewise), the seams of a split of
// the prefix space over n workers for every n of the sweep, and random prefixes. The number of prefixes is
// not a multiple of any n > 1 of the sweep (the legacy format stores the PRESENT prefixes only: a split of
// those over n workers then has a remainder, too).
func vc05rSweepPrefixes(rng *vh.Rng, values []int) []uint16 {
	seen := map[uint16]bool{}
	var out []uint16
	add := func(p uint16) {
		if !seen[p] {
			seen[p] = true
			out = append(out, p)
		}
	}
	for i := 0; i < 16; i++ {
		add(uint16(i))
		add(vc05Swap(uint16(i)))
	}
	for i := 0; i < 32; i++ {
		add(uint16(0xFFFF - i))
		add(vc05Swap(uint16(0xFFFF - i)))
	}
	for _, n := range values {
		for k := 1; k < n; k++ {
			for _, per := range []int{65536 / n, (65536 + n - 1) / n} {
				b := k * per
				for d := -1; d <= 1; d++ {
					if x := b + d; x >= 0 && x < 65536 {
						add(uint16(x))
					}
				}
			}
		}
	}
	for i := 0; i < 24; i++ {
		add(uint16(rng.U64()))
	}
	divisible := func() bool {
		for _, n := range values {
			if n > 1 && len(out)%n == 0 {
				return true
			}
		}
		return false
	}
	for divisible() {
		add(uint16(rng.U64()))
	}
	return out
}

func vc05rSweepValues(thorough bool) []int {
	v := []int{1, 2, 3, 5, 6, 7, 12, 16}
	if thorough {
		v = append(v, 4, 8, 9, 10, 11, 13, 15, 24, 31, 48, 96)
	}
	return v
}

type vc05rRun struct {
	spec  *vc05Spec
	extra vc05rExtra
}

func vc05rRuns(rng *vh.Rng, ver int, thorough bool) []vc05rRun {
	var runs []vc05rRun
	// ONE multiset per put order, sealed under every GOMAXPROCS value of the sweep and once under the
	// default: whatever differs between those runs is due to GOMAXPROCS alone.
	values := vc05rSweepValues(thorough)
	for oi, order := range []string{"monotone", "random"} {
		ps := vc05rSweepPrefixes(rng, values)
		pops := make([]int, len(ps))
		for i := range pops {
			pops[i] = 2 + rng.Intn(8) // 2..9
		}
		s := vc05rBuildSpec(rng, "", "gomaxprocs-sweep", ps, pops, order, 25)
		s.Meta, s.MetaOK = vc05Meta(rng, ver, 1+oi)
		for _, n := range append([]int{0}, values...) {
			c := *s
			c.Name = fmt.Sprintf("v%d_gmp%d_%s", ver, n, order)
			runs = append(runs, vc05rRun{&c, vc05rExtra{GoMaxProcs: n, Order: order}})
		}
	}
	// files for the ReaderAt wrappers (default GOMAXPROCS)
	{
		// a short file: few signatures, the last buckets hold one to three hashes
		ps := vc05DistinctPrefixes(rng, 10, 0x0000, 0x0001, 0xFFFE, 0xFFFF, 0x00FF, 0xFF00)
		pops := []int{1, 3, 2, 1 + rng.Intn(3), 1, 2, 1 + rng.Intn(9), 1 + rng.Intn(9), 1 + rng.Intn(9), 1 + rng.Intn(9)}
		s := vc05rBuildSpec(rng, fmt.Sprintf("v%d_fault_tail", ver), "readerat-wrappers", ps, pops, "random", 20)
		s.Meta, s.MetaOK = vc05Meta(rng, ver, 1)
		runs = append(runs, vc05rRun{s, vc05rExtra{Order: "random", Fault: true}})
	}
	{
		// deep buckets (long read traces), a populated last bucket, metadata of three pairs
		ps := vc05DistinctPrefixes(rng, 10, 0x0000, 0xFFFF, 0xFEFF, 0x0100)
		pops := []int{5, 9, 3, 1, 200, 64, 17, 1, 2, 33}
		s := vc05rBuildSpec(rng, fmt.Sprintf("v%d_fault_deep", ver), "readerat-wrappers", ps, pops, "random", 10)
		s.Meta, s.MetaOK = vc05Meta(rng, ver, 2)
		runs = append(runs, vc05rRun{s, vc05rExtra{Order: "random", Fault: true}})
	}
	if thorough {
		// no metadata, last prefixes empty (current format: the file ends with empty buckets)
		ps := vc05DistinctPrefixes(rng, 12, 0x0000, 0x7FFF, 0x8000)
		pops := make([]int, len(ps))
		for i := range pops {
			pops[i] = 1 + rng.Intn(40)
		}
		s := vc05rBuildSpec(rng, fmt.Sprintf("v%d_fault_mid", ver), "readerat-wrappers", ps, pops, "random", 10)
		s.Meta, s.MetaOK = vc05Meta(rng, ver, 0)
		runs = append(runs, vc05rRun{s, vc05rExtra{Order: "random", Fault: true}})
	}
	return runs
}

// ---------- ReaderAt wrappers ----------

var errVc05rTransient = errors.New("verif: injected transient read error")

// vc05rRA serves a byte slice through nothing but ReadAt, within the contract of io.ReaderAt.
type vc05rRA struct {
	mu       sync.Mutex
	data     []byte
	calls    int
	failAt   int  // the failAt-th call fails, once (0: never)
	mode     int  // 0: no byte delivered, transient error; 1: half of the bytes, io.ErrUnexpectedEOF
	eofFull  bool // a full read that ends exactly at the end of the data also reports io.EOF
	fired    bool
	firedNow bool // set when the fault fires; the driver clears it before each operation
	eofHits  int

	// What ReadAt does AFTER the caller's buffer is filled and BEFORE it returns (outside the lock), as a reader
	// over a network, a rate limiter or a tracer would: nothing, runtime.Gosched(), or a blocking handshake with a
	// helper goroutine (the calling goroutine is parked and woken again). Set with setAfter; read atomically.
	after int32
	tick  uint32
	pump  chan chan struct{}
}

const (
	vc05rAfterNothing = iota
	vc05rAfterYield
	vc05rAfterBlock
	vc05rAfterMixed // per call: yield, block, nothing in turn
)

var vc05rAfterNames = []string{"returns at once", "runtime.Gosched() before returning", "blocks on a channel handshake before returning", "yields / blocks / returns at once in turn"}

// setAfter is called by the driver while no lookup is running.
func (r *vc05rRA) setAfter(mode int32) {
	if mode != vc05rAfterNothing && r.pump == nil {
		r.pump = make(chan chan struct{})
		go func(pump chan chan struct{}) {
			for reply := range pump {
				runtime.Gosched()
				close(reply)
			}
		}(r.pump)
	}
	atomic.StoreInt32(&r.after, mode)
}

// stopPump: called by the driver when all lookups have returned.
func (r *vc05rRA) stopPump() {
	atomic.StoreInt32(&r.after, vc05rAfterNothing)
	if r.pump != nil {
		close(r.pump)
		r.pump = nil
	}
}

func (r *vc05rRA) block() {
	reply := make(chan struct{})
	r.pump <- reply
	<-reply
}

func (r *vc05rRA) ReadAt(p []byte, off int64) (int, error) {
	n, err := r.readAt(p, off)
	mode := atomic.LoadInt32(&r.after)
	if mode == vc05rAfterMixed {
		mode = int32(atomic.AddUint32(&r.tick, 1)%3) + 1
		if mode == vc05rAfterMixed {
			mode = vc05rAfterNothing
		}
	}
	switch mode {
	case vc05rAfterYield:
		runtime.Gosched()
	case vc05rAfterBlock:
		r.block()
	}
	return n, err
}

func (r *vc05rRA) readAt(p []byte, off int64) (int, error) {
	r.mu.Lock()
	defer r.mu.Unlock()
	r.calls++
	if off < 0 {
		return 0, errors.New("verif: negative offset")
	}
	if r.failAt > 0 && r.calls == r.failAt && !r.fired {
		r.fired, r.firedNow = true, true
		n := 0
		err := errVc05rTransient
		if r.mode == 1 {
			err = io.ErrUnexpectedEOF
			if off < int64(len(r.data)) {
				n = copy(p, r.data[off:]) / 2
			}
		}
		// "ReadAt may use all of p as scratch space during the call", even if it returns fewer bytes
		for i := n; i < len(p); i++ {
			p[i] = 0xA5 ^ byte(i)
		}
		return n, err
	}
	if len(p) == 0 {
		return 0, nil
	}
	if off >= int64(len(r.data)) {
		return 0, io.EOF
	}
	n := copy(p, r.data[off:])
	if n < len(p) {
		return n, io.EOF
	}
	if r.eofFull && off+int64(n) == int64(len(r.data)) {
		r.eofHits++
		return n, io.EOF
	}
	return n, nil
}

func (r *vc05rRA) clearNow() { r.mu.Lock(); r.firedNow = false; r.mu.Unlock() }
func (r *vc05rRA) state() (calls int, fired, firedNow bool) {
	r.mu.Lock()
	defer r.mu.Unlock()
	return r.calls, r.fired, r.firedNow
}

func vc05rNewReader(ra io.ReaderAt) (r *Reader, err error, panicked string) {
	defer func() {
		if e := recover(); e != nil {
			panicked = fmt.Sprint(e)
		}
	}()
	r, err = NewReader(ra)
	return
}

func vc05rHas(r *Reader, s [64]byte) (has bool, err error, panicked string) {
	defer func() {
		if e := recover(); e != nil {
			panicked = fmt.Sprint(e)
		}
	}()
	has, err = r.Has(s)
	return
}

// vc05rWrappers runs the ReaderAt wrappers over the bytes of one sealed file.
func vc05rWrappers(rng *vh.Rng, spec *vc05Spec, data []byte) *vc05rFaultRes {
	fr := &vc05rFaultRes{Counts: map[string]int{}}
	ver := vc05Version()
	in := func(sig [64]byte, more string) string {
		return fmt.Sprintf("format v%d spec=%s file=%d bytes sig=%s prefix=%d %s", ver, spec.Name, len(data), hex.EncodeToString(sig[:]), vc05Prefix(sig), more)
	}
	where := fmt.Sprintf("format v%d spec=%s file=%d bytes", ver, spec.Name, len(data))

	// --- baseline through the opaque wrapper without any fault
	var distinct [][64]byte
	seen := map[[64]byte]bool{}
	for _, s := range spec.Sigs {
		if !seen[s] {
			seen[s] = true
			distinct = append(distinct, s)
		}
	}
	base := &vc05rRA{data: data}
	r0, err, pn := vc05rNewReader(base)
	if pn != "" {
		fr.fail("panic", "NewReader over a plain ReaderAt panicked: "+pn, where)
		return fr
	}
	if err != nil {
		fr.fail("open-error", "NewReader over a plain ReaderAt (no fault) failed on the sealed file: "+err.Error(), where)
		return fr
	}
	var present [][64]byte
	for _, s := range distinct {
		fr.Checks++
		has, err, pn := vc05rHas(r0, s)
		switch {
		case pn != "":
			fr.fail("panic", "Reader.Has over a plain ReaderAt panicked: "+pn, in(s, ""))
		case err != nil:
			fr.fail("reader-error", "Reader.Has (plain ReaderAt wrapper, no fault) returned an error for an added signature: "+err.Error(), in(s, ""))
		case !has:
			fr.fail("false-negative", "added signature not reported present by the sealed file (plain ReaderAt wrapper, no fault)", in(s, ""))
		default:
			present = append(present, s)
		}
	}
	var absent [][64]byte
	for _, s := range spec.Probes {
		if seen[s] {
			continue
		}
		fr.Checks++
		if has, err, pn := vc05rHas(r0, s); pn == "" && err == nil && !has {
			absent = append(absent, s)
		}
	}
	fr.Counts["wrapper-baseline-present"] += len(present)
	fr.Counts["wrapper-baseline-absent-probes"] += len(absent)
	if len(present) == 0 {
		return fr
	}

	// --- end of file reported together with the last bytes
	{
		ra := &vc05rRA{data: data, eofFull: true}
		r, err, pn := vc05rNewReader(ra)
		switch {
		case pn != "":
			fr.fail("panic", "NewReader panicked over a ReaderAt that reports io.EOF together with the last bytes: "+pn, where)
		case err != nil:
			fr.eofFail("NewReader fails over a ReaderAt that returns (len(p), io.EOF) for a read ending exactly at the end of the file (allowed by io.ReaderAt): "+err.Error(), where)
		default:
			for _, s := range present {
				fr.Checks++
				has, err, pn := vc05rHas(r, s)
				switch {
				case pn != "":
					fr.fail("panic", "Reader.Has panicked over a ReaderAt that reports io.EOF together with the last bytes: "+pn, in(s, ""))
				case err != nil:
					fr.eofFail("Reader.Has fails for an added signature when the ReaderAt returns (len(p), io.EOF) for a read ending exactly at the end of the file (allowed by io.ReaderAt; all requested bytes were delivered): "+err.Error(), in(s, ""))
				case !has:
					fr.eofFail("added signature reported absent when the ReaderAt returns (len(p), io.EOF) for a read ending exactly at the end of the file", in(s, ""))
				}
			}
			for _, s := range absent {
				fr.Checks++
				if has, err, pn := vc05rHas(r, s); pn == "" && err == nil && has {
					fr.fail("false-positive", "absent signature reported present over the ReaderAt that reports io.EOF with the last bytes", in(s, ""))
				}
			}
		}
		fr.Counts["eof-wrapper:reads-ending-at-end-of-file"] += ra.eofHits
		fr.Counts["eof-wrapper:files"]++
	}

	// --- concurrent lookups on a Reader that never met a read error
	full := make([]vc05rExpect, 0, len(present)+len(absent))
	for _, s := range present {
		full = append(full, vc05rExpect{s, true})
	}
	for _, s := range absent {
		full = append(full, vc05rExpect{s, false})
	}
	for _, gmp := range []int{1, 16} {
		vc05rWithProcs(gmp, func() {
			ra := &vc05rRA{data: data}
			r, err, pn := vc05rNewReader(ra)
			if err != nil || pn != "" {
				fr.fail("open-error", fmt.Sprintf("NewReader over a plain ReaderAt (no fault) failed on the sealed file: err=%v panic=%q", err, pn), where)
				return
			}
			vc05rConcurrent(fr, ra, r, full, 16, 4, 0, "never met a read error", in)
		})
	}

	// --- transient faults
	byPrefix := map[uint16][][64]byte{}
	var prefixes []int
	for _, s := range present {
		p := vc05Prefix(s)
		if byPrefix[p] == nil {
			prefixes = append(prefixes, int(p))
		}
		byPrefix[p] = append(byPrefix[p], s)
	}
	sort.Ints(prefixes)
	traceLen := func(seq [][64]byte) int {
		ra := &vc05rRA{data: data}
		r, err, pn := vc05rNewReader(ra)
		if err != nil || pn != "" {
			return 0
		}
		for _, s := range seq {
			vc05rHas(r, s)
		}
		c, _, _ := ra.state()
		return c
	}
	// targets: first prefix, last prefix, the deepest lookups of the biggest bucket, random ones
	var targets [][64]byte
	first, last := byPrefix[uint16(prefixes[0])], byPrefix[uint16(prefixes[len(prefixes)-1])]
	targets = append(targets, first[0], last[len(last)-1])
	big := first
	for _, p := range prefixes {
		if len(byPrefix[uint16(p)]) > len(big) {
			big = byPrefix[uint16(p)]
		}
	}
	{
		best, bestLen := big[0], -1
		lim := len(big)
		if lim > 40 {
			lim = 40
		}
		for _, s := range big[:lim] {
			if l := traceLen([][64]byte{s}); l > bestLen {
				best, bestLen = s, l
			}
		}
		targets = append(targets, best)
	}
	for i := 0; i < 3; i++ {
		targets = append(targets, present[rng.Intn(len(present))])
	}
	var seqs [][][64]byte
	for _, s := range targets {
		seqs = append(seqs, [][64]byte{s})
	}
	// a fault in a LATER lookup (another bucket, then the first one again)
	seqs = append(seqs, [][64]byte{targets[0], targets[1], targets[0]}, [][64]byte{targets[1], targets[2], targets[1]},
		[][64]byte{targets[2], targets[3], targets[0]})

	// After the fault (and the retry of the failed call) many lookups run at the same time on the Reader that met it.
	// Light load (most injections): the first two signatures of every prefix, random present ones, some absent ones;
	// full load (the injections of the first sequence, fault mode 0): every present signature and every absent probe.
	var light []vc05rExpect
	for _, p := range prefixes {
		b := byPrefix[uint16(p)]
		for i := 0; i < 2 && i < len(b) && len(light) < 40; i++ {
			light = append(light, vc05rExpect{b[i], true})
		}
	}
	for len(light) < 48 && len(light) < len(present) {
		light = append(light, vc05rExpect{present[rng.Intn(len(present))], true})
	}
	for i := 0; i < 16 && i < len(absent); i++ {
		light = append(light, vc05rExpect{absent[i], false})
	}
	procs := []int{1, 16, 3, 0} // GOMAXPROCS of the reading process, set BEFORE the Reader is created; 0: the default
	idx := 0
	for si, seq := range seqs {
		T := traceLen(seq)
		for mode := 0; mode < 2; mode++ {
			for k := 1; k <= T; k++ {
				tag := fmt.Sprintf("fault: ReadAt call #%d of %d (NewReader + %d lookups, sequence %d) fails once, mode %d", k, T, len(seq), si, mode)
				conc := vc05rConc{list: light, workers: 8, rounds: 2, shift: idx}
				if si == 0 && mode == 0 {
					conc = vc05rConc{list: full, workers: 12, rounds: 3, shift: idx}
				}
				vc05rWithProcs(procs[idx%len(procs)], func() {
					vc05rOneFault(fr, data, seq, k, mode, present, absent, in, where, tag, conc)
				})
				idx++
			}
		}
	}
	return fr
}

// vc05rConc: the concurrent phase of one fault injection.
type vc05rConc struct {
	list                   []vc05rExpect
	workers, rounds, shift int
}

func vc05rOneFault(fr *vc05rFaultRes, data []byte, seq [][64]byte, k, mode int, present, absent [][64]byte,
	in func([64]byte, string) string, where, tag string, conc vc05rConc) {
	fr.Counts["fault-injections"]++
	fr.Counts["fault-mode:"+[]string{"nothing-delivered,transient-error", "half-delivered,unexpected-EOF"}[mode]]++
	ra := &vc05rRA{data: data, failAt: k, mode: mode}
	r, err, pn := vc05rNewReader(ra)
	_, _, hit := ra.state()
	if pn != "" {
		fr.fail("panic", "NewReader panicked after a failed read: "+pn, where+" "+tag)
		return
	}
	if err != nil {
		if !hit {
			fr.fail("open-error", "NewReader failed although no read had failed: "+err.Error(), where+" "+tag)
			return
		}
		fr.Counts["fault-met-by:NewReader:error"]++
		ra.clearNow()
		r, err, pn = vc05rNewReader(ra) // the caller retries
		if pn != "" || err != nil {
			fr.fail("transient-read-error-not-recovered", fmt.Sprintf("NewReader fails again on the retry although the read error was transient (one failed ReadAt): err=%v panic=%q", err, pn), where+" "+tag)
			return
		}
	} else if hit {
		fr.Counts["fault-met-by:NewReader:succeeded"]++
	}
	for oi, s := range seq {
		ra.clearNow()
		_, firedBefore, _ := ra.state()
		has, err, pn := vc05rHas(r, s)
		_, _, hit := ra.state()
		fr.Checks++
		more := fmt.Sprintf("%s; lookup %d of the sequence", tag, oi+1)
		switch {
		case pn != "":
			fr.fail("panic", "Reader.Has panicked: "+pn, in(s, more))
		case hit && err != nil:
			fr.Counts["fault-met-by:Has:error"]++
			fr.Checks++
			has2, err2, pn2 := vc05rHas(r, s) // the caller retries
			switch {
			case pn2 != "":
				fr.fail("panic", "Reader.Has panicked on the retry after a transient read error: "+pn2, in(s, more))
			case err2 != nil:
				fr.fail("transient-read-error-poisons-reader", "Reader.Has failed once with a transient read error; the retry on the same Reader (no further fault) fails too: "+err2.Error(), in(s, more))
			case !has2:
				fr.fail("transient-read-error-poisons-reader", "Reader.Has failed once with a transient read error; the retry on the same Reader (no further fault) answers (false, nil) for an added signature", in(s, more))
			}
		case hit && !has:
			fr.fail("transient-read-error-false-negative", "the lookup during which a ReadAt failed answered (false, nil) for an added signature: the read error was swallowed", in(s, more))
		case hit:
			fr.Counts["fault-met-by:Has:answered-true"]++
		case err != nil && firedBefore:
			fr.fail("transient-read-error-poisons-reader", "a lookup after the transient read error (no further fault) fails: "+err.Error(), in(s, more))
		case !has && firedBefore:
			fr.fail("transient-read-error-poisons-reader", "a lookup after the transient read error (no further fault) answers (false, nil) for an added signature", in(s, more))
		case err != nil:
			fr.fail("reader-error", "Reader.Has returned an error although no read had failed: "+err.Error(), in(s, more))
		case !has:
			fr.fail("false-negative", "added signature not reported present although no read had failed", in(s, more))
		}
	}
	if _, fired, _ := ra.state(); !fired {
		fr.Counts["fault-not-reached"]++
		return
	}
	// lookups that overlap in time on this Reader answer like sequential ones
	vc05rConcurrent(fr, ra, r, conc.list, conc.workers, conc.rounds, conc.shift, "met one transient read error before (the failed call was retried)", func(s [64]byte, more string) string {
		return in(s, tag+"; afterwards: "+more)
	})
	// the reader must be as good as new: every added signature present, absent probes absent
	bad := 0
	for _, s := range present {
		fr.Checks++
		has, err, pn := vc05rHas(r, s)
		if pn != "" {
			fr.fail("panic", "Reader.Has panicked after a transient read error: "+pn, in(s, tag))
		} else if err != nil || !has {
			bad++
			if bad == 1 {
				fr.fail("transient-read-error-poisons-reader", fmt.Sprintf("after one transient read error (and a retry of the failed call) the same Reader answers (%v, %v) for an added signature that a fresh Reader reports present", has, err), in(s, tag))
			}
		}
	}
	if bad > 0 {
		fr.Counts["poisoned-readers"]++
		fr.Counts["poisoned-answers"] += bad
	}
	for _, s := range absent {
		fr.Checks++
		if has, err, pn := vc05rHas(r, s); pn == "" && err == nil && has {
			fr.fail("transient-read-error-false-positive", "after one transient read error the Reader reports a signature present that a fresh Reader reports absent", in(s, tag))
		}
	}
}

// ---------- concurrent lookups ----------

type vc05rExpect struct {
	sig     [64]byte
	present bool // the answer of a sequential lookup on a fresh Reader (no fault)
}

// vc05rConcurrent: `workers` goroutines ask the same Reader for every signature of `list` at the same time (half of
// them in list order, the others starting somewhere else), `rounds` times; in every round the ReaderAt behaves
// differently after it has filled the caller's buffer (see vc05rRA.after). No read fails during this phase. Every
// answer must be the sequential one. Nothing here looks at time: only the answers count.
func vc05rConcurrent(fr *vc05rFaultRes, ra *vc05rRA, r *Reader, list []vc05rExpect, workers, rounds, shift int, history string,
	in func([64]byte, string) string) {
	if len(list) == 0 || r == nil {
		return
	}
	type mis struct {
		sig, detail, input string
	}
	type wres struct {
		checks int
		counts map[string]int
		mis    []mis
	}
	defer ra.stopPump()
	for round := 0; round < rounds; round++ {
		mode := []int32{vc05rAfterYield, vc05rAfterBlock, vc05rAfterMixed, vc05rAfterNothing}[(round+shift)%4]
		ra.setAfter(mode)
		fr.Counts["concurrent-rounds:ReadAt "+vc05rAfterNames[mode]]++
		fr.Counts[fmt.Sprintf("concurrent-rounds:GOMAXPROCS=%d", runtime.GOMAXPROCS(0))]++
		fr.Counts["concurrent-rounds:"+history]++
		how := fmt.Sprintf("%d goroutines look up %d signatures each on ONE Reader at the same time, GOMAXPROCS=%d, round %d; the ReaderAt %s; the Reader %s",
			workers, len(list), runtime.GOMAXPROCS(0), round+1, vc05rAfterNames[mode], history)
		results := make([]wres, workers)
		start := make(chan struct{})
		var wg sync.WaitGroup
		for g := 0; g < workers; g++ {
			wg.Add(1)
			go func(g int) {
				defer wg.Done()
				w := &results[g]
				w.counts = map[string]int{}
				note := func(sig, detail string, s [64]byte) {
					w.counts[sig]++
					if len(w.mis) < 2 {
						w.mis = append(w.mis, mis{sig, detail, in(s, how+fmt.Sprintf("; goroutine %d", g))})
					}
				}
				off := 0
				if g%2 == 1 {
					off = (g * len(list) / workers) % len(list)
				}
				<-start
				for i := range list {
					e := list[(i+off)%len(list)]
					w.checks++
					has, err, pn := vc05rHas(r, e.sig)
					switch {
					case pn != "":
						note("panic", "Reader.Has panicked during concurrent lookups: "+pn, e.sig)
					case err != nil:
						note("concurrent-lookups-error", "Reader.Has returned an error during concurrent lookups although no read failed (a sequential lookup answers without error): "+err.Error(), e.sig)
					case e.present && !has:
						note("concurrent-lookups-false-negative", "added signature answered (false, nil) by a lookup that ran at the same time as other lookups on the same Reader; the sequential lookup reports it present", e.sig)
					case !e.present && has:
						note("concurrent-lookups-false-positive", "a signature that the sequential lookup reports absent is reported present by a lookup that ran at the same time as other lookups on the same Reader", e.sig)
					}
				}
			}(g)
		}
		close(start)
		wg.Wait()
		for g := range results {
			fr.Checks += results[g].checks
			fr.Counts["concurrent-lookups"] += results[g].checks
			for _, m := range results[g].mis {
				fr.fail(m.sig, m.detail, m.input)
			}
			for sig, n := range results[g].counts {
				// fr.fail counted the ones it was handed; add the rest
				k := 0
				for _, m := range results[g].mis {
					if m.sig == sig {
						k++
					}
				}
				fr.Counts["failure-observations:"+sig] += n - k
			}
		}
	}
}

// vc05rWithProcs runs f under runtime.GOMAXPROCS(n) (n = 0: unchanged) and restores the previous value.
func vc05rWithProcs(n int, f func()) {
	if n > 0 {
		prev := runtime.GOMAXPROCS(n)
		defer runtime.GOMAXPROCS(prev)
	}
	f()
}

// ---------- child process ----------

// TestVerif_C05_RobustChild runs ONE writer (one spec) under the requested GOMAXPROCS.
func TestVerif_C05_RobustChild(t *testing.T) {
	specPath := os.Getenv(vc05rChildEnv)
	if specPath == "" {
		t.Skip("helper of TestVerif_C05_Robust")
	}
	base := strings.TrimSuffix(specPath, ".spec.json")
	var extra vc05rExtra
	if b, err := os.ReadFile(base + ".extra.json"); err != nil {
		t.Fatalf("VERIF-HARNESS-BUG: %v", err)
	} else if err := json.Unmarshal(b, &extra); err != nil {
		t.Fatalf("VERIF-HARNESS-BUG: %v", err)
	}
	if extra.GoMaxProcs > 0 {
		runtime.GOMAXPROCS(extra.GoMaxProcs)
	}
	spec, err := vc05ReadSpec(specPath)
	if err != nil {
		t.Fatalf("VERIF-HARNESS-BUG: %v", err)
	}
	res := &vc05rResult{GoMaxProcs: runtime.GOMAXPROCS(0)}
	// how far the raw Put order is from what the reader needs
	raw := map[uint16][]uint64{}
	for _, s := range spec.Sigs {
		raw[vc05Prefix(s)] = append(raw[vc05Prefix(s)], Hash(s))
	}
	for p, hs := range raw {
		res.Buckets++
		if !vc05rSearchable(hs) || vc05rHasDup(hs) {
			res.NotLayout++
			if p >= 0xFFF0 {
				res.LastNotLayout++
			}
		}
	}
	res.Base = vc05Exercise(spec, base+".idx")
	if extra.Fault && res.Base.Sealed {
		func() {
			defer func() {
				if e := recover(); e != nil {
					res.Panic = fmt.Sprint(e)
				}
			}()
			data, err := os.ReadFile(base + ".idx")
			if err != nil {
				res.Base.SetupErr = "read back: " + err.Error()
				return
			}
			res.Fault = vc05rWrappers(vh.NewRng(vh.Seed()+uint64(len(data))), spec, data)
		}()
	}
	js, _ := json.Marshal(res)
	if err := os.WriteFile(base+".rres.json", js, 0o644); err != nil {
		t.Fatalf("VERIF-HARNESS-BUG: %v", err)
	}
}

func vc05rHasDup(hs []uint64) bool {
	m := map[uint64]bool{}
	for _, h := range hs {
		if m[h] {
			return true
		}
		m[h] = true
	}
	return false
}

// ---------- parent ----------

func TestVerif_C05_Robust(t *testing.T) {
	seed, thorough := vh.Seed(), vh.Thorough()
	if rp := vh.Replay(); rp != "" {
		if b, err := os.ReadFile(rp); err == nil {
			var r struct {
				Seed uint64 `json:"seed"`
				Tier string `json:"tier"`
			}
			if json.Unmarshal(b, &r) == nil && r.Seed != 0 {
				seed, thorough = r.Seed, r.Tier == "thorough"
			}
		}
	}
	ver := vc05Version()
	part := map[int]string{2: "current-robust", 1: "legacy-robust"}[ver]
	rng := vh.NewRng(seed*31 + 0xC05B + uint64(ver))
	dir := filepath.Join(vh.OutDir(), fmt.Sprintf("c05r_v%d", ver))
	if err := os.MkdirAll(dir, 0o755); err != nil {
		t.Fatalf("setup failed: %v", err)
	}
	rep := vh.NewReport("C05", part, fmt.Sprintf("format Version %d, configuration and ReaderAt robustness: (a) the writer runs in child processes under GOMAXPROCS = %v on multisets over the first, the last (ffff, feff, ...), the byte-swapped and the n-way-seam prefixes with 2..9 signatures each plus duplicates, put in per-bucket orders that are not an eytzinger layout: every added signature must be reported present by Writer.Has and by the sealed file (mmap, *os.File, bytes.Reader), Writer.Has = Reader.Has on every probe; (b) opaque io.ReaderAt wrappers: each ReadAt of the trace of NewReader + lookups of present signatures fails once (nothing / half delivered, buffer scribbled): the call that met the fault may fail but never answers (false, nil), the retry and every added signature asked afterwards on the same Reader must be present; a ReaderAt that returns (len(p), io.EOF) at the end of the file must be served; concurrent lookups: 8..16 goroutines ask one Reader for the added signatures and the absent probes at the same time (reading process under GOMAXPROCS 1, 16, 3, default; the ReaderAt yields, blocks on a channel handshake, or returns at once after filling the buffer), on a Reader that never met a read error and after every fault injection on the Reader that met it: every answer must equal the sequential answer", ver, vc05rSweepValues(thorough)))
	runs := vc05rRuns(rng, ver, thorough)
	results := make([]*vc05rResult, len(runs))
	outputs := make([]string, len(runs))
	hung := make([]bool, len(runs))
	limit := 2 * time.Minute
	if thorough {
		limit = 10 * time.Minute
	}
	sem := make(chan struct{}, 4)
	var wg sync.WaitGroup
	for i, run := range runs {
		specPath, err := vc05WriteSpec(dir, run.spec)
		if err != nil {
			t.Fatalf("setup failed: %v", err)
		}
		base := strings.TrimSuffix(specPath, ".spec.json")
		js, _ := json.Marshal(run.extra)
		if err := os.WriteFile(base+".extra.json", js, 0o644); err != nil {
			t.Fatalf("setup failed: %v", err)
		}
		wg.Add(1)
		go func(i int, specPath, base string, gmp int) {
			defer wg.Done()
			sem <- struct{}{}
			defer func() { <-sem }()
			ctx, cancel := context.WithTimeout(context.Background(), limit)
			defer cancel()
			cmd := exec.CommandContext(ctx, os.Args[0], "-test.run=^TestVerif_C05_RobustChild$", "-test.count=1", "-test.timeout=30m")
			cmd.Env = append(os.Environ(), vc05rChildEnv+"="+specPath)
			if gmp > 0 {
				cmd.Env = append(cmd.Env, "GOMAXPROCS="+strconv.Itoa(gmp))
			}
			out, err := cmd.CombinedOutput()
			outputs[i] = string(out)
			if err != nil {
				outputs[i] += "\n" + err.Error()
			}
			if ctx.Err() != nil {
				hung[i] = true
			}
			b, err := os.ReadFile(base + ".rres.json")
			if err != nil {
				return
			}
			var r vc05rResult
			if json.Unmarshal(b, &r) == nil && r.Base != nil {
				results[i] = &r
			}
		}(i, specPath, base, run.extra.GoMaxProcs)
	}
	wg.Wait()

	// failures of the sweep, by signature and GOMAXPROCS value
	type sweepFail struct {
		f    vc05Fail
		spec string
		gmp  int
	}
	sweepFails := map[string][]sweepFail{}
	sweepRan := map[int]bool{}
	fail := func(sig, detail string, f vc05Fail, spec string, gmp int) {
		rep.Fail(sig, detail, map[string]interface{}{"input": f.Input, "spec": spec, "gomaxprocs": gmp, "format": ver, "seed": seed,
			"tier": vh.Tier(), "how": "the generators are deterministic in the seed: VERIF_SEED=<seed> bin/check C05 <tier> runs this spec again"})
	}
	for i, run := range runs {
		spec, extra := run.spec, run.extra
		base := filepath.Join(dir, spec.Name)
		res := results[i]
		if res == nil {
			o := outputs[i]
			if len(o) > 2000 {
				o = o[len(o)-2000:]
			}
			if strings.Contains(o, "VERIF-HARNESS-BUG") {
				t.Fatalf("VERIF-HARNESS-BUG in child %s: %s", spec.Name, o)
			}
			if hung[i] {
				rep.Fail("hang", fmt.Sprintf("the process running one Writer/Reader did not finish within %v (killed)", limit), map[string]interface{}{"spec": spec.Name, "seed": seed, "gomaxprocs": extra.GoMaxProcs, "signatures": len(spec.Sigs)})
				continue
			}
			rep.Fail("child-crash", "the process running one Writer died without a result: "+o, map[string]interface{}{"spec": spec.Name, "seed": seed, "gomaxprocs": extra.GoMaxProcs})
			continue
		}
		if extra.GoMaxProcs > 0 && res.GoMaxProcs != extra.GoMaxProcs {
			t.Fatalf("VERIF-HARNESS-BUG: child %s ran with GOMAXPROCS=%d, wanted %d", spec.Name, res.GoMaxProcs, extra.GoMaxProcs)
		}
		b := res.Base
		rep.Case(spec.Name, len(spec.Sigs) > 0)
		rep.Evaluations += b.Checks
		rep.Count("runs:" + spec.Kind)
		rep.Count("put-order:" + extra.Order)
		rep.CountN("signatures-added", len(spec.Sigs))
		rep.CountN("duplicate-adds", b.Duplicates)
		rep.CountN("non-empty-prefixes", b.NonEmpty)
		rep.CountN("probes", len(spec.Probes))
		rep.CountN("buckets", res.Buckets)
		rep.CountN("buckets-whose-put-order-is-not-an-eytzinger-layout", res.NotLayout)
		rep.CountN("buckets-whose-put-order-is-not-an-eytzinger-layout:last-16-prefixes", res.LastNotLayout)
		for _, p := range b.Pops {
			rep.Count("bucket-population:" + strconv.Itoa(p))
		}
		if extra.GoMaxProcs > 0 {
			rep.Count("gomaxprocs:" + strconv.Itoa(extra.GoMaxProcs))
			sweepRan[extra.GoMaxProcs] = true
		} else {
			rep.Count("gomaxprocs:default(" + strconv.Itoa(res.GoMaxProcs) + ")")
		}
		if b.Panic != "" {
			rep.Fail("panic", "the bucketteer code panicked: "+b.Panic, map[string]interface{}{"spec": spec.Name, "format": ver, "gomaxprocs": extra.GoMaxProcs, "seed": seed})
		}
		if res.Panic != "" {
			rep.Fail("panic", "the bucketteer code panicked under a ReaderAt wrapper: "+res.Panic, map[string]interface{}{"spec": spec.Name, "format": ver, "seed": seed})
		}
		if b.SetupErr != "" {
			rep.Fail("setup-error", b.SetupErr, map[string]interface{}{"spec": spec.Name, "format": ver, "gomaxprocs": extra.GoMaxProcs, "seed": seed})
		}
		for _, f := range b.Fails {
			if extra.GoMaxProcs > 0 {
				sweepFails[f.Sig] = append(sweepFails[f.Sig], sweepFail{f, spec.Name, extra.GoMaxProcs})
			} else {
				fail(f.Sig, f.Detail, f, spec.Name, 0)
			}
		}
		if extra.Fault {
			if res.Fault == nil {
				if b.Sealed && res.Panic == "" {
					t.Fatalf("VERIF-HARNESS-BUG: child %s did not run the ReaderAt wrappers", spec.Name)
				}
			} else {
				rep.Evaluations += res.Fault.Checks
				for k, v := range res.Fault.Counts {
					rep.CountN(k, v)
				}
				for _, f := range res.Fault.Fails {
					fail(f.Sig, f.Detail, f, spec.Name, 0)
				}
				for _, f := range res.Fault.Observed {
					rep.Note("OBSERVED, NOT ENFORCED (%s=observe) [%s] %s -- %s", vc05rEOFModeEnv, f.Sig, f.Detail, f.Input)
				}
			}
		}
		for _, ext := range []string{".idx", ".sigs", ".probes"} {
			_ = os.Remove(base + ext)
		}
	}
	// a failure seen under some GOMAXPROCS values only is reported as such
	var ran []int
	for n := range sweepRan {
		ran = append(ran, n)
	}
	sort.Ints(ran)
	var sigs []string
	for s := range sweepFails {
		sigs = append(sigs, s)
	}
	sort.Strings(sigs)
	for _, s := range sigs {
		at := map[int]bool{}
		for _, x := range sweepFails[s] {
			at[x.gmp] = true
		}
		var failing, passing []int
		for _, n := range ran {
			if at[n] {
				failing = append(failing, n)
			} else {
				passing = append(passing, n)
			}
		}
		sig, pre := s, fmt.Sprintf("[writer process under GOMAXPROCS=%%d; this failure occurs under every GOMAXPROCS value tried %v] ", failing)
		if len(passing) > 0 {
			sig = s + ":gomaxprocs"
			pre = fmt.Sprintf("[writer process under GOMAXPROCS=%%d; this failure occurs under GOMAXPROCS in %v and not in %v on the same input] ", failing, passing)
		}
		for _, x := range sweepFails[s] {
			fail(sig, fmt.Sprintf(pre, x.gmp)+x.f.Detail, x.f, x.spec, x.gmp)
		}
	}
	rep.Flag("child_processes", len(runs))
	rep.Flag("gomaxprocs_values", vc05rSweepValues(thorough))
	rep.Flag("eof_with_full_read_check", vc05rEOFMode())
	nFault := 0
	for _, run := range runs {
		if run.extra.Fault {
			nFault++
		}
	}
	rep.Note("format v%d robustness: %d child processes: 2 multisets (put orders) x (default + %d GOMAXPROCS values), %d files for the ReaderAt wrappers", ver, len(runs), len(vc05rSweepValues(thorough)), nFault)
	if err := rep.Write(); err != nil {
		t.Fatalf("setup failed: %v", err)
	}
	fmt.Printf("C05 %s: runs=%d evaluations=%d failures=%d\n", part, len(runs), rep.Evaluations, len(rep.Failures))
}
