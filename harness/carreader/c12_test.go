package carreader

// Verification harness for C12 (injected with `go test -overlay`; not part of the repository).
// Mutated CARv1 streams (written with go-car's own header and section writers) through carreader.New + the
// NextNode / NextInfo / NextNodeBytes loops, and single sections through ReadNodeInfoWithData.
// Oracle: no panic, allocation <= 80 MiB (go-car's 32 MiB section cap + go-cid's 32 MiB digest cap, both allocated before
// the bytes are read, + slice growth) + 16*len, every loop ends within
// len+2 iterations. Correspondence: class and consumed bytes of ReadNodeInfoWithData on one section against
// YF.C12_Parsers.car_section (the CID length is what go-cid's CidFromReader makes of the same bytes).

import (
	"bufio"
	"bytes"
	"encoding/binary"
	"errors"
	"fmt"
	"io"
	"testing"

	"github.com/ipfs/go-cid"
	carv1 "github.com/ipld/go-car"
	"github.com/ipld/go-car/util"
	"github.com/multiformats/go-multihash"
	"github.com/rpcpool/yellowstone-faithful/zzverif/c12h"
	"github.com/rpcpool/yellowstone-faithful/zzverif/vh"
)

func vc12Cid(data []byte, long bool) cid.Cid {
	code := uint64(multihash.SHA2_256)
	if long {
		code = multihash.SHA2_512
	}
	h, err := multihash.Sum(data, code, -1)
	if err != nil {
		panic("VERIF-HARNESS-BUG " + err.Error())
	}
	return cid.NewCidV1(cid.DagCBOR, h)
}

type vc12Sec struct{ off, varint, cidLen, dataLen int }

func vc12Build(rng *vh.Rng, sizes []int, long bool) ([]byte, []uint64) {
	var buf bytes.Buffer
	root := vc12Cid([]byte("root"), long)
	if err := carv1.WriteHeader(&carv1.CarHeader{Roots: []cid.Cid{root}, Version: 1}, &buf); err != nil {
		panic("VERIF-HARNESS-BUG " + err.Error())
	}
	nums := []uint64{uint64(buf.Len())}
	for i, n := range sizes {
		data := rng.Bytes(n)
		if n >= 2 {
			data[0], data[1] = 0x84, byte(i%7)
		}
		c := vc12Cid(data, long && i%2 == 0)
		off := buf.Len()
		if err := util.LdWrite(&buf, c.Bytes(), data); err != nil {
			panic("VERIF-HARNESS-BUG " + err.Error())
		}
		vl := len(binary.AppendUvarint(nil, uint64(len(c.Bytes())+n)))
		nums = append(nums, uint64(off), uint64(vl), uint64(len(c.Bytes())), uint64(n))
	}
	return buf.Bytes(), nums
}

func vc12Seeds(dir string, rng *vh.Rng) ([]c12h.Seed, error) {
	var seeds []c12h.Seed
	for i, sizes := range [][]int{{40, 3, 200, 17}, {5}, {100, 130, 20000, 9}, {}, {2, 2, 2, 2, 2, 2}} {
		d, nums := vc12Build(rng, sizes, i == 2)
		seeds = append(seeds, c12h.Seed{Name: fmt.Sprintf("car%d", i), Data: d, Nums: nums})
	}
	seeds = c12h.KeepSeeds(seeds, func(i int, s *c12h.Seed) error {
		in := c12h.Input{Entry: "nextnode", Data: s.Data}
		o := vc12Exec(&in)
		if o.Class != "ok" || len(o.Nums) == 0 || int(o.Nums[0]) != (len(s.Nums)-1)/4 {
			return fmt.Errorf("does not read back (%v)", o)
		}
		return nil
	})
	return seeds, nil
}

func vc12Secs(s *c12h.Seed) (hdr int, secs []vc12Sec) {
	hdr = int(s.Nums[0])
	for i := 1; i+3 < len(s.Nums); i += 4 {
		secs = append(secs, vc12Sec{int(s.Nums[i]), int(s.Nums[i+1]), int(s.Nums[i+2]), int(s.Nums[i+3])})
	}
	return
}

// sectionWith: the stream with section k re-written as varint(declared) ++ cid ++ data[:n]
func vc12Rewrite(s *c12h.Seed, k int, declared uint64, keep int) []byte {
	_, secs := vc12Secs(s)
	sc := secs[k]
	out := append([]byte(nil), s.Data[:sc.off]...)
	out = binary.AppendUvarint(out, declared)
	out = append(out, s.Data[sc.off+sc.varint:sc.off+sc.varint+sc.cidLen]...)
	out = append(out, s.Data[sc.off+sc.varint+sc.cidLen:sc.off+sc.varint+sc.cidLen+keep]...)
	return append(out, s.Data[sc.off+sc.varint+sc.cidLen+sc.dataLen:]...)
}

func vc12Gen(seeds []c12h.Seed, rng *vh.Rng, thorough bool) []c12h.Input {
	var ins []c12h.Input
	nrand := 1200
	if thorough {
		nrand = 15000
	}
	entries := []string{"nextnode", "nextinfo", "nextbytes"}
	for si := range seeds {
		s := &seeds[si]
		hdr, secs := vc12Secs(s)
		bounds := []int{hdr}
		for _, sc := range secs {
			bounds = append(bounds, sc.off, sc.off+sc.varint, sc.off+sc.varint+sc.cidLen, sc.off+sc.varint+sc.cidLen+sc.dataLen)
		}
		for _, e := range entries {
			ins = append(ins, c12h.Input{Entry: e, Label: "valid", Data: s.Data})
			ins = append(ins, c12h.Truncations(e, s, bounds, nil, nil)...)
			// header length varint and the header itself
			ins = append(ins, c12h.MutateFields(e, s, []c12h.Field{{Name: "header.len", Off: 0, Len: 1}, {Name: "header.byte", Off: 3, Len: 1}}, nil, nil)...)
			for k, sc := range secs {
				if k > 3 {
					break
				}
				full := uint64(sc.cidLen + sc.dataLen)
				for _, declared := range []uint64{0, 1, 2, uint64(sc.cidLen) - 1, uint64(sc.cidLen), uint64(sc.cidLen) + 1, uint64(sc.cidLen) + 2, full - 1, full + 1,
					full + 1000, 127, 128, 16383, 16384, 1 << 20, 32 << 20, 32<<20 + 1, 1 << 31, 1 << 40, 1<<63 - 1, 1 << 63, 1<<64 - 1} {
					ins = append(ins, c12h.Input{Entry: e, Label: "section.len", Data: vc12Rewrite(s, k, declared, sc.dataLen)})
				}
				for keep := 0; keep <= 2 && keep <= sc.dataLen; keep++ { // objects of 0, 1, 2 bytes, consistent length
					ins = append(ins, c12h.Input{Entry: e, Label: "object.short", Data: vc12Rewrite(s, k, uint64(sc.cidLen+keep), keep)})
				}
				// CID bytes: version, codec, hash code, digest length
				cf := []c12h.Field{}
				for j := 0; j < 4; j++ {
					cf = append(cf, c12h.Field{Name: "cid.byte", Off: sc.off + sc.varint + j, Len: 1})
				}
				ins = append(ins, c12h.MutateFields(e, s, cf, nil, nil)...)
			}
			if len(s.Data) < 4000 {
				ins = append(ins, c12h.RandomMutations(e, s, rng, nrand, 0, nil, nil)...)
			}
		}
		// single sections for the model
		for k, sc := range secs {
			if k > 3 || sc.dataLen > 400 {
				continue
			}
			sec := &c12h.Seed{Data: s.Data[sc.off : sc.off+sc.varint+sc.cidLen+sc.dataLen]}
			ins = append(ins, c12h.Input{Entry: "section", Label: "valid", Data: sec.Data})
			for _, declared := range []uint64{0, 1, 2, uint64(sc.cidLen) - 1, uint64(sc.cidLen), uint64(sc.cidLen) + 1, uint64(sc.cidLen+sc.dataLen) - 1, uint64(sc.cidLen+sc.dataLen) + 1, 127, 128, 300, 32 << 20, 32<<20 + 1, 1 << 62, 1<<64 - 1} {
				d := binary.AppendUvarint(nil, declared)
				d = append(d, sec.Data[sc.varint:]...)
				ins = append(ins, c12h.Input{Entry: "section", Label: "section.len", Data: d})
			}
			for n := 0; n < len(sec.Data); n++ {
				ins = append(ins, c12h.Input{Entry: "section", Label: "truncate", Data: append([]byte(nil), sec.Data[:n]...)})
			}
			ins = append(ins, c12h.RandomMutations("section", sec, rng, nrand/2, sc.varint+sc.cidLen, nil, nil)...)
		}
	}
	ins = append(ins, c12h.Junk("nextnode", rng, 300, nil)...)
	ins = append(ins, c12h.Junk("section", rng, 300, nil)...)
	return ins
}

func vc12Exec(in *c12h.Input) c12h.Obs {
	if in.Entry == "section" {
		// what go-cid makes of the bytes after the length prefix (the model's abstract CID reader)
		pre := []uint64{0, 0}
		if _, n := binary.Uvarint(in.Data); n > 0 {
			if cl, _, err := cid.CidFromReader(bytes.NewReader(in.Data[n:])); err == nil {
				pre = []uint64{1, uint64(cl)}
			}
		}
		in.Pre = pre
		br := bufio.NewReader(bytes.NewReader(in.Data))
		_, total, data, err := ReadNodeInfoWithData(br)
		if err != nil {
			return c12h.Obs{Class: "error", Nums: pre}
		}
		_ = data
		return c12h.Obs{Class: "ok", Nums: append(pre, total)}
	}
	cr, err := New(io.NopCloser(bytes.NewReader(in.Data)))
	if err != nil {
		return c12h.Obs{Class: "error", Fine: "open-error"}
	}
	if _, err := cr.HeaderSize(); err != nil {
		return c12h.Obs{Class: "error", Fine: "header-size"}
	}
	n := uint64(0)
	for iter := 0; ; iter++ {
		if iter > len(in.Data)+2 {
			panic("loop did not end within len+2 iterations") // reported as a panic of the implementation: a section consumed no input
		}
		var err error
		switch in.Entry {
		case "nextnode":
			_, _, _, err = cr.NextNode()
		case "nextinfo":
			_, _, err = cr.NextInfo()
		default:
			_, _, _, err = cr.NextNodeBytes()
		}
		if err != nil {
			if errors.Is(err, io.EOF) {
				return c12h.Obs{Class: "ok", Nums: []uint64{n}}
			}
			return c12h.Obs{Class: "error", Nums: []uint64{n}}
		}
		n++
	}
}

func vc12CoqCase(in *c12h.Input, r *c12h.Result) (string, bool) {
	cls, ok := c12h.ClassN(r.Class)
	if !ok || in.Entry != "section" || len(in.Data) > 600 || len(r.Nums) < 2 {
		return "", false
	}
	cl := "None"
	if r.Nums[0] == 1 {
		cl = fmt.Sprintf("(Some %d%%nat)", r.Nums[1])
	}
	used := uint64(0)
	if r.Class == "ok" && len(r.Nums) == 3 {
		used = r.Nums[2]
	}
	return fmt.Sprintf("CCar %s %s %s %s", vh.CoqBytes(in.Data), cl, vh.CoqN(cls), vh.CoqN(used)), true
}

func vc12Part() *c12h.Part {
	return &c12h.Part{
		Name:  "carreader",
		Rule:  "carreader.New + NextNode/NextInfo/NextNodeBytes loops and ReadNodeInfoWithData on mutated CARv1 streams: no panic, allocation <= 80MiB (32 MiB section cap of go-car + 32 MiB digest cap of go-cid + growth) + 16*len, loops end within len+2 sections; section class and consumed bytes = Coq model",
		Seeds: vc12Seeds, Gen: vc12Gen, Exec: vc12Exec,
		Budget: func(in *c12h.Input) uint64 { return 80<<20 + uint64(16*len(in.Data)) },
		Witnesses: func(seeds []c12h.Seed) map[string]c12h.Input {
			_, secs := vc12Secs(&seeds[0])
			return map[string]c12h.Input{"g_car_section": {Entry: "nextnode", Label: "witness", Data: vc12Rewrite(&seeds[0], 0, 2, secs[0].dataLen)}}
		},
		CoqImports: []string{"YF.C12_Check"}, CoqType: "car_case",
		CoqChecker: func(f map[string]bool) string { return "(check_car " + vh.CoqBool(f["g_car_section"]) + ")" },
		CoqCase:    vc12CoqCase, MaxCoq: 500,
		Fuzz: vc12Fuzz,
	}
}

func TestVerif_C12(t *testing.T) { c12h.Run(t, vc12Part()) }

// native fuzz target (thorough tier; run by c12h.Run from an instrumented copy of the test binary)
func FuzzVerifC12(f *testing.F) { c12h.FuzzBody(f, vc12Part()) }

func vc12Fuzz(data []byte, sel uint64, seeds []c12h.Seed) *c12h.Input {
	entries := []string{"nextnode", "nextinfo", "nextbytes", "section"}
	return &c12h.Input{Entry: entries[sel%4], Label: "fuzz", Data: data}
}
