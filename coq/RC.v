From Coq Require Import List Arith Lia Bool PeanoNat.
Import ListNotations.

(* range-cache/range-cache.go over a fixed remote file. Ranges are [s,e). *)
Section RC.
Variable remote : list nat.
Let size := length remote.

Definition slice (f : list nat) (s e : nat) : list nat := firstn (e - s) (skipn s f).
Definition range := (nat * nat)%type.
Definition contains (r r2 : range) : bool := (fst r <=? fst r2) && (snd r2 <=? snd r).
Definition valid (r : range) : bool := (fst r <=? snd r) && (snd r <=? size).

Definition cache := list (range * list nat).          (* Go map: at most one entry per key *)

Definition Inv (c : cache) : Prop :=
  forall r v, In (r, v) c -> valid r = true /\ v = slice remote (fst r) (snd r).

Lemma skipn_add {T} (a b : nat) (l : list T) : skipn (a + b) l = skipn b (skipn a l).
Proof. revert l; induction a as [|a IH]; intros l; cbn; auto. destruct l; auto. now destruct b. Qed.

Lemma slice_slice a b s e : a <= s -> s <= e -> e <= b -> b <= size ->
  slice (slice remote a b) (s - a) (e - a) = slice remote s e.
Proof.
  intros H1 H2 H3 H4. unfold slice.
  rewrite skipn_firstn_comm. rewrite <- skipn_add. replace (a + (s - a)) with s by lia.
  rewrite firstn_firstn. replace (e - a - (s - a)) with (e - s) by lia. f_equal. lia.
Qed.

(* getRangeFromCache: exact hit first, otherwise ANY superset (map iteration order = choice i) *)
Definition hit_via (c : cache) (rq : range) (i : nat) : option (list nat) :=
  match nth_error c i with
  | Some (r, v) => if contains r rq then Some (slice v (fst rq - fst r) (snd rq - fst r)) else None
  | None => None
  end.

Lemma hit_correct c rq i bs : Inv c -> valid rq = true -> hit_via c rq i = Some bs -> bs = slice remote (fst rq) (snd rq).
Proof.
  intros HI Hv H. unfold hit_via in H. destruct (nth_error c i) as [[r v]|] eqn:E; [|discriminate].
  destruct (contains r rq) eqn:Hc; [|discriminate]. inversion H; subst.
  apply nth_error_In in E. destruct (HI r v E) as [Hvr Hval]. subst v.
  unfold contains, valid in *. rewrite !andb_true_iff, !Nat.leb_le in *.
  apply slice_slice; lia.
Qed.

(* setRange: entries are visited in an arbitrary order; a superset found => stop without inserting
   (deletions made so far stay); subsets are deleted; finally insert. `order` is the visit order. *)
Fixpoint set_visit (order : list (range * list nat)) (c : cache) (rq : range) : cache * bool (* stopped *) :=
  match order with
  | [] => (c, false)
  | (r, v) :: rest =>
      if contains r rq then (c, true)
      else if contains rq r
           then set_visit rest (filter (fun x => negb (Nat.eqb (fst (fst x)) (fst r) && Nat.eqb (snd (fst x)) (snd r))) c) rq
           else set_visit rest c rq
  end.
Definition set_range (order : list (range * list nat)) (c : cache) (rq : range) (v : list nat) : cache :=
  let '(c', stopped) := set_visit order c rq in if stopped then c' else (rq, v) :: c'.

Lemma Inv_filter c f : Inv c -> Inv (filter f c).
Proof. intros H r v Hin. apply filter_In in Hin. apply H; tauto. Qed.

Lemma set_visit_Inv order : forall c rq, Inv c -> Inv (fst (set_visit order c rq)).
Proof.
  induction order as [|[r v] rest IH]; intros c rq H; cbn; auto.
  destruct (contains r rq); cbn; auto. destruct (contains rq r); apply IH; auto using Inv_filter.
Qed.

Lemma set_range_Inv order c rq v :
  Inv c -> valid rq = true -> v = slice remote (fst rq) (snd rq) -> Inv (set_range order c rq v).
Proof.
  intros H Hv Hval. unfold set_range. pose proof (set_visit_Inv order c rq H) as H'.
  destruct (set_visit order c rq) as [c' st]; cbn in H'. destruct st; auto.
  intros r0 v0 [E|Hin]; [inversion E; subst; auto|auto].
Qed.

(* actions of a history; every nondeterministic choice is part of the action *)
Inductive action :=
| AGet (rq : range) (hit_choice : nat) (fetch_ok : bool) (order : list (range * list nat))
| ASet (rq : range) (v : list nat) (order : list (range * list nat))
| ADeleteOld (keep : range * list nat -> bool).

Inductive reply := RBytes (bs : list nat) | RErr | RNone.

Definition step (c : cache) (a : action) : cache * reply :=
  match a with
  | AGet rq i ok order =>
      if negb (valid rq) then (c, RErr)                       (* refused, never padded *)
      else match hit_via c rq i with
           | Some bs => (c, RBytes bs)
           | None => if ok
                     then let v := slice remote (fst rq) (snd rq) in (set_range order c rq v, RBytes v)
                     else (c, RErr)                           (* failed fetch is not cached *)
           end
  | ASet rq v order =>
      if valid rq && Nat.eqb (length v) (snd rq - fst rq) then (set_range order c rq v, RNone) else (c, RErr)
  | ADeleteOld keep => (filter keep c, RNone)
  end.

Definition truthful (a : action) : Prop :=
  match a with ASet rq v _ => v = slice remote (fst rq) (snd rq) | _ => True end.

Theorem step_Inv c a : Inv c -> truthful a -> Inv (fst (step c a)).
Proof.
  intros H Ht. destruct a as [rq i ok order|rq v order|keep]; cbn.
  - destruct (valid rq) eqn:Hv; cbn; auto. destruct (hit_via c rq i); cbn; auto.
    destruct ok; cbn; auto. apply set_range_Inv; auto.
  - destruct (valid rq) eqn:Hv; cbn; auto. destruct (Nat.eqb _ _); cbn; auto. apply set_range_Inv; auto.
  - apply Inv_filter; auto.
Qed.

(* C17: in every history (all interleavings are histories of these atomic actions, all choices free),
   every read returns exactly the remote bytes of its range, or an error *)
Theorem transparent hist : Forall truthful hist ->
  forall c0, Inv c0 ->
  let run := fold_left (fun (st : cache * list reply) a => let '(c', r) := step (fst st) a in (c', snd st ++ [r])) hist (c0, []) in
  Inv (fst run) /\
  forall k a, nth_error hist k = Some a ->
    match a, nth_error (snd run) k with
    | AGet rq _ _ _, Some (RBytes bs) => bs = slice remote (fst rq) (snd rq) /\ valid rq = true
    | AGet rq _ ok _, Some RErr => valid rq = false \/ ok = false
    | _, _ => True
    end.
Proof.
  intros Ht c0 H0. cbv zeta.
  assert (G : forall hist c rs, Forall truthful hist -> Inv c ->
    let run := fold_left (fun (st : cache * list reply) a => let '(c', r) := step (fst st) a in (c', snd st ++ [r])) hist (c, rs) in
    Inv (fst run) /\ exists rs', snd run = rs ++ rs' /\ length rs' = length hist /\
      forall k a, nth_error hist k = Some a ->
        match a, nth_error rs' k with
        | AGet rq _ _ _, Some (RBytes bs) => bs = slice remote (fst rq) (snd rq) /\ valid rq = true
        | AGet rq _ ok _, Some RErr => valid rq = false \/ ok = false
        | _, _ => True end).
  { clear. induction hist as [|a hist IH]; intros c rs Ht HI; cbn [fold_left].
    - split; auto. exists []. rewrite app_nil_r. repeat split; auto. intros k a H; destruct k; discriminate.
    - inversion Ht as [|? ? Ha Ht']; subst. cbn [fst snd]. destruct (step c a) as [c' r] eqn:Es.
      assert (HI' : Inv c') by (pose proof (step_Inv c a HI Ha) as X; rewrite Es in X; exact X).
      destruct (IH c' (rs ++ [r]) Ht' HI') as [I1 [rs' [E1 [L1 P1]]]].
      split; auto. exists (r :: rs'). split; [rewrite E1, <- app_assoc; reflexivity|]. split; [cbn; lia|].
      intros [|k] a0 Hk; cbn [nth_error] in *.
      + inversion Hk; subst a0. destruct a as [rq i ok order|rq v order|keep]; auto. cbn in Es.
        destruct (valid rq) eqn:Hv; cbn in Es.
        * destruct (hit_via c rq i) as [bs|] eqn:Eh.
          -- inversion Es; subst. split; [apply (hit_correct c' rq i bs HI Hv Eh)|reflexivity].
          -- destruct ok; inversion Es; subst; auto.
        * inversion Es; subst. auto.
      + apply P1; auto. }
  destruct (G hist c0 [] Ht H0) as [I1 [rs' [E1 [L1 P1]]]]. split; auto.
  intros k a Hk. cbn [app] in E1. rewrite E1. apply P1; auto.
Qed.
End RC.
Print Assumptions transparent.
