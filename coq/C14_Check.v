(* C14: statements in their `load_auto` (finite store, fuel never exhausted) form, and the executable
   checker the harness's case files are evaluated with.  The checker runs [load_auto isort], [crc64],
   [fnv1a], [wstore]/[wframe] - the functions the theorems are about. *)
From Coq Require Import List Arith Lia Bool PeanoNat NArith ZArith Sorting.Sorted Sorting.Permutation.
Import ListNotations.
Require Import C14_Hash C14_Frames C14_Term C14_Layout.

(* ---------- "never Ok" + "never out of fuel" = an error ---------- *)
Lemma not_ok_is_err srt sl f0 :
  (forall d, load_auto srt sl f0 <> Ok d) -> exists e, load_auto srt sl f0 = Err e.
Proof.
  intros H. pose proof (load_auto_total srt sl f0) as T.
  destruct (load_auto srt sl f0) as [d|e|]; [exfalso; apply (H d); reflexivity|eauto|congruence].
Qed.

(* any accepted payload that differs from the written one is a checksum collision *)
Theorem wrong_bytes_need_collision srt st fuel f0 d d' h :
  f_hash f0 = Some h -> (crc64 d = h \/ fnv1a d = h) ->
  load srt st fuel f0 = Ok d' -> d' <> d ->
  (crc64 d' = crc64 d \/ fnv1a d' = crc64 d \/ crc64 d' = fnv1a d \/ fnv1a d' = fnv1a d).
Proof.
  intros Hh Hw H _. unfold load in H. destruct (collect srt st fuel [] f0) as [[s fs]| |]; try discriminate.
  assert (F : finish f0 fs = Ok d' -> crc64 d' = h \/ fnv1a d' = h).
  { unfold finish. rewrite Hh. destruct (verify_hash (payload fs) h) eqn:V; [|discriminate].
    intros X; inversion X; subst. now apply verify_hash_spec. }
  assert (G : crc64 d' = h \/ fnv1a d' = h).
  { destruct (f_total f0); [destruct (Z.eqb _ _); [|discriminate]|]; auto. }
  destruct Hw as [<-|<-], G as [G|G]; auto.
Qed.


(* ---------- statements of Properties/C14.v that need a few lines of glue ---------- *)
Lemma roundtrip_split : forall (srt : list frame -> list frame),
  (forall l, Permutation (srt l) l) -> (forall l, fsorted (srt l)) ->
  forall (cidof : nat -> cid) (d : list N) (nframes k : nat) (use_fnv : bool),
  1 <= k -> 1 <= nframes ->
  (forall i j, i < nframes -> j < nframes -> cidof i = cidof j -> i = j) ->
  let h := Some (if use_fnv then fnv1a d else crc64 d) in
  load_auto srt (wstore cidof (chunk_even nframes d) k h) (wframe cidof (chunk_even nframes d) k h 0) = Ok d.
Proof.
  intros srt Hp Hs cidof d nframes k use_fnv Hk Hn Hinj h.
  assert (L : length (chunk_even nframes d) = nframes) by apply chunk_length.
  assert (C : concat (chunk_even nframes d) = d) by (apply chunk_concat; exact Hn).
  replace (Ok d) with (Ok (A := list N) (concat (chunk_even nframes d))) by (rewrite C; reflexivity).
  apply layout_roundtrip_auto; auto.
  - rewrite L; exact Hn.
  - rewrite L; exact Hinj.
  - apply wstore_has; auto; rewrite L; auto.
  - unfold hash_recorded_ok, h. rewrite C. destruct use_fnv; auto.
Qed.

Lemma reassemble_any_tree : forall (srt : list frame -> list frame) (st : cid -> option frame),
  (forall l, Permutation (srt l) l) -> (forall l, fsorted (srt l)) ->
  forall (t : ltree) (ideal : list frame) (chunks : list (list N)) (fuel : nat),
  realises st t -> NoDup (tcids t) -> tdepth t <= fuel ->
  map idx ideal = map Z.of_nat (seq 0 (length chunks)) -> map f_data ideal = chunks ->
  Forall (fun f => f_index f <> None) ideal ->
  Permutation (tflat t) ideal ->
  exists seen', collect srt st fuel [] (root t) = Ok (seen', ideal) /\
                payload ideal = concat chunks /\ length ideal = length chunks.
Proof.
  intros srt st Hp Hs t ideal chunks fuel Hr Hnd Hd Hi Hda Hix Hperm.
  destruct (collect_tree srt st (tsize t) t (le_n _) Hr fuel [] Hd Hnd (fun _ _ F => F)) as [s [E _]].
  destruct (reassemble_tree srt Hp Hs t ideal chunks (conj Hi (conj Hda Hix)) Hperm) as [Hc [Hpl Hl]].
  exists s. rewrite Hc in *. auto.
Qed.

Lemma drop_dup_rejected : forall (srt : list frame -> list frame),
  (forall l, Permutation (srt l) l) -> (forall l, fsorted (srt l)) ->
  forall (cidof : nat -> cid) (chunks : list (list N)) (k : nat) (hsh : option N),
  1 <= k -> 1 <= length chunks ->
  (forall i j, i < length chunks -> j < length chunks -> cidof i = cidof j -> i = j) ->
  let n := length chunks in
  let W := wframe cidof chunks k hsh in
  (* (a) *)
  (forall sl j, 1 <= j < n ->
     (forall i, 1 <= i < n -> i <> j -> lookup sl (cidof i) = Some (W i)) -> lookup sl (cidof j) = None ->
     exists e, load_auto srt sl (W 0) = Err e) /\
  (* (b) *)
  (forall sl p g f0, p < n -> ~ NoDup (f_next g) ->
     (forall i, 1 <= i < p -> lookup sl (cidof i) = Some (W i)) ->
     (p = 0 -> f0 = g) -> (1 <= p -> f0 = W 0 /\ lookup sl (cidof p) = Some g) ->
     exists e, load_auto srt sl f0 = Err e) /\
  (* (c) *)
  (forall sl p j g f0, p < n -> 1 <= j < n -> In (cidof j) (f_next (W p)) ->
     g = mkF hsh (Some (Z.of_nat p)) (Some (Z.of_nat n)) (nth p chunks [])
             (remove N.eq_dec (cidof j) (f_next (W p))) ->
     (forall i, 1 <= i < n -> i <> p -> lookup sl (cidof i) = Some (W i)) ->
     (p = 0 -> f0 = g) -> (1 <= p -> f0 = W 0 /\ lookup sl (cidof p) = Some g) ->
     exists e, load_auto srt sl f0 = Err e).
Proof.
  intros srt Hp Hs cidof chunks k hsh Hk Hn Hinj n W. split; [|split].
  - intros sl j Hj Hst Hnone. apply not_ok_is_err.
    apply (layout_missing_rejected srt Hp Hs cidof chunks k hsh Hk Hn (lookup sl) (S (length sl)) j Hj Hst Hnone).
  - intros sl p g f0 Hpn Hnd Hst H0 H1. apply not_ok_is_err.
    apply (layout_dup_link_rejected srt Hp Hs cidof chunks k hsh Hk Hn Hinj (lookup sl) (S (length sl)) p g f0 Hpn Hnd Hst H0 H1).
  - intros sl p j g f0 Hpn Hj Hin Hg Hst H0 H1. apply not_ok_is_err.
    apply (layout_drop_link_rejected srt Hp Hs cidof chunks k hsh Hk Hn Hinj (lookup sl) (S (length sl)) p j g f0 Hpn Hj Hin Hg Hst H0 H1).
Qed.

Lemma repair_preserves_trees : forall srt (st : cid -> option frame) t fuel,
  realises st t -> NoDup (tcids t) -> tdepth t <= fuel ->
  collect_pinned srt st fuel (root t) = Ok (tcollect srt t) /\
  exists seen', collect srt st fuel [] (root t) = Ok (seen', tcollect srt t).
Proof.
  intros srt st t fuel Hr Hnd Hd. split.
  - apply (collect_pinned_tree srt st (tsize t) t (le_n _) Hr fuel Hd).
  - destruct (collect_tree srt st (tsize t) t (le_n _) Hr fuel [] Hd Hnd (fun _ _ F => F)) as [s [E _]]. eauto.
Qed.

(* ---------- decidable equalities ---------- *)
Fixpoint list_eqb {A} (eqb : A -> A -> bool) (l1 l2 : list A) : bool :=
  match l1, l2 with
  | [], [] => true
  | a :: r, b :: s => eqb a b && list_eqb eqb r s
  | _, _ => false
  end.
Definition opt_eqb {A} (eqb : A -> A -> bool) (a b : option A) : bool :=
  match a, b with Some x, Some y => eqb x y | None, None => true | _, _ => false end.
Definition frame_eqb (a b : frame) : bool :=
  opt_eqb N.eqb (f_hash a) (f_hash b) && opt_eqb Z.eqb (f_index a) (f_index b) &&
  opt_eqb Z.eqb (f_total a) (f_total b) && list_eqb N.eqb (f_data a) (f_data b) &&
  list_eqb N.eqb (f_next a) (f_next b).
Lemma list_eqb_eq {A} (eqb : A -> A -> bool) : (forall a b, eqb a b = true -> a = b) ->
  forall l1 l2, list_eqb eqb l1 l2 = true -> l1 = l2.
Proof.
  intros He. induction l1 as [|a r IH]; destruct l2 as [|b s]; cbn; try discriminate; auto.
  intros H. apply andb_true_iff in H. destruct H as [H1 H2]. f_equal; auto.
Qed.

(* ---------- the cases written by the harness ---------- *)
Definition fr (h : option N) (i t : option Z) (d : list N) (nx : list N) : frame := mkF h i t d nx.

Inductive obs := OOk (d : list N) | OErr.

Inductive case :=
  (* store (as fetched by the getter), first frame, what LoadDataFromDataFrames returned *)
| CLoad (sl : list (cid * frame)) (f0 : frame) (o : obs)
  (* data, hash/crc64 ISO checksum, hash/fnv New64a sum computed by the Go library *)
| CHash (d : list N) (crc fnv : N)
  (* the harness's writer: fan-out, chunks, recorded hash, CID base -> the store and first frame it made *)
| CLayout (k : nat) (chunks : list (list N)) (h : option N) (base : N) (sl : list (cid * frame)) (f0 : frame).

Definition collected (sl : list (cid * frame)) (f0 : frame) : option (list frame) :=
  match collect isort (lookup sl) (S (length sl)) [] f0 with Ok (_, fs) => Some fs | _ => None end.
Fixpoint keys_distinct (l : list (option Z)) : bool :=
  match l with
  | [] => true
  | x :: r => negb (existsb (opt_eqb Z.eqb x) r) && keys_distinct r
  end.
(* sort.Slice is not stable: when two collected frames compare equal the Go result may legitimately
   differ from the model's; then only the acceptance conditions are required of an Ok observation *)
Definition ambiguous (sl : list (cid * frame)) (f0 : frame) : bool :=
  match collected sl f0 with Some fs => negb (keys_distinct (map f_index fs)) | None => false end.
Definition acceptable (sl : list (cid * frame)) (f0 : frame) (d' : list N) : bool :=
  match collected sl f0 with
  | Some fs =>
      (match f_total f0 with Some n => Z.eqb (Z.of_nat (length fs)) n | None => true end) &&
      (match f_hash f0 with Some h => verify_hash d' h | None => true end) &&
      Nat.eqb (length d') (length (payload fs))
  | None => false
  end.

Definition check_case (c : case) : bool :=
  match c with
  | CLoad sl f0 o =>
      match load_auto isort sl f0, o with
      | Ok d, OOk d' => list_eqb N.eqb d d' || (ambiguous sl f0 && acceptable sl f0 d')
      | Err _, OErr => true
      | Ok _, OErr => ambiguous sl f0
      | Err _, OOk d' => ambiguous sl f0 && acceptable sl f0 d'
      | OutOfFuel, _ => false
      end
  | CHash d crc fnv => N.eqb (crc64 d) crc && N.eqb (fnv1a d) fnv
  | CLayout k chunks h base sl f0 =>
      let cidof := fun i => (base + N.of_nat i)%N in
      list_eqb (fun a b => N.eqb (fst a) (fst b) && frame_eqb (snd a) (snd b)) (wstore cidof chunks k h) sl &&
      frame_eqb (wframe cidof chunks k h 0) f0
  end.

Fixpoint check_from (i : nat) (cs : list case) : list nat :=
  match cs with
  | [] => []
  | c :: r => if check_case c then check_from (S i) r else i :: check_from (S i) r
  end.
Definition check (cs : list case) : list nat := check_from 0 cs.

(* what a passing load case with an unambiguous order means *)
Lemma check_load_exact sl f0 d' : ambiguous sl f0 = false ->
  check_case (CLoad sl f0 (OOk d')) = true -> load_auto isort sl f0 = Ok d'.
Proof.
  intros Ha. cbn. rewrite Ha. destruct (load_auto isort sl f0) as [d|e|]; cbn; try discriminate.
  rewrite orb_false_r. intros H. f_equal. apply (list_eqb_eq N.eqb); [|exact H].
  intros a b E. now apply N.eqb_eq.
Qed.
Lemma check_load_err sl f0 : ambiguous sl f0 = false ->
  check_case (CLoad sl f0 OErr) = true -> exists e, load_auto isort sl f0 = Err e.
Proof.
  intros Ha. cbn. rewrite Ha. destruct (load_auto isort sl f0) as [d|e|]; try discriminate. eauto.
Qed.
