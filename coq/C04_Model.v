(* C04 — Go-level model of the compact-index builders and readers (compactindexsized, deprecated/compactindex,
   deprecated/compactindex36) on top of the byte-level core CI.v / C04_Core.v.

   What this file adds to the core, following the Go code:
     * the narrowings written out: entry stride  uint8(HashSize)+uint8(valueSize)  = [stride8],
       key length in the spill tuple  uint16(len(key))  = [keylen16], NumBuckets uint32, byte(len) in metadata;
     * the per-bucket spill stream (tempBucket.writeTuple) and its re-reading (hashBucket) = [spill]/[parse_spill]:
       a key longer than 65535 bytes mis-frames the stream, exactly as in the code;
     * builder outcomes  BOk file | BErr e | BPanic  and the input validation of the builders, with a [variant]
       saying whether the two range checks of the repair (fixes/C04-*.diff) are present;
     * the three formats as a [format] record (header bytes, value size in the spill, value bytes in an entry,
       value transform at marshalEntry);
     * [build_fmt_seal]: under the repaired validation the Go-level builder IS the core [CI.seal].
   All functions are executable. *)
From Coq Require Import List Arith Lia Bool PeanoNat NArith Sorting.Permutation.
Import ListNotations.
Require Import YF.Eytz YF.Eytz3 YF.Codec YF.ReadAt YF.CI YF.C04_Core YF.Generated.ConstsC04.
Close Scope N_scope.
Arguments Nat.mul : simpl never.
Arguments Nat.modulo : simpl never.
Arguments Nat.div : simpl never.

(* ------------------------------------------------------------------ narrowings *)
Definition u8 (x : nat) : nat := x mod 256.
(* build.go getEntryStride / query.go entryStride:  uint8(HashSize) + uint8(offsetSize)  (uint8 addition wraps) *)
Definition stride8 (evs : nat) : nat := (u8 3 + u8 evs) mod 256.
(* build.go writeTuple:  binary.LittleEndian.PutUint16(static[0:2], uint16(len(key))) *)
Definition keylen16 (k : list N) : N := (N.of_nat (length k) mod 65536)%N.
(* copy(static[2:], value): a short value is zero-padded, a long one cut *)
Definition fit (svs : nat) (v : list N) : list N := firstn svs (v ++ repeat 0%N svs).

Lemma stride8_small evs : 3 + evs < 256 -> stride8 evs = 3 + evs.
Proof. intros H. unfold stride8, u8. rewrite (Nat.mod_small 3), (Nat.mod_small evs), Nat.mod_small; lia. Qed.
Lemma u8_small x : x < 256 -> u8 x = x.
Proof. intros H. unfold u8. apply Nat.mod_small; lia. Qed.
Lemma stride8_wraps evs : 253 <= evs <= 255 -> stride8 evs = evs - 253.
Proof.
  intros H. unfold stride8, u8. rewrite (Nat.mod_small 3), (Nat.mod_small evs) by lia.
  replace (3 + evs) with ((evs - 253) + 1 * 256) by lia. rewrite Nat.mod_add by lia. apply Nat.mod_small. lia.
Qed.
Lemma fit_id svs v : length v = svs -> fit svs v = v.
Proof. intros H. unfold fit. rewrite firstn_app, H, Nat.sub_diag. cbn. rewrite app_nil_r. apply firstn_all2. lia. Qed.
Lemma fit_length svs v : length (fit svs v) = svs.
Proof. unfold fit. rewrite firstn_length, app_length, repeat_length. lia. Qed.

(* ------------------------------------------------------------------ spill stream *)
Definition tuple (svs : nat) (x : kv) : list N :=
  le_enc 2 (keylen16 (fst x)) ++ fit svs (snd x) ++ fst x.
Definition spill (svs : nat) (l : list kv) : list N := concat (map (tuple svs) l).

(* hashBucket: for each of the [n] records read 2+svs static bytes, then keyLen key bytes (io.ReadFull) *)
Fixpoint parse_spill (svs n : nat) (s : list N) : option (list kv) :=
  match n with
  | O => Some []
  | S m =>
    if length s <? 2 + svs then None
    else
      let kl := N.to_nat (le_dec (firstn 2 s)) in
      let v := firstn svs (skipn 2 s) in
      let rest := skipn (2 + svs) s in
      if length rest <? kl then None
      else match parse_spill svs m (skipn kl rest) with
           | None => None
           | Some r => Some ((firstn kl rest, v) :: r)
           end
  end.

Definition key_ok (k : list N) : Prop := (N.of_nat (length k) <= 65535)%N.
Definition keys_ok (l : list kv) : Prop := Forall (fun x => key_ok (fst x)) l.
Definition fitted (svs : nat) (l : list kv) : list kv := map (fun x => (fst x, fit svs (snd x))) l.

Lemma parse_spill_roundtrip svs l : forall tail, keys_ok l ->
  parse_spill svs (length l) (spill svs l ++ tail) = Some (fitted svs l).
Proof.
  induction l as [|[k v] l IH]; intros tail H; [reflexivity|].
  inversion H as [|? ? Hk Hl]; subst. cbn [fst] in Hk. unfold key_ok in Hk.
  cbn [length parse_spill spill map concat fitted fst snd]. fold (spill svs l). fold (fitted svs l).
  unfold tuple. cbn [fst snd]. unfold keylen16. rewrite N.mod_small by lia.
  rewrite <- !app_assoc.
  set (T := fit svs v ++ k ++ spill svs l ++ tail).
  assert (Hlen : length (le_enc 2 (N.of_nat (length k)) ++ T) = 2 + svs + length k + length (spill svs l ++ tail)).
  { unfold T. rewrite !app_length, le_enc_length, fit_length. lia. }
  replace (length (le_enc 2 (N.of_nat (length k)) ++ T) <? 2 + svs) with false
    by (symmetry; apply Nat.ltb_ge; lia).
  rewrite firstn_le_enc_app. rewrite (le_roundtrip 2) by (change (256 ^ N.of_nat 2)%N with 65536%N; lia).
  rewrite Nat2N.id.
  replace (skipn (2 + svs) (le_enc 2 (N.of_nat (length k)) ++ T)) with (k ++ spill svs l ++ tail).
  2:{ rewrite skipn_plus, skipn_le_enc_app. unfold T. rewrite skipn_app, fit_length, Nat.sub_diag. cbn [skipn].
      rewrite skipn_all2 by (rewrite fit_length; lia). reflexivity. }
  replace (length (k ++ spill svs l ++ tail) <? length k) with false
    by (symmetry; apply Nat.ltb_ge; rewrite app_length; lia).
  rewrite skipn_app, Nat.sub_diag, skipn_all. cbn [skipn app].
  rewrite IH by exact Hl.
  rewrite firstn_app, Nat.sub_diag, firstn_all. cbn [firstn]. rewrite app_nil_r.
  cbn [le_enc app]. unfold T. rewrite firstn_app, fit_length, Nat.sub_diag. cbn [firstn]. rewrite app_nil_r.
  rewrite firstn_all2 by (rewrite fit_length; lia). reflexivity.
Qed.

(* ------------------------------------------------------------------ formats, variants, outcomes *)
Record format := {
  f_hdr : list N;              (* file header bytes *)
  f_svs : nat;                 (* value bytes in a spill tuple *)
  f_evs : nat;                 (* value bytes in an index entry (OffsetWidth) *)
  f_vt  : list N -> list N     (* marshalEntry: spill value -> entry value bytes *)
}.

(* which of the two range checks of the repair are present in the builder *)
Record variant := { v_check_vs : bool; v_check_keylen : bool }.
Definition repaired : variant := {| v_check_vs := true; v_check_keylen := true |}.
Definition pinned : variant := {| v_check_vs := false; v_check_keylen := false |}.

Inductive berr := EValueSize | ENumItems | EKeyLen | ECollision | EShort.
Inductive bres := BOk (f : list N) | BErr (e : berr) | BPanic.
Inductive sres := SOk (bs : list (nat * list kv)) | SErr (e : berr) | SPanic.

Definition attempts : nat := N.to_nat sized_mineAttempts.
Definition transformed (fm : format) (l : list kv) : list kv := map (fun x => (fst x, f_vt fm (snd x))) l.
Definition long_key (x : kv) : bool := (65535 <? N.of_nat (length (fst x)))%N.

Lemma long_key_false l : existsb long_key l = false <-> keys_ok l.
Proof.
  unfold keys_ok, key_ok, long_key. induction l as [|x l IH]; cbn [existsb]; [split; auto|].
  rewrite orb_false_iff, IH. split.
  - intros [H1 H2]. constructor; auto. apply N.ltb_ge in H1. exact H1.
  - intros H. inversion H; subst. split; auto. apply N.ltb_ge. assumption.
Qed.

Lemma existsb_perm {T} (f : T -> bool) l l' : Permutation l l' -> existsb f l = existsb f l'.
Proof.
  intros P. destruct (existsb f l) eqn:E; destruct (existsb f l') eqn:E'; auto.
  - apply existsb_exists in E. destruct E as [x [Hx Hf]].
    assert (existsb f l' = true) by (apply existsb_exists; exists x; split; auto; eapply Permutation_in; eauto). congruence.
  - apply existsb_exists in E'. destruct E' as [x [Hx Hf]].
    assert (existsb f l = true) by (apply existsb_exists; exists x; split; auto; eapply Permutation_in; [apply Permutation_sym|]; eauto). congruence.
Qed.

Section Model.
Variable hash : N -> list N -> N.          (* EntryHash64(domain, key) *)
Variable bucket_of : nat -> list N -> nat. (* Header.BucketHash *)
Hypothesis bucket_of_lt : forall nb k, 0 < nb -> bucket_of nb k < nb.

Notation bucket_kvs := (bucket_kvs bucket_of).
Notation mine := (mine hash).
Notation h24 := (h24 hash).

(* Builder.Seal: bucket after bucket: flush, mine (re-reading the spill file for every domain), write entries.
   marshalEntry slices buf[0:3] and buf[3:3+OffsetWidth] of a buffer of [stride8] bytes: when the uint8 stride
   wrapped below 3 the first entry written panics. *)
Fixpoint seal_buckets (fm : format) (nb b n : nat) (kvs : list kv) : sres :=
  match n with
  | O => SOk []
  | S m =>
    let l := bucket_kvs nb b kvs in
    match parse_spill (f_svs fm) (length l) (spill (f_svs fm) l) with
    | None => SErr EShort
    | Some recs =>
      let es := transformed fm recs in
      match mine attempts 0 es with
      | None => SErr ECollision
      | Some d =>
        if negb (Nat.eqb (length es) 0) && (stride8 (f_evs fm) <? 3) then SPanic
        else match seal_buckets fm nb (S b) m kvs with
             | SOk r => SOk ((d, es) :: r)
             | e => e
             end
      end
    end
  end.

Definition assemble (fm : format) (nb : nat) (bs : list (nat * list kv)) : list N :=
  let lay := layout hash (length (f_hdr fm) + 16 * nb) bs in
  f_hdr fm ++ table lay ++ body hash lay.

(* Insert (all pairs, in order) then Seal *)
Definition build_fmt (var : variant) (fm : format) (nb : nat) (kvs : list kv) : bres :=
  if v_check_keylen var && existsb long_key kvs then BErr EKeyLen
  else match seal_buckets fm nb 0 nb kvs with
       | SOk bs => BOk (assemble fm nb bs)
       | SErr e => BErr e
       | SPanic => BPanic
       end.

(* ------------------------------------------------------------------ reader *)
(* Bucket.loadEntry + unmarshalEntry with the uint8 stride and OffsetWidth = uint8(valueSize) *)
Definition load_entry8 (evs : nat) (file : list N) (off i : nat) : option entry :=
  let st := stride8 evs in
  match read_at file (off + i * st) st with
  | Some bs => if st <? 3 then None (* Go: buf[0:3] of a shorter buffer panics; never reached on built files *)
               else Some (le_dec (firstn 3 bs), firstn (u8 evs) (skipn 3 bs))
  | None => None
  end.

(* DB.Lookup after Open: bucket header at hlen + 16*bucket, then the eytzinger search.
   HashLen is read from the bucket header by the code; every builder writes 3 and the model fixes it to 3. *)
Definition lookup_at (evs hlen nb : nat) (file : list N) (k : list N) : res :=
  match read_at file (hlen + 16 * bucket_of nb k) 16 with
  | None => ReadErr
  | Some bh =>
      let '(d, n, hl, off) := parse_bucket_hdr bh in
      search_get (S n) (load_entry8 evs file off) n (h24 (N.of_nat d) k) 0
  end.

Lemma search_get_ext f : forall g g' n x i, (forall j, g j = g' j) ->
  search_get f g n x i = search_get f g' n x i.
Proof.
  induction f as [|f IH]; intros g g' n x i H; cbn [search_get]; auto.
  destruct (i <? n); auto. rewrite H. destruct (g' i); auto. destruct (N.eqb _ _); auto.
Qed.

Lemma load_entry8_eq evs file off i : 3 + evs < 256 -> load_entry8 evs file off i = load_entry evs file off i.
Proof.
  intros H. unfold load_entry8, load_entry, CI.stride. rewrite stride8_small by exact H.
  destruct (read_at file (off + i * (3 + evs)) (3 + evs)) as [bs|] eqn:E; auto.
  replace (3 + evs <? 3) with false by (symmetry; apply Nat.ltb_ge; lia).
  apply read_at_length in E. rewrite u8_small by lia. rewrite (firstn_all2 (n:=evs) (skipn 3 bs)); auto. rewrite skipn_length. lia.
Qed.

Lemma lookup_at_core evs hdr nb file k : 3 + evs < 256 ->
  lookup_at evs (length hdr) nb file k = CI.lookup hash bucket_of evs hdr nb file k.
Proof.
  intros H. unfold lookup_at, CI.lookup. destruct (read_at file _ 16) as [bh|]; auto.
  destruct (parse_bucket_hdr bh) as [[[d n] hl] off]. apply search_get_ext. intros j. now apply load_entry8_eq.
Qed.

(* ------------------------------------------------------------------ the Go-level builder is the core builder *)
Definition fmt_ok (fm : format) : Prop := 3 + f_evs fm < 256.
Definition stored (fm : format) (kvs : list kv) : list kv := transformed fm (fitted (f_svs fm) kvs).
Definition lift (o : option (list N)) : bres := match o with Some f => BOk f | None => BErr ECollision end.

Lemma bucket_kvs_map (g : list N -> list N) nb b kvs :
  bucket_kvs nb b (map (fun x => (fst x, g (snd x))) kvs) = map (fun x => (fst x, g (snd x))) (bucket_kvs nb b kvs).
Proof.
  unfold CI.bucket_kvs. induction kvs as [|x r IH]; cbn [map filter fst]; auto.
  destruct (Nat.eqb (bucket_of nb (fst x)) b); cbn [map]; now rewrite IH.
Qed.

Lemma keys_ok_bucket nb b kvs : keys_ok kvs -> keys_ok (bucket_kvs nb b kvs).
Proof.
  unfold keys_ok, CI.bucket_kvs. intros H. apply Forall_forall. intros x Hx. apply filter_In in Hx.
  rewrite Forall_forall in H. apply H. tauto.
Qed.

Lemma stored_bucket fm nb b kvs : bucket_kvs nb b (stored fm kvs) = transformed fm (fitted (f_svs fm) (bucket_kvs nb b kvs)).
Proof. unfold stored, transformed, fitted. now rewrite !bucket_kvs_map. Qed.

Lemma seal_buckets_core fm nb n : forall b kvs, keys_ok kvs -> fmt_ok fm ->
  seal_buckets fm nb b n kvs =
  match mine_all hash bucket_of attempts nb b n (stored fm kvs) with Some bs => SOk bs | None => SErr ECollision end.
Proof.
  induction n as [|n IH]; intros b kvs Hk Hf; cbn [seal_buckets CI.mine_all]; auto.
  pose proof (parse_spill_roundtrip (f_svs fm) (bucket_kvs nb b kvs) [] (keys_ok_bucket nb b kvs Hk)) as R.
  rewrite app_nil_r in R. rewrite R. rewrite stored_bucket.
  destruct (mine attempts 0 _) as [d|]; auto.
  replace (stride8 (f_evs fm) <? 3) with false
    by (symmetry; apply Nat.ltb_ge; rewrite stride8_small by exact Hf; lia).
  rewrite andb_false_r. rewrite IH by auto.
  destruct (mine_all hash bucket_of attempts nb (S b) n (stored fm kvs)); auto.
Qed.

(* with the key-length check: an over-long key is refused, otherwise the file is the core's [seal] of the
   stored pairs (values padded/cut to the spill size, then transformed by marshalEntry) *)
Theorem build_fmt_seal fm nb kvs : fmt_ok fm ->
  build_fmt repaired fm nb kvs =
  if existsb long_key kvs then BErr EKeyLen
  else lift (CI.seal hash bucket_of attempts (f_hdr fm) nb (stored fm kvs)).
Proof.
  intros Hf. unfold build_fmt. cbn [v_check_keylen repaired andb].
  destruct (existsb long_key kvs) eqn:E; auto. apply long_key_false in E.
  rewrite seal_buckets_core by auto. unfold CI.seal, assemble, lift.
  destruct (mine_all hash bucket_of attempts nb 0 nb (stored fm kvs)); auto.
Qed.

(* without the check (pinned tree) the same holds as long as no key is over-long *)
Theorem build_fmt_seal_any var fm nb kvs : fmt_ok fm -> keys_ok kvs ->
  build_fmt var fm nb kvs = lift (CI.seal hash bucket_of attempts (f_hdr fm) nb (stored fm kvs)).
Proof.
  intros Hf Hk. unfold build_fmt. rewrite (proj2 (long_key_false kvs) Hk), andb_false_r.
  rewrite seal_buckets_core by auto. unfold CI.seal, assemble, lift.
  destruct (mine_all hash bucket_of attempts nb 0 nb (stored fm kvs)); auto.
Qed.

Lemma stored_keys fm kvs : map fst (stored fm kvs) = map fst kvs.
Proof. unfold stored, transformed, fitted. rewrite !map_map. reflexivity. Qed.

Lemma stored_in fm kvs k v : In (k, v) kvs -> In (k, f_vt fm (fit (f_svs fm) v)) (stored fm kvs).
Proof.
  intros H. unfold stored, transformed, fitted. rewrite map_map. apply in_map_iff. exists (k, v). split; auto.
Qed.

Lemma stored_in_inv fm kvs k w : In (k, w) (stored fm kvs) -> exists v, In (k, v) kvs /\ w = f_vt fm (fit (f_svs fm) v).
Proof.
  unfold stored, transformed, fitted. rewrite map_map. intros H. apply in_map_iff in H.
  destruct H as [[k0 v0] [E Hin]]. cbn [fst snd] in E. inversion E; subst. eauto.
Qed.

Lemma stored_perm fm kvs kvs' : Permutation kvs kvs' -> Permutation (stored fm kvs) (stored fm kvs').
Proof. intros P. unfold stored, transformed, fitted. now repeat apply Permutation_map. Qed.

Lemma stored_length fm kvs : length (stored fm kvs) = length kvs.
Proof. unfold stored, transformed, fitted. now rewrite !map_length. Qed.

Lemma attempts_small : (N.of_nat attempts <= 256 ^ 4)%N.
Proof. unfold attempts. rewrite N2Nat.id. vm_compute. discriminate. Qed.

Definition entry_sized (fm : format) : Prop := forall v, length v = f_svs fm -> length (f_vt fm v) = f_evs fm.

Lemma stored_sized fm kvs : entry_sized fm -> Forall (fun x => length (snd x) = f_evs fm) (stored fm kvs).
Proof.
  intros H. apply Forall_forall. intros [k w] Hin. apply stored_in_inv in Hin. destruct Hin as [v [_ ->]].
  cbn [snd]. apply H. apply fit_length.
Qed.

(* ------------------------------------------------------------------ generic theorems (any format) *)
(* every inserted key is found, with the stored form of its value *)
Theorem fmt_found fm nb kvs file k v :
  fmt_ok fm -> entry_sized fm -> 0 < nb ->
  build_fmt repaired fm nb kvs = BOk file ->
  (N.of_nat (length file) < 256 ^ 6)%N -> (N.of_nat (length kvs) < 256 ^ 4)%N ->
  In (k, v) kvs ->
  lookup_at (f_evs fm) (length (f_hdr fm)) nb file k = Found (f_vt fm (fit (f_svs fm) v)).
Proof.
  intros Hf Hs Hnb Hb Hsize Hcount Hin. rewrite build_fmt_seal in Hb by auto.
  destruct (existsb long_key kvs); [discriminate|]. unfold lift in Hb.
  destruct (CI.seal _ _ _ _ _ _) as [f|] eqn:E; [|discriminate]. inversion Hb; subst f.
  rewrite lookup_at_core by exact Hf.
  eapply (found hash bucket_of bucket_of_lt attempts (f_evs fm) (f_hdr fm) nb (stored fm kvs)); eauto.
  - apply attempts_small.
  - apply stored_sized; auto.
  - now rewrite stored_length.
  - now apply stored_in.
Qed.

Theorem fmt_false_positive_char fm nb kvs file k' w :
  fmt_ok fm -> entry_sized fm -> 0 < nb ->
  build_fmt repaired fm nb kvs = BOk file ->
  (N.of_nat (length file) < 256 ^ 6)%N -> (N.of_nat (length kvs) < 256 ^ 4)%N ->
  lookup_at (f_evs fm) (length (f_hdr fm)) nb file k' = Found w ->
  exists k v d, In (k, v) kvs /\ w = f_vt fm (fit (f_svs fm) v) /\ bucket_of nb k = bucket_of nb k' /\
                mine attempts 0 (bucket_kvs nb (bucket_of nb k') (stored fm kvs)) = Some d /\
                h24 (N.of_nat d) k = h24 (N.of_nat d) k'.
Proof.
  intros Hf Hs Hnb Hb Hsize Hcount Hl. rewrite build_fmt_seal in Hb by auto.
  destruct (existsb long_key kvs); [discriminate|]. unfold lift in Hb.
  destruct (CI.seal _ _ _ _ _ _) as [f|] eqn:E; [|discriminate]. inversion Hb; subst f.
  rewrite lookup_at_core in Hl by exact Hf.
  destruct (false_positive_char hash bucket_of bucket_of_lt attempts (f_evs fm) (f_hdr fm) nb (stored fm kvs) file k' w)
    as [k [d [Hin [Hbk [Hm Hh]]]]]; auto.
  - apply attempts_small.
  - apply stored_sized; auto.
  - now rewrite stored_length.
  - apply stored_in_inv in Hin. destruct Hin as [v [Hin ->]]. exists k, v, d. tauto.
Qed.

Theorem fmt_no_read_error fm nb kvs file k :
  fmt_ok fm -> entry_sized fm -> 0 < nb ->
  build_fmt repaired fm nb kvs = BOk file ->
  (N.of_nat (length file) < 256 ^ 6)%N -> (N.of_nat (length kvs) < 256 ^ 4)%N ->
  lookup_at (f_evs fm) (length (f_hdr fm)) nb file k <> ReadErr.
Proof.
  intros Hf Hs Hnb Hb Hsize Hcount. rewrite build_fmt_seal in Hb by auto.
  destruct (existsb long_key kvs); [discriminate|]. unfold lift in Hb.
  destruct (CI.seal _ _ _ _ _ _) as [f|] eqn:E; [|discriminate]. inversion Hb; subst f.
  rewrite lookup_at_core by exact Hf.
  eapply (no_read_error hash bucket_of bucket_of_lt attempts (f_evs fm) (f_hdr fm) nb (stored fm kvs)); eauto.
  - apply attempts_small.
  - apply stored_sized; auto.
  - now rewrite stored_length.
Qed.

(* a key that shares (bucket, 24-bit hash under the bucket's domain) with no inserted key is reported absent *)
Theorem fmt_absent fm nb kvs file k :
  fmt_ok fm -> entry_sized fm -> 0 < nb ->
  build_fmt repaired fm nb kvs = BOk file ->
  (N.of_nat (length file) < 256 ^ 6)%N -> (N.of_nat (length kvs) < 256 ^ 4)%N ->
  (forall d k0 v0, mine attempts 0 (bucket_kvs nb (bucket_of nb k) (stored fm kvs)) = Some d -> In (k0, v0) kvs ->
                   bucket_of nb k0 = bucket_of nb k -> h24 (N.of_nat d) k0 <> h24 (N.of_nat d) k) ->
  lookup_at (f_evs fm) (length (f_hdr fm)) nb file k = NotFound.
Proof.
  intros Hf Hs Hnb Hb Hsize Hcount Hno. rewrite build_fmt_seal in Hb by auto.
  destruct (existsb long_key kvs); [discriminate|]. unfold lift in Hb.
  destruct (CI.seal _ _ _ _ _ _) as [f|] eqn:E; [|discriminate]. inversion Hb; subst f.
  rewrite lookup_at_core by exact Hf.
  eapply (absent hash bucket_of bucket_of_lt attempts (f_evs fm) (f_hdr fm) nb (stored fm kvs)); eauto.
  - apply attempts_small.
  - apply stored_sized; auto.
  - now rewrite stored_length.
  - intros d k0 w Hm Hin Hbk. apply stored_in_inv in Hin. destruct Hin as [v0 [Hin _]]. eapply Hno; eauto.
Qed.

(* ------------------------------------------------------------------ the pinned builder and an over-long key *)
(* without the key-length check a key of exactly 65536 bytes is recorded with length 0: hashBucket reads the
   EMPTY key back; the file is the one that inserting the empty key would give *)
Lemma parse_spill_long svs K v : N.of_nat (length K) = 65536%N ->
  parse_spill svs 1 (spill svs [(K, v)]) = Some [([], fit svs v)].
Proof.
  intros HK. unfold spill. cbn [map concat]. rewrite app_nil_r. unfold tuple. cbn [fst snd]. unfold keylen16. rewrite HK.
  change (65536 mod 65536)%N with 0%N. cbn [parse_spill].
  replace (length (le_enc 2 0 ++ fit svs v ++ K) <? 2 + svs) with false
    by (symmetry; apply Nat.ltb_ge; rewrite !app_length, le_enc_length, fit_length; lia).
  rewrite firstn_le_enc_app. change (N.to_nat (le_dec (le_enc 2 0))) with 0.
  replace (skipn (2 + svs) (le_enc 2 0 ++ fit svs v ++ K)) with K.
  2:{ rewrite skipn_plus, skipn_le_enc_app. rewrite skipn_app, fit_length, Nat.sub_diag. cbn [skipn].
      rewrite skipn_all2 by (rewrite fit_length; lia). reflexivity. }
  cbn [Nat.ltb Nat.leb skipn firstn].
  replace (length K <? 0) with false by (symmetry; apply Nat.ltb_ge; lia).
  cbn [le_enc app]. rewrite firstn_app, fit_length, Nat.sub_diag. cbn [firstn]. rewrite app_nil_r.
  rewrite firstn_all2 by (rewrite fit_length; lia). reflexivity.
Qed.

Lemma build_fmt_variant fm nb kvs : keys_ok kvs -> build_fmt pinned fm nb kvs = build_fmt repaired fm nb kvs.
Proof.
  intros H. unfold build_fmt. rewrite (proj2 (long_key_false kvs) H), !andb_false_r. reflexivity.
Qed.

Theorem pinned_long_key_as_empty fm K v : N.of_nat (length K) = 65536%N ->
  build_fmt pinned fm 1 [(K, v)] = build_fmt repaired fm 1 [([], v)].
Proof.
  intros HK. rewrite <- build_fmt_variant by (constructor; [unfold key_ok; cbn; lia|constructor]).
  unfold build_fmt. cbn [v_check_keylen pinned andb]. cbn [seal_buckets].
  assert (B : forall k w, bucket_kvs 1 0 [(k, w)] = [(k, w)]).
  { intros k w. unfold CI.bucket_kvs. cbn [filter fst].
    pose proof (bucket_of_lt 1 k ltac:(lia)) as Hb. replace (bucket_of 1 k) with 0 by lia. reflexivity. }
  rewrite !B. cbn [length]. rewrite (parse_spill_long _ K v HK).
  pose proof (parse_spill_roundtrip (f_svs fm) [([], v)] []) as R. rewrite app_nil_r in R. cbn [length] in R.
  rewrite R by (constructor; [unfold key_ok; cbn; lia|constructor]). reflexivity.
Qed.

(* byte-identical files for every insertion order — and the same error when building fails *)
Theorem fmt_order_independent fm nb kvs kvs' : fmt_ok fm -> Permutation kvs kvs' ->
  build_fmt repaired fm nb kvs = build_fmt repaired fm nb kvs'.
Proof.
  intros Hf P. rewrite !build_fmt_seal by auto. rewrite (existsb_perm long_key kvs kvs' P).
  destruct (existsb long_key kvs'); auto.
  now rewrite (seal_perm hash bucket_of attempts (f_hdr fm) nb _ _ (stored_perm fm kvs kvs' P)).
Qed.

Theorem fmt_fail_duplicate fm nb kvs : fmt_ok fm -> 0 < nb -> ~ NoDup (map fst kvs) ->
  exists e, build_fmt repaired fm nb kvs = BErr e.
Proof.
  intros Hf Hnb H. rewrite build_fmt_seal by auto. destruct (existsb long_key kvs); [eauto|].
  rewrite (seal_fails_duplicate hash bucket_of bucket_of_lt attempts (f_hdr fm) nb).
  - exists ECollision. reflexivity.
  - exact Hnb.
  - now rewrite stored_keys.
Qed.

Definition collides_keys (d : nat) (l : list kv) : Prop := ~ NoDup (map (fun x => h24 (N.of_nat d) (fst x)) l).

Theorem fmt_fail_overfull fm nb kvs b : fmt_ok fm -> b < nb ->
  (forall d, d < attempts -> collides_keys d (bucket_kvs nb b kvs)) ->
  exists e, build_fmt repaired fm nb kvs = BErr e.
Proof.
  intros Hf Hb H. rewrite build_fmt_seal by auto. destruct (existsb long_key kvs); [eauto|].
  rewrite (seal_fails_overfull hash bucket_of bucket_of_lt attempts (f_hdr fm) nb (stored fm kvs) b Hb).
  { exists ECollision. reflexivity. }
  intros d Hd. unfold collides. rewrite stored_bucket. unfold transformed, fitted. rewrite !map_map. cbn [fst].
  exact (H d Hd).
Qed.

Theorem fmt_reject_long_key fm nb kvs : ~ keys_ok kvs -> build_fmt repaired fm nb kvs = BErr EKeyLen.
Proof.
  intros H. unfold build_fmt. cbn [v_check_keylen repaired andb].
  destruct (existsb long_key kvs) eqn:E; auto. apply long_key_false in E. contradiction.
Qed.

(* a successful build means the key set was supported: no over-long key, no duplicate key *)
Theorem fmt_ok_implies_supported fm nb kvs file : fmt_ok fm -> 0 < nb ->
  build_fmt repaired fm nb kvs = BOk file -> keys_ok kvs /\ NoDup (map fst kvs).
Proof.
  intros Hf Hnb H. rewrite build_fmt_seal in H by auto.
  destruct (existsb long_key kvs) eqn:E; [discriminate|]. apply long_key_false in E. split; auto.
  destruct (ListDec.NoDup_dec (list_eq_dec N.eq_dec) (map fst kvs)) as [ND|ND]; auto.
  exfalso. rewrite (seal_fails_duplicate hash bucket_of bucket_of_lt attempts (f_hdr fm) nb) in H; [discriminate|auto|].
  now rewrite stored_keys.
Qed.

End Model.
