(* C15 — deterministic schedulers for the producer/consumer model, and the checker that is run on the
   harness's observations. The checker runs [step]/[run] of C15_Accum (the functions the theorems are
   about) under two different schedules and the specification [groups_spec], on abstracted objects
   (id = position in the file, section length, kind). *)
From Coq Require Import List Arith Lia Bool PeanoNat NArith.
Import ListNotations.
Require Import C15_Accum.

Section Exec.
Variable O : Type.
Variable slen : O -> N.
Variable kind : O -> N.
Variable fk : N.
Variable ign : list N.
Variable cap : nat.

Notation state := (state O).
Notation step := (step O slen kind fk ign cap).
Notation run := (run O slen kind fk ign cap).
Notation measure := (measure O).

(* take the first enabled choice in the order of preference [prefs] *)
Fixpoint first_enabled (s : state) (prefs : list choice) : option (choice * state) :=
  match prefs with
  | [] => None
  | c :: r => match step s c with Some s' => Some (c, s') | None => first_enabled s r end
  end.

Fixpoint exec (fuel : nat) (prefs : list choice) (s : state) (tr : list choice) : state * list choice :=
  match fuel with
  | 0 => (s, rev tr)
  | S f => match first_enabled s prefs with
           | Some (c, s') => exec f prefs s' (c :: tr)
           | None => (s, rev tr)
           end
  end.

Lemma first_enabled_step s prefs c s' : first_enabled s prefs = Some (c, s') -> step s c = Some s'.
Proof.
  induction prefs as [|c0 r IH]; cbn; [discriminate|].
  destruct (step s c0) as [s0|] eqn:E; [|exact IH]. intros H; inversion H; subst. exact E.
Qed.

Lemma first_enabled_none s prefs c : first_enabled s prefs = None -> In c prefs -> step s c = None.
Proof.
  induction prefs as [|c0 r IH]; cbn; [tauto|].
  destruct (step s c0) as [s0|] eqn:E; [discriminate|]. intros H [<-|Hin]; auto.
Qed.

Lemma run_snoc s0 l s c s' : run s0 l = Some s -> step s c = Some s' -> run s0 (l ++ [c]) = Some s'.
Proof. intros H1 H2. rewrite run_app, H1. cbn. now rewrite H2. Qed.

(* the executed trace is a genuine schedule of the model, and it leads to the returned state *)
Lemma exec_is_run fuel prefs : forall s tr s0,
  run s0 (rev tr) = Some s ->
  run s0 (snd (exec fuel prefs s tr)) = Some (fst (exec fuel prefs s tr)).
Proof.
  induction fuel as [|f IH]; intros s tr s0 H; cbn [exec]; [exact H|].
  destruct (first_enabled s prefs) as [[c s']|] eqn:E; [|exact H].
  apply IH. cbn [rev]. eapply run_snoc; [exact H|]. eapply first_enabled_step; eauto.
Qed.

Definition all_choices (prefs : list choice) : Prop := In Prod prefs /\ In Recv prefs /\ In Flush prefs.

(* a scheduler that considers every choice never stops before Run has returned *)
Lemma exec_completes fuel prefs : 1 <= cap -> all_choices prefs -> forall s tr,
  measure s < fuel -> ph (fst (exec fuel prefs s tr)) = Closed.
Proof.
  intros Hcap [HP [HR HF]]. induction fuel as [|f IH]; intros s tr Hm; [lia|]. cbn [exec].
  destruct (first_enabled s prefs) as [[c s']|] eqn:E.
  - apply IH. apply first_enabled_step in E. pose proof (step_decreases _ _ _ _ _ _ _ _ _ E). lia.
  - cbn [fst]. destruct (ph s) eqn:Eph; [| |reflexivity]; exfalso;
      (destruct (progress O slen kind fk ign cap s Hcap) as [c [s' Hs]]; [congruence|]);
      (assert (Hn : step s c = None) by (apply (first_enabled_none s prefs); [exact E|destruct c; assumption]));
      congruence.
Qed.

Definition fuel_for (objs : list O) : nat := 3 * (length objs + 2) + 1.

(* the groups the model delivers under the scheduler [prefs]; None if Run did not return *)
Definition model_groups (prefs : list choice) (hdrlen : N) (nskip : nat) (objs : list O) : option (list (group O)) :=
  let s := fst (exec (fuel_for objs) prefs (init O hdrlen nskip objs) []) in
  match ph s with Closed => Some (delivered s) | _ => None end.

Theorem model_groups_sound prefs hdrlen nskip objs gs :
  model_groups prefs hdrlen nskip objs = Some gs -> gs = groups_spec O slen kind fk ign hdrlen nskip objs.
Proof.
  unfold model_groups. intros H.
  pose proof (exec_is_run (fuel_for objs) prefs (init O hdrlen nskip objs) [] (init O hdrlen nskip objs) eq_refl) as Hr.
  destruct (ph (fst (exec (fuel_for objs) prefs (init O hdrlen nskip objs) []))) eqn:Eph; try discriminate.
  inversion H; subst. eapply groups_delivered; eauto.
Qed.

Theorem model_groups_total prefs hdrlen nskip objs : 1 <= cap -> all_choices prefs ->
  model_groups prefs hdrlen nskip objs = Some (groups_spec O slen kind fk ign hdrlen nskip objs).
Proof.
  intros Hcap Hall.
  assert (Hc : ph (fst (exec (fuel_for objs) prefs (init O hdrlen nskip objs) [])) = Closed).
  { apply exec_completes; auto. unfold measure, fuel_for. cbn. lia. }
  destruct (model_groups prefs hdrlen nskip objs) as [gs|] eqn:E.
  - f_equal. eapply model_groups_sound; eauto.
  - unfold model_groups in E. rewrite Hc in E. discriminate.
Qed.
End Exec.

(* two schedulers at opposite ends: the producer runs ahead until it blocks on the full queue / the
   consumer always runs first (queue never holds more than one group) *)
Definition producer_first : list choice := [Prod; Flush; Recv].
Definition consumer_first : list choice := [Flush; Recv; Prod].
Lemma producer_first_all : all_choices producer_first.
Proof. unfold all_choices, producer_first; cbn; tauto. Qed.
Lemma consumer_first_all : all_choices consumer_first.
Proof. unfold all_choices, consumer_first; cbn; tauto. Qed.

(* ------------------------------------------------------------------------------------------ *)
(* abstracted objects of the case files: (position in the file, section length, kind) *)
Definition aobj := (N * N * N)%type.
Definition a_id (o : aobj) : N := fst (fst o).
Definition a_len (o : aobj) : N := snd (fst o).
Definition a_kind (o : aobj) : N := snd o.

Fixpoint number (i : N) (secs : list (N * N)) : list aobj :=
  match secs with [] => [] | (l, k) :: r => (i, l, k) :: number (i + 1) r end.

(* observation of one delivered object: (position of the object with these bytes, Offset, SectionLength) *)
Definition oitem := (N * N * N)%type.
Definition ogroup := (option oitem * list oitem)%type.

Definition proj_it (it : item aobj) : oitem := (a_id (it_obj it), it_off it, it_len it).
Definition proj_group (g : group aobj) : ogroup :=
  (match fst g with Some p => Some (proj_it p) | None => None end, map proj_it (snd g)).

Definition oitem_eqb (a b : oitem) : bool :=
  let '(a1, a2, a3) := a in let '(b1, b2, b3) := b in N.eqb a1 b1 && N.eqb a2 b2 && N.eqb a3 b3.
Fixpoint list_eqb {A} (eqb : A -> A -> bool) (x y : list A) : bool :=
  match x, y with
  | [], [] => true
  | a :: x', b :: y' => eqb a b && list_eqb eqb x' y'
  | _, _ => false
  end.
Definition ogroup_eqb (a b : ogroup) : bool :=
  (match fst a, fst b with
   | Some p, Some q => oitem_eqb p q
   | None, None => true
   | _, _ => false end) && list_eqb oitem_eqb (snd a) (snd b).

(* one case: header length, sections (length, kind), flush kind, ignore set, skip count, queue capacity
   measured on the implementation, observed callback sequence *)
Definition case := (N * list (N * N) * N * list N * N * N * list ogroup)%type.

Definition spec_obs (hdrlen : N) (secs : list (N * N)) (fk : N) (ign : list N) (nskip : N) : list ogroup :=
  map proj_group (groups_spec aobj a_len a_kind fk ign hdrlen (N.to_nat nskip) (number 0 secs)).

Definition model_obs (prefs : list choice) (cap : nat) (hdrlen : N) (secs : list (N * N)) (fk : N) (ign : list N)
  (nskip : N) : option (list ogroup) :=
  match model_groups aobj a_len a_kind fk ign cap prefs hdrlen (N.to_nat nskip) (number 0 secs) with
  | Some gs => Some (map proj_group gs)
  | None => None
  end.

Definition case_ok (c : case) : bool :=
  let '(hdrlen, secs, fk, ign, nskip, capN, obs) := c in
  let cap := N.to_nat capN in
  (1 <=? cap) &&
  list_eqb ogroup_eqb obs (spec_obs hdrlen secs fk ign nskip) &&
  match model_obs producer_first cap hdrlen secs fk ign nskip with
  | Some m => list_eqb ogroup_eqb obs m | None => false end &&
  match model_obs consumer_first 1 hdrlen secs fk ign nskip with
  | Some m => list_eqb ogroup_eqb obs m | None => false end.

Fixpoint bad_from (i : nat) (cs : list case) : list nat :=
  match cs with [] => [] | c :: t => if case_ok c then bad_from (S i) t else i :: bad_from (S i) t end.
Definition check (cs : list case) : list nat := bad_from 0 cs.

(* what a passing case means: the observation is the specification's answer (and the model's, under
   both schedulers) *)
Lemma oitem_eqb_eq a b : oitem_eqb a b = true -> a = b.
Proof.
  destruct a as [[a1 a2] a3], b as [[b1 b2] b3]. cbn. rewrite !andb_true_iff, !N.eqb_eq.
  intros [[-> ->] ->]. reflexivity.
Qed.
Lemma list_eqb_eq {A} (eqb : A -> A -> bool) : (forall a b, eqb a b = true -> a = b) ->
  forall x y, list_eqb eqb x y = true -> x = y.
Proof.
  intros H. induction x as [|a x IH]; destruct y as [|b y]; cbn; try discriminate; [reflexivity|].
  rewrite andb_true_iff. intros [H1 H2]. f_equal; auto.
Qed.
Lemma ogroup_eqb_eq a b : ogroup_eqb a b = true -> a = b.
Proof.
  destruct a as [pa ca], b as [pb cb]. unfold ogroup_eqb. cbn [fst snd]. rewrite andb_true_iff.
  intros [H1 H2]. apply (list_eqb_eq oitem_eqb oitem_eqb_eq) in H2. subst cb.
  destruct pa as [p|], pb as [q|]; try discriminate; [|reflexivity].
  apply oitem_eqb_eq in H1. now subst.
Qed.

Theorem case_ok_meaning hdrlen secs fk ign nskip capN obs :
  case_ok (hdrlen, secs, fk, ign, nskip, capN, obs) = true ->
  obs = spec_obs hdrlen secs fk ign nskip.
Proof.
  unfold case_ok. rewrite !andb_true_iff. intros [[[_ H] _] _].
  apply (list_eqb_eq ogroup_eqb ogroup_eqb_eq). exact H.
Qed.
