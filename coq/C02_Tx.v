(* C02 — getTransaction payloads: storage.go:getTransactionAndMetaFromNode / parseTransactionAndMetaFromNode =
   reassembly of the transaction payload and of the (zstd-compressed) metadata payload from their data frames
   (C14), then decompression of the metadata. Composition of C14's round trip with the compressor contract:
   the reply's payloads are byte-identical to what was archived, for any frame count, fan-out and CID assignment. *)
From Coq Require Import List Arith Lia Bool PeanoNat NArith Sorting.Permutation.
Import ListNotations.
Require Import C14_Hash C14_Frames C14_Term C14_Layout.

Section Tx.
Variable compress : list N -> list N.
Variable decompress : list N -> option (list N).
Hypothesis zstd_roundtrip : forall x, decompress (compress x) = Some x.
Variable srt : list frame -> list frame.
Hypothesis srt_perm : forall l, Permutation (srt l) l.
Hypothesis srt_sorted : forall l, fsorted (srt l).

Inductive tx_res := TxOk (tx meta : list N) | TxErr.

(* the two first frames are embedded in the Transaction node; continuation frames are fetched by CID *)
Definition get_tx_payloads (store : list (cid * frame)) (first_data first_meta : frame) : tx_res :=
  match load_auto srt store first_data, load_auto srt store first_meta with
  | Ok t, Ok mz => match decompress mz with Some m => TxOk t m | None => TxErr end
  | _, _ => TxErr
  end.

Theorem tx_payloads_byte_identical
  (cid_d cid_m : nat -> cid) (txbytes meta : list N) (nd nm kd km : nat) (store : list (cid * frame)) :
  1 <= kd -> 1 <= km -> 1 <= nd -> 1 <= nm ->
  (forall i j, i < nd -> j < nd -> cid_d i = cid_d j -> i = j) ->
  (forall i j, i < nm -> j < nm -> cid_m i = cid_m j -> i = j) ->
  let cd := chunk_even nd txbytes in
  let cm := chunk_even nm (compress meta) in
  let hd := Some (crc64 txbytes) in
  let hm := Some (crc64 (compress meta)) in
  (* the store holds the continuation frames of both payloads under their CIDs (and possibly anything else) *)
  (forall i, 1 <= i < nd -> lookup store (cid_d i) = Some (wframe cid_d cd kd hd i)) ->
  (forall i, 1 <= i < nm -> lookup store (cid_m i) = Some (wframe cid_m cm km hm i)) ->
  get_tx_payloads store (wframe cid_d cd kd hd 0) (wframe cid_m cm km hm 0) = TxOk txbytes meta.
Proof.
  intros Hkd Hkm Hnd Hnm Id Im cd cm hd hm Sd Sm. unfold get_tx_payloads.
  assert (Ld : length cd = nd) by apply chunk_length.
  assert (Lm : length cm = nm) by apply chunk_length.
  assert (Cd : concat cd = txbytes) by (apply chunk_concat; exact Hnd).
  assert (Cm : concat cm = compress meta) by (apply chunk_concat; exact Hnm).
  assert (Rd : load_auto srt store (wframe cid_d cd kd hd 0) = Ok (concat cd)).
  { apply (layout_roundtrip_auto srt srt_perm srt_sorted cid_d cd kd hd Hkd).
    - rewrite Ld; exact Hnd.
    - rewrite Ld; exact Id.
    - unfold store_has. rewrite Ld. exact Sd.
    - unfold hash_recorded_ok, hd. left. rewrite Cd. reflexivity. }
  assert (Rm : load_auto srt store (wframe cid_m cm km hm 0) = Ok (concat cm)).
  { apply (layout_roundtrip_auto srt srt_perm srt_sorted cid_m cm km hm Hkm).
    - rewrite Lm; exact Hnm.
    - rewrite Lm; exact Im.
    - unfold store_has. rewrite Lm. exact Sm.
    - unfold hash_recorded_ok, hm. left. rewrite Cm. reflexivity. }
  rewrite Rd, Rm, Cd, Cm, zstd_roundtrip. reflexivity.
Qed.
End Tx.
