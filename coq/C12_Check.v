(* C12: checkers evaluated on the case files written by the C12 harness parts (harness/*/c12_test.go). Each case is an
   input that was run through the real Go entry point together with the observed outcome class (0 ok, 1 error,
   2 panic; lookups: 0 found, 1 not found, 2 error, 3 panic); the checker runs the model of C12_Parsers.v — the very
   functions the totality theorems are about — under the guard flags the harness measured on the implementation with
   the witness inputs, and returns the indexes of the cases where model and implementation differ.
   Where a part of the behaviour is abstract in the model (zstd payload, cid.Cast, later identity checks) every class
   the model allows is accepted. *)
From Coq Require Import List Arith Bool NArith.
Import ListNotations.
Require Import YF.Codec YF.C04_Formats.
Require Export YF.C12_Parsers.
Local Open Scope N_scope.

Section Generic.
Context {C : Type}.
Variable ok : C -> bool.
Fixpoint bad_from (i : nat) (cs : list C) : list nat :=
  match cs with
  | [] => []
  | c :: t => if ok c then bad_from (S i) t else i :: bad_from (S i) t
  end.
End Generic.

(* ---------- compactindexsized ---------- *)
Inductive sized_case :=
| COpen (file : list N) (cls vs nb hs : N)
| CLookup (file : list N) (bidx xsum fine : N).

Definition sized_case_ok (g : sized_guards) (c : sized_case) : bool :=
  match c with
  | COpen f cls vs nb hs =>
      match fst (open_sized_c12 g f) with
      | OOk h => (cls =? 0) && (h_vs h =? vs) && (h_nb h =? nb) && (h_size h =? hs)
      | OErr => cls =? 1
      | OPanic _ => cls =? 2
      end
  | CLookup f bidx xsum fine =>
      match fst (open_sized_c12 g f) with
      | OOk h => match lookup_sized_c12 g f h bidx xsum with
                 | LFound => fine =? 0 | LNotFound => fine =? 1 | LErr => fine =? 2 | LPanic _ => fine =? 3 | LFuel => false
                 end
      | OErr => fine =? 2
      | OPanic _ => false
      end
  end.
Definition check_sized (g : sized_guards) (cs : list sized_case) : list nat := bad_from (sized_case_ok g) 0 cs.

(* ---------- metadata ---------- *)
Inductive meta_case :=
| CMetaParse (bs : list N) (cls : N)                  (* indexmeta.Meta.UnmarshalBinary *)
| CMetaU64 (v : option (list N)) (cls : N)            (* Meta.GetUint64 / getDefaultMetadata's epoch: 0 = a value came back *)
| CMetaOpen (v : option (list N)) (cls : N).          (* indexes.OpenWithReader_*: later checks are abstract *)
Definition meta_case_ok (g : bool) (c : meta_case) : bool :=
  match c with
  | CMetaParse bs cls => match parse_meta bs with Some _ => cls =? 0 | None => cls =? 1 end
  | CMetaU64 v cls => match meta_u64 g v with OOk _ => cls =? 0 | OErr => cls =? 1 | OPanic _ => cls =? 2 end
  | CMetaOpen v cls => match meta_u64 g v with OOk _ => (cls =? 0) || (cls =? 1) | OErr => cls =? 1
                       | OPanic _ => (cls =? 2) || (cls =? 1)   (* the kind lookup precedes the epoch: its absence is an error *)
                       end
  end.
Definition check_meta (g : bool) (cs : list meta_case) : list nat := bad_from (meta_case_ok g) 0 cs.

(* ---------- CAR sections ---------- *)
(* bytes left in the stream, what go-cid made of the bytes after the length prefix (None = error, Some c = CID of c
   bytes), observed class and (when ok) bytes consumed *)
Inductive car_case := CCar (bs : list N) (cl : option nat) (cls used : N).
Definition car_case_ok (g : bool) (c : car_case) : bool :=
  match c with
  | CCar bs cl cls used =>
      match fst (car_section g (fun _ => cl) bs) with
      | OOk u => (cls =? 0) && (N.of_nat u =? used)
      | OErr => cls =? 1
      | OPanic _ => cls =? 2
      end
  end.
Definition check_car (g : bool) (cs : list car_case) : list nat := bad_from (car_case_ok g) 0 cs.

(* ---------- block-time index ---------- *)
Inductive bt_case :=
| CBt (bs : list N) (cls st en ep cap : N)
| CBtGet (st en ep cap slot cls : N).
Definition bt_case_ok (g : bt_guards) (c : bt_case) : bool :=
  match c with
  | CBt bs cls st en ep cap =>
      match fst (bt_unmarshal_c12 g bs) with
      | OOk i => (cls =? 0) && (bt_start i =? st) && (bt_end i =? en) && (bt_epoch i =? ep) && (bt_capacity i =? cap)
      | OErr => cls =? 1
      | OPanic _ => cls =? 2
      end
  | CBtGet st en ep cap slot cls => N.eqb (class_of (bt_get g (mk_bt st en ep cap) slot)) cls
  end.
Definition check_bt (g : bt_guards) (cs : list bt_case) : list nat := bad_from (bt_case_ok g) 0 cs.

(* ---------- bucketteer ---------- *)
Inductive bkt_case := CBkt (bs : list N) (cls : N).
Definition bkt_case_ok (g : bool) (c : bkt_case) : bool :=
  match c with CBkt bs cls => N.eqb (class_of (fst (bkt_open g bs))) cls end.
Definition check_bkt (g : bool) (cs : list bkt_case) : list nat := bad_from (bkt_case_ok g) 0 cs.

(* ---------- linked log ---------- *)
Inductive ll_case := CLl (file : list N) (offset size cls : N).
Definition ll_case_ok (g gb : bool) (c : ll_case) : bool :=
  match c with
  | CLl f off size cls =>
      (* the zstd payload is abstract: the class must be one the model allows for SOME decoder answer *)
      N.eqb (class_of (fst (ll_read g gb f off size (fun _ => true)))) cls ||
      N.eqb (class_of (fst (ll_read g gb f off size (fun _ => false)))) cls
  end.
Definition check_ll (g gb : bool) (cs : list ll_case) : list nat := bad_from (ll_case_ok g gb) 0 cs.

(* ---------- kind dispatch ---------- *)
Inductive kind_case := CKind (data : list N) (cls : N) (kind : N).
Definition kind_case_ok (g : bool) (c : kind_case) : bool :=
  match c with
  | CKind d cls k => match kind_of g d with OOk k' => (cls =? 0) && (k' =? k) | OErr => cls =? 1 | OPanic _ => cls =? 2 end
  end.
Definition check_kind (g : bool) (cs : list kind_case) : list nat := bad_from (kind_case_ok g) 0 cs.

(* ---------- GetBlock transaction loop ---------- *)
Inductive blk_case := CBlk (fetched : list bool) (cls : N).
Definition blk_case_ok (g : bool) (c : blk_case) : bool :=
  match c with CBlk f cls => N.eqb (class_of (assemble_block g f)) cls end.
Definition check_blk (g : bool) (cs : list blk_case) : list nat := bad_from (blk_case_ok g) 0 cs.

(* the checkers flag a wrong observation and accept the right one (sanity) *)
Example check_sized_flags_wrong_class :
  check_sized sized_all [COpen w_hdr12 1 0 0 0; COpen w_hdr12 0 0 0 0; COpen w_hdr12 2 0 0 0] = [1; 2]%nat /\
  check_sized sized_none [COpen w_hdr12 2 0 0 0; CLookup (w_idx 1 200) 0 5 3; CLookup (w_idx 1 3) 0 5 0] = [].
Proof. vm_compute. split; reflexivity. Qed.
