From Coq Require Import List Arith Lia Bool PeanoNat.
Import ListNotations.
Require Import RW.

Definition mode_eq_dec (a b : mode) : {a = b} + {a <> b}.
Proof. decide equality. Defined.

Definition cnt (m : mode) (l : list mode) : nat := count_occ mode_eq_dec l m.

Lemma set_nth_length {A} (l : list A) i x : length (set_nth l i x) = length l.
Proof. revert i; induction l as [|h t IH]; intros [|i]; cbn; auto. Qed.

Lemma nth_error_set_nth_same {A} (l : list A) i x : i < length l -> nth_error (set_nth l i x) i = Some x.
Proof. revert i; induction l as [|h t IH]; intros [|i] H; cbn in *; try lia; auto. apply IH; lia. Qed.

Lemma nth_error_set_nth_other {A} (l : list A) i j x : i <> j -> nth_error (set_nth l i x) j = nth_error l j.
Proof. revert i j; induction l as [|h t IH]; intros [|i] [|j] H; cbn; auto; try lia. Qed.

Lemma cnt_set_nth m l i old new :
  nth_error l i = Some old ->
  cnt m (set_nth l i new) + (if mode_eq_dec old m then 1 else 0) = cnt m l + (if mode_eq_dec new m then 1 else 0).
Proof.
  unfold cnt. revert i; induction l as [|h t IH]; intros [|i] H; cbn in *; try discriminate.
  - inversion H; subst. destruct (mode_eq_dec new m), (mode_eq_dec old m); lia.
  - specialize (IH i H). destruct (mode_eq_dec h m); lia.
Qed.

(* ---- the invariant: ghost mode of every thread ---- *)
Record Good (s : state) (modes : list mode) : Prop := {
  g_len : length modes = length (progs s);
  g_flat : forall t p m, nth_error (progs s) t = Some p -> nth_error modes t = Some m -> flat_from m p = true;
  g_readers : readers s = cnt InR modes;
  g_none : ws s = WNone -> cnt InW modes = 0;
  g_pending : forall t, ws s = WPending t -> cnt InW modes = 0 /\ nth_error modes t = Some Out /\
                exists r, nth_error (progs s) t = Some (WLock :: r);
  g_held : forall t, ws s = WHeld t -> cnt InW modes = 1 /\ nth_error modes t = Some InW /\ readers s = 0
}.

Lemma Good_Inv s modes : Good s modes -> Inv s.
Proof.
  intros G. constructor.
  - intros t p Hp. destruct (nth_error modes t) as [m|] eqn:Em.
    + exists m. eapply (g_flat s modes G); eauto.
    + apply nth_error_None in Em. rewrite (g_len s modes G) in Em.
      assert (nth_error (progs s) t = None) by (apply nth_error_None; auto). congruence.
  - intros Hr. rewrite (g_readers s modes G) in Hr.
    assert (Hin : In InR modes) by (apply (count_occ_In mode_eq_dec); exact Hr).
    apply In_nth_error in Hin. destruct Hin as [t Ht].
    destruct (nth_error (progs s) t) as [p|] eqn:Ep.
    + exists t, p. split; auto. eapply (g_flat s modes G); eauto.
    + apply nth_error_None in Ep. rewrite <- (g_len s modes G) in Ep.
      assert (nth_error modes t = None) by (apply nth_error_None; auto). congruence.
  - intros t Hw. destruct (g_held s modes G t Hw) as [_ [Hm _]].
    destruct (nth_error (progs s) t) as [p|] eqn:Ep.
    + exists p. split; auto. eapply (g_flat s modes G); eauto.
    + apply nth_error_None in Ep. rewrite <- (g_len s modes G) in Ep.
      assert (nth_error modes t = None) by (apply nth_error_None; auto). congruence.
  - intros t Hw. destruct (g_pending s modes G t Hw) as [_ [Hm [r Hr]]]. exists r. split; auto.
    pose proof (g_flat s modes G t _ Out Hr Hm) as Hf. cbn in Hf. exact Hf.
  - intros _ t p _. now right.
Qed.

Lemma cnt_pos_of_nth m l t : nth_error l t = Some m -> cnt m l >= 1.
Proof.
  intros H. apply nth_error_In in H. unfold cnt. apply (count_occ_In mode_eq_dec) in H. lia.
Qed.

Lemma Good_init progs0 :
  Forall (fun p => flat p = true) progs0 ->
  Good {| progs := progs0; readers := 0; ws := WNone |} (map (fun _ => Out) progs0).
Proof.
  intros H. constructor; cbn.
  - apply map_length.
  - intros t p m Hp Hm. rewrite nth_error_map, Hp in Hm. cbn in Hm. inversion Hm; subst.
    rewrite Forall_forall in H. apply H. eapply nth_error_In; eauto.
  - unfold cnt. induction progs0; cbn; auto. apply IHprogs0. now inversion H.
  - intros _. unfold cnt. clear H. induction progs0; cbn; auto.
  - intros t Ht; discriminate.
  - intros t Ht; discriminate.
Qed.

Theorem step_Good s t s' modes : Good s modes -> step s t = Some s' -> exists modes', Good s' modes'.
Proof.
  intros G. unfold step. destruct (nth_error (progs s) t) as [p|] eqn:Ep; [|discriminate].
  destruct p as [|o rest]; [discriminate|].
  assert (Htl : t < length (progs s)) by (apply nth_error_Some; congruence).
  destruct (nth_error modes t) as [m|] eqn:Em.
  2:{ apply nth_error_None in Em. rewrite (g_len _ _ G) in Em. lia. }
  pose proof (g_flat _ _ G t _ m Ep Em) as Hf.
  assert (Hothers : forall m' t0 p0 m0, t0 <> t -> nth_error (set_nth (progs s) t rest) t0 = Some p0 ->
             nth_error (set_nth modes t m') t0 = Some m0 -> flat_from m0 p0 = true).
  { intros m' t0 p0 m0 Hne H1 H2. rewrite nth_error_set_nth_other in H1 by auto. rewrite nth_error_set_nth_other in H2 by auto. eapply (g_flat _ _ G); eauto. }
  destruct o.
  - (* RLock *)
    destruct (ws s) eqn:Hw; try discriminate. intros E; inversion E; subst; clear E.
    destruct m; cbn in Hf; try discriminate.
    exists (set_nth modes t InR). pose proof (cnt_set_nth InR modes t Out InR Em) as C1.
    pose proof (cnt_set_nth InW modes t Out InR Em) as C2.
    destruct (mode_eq_dec Out InR), (mode_eq_dec InR InR), (mode_eq_dec Out InW), (mode_eq_dec InR InW); try congruence.
    constructor; cbn.
    + rewrite !set_nth_length. apply (g_len _ _ G).
    + intros t0 p0 m0 H1 H2. destruct (Nat.eq_dec t0 t) as [->|Hne]; [|eapply Hothers; eauto].
      rewrite nth_error_set_nth_same in H1 by auto. rewrite nth_error_set_nth_same in H2 by (rewrite (g_len _ _ G); auto). inversion H1; inversion H2; subst. exact Hf.
    + rewrite (g_readers _ _ G). lia.
    + intros _. pose proof (g_none _ _ G Hw). lia.
    + intros; discriminate.
    + intros; discriminate.
  - (* RUnlock *)
    intros E; inversion E; subst; clear E.
    destruct m; cbn in Hf; try discriminate.
    exists (set_nth modes t Out). pose proof (cnt_set_nth InR modes t InR Out Em) as C1.
    pose proof (cnt_set_nth InW modes t InR Out Em) as C2. pose proof (cnt_pos_of_nth InR modes t Em) as Cp.
    destruct (mode_eq_dec InR InR), (mode_eq_dec Out InR), (mode_eq_dec InR InW), (mode_eq_dec Out InW); try congruence.
    constructor; cbn.
    + rewrite !set_nth_length. apply (g_len _ _ G).
    + intros t0 p0 m0 H1 H2. destruct (Nat.eq_dec t0 t) as [->|Hne]; [|eapply Hothers; eauto].
      rewrite nth_error_set_nth_same in H1 by auto. rewrite nth_error_set_nth_same in H2 by (rewrite (g_len _ _ G); auto). inversion H1; inversion H2; subst. exact Hf.
    + rewrite (g_readers _ _ G). lia.
    + intros Hw. pose proof (g_none _ _ G Hw). lia.
    + intros t' Hw. destruct (g_pending _ _ G t' Hw) as [H1 [H2 [r Hr]]].
      assert (t' <> t) by (intros ->; congruence).
      split; [lia|]. split; [rewrite nth_error_set_nth_other; auto|]. exists r. rewrite nth_error_set_nth_other; auto.
    + intros t' Hw. destruct (g_held _ _ G t' Hw) as [_ [_ H0]]. rewrite (g_readers _ _ G) in H0. lia.
  - (* WLock *)
    destruct m; cbn in Hf; try discriminate.
    destruct (ws s) as [|tp|th] eqn:Hw; try discriminate.
    + (* announce *)
      intros E; inversion E; subst; clear E. exists modes. constructor; cbn.
      * apply (g_len _ _ G).
      * apply (g_flat _ _ G).
      * apply (g_readers _ _ G).
      * intros; discriminate.
      * intros t' Ht'. inversion Ht'; subst. split; [apply (g_none _ _ G Hw)|]. split; auto. eauto.
      * intros; discriminate.
    + (* acquire *)
      destruct (Nat.eqb_spec t tp) as [->|]; cbn [andb]; [|discriminate].
      destruct (Nat.eqb_spec (readers s) 0) as [Hr0|]; [|discriminate].
      intros E; inversion E; subst; clear E.
      destruct (g_pending _ _ G tp Hw) as [Hc0 _].
      exists (set_nth modes tp InW). pose proof (cnt_set_nth InR modes tp Out InW Em) as C1.
      pose proof (cnt_set_nth InW modes tp Out InW Em) as C2.
      destruct (mode_eq_dec Out InR), (mode_eq_dec InW InR), (mode_eq_dec Out InW), (mode_eq_dec InW InW); try congruence.
      constructor; cbn.
      * rewrite !set_nth_length. apply (g_len _ _ G).
      * intros t0 p0 m0 H1 H2. destruct (Nat.eq_dec t0 tp) as [->|Hne]; [|eapply Hothers; eauto].
        rewrite nth_error_set_nth_same in H1 by auto. rewrite nth_error_set_nth_same in H2 by (rewrite (g_len _ _ G); auto). inversion H1; inversion H2; subst. exact Hf.
      * rewrite (g_readers _ _ G) in Hr0. lia.
      * intros; discriminate.
      * intros; discriminate.
      * intros t' Ht'. inversion Ht'; subst. split; [lia|]. split; auto.
        apply nth_error_set_nth_same. rewrite (g_len _ _ G); auto.
  - (* WUnlock *)
    intros E; inversion E; subst; clear E.
    destruct m; cbn in Hf; try discriminate.
    pose proof (cnt_pos_of_nth InW modes t Em) as Cp.
    assert (Hone : cnt InW modes = 1).
    { destruct (ws s) as [|tp|th] eqn:Hw.
      - pose proof (g_none _ _ G Hw). lia.
      - destruct (g_pending _ _ G tp Hw). lia.
      - destruct (g_held _ _ G th Hw). lia. }
    exists (set_nth modes t Out). pose proof (cnt_set_nth InR modes t InW Out Em) as C1.
    pose proof (cnt_set_nth InW modes t InW Out Em) as C2.
    destruct (mode_eq_dec InW InR), (mode_eq_dec Out InR), (mode_eq_dec InW InW), (mode_eq_dec Out InW); try congruence.
    constructor; cbn.
    + rewrite !set_nth_length. apply (g_len _ _ G).
    + intros t0 p0 m0 H1 H2. destruct (Nat.eq_dec t0 t) as [->|Hne]; [|eapply Hothers; eauto].
      rewrite nth_error_set_nth_same in H1 by auto. rewrite nth_error_set_nth_same in H2 by (rewrite (g_len _ _ G); auto). inversion H1; inversion H2; subst. exact Hf.
    + rewrite (g_readers _ _ G). lia.
    + intros _. lia.
    + intros; discriminate.
    + intros; discriminate.
  - (* Work *)
    intros E; inversion E; subst; clear E.
    assert (Hf' : flat_from m rest = true) by (destruct m; cbn in Hf; auto).
    exists modes. constructor; cbn.
    + rewrite set_nth_length. apply (g_len _ _ G).
    + intros t0 p0 m0 H1 H2. destruct (Nat.eq_dec t0 t) as [->|Hne].
      * rewrite nth_error_set_nth_same in H1 by auto. inversion H1; subst. congruence.
      * rewrite nth_error_set_nth_other in H1 by auto. eapply (g_flat _ _ G); eauto.
    + apply (g_readers _ _ G).
    + apply (g_none _ _ G).
    + intros t' Hw. destruct (g_pending _ _ G t' Hw) as [H1 [H2 [r Hr]]].
      assert (t' <> t) by (intros ->; congruence).
      split; auto. split; auto. exists r. rewrite nth_error_set_nth_other; auto.
    + apply (g_held _ _ G).
Qed.

(* C09: flat programs never deadlock, for any number of threads and any schedule *)
Fixpoint run (s : state) (sched : list nat) : option state :=
  match sched with [] => Some s | t :: r => match step s t with Some s' => run s' r | None => None end end.

Theorem deadlock_free progs0 sched s :
  Forall (fun p => flat p = true) progs0 ->
  run {| progs := progs0; readers := 0; ws := WNone |} sched = Some s ->
  done s \/ exists t s', step s t = Some s'.
Proof.
  intros Hflat Hrun. apply progress.
  assert (G : forall sched s0 s1 modes, Good s0 modes -> run s0 sched = Some s1 -> exists modes', Good s1 modes').
  { clear. induction sched as [|t r IH]; intros s0 s1 modes G E; cbn in E.
    - inversion E; subst; eauto.
    - destruct (step s0 t) as [s'|] eqn:Es; [|discriminate].
      destruct (step_Good s0 t s' modes G Es) as [modes' G']. eapply IH; eauto. }
  destruct (G sched _ s _ (Good_init progs0 Hflat) Hrun) as [modes' G']. eapply Good_Inv; eauto.
Qed.
Print Assumptions deadlock_free.
