(* C19 — txBuffer.flush: walking every slot number of the window (the pinned loop) and visiting the held slots in
   ascending order (the repaired loop, /repo d26d291) send the same transactions in the same order; both are the
   [buf_flush] of C19_Stream. The buffer is the key-sorted association of C19_Stream (items[slot][idx]). *)
From Coq Require Import List Arith Lia Bool PeanoNat NArith Sorting.Sorted.
Import ListNotations.
Require Import YF.C19_Stream.

(* pinned: for slot := lo; slot <= hi; slot++ { send items[slot] in index order } *)
Fixpoint flush_walk (buf : list tx) (ss : list N) : list tx :=
  match ss with [] => [] | s :: r => filter (fun t => N.eqb (x_slot t) s) buf ++ flush_walk buf r end.

(* repaired: slots := sorted keys of items within [lo, hi]; for each: send items[slot] in index order *)
Fixpoint held_slots (buf : list tx) : list N :=        (* ascending, without repetition: buf is key-sorted *)
  match buf with
  | [] => []
  | t :: r => match held_slots r with
              | (s :: _) as hs => if N.eqb (x_slot t) s then hs else x_slot t :: hs
              | [] => [x_slot t]
              end
  end.
Definition flush_sparse (lo hi : N) (buf : list tx) : list tx :=
  flush_walk buf (filter (fun s => N.leb lo s && N.leb s hi) (held_slots buf)).

Lemma sorted_app (l1 : list tx) : forall l2, StronglySorted key_lt l1 -> StronglySorted key_lt l2 ->
  (forall a b, In a l1 -> In b l2 -> key_lt a b) -> StronglySorted key_lt (l1 ++ l2).
Proof.
  induction l1 as [|h r IH]; intros l2 S1 S2 H; cbn; [exact S2|].
  inversion S1 as [|? ? S1' F1]; subst. constructor.
  - apply IH; auto. intros a b Ha Hb. apply H; [right; exact Ha|exact Hb].
  - apply Forall_forall. intros x Hx. apply in_app_or in Hx. destruct Hx as [Hx|Hx].
    + rewrite Forall_forall in F1. auto.
    + apply H; [left; reflexivity|exact Hx].
Qed.

Lemma flush_walk_in buf ss x : In x (flush_walk buf ss) <-> In x buf /\ In (x_slot x) ss.
Proof.
  induction ss as [|s r IH]; cbn; [tauto|]. rewrite in_app_iff, filter_In, IH, N.eqb_eq. intuition congruence.
Qed.

Lemma flush_walk_sorted buf ss : StronglySorted key_lt buf -> StronglySorted N.lt ss -> StronglySorted key_lt (flush_walk buf ss).
Proof.
  intros Sb. induction 1 as [|s r Sr IH F]; cbn; [constructor|].
  apply sorted_app; [apply filter_sorted; exact Sb|exact IH|].
  intros a b Ha Hb. apply filter_In in Ha. destruct Ha as [_ Ea]. apply N.eqb_eq in Ea.
  apply flush_walk_in in Hb. destruct Hb as [_ Hb]. rewrite Forall_forall in F. specialize (F _ Hb).
  unfold key_lt, key_ltb. apply orb_true_iff. left. apply N.ltb_lt. lia.
Qed.

Theorem walk_is_buf_flush lo hi buf : StronglySorted key_lt buf -> flush_walk buf (range lo hi) = buf_flush lo hi buf.
Proof.
  intros Sb. apply sorted_same_members.
  - apply flush_walk_sorted; [exact Sb|apply range_sorted].
  - apply filter_sorted; exact Sb.
  - intros x. unfold buf_flush. rewrite flush_walk_in, filter_In, range_in, andb_true_iff, !N.leb_le. tauto.
Qed.

(* held_slots: ascending, exactly the slots present *)
Lemma held_slots_in buf s : In s (held_slots buf) <-> exists t, In t buf /\ x_slot t = s.
Proof.
  induction buf as [|t r IH]; cbn [held_slots]; [cbn; split; [tauto|intros [? [[] _]]]|].
  destruct (held_slots r) as [|s0 hs] eqn:E.
  - cbn. split.
    + intros [<-|[]]. exists t. auto.
    + intros [u [[<-|Hu] <-]]; [auto|]. exfalso. apply (proj2 IH). exists u. auto.
  - destruct (N.eqb (x_slot t) s0) eqn:Es.
    + cbv iota. apply N.eqb_eq in Es. rewrite IH. split.
      * intros [u [Hu <-]]. exists u. cbn. auto.
      * intros [u [[<-|Hu] <-]]; [|exists u; auto]. apply IH. rewrite Es. left; reflexivity.
    + cbv iota. cbn [In]. rewrite IH. split.
      * intros [<-|[u [Hu <-]]]; [exists t; cbn; auto|exists u; cbn; auto].
      * intros [u [[<-|Hu] <-]]; [left; reflexivity|right; exists u; auto].
Qed.
Lemma held_slots_sorted buf : StronglySorted key_lt buf -> StronglySorted N.lt (held_slots buf).
Proof.
  induction 1 as [|t r S IH F]; cbn [held_slots]; [constructor|].
  assert (Hle : forall s, In s (held_slots r) -> (x_slot t <= s)%N).
  { intros s Hs. apply held_slots_in in Hs. destruct Hs as [u [Hu <-]]. rewrite Forall_forall in F. specialize (F u Hu).
    unfold key_lt, key_ltb in F. apply orb_true_iff in F. rewrite andb_true_iff, !N.ltb_lt, N.eqb_eq in F. lia. }
  destruct (held_slots r) as [|s0 hs] eqn:E; [repeat constructor|].
  destruct (N.eqb (x_slot t) s0) eqn:Es; [exact IH|]. apply N.eqb_neq in Es.
  constructor; [exact IH|]. apply Forall_forall. intros s Hs.
  pose proof (Hle s0 (or_introl eq_refl)) as H0.
  destruct Hs as [<-|Hs]; [lia|].
  inversion IH as [|? ? _ Fh]; subst. rewrite Forall_forall in Fh. specialize (Fh s Hs). lia.
Qed.

(* the repaired flush sends what the pinned flush sends, in the same order — both are [buf_flush] *)
Theorem sparse_is_buf_flush lo hi buf : StronglySorted key_lt buf -> flush_sparse lo hi buf = buf_flush lo hi buf.
Proof.
  intros Sb. unfold flush_sparse. apply sorted_same_members.
  - apply flush_walk_sorted; [exact Sb|]. 
    assert (G : forall l, StronglySorted N.lt l -> StronglySorted N.lt (filter (fun s => N.leb lo s && N.leb s hi) l)).
    { induction 1 as [|h r S IH F]; cbn; [constructor|]. destruct (N.leb lo h && N.leb h hi); [|exact IH].
      constructor; [exact IH|]. rewrite Forall_forall in *. intros x Hx. apply filter_In in Hx. apply F. tauto. }
    apply G, held_slots_sorted, Sb.
  - apply filter_sorted; exact Sb.
  - intros x. unfold buf_flush. rewrite flush_walk_in, !filter_In, held_slots_in. split.
    + intros [A [[u [Hu E]] C]]. tauto.
    + intros [A C]. repeat split; auto. exists x. auto.
Qed.
Corollary sparse_is_walk lo hi buf : StronglySorted key_lt buf -> flush_sparse lo hi buf = flush_walk buf (range lo hi).
Proof. intros Sb. rewrite sparse_is_buf_flush, walk_is_buf_flush; auto. Qed.

(* cost: the walk visits every slot number of the window, the repaired loop at most one per buffered transaction *)
Lemma held_slots_length buf : length (held_slots buf) <= length buf.
Proof.
  induction buf as [|t r IH]; cbn [held_slots length]; [lia|].
  destruct (held_slots r) as [|s0 hs]; cbn [length] in *; [lia|]. destruct (N.eqb (x_slot t) s0); cbn [length]; lia.
Qed.
Theorem sparse_visits_at_most_buffer lo hi buf :
  length (filter (fun s => N.leb lo s && N.leb s hi) (held_slots buf)) <= length buf.
Proof.
  etransitivity; [|apply held_slots_length]. generalize (held_slots buf) as l.
  induction l as [|h r IH]; cbn; [lia|]. destruct (N.leb lo h && N.leb h hi); cbn; lia.
Qed.
Theorem walk_visits_window lo hi : (lo <= hi)%N -> length (range lo hi) = S (N.to_nat (hi - lo)).
Proof.
  intros H. unfold range. destruct (N.ltb_spec hi lo); [lia|].
  generalize (S (N.to_nat (hi - lo))) as n. intros n. revert lo H H0. induction n as [|n IH]; intros lo H H0; cbn; [reflexivity|].
  f_equal. generalize (lo + 1)%N. clear. induction n as [|n IH]; intros l; cbn; [reflexivity|]. f_equal. apply IH.
Qed.
