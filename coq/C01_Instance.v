(* C01 composed with C04: the abstract key/value index of C01_IndexAll is instantiated by the byte-level
   compact index model (builder + reader) of C04_Formats, so that C01's premise [ix_found] is DISCHARGED by
   C04's theorem [sized_found] for every hash function and every in-range bucket function. *)
From Coq Require Import List Arith Lia Bool PeanoNat NArith.
Import ListNotations.
Require Import Codec ReadAt CI Car C04_Model C04_Formats C01_IndexAll.
Close Scope N_scope.

Section Inst.
Variable hash : N -> list N -> N.
Variable bucket_of : nat -> list N -> nat.
Hypothesis bucket_of_lt : forall nb k, 0 < nb -> bucket_of nb k < nb.
Variable m : meta.                       (* the index metadata (epoch, root CID, network, kind) *)
Hypothesis m_ok : meta_ok m.

(* value size of an index = the size of the values put into it (9 for cid-to-offset-and-size, 36 for the others) *)
Definition vs_of (kvs : list kv) : nat := match kvs with [] => 0 | (_, v) :: _ => length v end.

Definition supportedb (items vs : nat) (kvs : list kv) : bool :=
  (1 <=? items) && (1 <=? vs) && (3 + vs <? 256) &&
  forallb (fun x => N.leb (N.of_nat (length (fst x))) 65535) kvs &&
  forallb (fun x => length (snd x) =? vs) kvs.

Lemma supportedb_ok items vs kvs : supportedb items vs kvs = true -> supported items vs kvs.
Proof.
  unfold supportedb, supported, keys_ok. rewrite !andb_true_iff, !forallb_forall, !Forall_forall.
  intros [[[[A B] C] D] E]. apply Nat.leb_le in A, B. apply Nat.ltb_lt in C.
  repeat split; auto.
  - intros x Hx. apply N.leb_le. apply D; exact Hx.
  - intros x Hx. apply Nat.eqb_eq. apply E; exact Hx.
Qed.

(* builder created with the number of items and the value size of what is inserted, as createAllIndexes does;
   the format limits (file < 2^48 bytes, < 2^32 pairs and buckets) are checked on the result *)
Definition ci_build (kvs : list kv) : option (list N) :=
  let items := length kvs in
  let vs := vs_of kvs in
  if supportedb items vs kvs && N.ltb (N.of_nat (num_buckets items)) (2 ^ 32) && N.ltb (N.of_nat (length kvs)) (256 ^ 4)
  then match build_sized hash bucket_of repaired items vs m kvs with
       | BOk f => if N.ltb (N.of_nat (length f)) (256 ^ 6) then Some f else None
       | _ => None
       end
  else None.
Definition ci_get (f : list N) (k : list N) : option (list N) :=
  match lookup_sized hash bucket_of f k with Found v => Some v | _ => None end.

Theorem ci_found kvs i k v : ci_build kvs = Some i -> In (k, v) kvs -> ci_get i k = Some v.
Proof.
  unfold ci_build, ci_get. intros H Hin.
  destruct (supportedb (length kvs) (vs_of kvs) kvs) eqn:Es; [|discriminate]. cbn [andb] in H.
  destruct (N.ltb (N.of_nat (num_buckets (length kvs))) (2 ^ 32)) eqn:Eb; [|discriminate]. cbn [andb] in H.
  destruct (N.ltb (N.of_nat (length kvs)) (256 ^ 4)) eqn:Ec; [|discriminate].
  destruct (build_sized hash bucket_of repaired (length kvs) (vs_of kvs) m kvs) as [f| |] eqn:Bd; try discriminate.
  destruct (N.ltb (N.of_nat (length f)) (256 ^ 6)) eqn:Ef; [|discriminate].
  assert (i = f) by congruence. subst i.
  rewrite (sized_found hash bucket_of bucket_of_lt (length kvs) (vs_of kvs) m kvs f k v); auto.
  - apply supportedb_ok; exact Es.
  - apply N.ltb_lt; exact Eb.
  - apply N.ltb_lt; exact Ef.
  - apply N.ltb_lt; exact Ec.
Qed.
End Inst.

(* C01 with the compact index in place of the abstract index: no premise about the index is left *)
Section Composed.
Variable cid_parse : list N -> option (list N * nat).
Variable good_cid : list N -> Prop.
Hypothesis cid_parse_ok : forall c rest, good_cid c -> cid_parse (c ++ rest) = Some (c, length c).
Variable kind_of : list N -> kind.
Variable dec_block : list N -> option (N * N).
Variable dec_sig : list N -> option (list N).
Variable hash : N -> list N -> N.
Variable bucket_of : nat -> list N -> nat.
Hypothesis bucket_of_lt : forall nb k, 0 < nb -> bucket_of nb k < nb.
Variable m : meta.
Hypothesis m_ok : meta_ok m.
Variable sx : Type.
Variable sx_build : list (list N) -> option sx.
Variable sx_has : sx -> list N -> bool.
Hypothesis sx_complete : forall sigs s x, sx_build sigs = Some s -> In x sigs -> sx_has s x = true.

Let build := ci_build hash bucket_of m.
Let get := ci_get hash bucket_of.

Theorem C01_objects_with_compact_index epoch hdr objs ixs o :
  wf_car good_cid kind_of dec_block objs ->
  index_all kind_of dec_block dec_sig (list N) build sx sx_build epoch hdr objs = Some ixs -> In o objs ->
  get_node_by_cid cid_parse (list N) get sx ixs (Car.car hdr objs) (Car.cid o) = Some (Car.data o).
Proof.
  apply (C01_objects cid_parse good_cid cid_parse_ok kind_of dec_block dec_sig (list N) build get
           (ci_found hash bucket_of bucket_of_lt m m_ok) sx sx_build sx_has sx_complete).
Qed.

Theorem C01_slots_with_compact_index epoch hdr objs ixs o slot time :
  (epoch * epoch_len + epoch_len < 2 ^ 64)%N ->
  wf_car good_cid kind_of dec_block objs ->
  index_all kind_of dec_block dec_sig (list N) build sx sx_build epoch hdr objs = Some ixs -> In o objs ->
  is_block kind_of dec_block o slot time ->
  find_cid_from_slot (list N) get sx ixs slot = Some (Car.cid o) /\ blocktime (list N) sx ixs slot = Some time.
Proof.
  apply (C01_slots cid_parse good_cid cid_parse_ok kind_of dec_block dec_sig (list N) build get
           (ci_found hash bucket_of bucket_of_lt m m_ok) sx sx_build sx_has sx_complete).
Qed.

Theorem C01_sigs_with_compact_index epoch hdr objs ixs o sg :
  index_all kind_of dec_block dec_sig (list N) build sx sx_build epoch hdr objs = Some ixs -> In o objs ->
  is_tx kind_of dec_sig o sg ->
  find_cid_from_sig (list N) get sx ixs sg = Some (Car.cid o) /\ sig_exists (list N) sx sx_has ixs sg = true.
Proof.
  apply (C01_sigs kind_of dec_block dec_sig (list N) build get
           (ci_found hash bucket_of bucket_of_lt m m_ok) sx sx_build sx_has sx_complete).
Qed.
End Composed.
