(* C12 — classification of the potential crash / input-sized allocation sites that the translator gen/c12.go finds in
   the reader-side functions of the anchored files (coq/Generated/PanicSitesC12.v, regenerated from the repository on
   every check). Every site is one of
     Guarded lemma   the site is protected by a check that the model has, and the named totality theorem of
                     C12_Parsers.v covers it (the harness measures on every run that the check is really there);
     Trusted reason  it cannot fail for a reason visible next to it (constant index into a fixed-size array, length
                     checked in the statement above, map access, size bounded by a type: uint8, 3-byte field, ...);
     Pinned fix      the expression exists only in the code BEFORE the named repair (kept so that the table also covers
                     the pinned tree; the refutation lemmas of C12_Parsers.v show what it did).
   [unclassified sites] must be empty: Properties/C12.v proves it by computation over the generated list, so a new
   index / slice / assertion / make / division / panic in these files stops the build until it is classified here.
   The table is maintained by hand (first version produced from explicit per-site rules and reviewed site by site). *)
From Coq Require Import List String Bool.
Import ListNotations.
Local Open Scope string_scope.

Inductive site_class := Guarded (lemma : string) | Trusted (reason : string) | Pinned (repair : string).

Definition site_table : list (string * site_class) := [
  ("accum/block.go|(*ObjectAccumulator).Run|index|data[1]|1",
     Pinned "fixes/C12-kind-dispatch.diff replaces it by iplddecoders.GetKind (kind_of_total)");
  ("accum/block.go|(*ObjectAccumulator).Run|make|make([]ObjectWithMetadata, 0, objectCap)|1",
     Trusted "capacity is the local constant objectCap (5000)");
  ("accum/block.go|(*ObjectAccumulator).startFlusher|panic|panic(err)|1",
     Trusted "re-raises the error returned by the caller's own callback; no input bytes involved");
  ("accum/block.go|(*flushBuffer).Reset|slice|fb.children[:0]|1",
     Trusted "s[:0] cannot fail");
  ("accum/block.go|clone|make|make([]T, len(s))|1",
     Trusted "sized by an existing in-memory slice");
  ("accum/block.go|getFlushBuffer|assert|flushBufferPool.Get().(*flushBuffer)|1",
     Trusted "sync.Pool whose New function returns exactly this type");
  ("accum/tx.go|ObjectsToTransactionsAndMetadata|index|dataBlocksMap[object.Cid.String()]|1",
     Trusted "map lookup");
  ("accum/tx.go|ObjectsToTransactionsAndMetadata|index|dataBlocksMap[wantedCid.String()]|1",
     Trusted "map lookup");
  ("accum/tx.go|ObjectsToTransactionsAndMetadata|index|object.ObjectData[1]|1",
     Pinned "fixes/C12-kind-dispatch.diff replaces it by iplddecoders.GetKind (kind_of_total)");
  ("accum/tx.go|ObjectsToTransactionsAndMetadata|index|objects[objI]|1",
     Trusted "index of the enclosing range loop");
  ("accum/tx.go|ObjectsToTransactionsAndMetadata|index|sigs[0]|1",
     Trusted "len(sigs) == 0 is rejected in the statement above");
  ("accum/tx.go|PutTransactionWithSlotSlice|slice|slice[:0]|1",
     Trusted "s[:0] cannot fail");
  ("accum/tx.go|getDatablocksMap|assert|poolDataBlocksMap.Get().(map[string]ObjectWithMetadata)|1",
     Trusted "sync.Pool whose New function returns exactly this type");
  ("accum/tx.go|getTransactionWithSlotSlice|assert|poolOfTransactionWithSlotSlices.Get().([]*TransactionWithSlot)|1",
     Trusted "sync.Pool whose New function returns exactly this type");
  ("blocktimeindex/writer.go|(*Index).Get|index|i.values[slot-i.start]|1",
     Guarded "bt_get_total: slot-start < len(values) is checked (fixes/C12-blocktime-capacity.diff)");
  ("blocktimeindex/writer.go|(*Index).unmarshalBinary|index|i.values[j]|1",
     Trusted "j < capacity = len(values) by the loop bound");
  ("blocktimeindex/writer.go|(*Index).unmarshalBinary|make|make([]int64, i.capacity)|1",
     Guarded "bt_unmarshal_total: capacity <= remaining bytes / 4");
  ("bucketteer/read.go|(*Reader).Has|index|r.prefixToOffset[prefixToUint16(prefix)]|1",
     Trusted "array of 65536 entries indexed by a uint16");
  ("bucketteer/read.go|(*Reader).Has|index|sig[0]|1",
     Trusted "sig is a [64]byte");
  ("bucketteer/read.go|(*Reader).Has|index|sig[1]|1",
     Trusted "sig is a [64]byte");
  ("bucketteer/read.go|newUint16LayoutPointer|index|layout[i]|1",
     Trusted "i <= math.MaxUint16 into an array of 65536 entries");
  ("bucketteer/read.go|newUint16Layout|index|layout[i]|1",
     Trusted "i <= math.MaxUint16 into an array of 65536 entries");
  ("bucketteer/read.go|readBytesAt|make|make([]byte, size)|2",
     Guarded "bkt_open_total: first chunk min(total, 1 MiB), then at most twice what the reader delivered");
  ("bucketteer/read.go|readBytesAt|slice|buf[filled:]|1",
     Trusted "0 <= filled <= len(buf): filled only grows by what ReadAt reports for buf[filled:]");
  ("bucketteer/read.go|readHeader|index|prefixToOffset[prefixToUint16(prefix)]|1",
     Trusted "array of 65536 entries indexed by a uint16");
  ("bucketteer/read.go|readHeader|make|make([]byte, headerSize)|1",
     Pinned "fixes/C12-bucketteer-header.diff reads the header incrementally (bkt_open_total; bkt_refuted_alloc)");
  ("carreader/reader.go|ReadNodeInfoWithData|make|make([]byte, remainingSectionLen)|1",
     Guarded "car_section_total: sectionLen >= cidLen is checked, sectionLen <= 32 MiB (go-car MaxAllowedSectionSize)");
  ("compactindexsized/compactindex.go|(*BucketDescriptor).unmarshalEntry|make|make([]byte, b.OffsetWidth)|1",
     Trusted "OffsetWidth is a uint8: at most 255 bytes");
  ("compactindexsized/compactindex.go|(*BucketDescriptor).unmarshalEntry|slice|buf[0:b.HashLen]|1",
     Guarded "lookup_sized_total: GetBucket rejects HashLen+OffsetWidth > Stride (same check in the deprecated readers, harness parts ci-legacy8/36)");
  ("compactindexsized/compactindex.go|(*BucketDescriptor).unmarshalEntry|slice|buf[b.HashLen : b.HashLen+b.OffsetWidth]|1",
     Guarded "lookup_sized_total: GetBucket rejects HashLen+OffsetWidth > Stride (same check in the deprecated readers, harness parts ci-legacy8/36)");
  ("compactindexsized/compactindex.go|(*BucketHeader).Load|index|buf[8]|1",
     Trusted "constant bounds below bucketHdrLen = 16 into *[16]byte");
  ("compactindexsized/compactindex.go|(*BucketHeader).Load|slice|buf[0:4]|1",
     Trusted "constant bounds below bucketHdrLen = 16 into *[16]byte");
  ("compactindexsized/compactindex.go|(*BucketHeader).Load|slice|buf[10:16]|1",
     Trusted "constant bounds below bucketHdrLen = 16 into *[16]byte");
  ("compactindexsized/compactindex.go|(*BucketHeader).Load|slice|buf[4:8]|1",
     Trusted "constant bounds below bucketHdrLen = 16 into *[16]byte");
  ("compactindexsized/compactindex.go|(*Header).BucketHash|div|(-n) % n|1",
     Trusted "Header.Load rejects NumBuckets == 0 (Open is the only constructor of a DB)");
  ("compactindexsized/compactindex.go|(*Header).BucketHash|div|u % n|1",
     Trusted "Header.Load rejects NumBuckets == 0 (Open is the only constructor of a DB)");
  ("compactindexsized/compactindex.go|(*Header).Load|arrayconv|(*[8]byte)(buf[:8])|1",
     Guarded "open_sized_total: len(buf) >= 25 is checked first (header_load_guarded)");
  ("compactindexsized/compactindex.go|(*Header).Load|index|buf[20]|1",
     Guarded "open_sized_total: len(buf) >= 25 is checked first (header_load_guarded)");
  ("compactindexsized/compactindex.go|(*Header).Load|index|buf[24]|1",
     Guarded "open_sized_total: len(buf) >= 25 is checked first (header_load_guarded)");
  ("compactindexsized/compactindex.go|(*Header).Load|slice|buf[12:20]|1",
     Guarded "open_sized_total: len(buf) >= 25 is checked first (header_load_guarded)");
  ("compactindexsized/compactindex.go|(*Header).Load|slice|buf[20:24]|1",
     Guarded "open_sized_total: len(buf) >= 25 is checked first (header_load_guarded)");
  ("compactindexsized/compactindex.go|(*Header).Load|slice|buf[25:]|1",
     Guarded "open_sized_total: len(buf) >= 25 is checked first (header_load_guarded)");
  ("compactindexsized/compactindex.go|(*Header).Load|slice|buf[8:12]|1",
     Guarded "open_sized_total: len(buf) >= 25 is checked first (header_load_guarded)");
  ("compactindexsized/compactindex.go|(*Header).Load|slice|buf[:8]|1",
     Guarded "open_sized_total: len(buf) >= 25 is checked first (header_load_guarded)");
  ("compactindexsized/compactindex.go|EntryHash64|slice|prefixBlock[:4]|1",
     Trusted "constant bounds into a fixed-size array ([32]byte)");
  ("compactindexsized/compactindex.go|SearchSortedEntries|index|entries[i]|3",
     Trusted "in-memory helper over a caller-provided slice: sort.Find passes i < len(entries) and the result is checked with i >= len(entries) before use");
  ("compactindexsized/query.go|(*Bucket).Load|make|make([]Entry, 0, b.NumEntries)|1",
     Pinned "fixes/C12-compactindex-header.diff reserves at most one batch (NumEntries comes from the file: up to 2^24 entries of 32 bytes)");
  ("compactindexsized/query.go|(*Bucket).Load|make|make([]Entry, 0, minInt64(int64(b.NumEntries), int64(batchSize)))|1",
     Trusted "at most batchSize entries reserved; append grows with the data actually read");
  ("compactindexsized/query.go|(*Bucket).Load|make|make([]byte, batchSize*stride)|1",
     Trusted "batchSize is the caller's argument (512 by default), stride a uint8");
  ("compactindexsized/query.go|(*Bucket).Load|slice|buf[:n]|1",
     Trusted "n is what ReadAt reports for buf");
  ("compactindexsized/query.go|(*Bucket).Load|slice|sub[stride:]|1",
     Trusted "inside `for len(sub) >= stride`");
  ("compactindexsized/query.go|(*Bucket).loadEntry|make|make([]byte, b.Stride)|1",
     Trusted "Stride is a uint8: at most 255 bytes");
  ("compactindexsized/query.go|(*DB).GetBucket|make|make([]byte, prefetchSize)|1",
     Trusted "at most 3000 entries of at most 255 bytes");
  ("compactindexsized/query.go|(*DB).GetValueSize|panic|panic(""value size not set"")|1",
     Guarded "lookup_sized_total: GetBucket rejects ValueSize = 0 before calling it; Header.Load rejects it at Open");
  ("compactindexsized/query.go|Open|make|make([]byte, 8+4+size)|1",
     Pinned "fixes/C12-compactindex-header.diff: readFirstBytes (open_sized_total; open_refuted_alloc, open_refuted_hdr_wrap)");
  ("compactindexsized/query.go|Open|slice|magicAndSize[8:]|1",
     Trusted "constant bounds into a fixed-size array ([12]byte)");
  ("compactindexsized/query.go|Open|slice|magicAndSize[:8]|1",
     Trusted "constant bounds into a fixed-size array ([12]byte)");
  ("compactindexsized/query.go|readFirstBytes|make|make([]byte, minInt64(total, 2*int64(len(buf))))|1",
     Guarded "open_sized_total: first chunk min(total, 64 KiB), then at most twice what the stream delivered");
  ("compactindexsized/query.go|readFirstBytes|make|make([]byte, minInt64(total, firstChunk))|1",
     Guarded "open_sized_total: first chunk min(total, 64 KiB), then at most twice what the stream delivered");
  ("compactindexsized/query.go|readFirstBytes|slice|buf[filled:]|1",
     Trusted "0 <= filled <= len(buf): filled only grows by what ReadAt reports for buf[filled:]");
  ("deprecated/bucketteer/read.go|(*Reader).GetMeta|index|r.meta[key]|1",
     Trusted "map lookup");
  ("deprecated/bucketteer/read.go|(*Reader).Has|index|r.prefixToOffset[prefix]|1",
     Trusted "map lookup");
  ("deprecated/bucketteer/read.go|(*Reader).Has|index|sig[0]|1",
     Trusted "sig is a [64]byte");
  ("deprecated/bucketteer/read.go|(*Reader).Has|index|sig[1]|1",
     Trusted "sig is a [64]byte");
  ("deprecated/bucketteer/read.go|readBytesAt|make|make([]byte, size)|2",
     Guarded "bkt_open_total: first chunk min(total, 1 MiB), then at most twice what the reader delivered");
  ("deprecated/bucketteer/read.go|readBytesAt|slice|buf[filled:]|1",
     Trusted "0 <= filled <= len(buf): filled only grows by what ReadAt reports for buf[filled:]");
  ("deprecated/bucketteer/read.go|readHeader|index|meta[key]|1",
     Trusted "map store");
  ("deprecated/bucketteer/read.go|readHeader|index|prefixToOffset[prefix]|1",
     Trusted "map store");
  ("deprecated/bucketteer/read.go|readHeader|make|make([]byte, headerSize)|1",
     Pinned "fixes/C12-bucketteer-header.diff reads the header incrementally (bkt_open_total; bkt_refuted_alloc)");
  ("deprecated/bucketteer/read.go|readHeader|make|make(map[[2]byte]uint64, numPrefixes)|1",
     Pinned "fixes/C12-bucketteer-header.diff caps the size hint at 65536 distinct prefixes");
  ("deprecated/bucketteer/read.go|readHeader|make|make(map[[2]byte]uint64, sizeHint)|1",
     Trusted "sizeHint = min(numPrefixes, 65536): a 2-byte prefix has 65536 values");
  ("deprecated/bucketteer/read.go|readHeader|make|make(map[string]string, numMeta)|1",
     Pinned "fixes/C12-bucketteer-header.diff drops the size hint taken from the file");
  ("deprecated/compactindex/compactindex.go|(*BucketDescriptor).unmarshalEntry|slice|buf[0:b.HashLen]|1",
     Guarded "lookup_sized_total: GetBucket rejects HashLen+OffsetWidth > Stride (same check in the deprecated readers, harness parts ci-legacy8/36)");
  ("deprecated/compactindex/compactindex.go|(*BucketDescriptor).unmarshalEntry|slice|buf[b.HashLen : b.HashLen+b.OffsetWidth]|1",
     Guarded "lookup_sized_total: GetBucket rejects HashLen+OffsetWidth > Stride (same check in the deprecated readers, harness parts ci-legacy8/36)");
  ("deprecated/compactindex/compactindex.go|(*BucketHeader).Load|index|buf[8]|1",
     Trusted "constant bounds below bucketHdrLen = 16 into *[16]byte");
  ("deprecated/compactindex/compactindex.go|(*BucketHeader).Load|slice|buf[0:4]|1",
     Trusted "constant bounds below bucketHdrLen = 16 into *[16]byte");
  ("deprecated/compactindex/compactindex.go|(*BucketHeader).Load|slice|buf[10:16]|1",
     Trusted "constant bounds below bucketHdrLen = 16 into *[16]byte");
  ("deprecated/compactindex/compactindex.go|(*BucketHeader).Load|slice|buf[4:8]|1",
     Trusted "constant bounds below bucketHdrLen = 16 into *[16]byte");
  ("deprecated/compactindex/compactindex.go|(*Header).BucketHash|div|(-n) % n|1",
     Guarded "Header.Load rejects NumBuckets == 0 (fixes/C12-compactindex-header.diff; harness parts ci-legacy8/36 reproduce the divide by zero on the pinned tree)");
  ("deprecated/compactindex/compactindex.go|(*Header).BucketHash|div|u % n|1",
     Guarded "Header.Load rejects NumBuckets == 0 (fixes/C12-compactindex-header.diff; harness parts ci-legacy8/36 reproduce the divide by zero on the pinned tree)");
  ("deprecated/compactindex/compactindex.go|(*Header).Load|arrayconv|(*[8]byte)(buf[:8])|1",
     Trusted "constant bounds below headerSize = 32 into *[32]byte");
  ("deprecated/compactindex/compactindex.go|(*Header).Load|index|buf[20]|2",
     Trusted "constant bounds below headerSize = 32 into *[32]byte");
  ("deprecated/compactindex/compactindex.go|(*Header).Load|slice|buf[16:20]|1",
     Trusted "constant bounds below headerSize = 32 into *[32]byte");
  ("deprecated/compactindex/compactindex.go|(*Header).Load|slice|buf[21:32]|1",
     Trusted "constant bounds below headerSize = 32 into *[32]byte");
  ("deprecated/compactindex/compactindex.go|(*Header).Load|slice|buf[8:16]|1",
     Trusted "constant bounds below headerSize = 32 into *[32]byte");
  ("deprecated/compactindex/compactindex.go|(*Header).Load|slice|buf[:8]|1",
     Trusted "constant bounds below headerSize = 32 into *[32]byte");
  ("deprecated/compactindex/compactindex.go|EntryHash64|slice|prefixBlock[:4]|1",
     Trusted "constant bounds into a fixed-size array ([32]byte)");
  ("deprecated/compactindex/compactindex.go|SearchSortedEntries|index|entries[i]|3",
     Trusted "in-memory helper over a caller-provided slice: sort.Find passes i < len(entries) and the result is checked with i >= len(entries) before use");
  ("deprecated/compactindex/query.go|(*Bucket).Load|make|make([]Entry, 0, b.NumEntries)|1",
     Pinned "fixes/C12-compactindex-header.diff reserves at most one batch (NumEntries comes from the file: up to 2^24 entries of 32 bytes)");
  ("deprecated/compactindex/query.go|(*Bucket).Load|make|make([]Entry, 0, minInt64(int64(b.NumEntries), int64(batchSize)))|1",
     Trusted "at most batchSize entries reserved; append grows with the data actually read");
  ("deprecated/compactindex/query.go|(*Bucket).Load|make|make([]byte, batchSize*stride)|1",
     Trusted "batchSize is the caller's argument (512 by default), stride a uint8");
  ("deprecated/compactindex/query.go|(*Bucket).Load|slice|buf[:n]|1",
     Trusted "n is what ReadAt reports for buf");
  ("deprecated/compactindex/query.go|(*Bucket).Load|slice|sub[stride:]|1",
     Trusted "inside `for len(sub) >= stride`");
  ("deprecated/compactindex/query.go|(*Bucket).loadEntry|make|make([]byte, b.Stride)|1",
     Trusted "Stride is a uint8: at most 255 bytes");
  ("deprecated/compactindex/query.go|(*DB).GetBucket|make|make([]byte, prefetchSize)|1",
     Trusted "at most 3000 entries of at most 255 bytes");
  ("deprecated/compactindex36/compactindex.go|(*BucketDescriptor).unmarshalEntry|slice|buf[0:b.HashLen]|1",
     Guarded "lookup_sized_total: GetBucket rejects HashLen+OffsetWidth > Stride (same check in the deprecated readers, harness parts ci-legacy8/36)");
  ("deprecated/compactindex36/compactindex.go|(*BucketDescriptor).unmarshalEntry|slice|buf[b.HashLen : b.HashLen+b.OffsetWidth]|1",
     Guarded "lookup_sized_total: GetBucket rejects HashLen+OffsetWidth > Stride (same check in the deprecated readers, harness parts ci-legacy8/36)");
  ("deprecated/compactindex36/compactindex.go|(*BucketHeader).Load|index|buf[8]|1",
     Trusted "constant bounds below bucketHdrLen = 16 into *[16]byte");
  ("deprecated/compactindex36/compactindex.go|(*BucketHeader).Load|slice|buf[0:4]|1",
     Trusted "constant bounds below bucketHdrLen = 16 into *[16]byte");
  ("deprecated/compactindex36/compactindex.go|(*BucketHeader).Load|slice|buf[10:16]|1",
     Trusted "constant bounds below bucketHdrLen = 16 into *[16]byte");
  ("deprecated/compactindex36/compactindex.go|(*BucketHeader).Load|slice|buf[4:8]|1",
     Trusted "constant bounds below bucketHdrLen = 16 into *[16]byte");
  ("deprecated/compactindex36/compactindex.go|(*Header).BucketHash|div|(-n) % n|1",
     Guarded "Header.Load rejects NumBuckets == 0 (fixes/C12-compactindex-header.diff; harness parts ci-legacy8/36 reproduce the divide by zero on the pinned tree)");
  ("deprecated/compactindex36/compactindex.go|(*Header).BucketHash|div|u % n|1",
     Guarded "Header.Load rejects NumBuckets == 0 (fixes/C12-compactindex-header.diff; harness parts ci-legacy8/36 reproduce the divide by zero on the pinned tree)");
  ("deprecated/compactindex36/compactindex.go|(*Header).Load|arrayconv|(*[8]byte)(buf[:8])|1",
     Trusted "constant bounds below headerSize = 32 into *[32]byte");
  ("deprecated/compactindex36/compactindex.go|(*Header).Load|index|buf[20]|2",
     Trusted "constant bounds below headerSize = 32 into *[32]byte");
  ("deprecated/compactindex36/compactindex.go|(*Header).Load|slice|buf[16:20]|1",
     Trusted "constant bounds below headerSize = 32 into *[32]byte");
  ("deprecated/compactindex36/compactindex.go|(*Header).Load|slice|buf[21:32]|1",
     Trusted "constant bounds below headerSize = 32 into *[32]byte");
  ("deprecated/compactindex36/compactindex.go|(*Header).Load|slice|buf[8:16]|1",
     Trusted "constant bounds below headerSize = 32 into *[32]byte");
  ("deprecated/compactindex36/compactindex.go|(*Header).Load|slice|buf[:8]|1",
     Trusted "constant bounds below headerSize = 32 into *[32]byte");
  ("deprecated/compactindex36/compactindex.go|EntryHash64|slice|prefixBlock[:4]|1",
     Trusted "constant bounds into a fixed-size array ([32]byte)");
  ("deprecated/compactindex36/compactindex.go|SearchSortedEntries|index|entries[i]|3",
     Trusted "in-memory helper over a caller-provided slice: sort.Find passes i < len(entries) and the result is checked with i >= len(entries) before use");
  ("deprecated/compactindex36/query.go|(*Bucket).Load|make|make([]Entry, 0, b.NumEntries)|1",
     Pinned "fixes/C12-compactindex-header.diff reserves at most one batch (NumEntries comes from the file: up to 2^24 entries of 32 bytes)");
  ("deprecated/compactindex36/query.go|(*Bucket).Load|make|make([]Entry, 0, minInt64(int64(b.NumEntries), int64(batchSize)))|1",
     Trusted "at most batchSize entries reserved; append grows with the data actually read");
  ("deprecated/compactindex36/query.go|(*Bucket).Load|make|make([]byte, batchSize*stride)|1",
     Trusted "batchSize is the caller's argument (512 by default), stride a uint8");
  ("deprecated/compactindex36/query.go|(*Bucket).Load|slice|buf[:n]|1",
     Trusted "n is what ReadAt reports for buf");
  ("deprecated/compactindex36/query.go|(*Bucket).Load|slice|sub[stride:]|1",
     Trusted "inside `for len(sub) >= stride`");
  ("deprecated/compactindex36/query.go|(*Bucket).loadEntry|make|make([]byte, b.Stride)|1",
     Trusted "Stride is a uint8: at most 255 bytes");
  ("deprecated/compactindex36/query.go|(*DB).GetBucket|make|make([]byte, prefetchSize)|1",
     Trusted "at most 3000 entries of at most 255 bytes");
  ("epoch.go|(*Epoch).GetBlock|assert|doPrefetch.(bool)|1",
     Trusted "context value set only by WithSubrapghPrefetch(ctx, bool); guarded by `doPrefetch != nil`");
  ("epoch.go|(*Epoch).GetFirstAvailableBlock|assert|epochNode.Subsets[0].(cidlink.Link)|1",
     Trusted "the decoders store only cidlink.Link values in link lists (C11_Nodes dec_link_list)");
  ("epoch.go|(*Epoch).GetFirstAvailableBlock|assert|subset.Blocks[0].(cidlink.Link)|1",
     Trusted "the decoders store only cidlink.Link values in link lists (C11_Nodes dec_link_list)");
  ("epoch.go|(*Epoch).GetFirstAvailableBlock|index|epochNode.Subsets[0]|1",
     Trusted "len(...) == 0 is rejected in the statement above");
  ("epoch.go|(*Epoch).GetFirstAvailableBlock|index|subset.Blocks[0]|1",
     Trusted "len(...) == 0 is rejected in the statement above");
  ("epoch.go|(*Epoch).GetMostRecentAvailableBlock|assert|epochNode.Subsets[len(epochNode.Subsets)-1].(cidlink.Link)|1",
     Trusted "the decoders store only cidlink.Link values in link lists (C11_Nodes dec_link_list)");
  ("epoch.go|(*Epoch).GetMostRecentAvailableBlock|assert|subset.Blocks[len(subset.Blocks)-1].(cidlink.Link)|1",
     Trusted "the decoders store only cidlink.Link values in link lists (C11_Nodes dec_link_list)");
  ("epoch.go|(*Epoch).GetMostRecentAvailableBlock|index|epochNode.Subsets[len(epochNode.Subsets)-1]|1",
     Trusted "len(...) == 0 is rejected in the statement above");
  ("epoch.go|(*Epoch).GetMostRecentAvailableBlock|index|subset.Blocks[len(subset.Blocks)-1]|1",
     Trusted "len(...) == 0 is rejected in the statement above");
  ("epoch.go|(*Epoch).GetTransaction|assert|doPrefetch.(bool)|1",
     Trusted "context value set only by WithSubrapghPrefetch(ctx, bool); guarded by `doPrefetch != nil`");
  ("epoch.go|(*Epoch).ReadAtFromCar|make|make([]byte, length)|1",
     Trusted "both callers (the prefetch of getBlock, JSON-RPC and gRPC) cap length at 10 MiB");
  ("epoch.go|NewEpochFromConfig|assert|split[0].(*multiaddr.Component)|1",
     Trusted "operator configuration and Filecoin API answers, not archive bytes (out of the property's scope)");
  ("epoch.go|NewEpochFromConfig|assert|split[1].(*multiaddr.Component)|1",
     Trusted "operator configuration and Filecoin API answers, not archive bytes (out of the property's scope)");
  ("epoch.go|NewEpochFromConfig|index|config.Data.Car.FromPieces.PieceToURI[piece.CommP]|1",
     Trusted "operator configuration and Filecoin API answers, not archive bytes (out of the property's scope)");
  ("epoch.go|NewEpochFromConfig|index|minerInfo.Multiaddrs[0]|3",
     Trusted "operator configuration and Filecoin API answers, not archive bytes (out of the property's scope)");
  ("epoch.go|NewEpochFromConfig|index|split[0]|1",
     Trusted "operator configuration and Filecoin API answers, not archive bytes (out of the property's scope)");
  ("epoch.go|NewEpochFromConfig|index|split[1]|1",
     Trusted "operator configuration and Filecoin API answers, not archive bytes (out of the property's scope)");
  ("epoch.go|ParseFilecoinProviders|make|make([]peer.AddrInfo, 0, len(vs))|1",
     Trusted "sized by the argument list");
  ("epoch.go|ReadAllFromReaderAt|make|make([]byte, size)|1",
     Trusted "the only caller passes the constant blocktimeindex.DefaultIndexByteSize (1.7 MB)");
  ("epoch.go|parseNodeFromSection|slice|data[cidLen:]|1",
     Trusted "cidLen bytes were just consumed from data by cid.CidFromReader");
  ("epoch.go|parseNodeFromSection|slice|section[usize:]|1",
     Trusted "0 < usize <= len(section): binary.Uvarint result, usize <= 0 rejected above");
  ("epoch.go|readNodeWithKnownSize|make|make([]byte, length)|1",
     Trusted "length is the Size field of an index entry: 3 bytes, at most 16 MiB");
  ("gsfa/linkedlog/linked-log.go|(*LinkedLog).ReadWithSize|make|make([]byte, size)|1",
     Guarded "ll_read_total: size <= 256 MiB and (fixes/C12-linkedlog-size.diff) the record lies inside the file");
  ("gsfa/linkedlog/linked-log.go|(*LinkedLog).ReadWithSize|slice|data[:len(data)-9]|1",
     Guarded "ll_read_total: payload length >= 9 is checked against the record (fix C06-prefix-width, upstream)");
  ("gsfa/linkedlog/linked-log.go|(*LinkedLog).ReadWithSize|slice|data[len(data)-9:]|1",
     Guarded "ll_read_total: payload length >= 9 is checked against the record (fix C06-prefix-width, upstream)");
  ("gsfa/linkedlog/linked-log.go|(*LinkedLog).ReadWithSize|slice|record[prefixLen:]|1",
     Trusted "0 < prefixLen <= len(record): binary.Uvarint result, prefixLen <= 0 rejected above");
  ("gsfa/linkedlog/offset-size-slot.go|(*OffsetAndSizeAndSlot).FromBytes|index|buf[0]|1",
     Trusted "len(buf) == 0 is rejected in the statement above");
  ("gsfa/linkedlog/offset-size-slot.go|(*OffsetAndSizeAndSlot).FromBytes|slice|buf[n:]|3",
     Trusted "0 < n <= len(buf): binary.Uvarint result, n <= 0 rejected above");
  ("gsfa/linkedlog/offset-size-slot.go|(*uvarintReader).ReadByte|index|r.buf[r.pos]|1",
     Trusted "r.pos >= len(r.buf) is rejected in the statement above");
  ("gsfa/linkedlog/offset-size-slot.go|(*uvarintReader).ReadUvarint|slice|r.buf[r.pos:]|1",
     Trusted "r.pos >= len(r.buf) is rejected in the statement above");
  ("gsfa/manifest/manifest.go|(*Manifest).readAllContent|make|make([][2]uint64, 0, currentContentSize/16)|1",
     Trusted "file size / 16 (Stat), non-negative because the header was read from the same file");
  ("gsfa/manifest/manifest.go|(*Manifest).readAllContent|slice|buf[8:]|1",
     Trusted "constant bounds into the local 16-byte buffer");
  ("gsfa/manifest/manifest.go|(*Manifest).readAllContent|slice|buf[:8]|1",
     Trusted "constant bounds into the local 16-byte buffer");
  ("gsfa/manifest/manifest.go|(Values).First|index|v[0]|1",
     Trusted "len(v) == 0 is handled in the statement above");
  ("gsfa/manifest/manifest.go|(Values).Last|index|v[len(v)-1]|1",
     Trusted "len(v) == 0 is handled in the statement above");
  ("indexes/offset-and-size.go|(*OffsetAndSize).FromBytes|index|buf[IndexValueSize_CidToOffsetAndSize-1]|1",
     Trusted "len(buf) == 9 is checked first");
  ("indexes/offset-and-size.go|(*OffsetAndSize).FromBytes|slice|buf[6:]|1",
     Trusted "len(buf) == 9 is checked first");
  ("indexes/offset-and-size.go|(*OffsetAndSize).FromBytes|slice|buf[:6]|1",
     Trusted "len(buf) == 9 is checked first");
  ("indexes/offset-and-size.go|OffsetAndSizeSliceFromBytes|div|len(buf) % IndexValueSize_CidToOffsetAndSize|1",
     Trusted "divisor is the package constant IndexValueSize_CidToOffsetAndSize = 9 (declared in another file)");
  ("indexes/offset-and-size.go|OffsetAndSizeSliceFromBytes|div|len(buf) / IndexValueSize_CidToOffsetAndSize|1",
     Trusted "divisor is the package constant IndexValueSize_CidToOffsetAndSize = 9 (declared in another file)");
  ("indexes/offset-and-size.go|OffsetAndSizeSliceFromBytes|index|oass[i]|1",
     Trusted "len(buf) is a multiple of 9 (checked first); i < len(buf)/9");
  ("indexes/offset-and-size.go|OffsetAndSizeSliceFromBytes|make|make([]OffsetAndSize, len(buf)/IndexValueSize_CidToOffsetAndSize)|1",
     Trusted "len(buf) is a multiple of 9 (checked first); i < len(buf)/9");
  ("indexes/offset-and-size.go|OffsetAndSizeSliceFromBytes|slice|buf[i*IndexValueSize_CidToOffsetAndSize : (i+1)*IndexValueSize_CidToOffsetAndSize]|1",
     Trusted "len(buf) is a multiple of 9 (checked first); i < len(buf)/9");
  ("indexes/uints.go|BtoUint24|index|buf[2]|1",
     Trusted "fixed-width decoders: the only non-test caller is OffsetAndSize.FromBytes on a 9-byte buffer");
  ("indexes/uints.go|BtoUint40|index|buf[4]|1",
     Trusted "fixed-width decoders: the only non-test caller is OffsetAndSize.FromBytes on a 9-byte buffer");
  ("indexes/uints.go|BtoUint48|index|buf[5]|1",
     Trusted "fixed-width decoders: the only non-test caller is OffsetAndSize.FromBytes on a 9-byte buffer");
  ("indexes/uints.go|BtoUint64|index|buf[7]|1",
     Guarded "meta_u64_total: getDefaultMetadata checks len(value) == 8 before the call (fixes/C12-metadata-uint64.diff)");
  ("indexes/uints.go|cloneAndPad|make|make([]byte, len(buf)+pad)|1",
     Trusted "sized by an existing in-memory slice of 3, 5 or 6 bytes");
  ("indexmeta/indexmeta.go|(*Meta).UnmarshalWithDecoder|make|make([]byte, keyLen)|1",
     Trusted "keyLen / valueLen are single bytes: at most 255 bytes");
  ("indexmeta/indexmeta.go|(*Meta).UnmarshalWithDecoder|make|make([]byte, valueLen)|1",
     Trusted "keyLen / valueLen are single bytes: at most 255 bytes");
  ("indexmeta/indexmeta.go|(Meta).HasDuplicateKeys|index|seen[string(kv.Key)]|2",
     Trusted "map lookup / store");
  ("readers.go|carCountItemsByFirstByte|index|block[1]|1",
     Guarded "kind_of_total: len(block) < 2 is rejected first (fixes/C12-kind-dispatch.diff)");
  ("readers.go|carCountItemsByFirstByte|index|counts[firstDataByte]|1",
     Trusted "map store");
  ("storage.go|readNodeFromReaderAtWithOffsetAndSize|make|make([]byte, length)|1",
     Trusted "length is the Size field of an index entry: 3 bytes, at most 16 MiB");
  ("storage.go|readSectionFromReaderAt|make|make([]byte, length)|1",
     Trusted "length is the Size field of an index entry: 3 bytes, at most 16 MiB")
].

Fixpoint lookup_site (s : string) (t : list (string * site_class)) : option site_class :=
  match t with
  | [] => None
  | (k, c) :: r => if String.eqb k s then Some c else lookup_site s r
  end.

(* the generated sites that the table does not classify *)
Definition unclassified (sites : list string) : list string :=
  filter (fun s => match lookup_site s site_table with None => true | Some _ => false end) sites.

Definition count_class (p : site_class -> bool) : nat := List.length (filter (fun x => p (snd x)) site_table).
Definition n_guarded : nat := count_class (fun c => match c with Guarded _ => true | _ => false end).
Definition n_trusted : nat := count_class (fun c => match c with Trusted _ => true | _ => false end).
Definition n_pinned : nat := count_class (fun c => match c with Pinned _ => true | _ => false end).
