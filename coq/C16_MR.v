(* C16, part 1 — split-car-fetcher/fetcher.go: MultiReaderAt.ReadAt over ideal segment readers,
   and the proof that it returns exactly the requested slice of the concatenation of the segments.

   Transcribed code (pinned tree):

     func NewMultiReaderAt(readers []io.ReaderAt, sizes []int64) *MultiReaderAt {
         offsets := make([]int64, len(sizes)); var total int64 = 0
         for i, size := range sizes { offsets[i] = total; total += size } ... }

     func (m *MultiReaderAt) ReadAt(p []byte, off int64) (totalN int, err error) {
         remaining := len(p); bufOffset := 0; reachedEnd := false
         for i, offset := range m.offsets {
             if off < offset { continue }
             nextOffset := int64(math.MaxInt64)
             if i < len(m.offsets)-1 { nextOffset = m.offsets[i+1] }
             toRead := int(min(max(0, nextOffset-off), int64(remaining)))
             n, err := m.readers[i].ReadAt(p[bufOffset:bufOffset+toRead], off-offset)
             totalN += n; bufOffset += n; remaining -= n
             if err != nil {
                 if err == io.EOF && i == len(m.readers)-1 { reachedEnd = true }
                 else if err != io.EOF { return totalN, err }
             }
             if n == toRead { off += int64(n) }
             if remaining == 0 { break }
         }
         if remaining > 0 && reachedEnd { return totalN, io.EOF }
         return totalN, nil }

   Segment readers are ideal io.ReaderAt's over a byte list (bytes.Reader, io.SectionReader over a
   bytes.Reader or an *os.File; see the Go sources quoted in [seg_read]).  Offsets and lengths are Z
   because the Go values are signed (int64 / int). *)
From Coq Require Import List Arith Lia Bool PeanoNat ZArith.
Import ListNotations.

Inductive rerr := ENil | EEOF | EOther.

Definition MaxInt64 : Z := 9223372036854775807%Z.

Section MR.
Context {A : Type}.
Local Open Scope Z_scope.

(* bytes.Reader.ReadAt:      off < 0 -> error (not EOF); off >= len -> 0, EOF (even for an empty buffer);
                             n = copy(b, s[off:]); n < len(b) -> EOF.
   io.SectionReader.ReadAt:  off < 0 || off >= Size -> 0, EOF; a read clipped by the limit -> EOF; else the
                             underlying read.  For off >= 0 the two agree; off < 0 is never requested by
                             the loop (it only reads when off >= offset) — proved below: no EOther. *)
Definition seg_read (seg : list A) (len off : Z) : list A * rerr :=
  if off <? 0 then ([], EOther)
  else if Z.of_nat (length seg) <=? off then ([], EEOF)
  else let n := Z.min len (Z.of_nat (length seg) - off) in
       (firstn (Z.to_nat n) (skipn (Z.to_nat off) seg), if n <? len then EEOF else ENil).

(* NewMultiReaderAt: running total of the declared sizes *)
Fixpoint offsets_of (total : Z) (sizes : list Z) : list Z :=
  match sizes with [] => [] | s :: r => total :: offsets_of (total + s) r end.

Definition sizes_of (segs : list (list A)) : list Z := map (fun s => Z.of_nat (length s)) segs.
Definition offsets (segs : list (list A)) : list Z := offsets_of 0 (sizes_of segs).

(* The loop.  [segs]/[offs] are the readers/offsets from index [i] on, [nseg] = len(m.readers).
   [offs'] is the tail of m.offsets after index i, hence non-empty iff i < len(m.offsets)-1.
   Result: bytes placed in p[0:totalN], remaining, reachedEnd, "returned a non-EOF error". *)
Fixpoint loop (i nseg : nat) (segs : list (list A)) (offs : list Z)
              (off remaining : Z) (acc : list A) (reached : bool) : list A * Z * bool * bool :=
  match segs, offs with
  | seg :: segs', offset :: offs' =>
    if off <? offset then loop (S i) nseg segs' offs' off remaining acc reached
    else
      let nextOffset := match offs' with nx :: _ => nx | [] => MaxInt64 end in
      let toRead := Z.min (Z.max 0 (nextOffset - off)) remaining in
      let '(bs, e) := seg_read seg toRead (off - offset) in
      let n := Z.of_nat (length bs) in
      let remaining' := remaining - n in
      match e with
      | EOther => (acc ++ bs, remaining', reached, true)
      | _ =>
        let reached' := match e with
                        | EEOF => if Nat.eqb i (nseg - 1) then true else reached
                        | _ => reached end in
        let off' := if n =? toRead then off + n else off in
        if remaining' =? 0 then (acc ++ bs, remaining', reached', false)
        else loop (S i) nseg segs' offs' off' remaining' (acc ++ bs) reached'
      end
  | _, _ => (acc, remaining, reached, false)
  end.

(* ReadAt(p, off) with len(p) = len: the bytes written to p[0:n] and the error class *)
Definition read_at_multi (segs : list (list A)) (off len : Z) : list A * rerr :=
  let '(bs, remaining, reached, hard) := loop 0 (length segs) segs (offsets segs) off len [] false in
  if hard then (bs, EOther)
  else if (0 <? remaining) && reached then (bs, EEOF) else (bs, ENil).

(* the specification: plain slicing of the concatenation *)
Definition slice (segs : list (list A)) (off len : Z) : list A :=
  firstn (Z.to_nat len) (skipn (Z.to_nat off) (concat segs)).

Definition total (segs : list (list A)) : Z := Z.of_nat (length (concat segs)).

(* ---------- list facts ---------- *)
Lemma firstn_skipn_app_l (a b : list A) o r :
  (o <= length a)%nat -> (r <= length a - o)%nat ->
  firstn r (skipn o (a ++ b)) = firstn r (skipn o a).
Proof.
  intros Ho Hr. rewrite skipn_app. replace (o - length a)%nat with 0%nat by lia. cbn [skipn].
  rewrite firstn_app, skipn_length. replace (r - (length a - o))%nat with 0%nat by lia.
  cbn [firstn]. now rewrite app_nil_r.
Qed.

Lemma firstn_skipn_app_over (a b : list A) o r :
  (o <= length a)%nat -> (length a - o <= r)%nat ->
  firstn r (skipn o (a ++ b)) = skipn o a ++ firstn (r - (length a - o)) b.
Proof.
  intros Ho Hr. rewrite skipn_app. replace (o - length a)%nat with 0%nat by lia. cbn [skipn].
  rewrite firstn_app, skipn_length. rewrite firstn_all2 by (rewrite skipn_length; lia). reflexivity.
Qed.

Lemma firstn_skipn_app_r (a b : list A) o r :
  (length a <= o)%nat -> firstn r (skipn o (a ++ b)) = firstn r (skipn (o - length a) b).
Proof.
  intros Ho. rewrite skipn_app. rewrite (skipn_all2 a) by lia. reflexivity.
Qed.

Lemma total_cons s (r : list (list A)) : total (s :: r) = Z.of_nat (length s) + total r.
Proof. unfold total. cbn [concat]. rewrite app_length. lia. Qed.

Lemma total_nonneg segs : 0 <= total segs.
Proof. unfold total. lia. Qed.

(* ---------- the loop invariant ---------- *)
(* Entering the loop at a segment whose start offset is [base] with base <= off: the loop appends
   exactly the next [remaining] bytes of the remaining concatenation starting at off - base, never
   returns a non-EOF error, and if it could not deliver everything it has seen EOF on the LAST reader. *)
Lemma loop_spec : forall (segs : list (list A)), segs <> [] ->
  forall base i nseg off remaining acc reached,
  (i + length segs = nseg)%nat -> 0 <= base -> base <= off -> 0 <= remaining ->
  base + total segs < MaxInt64 ->
  let R := firstn (Z.to_nat remaining) (skipn (Z.to_nat (off - base)) (concat segs)) in
  exists reached',
    loop i nseg segs (offsets_of base (sizes_of segs)) off remaining acc reached
      = (acc ++ R, remaining - Z.of_nat (length R), reached', false)
    /\ (0 < remaining - Z.of_nat (length R) -> reached' = true).
Proof.
  induction segs as [|seg rest IH]; [congruence|]. intros _ base i nseg off remaining acc reached Hi Hb Hoff Hrem Hmax.
  cbn zeta. cbn [sizes_of map offsets_of loop]. fold (sizes_of rest).
  replace (off <? base) with false by (symmetry; apply Z.ltb_ge; lia).
  rewrite total_cons in Hmax. pose proof (total_nonneg rest) as Htr.
  set (L := Z.of_nat (length seg)) in *.
  destruct rest as [|s2 rest'].
  - (* last segment: nextOffset = MaxInt64 *)
    cbn [sizes_of map offsets_of concat]. rewrite app_nil_r.
    assert (Hlast : Nat.eqb i (nseg - 1) = true) by (apply Nat.eqb_eq; cbn [length] in Hi; lia).
    unfold total in Hmax, Htr. cbn [concat length] in Hmax, Htr.
    unfold seg_read. replace (off - base <? 0) with false by (symmetry; apply Z.ltb_ge; lia).
    fold L. destruct (L <=? off - base) eqn:Epast.
    + (* off at or beyond the end of the last segment: 0 bytes, EOF *)
      apply Z.leb_le in Epast. cbn [length]. rewrite Hlast. rewrite app_nil_r, Z.sub_0_r.
      assert (HR : firstn (Z.to_nat remaining) (skipn (Z.to_nat (off - base)) seg) = []).
      { rewrite skipn_all2 by (unfold L in Epast; lia). now rewrite firstn_nil. }
      rewrite HR. cbn [length]. rewrite app_nil_r, Z.sub_0_r.
      destruct (remaining =? 0) eqn:E0; exists true; (split; [reflexivity|auto]).
    + apply Z.leb_gt in Epast.
      set (avail := L - (off - base)) in *.
      assert (Hav : 0 < avail) by (unfold avail; lia).
      assert (HavM : avail < MaxInt64 - off) by (unfold avail; lia).
      set (toRead := Z.min (Z.max 0 (MaxInt64 - off)) remaining).
      assert (Hn : Z.min toRead avail = Z.min remaining avail) by (unfold toRead; lia).
      rewrite Hn.
      assert (Hbs : firstn (Z.to_nat (Z.min remaining avail)) (skipn (Z.to_nat (off - base)) seg)
                    = firstn (Z.to_nat remaining) (skipn (Z.to_nat (off - base)) seg)).
      { destruct (Z.le_gt_cases remaining avail) as [Hle|Hgt].
        - now rewrite Z.min_l by lia.
        - rewrite Z.min_r by lia.
          rewrite !firstn_all2; [reflexivity| |]; rewrite skipn_length; unfold avail, L in *; lia. }
      rewrite Hbs.
      set (R := firstn (Z.to_nat remaining) (skipn (Z.to_nat (off - base)) seg)).
      assert (HlenR : Z.of_nat (length R) = Z.min remaining avail).
      { unfold R. rewrite firstn_length, skipn_length. unfold avail, L in *. lia. }
      destruct (Z.min remaining avail <? toRead) eqn:Eeof.
      * (* short read on the last reader: EOF, reachedEnd *)
        rewrite Hlast. apply Z.ltb_lt in Eeof.
        destruct (remaining - Z.of_nat (length R) =? 0) eqn:E0.
        { exists true. split; [reflexivity|auto]. }
        { exists true. split; [reflexivity|auto]. }
      * apply Z.ltb_ge in Eeof.
        assert (Hfull : remaining <= avail) by (unfold toRead in Eeof; lia).
        assert (E0 : remaining - Z.of_nat (length R) = 0) by lia.
        rewrite E0. cbn [Z.eqb]. exists reached. split; [reflexivity|lia].
  - (* an inner segment: nextOffset = base + L *)
    cbn [sizes_of map offsets_of]. fold (sizes_of rest'). fold L.
    assert (Hnotlast : Nat.eqb i (nseg - 1) = false) by (apply Nat.eqb_neq; cbn [length] in Hi; lia).
    set (rest := s2 :: rest') in *.
    change (base + L :: offsets_of (base + L + Z.of_nat (length s2)) (sizes_of rest'))
      with (offsets_of (base + L) (sizes_of rest)).
    assert (Hcat : concat (seg :: rest) = seg ++ concat rest) by reflexivity. rewrite Hcat.
    unfold seg_read. replace (off - base <? 0) with false by (symmetry; apply Z.ltb_ge; lia).
    fold L. destruct (L <=? off - base) eqn:Epast.
    + (* the read starts in a later segment: toRead = 0, the reader answers 0, EOF; skip *)
      apply Z.leb_le in Epast. cbn [length]. rewrite Hnotlast. rewrite app_nil_r, Z.sub_0_r.
      replace (Z.min (Z.max 0 (base + L - off)) remaining) with 0 by lia. cbn [Z.eqb].
      rewrite Z.add_0_r.
      assert (HR : firstn (Z.to_nat remaining) (skipn (Z.to_nat (off - base)) (seg ++ concat rest))
                   = firstn (Z.to_nat remaining) (skipn (Z.to_nat (off - (base + L))) (concat rest))).
      { rewrite firstn_skipn_app_r by (unfold L in Epast; lia). f_equal. f_equal. unfold L in *. lia. }
      rewrite HR.
      destruct (remaining =? 0) eqn:E0.
      * apply Z.eqb_eq in E0. subst remaining. cbn [Z.to_nat firstn length]. rewrite app_nil_r.
        exists reached. split; [reflexivity|lia].
      * assert (Hne : rest <> []) by (unfold rest; congruence).
        destruct (IH Hne (base + L) (S i) nseg off remaining acc reached) as [r' [E1 E2]];
          try lia; [cbn [length] in Hi |- *; lia|].
        exists r'. split; [exact E1|exact E2].
    + (* the read starts inside this segment *)
      apply Z.leb_gt in Epast.
      set (avail := L - (off - base)) in *.
      assert (Hav : 0 < avail) by (unfold avail; lia).
      replace (Z.max 0 (base + L - off)) with avail by (unfold avail; lia).
      set (toRead := Z.min avail remaining).
      replace (Z.min toRead avail) with toRead by (unfold toRead; lia).
      rewrite Z.ltb_irrefl.
      set (bs := firstn (Z.to_nat toRead) (skipn (Z.to_nat (off - base)) seg)).
      assert (Hlenbs : Z.of_nat (length bs) = toRead).
      { unfold bs. rewrite firstn_length, skipn_length. unfold toRead, avail, L in *. lia. }
      rewrite Hlenbs, Z.eqb_refl.
      destruct (Z.le_gt_cases remaining avail) as [Hle|Hgt].
      * (* everything requested lies in this segment *)
        assert (HtR : toRead = remaining) by (unfold toRead; lia).
        rewrite HtR, Z.sub_diag. cbn [Z.eqb].
        assert (HR : firstn (Z.to_nat remaining) (skipn (Z.to_nat (off - base)) (seg ++ concat rest)) = bs).
        { unfold bs. rewrite HtR. apply firstn_skipn_app_l; unfold avail, L in *; lia. }
        rewrite HR. replace (Z.of_nat (length bs)) with remaining by lia. rewrite Z.sub_diag.
        exists reached. split; [reflexivity|lia].
      * (* the read continues in the next segment at exactly its start *)
        assert (HtR : toRead = avail) by (unfold toRead; lia).
        assert (E0 : (remaining - toRead =? 0) = false) by (apply Z.eqb_neq; lia). rewrite E0.
        assert (Hne : rest <> []) by (unfold rest; congruence).
        destruct (IH Hne (base + L) (S i) nseg (off + toRead) (remaining - toRead) (acc ++ bs) reached)
          as [r' [E1 E2]]; try lia; [cbn [length] in Hi |- *; lia|].
        replace (off + toRead - (base + L)) with 0 in E1, E2 by (unfold avail in *; lia).
        cbn [Z.to_nat skipn] in E1, E2.
        assert (HR : firstn (Z.to_nat remaining) (skipn (Z.to_nat (off - base)) (seg ++ concat rest))
                     = bs ++ firstn (Z.to_nat (remaining - toRead)) (concat rest)).
        { rewrite firstn_skipn_app_over by (unfold avail, L in *; lia).
          unfold bs. rewrite HtR. rewrite (firstn_all2 (n := Z.to_nat avail))
            by (rewrite skipn_length; unfold avail, L in *; lia).
          f_equal. f_equal. unfold avail, L in *. lia. }
        rewrite HR. rewrite app_length, Nat2Z.inj_add, Hlenbs.
        set (R' := firstn (Z.to_nat (remaining - toRead)) (concat rest)) in *.
        exists r'. split.
        -- rewrite E1. rewrite <- app_assoc. f_equal. f_equal. f_equal. lia.
        -- intros H. apply E2. lia.
Qed.

(* ---------- the theorem ---------- *)
Lemma slice_length segs off len : 0 <= off -> 0 <= len ->
  Z.of_nat (length (slice segs off len)) = Z.max 0 (Z.min len (total segs - off)).
Proof.
  intros Ho Hl. unfold slice, total. rewrite firstn_length, skipn_length. lia.
Qed.

Theorem read_at_multi_concat segs off len :
  segs <> [] -> 0 <= off -> 0 <= len -> total segs < MaxInt64 ->
  read_at_multi segs off len =
    (slice segs off len, if Z.of_nat (length (slice segs off len)) <? len then EEOF else ENil).
Proof.
  intros Hne Ho Hl Hmax. unfold read_at_multi, offsets.
  destruct (loop_spec segs Hne 0 0%nat (length segs) off len [] false) as [r' [E1 E2]]; try lia.
  rewrite Z.sub_0_r in E1, E2. cbn [app] in E1. fold (slice segs off len) in E1, E2. rewrite E1.
  destruct (Z.of_nat (length (slice segs off len)) <? len) eqn:Elt.
  - apply Z.ltb_lt in Elt. rewrite E2 by lia.
    replace (0 <? len - Z.of_nat (length (slice segs off len))) with true
      by (symmetry; apply Z.ltb_lt; lia). reflexivity.
  - apply Z.ltb_ge in Elt.
    assert (Hle : Z.of_nat (length (slice segs off len)) <= len).
    { unfold slice. rewrite firstn_length. lia. }
    replace (0 <? len - Z.of_nat (length (slice segs off len))) with false
      by (symmetry; apply Z.ltb_ge; lia). reflexivity.
Qed.

(* end of file is reported iff the read was short, i.e. iff a non-empty read reaches past the total *)
Lemma short_iff segs off len : 0 <= off -> 0 <= len ->
  (Z.of_nat (length (slice segs off len)) <? len) = true <-> (0 < len /\ total segs < off + len).
Proof.
  intros Ho Hl. rewrite Z.ltb_lt, slice_length by lia. pose proof (total_nonneg segs). lia.
Qed.

End MR.
