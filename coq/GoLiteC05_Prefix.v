(* C05 — prefixToUint16 / uint16ToPrefix of bucketteer/read.go, translated from the Go source on every check:
     prefixToUint16 = the model's [prefix] (little-endian value of the first two bytes, C05_Model.v)
     uint16ToPrefix = Codec.le_enc 2, the inverse of [prefix] on two-byte inputs
   (the deprecated package has no such functions: its prefixes are map keys). *)
From Coq Require Import List ZArith NArith String Bool Lia.
Import ListNotations.
Require Import YF.GoLite YF.GoLiteLemmas YF.Generated.GoLiteC05 YF.Codec YF.C05_Model
               YF.GoLiteC04_Proofs YF.GoLiteC04_Codec.
Local Open Scope string_scope.
Local Open Scope Z_scope.
Local Open Scope list_scope.

(* the model's prefix is the little-endian value of the first two bytes *)
Lemma prefix_le_dec (s : list N) : (2 <= List.length s)%nat -> prefix s = le_dec (firstn 2 s).
Proof.
  intros H. destruct s as [|a [|b r]]; cbn [List.length] in H; try lia.
  unfold prefix. cbn [firstn le_dec nth]. lia.
Qed.

Lemma prefix_le_enc (p : N) : (p < 65536)%N -> prefix (le_enc 2 p) = p.
Proof.
  intros H. rewrite prefix_le_dec by (rewrite le_enc_length; lia).
  rewrite firstn_all2 by (rewrite le_enc_length; lia). apply le_roundtrip. cbn. lia.
Qed.

Lemma le_enc_prefix (s : list N) : List.length s = 2%nat -> Forall (fun b => (b < 256)%N) s -> le_enc 2 (prefix s) = s.
Proof.
  intros Hl Hb. rewrite prefix_le_dec by lia. rewrite firstn_all2 by lia.
  rewrite <- Hl. apply le_dec_enc. exact Hb.
Qed.

Section Generic.
Variable prog : program.
Hypothesis prog_prefixToUint16 : plookup "prefixToUint16" prog = Some fn_prefixToUint16.
Hypothesis prog_uint16ToPrefix : plookup "uint16ToPrefix" prog = Some fn_uint16ToPrefix.

(* prefixToUint16 on ANY byte slice of at least two bytes is the little-endian value of the first two *)
Theorem prefixToUint16_is_le_value ext fuel (l : list Z) : (2 <= List.length l)%nat ->
  call prog ext fuel "prefixToUint16" [VInts l] = RRet (VInt (le_value (firstn 2 l))).
Proof.
  intros H. unfold call. rewrite prog_prefixToUint16. unfold fn_prefixToUint16.
  cbn [f_params f_body bind_params]. go_run.
  assert (Hb : ((0 <=? zlen l) && (zlen l <=? zlen l))%bool = true).
  { pose proof (zlen_nonneg l). rewrite !andb_true_iff. repeat split; apply Z.leb_le; lia. }
  rewrite Hb. go_cbn. rewrite slice_z_all.
  replace (zlen l <? 2) with false by (symmetry; apply Z.ltb_ge; unfold zlen; lia).
  reflexivity.
Qed.

(* the argument Go passes is the [2]byte made of the first two bytes of the signature: the model's prefix *)
Theorem prefixToUint16_is_prefix ext fuel (s : list N) : (2 <= List.length s)%nat ->
  call prog ext fuel "prefixToUint16" [VInts (zs (firstn 2 s))] = RRet (VInt (Z.of_N (prefix s))).
Proof.
  intros H. rewrite prefixToUint16_is_le_value.
  - unfold zs. rewrite <- firstn_map. rewrite firstn_firstn. cbn [Nat.min].
    rewrite firstn_map. fold (zs (firstn 2 s)). rewrite le_value_zs, prefix_le_dec by exact H. reflexivity.
  - unfold zs. rewrite map_length, firstn_length. lia.
Qed.

(* uint16ToPrefix writes the two little-endian bytes of its argument *)
Theorem uint16ToPrefix_is_le_enc ext fuel (p : N) :
  call prog ext fuel "uint16ToPrefix" [VInt (Z.of_N p)] = RRet (VInts (zs (le_enc 2 p))).
Proof.
  unfold call. rewrite prog_uint16ToPrefix. unfold fn_uint16ToPrefix.
  cbn [f_params f_body bind_params]. go_run.
  change (slice_z [0; 0] 0 2) with [0; 0]. go_run.
  assert (Hl2 : List.length (le_bytes 2 (Z.of_N p)) = 2%nat) by apply le_bytes_length.
  rewrite (blit_full [0; 0] (le_bytes 2 (Z.of_N p))) by (rewrite Hl2; reflexivity).
  assert (Hz : zlen (le_bytes 2 (Z.of_N p)) = 2) by (unfold zlen; rewrite Hl2; reflexivity).
  rewrite Hz. go_consts. go_cbn.
  rewrite (blit_full [0; 0] (le_bytes 2 (Z.of_N p))) by (rewrite Hl2; reflexivity).
  go_run. rewrite le_bytes_zs. reflexivity.
Qed.

(* ... hence it inverts the model's prefix on two-byte inputs, and prefix inverts it on every uint16 *)
Corollary uint16ToPrefix_inverts_prefix ext fuel (s : list N) :
  List.length s = 2%nat -> Forall (fun b => (b < 256)%N) s ->
  call prog ext fuel "uint16ToPrefix" [VInt (Z.of_N (prefix s))] = RRet (VInts (zs s)).
Proof. intros Hl Hb. rewrite uint16ToPrefix_is_le_enc, le_enc_prefix by assumption. reflexivity. Qed.

Corollary prefixToUint16_inverts_uint16ToPrefix ext fuel (p : N) : (p < 65536)%N ->
  call prog ext fuel "prefixToUint16" [VInts (zs (le_enc 2 p))] = RRet (VInt (Z.of_N p)).
Proof.
  intros Hp. rewrite prefixToUint16_is_le_value by (unfold zs; rewrite map_length, le_enc_length; lia).
  rewrite firstn_all2 by (unfold zs; rewrite map_length, le_enc_length; lia).
  rewrite le_value_zs. rewrite le_roundtrip by (cbn; lia). reflexivity.
Qed.
End Generic.
