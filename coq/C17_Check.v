(* C17 — checker used on the harness's observations of the real RangeCache.

   A case = the remote file + a recorded sequential history.  Each step records the operation, what the
   implementation returned, whether the remote fetcher was called, and the cache contents afterwards.

   [check]         (alarm)  acceptance predicate: what C17 allows a range cache to do.  It does not fix the
                            caching POLICY (which entries are kept/dropped, whether a covered read re-fetches):
                            only what the property demands — replies, truthful cache contents, nothing cached
                            that was not successfully fetched/set, errors only with a cause, no padding.
                            [accepted_transparent]: every accepted history satisfies the property.
                            [model_get/set/del_accepted]: every behaviour of the model C17_RC is accepted.
   [check_policy]  (diagnostic, not run by bin/check) strict replay of the model C17_RC (exact hit, superset
                            hit, drop subsets, ignore covered ranges, cache only on success): replies, fetches
                            and cache contents must be identical. *)
From Coq Require Import List Arith Lia Bool PeanoNat NArith ZArith.
Import ListNotations.
Require Import YF.C17_RC.
Local Open Scope nat_scope.

Inductive oop :=
| OGet (start ln : Z) (cancel fail fetched : bool) (res : reply)
    (* GetRange(start,ln); ctx pre-cancelled?; fetcher armed to fail?; fetcher was called?; result *)
| OSet (start ln : Z) (v : list N) (cancel : bool) (ok : bool)
| ODel (aged : list range) (cancel : bool).     (* DeleteOldEntries; [aged] = entries older than maxAge *)
Definition ostep := (oop * cache)%type.          (* operation + cache contents observed after it *)
Definition case := (list N * list ostep)%type.  (* remote bytes, history starting from the empty cache *)

Fixpoint bytes_eqb (a b : list N) : bool :=
  match a, b with
  | [], [] => true
  | x :: a', y :: b' => N.eqb x y && bytes_eqb a' b'
  | _, _ => false
  end.
Lemma bytes_eqb_eq a : forall b, bytes_eqb a b = true <-> a = b.
Proof.
  induction a as [|x a IH]; intros [|y b]; cbn; try (split; [discriminate|discriminate]); [tauto|].
  rewrite andb_true_iff, N.eqb_eq, IH. split; [intros [-> ->]; auto|intros E; inversion E; auto].
Qed.

Definition entry_okb (remote : list N) (e : entry) : bool :=
  (fst (fst e) <=? snd (fst e)) && (snd (fst e) <=? length remote) &&
  bytes_eqb (snd e) (slice remote (fst (fst e)) (snd (fst e))).
Definition inv_b (remote : list N) (c : cache) : bool := forallb (entry_okb remote) c.
Definition has_key (c : cache) (r : range) : bool := existsb (fun e => range_eqb (fst e) r) c.
Definition keys_sub (post pre : cache) : bool := forallb (fun e => has_key pre (fst e)) post.
Definition keys_sub_plus (post pre : cache) (rq : range) : bool :=
  forallb (fun e => has_key pre (fst e) || contains rq (fst e)) post.
Definition covered (pre : cache) (rq : range) : bool := existsb (fun e => contains (fst e) rq) pre.

(* ---------------- acceptance: what the property allows one operation to do ---------------- *)
Definition op_ok (remote : list N) (pre : cache) (s : ostep) : bool :=
  let '(op, post) := s in
  inv_b remote post &&
  match op with
  | OGet start ln cancel fail fetched res =>
      match req_range remote start ln with
      | None => (match res with RErr => true | _ => false end) && negb fetched && keys_sub post pre
      | Some rq =>
          match res with
          | RBytes bs =>
              bytes_eqb bs (slice remote (fst rq) (snd rq)) &&
              (if fetched then negb fail && keys_sub_plus post pre rq
               else covered pre rq && keys_sub post pre)
          | RErr => ((fetched && fail) || cancel) && keys_sub post pre
          end
      end
  | OSet start ln v cancel ok =>
      match req_range remote start ln with
      | None => negb ok && keys_sub post pre
      | Some rq => if length v =? snd rq - fst rq
                   then (ok || cancel) && keys_sub_plus post pre rq
                   else negb ok && keys_sub post pre
      end
  | ODel _ _ => keys_sub post pre
  end.

Fixpoint hist_ok (remote : list N) (pre : cache) (h : list ostep) : bool :=
  match h with
  | [] => true
  | s :: h' => op_ok remote pre s && hist_ok remote (snd s) h'
  end.

Definition case_ok (c : case) : bool := hist_ok (fst c) [] (snd c).

Fixpoint bad_from (f : case -> bool) (i : nat) (cs : list case) : list nat :=
  match cs with [] => [] | c :: t => if f c then bad_from f (S i) t else i :: bad_from f (S i) t end.
Definition check (cs : list case) : list nat := bad_from case_ok 0 cs.

(* ---------------- acceptance implies the property ---------------- *)
Lemma inv_b_spec remote c : inv_b remote c = true <-> Inv remote c.
Proof.
  unfold inv_b, Inv. rewrite forallb_forall. split.
  - intros H r v Hin. specialize (H (r, v) Hin). unfold entry_okb in H. cbn in H.
    rewrite !andb_true_iff, !Nat.leb_le, bytes_eqb_eq in H. tauto.
  - intros H [r v] Hin. destruct (H r v Hin) as [A [B C]]. unfold entry_okb. cbn.
    rewrite !andb_true_iff, !Nat.leb_le, bytes_eqb_eq. tauto.
Qed.

Definition get_ok (remote : list N) (start ln : Z) (cancel fail fetched : bool) (res : reply) : Prop :=
  match res with
  | RBytes bs => remote_read remote start ln = Some bs
  | RErr => remote_read remote start ln = None \/ (fetched = true /\ fail = true) \/ cancel = true
  end.

Theorem accepted_step remote pre op post :
  (Z.of_nat (length remote) < two63)%Z -> op_ok remote pre (op, post) = true ->
  Inv remote post /\
  match op with
  | OGet start ln cancel fail fetched res => int64 start -> int64 ln -> get_ok remote start ln cancel fail fetched res
  | _ => True
  end.
Proof.
  intros Hfit H. unfold op_ok in H. apply andb_true_iff in H. destruct H as [HI H].
  split; [apply inv_b_spec; exact HI|].
  destruct op as [start ln cancel fail fetched res| |]; auto. intros I1 I2.
  destruct (req_range remote start ln) as [rq|] eqn:Er.
  - destruct res as [bs|]; cbn.
    + apply andb_true_iff in H. destruct H as [Hb _]. apply bytes_eqb_eq in Hb. subst bs.
      apply (req_range_some remote Hfit start ln rq I1 I2 Er).
    + apply andb_true_iff in H. destruct H as [Hc _]. apply orb_true_iff in Hc.
      destruct Hc as [Hc|Hc]; [apply andb_true_iff in Hc; tauto|tauto].
  - destruct res as [bs|]; [cbn in H; discriminate|]. cbn. left. apply req_range_none; auto.
Qed.

(* every GetRange of an accepted history returned the remote bytes, or an error with a cause *)
Theorem accepted_transparent remote : (Z.of_nat (length remote) < two63)%Z ->
  forall h pre, hist_ok remote pre h = true ->
  forall k start ln cancel fail fetched res post,
    nth_error h k = Some (OGet start ln cancel fail fetched res, post) ->
    int64 start -> int64 ln -> Inv remote post /\ get_ok remote start ln cancel fail fetched res.
Proof.
  intros Hfit h. induction h as [|s h IH]; intros pre H k start ln cancel fail fetched res post Hk I1 I2.
  - destruct k; discriminate.
  - cbn [hist_ok] in H. apply andb_true_iff in H. destruct H as [H1 H2].
    destruct k as [|k]; cbn [nth_error] in Hk.
    + inversion Hk; subst s. destruct (accepted_step remote pre _ post Hfit H1) as [A B]. auto.
    + eapply IH; eauto.
Qed.

(* ---------------- the model C17_RC run sequentially by one thread ---------------- *)
Definition seq_state (c : cache) : state := {| st_cache := c; st_pend := [] |}.

Definition model_get (remote : list N) (c : cache) (start ln : Z) (pick : nat) (cancel fail : bool)
  (del : range -> bool) : bool * reply * cache :=
  match step remote (seq_state c) 0 (ALookup start ln pick cancel) with
  | (st1, Some (EvGet _ _ r)) => (false, r, st_cache st1)
  | (st1, _) =>
      match step remote st1 0 (AMiss (negb fail) del cancel) with
      | (st2, Some (EvGet _ _ r)) => (true, r, st_cache st2)
      | (st2, _) => (true, RErr, st_cache st2)
      end
  end.
Definition model_set (remote : list N) (c : cache) (start ln : Z) (v : list N) (del : range -> bool) (cancel : bool)
  : bool * cache :=
  match step remote (seq_state c) 0 (ASet start ln v del cancel) with
  | (st1, Some (EvSet _ _ ok)) => (ok, st_cache st1)
  | (st1, _) => (false, st_cache st1)
  end.
Definition model_del (remote : list N) (c : cache) (old : range -> bool) : cache :=
  st_cache (fst (step remote (seq_state c) 0 (ADeleteOld old))).

Lemma has_key_in c e : In e c -> has_key c (fst e) = true.
Proof. intros H. apply existsb_exists. exists e. split; auto. apply range_eqb_refl. Qed.
Lemma keys_sub_refl c : keys_sub c c = true.
Proof. apply forallb_forall. intros e H. apply has_key_in; auto. Qed.
Lemma keys_sub_filter f c : keys_sub (filter f c) c = true.
Proof. apply forallb_forall. intros e H. apply filter_In in H. apply has_key_in; tauto. Qed.
Lemma contains_refl r : contains r r = true.
Proof. unfold contains. now rewrite !Nat.leb_refl. Qed.
Lemma keys_sub_plus_of_sub post pre rq : keys_sub post pre = true -> keys_sub_plus post pre rq = true.
Proof.
  unfold keys_sub, keys_sub_plus. rewrite !forallb_forall. intros H e Hin. rewrite (H e Hin). reflexivity.
Qed.
Lemma set_range_keys_plus del cancel c rq v :
  keys_sub_plus (fst (set_range del cancel c rq v)) c rq = true.
Proof.
  apply forallb_forall. intros e Hin. destruct (set_range_keys del cancel c rq v e Hin) as [->|H].
  - cbn. rewrite contains_refl. apply orb_true_r.
  - rewrite (has_key_in c e H). reflexivity.
Qed.
Lemma set_range_cancel_keys del c rq v : c <> [] -> keys_sub (fst (set_range del true c rq v)) c = true.
Proof. intros Hc. unfold set_range. destruct c; [congruence|]. cbn [fst]. apply keys_sub_filter. Qed.

Lemma lookup_hit_covered c rq pick cancel bs : lookup c rq pick cancel = LHit bs -> covered c rq = true.
Proof.
  unfold lookup. destruct c as [|e0 c0]; [discriminate|]. remember (e0 :: c0) as c.
  destruct (find (fun e => range_eqb (fst e) rq) c) as [e|] eqn:Ef.
  - intros _. apply find_some in Ef. destruct Ef as [Hin Heq]. apply range_eqb_eq in Heq.
    apply existsb_exists. exists e. split; auto. rewrite Heq. apply contains_refl.
  - destruct cancel; [discriminate|].
    destruct (nth_error (supersets c rq) _) as [[r v]|] eqn:En; [|discriminate]. intros _.
    apply nth_error_In in En. apply filter_In in En. apply existsb_exists. exists (r, v). tauto.
Qed.

Lemma step_lookup_seq remote c start ln pick cancel :
  step remote (seq_state c) 0 (ALookup start ln pick cancel) =
  match req_range remote start ln with
  | None => (seq_state c, Some (EvGet start ln RErr))
  | Some rq =>
      match lookup c rq pick cancel with
      | LHit bs => (seq_state c, Some (EvGet start ln (reply_of rq bs)))
      | LCancelled => (seq_state c, Some (EvGet start ln RErr))
      | LMiss => (set_pend (seq_state c) 0 {| p_start := start; p_ln := ln; p_rq := rq |}, None)
      end
  end.
Proof. reflexivity. Qed.
Lemma step_miss_seq remote c p ok del cancel :
  step remote (set_pend (seq_state c) 0 p) 0 (AMiss ok del cancel) =
  if ok then ({| st_cache := fst (set_range del cancel c (p_rq p) (slice remote (fst (p_rq p)) (snd (p_rq p))));
                 st_pend := [] |},
              Some (EvGet (p_start p) (p_ln p) (reply_of (p_rq p) (slice remote (fst (p_rq p)) (snd (p_rq p))))))
  else (seq_state c, Some (EvGet (p_start p) (p_ln p) RErr)).
Proof. destruct ok; reflexivity. Qed.

(* no false alarm on the model: whatever the choices, a model GetRange is accepted *)
Theorem model_get_accepted remote c start ln pick cancel fail del fetched r c' :
  Inv remote c -> model_get remote c start ln pick cancel fail del = (fetched, r, c') ->
  op_ok remote c (OGet start ln cancel fail fetched r, c') = true.
Proof.
  intros HI. unfold model_get. rewrite step_lookup_seq. unfold op_ok.
  destruct (req_range remote start ln) as [rq|] eqn:Er.
  2:{ intros H; injection H as <- <- <-. cbn. rewrite (proj2 (inv_b_spec remote c) HI), keys_sub_refl. reflexivity. }
  destruct (req_range_valid remote _ _ _ Er) as [V1 V2].
  destruct (lookup c rq pick cancel) as [bs| |] eqn:El.
  - pose proof (lookup_hit_correct remote _ _ _ _ _ HI V1 V2 El) as Hb. subst bs.
    rewrite reply_of_ok by auto. intros H; injection H as <- <- <-. cbn [st_cache seq_state].
    rewrite (proj2 (inv_b_spec remote c) HI). cbn [andb].
    rewrite (proj2 (bytes_eqb_eq _ _) eq_refl), (lookup_hit_covered _ _ _ _ _ El), keys_sub_refl. reflexivity.
  - intros H; injection H as <- <- <-. cbn [st_cache seq_state].
    rewrite (proj2 (inv_b_spec remote c) HI), keys_sub_refl.
    assert (cancel = true) as ->.
    { unfold lookup in El. destruct c; [discriminate|].
      match type of El with context [find ?f ?l] => destruct (find f l) end; [discriminate|].
      destruct cancel; auto.
      match type of El with context [nth_error ?l ?i] => destruct (nth_error l i) as [[? ?]|] end; discriminate. }
    cbn. reflexivity.
  - rewrite step_miss_seq. cbn [p_rq p_start p_ln].
    destruct fail; cbn [negb].
    + intros H; injection H as <- <- <-. cbn [st_cache seq_state].
      rewrite (proj2 (inv_b_spec remote c) HI), keys_sub_refl. reflexivity.
    + rewrite reply_of_ok by auto. intros H; injection H as <- <- <-. cbn [st_cache].
      assert (HI' : Inv remote (fst (set_range del cancel c rq (slice remote (fst rq) (snd rq)))))
        by (apply set_range_Inv; auto).
      rewrite (proj2 (inv_b_spec remote _) HI'). cbn [andb negb].
      rewrite (proj2 (bytes_eqb_eq _ _) eq_refl), set_range_keys_plus. reflexivity.
Qed.

Theorem model_set_accepted remote c start ln v del cancel ok c' :
  Inv remote c -> truthful remote (ASet start ln v del cancel) ->
  model_set remote c start ln v del cancel = (ok, c') ->
  op_ok remote c (OSet start ln v cancel ok, c') = true.
Proof.
  intros HI Ht. unfold model_set. cbn [step]. cbn [st_cache seq_state]. unfold op_ok.
  destruct (req_range remote start ln) as [rq|] eqn:Er.
  2:{ intros H; injection H as <- <-. cbn. rewrite (proj2 (inv_b_spec remote c) HI), keys_sub_refl. reflexivity. }
  destruct (req_range_valid remote _ _ _ Er) as [V1 V2].
  destruct (length v =? snd rq - fst rq) eqn:El.
  2:{ intros H; injection H as <- <-. cbn. rewrite (proj2 (inv_b_spec remote c) HI), keys_sub_refl. reflexivity. }
  apply Nat.eqb_eq in El. pose proof (Ht rq Er El) as Hv.
  pose proof (set_range_Inv remote del cancel c rq v HI V1 V2 Hv) as HI'.
  pose proof (set_range_keys_plus del cancel c rq v) as HK.
  assert (Hok : snd (set_range del cancel c rq v) = true \/ cancel = true).
  { unfold set_range. destruct c; [left; reflexivity|]. destruct cancel; [right; reflexivity|left].
    destruct (existsb _ _); reflexivity. }
  destruct (set_range del cancel c rq v) as [c1 ok1]. cbn [fst snd] in *.
  intros H; injection H as <- <-. cbn [with_cache st_cache].
  rewrite (proj2 (inv_b_spec remote _) HI'), HK. cbn [andb].
  destruct Hok as [->| ->]; [reflexivity|now rewrite orb_true_r].
Qed.

Theorem model_del_accepted remote c old aged cancel :
  Inv remote c -> op_ok remote c (ODel aged cancel, model_del remote c old) = true.
Proof.
  intros HI. unfold model_del. cbn [step fst with_cache st_cache seq_state]. unfold op_ok.
  rewrite (proj2 (inv_b_spec remote _) (Inv_filter remote c _ HI)), keys_sub_filter. reflexivity.
Qed.

(* ---------------- strict replay of the model's caching policy (diagnostic) ---------------- *)
Definition entry_eqb (a b : entry) : bool := range_eqb (fst a) (fst b) && bytes_eqb (snd a) (snd b).
Definition cache_eqb (a b : cache) : bool :=
  (length a =? length b) && forallb (fun e => existsb (entry_eqb e) b) a && forallb (fun e => existsb (entry_eqb e) a) b.
Definition reply_eqb (a b : reply) : bool :=
  match a, b with RBytes x, RBytes y => bytes_eqb x y | RErr, RErr => true | _, _ => false end.
Definition none_del : range -> bool := fun _ => false.
Definition in_ranges (l : list range) (r : range) : bool := existsb (range_eqb r) l.

Definition policy_step (remote : list N) (pre : cache) (s : ostep) : bool * cache :=
  let '(op, post) := s in
  match op with
  | OGet start ln cancel fail fetched res =>
      let '(f, r, c') := model_get remote pre start ln 0 cancel fail none_del in
      (Bool.eqb f fetched && reply_eqb r res && cache_eqb c' post, c')
  | OSet start ln v cancel ok =>
      let '(ok', c') := model_set remote pre start ln v none_del cancel in
      (Bool.eqb ok ok' && cache_eqb c' post, c')
  | ODel aged cancel =>
      let c' := model_del remote pre (if cancel then none_del else in_ranges aged) in
      (cache_eqb c' post, c')
  end.
Fixpoint policy_hist (remote : list N) (pre : cache) (h : list ostep) : bool :=
  match h with
  | [] => true
  | s :: h' => let '(ok, c') := policy_step remote pre s in ok && policy_hist remote c' h'
  end.
Definition check_policy (cs : list case) : list nat := bad_from (fun c => policy_hist (fst c) [] (snd c)) 0 cs.
