(* C09: the epoch set of MultiEpoch as a finite map, its writers, the epoch listing and the isolated-query statement.
   An epoch object is identified by [eid] (which object it is) and carries the config file path [epath].
   The Go map is modelled as an association list with duplicate-free keys; nothing below depends on the order. *)
From Coq Require Import List NArith Lia Bool Permutation Sorting.Sorted.
Import ListNotations.
Local Open Scope N_scope.

Record epoch := { eid : N; epath : N }.
Definition emap := list (N * epoch).

Fixpoint lookup (m : emap) (k : N) : option epoch :=
  match m with
  | [] => None
  | (k', e) :: t => if N.eqb k' k then Some e else lookup t k
  end.
Definition remove (m : emap) (k : N) : emap := filter (fun kv => negb (N.eqb (fst kv) k)) m.
Definition keys (m : emap) : list N := map fst m.
Definition has (m : emap) (k : N) : bool := match lookup m k with Some _ => true | None => false end.

(* writers: AddEpoch, ReplaceOrAddEpoch, ReplaceEpoch, RemoveEpoch, RemoveEpochByConfigFilepath.
   The last one ranges over the Go map in an unspecified order and removes the first epoch whose path matches;
   [RemoveByPathAt p k] is "the iteration met key k first": the environment chooses k. *)
Inductive wop :=
| Add (k : N) (e : epoch)
| ReplaceOrAdd (k : N) (e : epoch)
| Replace (k : N) (e : epoch)
| Remove (k : N)
| RemoveByPathAt (p k : N).

Definition target (w : wop) : N :=
  match w with Add k _ | ReplaceOrAdd k _ | Replace k _ | Remove k | RemoveByPathAt _ k => k end.

Definition apply (m : emap) (w : wop) : emap :=
  match w with
  | Add k e => if has m k then m else (k, e) :: m
  | ReplaceOrAdd k e => (k, e) :: remove m k
  | Replace k e => if has m k then (k, e) :: remove m k else m
  | Remove k => remove m k
  | RemoveByPathAt p k =>
      match lookup m k with
      | Some e => if N.eqb (epath e) p then remove m k else m
      | None => m
      end
  end.

Definition apply_all (m : emap) (ws : list wop) : emap := fold_left apply ws m.

(* ---------- basic facts ---------- *)
Lemma lookup_remove_other m k k' : k <> k' -> lookup (remove m k) k' = lookup m k'.
Proof.
  intros Hne. induction m as [|[a e] t IH]; cbn; [reflexivity|].
  destruct (N.eqb_spec a k) as [->|Hak]; cbn.
  - destruct (N.eqb_spec k k'); [contradiction|exact IH].
  - destruct (N.eqb a k'); [reflexivity|exact IH].
Qed.

Lemma lookup_remove_same m k : lookup (remove m k) k = None.
Proof.
  induction m as [|[a e] t IH]; cbn; [reflexivity|].
  destruct (N.eqb_spec a k) as [->|Hak]; cbn; [exact IH|].
  destruct (N.eqb_spec a k); [contradiction|exact IH].
Qed.

Lemma lookup_In_keys m k : lookup m k <> None <-> In k (keys m).
Proof.
  induction m as [|[a e] t IH]; cbn; [tauto|].
  destruct (N.eqb_spec a k) as [->|Hak].
  - split; [auto|discriminate].
  - rewrite IH. split; [auto|]. intros [H|H]; [contradiction|exact H].
Qed.

Lemma keys_remove m k x : In x (keys (remove m k)) <-> In x (keys m) /\ x <> k.
Proof.
  unfold keys, remove. induction m as [|[a e] t IH]; cbn; [tauto|].
  destruct (N.eqb_spec a k) as [->|Hak]; cbn.
  - rewrite IH. split; [tauto|]. intros [[H|H] Hx]; [congruence|tauto].
  - rewrite IH. split.
    + intros [H|H]; [subst; auto|tauto].
    + tauto.
Qed.

Lemma NoDup_keys_remove m k : NoDup (keys m) -> NoDup (keys (remove m k)).
Proof.
  unfold keys, remove. induction m as [|[a e] t IH]; cbn; intros H; [constructor|].
  inversion H; subst. destruct (N.eqb a k); cbn; [auto|].
  constructor; [|auto]. intros Hin. apply (keys_remove t k a) in Hin. tauto.
Qed.

Definition wf (m : emap) : Prop := NoDup (keys m).

Lemma has_false_not_in m k : has m k = false -> ~ In k (keys m).
Proof.
  unfold has. intros H Hin. apply lookup_In_keys in Hin. destruct (lookup m k); [discriminate|contradiction].
Qed.

Lemma apply_wf m w : wf m -> wf (apply m w).
Proof.
  unfold wf. intros H. destruct w as [k e|k e|k e|k|p k]; cbn.
  - destruct (has m k) eqn:Eh; [exact H|]. cbn. constructor; [apply has_false_not_in, Eh|exact H].
  - cbn. constructor; [|apply NoDup_keys_remove, H]. intros Hin. apply keys_remove in Hin. tauto.
  - destruct (has m k); [|exact H]. cbn. constructor; [|apply NoDup_keys_remove, H].
    intros Hin. apply keys_remove in Hin. tauto.
  - apply NoDup_keys_remove, H.
  - destruct (lookup m k) as [e|]; [|exact H]. destruct (N.eqb (epath e) p); [apply NoDup_keys_remove, H|exact H].
Qed.

Lemma apply_all_wf ws : forall m, wf m -> wf (apply_all m ws).
Proof.
  induction ws as [|w r IH]; intros m H; [exact H|].
  change (apply_all m (w :: r)) with (apply_all (apply m w) r). apply IH, apply_wf, H.
Qed.

Lemma empty_wf : wf []. Proof. constructor. Qed.

(* a write aimed at another epoch does not change what is stored under k *)
Lemma apply_other m w k : target w <> k -> lookup (apply m w) k = lookup m k.
Proof.
  destruct w as [a e|a e|a e|a|p a]; cbn; intros Hne.
  - destruct (has m a); [reflexivity|]. cbn. destruct (N.eqb_spec a k); [contradiction|reflexivity].
  - destruct (N.eqb_spec a k); [contradiction|]. apply lookup_remove_other, Hne.
  - destruct (has m a); [|reflexivity]. cbn. destruct (N.eqb_spec a k); [contradiction|].
    apply lookup_remove_other, Hne.
  - apply lookup_remove_other, Hne.
  - destruct (lookup m a) as [e|]; [|reflexivity].
    destruct (N.eqb (epath e) p); [apply lookup_remove_other, Hne|reflexivity].
Qed.

Lemma apply_all_other ws : forall m k, (forall w, In w ws -> target w <> k) -> lookup (apply_all m ws) k = lookup m k.
Proof.
  induction ws as [|w r IH]; intros m k H; [reflexivity|].
  change (apply_all m (w :: r)) with (apply_all (apply m w) r).
  rewrite IH by (intros w' Hw'; apply H; right; exact Hw').
  apply apply_other, H. left; reflexivity.
Qed.

(* ---------- the epoch listing: GetEpochNumbers ---------- *)
Fixpoint insert_desc (x : N) (l : list N) : list N :=
  match l with
  | [] => [x]
  | y :: t => if N.ltb y x then x :: l else y :: insert_desc x t
  end.
Definition sort_desc (l : list N) : list N := fold_right insert_desc [] l.

(* GetEpochNumbers: collect the keys (any order), sort with less(i,j) := a[i] > a[j] *)
Definition epoch_numbers (m : emap) : list N := sort_desc (keys m).

Lemma insert_desc_perm x l : Permutation (insert_desc x l) (x :: l).
Proof.
  induction l as [|y t IH]; cbn; [reflexivity|].
  destruct (N.ltb y x); [reflexivity|]. rewrite IH. apply perm_swap.
Qed.

Lemma sort_desc_perm l : Permutation (sort_desc l) l.
Proof.
  induction l as [|x t IH]; cbn; [reflexivity|]. rewrite insert_desc_perm. constructor. exact IH.
Qed.

Lemma insert_desc_In x l y : In y (insert_desc x l) <-> y = x \/ In y l.
Proof.
  split; intros H.
  - apply (Permutation_in _ (insert_desc_perm x l)) in H. destruct H; auto.
  - apply (Permutation_in _ (Permutation_sym (insert_desc_perm x l))). destruct H; [left; auto|right; auto].
Qed.

Lemma insert_desc_sorted x l : ~ In x l -> StronglySorted N.gt l -> StronglySorted N.gt (insert_desc x l).
Proof.
  induction l as [|y t IH]; cbn; intros Hnin Hs.
  - constructor; constructor.
  - inversion Hs as [|? ? Hst Hall]; subst. destruct (N.ltb_spec y x) as [Hlt|Hge].
    + constructor; [exact Hs|]. constructor; [lia|].
      rewrite Forall_forall in *. intros z Hz. specialize (Hall z Hz). lia.
    + assert (x <> y) by (intros ->; apply Hnin; left; reflexivity).
      constructor.
      * apply IH; [intros Hin; apply Hnin; right; exact Hin|exact Hst].
      * rewrite Forall_forall in *. intros z Hz. apply insert_desc_In in Hz. destruct Hz as [->|Hz]; [lia|auto].
Qed.

Lemma sort_desc_sorted l : NoDup l -> StronglySorted N.gt (sort_desc l).
Proof.
  induction 1 as [|x t Hnin Hnd IH]; cbn; [constructor|].
  apply insert_desc_sorted; [|exact IH].
  intros Hin. apply Hnin. eapply Permutation_in; [apply sort_desc_perm|exact Hin].
Qed.

Lemma sorted_gt_NoDup l : StronglySorted N.gt l -> NoDup l.
Proof.
  induction 1 as [|x t Hs IH Hall]; constructor; [|exact IH].
  intros Hin. rewrite Forall_forall in Hall. specialize (Hall x Hin). lia.
Qed.

(* a strictly descending list is determined by its elements *)
Lemma sorted_gt_unique l1 : forall l2,
  StronglySorted N.gt l1 -> StronglySorted N.gt l2 -> (forall x, In x l1 <-> In x l2) -> l1 = l2.
Proof.
  induction l1 as [|a t1 IH]; intros l2 H1 H2 Heq.
  - destruct l2 as [|b t2]; [reflexivity|]. exfalso. apply (Heq b). left; reflexivity.
  - destruct l2 as [|b t2]; [exfalso; apply (Heq a); left; reflexivity|].
    inversion H1 as [|? ? Hs1 Ha]; subst. inversion H2 as [|? ? Hs2 Hb]; subst.
    rewrite Forall_forall in Ha, Hb.
    assert (a = b).
    { assert (Hab : In a (b :: t2)) by (apply Heq; left; reflexivity).
      assert (Hba : In b (a :: t1)) by (apply Heq; left; reflexivity).
      destruct Hab as [->|Hab]; [reflexivity|]. destruct Hba as [->|Hba]; [reflexivity|].
      specialize (Ha b Hba). specialize (Hb a Hab). lia. }
    subst b. f_equal. apply IH; auto. intros x. split; intros Hx.
    + assert (Hx' : In x (a :: t2)) by (apply Heq; right; exact Hx).
      destruct Hx' as [->|Hx']; [specialize (Ha x Hx); lia|exact Hx'].
    + assert (Hx' : In x (a :: t1)) by (apply Heq; right; exact Hx).
      destruct Hx' as [->|Hx']; [specialize (Hb x Hx); lia|exact Hx'].
Qed.

Lemma sorted_ge_NoDup_gt l : StronglySorted N.ge l -> NoDup l -> StronglySorted N.gt l.
Proof.
  induction 1 as [|x t Hs IH Hall]; intros Hnd; [constructor|].
  inversion Hnd; subst. constructor; [auto|].
  rewrite Forall_forall in *. intros y Hy. specialize (Hall y Hy).
  assert (x <> y) by (intros ->; contradiction). lia.
Qed.

(* the listing is strictly descending (hence duplicate-free), and holds exactly the loaded epochs *)
Theorem listing_sorted m : wf m -> StronglySorted N.gt (epoch_numbers m).
Proof. intros H. apply sort_desc_sorted, H. Qed.

Theorem listing_NoDup m : wf m -> NoDup (epoch_numbers m).
Proof. intros H. apply sorted_gt_NoDup, listing_sorted, H. Qed.

Theorem listing_complete m k : In k (epoch_numbers m) <-> lookup m k <> None.
Proof.
  rewrite lookup_In_keys. unfold epoch_numbers. split; intros H.
  - eapply Permutation_in; [apply sort_desc_perm|exact H].
  - eapply Permutation_in; [apply Permutation_sym, sort_desc_perm|exact H].
Qed.

(* ANY result the Go code may produce — some iteration order of the map, then sort.Slice with `>` (a sorted
   permutation, no stability assumed) — is the model's listing *)
Theorem listing_any_order m l :
  wf m -> Permutation l (keys m) -> StronglySorted N.ge l -> l = epoch_numbers m /\ StronglySorted N.gt l.
Proof.
  intros Hwf Hperm Hsorted.
  assert (Hnd : NoDup l) by (eapply Permutation_NoDup; [apply Permutation_sym, Hperm|exact Hwf]).
  pose proof (sorted_ge_NoDup_gt l Hsorted Hnd) as Hgt. split; [|exact Hgt].
  apply sorted_gt_unique; [exact Hgt|apply listing_sorted, Hwf|].
  intros x. unfold epoch_numbers. split; intros H.
  - eapply Permutation_in; [apply Permutation_sym, sort_desc_perm|]. eapply Permutation_in; [exact Hperm|exact H].
  - eapply Permutation_in; [apply Permutation_sym, Hperm|]. eapply Permutation_in; [apply sort_desc_perm|exact H].
Qed.

(* every state reachable from the empty set through the writers lists its epochs strictly newest first *)
Theorem listing_reachable ws : StronglySorted N.gt (epoch_numbers (apply_all [] ws)).
Proof. apply listing_sorted, apply_all_wf, empty_wf. Qed.

(* ---------- most recent / oldest available epoch (listing and lookup under ONE read lock) ---------- *)
Definition most_recent (m : emap) : option epoch :=
  match epoch_numbers m with n :: _ => lookup m n | [] => None end.
Definition oldest (m : emap) : option epoch :=
  match rev (epoch_numbers m) with n :: _ => lookup m n | [] => None end.

Theorem most_recent_spec m : wf m -> m <> [] ->
  exists n e, most_recent m = Some e /\ lookup m n = Some e /\ forall k, In k (keys m) -> k <= n.
Proof.
  intros Hwf Hne. unfold most_recent.
  pose proof (listing_sorted m Hwf) as Hs.
  destruct (epoch_numbers m) as [|n t] eqn:E.
  - exfalso. destruct m as [|[k e] r]; [contradiction|].
    assert (In k (epoch_numbers ((k, e) :: r))) by (apply listing_complete; cbn; rewrite N.eqb_refl; discriminate).
    rewrite E in H. contradiction.
  - assert (Hin : In n (epoch_numbers m)) by (rewrite E; left; reflexivity).
    apply listing_complete in Hin. destruct (lookup m n) as [e|] eqn:El; [|contradiction].
    exists n, e. repeat split; auto. intros k Hk.
    apply lookup_In_keys, listing_complete in Hk. rewrite E in Hk.
    inversion Hs as [|? ? _ Hall]; subst. rewrite Forall_forall in Hall.
    destruct Hk as [->|Hk]; [lia|specialize (Hall k Hk); lia].
Qed.

Lemma sorted_gt_last l n t : StronglySorted N.gt l -> rev l = n :: t -> forall k, In k l -> n <= k.
Proof.
  intros Hs Hr k Hk. assert (Hl : l = rev t ++ [n]) by (rewrite <- (rev_involutive l), Hr; reflexivity).
  subst l. clear Hr. induction (rev t) as [|a r IH]; cbn in *.
  - destruct Hk as [->|[]]. lia.
  - inversion Hs as [|? ? Hs' Hall]; subst. rewrite Forall_forall in Hall.
    destruct Hk as [->|Hk]; [|apply IH; auto].
    assert (In n (r ++ [n])) by (apply in_or_app; right; left; reflexivity).
    specialize (Hall n H). lia.
Qed.

Theorem oldest_spec m : wf m -> m <> [] ->
  exists n e, oldest m = Some e /\ lookup m n = Some e /\ forall k, In k (keys m) -> n <= k.
Proof.
  intros Hwf Hne. unfold oldest.
  pose proof (listing_sorted m Hwf) as Hs.
  destruct (rev (epoch_numbers m)) as [|n t] eqn:E.
  - exfalso. destruct m as [|[k e] r]; [contradiction|].
    assert (In k (epoch_numbers ((k, e) :: r))) by (apply listing_complete; cbn; rewrite N.eqb_refl; discriminate).
    apply in_rev in H. rewrite E in H. contradiction.
  - assert (Hin : In n (epoch_numbers m)) by (apply in_rev; rewrite E; left; reflexivity).
    pose proof Hin as Hin'. apply listing_complete in Hin. destruct (lookup m n) as [e|] eqn:El; [|contradiction].
    exists n, e. repeat split; auto. intros k Hk.
    apply lookup_In_keys, listing_complete in Hk. eapply sorted_gt_last; eauto.
Qed.

(* ---------- isolated query ---------- *)
(* An execution seen from a query addressed to epoch e: writer operations of other goroutines interleaved
   with the query's own reads of the epoch set under the read lock: GetEpoch e (QGet), HasEpoch e (QHas),
   "is e listed" (QListed). *)
Inductive event := W (w : wop) | QGet | QHas | QListed.
Inductive answer := AEpoch (e : option epoch) | ABool (b : bool).

Definition listedb (m : emap) (k : N) : bool := existsb (N.eqb k) (epoch_numbers m).

Fixpoint run_query (m : emap) (e : N) (tr : list event) : list answer :=
  match tr with
  | [] => []
  | W w :: r => run_query (apply m w) e r
  | QGet :: r => AEpoch (lookup m e) :: run_query m e r
  | QHas :: r => ABool (has m e) :: run_query m e r
  | QListed :: r => ABool (listedb m e) :: run_query m e r
  end.

Definition is_query (ev : event) : bool := match ev with W _ => false | _ => true end.

Lemma listedb_lookup m k : listedb m k = has m k.
Proof.
  unfold listedb, has. destruct (lookup m k) as [e|] eqn:El.
  - apply existsb_exists. exists k. split; [|apply N.eqb_refl]. apply listing_complete. congruence.
  - destruct (existsb (N.eqb k) (epoch_numbers m)) eqn:Ex; [|reflexivity].
    apply existsb_exists in Ex. destruct Ex as [x [Hx Hkx]]. apply N.eqb_eq in Hkx. subst x.
    apply listing_complete in Hx. contradiction.
Qed.

Lemma run_query_ext tr : forall m1 m2 e,
  lookup m1 e = lookup m2 e ->
  (forall w, In (W w) tr -> target w <> e) ->
  run_query m1 e tr = run_query m2 e (filter is_query tr).
Proof.
  induction tr as [|ev r IH]; intros m1 m2 e Hl H; cbn; [reflexivity|].
  assert (Hr : forall w, In (W w) r -> target w <> e) by (intros w Hw; apply H; right; exact Hw).
  destruct ev as [w| | |]; cbn.
  - apply IH; [|exact Hr]. rewrite apply_other; [exact Hl|]. apply H. left; reflexivity.
  - rewrite Hl. f_equal. apply IH; assumption.
  - unfold has. rewrite Hl. f_equal. apply IH; assumption.
  - rewrite !listedb_lookup. unfold has. rewrite Hl. f_equal. apply IH; assumption.
Qed.

(* the idle server: the same reads with every concurrent write dropped *)
Theorem isolated_query tr m e :
  (forall w, In (W w) tr -> target w <> e) ->
  run_query m e tr = run_query m e (filter is_query tr).
Proof. intros H. apply run_query_ext; [reflexivity|exact H]. Qed.

(* in particular: while epoch e stays loaded and untouched, every read sees the very same epoch object *)
Theorem isolated_query_same_object tr : forall m e ep,
  lookup m e = Some ep ->
  (forall w, In (W w) tr -> target w <> e) ->
  Forall (fun a => a = AEpoch (Some ep) \/ a = ABool true) (run_query m e tr).
Proof.
  induction tr as [|ev r IH]; intros m e ep Hl H; cbn; [constructor|].
  assert (Hr : forall w, In (W w) r -> target w <> e) by (intros w Hw; apply H; right; exact Hw).
  destruct ev as [w| | |].
  - apply IH; [|exact Hr]. rewrite apply_other; [exact Hl|]. apply H. left; reflexivity.
  - constructor; [left; rewrite Hl; reflexivity|apply IH; assumption].
  - constructor; [right; unfold has; rewrite Hl; reflexivity|apply IH; assumption].
  - constructor; [right; rewrite listedb_lookup; unfold has; rewrite Hl; reflexivity|apply IH; assumption].
Qed.

Example isolated_query_nonvacuous :
  let e7 := {| eid := 70; epath := 1 |} in
  let m := [(7, e7); (3, {| eid := 30; epath := 2 |})] in
  run_query m 7 [QGet; W (Remove 3); QListed; W (Add 9 {| eid := 90; epath := 3 |}); QGet;
                 W (ReplaceOrAdd 3 {| eid := 31; epath := 2 |}); W (RemoveByPathAt 3 9); QHas; QGet]
  = [AEpoch (Some e7); ABool true; AEpoch (Some e7); ABool true; AEpoch (Some e7)].
Proof. vm_compute. reflexivity. Qed.
