(* C04 — executable checker run on the harness's observations (case files written by harness/*/c04_test.go).
   Two kinds of cases:
     CRead  : a file SEALED BY THE GO BUILDER is read by the Gallina reader (open_* + lookup_*, with the
              transcribed xxhash64 / EntryHash64 / BucketHash): the header must parse to what the Go builder was
              given, every inserted key must return its value, and on other keys the Gallina reader must answer
              what the Go reader answered (found value / not found);
     CBuild : the outcome class (file / error / panic) of the Go builder on an input must be the outcome class of
              the REPAIRED model builder (build_* repaired) on the same input.
   The functions run here are the ones the theorems of Properties/C04.v are about (the [_fast] builders are proved
   equal to [build_* repaired]; they only short-cut the 1000 mining rounds of a duplicate key). *)
From Coq Require Import List NArith Arith Bool Lia.
Import ListNotations.
Require Import YF.Codec YF.CI YF.C04_Core YF.C04_Model YF.C04_Formats YF.C04_Hash.
Close Scope N_scope.

Inductive fmtid := FSized | FLegacy8 | FLegacy36.

Inductive case :=
| CRead (f : fmtid) (file : list N)
        (hv : N)             (* sized: value size; legacy: FileSize in the header *)
        (nb : N) (m : meta)  (* bucket count and metadata the builder was given *)
        (present : list (list N * list N))            (* inserted pairs (legacy8: value as 8 LE bytes) *)
        (absent : list (list N * option (list N)))    (* other keys with the Go reader's answer *)
| CBuild (f : fmtid) (items : N)
        (hv : N)             (* sized: value size; legacy: targetFileSize *)
        (m : meta) (kvs : list (list N * list N))
        (go_class : N).      (* 0 = sealed file, 1 = error, 2 = panic *)

(* long keys are written by formula in case files (a 65536-element list literal overflows the parser's stack):
   byte i of the key is (i*a + b) mod 256 *)
Fixpoint mk_key_from (n : nat) (i a b : N) : list N :=
  match n with O => [] | S m => ((i * a + b) mod 256)%N :: mk_key_from m (N.succ i) a b end.
Definition mk_key (n a b : N) : list N := mk_key_from (N.to_nat n) 0%N a b.

(* ------------------------------------------------------------------ duplicate-key short cut *)
Fixpoint dupb (l : list (list N)) : bool :=
  match l with [] => false | x :: r => existsb (bytes_eqb x) r || dupb r end.

Lemma dupb_dup l : dupb l = true -> ~ NoDup l.
Proof.
  induction l as [|x r IH]; cbn [dupb]; [discriminate|]. intros H ND. inversion ND as [|? ? Hn Hr]; subst.
  apply orb_prop in H. destruct H as [H|H].
  - apply existsb_exists in H. destruct H as [y [Hy E]]. unfold bytes_eqb in E.
    destruct (list_eq_dec N.eq_dec x y); [subst; contradiction|discriminate].
  - exact (IH H Hr).
Qed.

Section Fast.
Variable hash : N -> list N -> N.
Variable bucket_of : nat -> list N -> nat.
Hypothesis bucket_of_lt : forall nb k, 0 < nb -> bucket_of nb k < nb.

Definition build_fmt_fast (fm : format) (nb : nat) (kvs : list kv) : bres :=
  if existsb long_key kvs then BErr EKeyLen
  else if dupb (map fst kvs) && (0 <? nb) then BErr ECollision
  else build_fmt hash bucket_of repaired fm nb kvs.

Lemma build_fmt_fast_eq fm nb kvs : fmt_ok fm ->
  build_fmt_fast fm nb kvs = build_fmt hash bucket_of repaired fm nb kvs.
Proof.
  intros Hf. unfold build_fmt_fast. rewrite (build_fmt_seal hash bucket_of bucket_of_lt) by exact Hf.
  destruct (existsb long_key kvs); auto.
  destruct (dupb (map fst kvs) && (0 <? nb)) eqn:E; auto.
  apply andb_prop in E. destruct E as [E1 E2]. apply Nat.ltb_lt in E2. apply dupb_dup in E1.
  rewrite (seal_fails_duplicate hash bucket_of bucket_of_lt); auto. now rewrite stored_keys.
Qed.

Definition build_sized_fast (items vs : nat) (m : meta) (kvs : list kv) : bres :=
  match cfg_err repaired items vs with
  | Some e => BErr e
  | None => build_fmt_fast (fmt_sized vs (num_buckets items) m) (num_buckets items) kvs
  end.

Theorem build_sized_fast_eq items vs m kvs :
  build_sized_fast items vs m kvs = build_sized hash bucket_of repaired items vs m kvs.
Proof.
  unfold build_sized_fast, build_sized. destruct (cfg_err repaired items vs) eqn:Ec; auto.
  apply cfg_ok_repaired in Ec. apply build_fmt_fast_eq. exact (proj2 (proj2 Ec)).
Qed.

Definition build_legacy36_fast (items : nat) (fs : N) (kvs : list kv) : bres :=
  if (items =? 0) && negb (Nat.eqb (length kvs) 0) then BPanic
  else build_fmt_fast (fmt_legacy36 fs (num_buckets items)) (num_buckets items) kvs.

Theorem build_legacy36_fast_eq items fs kvs :
  build_legacy36_fast items fs kvs = build_legacy36 hash bucket_of repaired items fs kvs.
Proof.
  unfold build_legacy36_fast, build_legacy36. destruct (_ && _); auto.
  apply build_fmt_fast_eq. unfold fmt_ok. cbn. lia.
Qed.

Definition build_legacy8_fast (items : nat) (fs : N) (kvs : list kv8) : bres :=
  if (items =? 0) && negb (Nat.eqb (length kvs) 0) then BPanic
  else build_fmt_fast (fmt_legacy8 fs (num_buckets items)) (num_buckets items) (as_bytes8 kvs).

Theorem build_legacy8_fast_eq items fs kvs : (fs < 2 ^ 64)%N ->
  build_legacy8_fast items fs kvs = build_legacy8 hash bucket_of repaired items fs kvs.
Proof.
  intros Hfs. unfold build_legacy8_fast, build_legacy8. destruct (_ && _); auto.
  apply build_fmt_fast_eq. apply (fmt_legacy8_ok fs _ Hfs).
Qed.
End Fast.

(* ------------------------------------------------------------------ the checker (real hash functions) *)
Definition bytes_opt_eqb (a b : option (list N)) : bool :=
  match a, b with
  | Some x, Some y => bytes_eqb x y
  | None, None => true
  | _, _ => false
  end.

Fixpoint meta_eqb (a b : meta) : bool :=
  match a, b with
  | [], [] => true
  | x :: a', y :: b' => bytes_eqb (fst x) (fst y) && bytes_eqb (snd x) (snd y) && meta_eqb a' b'
  | _, _ => false
  end.

(* reader answer as seen by a caller: Some (Some v) found, Some None not found, None error *)
Definition show (r : res) : option (option (list N)) :=
  match r with Found v => Some (Some v) | NotFound => Some None | ReadErr => None end.
Definition show8 (r : res8) : option (option (list N)) :=
  match r with Found8 v => Some (Some (le_enc 8 v)) | NotFound8 => Some None | ReadErr8 => None end.

Definition answer_is (got : option (option (list N))) (want : option (list N)) : bool :=
  match got with Some g => bytes_opt_eqb g want | None => false end.

Definition rd (f : fmtid) (file k : list N) : option (option (list N)) :=
  match f with
  | FSized => show (lookup_sized entry_hash bucket_of_go file k)
  | FLegacy36 => show (lookup_legacy36 entry_hash bucket_of_go file k)
  | FLegacy8 => show8 (lookup_legacy8 entry_hash bucket_of_go file k)
  end.

Definition header_ok (f : fmtid) (file : list N) (hv nb : N) (m : meta) : bool :=
  match f with
  | FSized => match open_sized file with
              | Some (vs, nb', m', _) => N.eqb (N.of_nat vs) hv && N.eqb (N.of_nat nb') nb && meta_eqb m' m
              | None => false
              end
  | _ => match open_legacy file with
         | Some (fs, nb') => N.eqb fs hv && N.eqb (N.of_nat nb') nb
         | None => false
         end
  end.

Definition class (r : bres) : N := match r with BOk _ => 0%N | BErr _ => 1%N | BPanic => 2%N end.

Definition model_build (f : fmtid) (items hv : N) (m : meta) (kvs : list (list N * list N)) : bres :=
  match f with
  | FSized => build_sized_fast entry_hash bucket_of_go (N.to_nat items) (N.to_nat hv) m kvs
  | FLegacy36 => build_legacy36_fast entry_hash bucket_of_go (N.to_nat items) hv kvs
  | FLegacy8 => build_legacy8_fast entry_hash bucket_of_go (N.to_nat items) hv (map (fun x => (fst x, le_dec (snd x))) kvs)
  end.

Definition check_one (c : case) : bool :=
  match c with
  | CRead f file hv nb m present absent =>
      header_ok f file hv nb m
      && forallb (fun x => answer_is (rd f file (fst x)) (Some (snd x))) present
      && forallb (fun x => answer_is (rd f file (fst x)) (snd x)) absent
  | CBuild f items hv m kvs go_class => N.eqb (class (model_build f items hv m kvs)) go_class
  end.

Fixpoint check_from (i : nat) (cs : list case) : list nat :=
  match cs with
  | [] => []
  | c :: r => if check_one c then check_from (S i) r else i :: check_from (S i) r
  end.

(* indexes of the cases where model and implementation differ *)
Definition check (cs : list case) : list nat := check_from 0 cs.

(* the model accepts its own output: a file sealed by the model builder passes the CRead check with the real hashes *)
Example check_selftest :
  let kvs := [([1; 2; 3]%N, [10; 11]%N); ([], [12; 13]%N); ([255; 0]%N, [14; 15]%N)] in
  let m := [([107; 105; 110; 100]%N, [120; 121]%N)] in
  match build_sized entry_hash bucket_of_go repaired 20001 2 m kvs with
  | BOk f => check [CRead FSized f 2 3 m kvs [([9]%N, None)];
                    CBuild FSized 20001 2 m kvs 0; CBuild FSized 3 253 [] kvs 1; CBuild FSized 3 2 [] (kvs ++ kvs) 1;
                    CBuild FSized 0 2 [] kvs 1; CBuild FLegacy36 0 0 [] kvs 2] = []
  | _ => False
  end.
Proof. vm_compute. reflexivity. Qed.
