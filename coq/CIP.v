From Coq Require Import List Arith Lia Bool PeanoNat NArith Sorting.Permutation.
Import ListNotations.
Require Import Eytz Eytz2 Eytz3 Codec ReadAt CI.
Close Scope N_scope.
Arguments Nat.mul : simpl never.

Section P.
Variable hash : N -> list N -> N.
Variable bucket_of : nat -> list N -> nat.
Hypothesis bucket_of_lt : forall nb k, 0 < nb -> bucket_of nb k < nb.
Variable attempts vs : nat.
Variable hdr : list N.
Variable nb : nat.

Notation h24 := (h24 hash).
Notation entries := (entries hash).
Notation bucket_body := (bucket_body hash).
Notation layout := (layout hash).
Notation body := (body hash).
Notation stride := (stride vs).

(* ---- search through a getter = search in the list ---- *)
Lemma search_get_list (arr : list entry) get f x idx :
  (forall i, i < length arr -> get i = Some (nth i arr dflt)) ->
  search_get f get (length arr) x idx =
  match search entry dflt fst f arr x idx with Some e => Found (snd e) | None => NotFound end.
Proof.
  intros Hg. revert idx; induction f as [|f IH]; intros idx; cbn [search_get search]; auto.
  destruct (idx <? length arr) eqn:E; auto. apply Nat.ltb_lt in E. rewrite Hg by auto.
  destruct (N.eqb (fst (nth idx arr dflt)) x); auto.
Qed.

(* ---- codecs on the concrete records ---- *)
Lemma bucket_hdr_length d n off : length (bucket_hdr d n off) = 16.
Proof. unfold bucket_hdr. rewrite !app_length, !le_enc_length. reflexivity. Qed.

Lemma firstn_le_app n x rest : firstn n (le_enc n x ++ rest) = le_enc n x.
Proof. rewrite firstn_app, le_enc_length, Nat.sub_diag. cbn. rewrite app_nil_r. apply firstn_all2. rewrite le_enc_length; lia. Qed.

Lemma skipn_le_app n x rest : skipn n (le_enc n x ++ rest) = rest.
Proof. rewrite skipn_app, le_enc_length, Nat.sub_diag. cbn. rewrite skipn_all2; auto. rewrite le_enc_length; lia. Qed.

Lemma skipn_add {T} (a b : nat) (l : list T) : skipn (a + b) l = skipn b (skipn a l).
Proof. revert l; induction a as [|a IH]; intros l; cbn; auto. destruct l; auto. now destruct b. Qed.

Lemma parse_bucket_hdr_ok d n off :
  (N.of_nat d < 256 ^ 4)%N -> (N.of_nat n < 256 ^ 4)%N -> (N.of_nat off < 256 ^ 6)%N ->
  parse_bucket_hdr (bucket_hdr d n off) = (d, n, 3, off).
Proof.
  intros Hd Hn Ho. unfold parse_bucket_hdr, bucket_hdr.
  rewrite firstn_le_app. rewrite skipn_le_app. rewrite firstn_le_app.
  rewrite (le_roundtrip 4) by exact Hd. rewrite (le_roundtrip 4) by exact Hn. rewrite !Nat2N.id.
  replace (nth 8 (le_enc 4 (N.of_nat d) ++ le_enc 4 (N.of_nat n) ++ [3%N] ++ [0%N] ++ le_enc 6 (N.of_nat off)) 0%N) with 3%N.
  2:{ rewrite app_nth2 by (rewrite le_enc_length; lia). rewrite le_enc_length.
      rewrite app_nth2 by (rewrite le_enc_length; lia). rewrite le_enc_length. reflexivity. }
  replace (skipn 10 (le_enc 4 (N.of_nat d) ++ le_enc 4 (N.of_nat n) ++ [3%N] ++ [0%N] ++ le_enc 6 (N.of_nat off)))
    with (le_enc 6 (N.of_nat off)).
  2:{ change 10 with (4 + (4 + 2)). rewrite skipn_add, skipn_le_app, skipn_add, skipn_le_app. reflexivity. }
  rewrite firstn_all2 by (rewrite le_enc_length; lia).
  rewrite (le_roundtrip 6) by exact Ho. rewrite Nat2N.id. reflexivity.
Qed.

(* ---- layout ---- *)
Notation mine_all := (mine_all hash bucket_of attempts nb).
Notation bucket_kvs := (bucket_kvs bucket_of nb).

Lemma mine_all_nth n : forall b0 kvs bs, mine_all b0 n kvs = Some bs ->
  length bs = n /\ forall i, i < n -> exists d,
    nth_error bs i = Some (d, bucket_kvs (b0 + i) kvs) /\ mine hash attempts 0 (bucket_kvs (b0 + i) kvs) = Some d.
Proof.
  induction n as [|n IH]; intros b0 kvs bs H; cbn [CI.mine_all] in H.
  - inversion H; subst. split; auto. intros i Hi; lia.
  - destruct (mine hash attempts 0 (bucket_kvs b0 kvs)) as [d|] eqn:Em; [|discriminate].
    destruct (mine_all (S b0) n kvs) as [r|] eqn:Er; [|discriminate]. inversion H; subst.
    destruct (IH _ _ _ Er) as [Hl Hn]. split; [cbn; lia|].
    intros [|i] Hi.
    + exists d. rewrite Nat.add_0_r. split; auto.
    + destruct (Hn i ltac:(lia)) as [d' [H1 H2]]. exists d'. replace (b0 + S i) with (S b0 + i) by lia. split; auto.
Qed.

Lemma layout_nth bs : forall base i d l, nth_error bs i = Some (d, l) ->
  exists pre post, nth_error (layout base bs) i = Some (d, base + length pre, l) /\
                   body (layout base bs) = pre ++ bucket_body d l ++ post.
Proof.
  induction bs as [|[d0 l0] bs IH]; intros base i d l H; [destruct i; discriminate|].
  destruct i as [|i]; cbn [nth_error CI.layout] in *.
  - inversion H; subst. exists [], (body (layout (base + length (bucket_body d l)) bs)).
    split; [now rewrite Nat.add_0_r|]. reflexivity.
  - destruct (IH (base + length (bucket_body d0 l0)) i d l H) as [pre [post [H1 H2]]].
    exists (bucket_body d0 l0 ++ pre), post. split.
    + rewrite H1. rewrite app_length. f_equal. f_equal. f_equal. lia.
    + unfold CI.body in *. cbn [map concat]. rewrite H2. now rewrite <- app_assoc.
Qed.

Lemma layout_length bs : forall base, length (layout base bs) = length bs.
Proof. induction bs as [|[d l] bs IH]; intros base; cbn; auto. Qed.

Lemma table_length lay : length (table lay) = 16 * length lay.
Proof.
  unfold table. induction lay as [|[[d off] l] lay IH]; cbn [map concat length]; auto.
  rewrite app_length, bucket_hdr_length, IH. lia.
Qed.

Lemma table_read lay i d off l : nth_error lay i = Some (d, off, l) ->
  read_at (table lay) (i * 16) 16 = Some (bucket_hdr d (length l) off).
Proof.
  intros H. unfold table. apply read_at_concat_uniform.
  - apply Forall_forall. intros x Hx. apply in_map_iff in Hx. destruct Hx as [[[d' o'] l'] [E _]]. subst x. apply bucket_hdr_length.
  - rewrite (map_nth_error _ _ _ H). reflexivity.
Qed.

Notation seal := (seal hash bucket_of attempts hdr nb).
Notation lookup := (lookup hash bucket_of vs hdr nb).

Lemma entries_length d l : length (entries d l) = length l.
Proof.
  unfold CI.entries. rewrite <- (Permutation_length (HSort.Permuted_sort _)). apply map_length.
Qed.

Lemma entries_in d l e : In e (entries d l) <-> In e (map (fun x => (h24 (N.of_nat d) (fst x), snd x)) l).
Proof.
  unfold CI.entries. split; intros H.
  - eapply Permutation_in; [apply Permutation_sym, HSort.Permuted_sort|exact H].
  - eapply Permutation_in; [apply HSort.Permuted_sort|exact H].
Qed.

Lemma h24_lt d k : (h24 d k < 256 ^ 3)%N.
Proof. unfold CI.h24. change (256 ^ 3)%N with 16777216%N. apply N.mod_lt. discriminate. Qed.

Theorem C04_found kvs file k v :
  0 < nb -> (N.of_nat attempts <= 256 ^ 4)%N ->
  Forall (fun x => length (snd x) = vs) kvs ->
  seal kvs = Some file ->
  (N.of_nat (length file) < 256 ^ 6)%N -> (N.of_nat (length kvs) < 256 ^ 4)%N ->
  In (k, v) kvs -> lookup file k = Found v.
Proof.
  intros Hnb Hatt Hvs Hseal Hsize Hcount Hin.
  unfold CI.seal in Hseal. destruct (mine_all 0 nb kvs) as [bs|] eqn:Emine; [|discriminate].
  injection Hseal as Hfile.
  set (b := bucket_of nb k). assert (Hb : b < nb) by (apply bucket_of_lt; auto).
  destruct (mine_all_nth nb 0 kvs bs Emine) as [Hlen Hnth].
  destruct (Hnth b Hb) as [d [Hbs Hmine]]. cbn [Nat.add] in Hbs, Hmine.
  set (lb := bucket_kvs b kvs) in *.
  destruct (mine_ok hash bucket_of bucket_of_lt hdr attempts 0 lb d Hmine) as [Hnd Hd].
  set (base := length hdr + 16 * nb) in *.
  destruct (layout_nth bs base b d lb Hbs) as [pre [post [Hlay Hbody]]].
  set (lay := layout base bs) in *.
  assert (Hlaylen : length lay = nb) by (unfold lay; rewrite layout_length; auto).
  (* the bucket holds (k,v) *)
  assert (Hinlb : In (k, v) lb).
  { unfold lb, CI.bucket_kvs. apply filter_In. split; auto. cbn. apply Nat.eqb_refl. }
  assert (Hlb_le : length lb <= length kvs).
  { unfold lb, CI.bucket_kvs. clear. induction kvs as [|x r IH]; cbn; auto. destruct (_ =? _); cbn; lia. }
  (* sizes *)
  assert (Hfilelen : length file = length hdr + 16 * nb + (length pre + length (bucket_body d lb) + length post)).
  { rewrite <- Hfile, !app_length, table_length, Hlaylen, Hbody, !app_length. lia. }
  (* 1. bucket header read *)
  unfold CI.lookup. fold b.
  assert (Hrd : read_at file (length hdr + 16 * b) 16 = Some (bucket_hdr d (length lb) (base + length pre))).
  { rewrite <- Hfile. rewrite read_at_shift. apply read_at_prefix.
    replace (16 * b) with (b * 16) by lia. apply (table_read lay b d (base + length pre) lb Hlay). }
  rewrite Hrd. cbv iota beta.
  rewrite parse_bucket_hdr_ok; try lia.
  set (inp := entries d lb). set (arr := eytz entry dflt inp).
  assert (Harrlen : length arr = length lb) by (unfold arr; rewrite eytz_length; apply entries_length).
  rewrite <- Harrlen.
  (* 2. every entry read returns the entry of the eytzinger array *)
  assert (Hentry_vs : forall e, In e inp -> length (snd e) = vs /\ (fst e < 256 ^ 3)%N).
  { intros e He. apply entries_in in He. apply in_map_iff in He. destruct He as [x [E Hx]]. subst e. cbn [fst snd].
    split; [|apply h24_lt]. rewrite Forall_forall in Hvs. apply Hvs. unfold lb, CI.bucket_kvs in Hx. apply filter_In in Hx. tauto. }
  assert (Hget : forall i, i < length arr -> load_entry vs file (base + length pre) i = Some (nth i arr dflt)).
  { intros i Hi. unfold CI.load_entry.
    assert (Hin_i : In (nth i arr dflt) inp) by (apply (eytz_incl entry dflt inp); apply nth_In; auto).
    destruct (Hentry_vs _ Hin_i) as [Hv Hh].
    assert (Hr : read_at file (base + length pre + i * stride) stride = Some (enc_entry (nth i arr dflt))).
    { rewrite <- Hfile, Hbody.
      replace (hdr ++ table lay ++ pre ++ bucket_body d lb ++ post)
        with ((hdr ++ table lay ++ pre) ++ bucket_body d lb ++ post) by (now rewrite <- !app_assoc).
      replace (base + length pre) with (length (hdr ++ table lay ++ pre))
        by (rewrite !app_length, table_length, Hlaylen; unfold base; lia).
      rewrite read_at_shift. apply read_at_prefix. unfold CI.bucket_body. fold inp. fold arr.
      apply read_at_concat_uniform.
      - apply Forall_forall. intros x Hx. apply in_map_iff in Hx. destruct Hx as [e [E He]]. subst x.
        unfold CI.enc_entry, CI.stride. rewrite app_length, le_enc_length.
        destruct (Hentry_vs e (eytz_incl _ _ _ _ He)) as [Hv' _]. lia.
      - rewrite (map_nth_error _ _ _ (nth_error_nth' arr dflt Hi)). reflexivity. }
    rewrite Hr. unfold CI.enc_entry. rewrite firstn_le_app, skipn_le_app, (le_roundtrip 3) by exact Hh.
    now destruct (nth i arr dflt). }
  rewrite (search_get_list arr _ _ _ _ Hget).
  (* 3. the eytzinger search finds the entry *)
  assert (Hine : In (h24 (N.of_nat d) k, v) inp).
  { apply entries_in. apply in_map_iff. exists (k, v). split; auto. }
  destruct (In_nth _ _ dflt Hine) as [r [Hr Hnr]].
  assert (Hsorted : forall a c, a < c < length inp -> (fst (nth a inp dflt) < fst (nth c inp dflt))%N).
  { unfold inp, CI.entries. apply sorted_strict. rewrite map_map. cbn [fst]. exact Hnd. }
  pose proof (eytz_lookup_complete entry dflt fst inp Hsorted r Hr) as Hfound.
  unfold Eytz3.lookup in Hfound. fold arr in Hfound. rewrite Hnr in Hfound. cbn [fst] in Hfound.
  rewrite Hfound. reflexivity.
Qed.

End P.

Print Assumptions C04_found.
