(* C09: lock programs over the writer-preferring RWMutex of RW.v.
   - flat programs are closed under concatenation (a goroutine runs any sequence of calls);
   - deadlock freedom for threads that run sequences of calls taken from a list of flat programs;
   - every schedule is finite (length bound), hence every maximal schedule ends with all threads done;
   - a program whose first violation is a nested RLock deadlocks against one writer: the schedule is computed
     (deadlock_schedule) and proved to deadlock for EVERY such program (the "three-step schedule": reader acquires,
     writer announces, reader re-acquires);
   - an executable, proved-sound deadlock test (deadlockedb) and a search (find_deadlock) used on observed traces. *)
From Coq Require Import List Arith Lia Bool PeanoNat.
Import ListNotations.
Require Import RW RW2.

(* ---------- modes along a program ---------- *)
Definition op_mode (m : mode) (o : op) : option mode :=
  match m, o with
  | Out, Work => Some Out | Out, RLock => Some InR | Out, WLock => Some InW
  | InR, Work => Some InR | InR, RUnlock => Some Out
  | InW, Work => Some InW | InW, WUnlock => Some Out
  | _, _ => None
  end.

Fixpoint mode_after (m : mode) (p : list op) : option mode :=
  match p with
  | [] => Some m
  | o :: r => match op_mode m o with Some m' => mode_after m' r | None => None end
  end.

Lemma flat_from_mode_after m p : flat_from m p = true <-> mode_after m p = Some Out.
Proof.
  revert m; induction p as [|o r IH]; intros m; cbn.
  - destruct m; split; intros H; try reflexivity; try discriminate.
  - destruct m, o; cbn; try apply IH; split; discriminate.
Qed.

Lemma mode_after_app m p q :
  mode_after m (p ++ q) = match mode_after m p with Some m' => mode_after m' q | None => None end.
Proof.
  revert m; induction p as [|o r IH]; intros m; cbn; [reflexivity|].
  destruct (op_mode m o); [apply IH|reflexivity].
Qed.

Lemma flat_app p q : flat p = true -> flat q = true -> flat (p ++ q) = true.
Proof.
  unfold flat. rewrite !flat_from_mode_after, mode_after_app. intros -> H. exact H.
Qed.

Lemma flat_concat ps : Forall (fun p => flat p = true) ps -> flat (concat ps) = true.
Proof.
  induction 1 as [|p ps Hp _ IH]; cbn; [reflexivity|]. apply flat_app; assumption.
Qed.

Definition flatb := flat.

(* ---------- deadlock freedom for sequences of calls ---------- *)
Definition init (threads : list (list op)) : state := {| progs := threads; readers := 0; ws := WNone |}.

(* a thread runs any finite sequence of calls, each call being one of the given programs *)
Definition calls_of (programs : list (list op)) (thread : list op) : Prop :=
  exists calls, Forall (fun c => In c programs) calls /\ thread = concat calls.

Lemma calls_of_flat programs thread :
  forallb flat programs = true -> calls_of programs thread -> flat thread = true.
Proof.
  intros Hall [calls [Hin ->]]. apply flat_concat. rewrite forallb_forall in Hall.
  rewrite Forall_forall in *. intros c Hc. apply Hall, Hin, Hc.
Qed.

Theorem deadlock_free_calls programs threads sched s :
  forallb flat programs = true ->
  Forall (calls_of programs) threads ->
  run (init threads) sched = Some s ->
  done s \/ exists t s', step s t = Some s'.
Proof.
  intros Hall Hthreads Hrun. eapply deadlock_free; [|exact Hrun].
  rewrite Forall_forall in *. intros p Hp. eapply calls_of_flat; eauto.
Qed.

(* ---------- every schedule is finite ---------- *)
Definition total_ops (l : list (list op)) : nat := list_sum (map (@length op) l).
Definition measure (s : state) : nat :=
  2 * total_ops (progs s) + match ws s with WPending _ => 0 | _ => 1 end.

Lemma total_ops_set_nth l t o rest :
  nth_error l t = Some (o :: rest) -> total_ops (set_nth l t rest) + 1 = total_ops l.
Proof.
  unfold total_ops. revert t; induction l as [|h tl IH]; intros [|t] H;
    cbn [nth_error set_nth map] in *; try discriminate.
  - inversion H; subst. unfold list_sum. cbn [length fold_right]. lia.
  - specialize (IH t H). unfold list_sum in *. cbn [fold_right]. lia.
Qed.

Lemma step_measure s t s' : step s t = Some s' -> measure s' < measure s.
Proof.
  unfold step, measure. destruct (nth_error (progs s) t) as [p|] eqn:Ep; [|discriminate].
  destruct p as [|o rest]; [discriminate|].
  pose proof (total_ops_set_nth _ _ _ _ Ep) as Ht.
  destruct o.
  - destruct (ws s); try discriminate. intros E; inversion E; subst; cbn [progs ws readers]. lia.
  - intros E; inversion E; subst; cbn [progs ws readers]. destruct (ws s); lia.
  - destruct (ws s) as [|tp|th]; try discriminate.
    + intros E; inversion E; subst; cbn [progs ws readers]. lia.
    + destruct (Nat.eqb t tp && Nat.eqb (readers s) 0); [|discriminate].
      intros E; inversion E; subst; cbn [progs ws readers]. lia.
  - intros E; inversion E; subst; cbn [progs ws readers]. destruct (ws s); lia.
  - intros E; inversion E; subst; cbn [progs ws readers]. destruct (ws s); lia.
Qed.

Lemma run_measure sched : forall s s', run s sched = Some s' -> length sched + measure s' <= measure s.
Proof.
  induction sched as [|t r IH]; intros s s' H; cbn in H.
  - inversion H; subst. cbn [length]. lia.
  - destruct (step s t) as [s1|] eqn:Es; [|discriminate].
    apply step_measure in Es. specialize (IH _ _ H). cbn [length]. lia.
Qed.

Theorem schedules_finite threads sched s :
  run (init threads) sched = Some s -> length sched <= 2 * total_ops threads + 1.
Proof.
  intros H. apply run_measure in H.
  assert (E : measure (init threads) = 2 * total_ops threads + 1) by reflexivity. lia.
Qed.

(* a maximal schedule (no thread can step any more) of flat call sequences ends with every thread finished *)
Theorem maximal_schedule_done programs threads sched s :
  forallb flat programs = true ->
  Forall (calls_of programs) threads ->
  run (init threads) sched = Some s ->
  (forall t, step s t = None) -> done s.
Proof.
  intros Hall Hthreads Hrun Hmax.
  destruct (deadlock_free_calls _ _ _ _ Hall Hthreads Hrun) as [Hd|[t [s' Hs]]]; [exact Hd|].
  rewrite Hmax in Hs. discriminate.
Qed.

(* ---------- a thread running alone ---------- *)
Definition solo_sched (p : list op) : list nat :=
  flat_map (fun o => match o with WLock => [0; 0] | _ => [0] end) p.

Definition st (m : mode) (q : list op) (others : list (list op)) : state :=
  {| progs := q :: others;
     readers := match m with InR => 1 | _ => 0 end;
     ws := match m with InW => WHeld 0 | _ => WNone end |}.

Lemma run_app a : forall s b, run s (a ++ b) = match run s a with Some s' => run s' b | None => None end.
Proof.
  induction a as [|t r IH]; intros s b; cbn; [reflexivity|].
  destruct (step s t); [apply IH|reflexivity].
Qed.

Lemma solo_run p : forall m m' q others,
  mode_after m p = Some m' -> run (st m (p ++ q) others) (solo_sched p) = Some (st m' q others).
Proof.
  induction p as [|o r IH]; intros m m' q others H; cbn in H.
  - inversion H; subst. reflexivity.
  - destruct (op_mode m o) as [m1|] eqn:Eo; [|discriminate].
    specialize (IH m1 m' q others H).
    destruct m, o; cbn in Eo; try discriminate; inversion Eo; subst; cbn -[run solo_sched];
      try (change (solo_sched (?x :: r)) with (0 :: solo_sched r));
      try (change (solo_sched (WLock :: r)) with (0 :: 0 :: solo_sched r));
      cbn [run]; unfold step; cbn; exact IH.
Qed.

(* ---------- the nested read lock ---------- *)
Definition writer : list op := [WLock; WUnlock].

(* split a program at its first violation when that violation is an RLock taken while read-holding *)
Fixpoint nested_split_from (m : mode) (p : list op) : option (list op * list op) :=
  match p with
  | [] => None
  | o :: r =>
    match m, o with
    | InR, RLock => Some ([], r)
    | _, _ =>
      match op_mode m o with
      | Some m' => match nested_split_from m' r with
                   | Some (pre, rest) => Some (o :: pre, rest)
                   | None => None end
      | None => None
      end
    end
  end.

Lemma nested_split_from_spec p : forall m pre rest,
  nested_split_from m p = Some (pre, rest) -> p = pre ++ RLock :: rest /\ mode_after m pre = Some InR.
Proof.
  induction p as [|o r IH]; intros m pre rest H; cbn in H; [discriminate|].
  destruct m, o; cbn in H;
    try discriminate;
    try (inversion H; subst; split; reflexivity);
    match type of H with
    | match nested_split_from ?m' r with _ => _ end = _ =>
        destruct (nested_split_from m' r) as [[pre' rest']|] eqn:E; [|discriminate];
        inversion H; subst; destruct (IH _ _ _ E) as [-> Hm]; split; [reflexivity|cbn; exact Hm]
    end.
Qed.

Definition deadlock_schedule (p : list op) : option (list nat) :=
  match nested_split_from Out p with
  | Some (pre, _) => Some (solo_sched pre ++ [1])
  | None => None
  end.

(* every program of the shape  pre ++ RLock :: rest  where pre ends read-holding deadlocks against one writer *)
Theorem nested_shape_deadlocks pre rest :
  mode_after Out pre = Some InR ->
  exists s, run (init [pre ++ RLock :: rest; writer]) (solo_sched pre ++ [1]) = Some s
            /\ (forall t, step s t = None) /\ ~ done s.
Proof.
  intros Hm.
  exists {| progs := [RLock :: rest; writer]; readers := 1; ws := WPending 1 |}.
  split; [|split].
  - rewrite run_app. change (init [pre ++ RLock :: rest; writer]) with (st Out (pre ++ RLock :: rest) [writer]).
    rewrite (solo_run pre Out InR (RLock :: rest) [writer] Hm). reflexivity.
  - intros [|[|t]]; try reflexivity. unfold step. cbn. destruct t; reflexivity.
  - intros Hd. specialize (Hd 0 (RLock :: rest) eq_refl). discriminate.
Qed.

Theorem nested_rlock_deadlocks p sched :
  deadlock_schedule p = Some sched ->
  exists s, run (init [p; writer]) sched = Some s /\ (forall t, step s t = None) /\ ~ done s.
Proof.
  unfold deadlock_schedule. destruct (nested_split_from Out p) as [[pre rest]|] eqn:E; [|discriminate].
  intros H; inversion H; subst; clear H.
  destruct (nested_split_from_spec _ _ _ _ E) as [-> Hm].
  apply nested_shape_deadlocks, Hm.
Qed.

Lemma flat_no_nested p : flat p = true -> deadlock_schedule p = None.
Proof.
  unfold deadlock_schedule, flat. intros Hf.
  destruct (nested_split_from Out p) as [[pre rest]|] eqn:E; [|reflexivity].
  destruct (nested_split_from_spec _ _ _ _ E) as [-> Hm].
  apply flat_from_mode_after in Hf. rewrite mode_after_app, Hm in Hf. cbn in Hf. discriminate.
Qed.

(* ---------- executable deadlock test (sound) and search ---------- *)
Definition blockedb (s : state) (t : nat) : bool := match step s t with None => true | Some _ => false end.
Definition all_blockedb (s : state) : bool := forallb (blockedb s) (seq 0 (length (progs s))).
Definition all_doneb (s : state) : bool := forallb (fun p => match p with [] => true | _ => false end) (progs s).

Definition deadlockedb (threads : list (list op)) (sched : list nat) : bool :=
  match run (init threads) sched with
  | Some s => all_blockedb s && negb (all_doneb s)
  | None => false
  end.

Lemma all_blockedb_sound s : all_blockedb s = true -> forall t, step s t = None.
Proof.
  unfold all_blockedb, blockedb. rewrite forallb_forall. intros H t.
  destruct (Nat.lt_ge_cases t (length (progs s))) as [Hlt|Hge].
  - specialize (H t ltac:(apply in_seq; lia)). destruct (step s t); [discriminate|reflexivity].
  - unfold step. apply nth_error_None in Hge. rewrite Hge. reflexivity.
Qed.

Lemma all_doneb_spec s : all_doneb s = true <-> done s.
Proof.
  unfold all_doneb, done. rewrite forallb_forall. split.
  - intros H t p Ht. apply nth_error_In in Ht. specialize (H p Ht). destruct p; [reflexivity|discriminate].
  - intros H p Hin. apply In_nth_error in Hin. destruct Hin as [t Ht]. rewrite (H t p Ht). reflexivity.
Qed.

Theorem deadlockedb_sound threads sched :
  deadlockedb threads sched = true ->
  exists s, run (init threads) sched = Some s /\ (forall t, step s t = None) /\ ~ done s.
Proof.
  unfold deadlockedb. destruct (run (init threads) sched) as [s|]; [|discriminate].
  intros H. apply andb_true_iff in H. destruct H as [Hb Hd]. exists s. split; [reflexivity|]. split.
  - apply all_blockedb_sound, Hb.
  - intros Hdone. apply all_doneb_spec in Hdone. rewrite Hdone in Hd. discriminate.
Qed.

(* candidate schedules for a program p against one writer: p runs alone for k steps, then the writer announces
   (k = 0 .. all), or p runs alone for k steps (self-deadlock). The nested-RLock schedule is one of them. *)
Definition candidates (p : list op) : list (list nat) :=
  let solo := solo_sched p in
  flat_map (fun k => [firstn k solo ++ [1]; firstn k solo]) (seq 0 (S (length solo))).

Definition find_deadlock (p : list op) : option (list nat) :=
  match deadlock_schedule p with
  | Some sched => if deadlockedb [p; writer] sched then Some sched else None
  | None => find (deadlockedb [p; writer]) (candidates p)
  end.

Theorem find_deadlock_sound p sched :
  find_deadlock p = Some sched ->
  exists s, run (init [p; writer]) sched = Some s /\ (forall t, step s t = None) /\ ~ done s.
Proof.
  unfold find_deadlock. destruct (deadlock_schedule p) as [sc|].
  - destruct (deadlockedb [p; writer] sc) eqn:E; [|discriminate]. intros H; inversion H; subst.
    apply deadlockedb_sound, E.
  - intros H. apply find_some in H. apply deadlockedb_sound, H.
Qed.

Lemma writer_flat : flat writer = true. Proof. reflexivity. Qed.

Theorem flat_find_deadlock_none p : flat p = true -> find_deadlock p = None.
Proof.
  intros Hf. destruct (find_deadlock p) as [sched|] eqn:E; [|reflexivity]. exfalso.
  destruct (find_deadlock_sound _ _ E) as [s [Hrun [Hblocked Hnd]]].
  assert (Hflat : Forall (fun q => flat q = true) [p; writer]) by (constructor; [exact Hf|constructor; [exact writer_flat|constructor]]).
  destruct (deadlock_free [p; writer] sched s Hflat Hrun) as [Hd|[t [s' Hs]]]; [exact (Hnd Hd)|].
  rewrite Hblocked in Hs. discriminate.
Qed.

(* the nested programs are found by the search, with the proved schedule *)
Theorem nested_found p sched : deadlock_schedule p = Some sched -> find_deadlock p = Some sched.
Proof.
  intros H. unfold find_deadlock. rewrite H.
  destruct (nested_rlock_deadlocks p sched H) as [s [Hrun [Hb Hnd]]].
  unfold deadlockedb. unfold init in Hrun. unfold init. rewrite Hrun.
  assert (Hab : all_blockedb s = true).
  { unfold all_blockedb. apply forallb_forall. intros t _. unfold blockedb. rewrite Hb. reflexivity. }
  assert (Hd : all_doneb s = false).
  { destruct (all_doneb s) eqn:E; [|reflexivity]. apply all_doneb_spec in E. contradiction. }
  rewrite Hab, Hd. reflexivity.
Qed.

(* the pinned tree's GetMostRecentAvailableEpoch *)
Example nested_example :
  deadlock_schedule [RLock; RLock; RUnlock; RUnlock] = Some [0; 1]
  /\ find_deadlock [RLock; RLock; RUnlock; RUnlock] = Some [0; 1]
  /\ find_deadlock [RLock; RUnlock] = None
  /\ find_deadlock [RLock; WLock; WUnlock; RUnlock] = Some [0; 1]
  /\ deadlockedb [[RLock; WLock; WUnlock; RUnlock]] [0; 0] = true.
Proof. repeat split; vm_compute; reflexivity. Qed.
