From Coq Require Import List Arith Lia Bool PeanoNat ZArith.
Import ListNotations.

(* split-car-fetcher/fetcher.go: MultiReaderAt.ReadAt over ideal segment readers.
   A segment reader follows io.ReaderAt: ReadAt(p, off) returns min(len p, size-off) bytes and
   io.EOF iff it returned fewer than len p bytes (bytes.Reader / SectionReader behaviour; for
   off >= size it returns 0, EOF even when len p = 0). Offsets are Z because `off` is an int64. *)
Open Scope Z_scope.

Definition seg_read (seg : list nat) (len : Z) (off : Z) : list nat * bool (* eof *) :=
  if off <? 0 then ([], true)
  else
    let avail := Z.of_nat (length seg) - off in
    if avail <=? 0 then ([], true)
    else let n := Z.min len avail in
         (firstn (Z.to_nat n) (skipn (Z.to_nat off) seg), n <? len).

Definition offsets (segs : list (list nat)) : list Z :=
  let fix go acc l := match l with [] => [] | s :: r => acc :: go (acc + Z.of_nat (length s)) r end in go 0 segs.

Definition MaxInt64 := 9223372036854775807.

(* loop state: off, remaining, collected bytes, reachedEnd *)
Fixpoint loop (i : nat) (nseg : nat) (segs : list (list nat)) (offs : list Z)
              (off remaining : Z) (acc : list nat) (reached : bool) : list nat * Z * bool :=
  match segs, offs with
  | seg :: segs', offset :: offs' =>
    if off <? offset then loop (S i) nseg segs' offs' off remaining acc reached
    else
      let nextOffset := match offs' with nx :: _ => nx | [] => MaxInt64 end in
      let toRead := Z.min (Z.max 0 (nextOffset - off)) remaining in
      let '(bs, eof) := seg_read seg toRead (off - offset) in
      let n := Z.of_nat (length bs) in
      let remaining' := remaining - n in
      let reached' := if eof && Nat.eqb i (nseg - 1) then true else reached in
      let off' := if n =? toRead then off + n else off in
      if remaining' =? 0 then (acc ++ bs, remaining', reached')
      else loop (S i) nseg segs' offs' off' remaining' (acc ++ bs) reached'
  | _, _ => (acc, remaining, reached)
  end.

Definition read_at_multi (segs : list (list nat)) (len off : Z) : list nat * bool (* io.EOF *) :=
  let '(bs, remaining, reached) := loop 0 (length segs) segs (offsets segs) off len [] false in
  (bs, (0 <? remaining) && reached).

(* specification *)
Definition spec (segs : list (list nat)) (len off : Z) : list nat * bool :=
  let all := concat segs in
  let bs := firstn (Z.to_nat len) (skipn (Z.to_nat off) all) in
  (bs, Z.of_nat (length bs) <? len).

(* exhaustive small-scope check (a test, not the theorem): up to 3 pieces of 0..3 bytes *)
Definition pieces : list (list nat) := [[]; [1%nat]; [1;2]%nat; [1;2;3]%nat].
Definition relabel (segs : list (list nat)) : list (list nat) :=
  let fix go c l := match l with [] => [] | s :: r => map (fun x => (c * 10 + x)%nat) s :: go (S c) r end in go 1%nat segs.
Definition all_segs : list (list (list nat)) :=
  map relabel
  ([[]] ++ map (fun a => [a]) pieces ++ flat_map (fun a => map (fun b => [a; b]) pieces) pieces
   ++ flat_map (fun a => flat_map (fun b => map (fun c => [a; b; c]) pieces) pieces) pieces).
Definition zrange (n : nat) : list Z := map Z.of_nat (seq 0 n).
Definition pair_eqb (x y : list nat * bool) : bool :=
  (if list_eq_dec Nat.eq_dec (fst x) (fst y) then true else false) && Bool.eqb (snd x) (snd y).
Definition check_all : list (list (list nat) * Z * Z) :=
  flat_map (fun segs => flat_map (fun len => flat_map (fun off =>
     if pair_eqb (read_at_multi segs len off) (spec segs len off) then [] else [(segs, len, off)])
     (zrange 12)) (zrange 12)) all_segs.
Eval vm_compute in (length all_segs, firstn 12 (filter (fun x => match fst (fst x) with [] => false | _ => true end) check_all), length (filter (fun x => match fst (fst x) with [] => false | _ => true end) check_all)).
