(* C01 — the value codec of the indexes (indexes/uints.go, indexes/offset-and-size.go), TRANSLATED from the Go source
   on every check (Generated/GoLiteC01.v, by gen/golite.go), proved equal to the codec of the C01 model:
     Uint24tob / Uint40tob / Uint48tob / Uint64tob v = Codec.le_enc 3 / 5 / 6 / 8 v   below 2^24 / 2^40 / 2^48 / 2^64,
                                                       PANIC at and above that bound
     BtoUint24 / BtoUint40 / BtoUint48 / BtoUint64 b = PANIC when b is shorter than 3 / 5 / 6 / 8 bytes, else the
                                                       little-endian value of the first 4 / 8 / 8 / 8 bytes of b
                                                       (= Codec.le_dec b when b has exactly 3 / 5 / 6 / 8 bytes;
                                                       NOT "the first 3 / 5 / 6 bytes" of a longer buffer: cloneAndPad
                                                       keeps the whole buffer and Uint32 / Uint64 read 4 / 8 bytes)
     (OffsetAndSize).Bytes      = C01_IndexAll.enc_os (6 + 3 bytes) wherever enc_os is defined; the exact result for
                                  every struct is stated (uint32(Size) truncates BEFORE the range check of Uint24tob)
     (OffsetAndSize).FromBytes  = C01_IndexAll.dec_os, error exactly when the length is not 9
     (OffsetAndSize).IsValid    = the guard of enc_os
   so a change of any of these Go functions changes a term these theorems are about. *)
From Coq Require Import List ZArith NArith String Bool Lia.
Import ListNotations.
Require Import YF.GoLite YF.GoLiteLemmas YF.Generated.GoLiteC01 YF.Codec YF.GoLiteC04_Proofs YF.GoLiteC04_Codec.
Require YF.C01_IndexAll.
Local Open Scope string_scope.
Local Open Scope Z_scope.
Local Open Scope list_scope.

(* ------------------------------------------------------------------ lists *)
Lemma firstn_repeat0 m k : firstn m (repeat 0 k) = repeat 0 (Nat.min m k).
Proof. revert k. induction m as [|m IH]; intros [|k]; cbn [firstn repeat Nat.min]; [reflexivity..|]. rewrite IH. reflexivity. Qed.

(* zero padding does not change the little-endian value of a window that the padded buffer fills *)
Lemma le_value_firstn_pad n buf k : le_value (firstn n (buf ++ repeat 0 k)) = le_value (firstn n buf).
Proof. rewrite firstn_app, firstn_repeat0. apply le_value_app_zeros. Qed.

Lemma zlen_zs bs : zlen (zs bs) = Z.of_nat (List.length bs).
Proof. unfold zlen, zs. rewrite map_length. reflexivity. Qed.

Lemma zlen_app a b : zlen (a ++ b) = zlen a + zlen b.
Proof. unfold zlen. rewrite app_length. lia. Qed.

Lemma zs_app a b : zs (a ++ b) = zs a ++ zs b.
Proof. apply map_app. Qed.

Lemma le_dec_bound bs : Forall (fun b => (b < 256)%N) bs -> (le_dec bs < 256 ^ N.of_nat (List.length bs))%N.
Proof.
  induction 1 as [|b r Hb Hr IH]; [cbn; lia|].
  cbn [le_dec List.length]. rewrite Nat2N.inj_succ, N.pow_succ_r'. lia.
Qed.

Lemma slice_z_prefix l n : 0 <= n -> slice_z l 0 n = firstn (Z.to_nat n) l.
Proof. intros H. unfold slice_z. rewrite Z.sub_0_r. reflexivity. Qed.

(* the guard of the model's encoder decides whether it is defined *)
Lemma guard_is_enc_os_defined (off size : N) :
  (N.leb off C01_IndexAll.max_u48 && N.leb size C01_IndexAll.max_u24)%bool =
  match C01_IndexAll.enc_os off size with Some _ => true | None => false end.
Proof.
  unfold C01_IndexAll.enc_os.
  destruct (N.leb off C01_IndexAll.max_u48 && N.leb size C01_IndexAll.max_u24)%bool; reflexivity.
Qed.

Definition oas_val (off size : Z) : val := VStruct [("Offset", VInt off); ("Size", VInt size)].
Definition err_len : val := VErr "errors.New".

(* Everything below holds for ANY translated program that binds these names to these function terms. *)
Section Generic.
Variable prog : program.
Hypothesis prog_Uint24tob : plookup "Uint24tob" prog = Some fn_Uint24tob.
Hypothesis prog_BtoUint24 : plookup "BtoUint24" prog = Some fn_BtoUint24.
Hypothesis prog_Uint40tob : plookup "Uint40tob" prog = Some fn_Uint40tob.
Hypothesis prog_BtoUint40 : plookup "BtoUint40" prog = Some fn_BtoUint40.
Hypothesis prog_Uint48tob : plookup "Uint48tob" prog = Some fn_Uint48tob.
Hypothesis prog_BtoUint48 : plookup "BtoUint48" prog = Some fn_BtoUint48.
Hypothesis prog_Uint64tob : plookup "Uint64tob" prog = Some fn_Uint64tob.
Hypothesis prog_BtoUint64 : plookup "BtoUint64" prog = Some fn_BtoUint64.
Hypothesis prog_cloneAndPad : plookup "cloneAndPad" prog = Some fn_cloneAndPad.
Hypothesis prog_Bytes : plookup "OffsetAndSize.Bytes" prog = Some fn_OffsetAndSize_Bytes.
Hypothesis prog_FromBytes : plookup "OffsetAndSize.FromBytes" prog = Some fn_OffsetAndSize_FromBytes.
Hypothesis prog_IsValid : plookup "OffsetAndSize.IsValid" prog = Some fn_OffsetAndSize_IsValid.

(* ------------------------------------------------------------------ UintNtob: encoders *)
(* make(8) ; PutUint64 ; buf[:k]  — the bodies, on the parameter environment (what a call does) *)
Lemma zlen_le_bytes n v : zlen (le_bytes n v) = Z.of_nat n.
Proof. unfold zlen. rewrite le_bytes_length. reflexivity. Qed.

Ltac tob_tac :=
  go_run;
  match goal with |- context [if ?c <? ?v then _ else _] => destruct (c <? v) end; [reflexivity|];
  go_run;
  match goal with |- context [blit ?z O (le_bytes ?n ?v)] =>
    rewrite (blit_full z (le_bytes n v)) by (rewrite le_bytes_length; reflexivity)
  end;
  rewrite zlen_le_bytes; go_consts; go_cbn;
  rewrite slice_z_prefix by lia; go_consts;
  rewrite firstn_le_bytes by lia; reflexivity.

Lemma Uint24tob_body ext fuel v :
  exec prog ext fuel (f_body fn_Uint24tob) [("v", VInt v)] =
  if 16777215 <? v then RPanic else RRet (VInts (le_bytes 3 v)).
Proof. unfold fn_Uint24tob. go_cbn. tob_tac. Qed.

Lemma Uint40tob_body ext fuel v :
  exec prog ext fuel (f_body fn_Uint40tob) [("v", VInt v)] =
  if 1099511627775 <? v then RPanic else RRet (VInts (le_bytes 5 v)).
Proof. unfold fn_Uint40tob. go_cbn. tob_tac. Qed.

Lemma Uint48tob_body ext fuel v :
  exec prog ext fuel (f_body fn_Uint48tob) [("v", VInt v)] =
  if 281474976710655 <? v then RPanic else RRet (VInts (le_bytes 6 v)).
Proof. unfold fn_Uint48tob. go_cbn. tob_tac. Qed.

Ltac call_body nm Hprog Hbody :=
  unfold call; rewrite Hprog;
  match goal with |- context [bind_params (f_params ?fn) [VInt ?v]] =>
    change (bind_params (f_params fn) [VInt v]) with (Some [(nm, VInt v)]) end;
  cbv beta iota; rewrite Hbody.

(* exact result for EVERY argument: the first N/8 little-endian bytes up to the bound, a panic above it *)
Theorem Uint24tob_exact ext fuel v :
  call prog ext fuel "Uint24tob" [VInt v] = if 16777215 <? v then RPanic else RRet (VInts (le_bytes 3 v)).
Proof. call_body "v" prog_Uint24tob Uint24tob_body. destruct (16777215 <? v); reflexivity. Qed.
Theorem Uint40tob_exact ext fuel v :
  call prog ext fuel "Uint40tob" [VInt v] = if 1099511627775 <? v then RPanic else RRet (VInts (le_bytes 5 v)).
Proof. call_body "v" prog_Uint40tob Uint40tob_body. destruct (1099511627775 <? v); reflexivity. Qed.
Theorem Uint48tob_exact ext fuel v :
  call prog ext fuel "Uint48tob" [VInt v] = if 281474976710655 <? v then RPanic else RRet (VInts (le_bytes 6 v)).
Proof. call_body "v" prog_Uint48tob Uint48tob_body. destruct (281474976710655 <? v); reflexivity. Qed.

(* ... against the model's encoder *)
Theorem Uint24tob_is_le_enc ext fuel (v : N) : (v < 2 ^ 24)%N ->
  call prog ext fuel "Uint24tob" [VInt (Z.of_N v)] = RRet (VInts (zs (le_enc 3 v))).
Proof.
  intros H. rewrite Uint24tob_exact. change (2 ^ 24)%N with 16777216%N in H.
  destruct (Z.ltb_spec 16777215 (Z.of_N v)); [lia|]. rewrite le_bytes_zs. reflexivity.
Qed.
Theorem Uint24tob_panics ext fuel (v : N) : (2 ^ 24 <= v)%N ->
  call prog ext fuel "Uint24tob" [VInt (Z.of_N v)] = RPanic.
Proof.
  intros H. rewrite Uint24tob_exact. change (2 ^ 24)%N with 16777216%N in H.
  destruct (Z.ltb_spec 16777215 (Z.of_N v)); [reflexivity|lia].
Qed.
Theorem Uint40tob_is_le_enc ext fuel (v : N) : (v < 2 ^ 40)%N ->
  call prog ext fuel "Uint40tob" [VInt (Z.of_N v)] = RRet (VInts (zs (le_enc 5 v))).
Proof.
  intros H. rewrite Uint40tob_exact. change (2 ^ 40)%N with 1099511627776%N in H.
  destruct (Z.ltb_spec 1099511627775 (Z.of_N v)); [lia|]. rewrite le_bytes_zs. reflexivity.
Qed.
Theorem Uint40tob_panics ext fuel (v : N) : (2 ^ 40 <= v)%N ->
  call prog ext fuel "Uint40tob" [VInt (Z.of_N v)] = RPanic.
Proof.
  intros H. rewrite Uint40tob_exact. change (2 ^ 40)%N with 1099511627776%N in H.
  destruct (Z.ltb_spec 1099511627775 (Z.of_N v)); [reflexivity|lia].
Qed.
Theorem Uint48tob_is_le_enc ext fuel (v : N) : (v < 2 ^ 48)%N ->
  call prog ext fuel "Uint48tob" [VInt (Z.of_N v)] = RRet (VInts (zs (le_enc 6 v))).
Proof.
  intros H. rewrite Uint48tob_exact. change (2 ^ 48)%N with 281474976710656%N in H.
  destruct (Z.ltb_spec 281474976710655 (Z.of_N v)); [lia|]. rewrite le_bytes_zs. reflexivity.
Qed.
Theorem Uint48tob_panics ext fuel (v : N) : (2 ^ 48 <= v)%N ->
  call prog ext fuel "Uint48tob" [VInt (Z.of_N v)] = RPanic.
Proof.
  intros H. rewrite Uint48tob_exact. change (2 ^ 48)%N with 281474976710656%N in H.
  destruct (Z.ltb_spec 281474976710655 (Z.of_N v)); [reflexivity|lia].
Qed.

(* Uint64tob has no range check: all 8 bytes, never a panic *)
Theorem Uint64tob_exact ext fuel v :
  call prog ext fuel "Uint64tob" [VInt v] = RRet (VInts (le_bytes 8 v)).
Proof.
  unfold call. rewrite prog_Uint64tob. unfold fn_Uint64tob. cbn [f_params f_body bind_params]. go_run.
  rewrite (blit_full _ (le_bytes 8 v)) by (rewrite le_bytes_length; reflexivity). reflexivity.
Qed.
Theorem Uint64tob_is_le_enc ext fuel (v : N) :
  call prog ext fuel "Uint64tob" [VInt (Z.of_N v)] = RRet (VInts (zs (le_enc 8 v))).
Proof. rewrite Uint64tob_exact, le_bytes_zs. reflexivity. Qed.

(* ------------------------------------------------------------------ cloneAndPad *)
(* a Go slice has fewer than 2^63 elements; the premise keeps len(buf)+pad from wrapping in int *)
Lemma cloneAndPad_body ext fuel buf p : 0 <= p -> zlen buf + p < 9223372036854775808 ->
  exec prog ext fuel (f_body fn_cloneAndPad) [("buf", VInts buf); ("pad", VInt p)] =
  RRet (VInts (buf ++ repeat 0 (Z.to_nat p))).
Proof.
  intros Hp Hl. pose proof (zlen_nonneg buf) as Hn.
  unfold fn_cloneAndPad. go_cbn. go_run.
  rewrite wrap_i64_small by lia.
  destruct (Z.ltb_spec (zlen buf + p) 0) as [?|_]; [lia|]. go_run.
  rewrite blit_zeros.
  assert (E : Z.to_nat (zlen buf + p) = (List.length buf + Z.to_nat p)%nat) by (unfold zlen; lia).
  rewrite E. rewrite firstn_all2 by lia.
  replace (List.length buf + Z.to_nat p - List.length buf)%nat with (Z.to_nat p) by lia.
  reflexivity.
Qed.

Theorem cloneAndPad_exact ext fuel buf p : 0 <= p -> zlen buf + p < 9223372036854775808 ->
  call prog ext fuel "cloneAndPad" [VInts buf; VInt p] = RRet (VInts (buf ++ repeat 0 (Z.to_nat p))).
Proof.
  intros Hp Hl. unfold call. rewrite prog_cloneAndPad.
  change (bind_params (f_params fn_cloneAndPad) [VInts buf; VInt p]) with (Some [("buf", VInts buf); ("pad", VInt p)]).
  cbv beta iota. rewrite cloneAndPad_body by assumption. reflexivity.
Qed.

(* ------------------------------------------------------------------ BtoUintN: decoders *)
Definition len_ok (buf : list Z) : Prop := zlen buf < 4611686018427387904.

(* `_ = buf[k-1]` ; cloneAndPad(buf, pad) ; Uint32/Uint64 of the first w bytes *)
Ltac btou_tac Hk Hl :=
  go_cbn; go_run;
  match goal with |- context [?c <? zlen ?b] =>
    let H := fresh in destruct (Z.ltb_spec c (zlen b)) as [H|H]; [|unfold zlen in H; lia] end;
  go_run;
  rewrite exec_call_S; go_cbn; rewrite prog_cloneAndPad;
  match goal with |- context [bind_params (f_params fn_cloneAndPad) [VInts ?b; VInt ?p]] =>
    change (bind_params (f_params fn_cloneAndPad) [VInts b; VInt p]) with (Some [("buf", VInts b); ("pad", VInt p)]);
    cbv beta iota; rewrite (cloneAndPad_body _ _ b p) by (unfold len_ok in Hl; lia)
  end;
  go_run;
  match goal with |- context [zlen (?b ++ ?z) <? ?w] =>
    let H := fresh in destruct (Z.ltb_spec (zlen (b ++ z)) w) as [H|H];
      [rewrite zlen_app in H; unfold zlen in H; cbn [List.length] in H; lia|] end;
  go_cbn;
  match goal with |- context [firstn ?n (?b ++ ?z)] =>
    let k := eval cbv in (List.length z) in change z with (repeat 0 k); rewrite le_value_firstn_pad end;
  reflexivity.

Lemma BtoUint24_body ext f buf : (3 <= List.length buf)%nat -> len_ok buf ->
  exec prog ext (S f) (f_body fn_BtoUint24) [("buf", VInts buf)] = RRet (VInt (le_value (firstn 4 buf))).
Proof. intros Hk Hl. unfold fn_BtoUint24. btou_tac Hk Hl. Qed.
Lemma BtoUint40_body ext f buf : (5 <= List.length buf)%nat -> len_ok buf ->
  exec prog ext (S f) (f_body fn_BtoUint40) [("buf", VInts buf)] = RRet (VInt (le_value (firstn 8 buf))).
Proof. intros Hk Hl. unfold fn_BtoUint40. btou_tac Hk Hl. Qed.
Lemma BtoUint48_body ext f buf : (6 <= List.length buf)%nat -> len_ok buf ->
  exec prog ext (S f) (f_body fn_BtoUint48) [("buf", VInts buf)] = RRet (VInt (le_value (firstn 8 buf))).
Proof. intros Hk Hl. unfold fn_BtoUint48. btou_tac Hk Hl. Qed.

Ltac call_buf Hprog :=
  unfold call; rewrite Hprog;
  match goal with |- context [bind_params (f_params ?fn) [VInts ?b]] =>
    change (bind_params (f_params fn) [VInts b]) with (Some [("buf", VInts b)]) end;
  cbv beta iota.

(* exact value on every buffer that is long enough (one call level: fuel >= 1) *)
Theorem BtoUint24_value ext fuel buf : (1 <= fuel)%nat -> (3 <= List.length buf)%nat -> len_ok buf ->
  call prog ext fuel "BtoUint24" [VInts buf] = RRet (VInt (le_value (firstn 4 buf))).
Proof. intros Hf Hk Hl. destruct fuel as [|f]; [lia|]. call_buf prog_BtoUint24. rewrite BtoUint24_body by assumption. reflexivity. Qed.
Theorem BtoUint40_value ext fuel buf : (1 <= fuel)%nat -> (5 <= List.length buf)%nat -> len_ok buf ->
  call prog ext fuel "BtoUint40" [VInts buf] = RRet (VInt (le_value (firstn 8 buf))).
Proof. intros Hf Hk Hl. destruct fuel as [|f]; [lia|]. call_buf prog_BtoUint40. rewrite BtoUint40_body by assumption. reflexivity. Qed.
Theorem BtoUint48_value ext fuel buf : (1 <= fuel)%nat -> (6 <= List.length buf)%nat -> len_ok buf ->
  call prog ext fuel "BtoUint48" [VInts buf] = RRet (VInt (le_value (firstn 8 buf))).
Proof. intros Hf Hk Hl. destruct fuel as [|f]; [lia|]. call_buf prog_BtoUint48. rewrite BtoUint48_body by assumption. reflexivity. Qed.
Theorem BtoUint64_value ext fuel buf : (8 <= List.length buf)%nat ->
  call prog ext fuel "BtoUint64" [VInts buf] = RRet (VInt (le_value (firstn 8 buf))).
Proof.
  intros Hk. unfold call. rewrite prog_BtoUint64. unfold fn_BtoUint64. cbn [f_params f_body bind_params]. go_run.
  destruct (Z.ltb_spec 7 (zlen buf)) as [H|H]; [|unfold zlen in H; lia]. go_run.
  destruct (Z.ltb_spec (zlen buf) 8) as [H'|H']; [lia|]. reflexivity.
Qed.

(* too short: the bounds hint `_ = buf[k-1]` panics, for every fuel *)
Ltac short_tac :=
  go_run;
  match goal with |- context [?c <? zlen ?b] =>
    let H := fresh in destruct (Z.ltb_spec c (zlen b)) as [H|H]; [unfold zlen in H; lia|] end;
  reflexivity.
Theorem BtoUint24_short_panics ext fuel buf : (List.length buf < 3)%nat ->
  call prog ext fuel "BtoUint24" [VInts buf] = RPanic.
Proof. intros Hk. unfold call. rewrite prog_BtoUint24. unfold fn_BtoUint24. cbn [f_params f_body bind_params]. short_tac. Qed.
Theorem BtoUint40_short_panics ext fuel buf : (List.length buf < 5)%nat ->
  call prog ext fuel "BtoUint40" [VInts buf] = RPanic.
Proof. intros Hk. unfold call. rewrite prog_BtoUint40. unfold fn_BtoUint40. cbn [f_params f_body bind_params]. short_tac. Qed.
Theorem BtoUint48_short_panics ext fuel buf : (List.length buf < 6)%nat ->
  call prog ext fuel "BtoUint48" [VInts buf] = RPanic.
Proof. intros Hk. unfold call. rewrite prog_BtoUint48. unfold fn_BtoUint48. cbn [f_params f_body bind_params]. short_tac. Qed.
Theorem BtoUint64_short_panics ext fuel buf : (List.length buf < 8)%nat ->
  call prog ext fuel "BtoUint64" [VInts buf] = RPanic.
Proof. intros Hk. unfold call. rewrite prog_BtoUint64. unfold fn_BtoUint64. cbn [f_params f_body bind_params]. short_tac. Qed.

(* ... against the model's decoder: on a buffer of exactly N/8 bytes the result is Codec.le_dec of the buffer *)
Lemma len_ok_small (bs : list N) : (List.length bs <= 8)%nat -> len_ok (zs bs).
Proof. intros H. unfold len_ok. rewrite zlen_zs. lia. Qed.

Theorem BtoUint24_is_le_dec ext fuel (bs : list N) : (1 <= fuel)%nat -> List.length bs = 3%nat ->
  call prog ext fuel "BtoUint24" [VInts (zs bs)] = RRet (VInt (Z.of_N (le_dec bs))).
Proof.
  intros Hf Hk. rewrite BtoUint24_value; [|exact Hf|unfold zs; rewrite map_length; lia|apply len_ok_small; lia].
  rewrite firstn_all2 by (unfold zs; rewrite map_length; lia). rewrite le_value_zs. reflexivity.
Qed.
Theorem BtoUint40_is_le_dec ext fuel (bs : list N) : (1 <= fuel)%nat -> List.length bs = 5%nat ->
  call prog ext fuel "BtoUint40" [VInts (zs bs)] = RRet (VInt (Z.of_N (le_dec bs))).
Proof.
  intros Hf Hk. rewrite BtoUint40_value; [|exact Hf|unfold zs; rewrite map_length; lia|apply len_ok_small; lia].
  rewrite firstn_all2 by (unfold zs; rewrite map_length; lia). rewrite le_value_zs. reflexivity.
Qed.
Theorem BtoUint48_is_le_dec ext fuel (bs : list N) : (1 <= fuel)%nat -> List.length bs = 6%nat ->
  call prog ext fuel "BtoUint48" [VInts (zs bs)] = RRet (VInt (Z.of_N (le_dec bs))).
Proof.
  intros Hf Hk. rewrite BtoUint48_value; [|exact Hf|unfold zs; rewrite map_length; lia|apply len_ok_small; lia].
  rewrite firstn_all2 by (unfold zs; rewrite map_length; lia). rewrite le_value_zs. reflexivity.
Qed.
(* BtoUint64 reads exactly the first 8 bytes of any longer buffer *)
Theorem BtoUint64_is_le_dec ext fuel (bs : list N) : (8 <= List.length bs)%nat ->
  call prog ext fuel "BtoUint64" [VInts (zs bs)] = RRet (VInt (Z.of_N (le_dec (firstn 8 bs)))).
Proof.
  intros Hk. rewrite BtoUint64_value by (unfold zs; rewrite map_length; lia).
  unfold zs. rewrite firstn_map. fold (zs (firstn 8 bs)). rewrite le_value_zs. reflexivity.
Qed.

(* decoders invert encoders *)
Theorem BtoUint48_Uint48tob ext f1 f2 (v : N) : (1 <= f2)%nat -> (v < 2 ^ 48)%N ->
  exists bytes, call prog ext f1 "Uint48tob" [VInt (Z.of_N v)] = RRet (VInts bytes) /\
                call prog ext f2 "BtoUint48" [VInts bytes] = RRet (VInt (Z.of_N v)).
Proof.
  intros Hf Hv. exists (zs (le_enc 6 v)). split; [apply Uint48tob_is_le_enc; exact Hv|].
  rewrite BtoUint48_is_le_dec by (try exact Hf; apply le_enc_length).
  rewrite le_roundtrip; [reflexivity|]. exact Hv.
Qed.
Theorem BtoUint24_Uint24tob ext f1 f2 (v : N) : (1 <= f2)%nat -> (v < 2 ^ 24)%N ->
  exists bytes, call prog ext f1 "Uint24tob" [VInt (Z.of_N v)] = RRet (VInts bytes) /\
                call prog ext f2 "BtoUint24" [VInts bytes] = RRet (VInt (Z.of_N v)).
Proof.
  intros Hf Hv. exists (zs (le_enc 3 v)). split; [apply Uint24tob_is_le_enc; exact Hv|].
  rewrite BtoUint24_is_le_dec by (try exact Hf; apply le_enc_length).
  rewrite le_roundtrip; [reflexivity|]. exact Hv.
Qed.

(* ------------------------------------------------------------------ (OffsetAndSize).Bytes *)
(* exact result on EVERY struct: Uint48tob(Offset) ++ Uint24tob(uint32(Size)).  The conversion truncates Size to
   its low 32 bits BEFORE Uint24tob checks the range: a Size >= 2^24 panics unless its low 32 bits are below 2^24, in
   which case the truncated value is encoded without any error (e.g. Size = 2^32 + 5 is written as 5). *)
Theorem Bytes_exact ext fuel (off size : N) : (1 <= fuel)%nat ->
  call prog ext fuel "OffsetAndSize.Bytes" [oas_val (Z.of_N off) (Z.of_N size)] =
  if (N.leb off C01_IndexAll.max_u48 && N.leb (size mod 2 ^ 32) C01_IndexAll.max_u24)%bool
  then RRet (VInts (zs (le_enc 6 off ++ le_enc 3 (size mod 2 ^ 32)))) else RPanic.
Proof.
  intros Hf. destruct fuel as [|f]; [lia|].
  unfold call. rewrite prog_Bytes. unfold fn_OffsetAndSize_Bytes, oas_val. cbn [f_params f_body bind_params].
  go_run. rewrite exec_call_S. go_cbn. rewrite prog_Uint48tob.
  change (bind_params (f_params fn_Uint48tob) [VInt (Z.of_N off)]) with (Some [("v", VInt (Z.of_N off))]).
  cbv beta iota. rewrite Uint48tob_body.
  change C01_IndexAll.max_u48 with 281474976710655%N. change C01_IndexAll.max_u24 with 16777215%N.
  destruct (Z.ltb_spec 281474976710655 (Z.of_N off)) as [Ho|Ho].
  { destruct (N.leb_spec off 281474976710655); [lia|reflexivity]. }
  destruct (N.leb_spec off 281474976710655) as [_|?]; [|lia]. cbn [andb].
  go_run. rewrite exec_call_S. go_cbn. rewrite prog_Uint24tob.
  assert (Ew : wrap U32 (Z.of_N size) = Z.of_N (size mod 2 ^ 32)).
  { unfold wrap. cbn [signed width]. rewrite N2Z.inj_mod. reflexivity. }
  rewrite Ew.
  change (bind_params (f_params fn_Uint24tob) [VInt (Z.of_N (size mod 2 ^ 32))]) with (Some [("v", VInt (Z.of_N (size mod 2 ^ 32)))]).
  cbv beta iota. rewrite Uint24tob_body.
  destruct (Z.ltb_spec 16777215 (Z.of_N (size mod 2 ^ 32))) as [Hs|Hs].
  { destruct (N.leb_spec (size mod 2 ^ 32) 16777215); [lia|reflexivity]. }
  destruct (N.leb_spec (size mod 2 ^ 32) 16777215) as [_|?]; [|lia].
  go_run. rewrite !le_bytes_zs, zs_app. reflexivity.
Qed.

(* wherever the model's encoder is defined, Bytes IS the model's encoding *)
Theorem Bytes_is_enc_os ext fuel (off size : N) v : (1 <= fuel)%nat -> C01_IndexAll.enc_os off size = Some v ->
  call prog ext fuel "OffsetAndSize.Bytes" [oas_val (Z.of_N off) (Z.of_N size)] = RRet (VInts (zs v)).
Proof.
  intros Hf He. rewrite Bytes_exact by exact Hf. unfold C01_IndexAll.enc_os in He.
  destruct (N.leb off C01_IndexAll.max_u48) eqn:E1; [|discriminate].
  destruct (N.leb size C01_IndexAll.max_u24) eqn:E2; [|discriminate]. cbn [andb] in *.
  assert (Hm : (size mod 2 ^ 32 = size)%N).
  { apply N.mod_small. apply N.leb_le in E2. unfold C01_IndexAll.max_u24 in E2. change (2 ^ 24 - 1)%N with 16777215%N in E2.
    change (2 ^ 32)%N with 4294967296%N. lia. }
  rewrite Hm, E2. injection He as <-. reflexivity.
Qed.

(* where it is not: a panic as long as Size fits 32 bits; beyond, see Bytes_exact *)
Theorem Bytes_panics_outside_enc_os ext fuel (off size : N) : (1 <= fuel)%nat -> (size < 2 ^ 32)%N ->
  C01_IndexAll.enc_os off size = None ->
  call prog ext fuel "OffsetAndSize.Bytes" [oas_val (Z.of_N off) (Z.of_N size)] = RPanic.
Proof.
  intros Hf Hs He. rewrite Bytes_exact by exact Hf. unfold C01_IndexAll.enc_os in He.
  rewrite (N.mod_small size) by exact Hs.
  destruct (N.leb off C01_IndexAll.max_u48 && N.leb size C01_IndexAll.max_u24)%bool; [discriminate|reflexivity].
Qed.

(* ------------------------------------------------------------------ (OffsetAndSize).FromBytes *)
(* an error (receiver unchanged) unless len(buf) = 9; else Offset, Size := the model's decoding.  Two call levels
   (FromBytes -> BtoUintN -> cloneAndPad): fuel >= 2.  Buffer elements are bytes. *)
Theorem FromBytes_is_dec_os ext fuel o0 s0 (bs : list N) : (2 <= fuel)%nat -> Forall (fun b => (b < 256)%N) bs ->
  call prog ext fuel "OffsetAndSize.FromBytes" [VStruct [("Offset", o0); ("Size", s0)]; VInts (zs bs)] =
  RRet (match C01_IndexAll.dec_os bs with
        | Some (off, len) => VTuple [VNil; oas_val (Z.of_N off) (Z.of_N len)]
        | None => VTuple [err_len; VStruct [("Offset", o0); ("Size", s0)]]
        end).
Proof.
  intros Hf Hb. destruct fuel as [|[|f]]; [lia|lia|].
  unfold call. rewrite prog_FromBytes. unfold fn_OffsetAndSize_FromBytes. cbn [f_params f_body bind_params].
  go_run. rewrite zlen_zs. unfold C01_IndexAll.dec_os.
  destruct (Nat.eqb_spec (List.length bs) 9) as [Hl|Hl].
  2:{ destruct (Z.eqb_spec (Z.of_nat (List.length bs)) 9) as [?|_]; [lia|]. cbn [negb]. go_run. reflexivity. }
  rewrite Hl. go_consts. cbn [negb]. go_run.
  destruct bs as [|b0 [|b1 [|b2 [|b3 [|b4 [|b5 [|b6 [|b7 [|b8 [|? ?]]]]]]]]]]; try discriminate Hl. clear Hl.
  unfold zs. cbn [map]. go_run.
  rewrite exec_call_S. go_cbn. rewrite prog_BtoUint48.
  go_consts. cbn [andb]. unfold slice_z. go_consts. cbn [firstn skipn]. go_cbn.
  match goal with |- context [bind_params (f_params fn_BtoUint48) [VInts ?b]] =>
    change (bind_params (f_params fn_BtoUint48) [VInts b]) with (Some [("buf", VInts b)]);
    cbv beta iota; rewrite (BtoUint48_body ext f b) by (unfold len_ok, zlen; cbn [List.length]; lia) end.
  go_run. rewrite exec_call_S. go_cbn. rewrite prog_BtoUint24.
  go_consts. cbn [andb]. unfold slice_z. go_consts. cbn [firstn skipn]. go_cbn.
  match goal with |- context [bind_params (f_params fn_BtoUint24) [VInts ?b]] =>
    change (bind_params (f_params fn_BtoUint24) [VInts b]) with (Some [("buf", VInts b)]);
    cbv beta iota; rewrite (BtoUint24_body ext f b) by (unfold len_ok, zlen; cbn [List.length]; lia) end.
  go_run. cbn [firstn skipn].
  change [Z.of_N b0; Z.of_N b1; Z.of_N b2; Z.of_N b3; Z.of_N b4; Z.of_N b5] with (zs [b0; b1; b2; b3; b4; b5]).
  change [Z.of_N b6; Z.of_N b7; Z.of_N b8] with (zs [b6; b7; b8]).
  rewrite !le_value_zs.
  assert (Hb3 : Forall (fun b => (b < 256)%N) [b6; b7; b8]).
  { repeat match goal with H : Forall _ (_ :: _) |- _ => inversion H; clear H; subst end. repeat constructor; assumption. }
  pose proof (le_dec_bound _ Hb3) as Hd. cbn [List.length] in Hd. change (256 ^ N.of_nat 3)%N with 16777216%N in Hd.
  rewrite wrap_u64_small by lia. reflexivity.
Qed.

(* round trip through the TRANSLATED functions, for every valid (offset, size) and every receiver *)
Theorem FromBytes_Bytes_roundtrip ext f1 f2 o0 s0 (off size : N) : (1 <= f1)%nat -> (2 <= f2)%nat ->
  (off <= C01_IndexAll.max_u48)%N -> (size <= C01_IndexAll.max_u24)%N ->
  exists bytes, call prog ext f1 "OffsetAndSize.Bytes" [oas_val (Z.of_N off) (Z.of_N size)] = RRet (VInts bytes) /\
    call prog ext f2 "OffsetAndSize.FromBytes" [VStruct [("Offset", o0); ("Size", s0)]; VInts bytes] =
    RRet (VTuple [VNil; oas_val (Z.of_N off) (Z.of_N size)]).
Proof.
  intros H1 H2 Ho Hs.
  assert (He : C01_IndexAll.enc_os off size = Some (le_enc 6 off ++ le_enc 3 size)).
  { unfold C01_IndexAll.enc_os. apply N.leb_le in Ho, Hs. rewrite Ho, Hs. reflexivity. }
  exists (zs (le_enc 6 off ++ le_enc 3 size)). split; [apply Bytes_is_enc_os; assumption|].
  rewrite FromBytes_is_dec_os; [|exact H2|].
  - rewrite (C01_IndexAll.dec_enc_os _ _ _ He). reflexivity.
  - apply Forall_app. split; apply le_enc_bytes.
Qed.

(* ------------------------------------------------------------------ (OffsetAndSize).IsValid *)
(* the range predicate = the guard of the model's encoder *)
Theorem IsValid_is_guard ext fuel (off size : N) :
  call prog ext fuel "OffsetAndSize.IsValid" [oas_val (Z.of_N off) (Z.of_N size)] =
  RRet (VBool (N.leb off C01_IndexAll.max_u48 && N.leb size C01_IndexAll.max_u24)).
Proof.
  unfold call. rewrite prog_IsValid. unfold fn_OffsetAndSize_IsValid, oas_val. cbn [f_params f_body bind_params].
  go_run.
  change 281474976710655 with (Z.of_N C01_IndexAll.max_u48). change 16777215 with (Z.of_N C01_IndexAll.max_u24).
  rewrite of_N_leb. destruct (N.leb off C01_IndexAll.max_u48); go_run; [|reflexivity].
  rewrite of_N_leb. reflexivity.
Qed.

Corollary IsValid_iff_enc_os ext fuel (off size : N) :
  call prog ext fuel "OffsetAndSize.IsValid" [oas_val (Z.of_N off) (Z.of_N size)] =
  RRet (VBool (match C01_IndexAll.enc_os off size with Some _ => true | None => false end)).
Proof.
  rewrite IsValid_is_guard. unfold C01_IndexAll.enc_os.
  destruct (N.leb off C01_IndexAll.max_u48 && N.leb size C01_IndexAll.max_u24)%bool; reflexivity.
Qed.
End Generic.
