(* C14: model of tooling/data-frames.go (LoadDataFromDataFrames / getAllFramesFromDataFrame) over a
   store `cid -> option frame`, and its general theory (any link structure).

   Follows the code WITH the repair fixes/C14-cyclic-next-links.diff: every CID reached through `next`
   links is recorded in a set; meeting one again is an error (on the pinned tree a cyclic link is an
   unbounded recursion that ends the process with a stack overflow - see [collect_pinned] and
   [pinned_cycle_never_returns] at the end).  The recursion depth of Go is modelled by fuel;
   [collect_fuel_enough] shows that fuel `S (length store)` is never exhausted by the repaired code.

   sort.Slice is not stable: the model is parametrised by ANY function [srt] returning a sorted
   permutation (w.r.t. the comparator of the Go code); [isort] is the executable instance.

   Builds on the prototype DF.v (frames linked into an arbitrary tree, `collect`, `reassemble`), whose
   proofs are redone here for the real frame type (optional fields, store, errors). *)
From Coq Require Import List Arith Lia Bool PeanoNat NArith ZArith Sorting.Sorted Sorting.Permutation.
Import ListNotations.
Require Import C14_Hash.

Definition cid := N.

(* ipldbindcode.DataFrame as seen through GetHash/GetIndex/GetTotal/Bytes/GetNext.
   hash: the Hash field converted to uint64; index,total: Go int; next: the list of links (absent or empty = []). *)
Record frame := mkF {
  f_hash : option N; f_index : option Z; f_total : option Z; f_data : list N; f_next : list cid }.

Inductive err := EMissing | EDupLink | ECount | EHash.
Inductive res (A : Type) := Ok (a : A) | Err (e : err) | OutOfFuel.
Arguments Ok {A} a. Arguments Err {A} e. Arguments OutOfFuel {A}.

(* the comparator handed to sort.Slice:  if !iOk || !jOk { return iOk }; return iIndex < jIndex *)
Definition fless (a b : frame) : bool :=
  match f_index a, f_index b with
  | Some i, Some j => Z.ltb i j
  | Some _, None => true
  | None, _ => false
  end.
(* what sort.Slice guarantees: no later element is `less` than an earlier one *)
Definition fsorted (l : list frame) : Prop := StronglySorted (fun x y => fless y x = false) l.

Fixpoint memb (c : cid) (l : list cid) : bool :=
  match l with [] => false | x :: r => if N.eqb c x then true else memb c r end.
Lemma memb_In c l : memb c l = true <-> In c l.
Proof.
  induction l as [|x r IH]; cbn; [split; [discriminate|tauto]|].
  destruct (N.eqb_spec c x) as [->|Hne]; [tauto|]. rewrite IH. split; [tauto|]. intros [H|H]; [congruence|exact H].
Qed.
Lemma memb_false c l : memb c l = false <-> ~ In c l.
Proof. rewrite <- memb_In. destruct (memb c l); split; congruence. Qed.

Definition payload (fs : list frame) : list N := flat_map f_data fs.

Lemma NoDup_app_remove_l {A} (l1 l2 : list A) : NoDup (l1 ++ l2) -> NoDup l2.
Proof. induction l1 as [|a l1 IH]; cbn; auto. intros H; inversion H; auto. Qed.
Lemma NoDup_app_remove_r {A} (l1 l2 : list A) : NoDup (l1 ++ l2) -> NoDup l1.
Proof.
  induction l1 as [|a l1 IH]; cbn; [constructor|]. intros H; inversion H; subst. constructor; auto.
  intros Hin. apply H2. apply in_or_app. now left.
Qed.
Lemma NoDup_app_disj {A} (l1 l2 : list A) x : NoDup (l1 ++ l2) -> In x l1 -> ~ In x l2.
Proof.
  induction l1 as [|a l1 IH]; cbn; [tauto|]. intros H; inversion H; subst. intros [<-|Hin] Hx.
  - apply H2. apply in_or_app. now right.
  - exact (IH H3 Hin Hx).
Qed.
Lemma NoDup_app_intro {A} (l1 l2 : list A) :
  NoDup l1 /\ NoDup l2 /\ (forall x, In x l1 -> ~ In x l2) -> NoDup (l1 ++ l2).
Proof.
  intros [H1 [H2 H]]. induction l1 as [|a l1 IH]; cbn; [exact H2|].
  inversion H1; subst. constructor.
  - intros Hin. apply in_app_iff in Hin. destruct Hin as [Hin|Hin]; [tauto|]. apply (H a); [now left|exact Hin].
  - apply IH; auto. intros x Hx. apply H. now right.
Qed.

(* ------------------------------------------------------------------------------------------ *)
(* Link trees: what the links resolve to when nothing is missing.                               *)
Inductive ltree := LNode (f : frame) (kids : list (cid * ltree)).
Definition root (t : ltree) : frame := match t with LNode f _ => f end.

Fixpoint tsize (t : ltree) : nat :=
  match t with LNode _ ks => S (fold_right (fun ck a => tsize (snd ck) + a) 0 ks) end.
Fixpoint tdepth (t : ltree) : nat :=
  match t with LNode _ ks => S (fold_right (fun ck a => Nat.max (tdepth (snd ck)) a) 0 ks) end.
(* preorder list of (cid, frame) of all non-root nodes *)
Fixpoint tpairs (t : ltree) : list (cid * frame) :=
  match t with LNode _ ks => flat_map (fun ck => (fst ck, root (snd ck)) :: tpairs (snd ck)) ks end.
Definition tcids (t : ltree) : list cid := map fst (tpairs t).
Definition tflat (t : ltree) : list frame := root t :: map snd (tpairs t).
Lemma fold_size_in (ks : list (cid * ltree)) c s :
  In (c, s) ks -> tsize s <= fold_right (fun ck a => tsize (snd ck) + a) 0 ks.
Proof.
  induction ks as [|x r IH]; cbn; [tauto|]. intros [->|H]; cbn; [lia|]. specialize (IH H). lia.
Qed.
Lemma fold_depth_in (ks : list (cid * ltree)) c s :
  In (c, s) ks -> tdepth s <= fold_right (fun ck a => Nat.max (tdepth (snd ck)) a) 0 ks.
Proof.
  induction ks as [|x r IH]; cbn; [tauto|]. intros [->|H]; cbn; [lia|]. specialize (IH H). lia.
Qed.


Section Model.
  Variable srt : list frame -> list frame.
  Variable st : cid -> option frame.

  (* the `for _, cid := range next` loop; [seen] = CIDs already reached (the repair), [acc] = frames *)
  Fixpoint go (rec : list cid -> frame -> res (list cid * list frame))
           (cs : list cid) (seen : list cid) (acc : list frame) : res (list cid * list frame) :=
    match cs with
    | [] => Ok (seen, acc)
    | c :: cs' =>
        if memb c seen then Err EDupLink else
        match st c with
        | None => Err EMissing
        | Some f' =>
            match rec (c :: seen) f' with
            | Ok (seen', fs) => go rec cs' seen' (acc ++ fs)
            | Err e => Err e
            | OutOfFuel => OutOfFuel
            end
        end
    end.

  (* getAllFramesFromDataFrame: no links => [first] (not sorted); otherwise first ++ everything the
     links lead to, then sort.Slice by index *)
  Fixpoint collect (fuel : nat) (seen : list cid) (f : frame) : res (list cid * list frame) :=
    match fuel with
    | O => OutOfFuel
    | S k =>
        match f_next f with
        | [] => Ok (seen, [f])
        | cs => match go (collect k) cs seen [f] with
                | Ok (s, fs) => Ok (s, srt fs)
                | Err e => Err e
                | OutOfFuel => OutOfFuel
                end
        end
    end.

  (* LoadDataFromDataFrames *)
  Definition finish (f0 : frame) (fs : list frame) : res (list N) :=
    let d := payload fs in
    match f_hash f0 with
    | None => Ok d
    | Some h => if verify_hash d h then Ok d else Err EHash
    end.
  Definition load (fuel : nat) (f0 : frame) : res (list N) :=
    match collect fuel [] f0 with
    | Ok (_, fs) =>
        match f_total f0 with
        | Some n => if Z.eqb (Z.of_nat (length fs)) n then finish f0 fs else Err ECount
        | None => finish f0 fs
        end
    | Err e => Err e
    | OutOfFuel => OutOfFuel
    end.

  Fixpoint tcollect (t : ltree) : list frame :=
    match t with
    | LNode f [] => [f]
    | LNode f ks => srt (f :: flat_map (fun ck => tcollect (snd ck)) ks)
    end.

  (* the store resolves every link of the tree to the child's frame *)
  Inductive realises : ltree -> Prop :=
  | R_node f ks : f_next f = map fst ks ->
      (forall c s, In (c, s) ks -> st c = Some (root s) /\ realises s) -> realises (LNode f ks).

  Hypothesis srt_perm : forall l, Permutation (srt l) l.
  Hypothesis srt_sorted : forall l, fsorted (srt l).

  (* ---------- forward: a realised tree with pairwise distinct, fresh CIDs is collected ---------- *)
  Definition kcids (ks : list (cid * ltree)) : list cid :=
    flat_map (fun ck => fst ck :: tcids (snd ck)) ks.
  Lemma tcids_node f ks : tcids (LNode f ks) = kcids ks.
  Proof.
    unfold tcids, kcids. cbn [tpairs]. induction ks as [|[c s] r IH]; cbn; [reflexivity|].
    rewrite map_app. f_equal. f_equal. exact IH.
  Qed.

  Lemma go_tree (rec : list cid -> frame -> res (list cid * list frame)) (ks : list (cid * ltree)) :
    (forall c s, In (c, s) ks -> st c = Some (root s) /\
       forall seen, NoDup (tcids s) -> (forall x, In x (tcids s) -> ~ In x seen) ->
         exists seen', rec seen (root s) = Ok (seen', tcollect s) /\
                       (forall x, In x seen' <-> In x (tcids s) \/ In x seen)) ->
    forall seen acc, NoDup (kcids ks) -> (forall x, In x (kcids ks) -> ~ In x seen) ->
    exists seen', go rec (map fst ks) seen acc = Ok (seen', acc ++ flat_map (fun ck => tcollect (snd ck)) ks) /\
                  (forall x, In x seen' <-> In x (kcids ks) \/ In x seen).
  Proof.
    induction ks as [|[c s] r IH]; intros Hk seen acc Hnd Hfresh.
    - cbn. exists seen. rewrite app_nil_r. split; [reflexivity|]. cbn. tauto.
    - cbn [map fst go]. cbn [kcids flat_map fst snd] in Hnd, Hfresh.
      destruct (Hk c s (or_introl eq_refl)) as [Hst Hrec].
      assert (Hc : memb c seen = false).
      { apply memb_false. apply Hfresh. left; reflexivity. }
      rewrite Hc, Hst.
      inversion Hnd as [|? ? Hcn Hnd']; subst.
      apply NoDup_app_remove_r in Hnd' as Hnds.
      destruct (Hrec (c :: seen)) as [s1 [E1 I1]].
      { exact Hnds. }
      { intros x Hx [<-|Hs].
        - apply Hcn. apply in_or_app. left; exact Hx.
        - apply (Hfresh x); [right; apply in_or_app; left; exact Hx|exact Hs]. }
      rewrite E1.
      destruct (IH (fun c' s' H => Hk c' s' (or_intror H)) s1 (acc ++ tcollect s)) as [s2 [E2 I2]].
      { apply NoDup_app_remove_l in Hnd'. exact Hnd'. }
      { intros x Hx Hs1. apply I1 in Hs1. destruct Hs1 as [Hs1|[<-|Hs1]].
        - (* x in tcids s and in kcids r: contradicts NoDup *)
          revert Hnd' Hs1 Hx. clear. intros Hnd. induction (tcids s) as [|y l IHl]; cbn; [tauto|].
          cbn in Hnd. inversion Hnd; subst. intros [<-|H] Hx; [apply H1, in_or_app; right; exact Hx|auto].
        - apply Hcn. apply in_or_app. right; exact Hx.
        - apply (Hfresh x); [right; apply in_or_app; right; exact Hx|exact Hs1]. }
      exists s2. split.
      + rewrite E2. cbn [flat_map snd]. rewrite app_assoc. reflexivity.
      + intros x. rewrite I2, I1. unfold kcids. cbn [flat_map fst snd]. rewrite in_app_iff.
        cbn [In]. tauto.
  Qed.

  Lemma collect_tree : forall n t, tsize t <= n -> realises t ->
    forall fuel seen, tdepth t <= fuel -> NoDup (tcids t) -> (forall x, In x (tcids t) -> ~ In x seen) ->
    exists seen', collect fuel seen (root t) = Ok (seen', tcollect t) /\
                  (forall x, In x seen' <-> In x (tcids t) \/ In x seen).
  Proof.
    induction n as [|n IH]; intros [f ks] Hs Hr fuel seen Hd Hnd Hfresh; cbn in Hs; [lia|].
    inversion Hr as [f' ks' Hnext Hkids]; subst f' ks'.
    destruct fuel as [|k]; [cbn in Hd; lia|].
    cbn [root collect]. destruct ks as [|[c s] r] eqn:Eks.
    - cbn in Hnext. rewrite Hnext. exists seen. split; [reflexivity|]. cbn. tauto.
    - rewrite <- Eks in *.
      assert (Hne : exists c0 cs0, f_next f = c0 :: cs0) by (rewrite Hnext, Eks; cbn; eauto).
      destruct Hne as [c0 [cs0 Ec]]. rewrite Ec, <- Ec, Hnext.
      rewrite tcids_node in Hnd, Hfresh.
      destruct (go_tree (collect k) ks) with (seen := seen) (acc := [f]) as [s1 [E1 I1]]; auto.
      { intros c' s' Hin. destruct (Hkids c' s' Hin) as [Hst Hr'].
        split; [exact Hst|]. intros seen0 Hnd0 Hf0. apply IH; auto.
        - pose proof (fold_size_in ks c' s' Hin). lia.
        - pose proof (fold_depth_in ks c' s' Hin). cbn in Hd. lia. }
      rewrite E1. exists s1. split.
      + f_equal. f_equal. rewrite Eks. reflexivity.
      + intros x. rewrite I1, tcids_node. tauto.
  Qed.

  (* tcollect is a permutation of all frames of the tree; sorted unless the root has no links *)
  Lemma flat_map_perm {A B} (f g : A -> list B) l :
    (forall x, In x l -> Permutation (f x) (g x)) -> Permutation (flat_map f l) (flat_map g l).
  Proof.
    induction l as [|x l IH]; intros H; cbn; auto. apply Permutation_app.
    - apply H. now left.
    - apply IH. intros y Hy. apply H. now right.
  Qed.
  Lemma tflat_node f ks : tflat (LNode f ks) = f :: flat_map (fun ck => tflat (snd ck)) ks.
  Proof.
    unfold tflat. cbn [root tpairs]. f_equal. induction ks as [|[c s] r IH]; cbn; [reflexivity|].
    rewrite map_app. f_equal. f_equal. exact IH.
  Qed.
  Lemma tcollect_perm : forall n t, tsize t <= n -> Permutation (tcollect t) (tflat t).
  Proof.
    induction n as [|n IH]; intros [f ks] Hs; cbn in Hs; [lia|].
    rewrite tflat_node. destruct ks as [|[c s] r] eqn:E; [cbn; auto|]. rewrite <- E in *.
    replace (tcollect (LNode f ks)) with (srt (f :: flat_map (fun ck => tcollect (snd ck)) ks))
      by (subst ks; reflexivity).
    eapply Permutation_trans; [apply srt_perm|]. apply perm_skip. apply flat_map_perm.
    intros [c' s'] Hin. cbn. apply IH. pose proof (fold_size_in ks c' s' Hin). lia.
  Qed.
  Lemma tcollect_sorted f ks : ks <> [] -> fsorted (tcollect (LNode f ks)).
  Proof. destruct ks; [congruence|]. intros _. cbn. apply srt_sorted. Qed.

  (* sorted lists of frames that all carry an index, with pairwise distinct indices, are determined
     by their elements *)
  Definition idx (f : frame) : Z := match f_index f with Some i => i | None => 0%Z end.
  Lemma sorted_perm_unique (l1 l2 : list frame) :
    fsorted l1 -> fsorted l2 -> Forall (fun f => f_index f <> None) l1 ->
    NoDup (map idx l1) -> Permutation l1 l2 -> l1 = l2.
  Proof.
    revert l2; induction l1 as [|a l1 IH]; intros l2 S1 S2 Hall ND P.
    - apply Permutation_nil in P. now subst.
    - destruct l2 as [|b l2]; [apply Permutation_sym, Permutation_nil in P; discriminate|].
      inversion S1 as [|? ? S1' F1]; inversion S2 as [|? ? S2' F2]; subst.
      cbn in ND. inversion ND as [|? ? Hni ND']; subst.
      inversion Hall as [|? ? Ha Hall']; subst.
      assert (Hab : a = b).
      { assert (Hina : In a (b :: l2)) by (eapply Permutation_in; [exact P|now left]).
        assert (Hinb : In b (a :: l1)) by (eapply Permutation_in; [apply Permutation_sym; exact P|now left]).
        destruct Hina as [->|Hina]; auto. destruct Hinb as [->|Hinb]; auto.
        rewrite Forall_forall in F1, F2, Hall'. pose proof (F1 _ Hinb) as X. pose proof (F2 _ Hina) as Y.
        pose proof (Hall' _ Hinb) as Hb.
        exfalso. apply Hni. replace (idx a) with (idx b); [now apply in_map|].
        unfold fless, idx in *. destruct (f_index a); [|congruence]. destruct (f_index b); [|congruence].
        apply Z.ltb_ge in X, Y. lia. }
      subst b. f_equal. apply IH; auto. eapply Permutation_cons_inv; eauto.
  Qed.

  (* ---------- reassembly of ANY link tree whose frames are chunks 0..n-1 of a payload ---------- *)
  (* the frames a writer makes of the chunks: index i, data chunk i; any hash/total/next fields *)
  Definition is_chunk_frames (fs : list frame) (chunks : list (list N)) : Prop :=
    map idx fs = map Z.of_nat (seq 0 (length chunks)) /\ map f_data fs = chunks /\
    Forall (fun f => f_index f <> None) fs.

  Lemma is_chunk_sorted fs chunks : is_chunk_frames fs chunks -> fsorted fs.
  Proof.
    intros [Hi [_ Hs]]. revert Hi Hs. generalize 0. generalize (length chunks). intros n.
    revert fs. induction n as [|n IH]; intros fs k Hi Hs; destruct fs as [|a fs]; cbn in Hi; try discriminate.
    - constructor.
    - inversion Hi as [[Ha Hr]]. inversion Hs as [|? ? Hsa Hs']; subst. constructor; [eapply IH; eauto|].
      apply Forall_forall. intros y Hy.
      assert (Hyi : In (idx y) (map Z.of_nat (seq (S k) n))) by (rewrite <- Hr; now apply in_map).
      apply in_map_iff in Hyi. destruct Hyi as [j [Hj Hjs]]. apply in_seq in Hjs.
      rewrite Forall_forall in Hs'. pose proof (Hs' y Hy) as Hyn.
      unfold fless, idx in *. destruct (f_index y); [|congruence]. destruct (f_index a); [|congruence].
      apply Z.ltb_ge. lia.
  Qed.
  Lemma payload_chunks fs chunks : map f_data fs = chunks -> payload fs = concat chunks.
  Proof. intros <-. unfold payload. induction fs; cbn; congruence. Qed.

  Theorem reassemble_tree t ideal chunks :
    is_chunk_frames ideal chunks -> Permutation (tflat t) ideal ->
    tcollect t = ideal /\ payload (tcollect t) = concat chunks /\ length (tcollect t) = length chunks.
  Proof.
    intros Hic Hp.
    assert (Hcol : tcollect t = ideal).
    { destruct t as [f ks]. destruct ks as [|ck r] eqn:E.
      - unfold tflat in Hp. cbn in Hp. cbn. apply Permutation_length_1_inv in Hp. now subst.
      - rewrite <- E in *.
        assert (Hpc : Permutation (tcollect (LNode f ks)) ideal).
        { eapply Permutation_trans; [apply (tcollect_perm (tsize (LNode f ks))); lia|exact Hp]. }
        apply Permutation_sym in Hpc. symmetry. destruct Hic as [Hi [Hd Hs]].
        apply sorted_perm_unique; auto.
        + eapply is_chunk_sorted. split; [exact Hi|split; [exact Hd|exact Hs]].
        + apply tcollect_sorted. subst ks; discriminate.
        + rewrite Hi. apply FinFun.Injective_map_NoDup; [intros x y; lia|apply seq_NoDup]. }
    rewrite Hcol. destruct Hic as [Hi [Hd Hs]]. split; [reflexivity|split].
    - now apply payload_chunks.
    - rewrite <- Hd, map_length. reflexivity.
  Qed.

  (* ---------- backward: what an Ok result of collect means (no tree needed) ---------- *)
  (* c is reached from f by following links through the store *)
  Inductive reach (f : frame) : cid -> Prop :=
  | reach_link c : In c (f_next f) -> reach f c
  | reach_step c g c' : reach f c -> st c = Some g -> In c' (f_next g) -> reach f c'.

  Lemma reach_trans f c g c' : st c = Some g -> In c (f_next f) -> reach g c' -> reach f c'.
  Proof.
    intros Hst Hin Hr. induction Hr as [x Hx|x g' x' Hr IH Hg Hx'].
    - eapply reach_step; [apply reach_link; exact Hin|exact Hst|exact Hx].
    - eapply reach_step; [exact IH|exact Hg|exact Hx'].
  Qed.

  Definition links (fs : list frame) : list cid := flat_map f_next fs.

  (* result of one collect call: [new] CIDs were fetched (each exactly once, all fresh, all reachable),
     [gs] are their frames, the result is a permutation of f :: gs, and the links of the frames used
     are exactly the fetched CIDs - every used frame other than the first is linked exactly once *)
  Definition ok_char (f : frame) (seen seen' : list cid) (fs : list frame) : Prop :=
    exists new gs, seen' = new ++ seen /\ NoDup new /\ (forall c, In c new -> ~ In c seen) /\
      Forall2 (fun c g => st c = Some g) new gs /\ Permutation fs (f :: gs) /\
      Permutation (links (f :: gs)) new /\ Forall (reach f) new.

  Definition go_char (cs : list cid) (f : frame) (seen seen' : list cid) (acc fs : list frame) : Prop :=
    exists new gs, seen' = new ++ seen /\ NoDup new /\ (forall c, In c new -> ~ In c seen) /\
      Forall2 (fun c g => st c = Some g) new gs /\ Permutation fs (acc ++ gs) /\
      Permutation (cs ++ links gs) new /\
      ((forall c, In c cs -> In c (f_next f)) -> Forall (reach f) new).

  Lemma Forall2_len {A B} (R : A -> B -> Prop) l l' : Forall2 R l l' -> length l = length l'.
  Proof. induction 1; cbn; auto. Qed.
  Lemma Forall2_app_inv {A B} (R : A -> B -> Prop) l1 l2 l1' l2' :
    Forall2 R l1 l1' -> Forall2 R l2 l2' -> Forall2 R (l1 ++ l2) (l1' ++ l2').
  Proof. induction 1; cbn; auto. Qed.

  Lemma go_ok (rec : list cid -> frame -> res (list cid * list frame)) f :
    (forall seen g seen' fs, rec seen g = Ok (seen', fs) -> ok_char g seen seen' fs) ->
    forall cs seen acc seen' fs, go rec cs seen acc = Ok (seen', fs) ->
      go_char cs f seen seen' acc fs.
  Proof.
    intros Hrec. induction cs as [|c cs IH]; intros seen acc seen' fs H; cbn in H.
    - inversion H; subst. exists [], []. cbn. rewrite app_nil_r.
      repeat split; auto; try constructor.
    - destruct (memb c seen) eqn:Hm; [discriminate|]. apply memb_false in Hm.
      destruct (st c) as [g|] eqn:Hst; [|discriminate].
      destruct (rec (c :: seen) g) as [[s1 fs1]| |] eqn:E1; try discriminate.
      apply Hrec in E1. destruct E1 as [n1 [g1 [Es1 [Nd1 [Fr1 [F21 [P1 [L1 R1]]]]]]]].
      apply IH in H. destruct H as [n2 [g2 [Es2 [Nd2 [Fr2 [F22 [P2 [L2 R2]]]]]]]].
      exists (n2 ++ n1 ++ [c]), (g2 ++ g1 ++ [g]). subst s1.
      assert (Hd12 : forall x, In x n2 -> ~ In x (n1 ++ [c])).
      { intros x Hx Hx'. apply (Fr2 x Hx). apply in_app_iff in Hx'. apply in_or_app.
        destruct Hx' as [Hx'|[<-|[]]]; [left; exact Hx'|right; left; reflexivity]. }
      split; [|split; [|split; [|split; [|split; [|split]]]]].
      + rewrite Es2. rewrite <- !app_assoc. reflexivity.
      + apply NoDup_app_intro. split; [exact Nd2|split].
        * apply NoDup_app_intro. split; [exact Nd1|split; [repeat constructor; tauto|]].
          intros x Hx [Hxc|[]]. subst x. apply (Fr1 c Hx). left; reflexivity.
        * exact Hd12.
      + intros x Hx Hs. apply in_app_iff in Hx. destruct Hx as [Hx|Hx].
        * apply (Fr2 x Hx). apply in_or_app. right. right. exact Hs.
        * apply in_app_iff in Hx. destruct Hx as [Hx|[<-|[]]].
          -- apply (Fr1 x Hx). right; exact Hs.
          -- exact (Hm Hs).
      + apply Forall2_app_inv; [exact F22|]. apply Forall2_app_inv; [exact F21|]. constructor; [exact Hst|constructor].
      + eapply Permutation_trans; [exact P2|]. rewrite <- app_assoc. apply Permutation_app_head.
        eapply Permutation_trans; [apply Permutation_app_tail; exact P1|].
        eapply Permutation_trans; [apply Permutation_app_comm|].
        apply Permutation_app_head. cbn. apply Permutation_cons_append.
      + unfold links in *. rewrite !flat_map_app. cbn [flat_map]. rewrite app_nil_r. cbn [app].
        cbn [flat_map] in L1.
        (* c :: cs ++ L g2 ++ L g1 ++ next g  ~  n2 ++ n1 ++ [c] *)
        eapply Permutation_trans; [apply Permutation_cons_append|].
        rewrite <- !app_assoc.
        eapply Permutation_trans; [|apply Permutation_app; [exact L2|apply Permutation_refl]].
        rewrite <- !app_assoc. apply Permutation_app_head. apply Permutation_app_head.
        rewrite app_assoc. apply Permutation_app_tail.
        eapply Permutation_trans; [apply Permutation_app_comm|exact L1].
      + intros Hcs. apply Forall_app. split; [apply R2; intros x Hx; apply Hcs; right; exact Hx|].
        apply Forall_app. split.
        * eapply Forall_impl; [|exact R1]. intros x Hx. eapply reach_trans; [exact Hst| |exact Hx].
          apply Hcs. left; reflexivity.
        * constructor; [|constructor]. apply reach_link. apply Hcs. left; reflexivity.
  Qed.

  Lemma collect_ok : forall fuel seen f seen' fs,
    collect fuel seen f = Ok (seen', fs) ->
    ok_char f seen seen' fs /\ (f_next f <> [] -> fsorted fs) /\ (f_next f = [] -> fs = [f]).
  Proof.
    induction fuel as [|k IH]; intros seen f seen' fs H; [discriminate|]. cbn [collect] in H.
    destruct (f_next f) as [|c cs] eqn:En.
    - inversion H; subst. split; [|split; [congruence|reflexivity]].
      exists [], []. cbn. unfold links. cbn. rewrite En.
      repeat split; auto; constructor.
    - destruct (go (collect k) (c :: cs) seen [f]) as [[s1 fs1]| |] eqn:E; try discriminate.
      inversion H; subst. split; [|split; [intros _; apply srt_sorted|discriminate]].
      apply go_ok with (f := f) in E; [|intros sn g sn' fs' Hc; apply (IH sn g sn' fs' Hc)].
      destruct E as [new [gs [Es [Nd [Fr [F2 [P [L R]]]]]]]].
      exists new, gs. repeat split; auto.
      + eapply Permutation_trans; [apply srt_perm|exact P].
      + unfold links in *. cbn [flat_map]. rewrite En. exact L.
      + apply R. rewrite En. auto.
  Qed.

  (* ---------- consequences for load ---------- *)
  Definition used_ok (f0 : frame) (new : list cid) (gs fs : list frame) : Prop :=
    NoDup new /\ Forall2 (fun c g => st c = Some g) new gs /\ Permutation fs (f0 :: gs) /\
    Permutation (links (f0 :: gs)) new /\ Forall (reach f0) new /\
    (f_next f0 <> [] -> fsorted fs) /\ (f_next f0 = [] -> fs = [f0]).

  Theorem load_ok_char fuel f0 d :
    load fuel f0 = Ok d ->
    exists new gs fs, used_ok f0 new gs fs /\ d = payload fs /\
      (forall n, f_total f0 = Some n -> Z.of_nat (length fs) = n) /\
      (forall h, f_hash f0 = Some h -> crc64 d = h \/ fnv1a d = h).
  Proof.
    unfold load. destruct (collect fuel [] f0) as [[s fs]| |] eqn:E; try discriminate.
    apply collect_ok in E. destruct E as [[new [gs [Es [Nd [Fr [F2 [P [L R]]]]]]]] [Hso Hle]].
    assert (Hfin : finish f0 fs = Ok d -> d = payload fs /\ forall h, f_hash f0 = Some h -> crc64 d = h \/ fnv1a d = h).
    { unfold finish. destruct (f_hash f0) as [h|].
      - destruct (verify_hash (payload fs) h) eqn:V; [|discriminate]. intros X; inversion X; subst.
        split; [reflexivity|]. intros h' Hh; inversion Hh; subst. now apply verify_hash_spec.
      - intros X; inversion X; subst. split; [reflexivity|discriminate]. }
    intros H. exists new, gs, fs. unfold used_ok.
    destruct (f_total f0) as [n|].
    - destruct (Z.eqb_spec (Z.of_nat (length fs)) n) as [Hn|]; [|discriminate].
      destruct (Hfin H) as [Hd Hh]. repeat split; auto. intros n' X; inversion X; subst; reflexivity.
    - destruct (Hfin H) as [Hd Hh]. repeat split; auto. discriminate.
  Qed.

  (* every CID reachable from the first frame has been fetched, hence is in the store *)
  Lemma used_closed f0 new gs fs : used_ok f0 new gs fs -> forall c, reach f0 c -> In c new.
  Proof.
    intros [Nd [F2 [P [L [R _]]]]] c Hr. induction Hr as [c Hc|c g c' Hr IH Hg Hc'].
    - eapply Permutation_in; [exact L|]. unfold links. cbn. apply in_or_app. left; exact Hc.
    - eapply Permutation_in; [exact L|]. unfold links. cbn. apply in_or_app. right.
      apply in_flat_map. exists g. split; [|exact Hc'].
      clear - F2 IH Hg. induction F2 as [|x y l l' Hxy F2 IHf]; [destruct IH|].
      destruct IH as [->|IH]; [left; congruence|right; auto].
  Qed.
  Lemma used_present f0 new gs fs : used_ok f0 new gs fs -> forall c, In c new -> exists g, st c = Some g /\ In g gs.
  Proof.
    intros [_ [F2 _]] c Hc. induction F2 as [|x y l l' Hxy F2 IH]; [destruct Hc|].
    destruct Hc as [<-|Hc]; [exists y; split; [exact Hxy|now left]|].
    destruct (IH Hc) as [g [Hg Hin]]. exists g. split; [exact Hg|now right].
  Qed.

  (* (a) a reachable CID that is missing from the store: never Ok *)
  Theorem missing_rejected fuel f0 c : reach f0 c -> st c = None -> forall d, load fuel f0 <> Ok d.
  Proof.
    intros Hr Hn d H. apply load_ok_char in H. destruct H as [new [gs [fs [U _]]]].
    pose proof (used_closed _ _ _ _ U c Hr) as Hin.
    destruct (used_present _ _ _ _ U c Hin) as [g [Hg _]]. congruence.
  Qed.

  Lemma NoDup_flat_map_in {A B} (F : A -> list B) l x : NoDup (flat_map F l) -> In x l -> NoDup (F x).
  Proof.
    induction l as [|y l IH]; cbn; [tauto|]. intros Hnd [->|Hin].
    - eapply NoDup_app_remove_r. rewrite app_nil_r. apply NoDup_app_remove_r in Hnd.
      exact Hnd.
    - apply IH; [|exact Hin]. eapply NoDup_app_remove_l; exact Hnd.
  Qed.

  (* (b) a frame that is used (the first one, or one stored under a reachable CID) and lists a CID twice: never Ok *)
  Theorem dup_link_rejected fuel f0 g :
    (g = f0 \/ exists c, reach f0 c /\ st c = Some g) -> ~ NoDup (f_next g) -> forall d, load fuel f0 <> Ok d.
  Proof.
    intros Hg Hnd d H. apply load_ok_char in H. destruct H as [new [gs [fs [U _]]]].
    assert (Hin : In g (f0 :: gs)).
    { destruct Hg as [->|[c [Hr Hst]]]; [now left|right].
      pose proof (used_closed _ _ _ _ U c Hr) as Hc.
      destruct (used_present _ _ _ _ U c Hc) as [g' [Hg' Hing]]. congruence. }
    destruct U as [Nd [_ [_ [L _]]]]. apply Hnd.
    apply (NoDup_flat_map_in f_next (f0 :: gs)); [|exact Hin].
    eapply Permutation_NoDup; [apply Permutation_sym; exact L|exact Nd].
  Qed.

  (* (c) with `total` present, Ok means: exactly total-1 distinct CIDs are reachable *)
  Theorem count_char fuel f0 d n : load fuel f0 = Ok d -> f_total f0 = Some n ->
    exists new, NoDup new /\ (forall c, In c new <-> reach f0 c) /\ Z.of_nat (S (length new)) = n.
  Proof.
    intros H Ht. apply load_ok_char in H. destruct H as [new [gs [fs [U [_ [Hn _]]]]]].
    exists new. pose proof U as [Nd [F2 [P [L [R _]]]]]. split; [exact Nd|split].
    - intros c. split; [|apply (used_closed _ _ _ _ U)]. rewrite Forall_forall in R. apply R.
    - rewrite <- (Hn n Ht). f_equal. apply Permutation_length in P. cbn in P.
      apply Forall2_len in F2. lia.
  Qed.

End Model.

