(* C01 — `index all` (cmd-x-index-all.go:createAllIndexes) and the server-side lookups (epoch.go).
   The CAR layout / running offset part is Car.v (offsets_exact). Here: the value codec (6-byte offset +
   3-byte size), the fold that produces the four key/value sets and the block-time table, and the
   composition with an abstract key/value index (instantiated by the compact index, C04) and an abstract
   membership index (sig-exists, C05). *)
From Coq Require Import List Arith Lia Bool PeanoNat NArith.
From Coq Require Import ZifyN ZifyNat ZifyBool.
Import ListNotations.
Require Import Codec ReadAt Car.
Close Scope N_scope.

(* ---------- 6+3 byte value codec: indexes/offset-and-size.go, indexes/uints.go ---------- *)
Definition max_u48 : N := (2 ^ 48 - 1)%N.
Definition max_u24 : N := (2 ^ 24 - 1)%N.

(* CidToOffsetAndSize_Writer.Put: rejects offset > MaxUint48 and size > MaxUint24 *)
Definition enc_os (off len : N) : option (list N) :=
  if (N.leb off max_u48 && N.leb len max_u24)%bool then Some (le_enc 6 off ++ le_enc 3 len) else None.
(* OffsetAndSize.FromBytes *)
Definition dec_os (v : list N) : option (N * N) :=
  if Nat.eqb (length v) 9 then Some (le_dec (firstn 6 v), le_dec (skipn 6 v)) else None.

Lemma dec_enc_os off len v : enc_os off len = Some v -> dec_os v = Some (off, len).
Proof.
  unfold enc_os, dec_os. destruct (N.leb off max_u48) eqn:E1; [|discriminate].
  destruct (N.leb len max_u24) eqn:E2; [|discriminate]. cbn [andb]. intros H.
  assert (Hv : v = le_enc 6 off ++ le_enc 3 len) by congruence. subst v. clear H.
  rewrite app_length, !le_enc_length. cbn [Nat.add Nat.eqb].
  rewrite firstn_app, le_enc_length, Nat.sub_diag, firstn_O, app_nil_r.
  rewrite firstn_all2 by (rewrite le_enc_length; lia).
  rewrite skipn_app, le_enc_length, Nat.sub_diag, skipn_O.
  rewrite skipn_all2 by (rewrite le_enc_length; lia). cbn [app].
  apply N.leb_le in E1, E2. unfold max_u48, max_u24 in *.
  rewrite !le_roundtrip; [reflexivity| |].
  - change (256 ^ N.of_nat 3)%N with (2 ^ 24)%N. lia.
  - change (256 ^ N.of_nat 6)%N with (2 ^ 48)%N. lia.
Qed.

(* ---------- block-time table: blocktimeindex/writer.go ---------- *)
(* values indexed by slot - start; Set/Get reject slots outside [start, end] *)
Record bt := { bt_start : N; bt_end : N; bt_vals : list N }.
Definition bt_new (start end_ : N) (cap : nat) : bt := {| bt_start := start; bt_end := end_; bt_vals := repeat 0%N cap |}.
Fixpoint upd {A} (l : list A) (i : nat) (x : A) : list A :=
  match l, i with
  | [], _ => []
  | _ :: t, O => x :: t
  | h :: t, S j => h :: upd t j x
  end.
Definition bt_set (t : bt) (slot time : N) : option bt :=
  if (N.ltb slot (bt_start t) || N.ltb (bt_end t) slot)%bool then None
  else Some {| bt_start := bt_start t; bt_end := bt_end t; bt_vals := upd (bt_vals t) (N.to_nat (slot - bt_start t)) time |}.
Definition bt_get (t : bt) (slot : N) : option N :=
  if (N.ltb slot (bt_start t) || N.ltb (bt_end t) slot)%bool then None
  else nth_error (bt_vals t) (N.to_nat (slot - bt_start t)).

Lemma upd_length {A} (l : list A) i x : length (upd l i x) = length l.
Proof. revert i; induction l; destruct i; cbn; auto. Qed.
Lemma nth_upd_same {A} (l : list A) i x : i < length l -> nth_error (upd l i x) i = Some x.
Proof. revert i; induction l; destruct i; cbn; intros; try lia; auto. apply IHl; lia. Qed.
Lemma nth_upd_other {A} (l : list A) i j x : i <> j -> nth_error (upd l i x) j = nth_error l j.
Proof. revert i j; induction l; destruct i, j; cbn; intros; try congruence; auto. Qed.

(* serialised form: magic ‖ start ‖ end ‖ epoch ‖ capacity (8-byte LE each) ‖ 4-byte LE values *)
Definition bt_magic : list N := [98; 108; 111; 99; 107; 116; 105; 109; 101; 105; 110; 100; 101; 120]%N. (* "blocktimeindex" *)
Definition bt_marshal (epoch : N) (t : bt) : option (list N) :=
  if forallb (fun v => N.ltb v (2 ^ 32)%N) (bt_vals t)
  then Some (bt_magic ++ le_enc 8 (bt_start t) ++ le_enc 8 (bt_end t) ++ le_enc 8 epoch ++
             le_enc 8 (N.of_nat (length (bt_vals t))) ++ concat (map (le_enc 4) (bt_vals t)))
  else None.   (* blocktimeToBytes: error when the time does not fit in 32 bits *)

Fixpoint bt_read_vals (n : nat) (bs : list N) : option (list N) :=
  match n with
  | O => Some []
  | S m => match bs with
           | [] => None
           | _ => match bt_read_vals m (skipn 4 bs) with
                  | Some r => Some (le_dec (firstn 4 bs) :: r)
                  | None => None
                  end
           end
  end.

Lemma bt_read_vals_ok vals rest : Forall (fun v => (v < 2 ^ 32)%N) vals ->
  (vals <> [] -> True) ->
  bt_read_vals (length vals) (concat (map (le_enc 4) vals) ++ rest) = Some vals.
Proof.
  intros H _. induction H as [|v vs Hv Hvs IH]; [reflexivity|].
  cbn [length map concat bt_read_vals].
  destruct ((le_enc 4 v ++ concat (map (le_enc 4) vs)) ++ rest) eqn:E.
  - exfalso. assert (L : length ((le_enc 4 v ++ concat (map (le_enc 4) vs)) ++ rest) = 0) by (rewrite E; reflexivity).
    rewrite !app_length, le_enc_length in L. lia.
  - rewrite <- E. rewrite <- !app_assoc.
    rewrite firstn_app, le_enc_length, Nat.sub_diag, firstn_O, app_nil_r, firstn_all2 by (rewrite le_enc_length; lia).
    rewrite skipn_app, le_enc_length, Nat.sub_diag, skipn_O, skipn_all2 by (rewrite le_enc_length; lia). cbn [app].
    rewrite IH. rewrite le_roundtrip; [reflexivity|]. change (256 ^ N.of_nat 4)%N with (2 ^ 32)%N. exact Hv.
Qed.

(* block-time file reader: blocktimeindex.FromBytes *)
Definition bt_unmarshal (bs : list N) : option bt :=
  if list_eq_dec N.eq_dec (firstn 14 bs) bt_magic then
    let r0 := skipn 14 bs in
    let r1 := skipn 8 r0 in let r2 := skipn 8 r1 in let r3 := skipn 8 r2 in let r4 := skipn 8 r3 in
    if Nat.ltb (length r0) 32 then None else
    match bt_read_vals (N.to_nat (le_dec (firstn 8 r3))) r4 with
    | Some vals => Some {| bt_start := le_dec (firstn 8 r0); bt_end := le_dec (firstn 8 r1); bt_vals := vals |}
    | None => None
    end
  else None.

Lemma firstn_le8 a b : firstn 8 (le_enc 8 a ++ b) = le_enc 8 a.
Proof. rewrite firstn_app, le_enc_length, Nat.sub_diag, firstn_O, app_nil_r. apply firstn_all2. rewrite le_enc_length; lia. Qed.
Lemma skipn_le8 a b : skipn 8 (le_enc 8 a ++ b) = b.
Proof. rewrite skipn_app, le_enc_length, Nat.sub_diag, skipn_O. rewrite skipn_all2 by (rewrite le_enc_length; lia). reflexivity. Qed.

Lemma bt_unmarshal_marshal epoch t b :
  (bt_start t < 2 ^ 64)%N -> (bt_end t < 2 ^ 64)%N -> (N.of_nat (length (bt_vals t)) < 2 ^ 64)%N ->
  bt_marshal epoch t = Some b -> bt_unmarshal b = Some t.
Proof.
  intros H1 H2 H3. unfold bt_marshal. destruct (forallb _ (bt_vals t)) eqn:Ef; [|discriminate].
  intros E.
  assert (Hb : b = bt_magic ++ le_enc 8 (bt_start t) ++ le_enc 8 (bt_end t) ++ le_enc 8 epoch ++
             le_enc 8 (N.of_nat (length (bt_vals t))) ++ concat (map (le_enc 4) (bt_vals t))) by congruence.
  subst b; clear E. unfold bt_unmarshal.
  rewrite firstn_app, (firstn_all2 (n := 14) bt_magic) by (cbn; lia).
  replace (14 - length bt_magic) with 0 by reflexivity. rewrite firstn_O, app_nil_r.
  destruct (list_eq_dec N.eq_dec bt_magic bt_magic); [|congruence].
  rewrite skipn_app, (skipn_all2 (n := 14) bt_magic) by (cbn; lia).
  replace (14 - length bt_magic) with 0 by reflexivity. rewrite skipn_O. cbn [app].
  rewrite !skipn_le8, !firstn_le8.
  match goal with |- context [Nat.ltb ?x 32] => replace (Nat.ltb x 32) with false end.
  2:{ symmetry. apply Nat.ltb_ge. rewrite !app_length, !le_enc_length. lia. }
  change (256 ^ N.of_nat 8)%N with (2 ^ 64)%N in *.
  rewrite !le_roundtrip by (change (256 ^ N.of_nat 8)%N with (2 ^ 64)%N; assumption).
  rewrite Nat2N.id.
  rewrite <- (app_nil_r (concat _)). rewrite bt_read_vals_ok; auto.
  - destruct t; reflexivity.
  - apply Forall_forall. intros v Hv. rewrite forallb_forall in Ef. apply N.ltb_lt. auto.
Qed.

(* ---------- the indexing fold ---------- *)
Section C01.
Variable cid_parse : list N -> option (list N * nat).
Variable good_cid : list N -> Prop.
Hypothesis cid_parse_ok : forall c rest, good_cid c -> cid_parse (c ++ rest) = Some (c, length c).

(* payload decoders (their agreement with the schema is C11's subject) *)
Inductive kind := KBlock | KTx | KOther.
Variable kind_of : list N -> kind.                   (* data[1] dispatch *)
Variable dec_block : list N -> option (N * N).       (* slot, blocktime *)
Variable dec_sig : list N -> option (list N).        (* first signature of a transaction node *)

(* abstract key/value index (C04: compact index) and membership index (C05: sig-exists) *)
Variable ix : Type.
Variable ix_build : list (list N * list N) -> option ix.
Variable ix_get : ix -> list N -> option (list N).
Hypothesis ix_found : forall kvs i k v, ix_build kvs = Some i -> In (k, v) kvs -> ix_get i k = Some v.
Variable sx : Type.
Variable sx_build : list (list N) -> option sx.
Variable sx_has : sx -> list N -> bool.
Hypothesis sx_complete : forall sigs s x, sx_build sigs = Some s -> In x sigs -> sx_has s x = true.

Notation obj := Car.obj.
Notation section := Car.section.
Notation seclen := Car.seclen.
Notation car := Car.car.

Record acc := {
  a_cids : list (list N * list N);   (* cid -> 9-byte (offset,size) *)
  a_slots : list (list N * list N);  (* 8-byte LE slot -> cid *)
  a_sigs : list (list N * list N);   (* signature -> cid *)
  a_sx : list (list N);              (* signatures for sig-exists *)
  a_bt : bt
}.

(* one loop iteration of createAllIndexes: Put(cid, totalOffset, sectionLength), kind dispatch, then
   totalOffset += sectionLength (the caller threads the offset) *)
Definition step (a : acc) (off : nat) (o : obj) : option acc :=
  match enc_os (N.of_nat off) (N.of_nat (seclen o)) with
  | None => None
  | Some v =>
    let a1 := {| a_cids := a_cids a ++ [(Car.cid o, v)]; a_slots := a_slots a; a_sigs := a_sigs a; a_sx := a_sx a; a_bt := a_bt a |} in
    match kind_of (Car.data o) with
    | KBlock => match dec_block (Car.data o) with
                | None => None
                | Some (slot, time) =>
                  match bt_set (a_bt a1) slot time with
                  | None => None
                  | Some t => Some {| a_cids := a_cids a1; a_slots := a_slots a1 ++ [(le_enc 8 slot, Car.cid o)];
                                      a_sigs := a_sigs a1; a_sx := a_sx a1; a_bt := t |}
                  end
                end
    | KTx => match dec_sig (Car.data o) with
             | None => None
             | Some sg => Some {| a_cids := a_cids a1; a_slots := a_slots a1; a_sigs := a_sigs a1 ++ [(sg, Car.cid o)];
                                  a_sx := a_sx a1 ++ [sg]; a_bt := a_bt a1 |}
             end
    | KOther => Some a1
    end
  end.

Fixpoint scan (a : acc) (off : nat) (objs : list obj) : option acc :=
  match objs with
  | [] => Some a
  | o :: r => match step a off o with Some a' => scan a' (off + seclen o) r | None => None end
  end.

Record indexes := {
  i_cid : ix; i_slot : ix; i_sig : ix; i_sx : sx; i_bt : list N   (* the block-time file bytes *)
}.

Definition epoch_len : N := 432000%N.
Definition index_all (epoch : N) (hdr : list N) (objs : list obj) : option indexes :=
  let a0 := {| a_cids := []; a_slots := []; a_sigs := []; a_sx := [];
               a_bt := bt_new (epoch * epoch_len) (epoch * epoch_len + epoch_len - 1) (N.to_nat epoch_len) |} in
  match scan a0 (length hdr) objs with
  | None => None
  | Some a =>
    match ix_build (a_cids a), ix_build (a_slots a), ix_build (a_sigs a), sx_build (a_sx a), bt_marshal epoch (a_bt a) with
    | Some c, Some s, Some g, Some x, Some b => Some {| i_cid := c; i_slot := s; i_sig := g; i_sx := x; i_bt := b |}
    | _, _, _, _, _ => None    (* errgroup: any failing seal fails index generation *)
    end
  end.

(* ---------- server side (epoch.go) ---------- *)
Definition get_node_by_cid (ixs : indexes) (file : list N) (c : list N) : option (list N) :=
  match ix_get (i_cid ixs) c with
  | None => None
  | Some v => match dec_os v with
              | None => None
              | Some (off, len) =>
                if N.eqb len 0 then None else
                match read_at file (N.to_nat off) (N.to_nat len) with
                | None => None
                | Some sec => Car.parse_node cid_parse sec c
                end
              end
  end.
Definition find_cid_from_slot (ixs : indexes) (slot : N) : option (list N) := ix_get (i_slot ixs) (le_enc 8 slot).
Definition find_cid_from_sig (ixs : indexes) (sg : list N) : option (list N) := ix_get (i_sig ixs) sg.
Definition sig_exists (ixs : indexes) (sg : list N) : bool := sx_has (i_sx ixs) sg.

Definition blocktime (ixs : indexes) (slot : N) : option N :=
  match bt_unmarshal (i_bt ixs) with Some t => bt_get t slot | None => None end.

(* ---------- invariants of the scan ---------- *)
Definition cids_of (off : nat) (objs : list obj) : list (list N * option (list N)) :=
  map (fun e => (fst (fst e), enc_os (N.of_nat (snd (fst e))) (N.of_nat (snd e)))) (Car.index_from off objs).

Lemma scan_cids objs : forall a off a', scan a off objs = Some a' ->
  forall i o, nth_error objs i = Some o ->
  exists offi v, nth_error (Car.index_from off objs) i = Some (Car.cid o, offi, seclen o) /\
                 enc_os (N.of_nat offi) (N.of_nat (seclen o)) = Some v /\ In (Car.cid o, v) (a_cids a').
Proof.
  induction objs as [|x r IH]; intros a off a' H i o Hi; [destruct i; discriminate|].
  cbn [scan] in H. destruct (step a off x) as [a1|] eqn:Es; [|discriminate].
  assert (Hmono : forall a b off l, scan a off l = Some b -> incl (a_cids a) (a_cids b)).
  { clear. intros a b off l; revert a off b. induction l as [|y l IHl]; intros a off b H; cbn in H.
    - inversion H; subst. apply incl_refl.
    - destruct (step a off y) as [a1|] eqn:Es; [|discriminate].
      eapply incl_tran; [|eapply IHl; eauto].
      unfold step in Es. destruct (enc_os _ _); [|discriminate].
      destruct (kind_of (Car.data y)).
      + destruct (dec_block _) as [[s t]|]; [|discriminate]. destruct (bt_set _ _ _); [|discriminate].
        inversion Es; subst; cbn. apply incl_appl, incl_refl.
      + destruct (dec_sig _); [|discriminate]. inversion Es; subst; cbn. apply incl_appl, incl_refl.
      + inversion Es; subst; cbn. apply incl_appl, incl_refl. }
  destruct i as [|i]; cbn [nth_error] in Hi.
  - inversion Hi; subst x. exists off. unfold step in Es.
    destruct (enc_os (N.of_nat off) (N.of_nat (seclen o))) as [v|] eqn:Ev; [|discriminate].
    exists v. split; [reflexivity|]. split; [reflexivity|].
    apply (Hmono a1 a' (off + seclen o) r H).
    destruct (kind_of (Car.data o)).
    + destruct (dec_block _) as [[s t]|]; [|discriminate]. destruct (bt_set _ _ _); [|discriminate].
      inversion Es; subst; cbn. apply in_or_app; right; left; reflexivity.
    + destruct (dec_sig _); [|discriminate]. inversion Es; subst; cbn. apply in_or_app; right; left; reflexivity.
    + inversion Es; subst; cbn. apply in_or_app; right; left; reflexivity.
  - destruct (IH a1 (off + seclen x) a' H i o Hi) as [offi [v [H1 [H2 H3]]]].
    exists offi, v. split; [exact H1|]. split; assumption.
Qed.

(* blocks / transactions seen by the scan *)
Definition is_block (o : obj) (slot time : N) : Prop := kind_of (Car.data o) = KBlock /\ dec_block (Car.data o) = Some (slot, time).
Definition is_tx (o : obj) (sg : list N) : Prop := kind_of (Car.data o) = KTx /\ dec_sig (Car.data o) = Some sg.

Lemma step_mono a off o a' : step a off o = Some a' ->
  incl (a_slots a) (a_slots a') /\ incl (a_sigs a) (a_sigs a') /\ incl (a_sx a) (a_sx a').
Proof.
  unfold step. destruct (enc_os _ _); [|discriminate]. destruct (kind_of (Car.data o)).
  - destruct (dec_block _) as [[s t]|]; [|discriminate]. destruct (bt_set _ _ _); [|discriminate].
    intros E; inversion E; subst; cbn. repeat split; try apply incl_refl. apply incl_appl, incl_refl.
  - destruct (dec_sig _); [|discriminate]. intros E; inversion E; subst; cbn.
    repeat split; try apply incl_refl; apply incl_appl, incl_refl.
  - intros E; inversion E; subst; cbn. repeat split; apply incl_refl.
Qed.
Lemma scan_mono l : forall a off a', scan a off l = Some a' ->
  incl (a_slots a) (a_slots a') /\ incl (a_sigs a) (a_sigs a') /\ incl (a_sx a) (a_sx a').
Proof.
  induction l as [|y l IH]; intros a off a' H; cbn in H.
  - inversion H; subst. repeat split; apply incl_refl.
  - destruct (step a off y) as [a1|] eqn:Es; [|discriminate].
    destruct (step_mono _ _ _ _ Es) as [A [B C]]. destruct (IH _ _ _ H) as [A' [B' C']].
    repeat split; eapply incl_tran; eauto.
Qed.

Lemma scan_blocks objs : forall a off a', scan a off objs = Some a' ->
  forall o slot time, In o objs -> is_block o slot time -> In (le_enc 8 slot, Car.cid o) (a_slots a').
Proof.
  induction objs as [|x r IH]; intros a off a' H o slot time Hin [Hk Hd]; [destruct Hin|].
  cbn [scan] in H. destruct (step a off x) as [a1|] eqn:Es; [|discriminate].
  destruct Hin as [->|Hin]; [|exact (IH a1 (off + seclen x) a' H o slot time Hin (conj Hk Hd))].
  destruct (scan_mono _ _ _ _ H) as [A _]. apply A.
  unfold step in Es. destruct (enc_os _ _); [|discriminate]. rewrite Hk, Hd in Es.
  destruct (bt_set _ _ _); [|discriminate]. inversion Es; subst; cbn. apply in_or_app; right; left; reflexivity.
Qed.

Lemma scan_txs objs : forall a off a', scan a off objs = Some a' ->
  forall o sg, In o objs -> is_tx o sg -> In (sg, Car.cid o) (a_sigs a') /\ In sg (a_sx a').
Proof.
  induction objs as [|x r IH]; intros a off a' H o sg Hin [Hk Hd]; [destruct Hin|].
  cbn [scan] in H. destruct (step a off x) as [a1|] eqn:Es; [|discriminate].
  destruct Hin as [->|Hin]; [|exact (IH a1 (off + seclen x) a' H o sg Hin (conj Hk Hd))].
  destruct (scan_mono _ _ _ _ H) as [_ [B C]].
  unfold step in Es. destruct (enc_os _ _); [|discriminate]. rewrite Hk, Hd in Es.
  inversion Es; subst; cbn in *. split; [apply B|apply C]; apply in_or_app; right; left; reflexivity.
Qed.

(* block-time table: after the scan, the entry of a block's slot is its time, provided slots are distinct *)
Definition slots_of (objs : list obj) : list N :=
  flat_map (fun o => match kind_of (Car.data o) with
                     | KBlock => match dec_block (Car.data o) with Some (s, _) => [s] | None => [] end
                     | _ => [] end) objs.

Lemma bt_set_get t slot time t' : bt_set t slot time = Some t' ->
  N.to_nat (slot - bt_start t) < length (bt_vals t) -> bt_get t' slot = Some time.
Proof.
  unfold bt_set, bt_get. destruct (N.ltb slot (bt_start t) || N.ltb (bt_end t) slot)%bool eqn:E; [discriminate|].
  intros H; inversion H; subst; cbn. rewrite E. intros L. apply nth_upd_same; exact L.
Qed.
Lemma bt_set_other t slot time t' s2 : bt_set t slot time = Some t' -> s2 <> slot ->
  bt_get t' s2 = bt_get t s2.
Proof.
  unfold bt_set, bt_get. destruct (N.ltb slot (bt_start t) || N.ltb (bt_end t) slot)%bool eqn:E; [discriminate|].
  intros H; inversion H; subst; cbn. intros Hne.
  destruct (N.ltb s2 (bt_start t) || N.ltb (bt_end t) s2)%bool eqn:E2; [reflexivity|].
  apply nth_upd_other. apply orb_false_iff in E, E2. destruct E as [E _], E2 as [E2 _].
  apply N.ltb_ge in E, E2. lia.
Qed.
Definition bt_ok (t : bt) : Prop := (bt_start t <= bt_end t)%N /\ N.to_nat (bt_end t - bt_start t) < length (bt_vals t).

Lemma bt_set_shape t slot time t' : bt_set t slot time = Some t' ->
  bt_start t' = bt_start t /\ bt_end t' = bt_end t /\ length (bt_vals t') = length (bt_vals t).
Proof.
  unfold bt_set. destruct (_ || _)%bool; [discriminate|]. intros H; inversion H; subst; cbn.
  repeat split. apply upd_length.
Qed.
Lemma bt_set_in_range t slot time t' : bt_set t slot time = Some t' -> (bt_start t <= slot <= bt_end t)%N.
Proof.
  unfold bt_set. destruct (N.ltb slot (bt_start t) || N.ltb (bt_end t) slot)%bool eqn:E; [discriminate|]. intros _.
  apply orb_false_iff in E. destruct E as [E1 E2]. apply N.ltb_ge in E1, E2. lia.
Qed.

Lemma step_bt_shape a off o a' : step a off o = Some a' ->
  bt_start (a_bt a') = bt_start (a_bt a) /\ bt_end (a_bt a') = bt_end (a_bt a) /\
  length (bt_vals (a_bt a')) = length (bt_vals (a_bt a)).
Proof.
  unfold step. destruct (enc_os _ _); [|discriminate]. destruct (kind_of (Car.data o)).
  - destruct (dec_block _) as [[s t]|]; [|discriminate]. cbn [a_bt].
    destruct (bt_set (a_bt a) s t) as [t'|] eqn:Eb; [|discriminate]. intros E; inversion E; subst; cbn [a_bt].
    eapply bt_set_shape; eauto.
  - destruct (dec_sig _); [|discriminate]. intros E; inversion E; subst; cbn. auto.
  - intros E; inversion E; subst; cbn. auto.
Qed.
Lemma step_bt_other a off o a' s : step a off o = Some a' -> ~ In s (slots_of [o]) ->
  bt_get (a_bt a') s = bt_get (a_bt a) s.
Proof.
  unfold step, slots_of. destruct (enc_os _ _); [|discriminate]. cbn [flat_map]. rewrite app_nil_r.
  destruct (kind_of (Car.data o)).
  - destruct (dec_block _) as [[sl t]|]; [|discriminate]. cbn [a_bt].
    destruct (bt_set (a_bt a) sl t) as [t'|] eqn:Eb; [|discriminate]. intros E; inversion E; subst; cbn [a_bt].
    intros Hn. eapply bt_set_other; eauto. intros ->. apply Hn. left; reflexivity.
  - destruct (dec_sig _); [|discriminate]. intros E; inversion E; subst; cbn. auto.
  - intros E; inversion E; subst; cbn. auto.
Qed.
Lemma NoDup_app_r {A} (l1 l2 : list A) : NoDup (l1 ++ l2) -> NoDup l2.
Proof. induction l1 as [|x l1 IH]; cbn; [auto|]. intros H; inversion H; auto. Qed.
Lemma NoDup_app_notin {A} (l1 l2 : list A) x : NoDup (l1 ++ l2) -> In x l1 -> ~ In x l2.
Proof.
  induction l1 as [|y l1 IH]; cbn; [tauto|]. intros H [->|Hin]; inversion H; subst.
  - intros X. apply H2. apply in_or_app; right; exact X.
  - apply IH; auto.
Qed.
Lemma slots_of_cons o l : slots_of (o :: l) = slots_of [o] ++ slots_of l.
Proof. unfold slots_of. cbn [flat_map]. rewrite app_nil_r. reflexivity. Qed.

Lemma scan_bt_other l : forall a off a' s, scan a off l = Some a' -> ~ In s (slots_of l) ->
  bt_get (a_bt a') s = bt_get (a_bt a) s.
Proof.
  induction l as [|y l IH]; intros a off a' s H Hn; cbn in H; [inversion H; subst; reflexivity|].
  destruct (step a off y) as [a1|] eqn:Es; [|discriminate]. rewrite slots_of_cons in Hn.
  rewrite (IH _ _ _ s H) by (intros X; apply Hn, in_or_app; right; exact X).
  eapply step_bt_other; eauto. intros X; apply Hn, in_or_app; left; exact X.
Qed.

Lemma scan_bt objs : forall a off a', scan a off objs = Some a' -> bt_ok (a_bt a) -> NoDup (slots_of objs) ->
  forall o slot time, In o objs -> is_block o slot time -> bt_get (a_bt a') slot = Some time.
Proof.
  induction objs as [|x r IH]; intros a off a' H Hok ND o slot time Hin Hb; [destruct Hin|].
  cbn [scan] in H. destruct (step a off x) as [a1|] eqn:Es; [|discriminate].
  rewrite slots_of_cons in ND.
  destruct (step_bt_shape _ _ _ _ Es) as [S1 [S2 S3]].
  assert (Hok1 : bt_ok (a_bt a1)) by (unfold bt_ok in *; rewrite S1, S2, S3; exact Hok).
  destruct Hin as [->|Hin].
  - destruct Hb as [Hk Hd].
    assert (Hs : slots_of [o] = [slot]) by (unfold slots_of; cbn [flat_map]; rewrite Hk, Hd; reflexivity).
    rewrite Hs in ND. assert (Hnin : ~ In slot (slots_of r)) by (eapply NoDup_app_notin; [exact ND|left; reflexivity]).
    rewrite (scan_bt_other _ _ _ _ slot H Hnin).
    unfold step in Es. destruct (enc_os _ _); [|discriminate]. rewrite Hk, Hd in Es. cbn [a_bt] in Es.
    destruct (bt_set (a_bt a) slot time) as [t'|] eqn:Eb; [|discriminate]. inversion Es; subst; cbn [a_bt].
    eapply bt_set_get; eauto. pose proof (bt_set_in_range _ _ _ _ Eb). destruct Hok as [O1 O2]. lia.
  - eapply IH; eauto. eapply NoDup_app_r; eauto.
Qed.

Lemma scan_bt_shape l : forall a off a', scan a off l = Some a' ->
  bt_start (a_bt a') = bt_start (a_bt a) /\ bt_end (a_bt a') = bt_end (a_bt a) /\
  length (bt_vals (a_bt a')) = length (bt_vals (a_bt a)).
Proof.
  induction l as [|y l IH]; intros a off a' H; cbn in H; [inversion H; subst; auto|].
  destruct (step a off y) as [a1|] eqn:Es; [|discriminate].
  destruct (step_bt_shape _ _ _ _ Es) as [A [B C]]. destruct (IH _ _ _ H) as [A' [B' C']].
  repeat split; congruence.
Qed.

(* ---------- C01: success of index generation implies every lookup resolves ---------- *)
Definition wf_car (objs : list obj) : Prop :=
  NoDup (map Car.cid objs) /\ Forall (fun o => good_cid (Car.cid o)) objs /\ NoDup (slots_of objs).

Theorem C01_objects epoch hdr objs ixs o :
  wf_car objs -> index_all epoch hdr objs = Some ixs -> In o objs ->
  get_node_by_cid ixs (car hdr objs) (Car.cid o) = Some (Car.data o).
Proof.
  intros [ND [Hg _]] Hix Hin. unfold index_all in Hix.
  destruct (scan _ (length hdr) objs) as [a|] eqn:Es; [|discriminate].
  destruct (ix_build (a_cids a)) as [c|] eqn:Ec; [|discriminate].
  destruct (ix_build (a_slots a)); [|discriminate]. destruct (ix_build (a_sigs a)); [|discriminate].
  destruct (sx_build (a_sx a)); [|discriminate]. destruct (bt_marshal epoch (a_bt a)); [|discriminate].
  inversion Hix; subst ixs; clear Hix.
  apply In_nth_error in Hin. destruct Hin as [idx Hi].
  destruct (scan_cids objs _ _ _ Es idx o Hi) as [offi [v [H1 [H2 H3]]]].
  unfold get_node_by_cid; cbn [i_cid]. rewrite (ix_found _ _ _ _ Ec H3).
  rewrite (dec_enc_os _ _ _ H2).
  destruct (Car.offsets_exact objs hdr idx o Hi) as [off' [Hx Hrd]].
  unfold Car.index_all in Hx. rewrite H1 in Hx. inversion Hx; subst off'.
  assert (Hpos : N.of_nat (seclen o) <> 0%N).
  { unfold Car.seclen, Car.section. rewrite !app_length.
    assert (0 < length (uvarint (N.of_nat (length (Car.cid o) + length (Car.data o))))).
    { unfold uvarint. cbn [uv_enc]. destruct (N.ltb _ _); cbn; lia. } lia. }
  apply N.eqb_neq in Hpos. rewrite Hpos. rewrite !Nat2N.id. rewrite Hrd.
  apply (Car.parse_section cid_parse good_cid cid_parse_ok); auto.
  - rewrite Forall_forall in Hg. apply Hg. eapply nth_error_In; eauto.
  - (* the section length fits: enc_os accepted it *)
    unfold enc_os in H2. destruct (N.leb (N.of_nat offi) max_u48); [|discriminate].
    destruct (N.leb (N.of_nat (seclen o)) max_u24) eqn:E2; [|discriminate]. apply N.leb_le in E2.
    unfold max_u24 in E2. unfold Car.seclen, Car.section in E2. rewrite !app_length in E2.
    assert ((2 ^ 24 < 2 ^ 64)%N) by (vm_compute; reflexivity). lia.
Qed.

Theorem C01_slots epoch hdr objs ixs o slot time :
  (epoch * epoch_len + epoch_len < 2 ^ 64)%N -> wf_car objs -> index_all epoch hdr objs = Some ixs -> In o objs -> is_block o slot time ->
  find_cid_from_slot ixs slot = Some (Car.cid o) /\ blocktime ixs slot = Some time.
Proof.
  intros Hep [_ [_ NDs]] Hix Hin Hb. unfold index_all in Hix.
  destruct (scan _ (length hdr) objs) as [a|] eqn:Es; [|discriminate].
  destruct (ix_build (a_cids a)); [|discriminate].
  destruct (ix_build (a_slots a)) as [s|] eqn:Esl; [|discriminate]. destruct (ix_build (a_sigs a)); [|discriminate].
  destruct (sx_build (a_sx a)); [|discriminate]. destruct (bt_marshal epoch (a_bt a)) as [b|] eqn:Eb; [|discriminate].
  inversion Hix; subst ixs; clear Hix. split.
  - unfold find_cid_from_slot; cbn [i_slot]. eapply ix_found; eauto. eapply scan_blocks; eauto.
  - unfold blocktime; cbn [i_bt].
    assert (Hget : bt_get (a_bt a) slot = Some time).
    { eapply scan_bt; eauto. unfold bt_ok, bt_new; cbn. rewrite repeat_length. unfold epoch_len. lia. }
    destruct (scan_bt_shape _ _ _ _ Es) as [S1 [S2 S3]]. cbn [a_bt bt_new bt_start bt_end bt_vals] in S1, S2, S3.
    rewrite repeat_length in S3.
    rewrite (bt_unmarshal_marshal epoch (a_bt a) b); [exact Hget| | | |exact Eb].
    + rewrite S1. unfold epoch_len in *. lia.
    + rewrite S2. unfold epoch_len in *. lia.
    + rewrite S3. unfold epoch_len. rewrite N2Nat.id. vm_compute. reflexivity.
Qed.

Theorem C01_sigs epoch hdr objs ixs o sg :
  index_all epoch hdr objs = Some ixs -> In o objs -> is_tx o sg ->
  find_cid_from_sig ixs sg = Some (Car.cid o) /\ sig_exists ixs sg = true.
Proof.
  intros Hix Hin Ht. unfold index_all in Hix.
  destruct (scan _ (length hdr) objs) as [a|] eqn:Es; [|discriminate].
  destruct (ix_build (a_cids a)); [|discriminate].
  destruct (ix_build (a_slots a)); [|discriminate]. destruct (ix_build (a_sigs a)) as [g|] eqn:Eg; [|discriminate].
  destruct (sx_build (a_sx a)) as [x|] eqn:Ex; [|discriminate]. destruct (bt_marshal epoch (a_bt a)); [|discriminate].
  inversion Hix; subst ixs; clear Hix.
  destruct (scan_txs objs _ _ _ Es o sg Hin Ht) as [A B]. split.
  - unfold find_cid_from_sig; cbn [i_sig]. eapply ix_found; eauto.
  - unfold sig_exists; cbn [i_sx]. eapply sx_complete; eauto.
Qed.

(* the recorded (offset, size) of every object is its true position: what the harness compares with the
   real cid-to-offset-and-size index *)
Theorem C01_recorded_offsets epoch hdr objs ixs idx o :
  index_all epoch hdr objs = Some ixs -> nth_error objs idx = Some o ->
  exists off v, nth_error (Car.index_all hdr objs) idx = Some (Car.cid o, off, seclen o) /\
                enc_os (N.of_nat off) (N.of_nat (seclen o)) = Some v /\
                ix_get (i_cid ixs) (Car.cid o) = Some v /\
                read_at (car hdr objs) off (seclen o) = Some (section o).
Proof.
  intros Hix Hi. unfold index_all in Hix.
  destruct (scan _ (length hdr) objs) as [a|] eqn:Es; [|discriminate].
  destruct (ix_build (a_cids a)) as [c|] eqn:Ec; [|discriminate].
  destruct (ix_build (a_slots a)); [|discriminate]. destruct (ix_build (a_sigs a)); [|discriminate].
  destruct (sx_build (a_sx a)); [|discriminate]. destruct (bt_marshal epoch (a_bt a)); [|discriminate].
  inversion Hix; subst ixs; clear Hix.
  destruct (scan_cids objs _ _ _ Es idx o Hi) as [offi [v [H1 [H2 H3]]]].
  destruct (Car.offsets_exact objs hdr idx o Hi) as [off' [Hx Hrd]].
  unfold Car.index_all in Hx. rewrite H1 in Hx. inversion Hx; subst off'.
  exists offi, v. repeat split; auto. cbn [i_cid]. eapply ix_found; eauto.
Qed.

End C01.
