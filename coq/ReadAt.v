From Coq Require Import List Arith Lia PeanoNat.
Import ListNotations.

Section R.
Context {A : Type}.

(* io.ReaderAt on an in-memory file: a short read is an error *)
Definition read_at (f : list A) (off len : nat) : option (list A) :=
  if off + len <=? length f then Some (firstn len (skipn off f)) else None.

Lemma read_at_length f off len bs : read_at f off len = Some bs -> length bs = len.
Proof.
  unfold read_at. destruct (off + len <=? length f) eqn:E; [|discriminate]. apply Nat.leb_le in E.
  intros H; inversion H; subst. rewrite firstn_length, skipn_length. lia.
Qed.

Lemma read_at_mid (a b c : list A) : read_at (a ++ b ++ c) (length a) (length b) = Some b.
Proof.
  unfold read_at. rewrite !app_length.
  replace (length a + length b <=? length a + (length b + length c)) with true
    by (symmetry; apply Nat.leb_le; lia).
  f_equal. rewrite skipn_app, skipn_all, Nat.sub_diag. cbn [skipn app].
  rewrite firstn_app, firstn_all, Nat.sub_diag. cbn. now rewrite app_nil_r.
Qed.

Lemma read_at_shift (a f : list A) off len :
  read_at (a ++ f) (length a + off) len = read_at f off len.
Proof.
  unfold read_at. rewrite app_length.
  replace (length a + off + len <=? length a + length f) with (off + len <=? length f).
  2:{ destruct (off + len <=? length f) eqn:E; symmetry.
      - apply Nat.leb_le in E. apply Nat.leb_le. lia.
      - apply Nat.leb_gt in E. apply Nat.leb_gt. lia. }
  destruct (off + len <=? length f); auto. f_equal. f_equal.
  rewrite skipn_app. rewrite skipn_all2 by lia. cbn [app]. f_equal. lia.
Qed.

Lemma read_at_prefix (f g : list A) off len bs :
  read_at f off len = Some bs -> read_at (f ++ g) off len = Some bs.
Proof.
  unfold read_at. destruct (off + len <=? length f) eqn:E; [|discriminate]. apply Nat.leb_le in E.
  intros H; inversion H; subst. rewrite app_length.
  replace (off + len <=? length f + length g) with true by (symmetry; apply Nat.leb_le; lia).
  f_equal. rewrite skipn_app, firstn_app. rewrite skipn_length.
  replace (len - (length f - off)) with 0 by lia. cbn. now rewrite app_nil_r.
Qed.

(* truncation only loses reads: the monotonicity used by C13 *)
Lemma read_at_trunc (f : list A) n off len bs :
  read_at (firstn n f) off len = Some bs -> read_at f off len = Some bs.
Proof.
  intros H. rewrite <- (firstn_skipn n f). now apply read_at_prefix.
Qed.

(* uniform records *)
Lemma read_at_concat_uniform (recs : list (list A)) stride i r :
  Forall (fun x => length x = stride) recs -> nth_error recs i = Some r ->
  read_at (concat recs) (i * stride) stride = Some r.
Proof.
  revert i; induction recs as [|x recs IH]; intros i HF Hn; [destruct i; discriminate|].
  inversion HF as [|? ? Hx HF']; subst. destruct i as [|i]; cbn [nth_error concat] in *.
  - inversion Hn; subst. cbn [Nat.mul]. 
    replace (r ++ concat recs) with ([] ++ r ++ concat recs) by reflexivity.
    apply (read_at_mid [] r (concat recs)).
  - replace (S i * length x) with (length x + i * length x) by lia. rewrite read_at_shift. apply IH; auto.
Qed.

End R.
