From Coq Require Import List Arith Lia Bool PeanoNat NArith Permutation.
Import ListNotations.
Require Import FS.

Section P.
Variable jobs : list outcome.
Variable limit : nat.
Notation n := (length jobs).
Notation step := (step jobs limit).

(* simple safety invariant: whatever is in the channel was produced by some job *)
Definition chan_ok (s : state) : Prop := Forall (fun o => In o jobs) (chan s).

Lemma step_chan_ok s c s' : chan_ok s -> step s c = Some s' -> chan_ok s'.
Proof.
  unfold chan_ok, FS.step. intros H. destruct (ret s); [discriminate|].
  destruct c as [|i| |].
  - destruct ((next s <? n) && slot_free limit s); [|discriminate]. intros E; inversion E; subst; auto.
  - destruct (existsb (Nat.eqb i) (running s)); [|discriminate].
    destruct (nth_error jobs i) as [o|] eqn:En; [|discriminate]. intros E; inversion E; subst; cbn.
    apply Forall_app; split; auto. constructor; auto. eapply nth_error_In; eauto.
  - destruct ((next s =? n) && _ && negb (closed s)); [|discriminate]. intros E; inversion E; subst; auto.
  - destruct (next s =? n); [|discriminate]. destruct (chan s) as [|[v|e] rest] eqn:Ec.
    + destruct (closed s); [|discriminate]. intros E; inversion E; subst; cbn; auto.
    + intros E; inversion E; subst; cbn. inversion H; auto.
    + intros E; inversion E; subst; cbn. inversion H; auto.
Qed.

(* C18 (no invented value): a success result is the value of a job that succeeded *)
Lemma step_ok_value s c s' v : chan_ok s -> ret s = None -> step s c = Some s' -> ret s' = Some (ROk v) -> In (Succ v) jobs.
Proof.
  unfold chan_ok, FS.step. intros H Hr. rewrite Hr. destruct c as [|i| |].
  - destruct ((next s <? n) && slot_free limit s); [|discriminate]. intros E; inversion E; subst; cbn; discriminate.
  - destruct (existsb (Nat.eqb i) (running s)); [|discriminate].
    destruct (nth_error jobs i); [|discriminate]. intros E; inversion E; subst; cbn; discriminate.
  - destruct ((next s =? n) && _ && negb (closed s)); [|discriminate]. intros E; inversion E; subst; cbn; discriminate.
  - destruct (next s =? n); [|discriminate]. destruct (chan s) as [|[v0|e] rest] eqn:Ec.
    + destruct (closed s); [|discriminate]. intros E; inversion E; subst; cbn; discriminate.
    + intros E; inversion E; subst; cbn. intros E2; inversion E2; subst. inversion H; auto.
    + intros E; inversion E; subst; cbn. destruct (length (errs s ++ [e]) =? n); discriminate.
Qed.

Lemma run_chan_ok cs : forall s s', chan_ok s -> run jobs limit s cs = Some s' -> chan_ok s'.
Proof.
  induction cs as [|c cs IH]; intros s s' H E; cbn in E.
  - inversion E; subst; auto.
  - destruct (step s c) as [s1|] eqn:Es; [|discriminate]. apply (IH s1 s'); auto. apply (step_chan_ok s c s1); auto.
Qed.

Lemma step_ret_final s c : ret s <> None -> step s c = None.
Proof. unfold FS.step. destruct (ret s); [reflexivity|congruence]. Qed.

Theorem result_is_a_job_success cs s v :
  run jobs limit init cs = Some s -> ret s = Some (ROk v) -> In (Succ v) jobs.
Proof.
  assert (G : forall cs s0 s, chan_ok s0 -> ret s0 = None -> run jobs limit s0 cs = Some s -> ret s = Some (ROk v) -> In (Succ v) jobs).
  { clear. induction cs as [|c cs IH]; intros s0 s H Hr E Hv; cbn in E.
    - inversion E; subst. congruence.
    - destruct (step s0 c) as [s1|] eqn:Es; [|discriminate].
      destruct (ret s1) as [r|] eqn:Er.
      + (* returned at this step: no further step possible *)
        destruct cs as [|c' cs']; cbn in E.
        * inversion E; subst. rewrite Er in Hv. inversion Hv; subst. eapply step_ok_value; eauto.
        * rewrite step_ret_final in E by congruence. discriminate.
      + apply (IH s1 s); auto. apply (step_chan_ok s0 c s1); auto. }
  intros E Hv. eapply (G cs init s); eauto. constructor.
Qed.

(* Deadlock freedom needs: running jobs are launched jobs (indices < n) *)
Definition running_ok (s : state) : Prop := Forall (fun i => i < n) (running s) /\ next s <= n.

Lemma in_remove_nat x i l : In x (remove_nat i l) -> In x l.
Proof. induction l as [|y l IH]; cbn; auto. destruct (Nat.eqb i y); cbn; intuition. Qed.

Lemma step_running_ok s c s' : running_ok s -> step s c = Some s' -> running_ok s'.
Proof.
  unfold running_ok, FS.step. intros [H Hn]. destruct (ret s); [discriminate|].
  destruct c as [|i| |].
  - destruct (next s <? n) eqn:E1; cbn [andb]; [|discriminate]. apply Nat.ltb_lt in E1.
    destruct (slot_free limit s); [|discriminate]. intros E; inversion E; subst; cbn. split; [|lia].
    apply Forall_app; split; auto.
  - destruct (existsb (Nat.eqb i) (running s)); [|discriminate].
    destruct (nth_error jobs i); [|discriminate]. intros E; inversion E; subst; cbn. split; auto.
    rewrite Forall_forall in *. intros x Hx. apply H. eapply in_remove_nat; eauto.
  - destruct ((next s =? n) && _ && negb (closed s)); [|discriminate]. intros E; inversion E; subst; auto.
  - destruct (next s =? n); [|discriminate]. destruct (chan s) as [|[v|e] rest].
    + destruct (closed s); [|discriminate]. intros E; inversion E; subst; auto.
    + intros E; inversion E; subst; auto.
    + intros E; inversion E; subst; auto.
Qed.

(* C18 (always terminates / never stuck): while FirstSuccess has not returned, some thread can move *)
Theorem progress s : running_ok s -> ret s = None -> exists c s', step s c = Some s'.
Proof.
  intros [Hr Hn] Hret. unfold FS.step. rewrite Hret.
  destruct (running s) as [|i rest] eqn:Erun.
  - destruct (Nat.eq_dec (next s) n) as [E|E].
    + (* everything launched and finished *)
      destruct (chan s) as [|[v|e] r] eqn:Ec.
      * destruct (closed s) eqn:Ecl.
        -- exists Recv. rewrite E, Nat.eqb_refl. eauto.
        -- exists CloseCh. rewrite E, Nat.eqb_refl. cbn. eauto.
      * exists Recv. rewrite E, Nat.eqb_refl. eauto.
      * exists Recv. rewrite E, Nat.eqb_refl. eauto.
    + exists Launch. replace (next s <? n) with true by (symmetry; apply Nat.ltb_lt; lia).
      unfold slot_free. rewrite Erun. cbn [length]. destruct limit; cbn; eauto.
  - (* some job is running: it can always finish (the channel is never full) *)
    exists (Finish i). cbn [existsb]. rewrite Nat.eqb_refl. cbn [orb].
    inversion Hr as [|? ? Hi _]; subst. destruct (nth_error jobs i) as [o|] eqn:En; eauto.
    apply nth_error_None in En. lia.
Qed.

(* every step strictly decreases a measure, so every schedule is finite *)
Definition measure (s : state) : nat :=
  match ret s with Some _ => 0 | None =>
    3 * (n - next s) + 2 * length (running s) + length (chan s) + (if closed s then 0 else 1) + 1 end.

Lemma length_remove_nat i l : existsb (Nat.eqb i) l = true -> S (length (remove_nat i l)) = length l.
Proof.
  induction l as [|y l IH]; cbn; [discriminate|]. destruct (Nat.eqb i y); cbn; auto.
Qed.

Theorem step_decreases s c s' : next s <= n -> step s c = Some s' -> measure s' < measure s.
Proof.
  unfold FS.step, measure. intros Hn. destruct (ret s); [discriminate|].
  destruct c as [|i| |].
  - destruct (next s <? n) eqn:E1; cbn [andb]; [|discriminate]. apply Nat.ltb_lt in E1.
    destruct (slot_free limit s); [|discriminate]. intros E; inversion E; subst; cbn. rewrite app_length; cbn. lia.
  - destruct (existsb (Nat.eqb i) (running s)) eqn:Ex; [|discriminate].
    destruct (nth_error jobs i); [|discriminate]. intros E; inversion E; subst; cbn.
    rewrite app_length; cbn. pose proof (length_remove_nat i (running s) Ex). lia.
  - destruct (next s =? n); cbn [andb]; [|discriminate]. destruct (running s); cbn [andb]; [|discriminate].
    destruct (closed s); [discriminate|]. cbn. intros E; inversion E; subst; cbn. lia.
  - destruct (next s =? n); [|discriminate]. destruct (chan s) as [|[v|e] rest].
    + destruct (closed s); [|discriminate]. intros E; inversion E; subst; cbn; lia.
    + intros E; inversion E; subst; cbn; lia.
    + intros E; inversion E; subst; cbn. destruct (length (errs s ++ [e]) =? n); lia.
Qed.
End P.
Print Assumptions result_is_a_job_success.
Print Assumptions progress.
Print Assumptions step_decreases.
