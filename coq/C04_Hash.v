(* C04 — the concrete hash functions of the compact index, transcribed from compactindex.go:
     EntryHash64(prefix, key) = xxhash64( 32-byte block holding the little-endian prefix  ++  key )
     Header.BucketHash(key)   = xxhash64(key) reduced to [0, NumBuckets) without modulo bias:
                                u := Sum64(key); r := (-n) % n; for u < r { u = hashUint64(u) }; u % n
     hashUint64               = murmur3 finalizer
   xxhash64 itself is YF.XXH.xxh64 (agrees with cespare/xxhash on test vectors; re-checked by the harness on
   every run through the cross-read of Go-built files). The theorems of C04 hold for ANY hash and bucket function
   with bucket < NumBuckets; this file only provides the instance the correspondence runs. *)
From Coq Require Import List NArith Arith Lia.
Import ListNotations.
Require YF.XXH.
Require Import YF.Codec.
Close Scope N_scope.

Definition entry_hash (d : N) (key : list N) : N :=
  XXH.xxh64 (le_enc 4 d ++ repeat 0%N 28 ++ key).

Definition murmur (x : N) : N :=
  let x := N.lxor x (N.shiftr x 33) in
  let x := (x * 18397679294719823053 mod 18446744073709551616)%N in
  let x := N.lxor x (N.shiftr x 33) in
  let x := (x * 14181476777654086739 mod 18446744073709551616)%N in
  N.lxor x (N.shiftr x 33).

(* the rejection loop, on fuel (the Go loop has no bound; each round rejects with probability n / 2^64) *)
Fixpoint reject (fuel : nat) (u r : N) : N :=
  match fuel with O => u | S f => if N.ltb u r then reject f (murmur u) r else u end.

Definition bucket_of_go (nb : nat) (key : list N) : nat :=
  let n := N.of_nat nb in
  let r := ((18446744073709551616 - n) mod n)%N in
  N.to_nat ((reject 64 (XXH.xxh64 key) r) mod n)%N.

Lemma bucket_of_go_lt : forall nb k, 0 < nb -> bucket_of_go nb k < nb.
Proof.
  intros nb k H. unfold bucket_of_go.
  assert (Hn : (N.of_nat nb <> 0)%N) by lia.
  pose proof (N.mod_lt (reject 64 (XXH.xxh64 k) ((18446744073709551616 - N.of_nat nb) mod N.of_nat nb)%N) (N.of_nat nb) Hn).
  lia.
Qed.
