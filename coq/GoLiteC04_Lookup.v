(* C04 / C13 / C03 — (Bucket).Lookup of compactindexsized/query.go — the whole lookup of a key inside a bucket —
   translated from the Go source on every check (Generated/GoLiteLkC04.v): the key's hash, then searchEytzinger whose
   entry getter is b.loadEntry (WHAT is passed for the getter is recorded by the translator in the generated file:
   binding_Bucket_Lookup_getter), which reads one entry through the bucket's section reader and decodes it.
   For every index file (complete or cut anywhere), every bucket position, entry count, value size, hash domain and
   key, it IS the model's search (CI.search_get over CI.load_entry, the core of CI.lookup): the value of an entry
   carrying the key's hash, ErrNotFound, or the read error — never a value decoded from a short read. *)
From Coq Require Import List ZArith NArith String Bool Lia.
Import ListNotations.
Require Import YF.GoLite YF.GoLiteLemmas YF.CI YF.ReadAt YF.Codec.
Require Import YF.Generated.GoLiteLkC04.
Require YF.GoLiteC04_Proofs YF.GoLiteC04_Codec YF.GoLiteC04_Search YF.GoLiteC13_Load.
Local Open Scope string_scope.
Local Open Scope Z_scope.
Local Open Scope list_scope.

Definition zs (l : list N) : list Z := map Z.of_N l.
Definition ns (l : list Z) : list N := map Z.to_N l.
Lemma ns_zs l : ns (zs l) = l.
Proof. unfold ns, zs. rewrite map_map. rewrite <- (map_id l) at 2. apply map_ext. intros a. apply N2Z.id. Qed.
Lemma zlen_zs l : zlen (zs l) = Z.of_nat (List.length l).
Proof. unfold zlen, zs. rewrite map_length. reflexivity. Qed.
Lemma firstn_zs n l : firstn n (zs l) = zs (firstn n l).
Proof. unfold zs. apply firstn_map. Qed.
Lemma skipn_zs n l : skipn n (zs l) = zs (skipn n l).
Proof. unfold zs. apply skipn_map. Qed.

Section Lookup.
Variable hash : N -> list N -> N.             (* EntryHash64(domain, key) *)
Hypothesis hash_u64 : forall d k, (hash d k < 18446744073709551616)%N.

Variable file : list N.                       (* the index file, possibly cut *)
Variable off n vs : nat.                      (* the bucket: file offset of its entries, entry count, value size *)
Variable d : N.                               (* its hash domain *)
Hypothesis vs_range : (1 <= vs <= 252)%nat.
Hypothesis n_small : Z.of_nat n < 4294967296.
Definition stride : nat := 3 + vs.

(* the bucket's section reader: io.NewSectionReader(stream, FileOffset, NumEntries*Stride) over the file; a read that
   cannot be completed delivers what is there and an error *)
Definition section : list N := firstn (n * stride) (skipn off file).
Definition rd (o len : Z) : list Z * val :=
  let bs := firstn (Z.to_nat len) (skipn (Z.to_nat o) section) in
  (zs bs, if (List.length bs =? Z.to_nat len)%nat then VNil else VErr "read").

Lemma rd_len o len : 0 <= len -> zlen (fst (rd o len)) <= len.
Proof. intros H. unfold rd. cbn [fst]. rewrite zlen_zs. rewrite firstn_length. lia. Qed.

(* the bucket handle as the Go struct nest *)
Definition bv (rest : list (string * val)) (entries : val) : val :=
  GoLiteC13_Load.bucket_val 3 (Z.of_nat stride) (Z.of_nat vs)
    (("HashDomain", VInt (Z.of_N d)) :: ("NumEntries", VInt (Z.of_nat n)) :: rest) entries.

Definition to_oracle (r : GoLite.res) : option val := match r with GoLite.RRet v => Some v | _ => None end.

(* the oracle of the translated Lookup: EntryHash64 is the hash; the getter IS the translated loadEntry run over the
   section reader *)
Definition ext_lk (rest : list (string * val)) (entries : val) : string -> list val -> option val := fun f args =>
  match f, args with
  | "EntryHash64", [VInt dd; VInts k] => Some (VInt (Z.of_N (hash (Z.to_N dd) (ns k))))
  | "getter", [VInt i] =>
      to_oracle (call GoLiteLkC04.prog (GoLiteC13_Load.ext_sr rd) 2 "Bucket.loadEntry" [bv rest entries; VInt i])
  | _, _ => None
  end.

Lemma same_loadEntry : GoLiteLkC04.fn_Bucket_loadEntry = GoLiteC13.fn_Bucket_loadEntry /\
                       GoLiteLkC04.fn_BucketDescriptor_unmarshalEntry = GoLiteC13.fn_BucketDescriptor_unmarshalEntry /\
                       GoLiteLkC04.fn_uintLe = GoLiteC13.fn_uintLe.
Proof. repeat split; reflexivity. Qed.

Lemma skipn_skipn' {A} (a b : nat) (l : list A) : skipn a (skipn b l) = skipn (b + a) l.
Proof. revert l; induction b as [|b IH]; intros l; [reflexivity|]. destruct l; [destruct a; reflexivity|]. cbn. apply IH. Qed.

(* the stride bytes the section reader delivers for entry i are the file's bytes at off + i*stride (as many as exist) *)
Lemma entry_bytes i : (i < n)%nat ->
  firstn stride (skipn (i * stride) section) = firstn stride (skipn (off + i * stride) file).
Proof.
  intros Hi. unfold section.
  rewrite skipn_firstn_comm. rewrite firstn_firstn. rewrite skipn_skipn'.
  rewrite Nat.min_l by nia. reflexivity.
Qed.

Lemma slice_zs_head (b : list N) k : (k <= List.length b)%nat -> slice_z (zs b) 0 (Z.of_nat k) = zs (firstn k b).
Proof. intros H. unfold slice_z. cbn [Z.to_nat skipn]. rewrite Z.sub_0_r, Nat2Z.id. apply firstn_zs. Qed.

Lemma slice_zs_tail (b : list N) k m : List.length b = (k + m)%nat ->
  slice_z (zs b) (Z.of_nat k) (Z.of_nat k + Z.of_nat m) = zs (skipn k b).
Proof.
  intros H. unfold slice_z. rewrite Nat2Z.id. replace (Z.of_nat k + Z.of_nat m - Z.of_nat k) with (Z.of_nat m) by lia.
  rewrite Nat2Z.id. rewrite skipn_zs. rewrite firstn_zs. f_equal. apply firstn_all2. rewrite skipn_length. lia.
Qed.

Variable rest : list (string * val).
Variable entries : val.

(* the getter oracle (the translated loadEntry over the section reader) answers as the model's load_entry *)
Lemma getter_is_load_entry i : (i < n)%nat ->
  ext_lk rest entries "getter" [VInt (Z.of_nat i)] =
  GoLiteC04_Search.ext_get (load_entry vs file off) "getter" [VInt (Z.of_nat i)].
Proof.
  intros Hi. unfold ext_lk, GoLiteC04_Search.ext_get. rewrite Nat2Z.id.
  destruct same_loadEntry as (E1 & E2 & E3).
  unfold bv.
  rewrite (GoLiteC13_Load.loadEntry_spec GoLiteLkC04.prog
             (eq_trans GoLiteLkC04.prog_uintLe (f_equal Some E3))
             (eq_trans GoLiteLkC04.prog_BucketDescriptor_unmarshalEntry (f_equal Some E2))
             (eq_trans GoLiteLkC04.prog_Bucket_loadEntry (f_equal Some E1))
             rd rd_len 2 3 (Z.of_nat stride) (Z.of_nat vs)) by (unfold stride in *; try lia; nia).
  unfold rd. rewrite zlen_zs.
  replace (Z.to_nat (Z.of_nat i * Z.of_nat stride)) with (i * stride)%nat by nia.
  rewrite Nat2Z.id. rewrite (entry_bytes i Hi).
  unfold load_entry, read_at. change (CI.stride vs) with stride.
  set (B := firstn stride (skipn (off + i * stride) file)).
  assert (HB : List.length B = Nat.min stride (List.length file - (off + i * stride))).
  { unfold B. rewrite firstn_length, skipn_length. reflexivity. }
  destruct (Nat.leb_spec (off + i * stride + stride) (List.length file)) as [Hfit|Hcut].
  - assert (HlB : List.length B = stride) by (rewrite HB; apply Nat.min_l; lia).
    rewrite HlB. rewrite Z.eqb_refl. cbn [to_oracle].
    unfold GoLiteC13_Load.entry_val, GoLiteC04_Search.entry_val. cbn [fst snd].
    change 3 with (Z.of_nat 3) at 1 2 3.
    rewrite (slice_zs_head B 3) by (unfold stride in HlB; lia).
    rewrite (slice_zs_tail B 3 vs) by (unfold stride in HlB; lia).
    rewrite firstn_all2 by (unfold zs; rewrite map_length, firstn_length; lia).
    rewrite GoLiteC04_Codec.le_value_zs. reflexivity.
  - assert (HlB : (List.length B < stride)%nat).
    { assert (0 < stride)%nat by (unfold stride; lia). rewrite HB. apply Nat.min_lt_iff. right. lia. }
    destruct (Z.eqb_spec (Z.of_nat (List.length B)) (Z.of_nat stride)) as [Heq|_]; [lia|].
    destruct (Nat.eqb_spec (List.length B) stride) as [Heq|_]; [lia|].
    reflexivity.
Qed.

(* Lookup IS the model's search over the model's entry loader *)
Theorem Lookup_is_search (key : list N) f : (n + 1 < f)%nat ->
  call GoLiteLkC04.prog (ext_lk rest entries) f "Bucket.Lookup" [bv rest entries; VInts (zs key)] =
  GoLiteC04_Search.enc (search_get (f - 1) (load_entry vs file off) n (hash d key mod 16777216)%N 0).
Proof.
  intros Hf. destruct f as [|f]; [lia|]. replace (S f - 1)%nat with f by lia.
  unfold call. rewrite GoLiteLkC04.prog_Bucket_Lookup. unfold GoLiteLkC04.fn_Bucket_Lookup, bv, GoLiteC13_Load.bucket_val, GoLiteC13_Load.desc_val.
  cbn [f_params f_body bind_params]. go_run.
  (* the hash *)
  rewrite exec_call_S. go_cbn.
  pose proof (GoLiteC04_Codec.BucketHeader_Hash_is_mod_ext' GoLiteLkC04.prog GoLiteLkC04.prog_BucketHeader_Hash
                (fun dd k => hash (Z.to_N dd) (ns k)) (fun dd k => hash_u64 _ _)
                (ext_lk rest entries) f (Z.of_N d) (Z.of_nat n) 3 (zs key) rest
                (fun dd k => eq_refl) ltac:(lia) ltac:(lia)) as HH.
  unfold call in HH. rewrite GoLiteLkC04.prog_BucketHeader_Hash in HH.
  cbn [f_params bind_params GoLiteLkC04.fn_BucketHeader_Hash] in HH.
  rewrite GoLiteLkC04.prog_BucketHeader_Hash.
  cbn [f_params bind_params GoLiteLkC04.fn_BucketHeader_Hash].
  change (Z.of_N 3) with 3 in HH.
  destruct (exec GoLiteLkC04.prog (ext_lk rest entries) f (f_body GoLiteLkC04.fn_BucketHeader_Hash)
              [("b", VStruct (("HashLen", VInt 3) :: ("HashDomain", VInt (Z.of_N d)) :: ("NumEntries", VInt (Z.of_nat n)) :: rest));
               ("key", VInts (zs key))]) eqn:Hx; try discriminate HH.
  injection HH as ->. go_run.
  rewrite N2Z.id. rewrite ns_zs. change (N.pos (256 ^ 3)) with 16777216%N.
  rewrite (wrap_i64_small (Z.of_nat n)) by lia.
  (* the search *)
  rewrite exec_call_S. go_cbn.
  pose proof (GoLiteC04_Search.searchEytzinger_is_search_get_ext GoLiteLkC04.prog GoLiteLkC04.prog_searchEytzinger
                (load_entry vs file off) (ext_lk rest entries) n getter_is_load_entry
                f n (hash d key mod 16777216)%N ltac:(lia) ltac:(lia) (le_n n)) as HS.
  unfold call in HS. rewrite GoLiteLkC04.prog_searchEytzinger in HS.
  cbn [f_params bind_params GoLiteLkC04.fn_searchEytzinger] in HS.
  rewrite GoLiteLkC04.prog_searchEytzinger.
  cbn [f_params bind_params GoLiteLkC04.fn_searchEytzinger].
  destruct (exec GoLiteLkC04.prog (ext_lk rest entries) f (f_body GoLiteLkC04.fn_searchEytzinger)
              [("min", VInt 0); ("max", VInt (Z.of_nat n)); ("x", VInt (Z.of_N (hash d key mod 16777216)))]) eqn:Hy;
    destruct (search_get f (load_entry vs file off) n (hash d key mod 16777216)%N 0) eqn:Hs;
    cbn [GoLiteC04_Search.enc] in HS |- *; try discriminate HS; injection HS as ->; go_run; reflexivity.
Qed.

End Lookup.
