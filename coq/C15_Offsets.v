(* C15 — the accumulator over a real CAR (layout of Car.v): every delivered object carries the
   offset and the section length at which its section really sits in the file. *)
From Coq Require Import List Arith Lia Bool PeanoNat NArith.
Import ListNotations.
Require Import Codec ReadAt Car C15_Accum.

(* sectionLength as NextNodeBytes returns it: number of varint bytes + value of the varint *)
Definition slenN (o : obj) : N := N.of_nat (seclen o).

(* Kind(data[1]): second byte of the CBOR payload ([kind, ...] tuples: 0x8n, kind) *)
Definition kind_byte (o : obj) : N := nth 1 (data o) 0%N.

Definition proj_item (it : item obj) : list N * nat * nat :=
  (cid (it_obj it), N.to_nat (it_off it), N.to_nat (it_len it)).

(* the offsets of [items] are those of Car.index_from (cmd-x-index-all's running offset) *)
Lemma items_index objs : forall base,
  map proj_item (items obj slenN (N.of_nat base) objs) = index_from base objs.
Proof.
  induction objs as [|o r IH]; intros base; cbn [items map index_from]; [reflexivity|].
  unfold proj_item at 1. cbn [it_obj it_off it_len]. change (slenN o) with (N.of_nat (seclen o)).
  rewrite !Nat2N.id. f_equal.
  change (slenN o) with (N.of_nat (seclen o)). rewrite <- Nat2N.inj_add. apply IH.
Qed.

Lemma items_objs objs : forall base, map (@it_obj obj) (items obj slenN base objs) = objs.
Proof. induction objs as [|o r IH]; intros base; cbn; [reflexivity|]. now rewrite IH. Qed.

Lemma items_len objs : forall base it, In it (items obj slenN base objs) -> it_len it = slenN (it_obj it).
Proof.
  induction objs as [|o r IH]; intros base it H; cbn in H; [tauto|].
  destruct H as [<-|H]; [reflexivity|eauto].
Qed.

Theorem item_reads_back hdr objs it :
  In it (items obj slenN (N.of_nat (length hdr)) objs) ->
  read_at (car hdr objs) (N.to_nat (it_off it)) (N.to_nat (it_len it)) = Some (section (it_obj it)).
Proof.
  intros Hin. destruct (In_nth_error _ _ Hin) as [i Hi].
  assert (Ho : nth_error objs i = Some (it_obj it)).
  { rewrite <- (items_objs objs (N.of_nat (length hdr))). now apply map_nth_error. }
  destruct (offsets_exact objs hdr i (it_obj it) Ho) as [off' [Hix Hrd]].
  unfold index_all in Hix. rewrite <- items_index in Hix.
  rewrite (map_nth_error proj_item i _ Hi) in Hix. unfold proj_item in Hix.
  inversion Hix as [[Hoff Hlen]]. rewrite Hlen, Hoff. exact Hrd.
Qed.

(* C15_offsets: whatever has been delivered so far, under any schedule, any kind function, flush kind,
   ignore set, skip count and queue capacity *)
Theorem delivered_offsets (kind : obj -> N) fk ign cap nskip hdr objs cs s g it :
  run obj slenN kind fk ign cap (init obj (N.of_nat (length hdr)) nskip objs) cs = Some s ->
  In g (delivered s) -> In it (flat g) ->
  read_at (car hdr objs) (N.to_nat (it_off it)) (N.to_nat (it_len it)) = Some (section (it_obj it)).
Proof.
  intros Hr Hg Hit.
  destruct (delivered_prefix obj slenN kind fk ign cap _ _ _ _ _ Hr) as [rest Hp].
  apply item_reads_back.
  eapply (spec_items_in obj slenN kind fk ign); [|exact Hit].
  rewrite Hp. apply in_or_app. left. exact Hg.
Qed.

(* the delivered SectionLength is the length of the section: uvarint(len) ++ cid ++ data *)
Theorem delivered_length (kind : obj -> N) fk ign cap nskip (hdr : list N) objs cs s g it :
  run obj slenN kind fk ign cap (init obj (N.of_nat (length hdr)) nskip objs) cs = Some s ->
  In g (delivered s) -> In it (flat g) ->
  N.to_nat (it_len it) = length (section (it_obj it)).
Proof.
  intros Hr Hg Hit.
  destruct (delivered_prefix obj slenN kind fk ign cap _ _ _ _ _ Hr) as [rest Hp].
  assert (H : In it (items obj slenN (N.of_nat (length hdr)) objs)).
  { eapply (spec_items_in obj slenN kind fk ign); [|exact Hit]. rewrite Hp. apply in_or_app. now left. }
  rewrite (items_len _ _ _ H). unfold slenN, seclen. apply Nat2N.id.
Qed.

(* with payloads below 2^64 bytes the first bytes of the section are the uvarint of len(cid)+len(data),
   i.e. SectionLength = (number of varint bytes) + len(cid) + len(data), what the Go reader adds up *)
Lemma seclen_split (o : obj) :
  seclen o = length (uvarint (N.of_nat (length (cid o) + length (data o)))) + (length (cid o) + length (data o)).
Proof. unfold seclen, section. now rewrite !app_length. Qed.
