(* C06 — executable checkers run by bin/check on the observations written by the harness
   (harness/gsfa/c06_test.go, harness/gsfa/linkedlog/c06ll_test.go). They run the model functions the
   theorems of Properties/C06.v are about: gsfa_pos / pos_get, gsfa_bytes / byte_get, bget, read_with_size. *)
From Coq Require Import List NArith Lia Arith Bool PeanoNat.
Import ListNotations.
Require Import Gsfa C06_LinkedLog C06_Machine C06_Store C06_Front C06_Gsfa.
Local Close Scope N_scope.
Local Open Scope nat_scope.

(* ---------- equality tests ---------- *)
Fixpoint list_eqb {A} (eqb : A -> A -> bool) (a b : list A) : bool :=
  match a, b with
  | [], [] => true
  | x :: a', y :: b' => eqb x y && list_eqb eqb a' b'
  | _, _ => false
  end.
Definition opt_eqb {A} (eqb : A -> A -> bool) (a b : option A) : bool :=
  match a, b with Some x, Some y => eqb x y | None, None => true | _, _ => false end.
Definition entry_eqb (a b : entry) : bool :=
  let '(o1, s1, l1, f1) := a in let '(o2, s2, l2, f2) := b in
  (o1 =? o2)%N && (s1 =? s2)%N && (l1 =? l2)%N && (f1 =? f2)%N.
Definition ptr_eqb (a b : ptr) : bool := (fst a =? fst b)%N && (snd a =? snd b)%N.

Lemma list_eqb_eq {A} (eqb : A -> A -> bool) : (forall x y, eqb x y = true -> x = y) ->
  forall a b, list_eqb eqb a b = true -> a = b.
Proof.
  intros H a. induction a as [|x a IH]; intros [|y b] E; cbn in E; try discriminate; auto.
  apply andb_true_iff in E. destruct E as [E1 E2]. f_equal; auto.
Qed.
Lemma entry_eqb_eq a b : entry_eqb a b = true -> a = b.
Proof.
  destruct a as [[[o1 s1] l1] f1], b as [[[o2 s2] l2] f2]. cbn. intros E.
  repeat (apply andb_true_iff in E; destruct E as [E ?]).
  repeat match goal with H : (_ =? _)%N = true |- _ => apply N.eqb_eq in H end. congruence.
Qed.

(* ---------- parameters and schedules ---------- *)
(* (itemsPerBatch, parked capacity, channel capacity, flush-every, flush-min-keys, flush-small, rank size);
   the model follows the repaired writer: periodic flush through the channel *)
Definition prm_t := (N * N * N * N * N * N * N)%type.
Definition prm_of (t : prm_t) : params :=
  let '(b, p, c, fe, fm, fs, r) := t in
  Prm (N.to_nat b) (N.to_nat p) (N.to_nat c) fe fm fs (N.to_nat r) true.

(* two very different timings of the background goroutine (the theorem says the answer cannot depend on it):
   lazy  = it does not run at all before Close;
   eager = before every step of Push it finishes its writes, receives once, and writes again *)
Definition sched_lazy : sched := [].
Definition bg_unit (p : nat) : list bop := repeat BWrite p ++ [BRecv] ++ repeat BWrite p.
Definition sched_eager (p n : nat) : sched := repeat (bg_unit p ++ bg_unit p) n.
(* slow = one receive and one write per step: batches pile up in the channel and in the write queue *)
Definition sched_slow (n : nat) : sched := repeat [BRecv; BWrite] n.

Definition keys_of (l : list N) : list nat := map N.to_nat l.

Section Generic.
Variable E : Type.
Variable eqb : E -> E -> bool.

Definition hist_of (h : list (N * list N * E)) : list (push E) :=
  map (fun x => let '(slot, ks, e) := x in Push E slot (keys_of ks) e) h.

Definition nops (h : list (N * list N * E)) : nat :=
  fold_right (fun x n => let '(_, ks, _) := x in length ks + n + 1) 8 h.

(* model answers under a schedule, compared with the observations (None = Get failed) *)
Definition pos_agrees (prm : params) (h : list (push E)) (sc : sched) (obs : list (N * option (list E))) : bool :=
  let fin := gsfa_pos E prm h sc in
  forallb (fun o => opt_eqb (list_eqb eqb) (snd o) (Some (pos_get E fin (N.to_nat (fst o))))) obs.

(* every address of the history was looked up *)
Definition covers (h : list (push E)) (obs : list (N * option (list E))) : bool :=
  forallb (fun k => existsb (fun o => N.to_nat (fst o) =? k) obs) (addresses E h).
End Generic.

(* ---------- small cases: entries with all four fields; position level, byte level, cross-read ---------- *)
Definition xread := (list N * list (list N * list N) * list (N * (N * N)))%type.
Definition scase := (prm_t * list (N * list N * entry) * list (N * option (list entry)) * option xread)%type.

Definition heads_of (l : list (N * (N * N))) (k : nat) : option ptr :=
  match find (fun x => N.to_nat (fst x) =? k) l with Some x => Some (snd x) | None => None end.

Definition bytes_agree (prm : params) (h : list (push entry)) (sc : sched) (obs : list (N * option (list entry))) : bool :=
  let fin := gsfa_bytes id_compress prm h sc in
  let fuel := S (length (b_file (m_store _ _ fin))) in
  forallb (fun o => opt_eqb (list_eqb entry_eqb) (snd o) (byte_get id_decompress fuel fin (N.to_nat (fst o)))) obs.

(* the model's reader on the linked log and the heads that the implementation wrote (zstd given as a table) *)
Definition xread_agrees (x : xread) (obs : list (N * option (list entry))) : bool :=
  let '(file, tab, hds) := x in
  let bs := BS file (heads_of hds) in
  forallb (fun o => opt_eqb (list_eqb entry_eqb) (snd o) (bget (tab_decompress tab) (S (length file)) bs (N.to_nat (fst o)))) obs.

Definition scase_ok (c : scase) : bool :=
  let '(pt, h0, obs, xr) := c in
  let prm := prm_of pt in
  let h := hist_of entry h0 in
  let n := nops entry h0 in
  covers entry h obs &&
  pos_agrees entry entry_eqb prm h sched_lazy obs &&
  pos_agrees entry entry_eqb prm h (sched_eager (pP prm) n) obs &&
  bytes_agree prm h (sched_slow n) obs &&
  match xr with Some x => xread_agrees x obs | None => true end.

Fixpoint bad_from {A} (ok : A -> bool) (i : nat) (cs : list A) : list nat :=
  match cs with [] => [] | c :: t => if ok c then bad_from ok (S i) t else i :: bad_from ok (S i) t end.
Definition check_small (cs : list scase) : list nat := bad_from scase_ok 0 cs.

(* ---------- big cases: an entry is the number of its push; position level ---------- *)
(* run-length encoded: history = runs (count, slot, keys) of consecutive pushes, push numbers consecutive from 1;
   an observed list = ranges (from, to) of consecutive push numbers, descending or ascending *)
Definition bcase := (prm_t * list (N * N * list N) * list (N * option (list (N * N))))%type.

Fixpoint run_pushes (n : nat) (id : N) (slot : N) (ks : list nat) : list (push N) :=
  match n with O => [] | S n' => Push N slot ks id :: run_pushes n' (id + 1)%N slot ks end.
Fixpoint expand_hist (id : N) (runs : list (N * N * list N)) : list (push N) :=
  match runs with
  | [] => []
  | (cnt, slot, ks) :: t => run_pushes (N.to_nat cnt) id slot (keys_of ks) ++ expand_hist (id + cnt)%N t
  end.
Fixpoint down_from (n : nat) (a : N) : list N := match n with O => [] | S n' => a :: down_from n' (a - 1)%N end.
Fixpoint up_from (n : nat) (a : N) : list N := match n with O => [] | S n' => a :: up_from n' (a + 1)%N end.
Definition expand_range (r : N * N) : list N :=
  let '(a, b) := r in
  if (b <=? a)%N then down_from (S (N.to_nat (a - b))) a else up_from (S (N.to_nat (b - a))) a.
Definition expand_obs (obs : list (N * option (list (N * N)))) : list (N * option (list N)) :=
  map (fun o => (fst o, match snd o with Some rs => Some (flat_map expand_range rs) | None => None end)) obs.

Definition bcase_ok (c : bcase) : bool :=
  let '(pt, runs, obs0) := c in
  let prm := prm_of pt in
  let h := expand_hist 1%N runs in
  let obs := expand_obs obs0 in
  covers N h obs &&
  pos_agrees N N.eqb prm h sched_lazy obs &&
  pos_agrees N N.eqb prm h (sched_slow (length h * 2 + 8)) obs.
Definition check_big (cs : list bcase) : list nat := bad_from bcase_ok 0 cs.

(* ---------- linked-log codec cases ---------- *)
(* file written by LinkedLog.Put, (offset,size) reported by Put, zstd table, expected (entries newest first,
   previous pointer), what ReadWithSize returned (None = error) *)
(* zstd table: (position, length) of the compressed bytes inside the file, and what they decompress to *)
Definition llcase := (list N * N * N * list (N * N * list N) * (list entry * ptr) * option (list entry * ptr))%type.
Definition ll_table (file : list N) (t : list (N * N * list N)) : list (list N * list N) :=
  map (fun x => let '(zoff, zlen, raw) := x in (firstn (N.to_nat zlen) (skipn (N.to_nat zoff) file), raw)) t.
Definition res_eq (a b : option (list entry * ptr)) : bool :=
  opt_eqb (fun x y => list_eqb entry_eqb (fst x) (fst y) && ptr_eqb (snd x) (snd y)) a b.
Definition llcase_ok (c : llcase) : bool :=
  let '(file, off, size, tab, expected, observed) := c in
  res_eq (read_with_size (tab_decompress (ll_table file tab)) file off size) (Some expected) &&
  res_eq observed (Some expected).
Definition check_ll (cs : list llcase) : list nat := bad_from llcase_ok 0 cs.

(* the checker is sound for the property: an accepted case's observations are the expected answers *)
Lemma pos_agrees_sound (prm : params) h sc obs : pVia prm = true ->
  pos_agrees entry entry_eqb prm h sc obs = true ->
  forall k l, In (k, l) obs -> l = Some (rev (entries_for entry (N.to_nat k) h)).
Proof.
  intros Hv H k l Hin. unfold pos_agrees in H. rewrite forallb_forall in H. specialize (H _ Hin). cbn [fst snd] in H.
  rewrite pos_get_all in H by exact Hv. destruct l as [l|]; [|discriminate]. cbn in H. f_equal.
  apply (list_eqb_eq entry_eqb entry_eqb_eq). exact H.
Qed.

(* self-test *)
Example check_small_selftest :
  check_small
    [ ((2, 2, 2, 2, 1, 100, 10000)%N,
       [(1%N, [1%N], (1037, 101, 1, 1)%N); (1%N, [1%N], (1074, 102, 1, 2)%N); (1%N, [1%N; 1%N], (1111, 103, 1, 3)%N)],
       [(1%N, Some [(1111, 103, 1, 3)%N; (1074, 102, 1, 2)%N; (1037, 101, 1, 1)%N])], None);
      ((2, 2, 2, 2, 1, 100, 10000)%N,
       [(1%N, [1%N], (1037, 101, 1, 1)%N); (1%N, [1%N], (1074, 102, 1, 2)%N); (1%N, [1%N], (1111, 103, 1, 3)%N)],
       [(1%N, Some [(1111, 103, 1, 3)%N])], None) ] = [1].
Proof. vm_compute. reflexivity. Qed.
