(* GoLite — a small imperative fragment of Go, deeply embedded, with an executable semantics.

   gen/golite.go translates selected functions of /repo (integer arithmetic, byte slices, loops, early returns,
   calls among translated functions, calls of function-valued parameters and of a few external functions) into terms
   of [fdecl] on every check.  The translator is a syntax-directed printer: every semantic decision of Go that the
   properties depend on is made HERE and can be read here:
     - fixed-width integers: every arithmetic result is wrapped to the static type of the Go expression
       ([wrap]); unsigned types wrap modulo 2^w, signed ones in two's complement;
     - division and remainder truncate toward zero and PANIC on a zero divisor; a negative shift count panics,
       an over-wide shift gives 0 (or the sign);
     - indexing and slicing outside [0, len] PANIC (capacity is identified with length: a re-slice beyond the
       length but inside the capacity, legal in Go, is a panic here — the semantics errs on the side of panics);
     - && and || are evaluated left to right and stop early;
     - slices are VALUES here.  Go slices alias their backing array; the translator only accepts functions
       whose writes through slice parameters it can return as extra results (out-parameters), and rejects others.
   [RStuck] marks dynamic type errors / unbound names (never reached by a translated program that type-checked);
   [RFuel] marks an exhausted iteration budget; theorems exclude both explicitly. *)
From Coq Require Import List ZArith String Bool Lia.
Import ListNotations.
Local Open Scope string_scope.
Local Open Scope Z_scope.

Inductive ity := U8 | U16 | U32 | U64 | I8 | I16 | I32 | I64.

Definition width (t : ity) : Z :=
  match t with U8 | I8 => 8 | U16 | I16 => 16 | U32 | I32 => 32 | U64 | I64 => 64 end.
Definition signed (t : ity) : bool :=
  match t with I8 | I16 | I32 | I64 => true | _ => false end.
Definition wrap (t : ity) (z : Z) : Z :=
  if signed t then (z + 2 ^ (width t - 1)) mod 2 ^ width t - 2 ^ (width t - 1)
  else z mod 2 ^ width t.
Definition in_range (t : ity) (z : Z) : Prop :=
  if signed t then - 2 ^ (width t - 1) <= z < 2 ^ (width t - 1) else 0 <= z < 2 ^ width t.

Inductive val :=
| VInt (z : Z)
| VBool (b : bool)
| VInts (l : list Z)                 (* []byte, [N]byte, []uint64, ... : a slice or array of integers *)
| VTuple (l : list val)              (* multiple results *)
| VErr (name : string)               (* a non-nil error value, identified by the name of the package variable *)
| VNil                               (* nil error / nil pointer *)
| VStruct (fs : list (string * val)).

Inductive binop := OAdd | OSub | OMul | ODiv | ORem | OAnd | OOr | OXor | OAndNot.
Inductive cmpop := CEq | CNe | CLt | CLe | CGt | CGe.

Inductive expr :=
| EVar (x : string)
| EInt (z : Z)
| EBool (b : bool)
| ENilSlice                          (* nil of a slice type = the empty slice *)
| ENil                               (* nil of an error / pointer type *)
| EErr (name : string)
| EBin (o : binop) (t : ity) (a b : expr)
| EShl (t : ity) (a b : expr)
| EShr (t : ity) (a b : expr)
| ENeg (t : ity) (a : expr)
| ECompl (t : ity) (a : expr)
| ECmp (o : cmpop) (a b : expr)
| EAndAlso (a b : expr)
| EOrElse (a b : expr)
| ENot (a : expr)
| EConv (t : ity) (a : expr)
| ELen (a : expr)
| EIndex (a i : expr)
| ESlice (a : expr) (lo hi : option expr)
| EField (a : expr) (f : string)
| EIsNil (a : expr)                  (* a == nil, for errors / pointers *)
| EErrIs (a : expr) (name : string)  (* a == ErrX: the error value itself, not something that wraps it *)
| EErrorsIs (a : expr) (name : string) (* errors.Is(a, ErrX): sees through %w wrapping *)
| EWrap (a : expr)                   (* fmt.Errorf("...%w...", a): a new error that wraps a (its text is not modelled) *)
| ELenV (a : expr)                   (* len of a slice of struct values (a VTuple list) *)
| EIndexV (a i : expr)               (* its i-th element *)
| EStructLit (fs : list (string * expr))
| EBuiltin (f : string) (args : list expr).

Inductive lval :=
| LVar (x : string)
| LIgnore                            (* the blank identifier *)
| LIndex (x : string) (i : expr)
| LSlice (x : string) (lo hi : option expr)
| LField (x : string) (f : string).

Inductive stmt :=
| SSkip
| SSeq (a b : stmt)
| SAssign (l : lval) (e : expr)
| SMulti (ls : list lval) (e : expr)              (* a, b = <tuple-valued expression> *)
| SIf (c : expr) (a b : stmt)
| SFor (c : expr) (post body : stmt)
| SReturn (es : list expr)
| SBreak
| SContinue
| SPanic
| SCopy (dst : lval) (src : expr)                 (* copy(dst, src) *)
| SPutLE (n : nat) (dst : lval) (e : expr)        (* binary.LittleEndian.PutUint<8n>(dst, e) *)
| SPutBE (n : nat) (dst : lval) (e : expr)
| SCall (ls : list lval) (f : string) (args : list expr)      (* results of a translated function *)
| SCallExt (ls : list lval) (f : string) (args : list expr).  (* function-valued parameter / external function *)

Record fdecl := { f_params : list string; f_body : stmt }.
Definition program := list (string * fdecl).

(* ------------------------------------------------------------------ environments *)
Definition env := list (string * val).
Fixpoint lookup (x : string) (e : env) : option val :=
  match e with
  | [] => None
  | (y, v) :: t => if String.eqb x y then Some v else lookup x t
  end.
Fixpoint update (x : string) (v : val) (e : env) : env :=
  match e with
  | [] => [(x, v)]
  | (y, w) :: t => if String.eqb x y then (x, v) :: t else (y, w) :: update x v t
  end.
Fixpoint flookup (f : string) (fs : list (string * val)) : option val :=
  match fs with
  | [] => None
  | (g, v) :: t => if String.eqb f g then Some v else flookup f t
  end.
Fixpoint fupdate (f : string) (v : val) (fs : list (string * val)) : list (string * val) :=
  match fs with
  | [] => [(f, v)]
  | (g, w) :: t => if String.eqb f g then (f, v) :: t else (g, w) :: fupdate f v t
  end.
Fixpoint plookup (f : string) (p : program) : option fdecl :=
  match p with
  | [] => None
  | (g, d) :: t => if String.eqb f g then Some d else plookup f t
  end.

(* ------------------------------------------------------------------ expressions *)
(* error values are names; an error that wraps another one (fmt.Errorf with %w) is the wrapped name behind the marker
   "%w " — `==` compares the names, errors.Is the innermost wrapped name *)
Definition ch_pct : Ascii.ascii := Ascii.Ascii true false true false false true false false.      (* "%" *)
Definition ch_w : Ascii.ascii := Ascii.Ascii true true true false true true true false.            (* "w" *)
Definition ch_sp : Ascii.ascii := Ascii.Ascii false false false false false true false false.      (* " " *)
Definition err_wrap (m : string) : string := String ch_pct (String ch_w (String ch_sp m)).
Fixpoint err_root (m : string) : string :=
  match m with
  | String c1 (String c2 (String c3 r)) =>
      if (Ascii.eqb c1 ch_pct && Ascii.eqb c2 ch_w && Ascii.eqb c3 ch_sp)%bool then err_root r else m
  | _ => m
  end.

Inductive eres := EV (v : val) | EPanic | EStuck.

Definition ebind (r : eres) (k : val -> eres) : eres :=
  match r with EV v => k v | EPanic => EPanic | EStuck => EStuck end.
Definition as_int (v : val) (k : Z -> eres) : eres := match v with VInt z => k z | _ => EStuck end.
Definition as_bool (v : val) (k : bool -> eres) : eres := match v with VBool b => k b | _ => EStuck end.
Definition as_ints (v : val) (k : list Z -> eres) : eres := match v with VInts l => k l | _ => EStuck end.

Definition zlen (l : list Z) : Z := Z.of_nat (List.length l).
Definition nth_z (l : list Z) (i : Z) : Z := nth (Z.to_nat i) l 0.
Definition slice_z (l : list Z) (lo hi : Z) : list Z := firstn (Z.to_nat (hi - lo)) (skipn (Z.to_nat lo) l).
Fixpoint set_nth (l : list Z) (i : nat) (x : Z) : list Z :=
  match l, i with
  | [], _ => []
  | _ :: t, O => x :: t
  | h :: t, S j => h :: set_nth t j x
  end.
(* overwrite l from position lo with the elements of src (as far as both reach) *)
Fixpoint blit (l : list Z) (lo : nat) (src : list Z) : list Z :=
  match lo, l with
  | O, _ => match l, src with
            | _ :: t, s :: ss => s :: blit t O ss
            | _, _ => l
            end
  | S j, h :: t => h :: blit t j src
  | S _, [] => []
  end.

Fixpoint le_bytes (n : nat) (z : Z) : list Z :=
  match n with O => [] | S m => (z mod 256) :: le_bytes m (z / 256) end.
Fixpoint le_value (l : list Z) : Z :=
  match l with [] => 0 | b :: t => b + 256 * le_value t end.
Definition be_value (l : list Z) : Z := le_value (rev l).
Definition be_bytes (n : nat) (z : Z) : list Z := rev (le_bytes n z).

(* number of leading zero bits of a 64-bit value *)
Definition clz64 (z : Z) : Z := if z <=? 0 then 64 else 63 - Z.log2 z.

Definition arith (o : binop) (t : ity) (x y : Z) : eres :=
  match o with
  | OAdd => EV (VInt (wrap t (x + y)))
  | OSub => EV (VInt (wrap t (x - y)))
  | OMul => EV (VInt (wrap t (x * y)))
  | ODiv => if y =? 0 then EPanic else EV (VInt (wrap t (Z.quot x y)))
  | ORem => if y =? 0 then EPanic else EV (VInt (wrap t (Z.rem x y)))
  | OAnd => EV (VInt (wrap t (Z.land x y)))
  | OOr => EV (VInt (wrap t (Z.lor x y)))
  | OXor => EV (VInt (wrap t (Z.lxor x y)))
  | OAndNot => EV (VInt (wrap t (Z.ldiff x y)))
  end.
Definition compare (o : cmpop) (x y : Z) : bool :=
  match o with
  | CEq => x =? y | CNe => negb (x =? y)
  | CLt => x <? y | CLe => x <=? y | CGt => y <? x | CGe => y <=? x
  end.

Definition builtin (f : string) (args : list val) : eres :=
  match f, args with
  | "bits.LeadingZeros64", [VInt z] => EV (VInt (clz64 z))
  | "min", [VInt a; VInt b] => EV (VInt (Z.min a b))
  | "max", [VInt a; VInt b] => EV (VInt (Z.max a b))
  | "le.Uint16", [VInts l] => if zlen l <? 2 then EPanic else EV (VInt (le_value (firstn 2 l)))
  | "le.Uint32", [VInts l] => if zlen l <? 4 then EPanic else EV (VInt (le_value (firstn 4 l)))
  | "le.Uint64", [VInts l] => if zlen l <? 8 then EPanic else EV (VInt (le_value (firstn 8 l)))
  | "be.Uint16", [VInts l] => if zlen l <? 2 then EPanic else EV (VInt (be_value (firstn 2 l)))
  | "be.Uint32", [VInts l] => if zlen l <? 4 then EPanic else EV (VInt (be_value (firstn 4 l)))
  | "be.Uint64", [VInts l] => if zlen l <? 8 then EPanic else EV (VInt (be_value (firstn 8 l)))
  | "make", [VInt n] => if n <? 0 then EPanic else EV (VInts (repeat 0 (Z.to_nat n)))
  | "append", [VInts a; VInts b] => EV (VInts (a ++ b))
  | "append1", [VInts a; VInt b] => EV (VInts (a ++ [b]))
  | "makev", [] => EV (VTuple [])                          (* make([]T, 0) for a slice of struct values *)
  | "appendv", [VTuple a; b] => EV (VTuple (a ++ [b]))     (* append(s, v) on such a slice *)
  | _, _ => EStuck
  end.

Definition opt_int (ev : expr -> eres) (o : option expr) (dflt : Z) (k : Z -> eres) : eres :=
  match o with None => k dflt | Some x => ebind (ev x) (fun v => as_int v k) end.

Fixpoint eval (e : env) (x : expr) {struct x} : eres :=
  match x with
  | EVar n => match lookup n e with Some v => EV v | None => EStuck end
  | EInt z => EV (VInt z)
  | EBool b => EV (VBool b)
  | ENilSlice => EV (VInts [])
  | ENil => EV VNil
  | EErr n => EV (VErr n)
  | EBin o t a b =>
      ebind (eval e a) (fun va => ebind (eval e b) (fun vb =>
        as_int va (fun x => as_int vb (fun y => arith o t x y))))
  | EShl t a b =>
      ebind (eval e a) (fun va => ebind (eval e b) (fun vb =>
        as_int va (fun x => as_int vb (fun y =>
          if y <? 0 then EPanic else EV (VInt (wrap t (x * 2 ^ y)))))))
  | EShr t a b =>
      ebind (eval e a) (fun va => ebind (eval e b) (fun vb =>
        as_int va (fun x => as_int vb (fun y =>
          if y <? 0 then EPanic else EV (VInt (wrap t (Z.shiftr x y)))))))
  | ENeg t a => ebind (eval e a) (fun va => as_int va (fun x => EV (VInt (wrap t (- x)))))
  | ECompl t a => ebind (eval e a) (fun va => as_int va (fun x => EV (VInt (wrap t (- x - 1)))))
  | ECmp o a b =>
      ebind (eval e a) (fun va => ebind (eval e b) (fun vb =>
        match va, vb with
        | VInt x, VInt y => EV (VBool (compare o x y))
        | VBool x, VBool y =>
            match o with CEq => EV (VBool (Bool.eqb x y)) | CNe => EV (VBool (negb (Bool.eqb x y))) | _ => EStuck end
        | _, _ => EStuck
        end))
  | EAndAlso a b => ebind (eval e a) (fun va => as_bool va (fun x => if x then eval e b else EV (VBool false)))
  | EOrElse a b => ebind (eval e a) (fun va => as_bool va (fun x => if x then EV (VBool true) else eval e b))
  | ENot a => ebind (eval e a) (fun va => as_bool va (fun x => EV (VBool (negb x))))
  | EConv t a => ebind (eval e a) (fun va => as_int va (fun x => EV (VInt (wrap t x))))
  | ELen a => ebind (eval e a) (fun va => as_ints va (fun l => EV (VInt (zlen l))))
  | EIndex a i =>
      ebind (eval e a) (fun va => ebind (eval e i) (fun vi =>
        as_ints va (fun l => as_int vi (fun j =>
          if (0 <=? j) && (j <? zlen l) then EV (VInt (nth_z l j)) else EPanic))))
  | ESlice a lo hi =>
      ebind (eval e a) (fun va => as_ints va (fun l =>
        opt_int (eval e) lo 0 (fun x => opt_int (eval e) hi (zlen l) (fun y =>
          if (0 <=? x) && (x <=? y) && (y <=? zlen l) then EV (VInts (slice_z l x y)) else EPanic))))
  | EField a f =>
      ebind (eval e a) (fun va =>
        match va with
        | VStruct fs => match flookup f fs with Some v => EV v | None => EStuck end
        | VNil => EPanic
        | _ => EStuck
        end)
  | EIsNil a => ebind (eval e a) (fun va =>
        match va with VNil => EV (VBool true) | VErr _ => EV (VBool false) | VStruct _ => EV (VBool false) | _ => EStuck end)
  | EErrIs a n => ebind (eval e a) (fun va =>
        match va with VNil => EV (VBool false) | VErr m => EV (VBool (String.eqb m n)) | _ => EStuck end)
  | EErrorsIs a n => ebind (eval e a) (fun va =>
        match va with VNil => EV (VBool false) | VErr m => EV (VBool (String.eqb (err_root m) n)) | _ => EStuck end)
  | ELenV a => ebind (eval e a) (fun va =>
        match va with VTuple l => EV (VInt (Z.of_nat (List.length l))) | _ => EStuck end)
  | EIndexV a i => ebind (eval e a) (fun va => ebind (eval e i) (fun vi =>
        match va, vi with
        | VTuple l, VInt j => if (0 <=? j) && (j <? Z.of_nat (List.length l)) then EV (nth (Z.to_nat j) l VNil) else EPanic
        | _, _ => EStuck
        end))
  | EWrap a => ebind (eval e a) (fun va =>
        match va with VNil => EV (VErr "fmt.Errorf") | VErr m => EV (VErr (err_wrap m)) | _ => EStuck end)
  | EStructLit fs =>
      (fix go (l : list (string * expr)) (acc : list (string * val)) : eres :=
         match l with
         | [] => EV (VStruct (rev acc))
         | (f, x) :: t => ebind (eval e x) (fun v => go t ((f, v) :: acc))
         end) fs []
  | EBuiltin f args =>
      (fix go (l : list expr) (acc : list val) : eres :=
         match l with
         | [] => builtin f (rev acc)
         | x :: t => ebind (eval e x) (fun v => go t (v :: acc))
         end) args []
  end.

Fixpoint eval_list (e : env) (xs : list expr) : eres :=
  match xs with
  | [] => EV (VTuple [])
  | x :: t => ebind (eval e x) (fun v => ebind (eval_list e t) (fun vt =>
                match vt with VTuple l => EV (VTuple (v :: l)) | _ => EStuck end))
  end.

(* ------------------------------------------------------------------ statements *)
Inductive res := RNorm (e : env) | RRet (v : val) | RBrk (e : env) | RCont (e : env) | RPanic | RStuck | RFuel.

Definition of_eres (r : eres) (k : val -> res) : res :=
  match r with EV v => k v | EPanic => RPanic | EStuck => RStuck end.

Definition assign (e : env) (l : lval) (v : val) : res :=
  match l with
  | LVar x => RNorm (update x v e)
  | LIgnore => RNorm e
  | LIndex x i =>
      of_eres (eval e i) (fun vi =>
        match lookup x e, vi, v with
        | Some (VInts l), VInt j, VInt z =>
            if (0 <=? j) && (j <? zlen l) then RNorm (update x (VInts (set_nth l (Z.to_nat j) z)) e) else RPanic
        | _, _, _ => RStuck
        end)
  | LSlice x lo hi =>
      match lookup x e, v with
      | Some (VInts l), VInts nv =>
          of_eres (opt_int (eval e) lo 0 (fun a => opt_int (eval e) hi (zlen l) (fun b => EV (VTuple [VInt a; VInt b]))))
            (fun ab => match ab with
                       | VTuple [VInt a; VInt b] =>
                           if (0 <=? a) && (a <=? b) && (b <=? zlen l) then
                             if zlen nv =? b - a then RNorm (update x (VInts (blit l (Z.to_nat a) nv)) e) else RStuck
                           else RPanic
                       | _ => RStuck
                       end)
      | _, _ => RStuck
      end
  | LField x f =>
      match lookup x e with
      | Some (VStruct fs) => RNorm (update x (VStruct (fupdate f v fs)) e)
      | Some VNil => RPanic
      | _ => RStuck
      end
  end.

Fixpoint assign_all (e : env) (ls : list lval) (vs : list val) : res :=
  match ls, vs with
  | [], [] => RNorm e
  | l :: lt, v :: vt => match assign e l v with RNorm e' => assign_all e' lt vt | r => r end
  | _, _ => RStuck
  end.

(* what a destination denotes for copy / PutUint: the integers it currently holds *)
Definition read_lval (e : env) (l : lval) : eres :=
  match l with
  | LVar x => eval e (EVar x)
  | LSlice x lo hi => eval e (ESlice (EVar x) lo hi)
  | _ => EStuck
  end.
Definition write_back (e : env) (l : lval) (nv : list Z) : res :=
  match l with
  | LVar x => RNorm (update x (VInts nv) e)
  | LSlice _ _ _ => assign e l (VInts nv)
  | _ => RStuck
  end.

Fixpoint bind_params (ps : list string) (vs : list val) : option env :=
  match ps, vs with
  | [], [] => Some []
  | p :: pt, v :: vt => match bind_params pt vt with Some e => Some ((p, v) :: e) | None => None end
  | _, _ => None
  end.

Definition ret_values (v : val) : list val := match v with VTuple l => l | _ => [v] end.

Section Exec.
  Variable prog : program.
  Variable ext : string -> list val -> option val.   (* function-valued parameters and external functions *)

  Fixpoint exec (fuel : nat) : stmt -> env -> res :=
    fix go (s : stmt) (e : env) {struct s} : res :=
      match s with
      | SSkip => RNorm e
      | SSeq a b => match go a e with RNorm e' => go b e' | r => r end
      | SAssign l x => of_eres (eval e x) (fun v => assign e l v)
      | SMulti ls x => of_eres (eval e x) (fun v => assign_all e ls (ret_values v))
      | SIf c a b => of_eres (eval e c) (fun v => match v with VBool true => go a e | VBool false => go b e | _ => RStuck end)
      | SFor c post body =>
          match fuel with
          | O => RFuel
          | S f =>
              of_eres (eval e c) (fun v =>
                match v with
                | VBool false => RNorm e
                | VBool true =>
                    match go body e with
                    | RNorm e' | RCont e' =>
                        match go post e' with
                        | RNorm e'' => exec f (SFor c post body) e''
                        | r => r
                        end
                    | RBrk e' => RNorm e'
                    | r => r
                    end
                | _ => RStuck
                end)
          end
      | SReturn es =>
          of_eres (eval_list e es) (fun v => match v with VTuple [x] => RRet x | _ => RRet v end)
      | SBreak => RBrk e
      | SContinue => RCont e
      | SPanic => RPanic
      | SCopy dst src =>
          of_eres (read_lval e dst) (fun vd => of_eres (eval e src) (fun vs =>
            match vd, vs with
            | VInts d, VInts s => write_back e dst (blit d O s)
            | _, _ => RStuck
            end))
      | SPutLE n dst x =>
          of_eres (read_lval e dst) (fun vd => of_eres (eval e x) (fun vx =>
            match vd, vx with
            | VInts d, VInt z => if zlen d <? Z.of_nat n then RPanic else write_back e dst (blit d O (le_bytes n z))
            | _, _ => RStuck
            end))
      | SPutBE n dst x =>
          of_eres (read_lval e dst) (fun vd => of_eres (eval e x) (fun vx =>
            match vd, vx with
            | VInts d, VInt z => if zlen d <? Z.of_nat n then RPanic else write_back e dst (blit d O (be_bytes n z))
            | _, _ => RStuck
            end))
      | SCall ls f args =>
          match fuel with
          | O => RFuel
          | S fu =>
              of_eres (eval_list e args) (fun va =>
                match plookup f prog with
                | None => RStuck
                | Some d =>
                    match bind_params (f_params d) (ret_values va) with
                    | None => RStuck
                    | Some e0 =>
                        match exec fu (f_body d) e0 with
                        | RRet v => assign_all e ls (ret_values v)
                        | RNorm _ => assign_all e ls []      (* fell off the end: no results *)
                        | RBrk _ | RCont _ => RStuck
                        | r => r
                        end
                    end
                end)
          end
      | SCallExt ls f args =>
          of_eres (eval_list e args) (fun va =>
            match ext f (ret_values va) with
            | Some v => assign_all e ls (ret_values v)
            | None => RStuck
            end)
      end.

  (* run a translated function on argument values *)
  Definition call (fuel : nat) (f : string) (args : list val) : res :=
    match plookup f prog with
    | None => RStuck
    | Some d =>
        match bind_params (f_params d) args with
        | None => RStuck
        | Some e0 =>
            match exec fuel (f_body d) e0 with
            | RNorm _ => RRet (VTuple [])
            | RBrk _ | RCont _ => RStuck
            | r => r
            end
        end
    end.
End Exec.

Definition no_ext : string -> list val -> option val := fun _ _ => None.

(* ------------------------------------------------------------------ basic facts used by every proof *)
Lemma wrap_unsigned_id t z : signed t = false -> 0 <= z < 2 ^ width t -> wrap t z = z.
Proof. intros Hs Hr. unfold wrap. rewrite Hs. apply Z.mod_small. exact Hr. Qed.

Lemma wrap_unsigned_range t z : signed t = false -> 0 <= wrap t z < 2 ^ width t.
Proof.
  intros Hs. unfold wrap. rewrite Hs. apply Z.mod_pos_bound.
  destruct t; cbn; lia.
Qed.

Lemma wrap_signed_id t z : signed t = true -> - 2 ^ (width t - 1) <= z < 2 ^ (width t - 1) -> wrap t z = z.
Proof.
  intros Hs Hr. unfold wrap. rewrite Hs.
  assert (Hw : 2 ^ width t = 2 * 2 ^ (width t - 1)) by (destruct t; cbn; lia).
  rewrite Z.mod_small; lia.
Qed.

Lemma wrap_in_range t z : in_range t z -> wrap t z = z.
Proof.
  unfold in_range. destruct (signed t) eqn:Hs; intros H.
  - apply wrap_signed_id; assumption.
  - apply wrap_unsigned_id; assumption.
Qed.

Lemma le_value_le_bytes n z : 0 <= z < 256 ^ Z.of_nat n -> le_value (le_bytes n z) = z.
Proof.
  revert z. induction n as [|n IH]; intros z Hz.
  - cbn in *. lia.
  - cbn [le_bytes le_value].
    assert (H256 : 256 ^ Z.of_nat (S n) = 256 * 256 ^ Z.of_nat n).
    { rewrite Nat2Z.inj_succ, Z.pow_succ_r by lia. reflexivity. }
    rewrite IH.
    + pose proof (Z.div_mod z 256). lia.
    + split. { apply Z.div_pos; lia. } apply Z.div_lt_upper_bound; lia.
Qed.

Lemma le_bytes_length n z : List.length (le_bytes n z) = n.
Proof. revert z; induction n as [|n IH]; intros z; cbn; [reflexivity|]. rewrite IH. reflexivity. Qed.
