(* C04 — searchEytzinger of compactindexsized/query.go, translated from the Go source on every check, is the model's
   search_get (CI.v) for every entry oracle, read errors included. *)
From Coq Require Import List ZArith NArith String Bool Lia.
Import ListNotations.
Require Import YF.GoLite YF.GoLiteLemmas YF.Generated.GoLiteC04 YF.CI YF.GoLiteC04_Proofs.
Local Open Scope string_scope.
Local Open Scope Z_scope.

(* ------------------------------------------------------------------ searchEytzinger *)
Lemma testbit_1_succ m : 0 <= m -> Z.testbit 1 (Z.succ m) = false.
Proof. intros Hm. apply (Z.testbit_odd_succ 0 m) in Hm. rewrite Z.testbit_0_l in Hm. exact Hm. Qed.

Lemma lor_double_1 i : Z.lor (2 * i) 1 = 2 * i + 1.
Proof.
  apply Z.bits_inj'. intros n Hn. rewrite Z.lor_spec.
  destruct (Z.eq_dec n 0) as [->|Hz].
  - rewrite Z.testbit_even_0, Z.testbit_odd_0. reflexivity.
  - assert (En : n = Z.succ (n - 1)) by lia. rewrite En.
    rewrite Z.testbit_even_succ by lia. rewrite Z.testbit_odd_succ by lia.
    rewrite testbit_1_succ by lia. apply orb_false_r.
Qed.

(* Everything below holds for ANY translated program that binds these names to these function terms: the
   compactindexsized package, and the deprecated packages wherever their source is textually the same function. *)
Section Generic.
Variable prog : program.
Hypothesis prog_searchEytzinger : plookup "searchEytzinger" prog = Some fn_searchEytzinger.

Section Search.
  Variable get : nat -> option entry.           (* CI.entry = (hash, value bytes); None = the read failed *)
  Definition entry_val (e : entry) : val := VStruct [("Hash", VInt (Z.of_N (fst e))); ("Value", VInts (zs (snd e)))].
  Definition ext_get : string -> list val -> option val := fun f args =>
    match f, args with
    | "getter", [VInt i] =>
        match get (Z.to_nat i) with
        | Some e => Some (VTuple [entry_val e; VNil])
        | None => Some (VTuple [VStruct [("Hash", VInt 0); ("Value", VInts [])]; VErr "read"])
        end
    | _, _ => None
    end.
  Definition enc (r : CI.res) : GoLite.res :=
    match r with
    | Found v => RRet (VTuple [VInts (zs v); VNil])
    | NotFound => RRet (VTuple [VInts []; VErr "ErrNotFound"])
    | ReadErr => RRet (VTuple [VInts []; VErr "read"])
    end.

  Definition se_body : stmt :=
    SSeq (SCallExt [LVar "k"; LVar "err"] "getter" [EVar "index"])
    (SSeq (SIf (ENot (EIsNil (EVar "err"))) (SReturn [ENilSlice; EVar "err"]) SSkip)
    (SSeq (SIf (ECmp CEq (EField (EVar "k") "Hash") (EVar "x")) (SReturn [EField (EVar "k") "Value"; ENil]) SSkip)
    (SSeq (SAssign (LVar "index") (EBin OOr I64 (EShl I64 (EVar "index") (EInt 1)) (EInt 1)))
    (SSeq (SIf (ECmp CLt (EField (EVar "k") "Hash") (EVar "x"))
               (SAssign (LVar "index") (EBin OAdd I64 (EVar "index") (EInt 1))) SSkip)
          (SIf (ECmp CLt (EVar "index") (EVar "min")) (SReturn [ENilSlice; EErr "ErrNotFound"]) SSkip))))).
  Definition se_loop : stmt := SFor (ECmp CLt (EVar "index") (EVar "max")) SSkip se_body.

  Definition env6 (n : nat) (x : N) (idx : nat) (kv ev : val) : env :=
    [("min", VInt 0); ("max", VInt (Z.of_nat n)); ("x", VInt (Z.of_N x)); ("index", VInt (Z.of_nat idx)); ("k", kv); ("err", ev)].
  Definition env4 (n : nat) (x : N) (idx : nat) : env :=
    [("min", VInt 0); ("max", VInt (Z.of_nat n)); ("x", VInt (Z.of_N x)); ("index", VInt (Z.of_nat idx))].

  (* result of the loop: a return carrying the model's answer, or (not found) a normal exit *)
  Definition loop_res (r : CI.res) (out : GoLite.res) : Prop :=
    match r with
    | NotFound => exists e', out = RNorm e'
    | _ => out = enc r
    end.

  Lemma next_index idx (lt : bool) : Z.of_nat idx < 4611686018427387904 ->
    wrap I64 (Z.lor (wrap I64 (Z.of_nat idx * 2 ^ 1)) 1) = Z.of_nat (2 * idx + 1).
  Proof.
    intros Hb. change (2 ^ 1) with 2.
    rewrite (wrap_i64_small (Z.of_nat idx * 2)) by lia.
    replace (Z.of_nat idx * 2) with (2 * Z.of_nat idx) by lia.
    rewrite lor_double_1. rewrite wrap_i64_small by lia. lia.
  Qed.

  (* one iteration from either environment shape leads to the six-variable shape *)
  Definition iter_res (n : nat) (x : N) (idx : nat) : GoLite.res :=
    match get idx with
    | None => enc ReadErr
    | Some e =>
        if N.eqb (fst e) x then enc (Found (snd e))
        else RNorm (env6 n x (if N.ltb (fst e) x then 2 * idx + 2 else 2 * idx + 1) (entry_val e) VNil)
    end.

  (* the search loop under ANY oracle that answers "getter" as ext_get does (it may answer other names too: the
     callers of searchEytzinger use further externals) *)
  Section AnyExt.
  Variable ext : string -> list val -> option val.
  Variable nmax : nat.
  Hypothesis ext_getter : forall i, (i < nmax)%nat -> ext "getter" [VInt (Z.of_nat i)] = ext_get "getter" [VInt (Z.of_nat i)].

  Lemma se_iter f n x idx (e0 : env) :
    (e0 = env4 n x idx \/ exists kv ev, e0 = env6 n x idx kv ev) ->
    Z.of_nat n < 4611686018427387904 -> (idx < n)%nat -> (n <= nmax)%nat ->
    exec prog ext f se_body e0 = iter_res n x idx.
  Proof.
    intros Hshape Hn Hidx Hmax.
    assert (Hi : Z.of_nat idx < 4611686018427387904) by lia.
    assert (Hnat : Z.to_nat (Z.of_nat idx) = idx) by apply Nat2Z.id.
    unfold iter_res.
    destruct Hshape as [->|[kv [ev ->]]]; unfold se_body, env4, env6;
      (go_run; rewrite ext_getter by lia; unfold ext_get at 1; go_cbn; rewrite Hnat;
       destruct (get idx) as [[h v]|]; [|go_run; reflexivity];
       unfold entry_val; go_run; cbn [fst snd]; rewrite of_N_eqb;
       destruct (N.eqb h x); [reflexivity|];
       go_run; rewrite (next_index idx true Hi); rewrite of_N_ltb;
       destruct (N.ltb h x); go_run;
       [ rewrite wrap_i64_small by lia;
         destruct (Z.ltb_spec (Z.of_nat (2 * idx + 1) + 1) 0) as [Hc|_]; [lia|];
         replace (Z.of_nat (2 * idx + 1) + 1) with (Z.of_nat (2 * idx + 2)) by lia; reflexivity
       | destruct (Z.ltb_spec (Z.of_nat (2 * idx + 1)) 0) as [Hc|_]; [lia|]; reflexivity ]).
  Qed.

  Lemma se_loop_spec f : forall n x idx e0,
    (e0 = env4 n x idx \/ exists kv ev, e0 = env6 n x idx kv ev) ->
    Z.of_nat n < 4611686018427387904 -> (n - idx < f)%nat -> (n <= nmax)%nat ->
    loop_res (search_get f get n x idx) (exec prog ext f se_loop e0).
  Proof.
    induction f as [|f IH]; intros n x idx e0 Hshape Hn Hf Hmax; [lia|].
    unfold se_loop. rewrite exec_for_S. fold se_loop. cbn [search_get].
    assert (Hc : eval e0 (ECmp CLt (EVar "index") (EVar "max")) = EV (VBool (Z.of_nat idx <? Z.of_nat n))).
    { destruct Hshape as [->|[kv [ev ->]]]; reflexivity. }
    rewrite Hc. cbn [of_eres]. rewrite of_nat_ltb.
    destruct (Nat.ltb idx n) eqn:Hlt.
    - apply Nat.ltb_lt in Hlt.
      rewrite (se_iter (S f) n x idx e0 Hshape Hn Hlt Hmax). unfold iter_res.
      destruct (get idx) as [e|]; [|reflexivity].
      destruct (N.eqb (fst e) x) eqn:Heq; [reflexivity|].
      rewrite exec_skip.
      apply IH; [right; eexists; eexists; reflexivity|exact Hn| |exact Hmax].
      destruct (N.ltb (fst e) x); lia.
    - eexists. reflexivity.
  Qed.

  (* Go's searchEytzinger (min = 0, as every caller passes it) IS the model's search, for every entry oracle *)
  Theorem searchEytzinger_is_search_get_ext f n x :
    Z.of_nat n < 4611686018427387904 -> (n < f)%nat -> (n <= nmax)%nat ->
    call prog ext f "searchEytzinger" [VInt 0; VInt (Z.of_nat n); VInt (Z.of_N x)] = enc (search_get f get n x 0).
  Proof.
    intros Hn Hf Hmax. unfold call. rewrite prog_searchEytzinger. unfold fn_searchEytzinger.
    cbn [f_params f_body bind_params]. go_run.
    fold se_body. fold se_loop.
    pose proof (se_loop_spec f n x 0 (env4 n x 0) (or_introl eq_refl) Hn ltac:(lia) Hmax) as H.
    unfold env4 in H. change (Z.of_nat 0) with 0 in H.
    destruct (search_get f get n x 0) eqn:Hs; cbn [loop_res] in H.
    - rewrite H. reflexivity.
    - destruct H as [e' ->]. go_run. reflexivity.
    - rewrite H. reflexivity.
  Qed.
  End AnyExt.

  Theorem searchEytzinger_is_search_get f n x :
    Z.of_nat n < 4611686018427387904 -> (n < f)%nat ->
    call prog ext_get f "searchEytzinger" [VInt 0; VInt (Z.of_nat n); VInt (Z.of_N x)] = enc (search_get f get n x 0).
  Proof. intros Hn Hf. exact (searchEytzinger_is_search_get_ext ext_get n (fun _ _ => eq_refl) f n x Hn Hf (le_n n)). Qed.
End Search.
End Generic.
