(* C03 / C01 / C10 — parseNodeFromSection (epoch.go): the CID-checked extraction of an object from a CAR section, the
   last step of every fetch by CID (local file and ReaderAt paths), translated from the Go source on every check
   (Generated/GoLiteC03.v) and proved equal to the model's Car.parse_node (the function the C01 / C03 theorems are
   about) under go-car's section-size limit: the object's bytes are returned only when the CID stored in the section
   equals the wanted one; everything else is an error.  encoding/binary.Uvarint, go-cid's CidFromReader and Cid.Equals
   are oracles: Codec.uvarint_dec, the Section's cid_parse and byte equality. *)
From Coq Require Import List ZArith NArith String Bool Lia.
Import ListNotations.
Require Import YF.GoLite YF.GoLiteLemmas YF.Generated.GoLiteC03 YF.Codec YF.Car.
Local Open Scope string_scope.
Local Open Scope Z_scope.
Local Open Scope list_scope.

Definition zs (l : list N) : list Z := map Z.of_N l.
Definition ns (l : list Z) : list N := map Z.to_N l.
Lemma ns_zs l : ns (zs l) = l.
Proof. unfold ns, zs. rewrite map_map. rewrite <- (map_id l) at 2. apply map_ext. intros a. apply N2Z.id. Qed.
Lemma zlen_zs l : zlen (zs l) = Z.of_nat (List.length l).
Proof. unfold zlen, zs. rewrite map_length. reflexivity. Qed.
Lemma skipn_zs n l : skipn n (zs l) = zs (skipn n l).
Proof. unfold zs. apply skipn_map. Qed.

Definition cidv (c : list N) : val := VStruct [("cid", VInts (zs c))].
Definition list_N_eqb (a b : list N) : bool := if list_eq_dec N.eq_dec a b then true else false.

Section Parse.
Variable prog : program.
Hypothesis prog_parse : plookup "parseNodeFromSection" prog = Some fn_parseNodeFromSection.

Variable cid_parse : list N -> option (list N * nat).     (* go-cid's CidFromReader: the CID and how many bytes it took *)
Hypothesis cid_parse_len : forall r c k, cid_parse r = Some (c, k) -> (k <= List.length r)%nat.

Definition ext_car : string -> list val -> option val := fun f args =>
  match f, args with
  | "binary.Uvarint", [VInts buf] =>
      match uvarint_dec (ns buf) with
      | Some (v, n) => Some (VTuple [VInt (Z.of_N v); VInt (Z.of_nat n)])
      | None => Some (VTuple [VInt 0; VInt 0])
      end
  | "bytes.NewReader", [VInts buf] => Some (VInts buf)
  | "cid.CidFromReader", [VInts buf] =>
      match cid_parse (ns buf) with
      | Some (c, k) => Some (VTuple [VInt (Z.of_nat k); cidv c; VNil])
      | None => Some (VTuple [VInt 0; cidv []; VErr "cid"])
      end
  | "*.Equals", [VStruct [("cid", VInts a)]; VStruct [("cid", VInts b)]] => Some (VBool (list_N_eqb (ns a) (ns b)))
  | _, _ => None
  end.

Definition is_fail (r : res) : Prop := exists e, r = RRet (VTuple [VInts []; VErr e]).

Lemma uv_dec_le : forall l i acc sh v n, uv_dec i acc sh l = Some (v, n) -> (i < n <= i + List.length l)%nat.
Proof.
  induction l as [|b r IH]; intros i acc sh v n H; cbn [uv_dec] in H; [discriminate|].
  destruct (Nat.eqb i 10); [discriminate|].
  destruct (N.ltb b 128).
  - destruct (andb (Nat.eqb i 9) (N.ltb 1 b)); [discriminate|]. injection H as _ <-. cbn [List.length]. lia.
  - apply IH in H. cbn [List.length]. lia.
Qed.

Definition max_section : N := 33554432.

(* everything below holds under ANY oracle that answers these four names as ext_car does (the callers use further
   externals: the positioned reader) *)
Variable ext : string -> list val -> option val.
Hypothesis ext_uv : forall s, ext "binary.Uvarint" [VInts s] =
  match uvarint_dec (ns s) with
  | Some (v, n) => Some (VTuple [VInt (Z.of_N v); VInt (Z.of_nat n)])
  | None => Some (VTuple [VInt 0; VInt 0])
  end.
Hypothesis ext_nr : forall s, ext "bytes.NewReader" [VInts s] = Some (VInts s).
Hypothesis ext_cid : forall s, ext "cid.CidFromReader" [VInts s] =
  match cid_parse (ns s) with
  | Some (c, k) => Some (VTuple [VInt (Z.of_nat k); cidv c; VNil])
  | None => Some (VTuple [VInt 0; cidv []; VErr "cid"])
  end.
Hypothesis ext_eq : forall a b, ext "*.Equals" [cidv a; cidv b] = Some (VBool (list_N_eqb a b)).

(* what the translated function returns, case by case *)
Definition parse_res (sec wanted : list N) : res :=
  match uvarint_dec sec with
  | None => RRet (VTuple [VInts []; VErr "fmt.Errorf"])
  | Some (l, n) =>
      if (max_section <? l)%N then RRet (VTuple [VInts []; VErr "errors.New"])
      else match cid_parse (skipn n sec) with
           | None => RRet (VTuple [VInts []; VErr "%w cid"])
           | Some (c, k) =>
               if list_N_eqb c wanted then RRet (VTuple [VInts (zs (skipn k (skipn n sec))); VNil])
               else RRet (VTuple [VInts []; VErr "fmt.Errorf"])
           end
  end.

Lemma parse_run fuel (sec wanted : list N) :
  Z.of_nat (List.length sec) < 4611686018427387904 ->
  call prog ext fuel "parseNodeFromSection" [VInts (zs sec); cidv wanted] = parse_res sec wanted.
Proof.
  intros Hlen. unfold parse_res.
  unfold call. rewrite prog_parse. unfold fn_parseNodeFromSection.
  cbn [f_params f_body bind_params]. go_run.
  rewrite ext_uv. rewrite ns_zs.
  destruct (uvarint_dec sec) as [[l n]|] eqn:Hd; [|go_run; reflexivity].
  go_run.
  pose proof (uv_dec_le _ _ _ _ _ _ Hd) as [Hn1 Hn2]. cbn [Nat.add] in Hn2.
  destruct (Z.leb_spec (Z.of_nat n) 0) as [Hc|_]; [lia|]. go_run.
  change (wrap U64 33554432) with (Z.of_N max_section). rewrite ?Z.gtb_ltb. rewrite of_N_ltb.
  destruct (N.ltb max_section l); [go_run; reflexivity|].
  go_run. rewrite zlen_zs.
  assert (Hb : (0 <=? Z.of_nat n) && (Z.of_nat n <=? Z.of_nat (List.length sec)) && (Z.of_nat (List.length sec) <=? Z.of_nat (List.length sec)) = true).
  { rewrite !andb_true_iff. repeat split; apply Z.leb_le; lia. }
  rewrite Hb. go_cbn.
  assert (Hsl : slice_z (zs sec) (Z.of_nat n) (Z.of_nat (List.length sec)) = zs (skipn n sec)).
  { unfold slice_z. rewrite Nat2Z.id. rewrite skipn_zs. apply firstn_all2.
    unfold zs. rewrite map_length, skipn_length. lia. }
  rewrite Hsl. go_run. rewrite ext_nr. go_run. rewrite ext_cid. rewrite ns_zs.
  destruct (cid_parse (skipn n sec)) as [[c k]|] eqn:Hc; [|go_run; reflexivity].
  go_run. rewrite ext_eq. go_run.
  destruct (list_N_eqb c wanted); [|go_run; reflexivity].
  unfold cidv. go_run. rewrite zlen_zs.
  pose proof (cid_parse_len _ _ _ Hc) as Hk.
  assert (Hb2 : (0 <=? Z.of_nat k) && (Z.of_nat k <=? Z.of_nat (List.length (skipn n sec))) &&
                (Z.of_nat (List.length (skipn n sec)) <=? Z.of_nat (List.length (skipn n sec))) = true).
  { rewrite !andb_true_iff. repeat split; apply Z.leb_le; lia. }
  rewrite Hb2. go_cbn.
  assert (Hsl2 : slice_z (zs (skipn n sec)) (Z.of_nat k) (Z.of_nat (List.length (skipn n sec))) = zs (skipn k (skipn n sec))).
  { unfold slice_z. rewrite Nat2Z.id. rewrite skipn_zs. apply firstn_all2.
    unfold zs. rewrite map_length, !skipn_length. lia. }
  rewrite Hsl2. reflexivity.
Qed.

(* with a wanted CID it IS Car.parse_node, under go-car's section-size limit *)
Theorem parse_is_parse_node fuel (sec wanted : list N) :
  Z.of_nat (List.length sec) < 4611686018427387904 ->
  (forall l n, uvarint_dec sec = Some (l, n) -> (l <= max_section)%N) ->
  match parse_node cid_parse sec wanted with
  | Some d => call prog ext fuel "parseNodeFromSection" [VInts (zs sec); cidv wanted] = RRet (VTuple [VInts (zs d); VNil])
  | None => is_fail (call prog ext fuel "parseNodeFromSection" [VInts (zs sec); cidv wanted])
  end.
Proof.
  intros Hlen Hmax. rewrite parse_run by exact Hlen. unfold parse_res, parse_node.
  destruct (uvarint_dec sec) as [[l n]|] eqn:Hd; [|eexists; reflexivity].
  specialize (Hmax l n eq_refl).
  destruct (N.ltb_spec max_section l) as [Hc|_]; [lia|].
  destruct (cid_parse (skipn n sec)) as [[c k]|]; [|eexists; reflexivity].
  unfold list_N_eqb. destruct (list_eq_dec N.eq_dec c wanted); [reflexivity|eexists; reflexivity].
Qed.

(* never the bytes of an object stored under another CID: a success means the section's CID is the wanted one *)
Corollary parse_success_means_same_cid fuel (sec wanted : list N) out :
  Z.of_nat (List.length sec) < 4611686018427387904 ->
  call prog ext fuel "parseNodeFromSection" [VInts (zs sec); cidv wanted] = RRet (VTuple [VInts out; VNil]) ->
  exists l n k, uvarint_dec sec = Some (l, n) /\ cid_parse (skipn n sec) = Some (wanted, k) /\ out = zs (skipn k (skipn n sec)).
Proof.
  intros Hlen. rewrite parse_run by exact Hlen. unfold parse_res.
  destruct (uvarint_dec sec) as [[l n]|]; [|discriminate].
  destruct (N.ltb max_section l); [discriminate|].
  destruct (cid_parse (skipn n sec)) as [[c k]|] eqn:Hc; [|discriminate].
  unfold list_N_eqb. destruct (list_eq_dec N.eq_dec c wanted) as [->|]; [|discriminate].
  intros H. injection H as <-. exists l, n, k. repeat split; assumption || reflexivity.
Qed.

(* without a wanted CID (the address-index fetcher passes nil): the bytes after whatever CID the section holds *)
Theorem parse_without_wanted fuel (sec : list N) :
  Z.of_nat (List.length sec) < 4611686018427387904 ->
  call prog ext fuel "parseNodeFromSection" [VInts (zs sec); VNil] =
  match uvarint_dec sec with
  | None => RRet (VTuple [VInts []; VErr "fmt.Errorf"])
  | Some (l, n) =>
      if (max_section <? l)%N then RRet (VTuple [VInts []; VErr "errors.New"])
      else match cid_parse (skipn n sec) with
           | None => RRet (VTuple [VInts []; VErr "%w cid"])
           | Some (c, k) => RRet (VTuple [VInts (zs (skipn k (skipn n sec))); VNil])
           end
  end.
Proof.
  intros Hlen.
  unfold call. rewrite prog_parse. unfold fn_parseNodeFromSection.
  cbn [f_params f_body bind_params]. go_run.
  rewrite ext_uv. rewrite ns_zs.
  destruct (uvarint_dec sec) as [[l n]|] eqn:Hd; [|go_run; reflexivity].
  go_run.
  pose proof (uv_dec_le _ _ _ _ _ _ Hd) as [Hn1 Hn2]. cbn [Nat.add] in Hn2.
  destruct (Z.leb_spec (Z.of_nat n) 0) as [Hc|_]; [lia|]. go_run.
  change (wrap U64 33554432) with (Z.of_N max_section). rewrite ?Z.gtb_ltb. rewrite of_N_ltb.
  destruct (N.ltb max_section l); [go_run; reflexivity|].
  go_run. rewrite zlen_zs.
  assert (Hb : (0 <=? Z.of_nat n) && (Z.of_nat n <=? Z.of_nat (List.length sec)) && (Z.of_nat (List.length sec) <=? Z.of_nat (List.length sec)) = true).
  { rewrite !andb_true_iff. repeat split; apply Z.leb_le; lia. }
  rewrite Hb. go_cbn.
  assert (Hsl : slice_z (zs sec) (Z.of_nat n) (Z.of_nat (List.length sec)) = zs (skipn n sec)).
  { unfold slice_z. rewrite Nat2Z.id. rewrite skipn_zs. apply firstn_all2.
    unfold zs. rewrite map_length, skipn_length. lia. }
  rewrite Hsl. go_run. rewrite ext_nr. go_run. rewrite ext_cid. rewrite ns_zs.
  destruct (cid_parse (skipn n sec)) as [[c k]|] eqn:Hc; [|go_run; reflexivity].
  go_run. rewrite zlen_zs.
  pose proof (cid_parse_len _ _ _ Hc) as Hk.
  assert (Hb2 : (0 <=? Z.of_nat k) && (Z.of_nat k <=? Z.of_nat (List.length (skipn n sec))) &&
                (Z.of_nat (List.length (skipn n sec)) <=? Z.of_nat (List.length (skipn n sec))) = true).
  { rewrite !andb_true_iff. repeat split; apply Z.leb_le; lia. }
  rewrite Hb2. go_cbn.
  assert (Hsl2 : slice_z (zs (skipn n sec)) (Z.of_nat k) (Z.of_nat (List.length (skipn n sec))) = zs (skipn k (skipn n sec))).
  { unfold slice_z. rewrite Nat2Z.id. rewrite skipn_zs. apply firstn_all2.
    unfold zs. rewrite map_length, !skipn_length. lia. }
  rewrite Hsl2. reflexivity.
Qed.

End Parse.

(* ------------------------------------------------------------------ the canonical oracle *)
Section Car.
Variable prog : program.
Hypothesis prog_parse : plookup "parseNodeFromSection" prog = Some fn_parseNodeFromSection.
Variable cid_parse : list N -> option (list N * nat).
Hypothesis cid_parse_len : forall r c k, cid_parse r = Some (c, k) -> (k <= List.length r)%nat.

Lemma car_eq a b : ext_car cid_parse "*.Equals" [cidv a; cidv b] = Some (VBool (list_N_eqb a b)).
Proof. unfold cidv. cbn. rewrite !ns_zs. reflexivity. Qed.

Definition parse_is_parse_node_car :=
  parse_is_parse_node prog prog_parse cid_parse cid_parse_len (ext_car cid_parse)
    (fun _ => eq_refl) (fun _ => eq_refl) (fun _ => eq_refl) car_eq.
Definition parse_success_means_same_cid_car :=
  parse_success_means_same_cid prog prog_parse cid_parse cid_parse_len (ext_car cid_parse)
    (fun _ => eq_refl) (fun _ => eq_refl) (fun _ => eq_refl) car_eq.
Definition parse_without_wanted_car :=
  parse_without_wanted prog prog_parse cid_parse cid_parse_len (ext_car cid_parse)
    (fun _ => eq_refl) (fun _ => eq_refl) (fun _ => eq_refl) car_eq.
End Car.

(* ------------------------------------------------------------------ read + parse: the ReaderAt path of a fetch *)
Section ReadNode.
Variable prog : program.
Hypothesis prog_parse : plookup "parseNodeFromSection" prog = Some fn_parseNodeFromSection.
Hypothesis prog_readFullAt : plookup "readFullAt" prog = Some fn_readFullAt.
Hypothesis prog_readNode : plookup "readNodeFromReaderAtWithOffsetAndSize" prog = Some fn_readNodeFromReaderAtWithOffsetAndSize.
Variable cid_parse : list N -> option (list N * nat).
Hypothesis cid_parse_len : forall r c k, cid_parse r = Some (c, k) -> (k <= List.length r)%nat.
Variable file : list N.                        (* the CAR file behind the ReaderAt, possibly cut *)

(* the positioned reader over the file: what is there, io.EOF when that is less than asked *)
Definition ext_file : string -> list val -> option val := fun f args =>
  match f, args with
  | "io.ReaderAt.ReadAt", [VInts buf; VInt off] =>
      let bs := firstn (List.length buf) (skipn (Z.to_nat off) file) in
      Some (VTuple [VInt (Z.of_nat (List.length bs));
                    (if (List.length bs =? List.length buf)%nat then VNil else VErr "io.EOF");
                    VInts (blit buf O (zs bs))])
  | _, _ => ext_car cid_parse f args
  end.

Theorem readNode_is_read_then_parse fuel rv (wanted : list N) (off len : nat) :
  Z.of_nat off < 4611686018427387904 -> Z.of_nat len < 4611686018427387904 -> (1 <= len)%nat -> (2 <= fuel)%nat ->
  call prog ext_file fuel "readNodeFromReaderAtWithOffsetAndSize" [rv; cidv wanted; VInt (Z.of_nat off); VInt (Z.of_nat len)] =
  match ReadAt.read_at file off len with
  | Some sec => parse_res cid_parse sec wanted
  | None => RRet (VTuple [VInts []; VErr "io.EOF"])
  end.
Proof.
  intros Hoff Hlen Hpos Hfuel. destruct fuel as [|[|fuel]]; try lia.
  unfold call. rewrite prog_readNode. unfold fn_readNodeFromReaderAtWithOffsetAndSize.
  cbn [f_params f_body bind_params]. go_run.
  destruct (Z.ltb_spec (Z.of_nat len) 0) as [Hc|_]; [lia|]. go_run. rewrite Nat2Z.id.
  rewrite exec_call_S. go_cbn. rewrite (wrap_i64_small (Z.of_nat off)) by lia. rewrite prog_readFullAt.
  cbn [bind_params f_params fn_readFullAt f_body]. cbv beta iota. go_run.
  unfold ext_file at 1. rewrite ?Nat2Z.id. rewrite repeat_length.
  unfold ReadAt.read_at.
  set (bs := firstn len (skipn off file)).
  assert (Hbs : List.length bs = Nat.min len (List.length file - off)) by (unfold bs; rewrite firstn_length, skipn_length; reflexivity).
  go_cbn. go_run. rewrite zlen_blit. unfold zlen. rewrite repeat_length.
  destruct (Nat.leb_spec (off + len) (List.length file)) as [Hfit|Hcut].
  - assert (Hl : List.length bs = len) by (rewrite Hbs; apply Nat.min_l; lia).
    rewrite Hl. rewrite Nat.eqb_refl. rewrite Z.eqb_refl. go_run.
    rewrite (blit_full (repeat 0 len) (zs bs)) by (unfold zs; rewrite map_length, repeat_length; exact Hl).
    rewrite exec_call_S. go_cbn. rewrite prog_parse.
    cbn [bind_params f_params fn_parseNodeFromSection]. cbv beta iota.
    assert (Hbl : Z.of_nat (List.length bs) < 4611686018427387904) by (rewrite Hl; exact Hlen).
    pose proof (parse_run prog prog_parse cid_parse cid_parse_len ext_file
                  (fun _ => eq_refl) (fun _ => eq_refl) (fun _ => eq_refl) (car_eq cid_parse) (S fuel) bs wanted Hbl) as HP.
    unfold call in HP. rewrite prog_parse in HP. cbn [bind_params f_params fn_parseNodeFromSection] in HP.
    destruct (exec prog ext_file (S fuel) (f_body fn_parseNodeFromSection) [("section", VInts (zs bs)); ("wantedCid", cidv wanted)]) eqn:Hx;
      unfold parse_res in HP |- *;
      destruct (uvarint_dec bs) as [[l n]|]; try discriminate HP;
      try (destruct (N.ltb max_section l)); try discriminate HP;
      try (destruct (cid_parse (skipn n bs)) as [[c k]|]); try discriminate HP;
      try (destruct (list_N_eqb c wanted)); try discriminate HP;
      injection HP as ->; go_run; reflexivity.
  - assert (Hl : (List.length bs < len)%nat) by (rewrite Hbs; apply Nat.min_lt_iff; right; lia).
    destruct (Nat.eqb_spec (List.length bs) len) as [E|_]; [lia|].
    destruct (Z.eqb_spec (Z.of_nat (List.length bs)) (Z.of_nat len)) as [E|_]; [lia|].
    go_run. reflexivity.
Qed.

(* in the model's terms: the read and the CID-checked parse of Car.get_node *)
Corollary readNode_is_the_models_read_and_parse fuel rv (wanted : list N) (off len : nat) :
  Z.of_nat off < 4611686018427387904 -> Z.of_nat len < 4611686018427387904 -> (1 <= len)%nat -> (2 <= fuel)%nat ->
  (forall sec l n, ReadAt.read_at file off len = Some sec -> uvarint_dec sec = Some (l, n) -> (l <= max_section)%N) ->
  match ReadAt.read_at file off len with
  | Some sec =>
      match parse_node cid_parse sec wanted with
      | Some d => call prog ext_file fuel "readNodeFromReaderAtWithOffsetAndSize"
                    [rv; cidv wanted; VInt (Z.of_nat off); VInt (Z.of_nat len)] = RRet (VTuple [VInts (zs d); VNil])
      | None => is_fail (call prog ext_file fuel "readNodeFromReaderAtWithOffsetAndSize"
                    [rv; cidv wanted; VInt (Z.of_nat off); VInt (Z.of_nat len)])
      end
  | None => is_fail (call prog ext_file fuel "readNodeFromReaderAtWithOffsetAndSize"
                    [rv; cidv wanted; VInt (Z.of_nat off); VInt (Z.of_nat len)])
  end.
Proof.
  intros Hoff Hlen Hpos Hfuel Hmax. rewrite readNode_is_read_then_parse by assumption.
  destruct (ReadAt.read_at file off len) as [sec|] eqn:Hr; [|eexists; reflexivity].
  unfold parse_res, parse_node.
  destruct (uvarint_dec sec) as [[l n]|] eqn:Hd; [|eexists; reflexivity].
  specialize (Hmax sec l n eq_refl Hd).
  destruct (N.ltb_spec max_section l) as [Hc|_]; [lia|].
  destruct (cid_parse (skipn n sec)) as [[c k]|]; [|eexists; reflexivity].
  unfold list_N_eqb. destruct (list_eq_dec N.eq_dec c wanted); [reflexivity|eexists; reflexivity].
Qed.
End ReadNode.
