(* C05 — signature-existence index (bucketteer, current format v2 and legacy format v1).
   Executable byte-level model of
     /repo/bucketteer/{bucketteer,write,read}.go            (Version = 2)
     /repo/deprecated/bucketteer/{bucketteer,write,read}.go (Version = 1)
   Writer: Put / Has (in memory) / Seal.  Reader: NewReader (= Open over any io.ReaderAt) / Has.
   The hash is a Section variable (theorems hold for every hash; XXH.xxh64 is the executable instance).
   Go narrowings are written out as [mod 2^k]; loops over file-supplied counts run on fuel and
   return [OutOfFuel] when it runs out (shown unreachable in C05_Proofs.v). *)
From Coq Require Import List Arith Lia Bool PeanoNat NArith Sorting.Mergesort Orders.
Import ListNotations.
Require Import Eytz Eytz2 Eytz3 Codec ReadAt.
Require Import YF.Generated.ConstsC05.
Local Open Scope N_scope.

Inductive outcome (A : Type) := Ok (a : A) | Err | OutOfFuel.
Arguments Ok {A} a. Arguments Err {A}. Arguments OutOfFuel {A}.

Inductive version := V1 | V2.
(* const Version and var _Magic of the two packages: taken from the source tree (ConstsC05.v is regenerated
   from bucketteer/bucketteer.go and deprecated/bucketteer/bucketteer.go on every check) *)
Definition version_num (v : version) : N := match v with V1 => go_version_legacy | V2 => go_version_current end.
Definition magic (v : version) : list N := match v with V1 => go_magic_legacy | V2 => go_magic_current end.
Definition magic_len : nat := 8.                                                    (* [8]byte *)
Definition two16 : N := 65536.
Definition two32 : N := 4294967296.
Definition two63 : N := 9223372036854775808.
Definition two64 : N := 18446744073709551616.
Definition maxu64 : N := 18446744073709551615.                                     (* math.MaxUint64 *)
Definition max_i32 : N := 2147483647.                                              (* 0x7FFF_FFFF *)

(* ---------- sorting (sort.Slice on uint64 / on 2-byte prefixes by bytes.Compare) ---------- *)
Module NOrd <: TotalLeBool.
  Definition t := N.
  Definition leb (x y : t) := N.leb x y.
  Theorem leb_total : forall x y, leb x y = true \/ leb y x = true.
  Proof. intros x y. unfold leb. destruct (N.leb_spec x y); auto. right. apply N.leb_le. lia. Qed.
End NOrd.
Module NSort := Sort NOrd.

(* bytes.Compare on the two prefix bytes = numeric order of the byte-swapped uint16 *)
Definition bswap16 (p : N) : N := (p mod 256) * 256 + p / 256.
Module POrd <: TotalLeBool.
  Definition t := N.
  Definition leb (x y : t) := N.leb (bswap16 x) (bswap16 y).
  Theorem leb_total : forall x y, leb x y = true \/ leb y x = true.
  Proof. intros x y. unfold leb. destruct (N.leb_spec (bswap16 x) (bswap16 y)); auto. right. apply N.leb_le. lia. Qed.
End POrd.
Module PSort := Sort POrd.

(* getCleanSet: after sorting, keep entries[i] unless it equals entries[i-1] *)
Fixpoint dedup_from (prev : N) (l : list N) : list N :=
  match l with
  | [] => []
  | x :: r => if x =? prev then dedup_from prev r else x :: dedup_from x r
  end.
Definition dedup (l : list N) : list N := match l with [] => [] | x :: r => x :: dedup_from x r end.
Definition clean (l : list N) : list N := dedup (NSort.sort l).

(* start, start+1, ..., start+n-1 *)
Fixpoint nseq (n : nat) (start : N) : list N :=
  match n with O => [] | S m => start :: nseq m (start + 1) end.

(* ---------- byte-list helpers ---------- *)
Fixpoint take (n : nat) (bs : list N) : option (list N * list N) :=
  match n with
  | O => Some ([], bs)
  | S m => match bs with
           | [] => None
           | b :: r => match take m r with Some (a, r') => Some (b :: a, r') | None => None end
           end
  end.

Fixpoint list_eqb (a b : list N) : bool :=
  match a, b with
  | [], [] => true
  | x :: a', y :: b' => (x =? y) && list_eqb a' b'
  | _, _ => false
  end.

(* io.ReaderAt over an in-memory file; offsets are compared in N before any conversion to nat *)
Definition file_reader (f : list N) : N -> N -> option (list N) :=
  let n := N.of_nat (length f) in
  fun off len => if off + len <=? n then Some (firstn (N.to_nat len) (skipn (N.to_nat off) f)) else None.

(* f.WriteAt(data, 0) *)
Definition overwrite (f data : list N) : list N := data ++ skipn (length data) f.

(* ---------- metadata ---------- *)
Definition meta := list (list N * list N).

(* indexmeta.Meta.MarshalBinary (v2): at most 255 pairs, keys and values at most 255 bytes *)
Definition enc_kv2 (kv : list N * list N) : list N :=
  N.of_nat (length (fst kv)) :: fst kv ++ N.of_nat (length (snd kv)) :: snd kv.
Definition max_kvs : nat := 255.      (* indexmeta.MaxNumKVs *)
Definition max_key : nat := 255.      (* indexmeta.MaxKeySize *)
Definition max_value : nat := 255.    (* indexmeta.MaxValueSize *)
Definition enc_meta2 (m : meta) : option (list N) :=
  if (max_kvs <? length m)%nat then None
  else if forallb (fun kv => (length (fst kv) <=? max_key)%nat && (length (snd kv) <=? max_value)%nat) m
       then Some (N.of_nat (length m) :: flat_map enc_kv2 m)
       else None.

(* legacy (v1): uint64 count, then borsh strings (uint32(len) ‖ bytes) *)
Definition enc_str1 (s : list N) : list N := le_enc 4 (N.of_nat (length s) mod two32) ++ s.
Definition enc_kv1 (kv : list N * list N) : list N := enc_str1 (fst kv) ++ enc_str1 (snd kv).
Definition enc_meta1 (m : meta) : list N := le_enc 8 (N.of_nat (length m) mod two64) ++ flat_map enc_kv1 m.

Definition enc_meta (ver : version) (m : meta) : option (list N) :=
  match ver with V1 => Some (enc_meta1 m) | V2 => enc_meta2 m end.

(* indexmeta.Meta.UnmarshalWithDecoder: only what it consumes matters here *)
Fixpoint skip_kvs2 (n : nat) (bs : list N) : option (list N) :=
  match n with
  | O => Some bs
  | S m =>
    match bs with
    | [] => None
    | kl :: r =>
      match take (N.to_nat kl) r with
      | None => None
      | Some (_, r1) =>
        match r1 with
        | [] => None
        | vl :: r2 => match take (N.to_nat vl) r2 with None => None | Some (_, r3) => skip_kvs2 m r3 end
        end
      end
    end
  end.
Definition skip_meta2 (bs : list N) : outcome (list N) :=
  match bs with
  | [] => Err
  | n :: r => match skip_kvs2 (N.to_nat n) r with Some r' => Ok r' | None => Err end
  end.

(* legacy: decoder.ReadString = ReadLength (uint32, error above 0x7FFFFFFF) + that many bytes *)
Definition read_str1 (bs : list N) : option (list N) :=
  match take 4 bs with
  | None => None
  | Some (lb, r) =>
    let n := le_dec lb in
    if max_i32 <? n then None
    else if n <=? N.of_nat (length r) then Some (skipn (N.to_nat n) r) else None
  end.
Fixpoint skip_kvs1 (fuel : nat) (cnt : N) (bs : list N) : outcome (list N) :=
  if cnt =? 0 then Ok bs else
  match fuel with
  | O => OutOfFuel
  | S f => match read_str1 bs with
           | None => Err
           | Some r1 => match read_str1 r1 with None => Err | Some r2 => skip_kvs1 f (cnt - 1) r2 end
           end
  end.
Definition skip_meta1 (bs : list N) : outcome (list N) :=
  match take 8 bs with
  | None => Err
  | Some (cb, r) => skip_kvs1 (S (length r)) (le_dec cb) r
  end.

Definition skip_meta (ver : version) (bs : list N) : outcome (list N) :=
  match ver with V1 => skip_meta1 bs | V2 => skip_meta2 bs end.

(* ---------- header ---------- *)
Definition enc_entry (e : N * N) : list N := le_enc 2 (fst e) ++ le_enc 8 (snd e).
Definition enc_tab (tab : list (N * N)) : list N := flat_map enc_entry tab.

(* createHeader *)
Definition enc_header (ver : version) (hsz : N) (mb : list N) (tab : list (N * N)) : list N :=
  le_enc 4 hsz ++ magic ver ++ le_enc 8 (version_num ver) ++ mb
  ++ le_enc 8 (N.of_nat (length tab) mod two64) ++ enc_tab tab.

(* readHeader's table loop; entries are consed, so the LAST assignment to a prefix comes first *)
Fixpoint parse_tab (fuel : nat) (cnt : N) (bs : list N) (acc : list (N * N)) : outcome (list (N * N)) :=
  if cnt =? 0 then Ok acc else
  match fuel with
  | O => OutOfFuel
  | S f =>
    match bs with
    | p0 :: p1 :: o0 :: o1 :: o2 :: o3 :: o4 :: o5 :: o6 :: o7 :: r =>
        parse_tab f (cnt - 1) r ((le_dec [p0; p1], le_dec [o0; o1; o2; o3; o4; o5; o6; o7]) :: acc)
    | _ => Err
    end
  end.

Record reader := { r_tab : list (N * N); r_base : N }.

(* NewReader: isReaderEmpty, readHeaderSize, readHeader *)
Definition open_ (ver : version) (R : N -> N -> option (list N)) : outcome reader :=
  match R 0 1 with
  | None => Err
  | Some _ =>
  match R 0 4 with
  | None => Err
  | Some hb =>
  let hs := le_dec hb in
  match R 4 hs with
  | None => Err
  | Some buf =>
  match take magic_len buf with
  | None => Err
  | Some (m, b1) =>
  if negb (list_eqb m (magic ver)) then Err else
  match take 8 b1 with
  | None => Err
  | Some (vb, b2) =>
  if negb (le_dec vb =? version_num ver) then Err else
  match skip_meta ver b2 with
  | Err => Err
  | OutOfFuel => OutOfFuel
  | Ok b3 =>
  match take 8 b3 with
  | None => Err
  | Some (cb, b4) =>
  match parse_tab (S (length b4)) (le_dec cb) b4 [] with
  | Ok tab => Ok {| r_tab := tab; r_base := hs + 4 |}
  | Err => Err
  | OutOfFuel => OutOfFuel
  end end end end end end end end.

(* v2: array initialised to MaxUint64, MaxUint64 means absent; v1: map lookup *)
Definition lookup_off (ver : version) (tab : list (N * N)) (p : N) : option N :=
  match find (fun e => fst e =? p) tab with
  | None => None
  | Some e => match ver with
              | V1 => Some (snd e)
              | V2 => if snd e =? maxu64 then None else Some (snd e)
              end
  end.

(* searchEytzinger(0, max=n, x, getter) followed by `got == wantedHash` *)
Fixpoint bsearch (fuel : nat) (get : N -> option N) (n x idx : N) : outcome bool :=
  if idx <? n then
    match fuel with
    | O => OutOfFuel
    | S f => match get idx with
             | None => Err
             | Some k => if k =? x then Ok true
                         else bsearch f get n x (2 * idx + 1 + (if k <? x then 1 else 0))
             end
    end
  else Ok false.

Definition search_fuel : nat := 64.

Section B.
Variable hash : list N -> N.                    (* bucketteer.Hash = xxhash.Sum64, any function here *)
Definition h64 (s : list N) : N := hash s mod two64.   (* its result type is uint64 *)

(* prefixToUint16(sig[:2]) *)
Definition prefix (s : list N) : N := nth 0 s 0 + 256 * nth 1 s 0.
Definition wf_sig (s : list N) : Prop := length s = 64%nat /\ Forall (fun b => b < 256) s.

(* ---------- writer ---------- *)
(* prefix -> appended hashes; kept as the log of (prefix, hash) appends *)
Definition wstate := list (N * N).
Definition put (w : wstate) (s : list N) : wstate := w ++ [(prefix s, h64 s)].
Definition puts (sigs : list (list N)) : wstate := fold_left put sigs [].
Definition bucket (w : wstate) (p : N) : list N := map snd (filter (fun e => fst e =? p) w).
Definition writer_has (w : wstate) (s : list N) : bool := existsb (N.eqb (h64 s)) (bucket w (prefix s)).

(* v2: every prefix 0..65535 in index order; v1: keys of the map sorted by bytes *)
Definition prefixes (ver : version) (w : wstate) : list N :=
  match ver with
  | V2 => nseq (N.to_nat two16) 0
  | V1 => PSort.sort (nodup N.eq_dec (map fst w))
  end.

(* getCleanSet, then sortWithCompare = sort + eytzinger *)
Definition entries_of (w : wstate) (p : N) : list N := eytz N 0 (NSort.sort (clean (bucket w p))).

Definition bucket_bytes (es : list N) : list N :=
  le_enc 4 (N.of_nat (length es) mod two32) ++ flat_map (le_enc 8) es.
Definition bucket_size (es : list N) : N := 4 + N.of_nat (length es) * 8.
Fixpoint offsets (off : N) (bks : list (list N)) : list N :=
  match bks with
  | [] => []
  | b :: r => off :: offsets ((off + bucket_size b) mod two64) r
  end.

(* seal + Seal: draft header, buckets, final header written over the draft *)
Definition seal (ver : version) (m : meta) (w : wstate) : outcome (list N) :=
  match enc_meta ver m with
  | None => Err
  | Some mb =>
    let ps := prefixes ver w in
    let bks := map (entries_of w) ps in
    let hdr0 := enc_header ver 0 mb (map (fun p => (p, 0)) ps) in
    let body := flat_map bucket_bytes bks in
    let tab := combine ps (offsets 0 bks) in
    let hdr := enc_header ver (N.of_nat (length hdr0 - 4) mod two32) mb tab in
    Ok (overwrite (hdr0 ++ body) hdr)
  end.

(* ---------- reader ---------- *)
Definition has (ver : version) (R : N -> N -> option (list N)) (rd : reader) (s : list N) : outcome bool :=
  match lookup_off ver (r_tab rd) (prefix s) with
  | None => Ok false
  | Some off =>
    if two63 <=? off then Err else
    match R (r_base rd + off) 4 with
    | None => Err
    | Some nb =>
      let n := le_dec nb in
      let lim := (n * 8) mod two32 in
      bsearch search_fuel
        (fun idx => if idx * 8 + 8 <=? lim
                    then match R (r_base rd + off + 4 + idx * 8) 8 with
                         | Some eb => Some (le_dec eb)
                         | None => None
                         end
                    else None)
        n (h64 s) 0
    end
  end.

Definition file_has (ver : version) (f : list N) (s : list N) : outcome bool :=
  let R := file_reader f in
  match open_ ver R with
  | Ok rd => has ver R rd s
  | Err => Err
  | OutOfFuel => OutOfFuel
  end.

End B.
