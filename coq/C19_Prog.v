(* C19 — the guard language into which gen/c19.go translates the Go closure `filterOutTxn` (the transaction predicate
   of the gRPC streams), and its semantics. The language is what the closure is written in: early returns guarded by
   conditions over the filter's optional flags, the transaction's vote / error status, whether an address index
   serves the stream, and loops over the filter's account lists that test whether the transaction mentions an
   account. Dereferencing an absent optional flag, or reading a member of a nil filter, is a [Panic] — so the
   agreement theorem also shows that the predicate never does that. *)
From Coq Require Import List Bool NArith.
Import ListNotations.
Require Import YF.C19_Stream.

Inductive atom :=
| AFilterNil          (* filter == nil *)
| AVoteSet | AVoteVal (* filter.Vote != nil ; *filter.Vote *)
| AFailedSet | AFailedVal
| AIsVote             (* IsSimpleVoteTransaction(&tx) *)
| AHasErr             (* getErr(meta) != nil *)
| AIndexed            (* gsfaReadersLoaded *)
| AIncludeNonEmpty.   (* len(filter.AccountInclude) > 0 *)
Inductive bexp := BAtom (a : atom) | BNot (b : bexp) | BAnd (a b : bexp) | BOr (a b : bexp).
Inductive acclist := LInclude | LExclude | LRequired.
Inductive stmt :=
| SIfRet (c : bexp) (r : bool)            (* if c { return r } *)
| SIf (c : bexp) (body : list stmt)       (* if c { body } *)
| SAnyIncludeElseRet (r : bool)           (* hasOne := some included account is mentioned; if !hasOne { return r } *)
| SForRet (l : acclist) (neg : bool) (r : bool)  (* for acc in l { if [!]mentions(acc) { return r } } *)
| SRet (r : bool).

Record env := { e_filter : option flt; e_indexed : bool; e_tx : tx }.
Inductive res := Panic | Fall | Return (b : bool).

Definition on_filter {A} (e : env) (k : flt -> option A) : option A :=
  match e_filter e with Some f => k f | None => None end.   (* member of a nil filter: nil dereference *)
Definition is_some {A} (o : option A) : bool := match o with Some _ => true | None => false end.

(* None = nil pointer dereference *)
Definition eval_atom (e : env) (a : atom) : option bool :=
  match a with
  | AFilterNil => Some (negb (is_some (e_filter e)))
  | AVoteSet => on_filter e (fun f => Some (is_some (f_vote f)))
  | AVoteVal => on_filter e f_vote
  | AFailedSet => on_filter e (fun f => Some (is_some (f_failed f)))
  | AFailedVal => on_filter e f_failed
  | AIsVote => Some (x_vote (e_tx e))
  | AHasErr => Some (x_failed (e_tx e))
  | AIndexed => Some (e_indexed e)
  | AIncludeNonEmpty => on_filter e (fun f => Some (match f_include f with [] => false | _ => true end))
  end.
(* && and || evaluate left to right and stop early, as in Go *)
Fixpoint eval_b (e : env) (b : bexp) : option bool :=
  match b with
  | BAtom a => eval_atom e a
  | BNot x => option_map negb (eval_b e x)
  | BAnd x y => match eval_b e x with Some true => eval_b e y | Some false => Some false | None => None end
  | BOr x y => match eval_b e x with Some false => eval_b e y | Some true => Some true | None => None end
  end.

Definition list_of (f : flt) (l : acclist) : list N :=
  match l with LInclude => f_include f | LExclude => f_exclude f | LRequired => f_required f end.

Section Exec.
Variable e : env.
Fixpoint exec1 (fuel : nat) (s : stmt) {struct fuel} : res :=
  match fuel with
  | O => Panic
  | S fu =>
    let fix execs (l : list stmt) : res :=
      match l with
      | [] => Fall
      | s :: r => match exec1 fu s with Fall => execs r | o => o end
      end in
    match s with
    | SIfRet c r => match eval_b e c with None => Panic | Some true => Return r | Some false => Fall end
    | SIf c body => match eval_b e c with None => Panic | Some true => execs body | Some false => Fall end
    | SAnyIncludeElseRet r =>
        match e_filter e with
        | None => Panic
        | Some f => if existsb (mentions (e_tx e)) (f_include f) then Fall else Return r
        end
    | SForRet l neg r =>
        match e_filter e with
        | None => Panic
        | Some f => if existsb (fun a => xorb neg (mentions (e_tx e) a)) (list_of f l) then Return r else Fall
        end
    | SRet r => Return r
    end
  end.
Fixpoint execs (fuel : nat) (l : list stmt) : res :=
  match l with
  | [] => Fall
  | s :: r => match exec1 fuel s with Fall => execs fuel r | o => o end
  end.
End Exec.

(* nesting depth bounds the fuel that is needed *)
Fixpoint depth (s : stmt) : nat :=
  match s with SIf _ body => S (fold_right (fun x m => Nat.max (depth x) m) 0 body) | _ => 1 end.
Definition run (p : list stmt) (e : env) : res :=
  execs e (S (fold_right (fun x m => Nat.max (depth x) m) 0 p)) p.

(* THE SPECIFICATION the program has to compute: C19_Stream.keep; when an address index serves the stream, the
   "any of the included accounts" clause is the index's job and the predicate checks the rest *)
Definition spec (e : env) : bool :=
  match e_filter e with
  | None => true
  | Some f => if e_indexed e
              then keep (Some (Build_flt (f_vote f) (f_failed f) [] (f_exclude f) (f_required f))) (e_tx e)
              else keep (Some f) (e_tx e)
  end.

(* ---------- txMentionsAccount ---------- *)
(* the account lists of an archived transaction: static keys of the message, and the addresses loaded from lookup
   tables as the protobuf metadata records them (read-only and writable) *)
Inductive msource := MStatic | MLoadedReadonly | MLoadedWritable.
Record txlists := { m_static : list N; m_readonly : list N; m_writable : list N }.
Definition source_of (x : txlists) (s : msource) : list N :=
  match s with MStatic => m_static x | MLoadedReadonly => m_readonly x | MLoadedWritable => m_writable x end.
(* `for key in L { if key == pkey { return true } }` for each source in turn, then `return false` *)
Definition run_mentions (srcs : list msource) (x : txlists) (a : N) : bool :=
  existsb (fun s => existsb (N.eqb a) (source_of x s)) srcs.
(* the transaction of C19_Stream seen through its lists: its loaded addresses are both loaded lists *)
Definition tx_of (x : txlists) (slot pos : N) (vote failed : bool) (id : N) : tx :=
  Build_tx slot pos vote failed (m_static x) (m_readonly x ++ m_writable x) id.
