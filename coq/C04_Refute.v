(* C04 — the behaviour of the PINNED builder (no range checks: variant [pinned]) refutes the property; the
   REPAIRED builder (variant [repaired], fixes/C04-value-size.diff and fixes/C04-key-length.diff) returns an error
   on the same inputs. Witnesses are evaluated with the real hash functions (C04_Hash). *)
From Coq Require Import List NArith Arith Lia.
Import ListNotations.
Require Import YF.CI YF.C04_Model YF.C04_Formats YF.C04_Hash.
Close Scope N_scope.

(* (a) value size 253: accepted by NewBuilderSized, the uint8 stride 3+253 wraps to 0, Seal panics *)
Definition w_vs : nat := 253.
Definition w_kvs_a : list kv := [([1%N; 2%N; 3%N], repeat 9%N 253)].

Lemma pinned_accepts_253 : cfg_err pinned 1 w_vs = None /\ stride8 w_vs = 0.
Proof. split; vm_compute; reflexivity. Qed.

Lemma pinned_value_size_panics :
  build_sized entry_hash bucket_of_go pinned 1 w_vs [] w_kvs_a = BPanic.
Proof. vm_compute. reflexivity. Qed.

Lemma repaired_value_size_error :
  build_sized entry_hash bucket_of_go repaired 1 w_vs [] w_kvs_a = BErr EValueSize.
Proof. vm_compute. reflexivity. Qed.

(* (b) one key of 65536 bytes: its length is recorded as 0 in the spill tuple, Insert and Seal succeed, the
   index holds an entry for the EMPTY key and the inserted key is not found *)
Definition w_long : list N := repeat 7%N (N.to_nat 65536).
Definition w_kvs_b : list kv := [(w_long, [40; 0; 0; 0; 0; 0; 0; 0]%N)].

Lemma long_key_recorded_as_empty : keylen16 w_long = 0%N.
Proof. vm_compute. reflexivity. Qed.

Lemma w_long_length : N.of_nat (length w_long) = 65536%N.
Proof. unfold w_long. now rewrite repeat_length, N2Nat.id. Qed.

(* the file the pinned builder produces = the file of the empty key (theorem, any hash), here with the real hashes *)
Definition w_file : list N :=
  match build_sized entry_hash bucket_of_go repaired 1 8 [] [([], [40; 0; 0; 0; 0; 0; 0; 0]%N)] with
  | BOk f => f | _ => [] end.

Lemma pinned_long_key_file : build_sized entry_hash bucket_of_go pinned 1 8 [] w_kvs_b = BOk w_file.
Proof.
  unfold w_kvs_b. rewrite (sized_pinned_long_key_as_empty entry_hash bucket_of_go bucket_of_go_lt);
    [vm_compute; reflexivity|vm_compute; reflexivity|vm_compute; reflexivity|exact w_long_length].
Qed.

Lemma pinned_long_key_lost :
  lookup_sized entry_hash bucket_of_go w_file w_long = NotFound /\
  lookup_sized entry_hash bucket_of_go w_file [] = Found [40; 0; 0; 0; 0; 0; 0; 0]%N.
Proof. split; vm_compute; reflexivity. Qed.

Lemma repaired_long_key_error :
  build_sized entry_hash bucket_of_go repaired 1 8 [] w_kvs_b = BErr EKeyLen.
Proof. vm_compute. reflexivity. Qed.

(* (c) legacy 8-byte format: a value that does not fit intWidth(FileSize) bytes is cut (documented
   precondition of the legacy builder, "the writer must not pass a value greater than targetFileSize") *)
Definition w_kvs_c : list kv8 := [([5%N], 70000%N)].
Lemma legacy8_wide_value_cut :
  match build_legacy8 entry_hash bucket_of_go repaired 1 1000 w_kvs_c with
  | BOk f => lookup_legacy8 entry_hash bucket_of_go f [5%N] = Found8 (70000 mod 65536)%N
  | _ => False
  end.
Proof. vm_compute. reflexivity. Qed.
