(* C05 — the deprecated package (deprecated/bucketteer, file format 1): searchEytzinger, getCleanSet and eytzinger
   translate to the very terms of the current package (checked by [reflexivity] on every check; a divergence of the two
   sources breaks these lemmas), so every theorem of GoLiteC05_Search.v / GoLiteC05_Clean.v / GoLiteC05_Eytz.v, proved
   for any program binding the names to those terms, holds of the deprecated program as well.  The deprecated package
   has no prefixToUint16 / uint16ToPrefix. *)
From Coq Require Import List String.
Require Import YF.GoLite.
Require YF.Generated.GoLiteC05 YF.Generated.GoLiteLC05.
Local Open Scope string_scope.

Lemma searchEytzinger_same_legacy : GoLiteLC05.fn_searchEytzinger = GoLiteC05.fn_searchEytzinger.
Proof. reflexivity. Qed.
Lemma getCleanSet_same_legacy : GoLiteLC05.fn_getCleanSet = GoLiteC05.fn_getCleanSet.
Proof. reflexivity. Qed.

Lemma prog_searchEytzinger_legacy : plookup "searchEytzinger" GoLiteLC05.prog = Some GoLiteC05.fn_searchEytzinger.
Proof. exact (eq_trans GoLiteLC05.prog_searchEytzinger (f_equal Some searchEytzinger_same_legacy)). Qed.
Lemma prog_getCleanSet_legacy : plookup "getCleanSet" GoLiteLC05.prog = Some GoLiteC05.fn_getCleanSet.
Proof. exact (eq_trans GoLiteLC05.prog_getCleanSet (f_equal Some getCleanSet_same_legacy)). Qed.
