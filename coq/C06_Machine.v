(* C06 — the GSFA writer (gsfa/gsfa-write.go) as a small-step machine, generic in the log store.

   State: the accumulators of Push (a.accum), the channel to the background goroutine
   (fullBufferWriterChan, FIFO), the batches parked by that goroutine (tmpBuf), the batches it is in the
   middle of writing (the old tmpBuf inside the flush loop), the pop rank, and the store (linked log +
   a.offsets) which only [sflush] (= flushKVs of one key) touches.

   Steps of the pushing goroutine (it holds a.mu, so they are sequential):
     OPush k e   one iteration of the per-key loop of Push
     OQFlush k   periodic flush of one victim through the channel (REPAIRED: fixes/C06-periodic-flush-order.diff)
     OSFlush k   periodic flush of one victim written synchronously (the pinned design)
     OPurge R    popRank.purge()
   Steps of the background goroutine (fullBufferWriter), interleaved arbitrarily with the above:
     ORecv       receive one batch; if tmpBuf is full or holds the same key, all parked batches go to the
                 write queue first; the received batch is parked
     OWrite      write the oldest batch of the write queue (one flushKVs call)
   Close (REPAIRED order, fixes/C06-parked-batches.diff + C06-close-order.diff): the background goroutine
   finishes the write queue, drains the channel, writes what is still parked; only then the accumulators
   are written.

   The theory is proved for ANY store that satisfies three laws ([sget] newest first):
     sget (sflush st k b) k  = rev b ++ sget st k        sget (sflush st k b) k' = sget st k'  (k' <> k)
   under an invariant preserved by sflush. C06_Store.v gives two instances (record positions; bytes). *)
From Coq Require Import List Arith Lia Bool PeanoNat.
Import ListNotations.

Ltac list_eq := repeat rewrite app_nil_r; repeat rewrite <- app_assoc; cbn [app]; repeat rewrite app_nil_r; reflexivity.

Section Machine.
Variable entry : Type.
Variable store : Type.
Variable sflush : store -> nat -> list entry -> store.
Variable B : nat.      (* itemsPerBatch *)
Variable P : nat.      (* howManyBuffersToFlushConcurrently *)

Notation batch := (nat * list entry)%type.

(* ---- a.accum : association list; an absent key reads as [] (Push never stores an empty list) ---- *)
Fixpoint acc_get (m : list batch) (k : nat) : list entry :=
  match m with [] => [] | (k', v) :: t => if k' =? k then v else acc_get t k end.
Fixpoint acc_set (m : list batch) (k : nat) (v : list entry) : list batch :=
  match m with
  | [] => [(k, v)]
  | (k', v') :: t => if k' =? k then (k, v) :: t else (k', v') :: acc_set t k v
  end.
Fixpoint acc_del (m : list batch) (k : nat) : list batch :=
  match m with [] => [] | (k', v) :: t => if k' =? k then acc_del t k else (k', v) :: acc_del t k end.

(* ---- pop-rank.go: flush counts; purge keeps the keys of the R highest distinct counts ---- *)
Definition rank := list (nat * nat).
Definition rank_has (r : rank) (k : nat) : bool := existsb (fun kv => fst kv =? k) r.
Fixpoint rank_incr (r : rank) (k : nat) : rank :=
  match r with
  | [] => [(k, 1)]
  | (k', v) :: t => if k' =? k then (k', S v) :: t else (k', v) :: rank_incr t k
  end.
Definition distinct_above (r : rank) (v : nat) : nat :=
  length (nodup Nat.eq_dec (filter (fun x => v <? x) (map snd r))).
Definition purge (R : nat) (r : rank) : rank :=
  if length (nodup Nat.eq_dec (map snd r)) <=? R then r
  else filter (fun kv => distinct_above r (snd kv) <? R) r.

Record mstate := MS {
  m_acc : list batch;        (* a.accum, values oldest first *)
  m_chan : list batch;       (* fullBufferWriterChan *)
  m_parked : list batch;     (* tmpBuf *)
  m_wq : list batch;         (* batches the background goroutine is writing right now, oldest first *)
  m_rank : rank;             (* a.popRank *)
  m_store : store
}.

Inductive op :=
| OPush (k : nat) (e : entry) | OQFlush (k : nat) | OSFlush (k : nat) | OPurge (R : nat)
| ORecv | OWrite.

Definition has_key (k : nat) (l : list batch) : bool := existsb (fun kb => fst kb =? k) l.

Definition push1 (s : mstate) (k : nat) (e : entry) : mstate :=
  match acc_get (m_acc s) k with
  | [] => MS (acc_set (m_acc s) k [e]) (m_chan s) (m_parked s) (m_wq s) (m_rank s) (m_store s)
  | cur =>
    let cur' := cur ++ [e] in
    if B <=? length cur'
    then MS (acc_del (m_acc s) k) (m_chan s ++ [(k, cur')]) (m_parked s) (m_wq s) (rank_incr (m_rank s) k) (m_store s)
    else MS (acc_set (m_acc s) k cur') (m_chan s) (m_parked s) (m_wq s) (m_rank s) (m_store s)
  end.

Definition qflush (s : mstate) (k : nat) : mstate :=
  match acc_get (m_acc s) k with
  | [] => s
  | v => MS (acc_del (m_acc s) k) (m_chan s ++ [(k, v)]) (m_parked s) (m_wq s) (m_rank s) (m_store s)
  end.

Definition sflush_acc (s : mstate) (k : nat) : mstate :=
  match acc_get (m_acc s) k with
  | [] => s
  | v => MS (acc_del (m_acc s) k) (m_chan s) (m_parked s) (m_wq s) (m_rank s) (sflush (m_store s) k v)
  end.

Definition recv (s : mstate) : mstate :=
  match m_wq s, m_chan s with
  | [], kb :: rest =>
    if (length (m_parked s) =? P) || has_key (fst kb) (m_parked s)
    then MS (m_acc s) rest [kb] (m_parked s) (m_rank s) (m_store s)
    else MS (m_acc s) rest (m_parked s ++ [kb]) [] (m_rank s) (m_store s)
  | _, _ => s
  end.

Definition write (s : mstate) : mstate :=
  match m_wq s with
  | [] => s
  | (k, b) :: rest => MS (m_acc s) (m_chan s) (m_parked s) rest (m_rank s) (sflush (m_store s) k b)
  end.

Definition step (s : mstate) (o : op) : mstate :=
  match o with
  | OPush k e => push1 s k e
  | OQFlush k => qflush s k
  | OSFlush k => sflush_acc s k
  | OPurge R => MS (m_acc s) (m_chan s) (m_parked s) (m_wq s) (purge R (m_rank s)) (m_store s)
  | ORecv => recv s
  | OWrite => write s
  end.

Definition exec (ops : list op) (s : mstate) : mstate := fold_left step ops s.

(* ---- Close ---- *)
Fixpoint flush_list (st : store) (l : list batch) : store :=
  match l with [] => st | (k, b) :: t => flush_list (sflush st k b) t end.

(* the background goroutine alone: receive everything that is in the channel *)
Fixpoint drain (ch parked : list batch) (st : store) : list batch * store :=
  match ch with
  | [] => (parked, st)
  | kb :: rest =>
    if (length parked =? P) || has_key (fst kb) parked
    then drain rest [kb] (flush_list st parked)
    else drain rest (parked ++ [kb]) st
  end.

Definition acc_keys (m : list batch) : list nat := nodup Nat.eq_dec (map fst m).

Definition close (s : mstate) : mstate :=
  let st0 := flush_list (m_store s) (m_wq s) in
  let (pk, st1) := drain (m_chan s) (m_parked s) st0 in
  let st2 := flush_list st1 pk in                                            (* parked batches are written at exit *)
  let st3 := flush_list st2 (map (fun k => (k, acc_get (m_acc s) k)) (acc_keys (m_acc s))) in   (* flushAccum, last *)
  MS [] [] [] [] (m_rank s) st3.

(* the pinned Close: accumulators first, then the channel is drained, parked batches are dropped *)
Definition close_pinned (s : mstate) : mstate :=
  let st0 := flush_list (m_store s) (map (fun k => (k, acc_get (m_acc s) k)) (acc_keys (m_acc s))) in
  let st1 := flush_list st0 (m_wq s) in
  let (pk, st2) := drain (m_chan s) (m_parked s) st1 in
  MS [] [] pk [] (m_rank s) st2.
(* parked batches written at exit, but the accumulators still first (only fixes/C06-parked-batches.diff) *)
Definition close_accum_first (s : mstate) : mstate :=
  let s' := close_pinned s in MS [] [] [] [] (m_rank s') (flush_list (m_store s') (m_parked s')).

(* ---- what was pushed ---- *)
Definition op_hist (o : op) (k : nat) : list entry :=
  match o with OPush k' e => if k' =? k then [e] else [] | _ => [] end.
Definition hist (ops : list op) (k : nat) : list entry := flat_map (fun o => op_hist o k) ops.

(* the entries of key k held in a list of batches, oldest first *)
Definition bpend (k : nat) (l : list batch) : list entry :=
  flat_map (fun kb => if fst kb =? k then snd kb else []) l.

Definition pending (s : mstate) (k : nat) : list entry :=
  bpend k (m_wq s) ++ bpend k (m_parked s) ++ bpend k (m_chan s).

Definition op_ok (s : mstate) (o : op) : Prop :=
  match o with OSFlush k => pending s k = [] | _ => True end.
Fixpoint ops_ok (s : mstate) (ops : list op) : Prop :=
  match ops with [] => True | o :: t => op_ok s o /\ ops_ok (step s o) t end.

(* ---------- association list laws ---------- *)
Lemma acc_get_set_same m k v : acc_get (acc_set m k v) k = v.
Proof.
  induction m as [|[k' v'] m IH]; cbn; [now rewrite Nat.eqb_refl|].
  destruct (k' =? k) eqn:E; cbn; [now rewrite Nat.eqb_refl|now rewrite E].
Qed.
Lemma acc_get_set_other m k k' v : k' <> k -> acc_get (acc_set m k v) k' = acc_get m k'.
Proof.
  intros H. induction m as [|[k0 v0] m IH]; cbn.
  - replace (k =? k') with false by (symmetry; apply Nat.eqb_neq; auto). reflexivity.
  - destruct (k0 =? k) eqn:E; cbn.
    + apply Nat.eqb_eq in E. subst k0.
      replace (k =? k') with false by (symmetry; apply Nat.eqb_neq; auto). reflexivity.
    + destruct (k0 =? k'); auto.
Qed.
Lemma acc_get_del_same m k : acc_get (acc_del m k) k = [].
Proof.
  induction m as [|[k0 v0] m IH]; cbn; auto. destruct (k0 =? k) eqn:E; cbn; auto. now rewrite E.
Qed.
Lemma acc_get_del_other m k k' : k' <> k -> acc_get (acc_del m k) k' = acc_get m k'.
Proof.
  intros H. induction m as [|[k0 v0] m IH]; cbn; auto. destruct (k0 =? k) eqn:E; cbn.
  - apply Nat.eqb_eq in E. subst k0. replace (k =? k') with false by (symmetry; apply Nat.eqb_neq; auto). exact IH.
  - destruct (k0 =? k'); auto.
Qed.
Lemma acc_get_notin m k : ~ In k (map fst m) -> acc_get m k = [].
Proof.
  induction m as [|[k0 v0] m IH]; cbn; auto. intros H. destruct (k0 =? k) eqn:E.
  - apply Nat.eqb_eq in E. subst. tauto.
  - apply IH. tauto.
Qed.

Lemma pend_app k (l1 l2 : list batch) : bpend k (l1 ++ l2) = bpend k l1 ++ bpend k l2.
Proof. unfold bpend. apply flat_map_app. Qed.
Lemma pend_single_same k b : bpend k [(k, b)] = b.
Proof. cbn. rewrite Nat.eqb_refl. apply app_nil_r. Qed.
Lemma pend_single_other k k0 b : k0 <> k -> bpend k [(k0, b)] = [].
Proof. intros H. cbn. replace (k0 =? k) with false by (symmetry; apply Nat.eqb_neq; auto). reflexivity. Qed.
Lemma pend_cons k kb l : bpend k (kb :: l) = bpend k [kb] ++ bpend k l.
Proof. change (kb :: l) with ([kb] ++ l). apply pend_app. Qed.

(* ================= theory over a lawful store ================= *)
Section Laws.
Variable sget : store -> nat -> list entry.          (* Get: newest first *)
Variable sinv : store -> Prop.
Hypothesis sinv_flush : forall st k b, sinv st -> sinv (sflush st k b).
Hypothesis sget_same : forall st k b, sinv st -> sget (sflush st k b) k = rev b ++ sget st k.
Hypothesis sget_other : forall st k k' b, sinv st -> k' <> k -> sget (sflush st k b) k' = sget st k'.

(* everything ever pushed for k and not lost, oldest first *)
Definition view (s : mstate) (k : nat) : list entry :=
  rev (sget (m_store s) k) ++ pending s k ++ acc_get (m_acc s) k.

Lemma rev_sget_flush st k0 b k : sinv st ->
  rev (sget (sflush st k0 b) k) = rev (sget st k) ++ bpend k [(k0, b)].
Proof.
  intros H. destruct (Nat.eq_dec k0 k) as [->|Hne].
  - rewrite sget_same by auto. rewrite rev_app_distr, rev_involutive, pend_single_same. reflexivity.
  - rewrite sget_other by auto. rewrite pend_single_other by auto. now rewrite app_nil_r.
Qed.

Lemma flush_list_inv l : forall st, sinv st -> sinv (flush_list st l).
Proof. induction l as [|[k b] l IH]; intros st H; cbn; auto. Qed.

Lemma flush_list_get l : forall st k, sinv st ->
  rev (sget (flush_list st l) k) = rev (sget st k) ++ bpend k l.
Proof.
  induction l as [|[k0 b] l IH]; intros st k H.
  - cbn. now rewrite app_nil_r.
  - cbn [flush_list]. rewrite IH by auto. rewrite rev_sget_flush by auto.
    rewrite (pend_cons k (k0, b) l). now rewrite app_assoc.
Qed.

Lemma step_view s o : sinv (m_store s) -> op_ok s o ->
  sinv (m_store (step s o)) /\ forall k, view (step s o) k = view s k ++ op_hist o k.
Proof.
  intros Hi Hok. destruct o as [k0 e|k0|k0|R| |]; cbn [step op_hist].
  - (* OPush *)
    unfold push1. destruct (acc_get (m_acc s) k0) as [|a cur] eqn:Ea.
    + split; [exact Hi|]. intros k. unfold view, pending. cbn [m_acc m_chan m_parked m_wq m_store].
      destruct (Nat.eq_dec k0 k) as [->|Hne].
      * rewrite Nat.eqb_refl, acc_get_set_same, Ea. list_eq.
      * replace (k0 =? k) with false by (symmetry; apply Nat.eqb_neq; auto).
        rewrite acc_get_set_other by auto. list_eq.
    + destruct (B <=? length ((a :: cur) ++ [e])).
      * split; [exact Hi|]. intros k. unfold view, pending. cbn [m_acc m_chan m_parked m_wq m_store].
        rewrite pend_app. destruct (Nat.eq_dec k0 k) as [->|Hne].
        -- rewrite Nat.eqb_refl, acc_get_del_same, pend_single_same, Ea. list_eq.
        -- replace (k0 =? k) with false by (symmetry; apply Nat.eqb_neq; auto).
           rewrite acc_get_del_other by auto. rewrite pend_single_other by auto. list_eq.
      * split; [exact Hi|]. intros k. unfold view, pending. cbn [m_acc m_chan m_parked m_wq m_store].
        destruct (Nat.eq_dec k0 k) as [->|Hne].
        -- rewrite Nat.eqb_refl, acc_get_set_same, Ea. list_eq.
        -- replace (k0 =? k) with false by (symmetry; apply Nat.eqb_neq; auto).
           rewrite acc_get_set_other by auto. list_eq.
  - (* OQFlush *)
    unfold qflush. destruct (acc_get (m_acc s) k0) as [|a v] eqn:Ea.
    + split; [exact Hi|]. intros k. now rewrite app_nil_r.
    + split; [exact Hi|]. intros k. unfold view, pending. cbn [m_acc m_chan m_parked m_wq m_store].
      rewrite pend_app, app_nil_r. destruct (Nat.eq_dec k0 k) as [->|Hne].
      * rewrite acc_get_del_same, pend_single_same, Ea. rewrite !app_nil_r. list_eq.
      * rewrite acc_get_del_other by auto. rewrite pend_single_other by auto. list_eq.
  - (* OSFlush *)
    unfold sflush_acc. destruct (acc_get (m_acc s) k0) as [|a v] eqn:Ea.
    + split; [exact Hi|]. intros k. now rewrite app_nil_r.
    + split; [cbn [m_store]; auto|]. intros k. unfold view. rewrite app_nil_r.
      change (pending (MS (acc_del (m_acc s) k0) (m_chan s) (m_parked s) (m_wq s) (m_rank s)
                          (sflush (m_store s) k0 (a :: v))) k) with (pending s k).
      cbn [m_acc m_store]. rewrite rev_sget_flush by auto.
      destruct (Nat.eq_dec k0 k) as [->|Hne].
      * cbn in Hok. rewrite Hok. rewrite acc_get_del_same, pend_single_same, Ea. list_eq.
      * rewrite acc_get_del_other by auto. rewrite pend_single_other by auto. list_eq.
  - (* OPurge *)
    split; [exact Hi|]. intros k. now rewrite app_nil_r.
  - (* ORecv *)
    unfold recv. destruct (m_wq s) as [|w wq] eqn:Ew.
    2:{ split; [exact Hi|]. intros k. now rewrite app_nil_r. }
    destruct (m_chan s) as [|kb rest] eqn:Ec.
    { split; [exact Hi|]. intros k. now rewrite app_nil_r. }
    destruct ((length (m_parked s) =? P) || has_key (fst kb) (m_parked s)).
    + split; [exact Hi|]. intros k. unfold view, pending. cbn [m_acc m_chan m_parked m_wq m_store].
      rewrite Ew, Ec. rewrite (pend_cons k kb rest). cbn [bpend flat_map app]. list_eq.
    + split; [exact Hi|]. intros k. unfold view, pending. cbn [m_acc m_chan m_parked m_wq m_store].
      rewrite Ew, Ec. rewrite (pend_cons k kb rest), pend_app. rewrite app_nil_r.
      list_eq.
  - (* OWrite *)
    unfold write. destruct (m_wq s) as [|[k0 b] wq] eqn:Ew.
    { split; [exact Hi|]. intros k. now rewrite app_nil_r. }
    split; [cbn [m_store]; auto|]. intros k. unfold view, pending. cbn [m_acc m_chan m_parked m_wq m_store].
    rewrite Ew. rewrite rev_sget_flush by auto. rewrite (pend_cons k (k0, b) wq). rewrite app_nil_r.
    list_eq.
Qed.

Lemma exec_view ops : forall s, sinv (m_store s) -> ops_ok s ops ->
  sinv (m_store (exec ops s)) /\ forall k, view (exec ops s) k = view s k ++ hist ops k.
Proof.
  induction ops as [|o ops IH]; intros s Hi Hok; cbn [exec fold_left hist flat_map].
  - split; auto. intros k. now rewrite app_nil_r.
  - destruct Hok as [Ho Hok]. destruct (step_view s o Hi Ho) as [Hi' Hv].
    destruct (IH (step s o) Hi' Hok) as [Hi'' Hv'']. split; [exact Hi''|].
    intros k. fold (exec ops (step s o)). rewrite Hv'', Hv. fold (hist ops k). now rewrite <- app_assoc.
Qed.

Lemma drain_spec ch : forall pk st, sinv st ->
  sinv (snd (drain ch pk st)) /\
  forall k, rev (sget (snd (drain ch pk st)) k) ++ bpend k (fst (drain ch pk st))
            = rev (sget st k) ++ bpend k pk ++ bpend k ch.
Proof.
  induction ch as [|kb rest IH]; intros pk st Hi; cbn [drain].
  - split; [exact Hi|]. intros k. cbn [fst snd bpend flat_map]. now rewrite app_nil_r.
  - destruct ((length pk =? P) || has_key (fst kb) pk).
    + destruct (IH [kb] (flush_list st pk) (flush_list_inv pk st Hi)) as [Hi' Hv]. split; [exact Hi'|].
      intros k. rewrite Hv. rewrite flush_list_get by auto. rewrite (pend_cons k kb rest).
      now rewrite <- !app_assoc.
    + destruct (IH (pk ++ [kb]) st Hi) as [Hi' Hv]. split; [exact Hi'|].
      intros k. rewrite Hv. rewrite pend_app, (pend_cons k kb rest). now rewrite <- !app_assoc.
Qed.

Lemma pend_keys (f : nat -> list entry) keys k : NoDup keys ->
  bpend k (map (fun k0 => (k0, f k0)) keys) = if existsb (Nat.eqb k) keys then f k else [].
Proof.
  induction keys as [|k0 keys IH]; intros ND; cbn [map bpend flat_map fst snd existsb]; auto.
  inversion ND as [|? ? Hni ND']; subst. fold (bpend k (map (fun k1 => (k1, f k1)) keys)).
  rewrite IH by auto. destruct (Nat.eqb_spec k0 k) as [E|E].
  - subst k0. rewrite Nat.eqb_refl. cbn [orb].
    replace (existsb (Nat.eqb k) keys) with false; [now rewrite app_nil_r|].
    symmetry. apply not_true_is_false. intros Hx. apply existsb_exists in Hx. destruct Hx as [x [Hx1 Hx2]].
    apply Nat.eqb_eq in Hx2. subst x. contradiction.
  - replace (k =? k0) with false by (symmetry; apply Nat.eqb_neq; auto). reflexivity.
Qed.

Lemma pend_acc_keys m k :
  bpend k (map (fun k0 => (k0, acc_get m k0)) (acc_keys m)) = acc_get m k.
Proof.
  unfold acc_keys. rewrite (pend_keys (acc_get m)) by apply NoDup_nodup.
  destruct (existsb (Nat.eqb k) (nodup Nat.eq_dec (map fst m))) eqn:E; [reflexivity|].
  symmetry. apply acc_get_notin. intros Hin. apply not_true_iff_false in E. apply E.
  apply existsb_exists. exists k. split; [apply nodup_In; exact Hin|apply Nat.eqb_refl].
Qed.

(* after Close the store holds the whole view of every key, newest first *)
Theorem close_get s k : sinv (m_store s) ->
  sinv (m_store (close s)) /\ sget (m_store (close s)) k = rev (view s k).
Proof.
  intros Hi. unfold close.
  pose proof (flush_list_inv (m_wq s) _ Hi) as Hi0.
  destruct (drain_spec (m_chan s) (m_parked s) _ Hi0) as [Hi1 Hd].
  destruct (drain (m_chan s) (m_parked s) (flush_list (m_store s) (m_wq s))) as [pk st1] eqn:Ed.
  cbn [fst snd] in *. cbn [m_store].
  pose proof (flush_list_inv pk _ Hi1) as Hi2.
  split; [apply flush_list_inv; exact Hi2|].
  rewrite <- (rev_involutive (sget _ k)). f_equal.
  rewrite flush_list_get by auto. rewrite flush_list_get by auto. rewrite Hd.
  rewrite flush_list_get by auto. rewrite pend_acc_keys.
  unfold view, pending. now rewrite <- !app_assoc.
Qed.

(* C06 (state machine half): every op sequence whose synchronous flushes respect [op_ok], then Close *)
Theorem machine_get_all ops s0 k :
  sinv (m_store s0) -> ops_ok s0 ops -> view s0 k = [] ->
  sget (m_store (close (exec ops s0))) k = rev (hist ops k).
Proof.
  intros Hi Hok Hv0. destruct (exec_view ops s0 Hi Hok) as [Hi' Hv].
  destruct (close_get (exec ops s0) k Hi') as [_ Hg]. rewrite Hg, Hv, Hv0. reflexivity.
Qed.

End Laws.
End Machine.

(* ================= two stores related by a simulation ================= *)
(* The machine never looks into the store, so a relation preserved by [sflush] is preserved by every step
   and by Close, and all other components of the two runs are equal. *)
Section Sim.
Variable entry : Type.
Variables store1 store2 : Type.
Variable f1 : store1 -> nat -> list entry -> store1.
Variable f2 : store2 -> nat -> list entry -> store2.
Variables B P : nat.
Variable R : store1 -> store2 -> Prop.
Hypothesis R_flush : forall a b k v, R a b -> R (f1 a k v) (f2 b k v).

Definition mrel (s1 : mstate entry store1) (s2 : mstate entry store2) : Prop :=
  m_acc _ _ s1 = m_acc _ _ s2 /\ m_chan _ _ s1 = m_chan _ _ s2 /\ m_parked _ _ s1 = m_parked _ _ s2 /\
  m_wq _ _ s1 = m_wq _ _ s2 /\ m_rank _ _ s1 = m_rank _ _ s2 /\ R (m_store _ _ s1) (m_store _ _ s2).

Lemma step_rel s1 s2 o : mrel s1 s2 -> mrel (step entry store1 f1 B P s1 o) (step entry store2 f2 B P s2 o).
Proof.
  destruct s1 as [a1 c1 p1 w1 r1 t1], s2 as [a2 c2 p2 w2 r2 t2]. unfold mrel. cbn [m_acc m_chan m_parked m_wq m_rank m_store].
  intros (<- & <- & <- & <- & <- & HR).
  destruct o as [k e|k|k|Rk| |]; cbn [step].
  - unfold push1. cbn [m_acc m_chan m_parked m_wq m_rank m_store]. destruct (acc_get entry a1 k).
    + cbn; repeat split; auto.
    + destruct (B <=? _); cbn; repeat split; auto.
  - unfold qflush. cbn [m_acc m_chan m_parked m_wq m_rank m_store]. destruct (acc_get entry a1 k); cbn; repeat split; auto.
  - unfold sflush_acc. cbn [m_acc m_chan m_parked m_wq m_rank m_store]. destruct (acc_get entry a1 k); cbn; repeat split; auto.
  - cbn; repeat split; auto.
  - unfold recv. cbn [m_acc m_chan m_parked m_wq m_rank m_store]. destruct w1; [|cbn; repeat split; auto].
    destruct c1; [cbn; repeat split; auto|]. destruct (_ || _); cbn; repeat split; auto.
  - unfold write. cbn [m_acc m_chan m_parked m_wq m_rank m_store]. destruct w1 as [|[k b] w1]; cbn; repeat split; auto.
Qed.

Lemma exec_rel ops : forall s1 s2, mrel s1 s2 ->
  mrel (exec entry store1 f1 B P ops s1) (exec entry store2 f2 B P ops s2).
Proof.
  induction ops as [|o ops IH]; intros s1 s2 H; cbn [exec fold_left]; auto.
  apply IH. apply step_rel. exact H.
Qed.

Lemma flush_list_rel l : forall a b, R a b -> R (flush_list entry store1 f1 a l) (flush_list entry store2 f2 b l).
Proof. induction l as [|[k v] l IH]; intros a b H; cbn; auto. Qed.

Lemma drain_rel ch : forall pk a b, R a b ->
  fst (drain entry store1 f1 P ch pk a) = fst (drain entry store2 f2 P ch pk b) /\
  R (snd (drain entry store1 f1 P ch pk a)) (snd (drain entry store2 f2 P ch pk b)).
Proof.
  induction ch as [|kb rest IH]; intros pk a b H; cbn [drain]; [cbn; auto|].
  destruct (_ || _); apply IH; auto. apply flush_list_rel. exact H.
Qed.

Lemma close_rel s1 s2 : mrel s1 s2 -> mrel (close entry store1 f1 P s1) (close entry store2 f2 P s2).
Proof.
  destruct s1 as [a1 c1 p1 w1 r1 t1], s2 as [a2 c2 p2 w2 r2 t2]. unfold mrel. cbn [m_acc m_chan m_parked m_wq m_rank m_store].
  intros (<- & <- & <- & <- & <- & HR). unfold close. cbn [m_acc m_chan m_parked m_wq m_rank m_store].
  pose proof (flush_list_rel w1 _ _ HR) as H0.
  destruct (drain_rel c1 p1 _ _ H0) as [Hf Hs].
  destruct (drain entry store1 f1 P c1 p1 _) as [pk1 st1]. destruct (drain entry store2 f2 P c1 p1 _) as [pk2 st2].
  cbn [fst snd] in *. subst pk2. cbn [m_acc m_chan m_parked m_wq m_rank m_store].
  repeat split; auto. apply flush_list_rel. apply flush_list_rel. exact Hs.
Qed.
End Sim.
