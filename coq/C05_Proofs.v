(* C05 — proofs: a sealed bucketteer file answers Has exactly like the writer's in-memory Has
   (both formats), hence no false negatives and the exact characterisation of positives. *)
From Coq Require Import List Arith Lia Bool PeanoNat NArith Sorting.Sorted Sorting.Permutation Sorting.Mergesort Orders.
From Coq Require Import ZifyN ZifyNat ZifyBool.
Import ListNotations.
Require Import Eytz Eytz2 Eytz3 Codec ReadAt C05_Model C05_Lemmas.
Local Open Scope N_scope.

(* ---------- hypotheses of the theorems ---------- *)
(* what Go's types guarantee of the writer state: prefixes are uint16, hashes uint64 *)
Definition w_ok (w : wstate) : Prop := Forall (fun e => fst e < two16 /\ snd e < two64) w.
(* FORCED by the code: the reader computes the bucket's byte length as uint32(numHashes*8) *)
Definition small (w : wstate) : Prop := forall p, N.of_nat (length (clean (bucket w p))) < 536870912.
(* FORCED for the legacy format only: borsh string lengths are read as int32-limited uint32 and the
   header size is stored in a uint32 *)
Definition meta_small (ver : version) (m : meta) : Prop :=
  match ver with V2 => True | V1 => N.of_nat (length (enc_meta1 m)) < 2147483648 end.

(* ---------- small helpers ---------- *)
Lemma file_reader_at (a b c : list N) off len :
  off = N.of_nat (length a) -> len = N.of_nat (length b) -> file_reader (a ++ b ++ c) off len = Some b.
Proof. intros -> ->. apply file_reader_mid. Qed.

Lemma file_reader_first (f : list N) : f <> [] -> exists bs, file_reader f 0 1 = Some bs.
Proof.
  intros Hf. destruct f as [|x f]; [congruence|]. unfold file_reader.
  replace (0 + 1 <=? N.of_nat (length (x :: f))) with true by (symmetry; apply N.leb_le; cbn [length]; lia).
  eauto.
Qed.

Lemma take_le_enc k x r : take k (le_enc k x ++ r) = Some (le_enc k x, r).
Proof. pose proof (take_app (le_enc k x) r) as H. now rewrite le_enc_length in H. Qed.

Lemma combine_In_l {A B} (ps : list A) : forall (os : list B) p,
  In p ps -> length os = length ps -> exists o, In (p, o) (combine ps os).
Proof.
  induction ps as [|q ps IH]; intros os p Hin Hl; [destruct Hin|].
  destruct os as [|o os]; [discriminate|]. cbn [combine]. destruct Hin as [->|Hin].
  - exists o. now left.
  - destruct (IH os p Hin) as [o' Ho]; [cbn in Hl; lia|]. exists o'. now right.
Qed.

Lemma map_fst_combine_eq {A B} (ps : list A) : forall (os : list B),
  length os = length ps -> map fst (combine ps os) = ps.
Proof.
  induction ps as [|q ps IH]; intros os Hl; [reflexivity|].
  destruct os as [|o os]; [discriminate|]. cbn [combine map fst]. f_equal. apply IH. cbn in Hl; lia.
Qed.

Lemma offsets_length bks : forall off, length (offsets off bks) = length bks.
Proof. induction bks as [|b r IH]; intros off; cbn [offsets length]; auto. Qed.

Lemma offsets_lt bks : forall off, off < two64 -> Forall (fun o => o < two64) (offsets off bks).
Proof.
  induction bks as [|b r IH]; intros off Ho; cbn [offsets]; constructor; auto.
  apply IH. apply N.mod_lt. unfold two64. lia.
Qed.

Lemma bucket_bytes_length es : N.of_nat (length (bucket_bytes es)) = bucket_size es.
Proof.
  unfold bucket_bytes, bucket_size. rewrite app_length, le_enc_length, flat_map_le8_length. lia.
Qed.

(* ---------- layout of the buckets ---------- *)
Lemma layout_split (g : N -> list N) : forall ps off,
  off + N.of_nat (length (flat_map bucket_bytes (map g ps))) < two64 ->
  forall p o, In (p, o) (combine ps (offsets off (map g ps))) ->
  exists pre post, flat_map bucket_bytes (map g ps) = pre ++ bucket_bytes (g p) ++ post
                   /\ o = off + N.of_nat (length pre).
Proof.
  induction ps as [|q ps IH]; intros off Hb p o Hin; cbn [map offsets combine flat_map] in *; [destruct Hin|].
  rewrite app_length in Hb. pose proof (bucket_bytes_length (g q)) as Hq.
  destruct Hin as [E|Hin].
  - inversion E; subst. exists [], (flat_map bucket_bytes (map g ps)). split; [reflexivity|]. cbn [length]. lia.
  - rewrite N.mod_small in Hin by lia.
    destruct (IH (off + bucket_size (g q)) ltac:(lia) p o Hin) as (pre & post & E & Ho).
    exists (bucket_bytes (g q) ++ pre), post. split.
    + rewrite E, app_assoc. reflexivity.
    + rewrite app_length. lia.
Qed.

Lemma body_length_bound (g : N -> list N) (ps : list N) :
  (forall p, N.of_nat (length (g p)) < 536870912) ->
  N.of_nat (length (flat_map bucket_bytes (map g ps))) <= N.of_nat (length ps) * 4294967300.
Proof.
  intros Hg. induction ps as [|q ps IH]; cbn [map flat_map length]; [lia|].
  rewrite app_length. pose proof (bucket_bytes_length (g q)) as Hq. unfold bucket_size in Hq.
  specialize (Hg q). lia.
Qed.

(* ---------- the list of prefixes written ---------- *)
Lemma prefixes_NoDup ver w : NoDup (prefixes ver w).
Proof.
  destruct ver; cbn [prefixes].
  - eapply Permutation_NoDup; [apply PSort.Permuted_sort|]. apply NoDup_nodup.
  - apply nseq_NoDup.
Qed.

Lemma prefixes_V1_In w p : In p (prefixes V1 w) <-> In p (map fst w).
Proof.
  cbn [prefixes]. split; intros H.
  - apply (nodup_In N.eq_dec). eapply Permutation_in; [apply Permutation_sym, PSort.Permuted_sort|exact H].
  - eapply Permutation_in; [apply PSort.Permuted_sort|]. now apply (nodup_In N.eq_dec).
Qed.

Lemma prefixes_V2_In w p : In p (prefixes V2 w) <-> p < two16.
Proof. cbn [prefixes]. rewrite nseq_In. unfold two16. lia. Qed.

Lemma prefixes_lt ver w p : w_ok w -> In p (prefixes ver w) -> p < two16.
Proof.
  intros Hw Hin. destruct ver.
  - apply prefixes_V1_In in Hin. apply in_map_iff in Hin. destruct Hin as [e [<- He]].
    unfold w_ok in Hw. rewrite Forall_forall in Hw. now apply Hw.
  - now apply prefixes_V2_In in Hin.
Qed.

Lemma bounded_NoDup_length (l : list N) :
  NoDup l -> (forall p, In p l -> p < two16) -> N.of_nat (length l) <= two16.
Proof.
  intros ND Hb.
  assert (H : (length l <= length (nseq (N.to_nat two16) 0))%nat).
  { apply NoDup_incl_length; auto. intros p Hp. apply nseq_In. specialize (Hb p Hp). unfold two16 in *. lia. }
  rewrite nseq_length in H. unfold two16 in *. lia.
Qed.

Lemma prefixes_length ver w : w_ok w -> N.of_nat (length (prefixes ver w)) <= two16.
Proof.
  intros Hw. apply bounded_NoDup_length; [apply prefixes_NoDup|]. intros p. now apply prefixes_lt.
Qed.

(* ---------- the buckets ---------- *)
Lemma bucket_lt w p x : w_ok w -> In x (bucket w p) -> x < two64.
Proof.
  intros Hw Hin. unfold bucket in Hin. apply in_map_iff in Hin. destruct Hin as [e [<- He]].
  apply filter_In in He. destruct He as [He _]. unfold w_ok in Hw. rewrite Forall_forall in Hw. now apply Hw.
Qed.

Lemma bucket_absent w p : ~ In p (map fst w) -> bucket w p = [].
Proof.
  intros Hn. unfold bucket. induction w as [|e w IH]; [reflexivity|]. cbn [filter map].
  cbn [map In] in Hn. destruct (N.eqb_spec (fst e) p) as [E|E]; [tauto|]. apply IH. tauto.
Qed.

Lemma entries_length w p : length (entries_of w p) = length (clean (bucket w p)).
Proof. unfold entries_of. rewrite eytz_length. apply sorted_set_length. Qed.

Lemma entries_In w p x : In x (entries_of w p) -> In x (bucket w p).
Proof. unfold entries_of. intros H. apply eytz_incl in H. exact (proj1 (sorted_set_In _ _) H). Qed.

Lemma entries_complete w p x :
  In x (bucket w p) ->
  search N 0 idN (S (length (entries_of w p))) (entries_of w p) x 0 = Some x.
Proof.
  intros Hin0. pose proof (proj2 (sorted_set_In (bucket w p) x) Hin0) as Hin.
  destruct (In_nth _ _ 0 Hin) as [r [Hr Hx]].
  pose proof (eytz_lookup_complete N 0 idN (sorted_set (bucket w p)) (sorted_set_strict (bucket w p)) r Hr) as H.
  unfold lookup, idN in H. rewrite Hx in H. exact H.
Qed.

(* ---------- header ---------- *)
Lemma enc_header_length ver hsz mb tab :
  length (enc_header ver hsz mb tab) = (4 + (8 + (8 + (length mb + (8 + 10 * length tab)))))%nat.
Proof.
  unfold enc_header. rewrite !app_length, !le_enc_length, enc_tab_length.
  replace (length (magic ver)) with 8%nat by (destruct ver; reflexivity). reflexivity.
Qed.

Lemma open_sealed ver hsz mb tab body :
  (forall rest, skip_meta ver (mb ++ rest) = Ok rest) ->
  Forall (fun e => fst e < two16 /\ snd e < two64) tab ->
  N.of_nat (length tab) < two64 ->
  hsz < two32 ->
  hsz + 4 = N.of_nat (length (enc_header ver hsz mb tab)) ->
  open_ ver (file_reader (enc_header ver hsz mb tab ++ body)) = Ok {| r_tab := rev tab; r_base := hsz + 4 |}.
Proof.
  intros Hmeta Htab Hcnt Hhsz Hlen.
  set (rest_hdr := magic ver ++ le_enc 8 (version_num ver) ++ mb
                   ++ le_enc 8 (N.of_nat (length tab) mod two64) ++ enc_tab tab).
  assert (Ehdr : enc_header ver hsz mb tab = le_enc 4 hsz ++ rest_hdr) by reflexivity.
  assert (Hrl : N.of_nat (length rest_hdr) = hsz).
  { rewrite Ehdr, app_length, le_enc_length in Hlen. lia. }
  set (f := enc_header ver hsz mb tab ++ body).
  assert (Ef : f = [] ++ le_enc 4 hsz ++ (rest_hdr ++ body)).
  { unfold f. rewrite Ehdr, <- app_assoc. reflexivity. }
  assert (Ef2 : f = le_enc 4 hsz ++ rest_hdr ++ body).
  { unfold f. rewrite Ehdr, <- app_assoc. reflexivity. }
  assert (H1 : exists bs, file_reader f 0 1 = Some bs).
  { apply file_reader_first. rewrite Ef2. cbn [le_enc app]. discriminate. }
  destruct H1 as [bs1 H1].
  assert (H4 : file_reader f 0 4 = Some (le_enc 4 hsz)).
  { rewrite Ef. apply file_reader_at; [reflexivity|]. now rewrite le_enc_length. }
  assert (Hh : file_reader f 4 hsz = Some rest_hdr).
  { rewrite Ef2. apply file_reader_at; [now rewrite le_enc_length|]. now rewrite Hrl. }
  unfold open_. fold f. rewrite H1, H4.
  rewrite le_roundtrip by (unfold two32 in Hhsz; cbn; lia).
  rewrite Hh. unfold rest_hdr.
  replace magic_len with (length (magic ver)) by (destruct ver; reflexivity). rewrite take_app. rewrite list_eqb_refl. cbn [negb].
  rewrite take_le_enc. rewrite le_roundtrip by (destruct ver; vm_compute; reflexivity). rewrite N.eqb_refl. cbn [negb].
  rewrite Hmeta. rewrite take_le_enc.
  rewrite N.mod_small by exact Hcnt. rewrite le_roundtrip by (unfold two64 in Hcnt; cbn; lia).
  rewrite parse_tab_roundtrip; [|exact Htab|rewrite enc_tab_length; lia].
  rewrite app_nil_r. reflexivity.
Qed.

Section P.
Variable hash : list N -> N.

Lemma puts_map sigs : puts hash sigs = map (fun s => (prefix s, h64 hash s)) sigs.
Proof.
  unfold puts.
  assert (G : forall w, fold_left (put hash) sigs w = w ++ map (fun s => (prefix s, h64 hash s)) sigs).
  { induction sigs as [|s sigs IH]; intros w; cbn [fold_left map]; [now rewrite app_nil_r|].
    rewrite IH. unfold put. rewrite <- app_assoc. reflexivity. }
  apply G.
Qed.

(* Put appends the hash to the slice of its prefix and touches no other slice *)
Lemma bucket_put w s p :
  bucket (put hash w s) p = if prefix s =? p then bucket w p ++ [h64 hash s] else bucket w p.
Proof.
  unfold bucket, put. rewrite filter_app, map_app. cbn [filter fst].
  destruct (prefix s =? p); cbn [map snd]; [reflexivity|now rewrite app_nil_r].
Qed.

Lemma h64_lt s : h64 hash s < two64.
Proof. unfold h64. apply N.mod_lt. unfold two64. lia. Qed.

Lemma prefix_lt s : wf_sig s -> prefix s < two16.
Proof.
  intros [Hl Hb]. unfold prefix, two16.
  do 2 (destruct s as [|? s]; [discriminate|]). cbn [nth].
  inversion Hb as [|? ? H0 Hb']; subst. inversion Hb' as [|? ? H1 _]; subst. lia.
Qed.

Lemma puts_ok sigs : Forall wf_sig sigs -> w_ok (puts hash sigs).
Proof.
  intros H. rewrite puts_map. unfold w_ok. apply Forall_forall. intros e He.
  apply in_map_iff in He. destruct He as [s [<- Hs]]. cbn [fst snd].
  rewrite Forall_forall in H. split; [apply prefix_lt; auto|apply h64_lt].
Qed.

Lemma writer_has_spec w s : writer_has hash w s = true <-> In (h64 hash s) (bucket w (prefix s)).
Proof.
  unfold writer_has. rewrite existsb_exists. split.
  - intros [x [Hx E]]. apply N.eqb_eq in E. now subst.
  - intros H. exists (h64 hash s). split; [exact H|apply N.eqb_refl].
Qed.

Lemma bucket_puts_In sigs p x :
  In x (bucket (puts hash sigs) p) <-> exists s, In s sigs /\ prefix s = p /\ h64 hash s = x.
Proof.
  rewrite puts_map. unfold bucket. rewrite in_map_iff. split.
  - intros [e [<- He]]. apply filter_In in He. destruct He as [He Hp].
    apply in_map_iff in He. destruct He as [s [<- Hs]]. cbn [fst snd] in *. apply N.eqb_eq in Hp. eauto.
  - intros [s [Hs [Hp Hx]]]. exists (prefix s, h64 hash s). split; [exact Hx|].
    apply filter_In. split; [apply in_map_iff; eauto|]. cbn [fst]. now apply N.eqb_eq.
Qed.

(* ---------- Has on a located bucket ---------- *)
Lemma has_located ver (hdr pre es post : list N) (tab : list (N * N)) (s : list N) (o : N) :
  NoDup (map fst tab) -> In (prefix s, o) tab ->
  o = N.of_nat (length pre) -> o < two63 ->
  N.of_nat (length es) < 536870912 ->
  (forall x, In x es -> x < two64) ->
  exists b,
    has hash ver (file_reader (hdr ++ pre ++ bucket_bytes es ++ post))
        {| r_tab := rev tab; r_base := N.of_nat (length hdr) |} s = Ok b
    /\ (b = true -> In (h64 hash s) es)
    /\ (forall f e, search N 0 idN f es (h64 hash s) 0 = Some e -> b = true).
Proof.
  intros ND Hin Ho Ho63 Hsmall Hes.
  set (f := hdr ++ pre ++ bucket_bytes es ++ post).
  set (cntb := le_enc 4 (N.of_nat (length es) mod two32)).
  set (elems := flat_map (le_enc 8) es).
  assert (Ef : f = (hdr ++ pre) ++ cntb ++ (elems ++ post)).
  { unfold f, bucket_bytes. fold cntb elems. rewrite <- !app_assoc. reflexivity. }
  unfold has. cbn [r_tab r_base]. unfold lookup_off. rewrite (find_rev_unique tab _ o ND Hin). cbn [snd].
  assert (Hlk : (match ver with V1 => Some o | V2 => if o =? maxu64 then None else Some o end) = Some o).
  { destruct ver; [reflexivity|]. replace (o =? maxu64) with false; [reflexivity|].
    symmetry. apply N.eqb_neq. unfold two63, maxu64 in *. lia. }
  rewrite Hlk. replace (two63 <=? o) with false by (symmetry; apply N.leb_gt; exact Ho63).
  fold f.
  assert (Hcnt : file_reader f (N.of_nat (length hdr) + o) 4 = Some cntb).
  { rewrite Ef. apply file_reader_at; [rewrite app_length; lia|]. unfold cntb. now rewrite le_enc_length. }
  rewrite Hcnt. cbv zeta. unfold cntb.
  assert (Hm : N.of_nat (length es) mod two32 = N.of_nat (length es)) by (apply N.mod_small; unfold two32; lia).
  rewrite Hm. rewrite le_roundtrip by (cbn; lia).
  assert (Hlim : (N.of_nat (length es) * 8) mod two32 = N.of_nat (length es) * 8) by (apply N.mod_small; unfold two32; lia).
  rewrite Hlim.
  set (get := fun idx : N => if idx * 8 + 8 <=? N.of_nat (length es) * 8
       then match file_reader f (N.of_nat (length hdr) + o + 4 + idx * 8) 8 with
            | Some eb => Some (le_dec eb) | None => None end
       else None).
  assert (Hget : forall i : nat, (i < length es)%nat -> get (N.of_nat i) = Some (nth i es 0)).
  { intros i Hi. unfold get.
    replace (N.of_nat i * 8 + 8 <=? N.of_nat (length es) * 8) with true by (symmetry; apply N.leb_le; lia).
    assert (Hr : file_reader f (N.of_nat (length hdr) + o + 4 + N.of_nat i * 8) 8 = Some (le_enc 8 (nth i es 0))).
    { rewrite file_reader_spec.
      replace (N.to_nat (N.of_nat (length hdr) + o + 4 + N.of_nat i * 8))
        with (length (hdr ++ pre ++ cntb) + i * 8)%nat
        by (rewrite !app_length; unfold cntb; rewrite le_enc_length; lia).
      change (N.to_nat 8) with 8%nat.
      assert (Ef' : f = (hdr ++ pre ++ cntb) ++ (concat (map (le_enc 8) es) ++ post)).
      { rewrite Ef. unfold elems. rewrite flat_map_concat_map, <- !app_assoc. reflexivity. }
      rewrite Ef'. rewrite read_at_shift. apply read_at_prefix.
      apply read_at_concat_uniform.
      - apply Forall_forall. intros x Hx. apply in_map_iff in Hx. destruct Hx as [y [<- _]]. apply le_enc_length.
      - rewrite nth_error_map. rewrite (nth_error_nth' es 0 Hi). reflexivity. }
    rewrite Hr. rewrite le_roundtrip; [reflexivity|].
    specialize (Hes (nth i es 0) (nth_In es 0 Hi)). unfold two64 in Hes. cbn. lia. }
  assert (Hfuel : N.of_nat (length es) < (0 + 1) * 2 ^ N.of_nat search_fuel).
  { change (N.of_nat search_fuel) with 64. lia. }
  destruct (bsearch_total get (N.of_nat (length es)) (h64 hash s)) with (F := search_fuel) (idx := 0) as [b Hb].
  - intros j Hj. replace j with (N.of_nat (N.to_nat j)) by lia. rewrite Hget by lia. discriminate.
  - exact Hfuel.
  - exists b. split; [exact Hb|]. split.
    + intros ->. apply bsearch_sound in Hb. destruct Hb as [j [Hj Hg]].
      replace j with (N.of_nat (N.to_nat j)) in Hg by lia. rewrite Hget in Hg by lia.
      assert (Hx : nth (N.to_nat j) es 0 = h64 hash s) by congruence. rewrite <- Hx. apply nth_In. lia.
    + intros fu e Hs.
      pose proof (bsearch_complete es get (h64 hash s) Hget fu 0%nat e Hs search_fuel Hfuel) as Hc.
      change (N.of_nat 0) with 0 in Hc. rewrite Hc in Hb. now inversion Hb.
Qed.

(* ---------- the main lemma: the sealed file answers like the writer ---------- *)
Lemma sealed_file_has ver m w f s :
  w_ok w -> small w -> meta_small ver m -> seal ver m w = Ok f -> prefix s < two16 ->
  file_has hash ver f s = Ok (writer_has hash w s).
Proof.
  intros Hw Hsm Hms Hseal Hp.
  unfold seal in Hseal. destruct (enc_meta ver m) as [mb|] eqn:Emeta; [|discriminate]. cbv zeta in Hseal.
  set (ps := prefixes ver w) in *. set (bks := map (entries_of w) ps) in *.
  set (tab0 := map (fun p => (p, 0)) ps) in *.
  set (tab := combine ps (offsets 0 bks)) in *.
  set (body := flat_map bucket_bytes bks) in *.
  set (hdr0 := enc_header ver 0 mb tab0) in *.
  set (hsz := N.of_nat (length hdr0 - 4) mod two32) in *.
  set (hdr := enc_header ver hsz mb tab) in *.
  assert (Hf : overwrite (hdr0 ++ body) hdr = f) by (injection Hseal; auto). clear Hseal.
  (* sizes *)
  assert (Hpsl : N.of_nat (length ps) <= two16) by (apply prefixes_length; exact Hw).
  assert (Hol : length (offsets 0 bks) = length ps).
  { rewrite offsets_length. unfold bks. apply map_length. }
  assert (Htl : length tab = length ps).
  { unfold tab. rewrite combine_length, Hol. lia. }
  assert (Ht0l : length tab0 = length ps) by (unfold tab0; apply map_length).
  assert (Hmb : N.of_nat (length mb) < 2147483648).
  { destruct ver; cbn [enc_meta meta_small] in *.
    - inversion Emeta; subst. exact Hms.
    - pose proof (enc_meta2_small m mb Emeta) as Hb2. clear - Hb2. lia. }
  assert (Hlen0 : length hdr0 = length hdr).
  { unfold hdr0, hdr. rewrite !enc_header_length, Htl, Ht0l. reflexivity. }
  assert (Hhl : N.of_nat (length hdr) = 28 + N.of_nat (length mb) + 10 * N.of_nat (length ps)).
  { unfold hdr. rewrite enc_header_length, Htl. lia. }
  assert (Hhsz : hsz = N.of_nat (length hdr) - 4).
  { unfold hsz. rewrite Hlen0. rewrite N.mod_small; unfold two32, two16 in *; lia. }
  assert (Efile : f = hdr ++ body).
  { rewrite <- Hf. apply overwrite_same. exact Hlen0. }
  (* the table *)
  assert (Hfst : map fst tab = ps) by (unfold tab; apply map_fst_combine_eq; exact Hol).
  assert (HND : NoDup (map fst tab)) by (rewrite Hfst; apply prefixes_NoDup).
  assert (Hbody : N.of_nat (length body) <= N.of_nat (length ps) * 4294967300).
  { unfold body, bks. apply body_length_bound. intros p. rewrite entries_length. apply Hsm. }
  assert (Htab : Forall (fun e => fst e < two16 /\ snd e < two64) tab).
  { apply Forall_forall. intros [p o] He. cbn [fst snd]. split.
    - apply (prefixes_lt ver w); auto. fold ps. rewrite <- Hfst. change p with (fst (p, o)). now apply in_map.
    - unfold tab in He. apply in_combine_r in He.
      pose proof (offsets_lt bks 0 ltac:(unfold two64; lia)) as Hall. rewrite Forall_forall in Hall. now apply Hall. }
  assert (Hmeta : forall rest, skip_meta ver (mb ++ rest) = Ok rest).
  { intros rest. destruct ver; cbn [skip_meta enc_meta meta_small] in *.
    - injection Emeta as Emb. rewrite <- Emb. apply skip_meta1_roundtrip. exact Hms.
    - now apply (skip_meta2_roundtrip m). }
  assert (Hopen : open_ ver (file_reader f) = Ok {| r_tab := rev tab; r_base := N.of_nat (length hdr) |}).
  { rewrite Efile. unfold hdr.
    replace (N.of_nat (length (enc_header ver hsz mb tab))) with (hsz + 4) by (fold hdr; lia).
    apply open_sealed; auto.
    - rewrite Htl. unfold two64, two16 in *. lia.
    - rewrite Hhsz. unfold two32, two16 in *. lia.
    - fold hdr. lia. }
  unfold file_has. rewrite Hopen.
  destruct (in_dec N.eq_dec (prefix s) ps) as [Hin|Hnin].
  - (* the prefix has a bucket in the file *)
    destruct (combine_In_l ps (offsets 0 bks) (prefix s) Hin Hol) as [o Ho]. fold tab in Ho.
    assert (Hb64 : 0 + N.of_nat (length (flat_map bucket_bytes (map (entries_of w) ps))) < two64).
    { fold bks body. unfold two64, two16 in *. lia. }
    destruct (layout_split (entries_of w) ps 0 Hb64 (prefix s) o Ho) as (pre & post & Eb & Eo).
    fold bks body in Eb.
    assert (Ho63 : o < two63).
    { assert (N.of_nat (length pre) <= N.of_nat (length body)) by (rewrite Eb, app_length; lia).
      unfold two63, two16 in *. lia. }
    assert (Hes_small : N.of_nat (length (entries_of w (prefix s))) < 536870912).
    { rewrite entries_length. apply Hsm. }
    assert (Hes_lt : forall x, In x (entries_of w (prefix s)) -> x < two64).
    { intros x Hx. apply entries_In in Hx. exact (bucket_lt w (prefix s) x Hw Hx). }
    assert (Eo' : o = N.of_nat (length pre)) by lia.
    destruct (has_located ver hdr pre (entries_of w (prefix s)) post tab s o HND Ho Eo' Ho63 Hes_small Hes_lt)
      as (b & Hb & Hsound & Hcomplete).
    rewrite Efile, Eb, Hb. f_equal.
    destruct (writer_has hash w s) eqn:Ewh.
    + apply writer_has_spec in Ewh. eapply Hcomplete. apply entries_complete. exact Ewh.
    + destruct b; [|reflexivity]. specialize (Hsound eq_refl). apply entries_In in Hsound.
      apply writer_has_spec in Hsound. congruence.
  - (* legacy format only: no bucket was ever created for this prefix *)
    assert (Hv : ver = V1).
    { destruct ver; [reflexivity|]. exfalso. apply Hnin. unfold ps. now apply prefixes_V2_In. }
    subst ver.
    assert (Hab : ~ In (prefix s) (map fst w)).
    { intros H. apply Hnin. unfold ps. now apply prefixes_V1_In. }
    unfold has, lookup_off. cbn [r_tab]. rewrite find_rev_absent by (rewrite Hfst; exact Hnin).
    unfold writer_has. rewrite bucket_absent by exact Hab. reflexivity.
Qed.

(* ---------- the three statements of the property ---------- *)
Theorem no_false_negative ver m sigs f :
  Forall wf_sig sigs -> small (puts hash sigs) -> meta_small ver m ->
  seal ver m (puts hash sigs) = Ok f ->
  forall s, In s sigs -> file_has hash ver f s = Ok true.
Proof.
  intros Hwf Hsm Hms Hseal s Hs.
  rewrite (sealed_file_has ver m (puts hash sigs) f s); auto.
  - f_equal. apply writer_has_spec. apply bucket_puts_In. eauto.
  - now apply puts_ok.
  - apply prefix_lt. rewrite Forall_forall in Hwf. auto.
Qed.

Theorem positive_char ver m sigs f :
  Forall wf_sig sigs -> small (puts hash sigs) -> meta_small ver m ->
  seal ver m (puts hash sigs) = Ok f ->
  forall s, wf_sig s -> file_has hash ver f s = Ok true ->
  exists s', In s' sigs /\ prefix s' = prefix s /\ h64 hash s' = h64 hash s.
Proof.
  intros Hwf Hsm Hms Hseal s Hs Hh.
  rewrite (sealed_file_has ver m (puts hash sigs) f s) in Hh; auto.
  - inversion Hh as [Hw]. apply writer_has_spec in Hw. now apply bucket_puts_In in Hw.
  - now apply puts_ok.
  - now apply prefix_lt.
Qed.

Theorem writer_agrees ver m sigs f :
  Forall wf_sig sigs -> small (puts hash sigs) -> meta_small ver m ->
  seal ver m (puts hash sigs) = Ok f ->
  forall s, wf_sig s -> file_has hash ver f s = Ok (writer_has hash (puts hash sigs) s).
Proof.
  intros Hwf Hsm Hms Hseal s Hs. apply (sealed_file_has ver m); auto.
  - now apply puts_ok.
  - now apply prefix_lt.
Qed.

(* the in-memory membership test is exactly "an added signature with this prefix and this hash" *)
Theorem writer_has_char sigs s :
  writer_has hash (puts hash sigs) s = true <->
  exists s', In s' sigs /\ prefix s' = prefix s /\ h64 hash s' = h64 hash s.
Proof. rewrite writer_has_spec. apply bucket_puts_In. Qed.

(* sealing fails only on metadata the current format refuses (more than 255 pairs / 255-byte strings) *)
Theorem seal_succeeds ver m w :
  (exists mb, enc_meta ver m = Some mb) -> exists f, seal ver m w = Ok f.
Proof. intros [mb E]. unfold seal. rewrite E. eauto. Qed.

End P.

(* ---------- the model's fuel never decides an answer ---------- *)
Lemma take_lengths n : forall bs a r, take n bs = Some (a, r) -> length bs = (n + length r)%nat.
Proof.
  induction n as [|n IH]; intros bs a r H; cbn [take] in H.
  - inversion H; subst. reflexivity.
  - destruct bs as [|b bs]; [discriminate|]. destruct (take n bs) as [[a' r']|] eqn:E; [|discriminate].
    inversion H; subst. cbn [length]. rewrite (IH bs a' r E). lia.
Qed.

Lemma read_str1_shorter bs r : read_str1 bs = Some r -> (length r + 4 <= length bs)%nat.
Proof.
  unfold read_str1. destruct (take 4 bs) as [[lb r0]|] eqn:E; [|discriminate].
  apply take_lengths in E. destruct (max_i32 <? le_dec lb); [discriminate|].
  destruct (le_dec lb <=? N.of_nat (length r0)); [|discriminate].
  intros H; inversion H; subst. rewrite skipn_length. lia.
Qed.

Lemma skip_kvs1_fuel_enough : forall fuel cnt bs, (length bs < fuel)%nat -> skip_kvs1 fuel cnt bs <> OutOfFuel.
Proof.
  induction fuel as [|fuel IH]; intros cnt bs Hf; [lia|]. cbn [skip_kvs1].
  destruct (cnt =? 0); [discriminate|].
  destruct (read_str1 bs) as [r1|] eqn:E1; [|discriminate].
  destruct (read_str1 r1) as [r2|] eqn:E2; [|discriminate].
  apply read_str1_shorter in E1, E2. apply IH. lia.
Qed.

Lemma open_fuel_enough ver R : open_ ver R <> OutOfFuel.
Proof.
  unfold open_.
  destruct (R 0 1); [|discriminate]. destruct (R 0 4); [|discriminate].
  destruct (R 4 _) as [buf|]; [|discriminate].
  destruct (take magic_len buf) as [[mg b1]|]; [|discriminate].
  destruct (negb _); [discriminate|].
  destruct (take 8 b1) as [[vb b2]|]; [|discriminate].
  destruct (negb _); [discriminate|].
  assert (Hm : skip_meta ver b2 <> OutOfFuel).
  { destruct ver; cbn [skip_meta].
    - unfold skip_meta1. destruct (take 8 b2) as [[cb r]|]; [|discriminate]. apply skip_kvs1_fuel_enough. lia.
    - unfold skip_meta2. destruct b2 as [|n r]; [discriminate|]. destruct (skip_kvs2 _ r); discriminate. }
  destruct (skip_meta ver b2) as [b3| |]; [|discriminate|congruence].
  destruct (take 8 b3) as [[cb b4]|]; [|discriminate].
  pose proof (parse_tab_fuel_enough (S (length b4)) (le_dec cb) b4 [] ltac:(lia)) as Hp.
  destruct (parse_tab _ _ b4 []); [discriminate|discriminate|congruence].
Qed.

Lemma le_dec_bound bs : Forall (fun b => b < 256) bs -> le_dec bs < 256 ^ N.of_nat (length bs).
Proof.
  induction 1 as [|b r Hb Hr IH]; cbn [le_dec length]; [cbn; lia|].
  rewrite Nat2N.inj_succ, N.pow_succ_r'. lia.
Qed.

Lemma Forall_firstn_ {A} (P : A -> Prop) n : forall l, Forall P l -> Forall P (firstn n l).
Proof.
  induction n as [|n IH]; intros l H; cbn [firstn]; [constructor|].
  destruct l as [|x l]; [constructor|]. inversion H; subst. constructor; auto.
Qed.
Lemma Forall_skipn_ {A} (P : A -> Prop) n : forall l, Forall P l -> Forall P (skipn n l).
Proof.
  induction n as [|n IH]; intros l H; cbn [skipn]; auto.
  destruct l as [|x l]; [constructor|]. inversion H; subst. auto.
Qed.

Lemma file_reader_bytes f off len bs :
  Forall (fun b => b < 256) f -> file_reader f off len = Some bs -> Forall (fun b => b < 256) bs.
Proof.
  intros Hf H. unfold file_reader in H. destruct (off + len <=? N.of_nat (length f)); [|discriminate].
  inversion H; subst. now apply Forall_firstn_, Forall_skipn_.
Qed.

Theorem file_has_fuel_enough (hash : list N -> N) ver f s :
  Forall (fun b => b < 256) f -> file_has hash ver f s <> OutOfFuel.
Proof.
  intros Hf. unfold file_has. pose proof (open_fuel_enough ver (file_reader f)) as Ho.
  destruct (open_ ver (file_reader f)) as [rd| |]; [|discriminate|congruence].
  unfold has. destruct (lookup_off ver (r_tab rd) (prefix s)) as [off|]; [|discriminate].
  destruct (two63 <=? off); [discriminate|].
  destruct (file_reader f (r_base rd + off) 4) as [nb|] eqn:E; [|discriminate].
  cbv zeta. apply bsearch_fuel_enough. change (N.of_nat search_fuel) with 64.
  pose proof (file_reader_bytes f _ _ nb Hf E) as Hb. apply le_dec_bound in Hb.
  apply file_reader_some in E. rewrite E in Hb. change (N.of_nat (N.to_nat 4)) with 4 in Hb.
  change (256 ^ 4) with 4294967296 in Hb. lia.
Qed.

(* ---------- the forced hypothesis holds for every multiset of fewer than 2^29 signatures ---------- *)
Lemma dedup_from_length_le l : forall prev, (length (dedup_from prev l) <= length l)%nat.
Proof.
  induction l as [|x r IH]; intros prev; cbn [dedup_from length]; [lia|].
  destruct (x =? prev); cbn [length]; [specialize (IH prev)|specialize (IH x)]; lia.
Qed.

Lemma clean_length_le l : (length (clean l) <= length l)%nat.
Proof.
  unfold clean, dedup. rewrite (Permutation_length (NSort.Permuted_sort l)).
  destruct (NSort.sort l) as [|x r]; cbn [length]; [lia|]. pose proof (dedup_from_length_le r x). lia.
Qed.

Lemma filter_length_le_ {A} (g : A -> bool) (l : list A) : (length (filter g l) <= length l)%nat.
Proof. induction l as [|x l IH]; cbn [filter length]; [lia|]. destruct (g x); cbn [length]; lia. Qed.

Theorem small_of_few (hash : list N -> N) sigs :
  N.of_nat (length sigs) < 536870912 -> small (puts hash sigs).
Proof.
  intros H p. pose proof (clean_length_le (bucket (puts hash sigs) p)) as H1.
  assert (H2 : (length (bucket (puts hash sigs) p) <= length sigs)%nat).
  { unfold bucket. rewrite map_length. rewrite puts_map.
    etransitivity; [apply filter_length_le_|]. now rewrite map_length. }
  lia.
Qed.
