(* C19 — the translated predicate (Generated/FilterProgC19.v, regenerated from grpc-server.go on every check)
   computes the filter specification, for every filter, transaction and both stream paths, and never panics. *)
From Coq Require Import List Bool NArith.
Import ListNotations.
Require Import YF.C19_Stream YF.C19_Prog YF.Generated.FilterProgC19.

Lemma existsb_negb_forallb {A} (p : A -> bool) l : existsb (fun a => xorb true (p a)) l = negb (forallb p l).
Proof. induction l as [|a l IH]; cbn [existsb forallb]; [reflexivity|]. rewrite IH. destruct (p a); reflexivity. Qed.
Lemma existsb_xorb_false {A} (p : A -> bool) l : existsb (fun a => xorb false (p a)) l = existsb p l.
Proof. induction l as [|a l IH]; cbn [existsb]; [reflexivity|]. rewrite IH. destruct (p a); reflexivity. Qed.

Theorem filter_prog_is_spec : forall fo idx t,
  run filter_prog_c19 {| e_filter := fo; e_indexed := idx; e_tx := t |} =
  Return (spec {| e_filter := fo; e_indexed := idx; e_tx := t |}).
Proof.
  intros [f|] idx t; [|vm_compute; reflexivity].
  destruct f as [v fl inc exc req].
  unfold run, filter_prog_c19, spec, keep, keep_flt. cbn -[existsb forallb mentions xorb].
  rewrite ?existsb_negb_forallb, ?existsb_xorb_false.
  destruct v as [[|]|], fl as [[|]|], (x_vote t), (x_failed t), idx, inc as [|i0 inc'];
    cbn -[existsb forallb mentions xorb]; rewrite ?existsb_negb_forallb, ?existsb_xorb_false;
    repeat match goal with
           | |- context [existsb (mentions t) ?l] => destruct (existsb (mentions t) l)
           | |- context [forallb (mentions t) ?l] => destruct (forallb (mentions t) l)
           end; reflexivity.
Qed.

(* the predicate guards both send sites of processSlotTransactions with the same polarity *)
Lemma filter_send_sites : filter_send_sites_c19 = 2.
Proof. reflexivity. Qed.

(* corollary in the words of C19_Stream: what the scan path sends for a block is the filter of its transactions *)
Corollary scan_sends_filter f (l : list tx) :
  filter (fun t => match run filter_prog_c19 {| e_filter := f; e_indexed := false; e_tx := t |} with Return b => b | _ => false end) l
  = filter (keep f) l.
Proof.
  apply filter_ext. intros t. rewrite filter_prog_is_spec. unfold spec. cbn. destruct f; reflexivity.
Qed.

(* the translated txMentionsAccount searches exactly the lists the specification's [mentions] searches: the static keys
   and BOTH loaded-address lists (the address index records all three) *)
Theorem mention_sources_are_spec : forall x slot pos vote failed id a,
  run_mentions mention_sources_c19 x a = mentions (tx_of x slot pos vote failed id) a.
Proof.
  intros x slot pos vote failed id a. unfold run_mentions, mention_sources_c19, mentions, tx_of. cbn -[existsb N.eqb].
  cbn [existsb source_of]. rewrite existsb_app.
  repeat match goal with |- context [existsb (N.eqb a) ?l] => destruct (existsb (N.eqb a) l) end; reflexivity.
Qed.
