(* C10 — an epoch is served only from indexes built for that epoch and CAR.
   (1) index metadata codec (indexmeta/indexmeta.go): count byte, then per pair key-length byte, key,
       value-length byte, value;  (2) the identity checks of epoch.go:NewEpochFromConfig as a decision
       function over the identity each file carries. *)
From Coq Require Import List Arith Lia Bool PeanoNat NArith.
Import ListNotations.

(* ---------- metadata codec ---------- *)
Definition kv := (list N * list N)%type.
Definition enc_kv (p : kv) : list N :=
  N.of_nat (length (fst p)) :: fst p ++ N.of_nat (length (snd p)) :: snd p.
Definition wf_kv (p : kv) : Prop := length (fst p) <= 255 /\ length (snd p) <= 255.
Definition wf_meta (m : list kv) : Prop := length m <= 255 /\ Forall wf_kv m.
Definition wf_metab (m : list kv) : bool :=
  (length m <=? 255) && forallb (fun p => (length (fst p) <=? 255) && (length (snd p) <=? 255)) m.

(* MarshalBinary: error when a bound is exceeded *)
Definition encode_meta (m : list kv) : option (list N) :=
  if wf_metab m then Some (N.of_nat (length m) :: concat (map enc_kv m)) else None.

(* UnmarshalWithDecoder over the remaining bytes; io.ReadFull fails on a short read *)
Fixpoint dec_kvs (n : nat) (bs : list N) : option (list kv * list N) :=
  match n with
  | O => Some ([], bs)
  | S n' =>
      match bs with
      | [] => None
      | kl :: r1 =>
          let klen := N.to_nat kl in
          if length r1 <? klen then None else
          let key := firstn klen r1 in
          match skipn klen r1 with
          | [] => None
          | vl :: r2 =>
              let vlen := N.to_nat vl in
              if length r2 <? vlen then None else
              match dec_kvs n' (skipn vlen r2) with
              | Some (rest, tail) => Some ((key, firstn vlen r2) :: rest, tail)
              | None => None
              end
          end
      end
  end.
Definition decode_meta (bs : list N) : option (list kv * list N) :=
  match bs with
  | [] => Some ([], [])                       (* UnmarshalBinary: empty input = empty metadata *)
  | c :: r => dec_kvs (N.to_nat c) r
  end.

Lemma dec_enc_kvs m : forall tail, Forall wf_kv m ->
  dec_kvs (length m) (concat (map enc_kv m) ++ tail) = Some (m, tail).
Proof.
  induction m as [|[k v] m IH]; intros tail H; [reflexivity|].
  inversion H as [|? ? [Hk Hv] Hm]; subst. cbn [fst snd] in *.
  cbn [length map concat dec_kvs enc_kv fst snd app].
  rewrite <- !app_assoc. cbn [app]. rewrite Nat2N.id.
  replace (length (k ++ N.of_nat (length v) :: v ++ concat (map enc_kv m) ++ tail) <? length k) with false
    by (symmetry; apply Nat.ltb_ge; rewrite app_length; lia).
  rewrite firstn_app, Nat.sub_diag, firstn_O, app_nil_r, firstn_all.
  rewrite skipn_app, Nat.sub_diag, skipn_all. cbn [app skipn].
  rewrite Nat2N.id.
  replace (length (v ++ concat (map enc_kv m) ++ tail) <? length v) with false
    by (symmetry; apply Nat.ltb_ge; rewrite app_length; lia).
  rewrite firstn_app, Nat.sub_diag, firstn_O, app_nil_r, firstn_all.
  rewrite skipn_app, Nat.sub_diag, skipn_all. cbn [app skipn].
  rewrite IH by exact Hm. reflexivity.
Qed.

Lemma wf_metab_spec m : wf_metab m = true <-> wf_meta m.
Proof.
  unfold wf_metab, wf_meta. rewrite andb_true_iff, Nat.leb_le, forallb_forall, Forall_forall.
  split; intros [A B]; split; auto; intros p Hp; specialize (B p Hp).
  - apply andb_true_iff in B. destruct B as [B1 B2]. apply Nat.leb_le in B1, B2. split; auto.
  - destruct B as [B1 B2]. apply andb_true_iff; split; apply Nat.leb_le; auto.
Qed.

Theorem meta_roundtrip m bs tail : encode_meta m = Some bs -> m <> [] ->
  decode_meta (bs ++ tail) = Some (m, tail).
Proof.
  unfold encode_meta. destruct (wf_metab m) eqn:E; [|discriminate]. intros H Hne.
  assert (Hb : bs = N.of_nat (length m) :: concat (map enc_kv m)) by congruence. subst bs. clear H.
  apply wf_metab_spec in E. destruct E as [_ Hf].
  cbn [app decode_meta]. rewrite Nat2N.id. apply dec_enc_kvs. exact Hf.
Qed.

(* an empty metadata list encodes to the single byte 0 and decodes back to the empty list *)
Theorem meta_roundtrip_empty tail : decode_meta (0%N :: tail) = Some ([], tail).
Proof. reflexivity. Qed.

(* too large metadata is rejected by the encoder *)
Theorem meta_reject m : ~ wf_meta m -> encode_meta m = None.
Proof.
  intros H. unfold encode_meta. destruct (wf_metab m) eqn:E; [|reflexivity].
  apply wf_metab_spec in E. contradiction.
Qed.

(* ---------- load-time identity checks ---------- *)
Inductive kind := KCidToOffsetAndSize | KSlotToCid | KSigToCid | KPubkeyToOffsetAndSize | KSigExists | KBlocktime | KGsfaManifest | KUnknown.
Definition kind_eqb (a b : kind) : bool :=
  match a, b with
  | KCidToOffsetAndSize, KCidToOffsetAndSize | KSlotToCid, KSlotToCid | KSigToCid, KSigToCid
  | KPubkeyToOffsetAndSize, KPubkeyToOffsetAndSize | KSigExists, KSigExists | KBlocktime, KBlocktime
  | KGsfaManifest, KGsfaManifest => true
  | _, _ => false
  end.

(* what a file offered in some role carries: its kind (as recognised by the typed opener / magic), the epoch
   and root CID it records (None = the format records none) *)
Record ident := { i_kind : kind; i_epoch : option N; i_root : option N }.

Record config := {
  c_epoch : N;
  c_c2o : ident; c_s2c : ident; c_g2c : ident;
  c_gsfa : option (ident * ident);     (* manifest, pubkey-to-offset-and-size index *)
  c_sx : ident; c_bt : ident
}.

Definition opt_eqb (a : option N) (b : N) : bool := match a with Some x => N.eqb x b | None => false end.
(* root comparison against lastRootCid *)
Definition root_matches (r : option N) (last : N) : bool := opt_eqb r last.

(* checks_gsfa_offsets = false is the pinned tree (only the manifest of the address index is compared) *)
Definition load (checks_gsfa_offsets : bool) (c : config) : bool :=
  let e := c_epoch c in
  (* cid-to-offset-and-size: kind, epoch; its root becomes lastRootCid *)
  kind_eqb (i_kind (c_c2o c)) KCidToOffsetAndSize && opt_eqb (i_epoch (c_c2o c)) e &&
  match i_root (c_c2o c) with
  | None => false
  | Some root =>
      kind_eqb (i_kind (c_s2c c)) KSlotToCid && opt_eqb (i_epoch (c_s2c c)) e && root_matches (i_root (c_s2c c)) root &&
      kind_eqb (i_kind (c_g2c c)) KSigToCid && opt_eqb (i_epoch (c_g2c c)) e && root_matches (i_root (c_g2c c)) root &&
      match c_gsfa c with
      | None => true
      | Some (man, offs) =>
          kind_eqb (i_kind man) KGsfaManifest && opt_eqb (i_epoch man) e && root_matches (i_root man) root &&
          kind_eqb (i_kind offs) KPubkeyToOffsetAndSize &&
          (if checks_gsfa_offsets then opt_eqb (i_epoch offs) e && root_matches (i_root offs) root else true)
      end &&
      kind_eqb (i_kind (c_sx c)) KSigExists && opt_eqb (i_epoch (c_sx c)) e && root_matches (i_root (c_sx c)) root &&
      kind_eqb (i_kind (c_bt c)) KBlocktime && opt_eqb (i_epoch (c_bt c)) e      (* the block-time table records no root *)
  end.

Definition files (c : config) : list (kind * ident) :=
  [(KCidToOffsetAndSize, c_c2o c); (KSlotToCid, c_s2c c); (KSigToCid, c_g2c c); (KSigExists, c_sx c); (KBlocktime, c_bt c)] ++
  match c_gsfa c with Some (m, o) => [(KGsfaManifest, m); (KPubkeyToOffsetAndSize, o)] | None => [] end.

Ltac split_and := repeat match goal with X : (_ && _)%bool = true |- _ => apply andb_true_iff in X; destruct X end.

Theorem load_sound c : load true c = true ->
  exists root,
    Forall (fun p => i_kind (snd p) = fst p /\ i_epoch (snd p) = Some (c_epoch c) /\
                     (fst p <> KBlocktime -> i_root (snd p) = Some root)) (files c).
Proof.
  assert (K : forall a b, kind_eqb a b = true -> a = b) by (intros [] []; cbn; congruence).
  assert (O : forall a b, opt_eqb a b = true -> a = Some b).
  { intros [x|] b; cbn; [|discriminate]. intros E. apply N.eqb_eq in E. congruence. }
  unfold load, root_matches. intros H. split_and.
  destruct (i_root (c_c2o c)) as [root|] eqn:Er; [|discriminate].
  split_and. exists root. unfold files.
  assert (G : Forall (fun p => i_kind (snd p) = fst p /\ i_epoch (snd p) = Some (c_epoch c) /\
                     (fst p <> KBlocktime -> i_root (snd p) = Some root))
               match c_gsfa c with Some (m, o) => [(KGsfaManifest, m); (KPubkeyToOffsetAndSize, o)] | None => [] end).
  { destruct (c_gsfa c) as [[m o]|]; [|constructor]. split_and.
    repeat constructor; cbn [fst snd]; auto. }
  apply Forall_app. split; [|exact G].
  repeat constructor; cbn [fst snd]; auto; try congruence.
Qed.

(* the pinned tree accepts an address index whose pubkey index was built for another epoch / CAR *)
Lemma gsfa_offsets_unchecked_refuted :
  exists c m o, c_gsfa c = Some (m, o) /\ load false c = true /\ i_epoch o <> Some (c_epoch c).
Proof.
  set (good k := {| i_kind := k; i_epoch := Some 2%N; i_root := Some 7%N |}).
  exists {| c_epoch := 2; c_c2o := good KCidToOffsetAndSize; c_s2c := good KSlotToCid; c_g2c := good KSigToCid;
            c_gsfa := Some (good KGsfaManifest, {| i_kind := KPubkeyToOffsetAndSize; i_epoch := Some 3%N; i_root := Some 9%N |});
            c_sx := good KSigExists; c_bt := {| i_kind := KBlocktime; i_epoch := Some 2%N; i_root := None |} |}.
  eexists _, _. split; [reflexivity|]. split; [vm_compute; reflexivity|discriminate].
Qed.

(* ---------- checker ---------- *)
Inductive case :=
| CLoad (c : config) (accepted : bool)
| CMeta (m : list kv) (observed : option (list N))
| CMetaDec (bs : list N) (observed : option (list kv)).

Fixpoint bytes_eqb (a b : list N) : bool :=
  match a, b with [], [] => true | x :: r, y :: s => N.eqb x y && bytes_eqb r s | _, _ => false end.
Fixpoint kvs_eqb (a b : list kv) : bool :=
  match a, b with
  | [], [] => true
  | (k, v) :: r, (k', v') :: s => bytes_eqb k k' && bytes_eqb v v' && kvs_eqb r s
  | _, _ => false
  end.
Definition case_ok (c : case) : bool :=
  match c with
  | CLoad cfg acc => Bool.eqb (load true cfg) acc
  | CMeta m obs => match encode_meta m, obs with Some a, Some b => bytes_eqb a b | None, None => true | _, _ => false end
  | CMetaDec bs obs => match decode_meta bs, obs with Some (a, _), Some b => kvs_eqb a b | None, None => true | _, _ => false end
  end.
Fixpoint bad_from (i : nat) (cs : list case) : list nat :=
  match cs with [] => [] | c :: t => if case_ok c then bad_from (S i) t else i :: bad_from (S i) t end.
Definition check (cs : list case) : list nat := bad_from 0 cs.
