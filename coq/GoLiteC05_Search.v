(* C05 — searchEytzinger of bucketteer/read.go (and of deprecated/bucketteer/read.go: the same term), translated from
   the Go source on every check, is the model's [bsearch] (C05_Model.v, the search [has] runs) for every getter
   oracle, read errors included.

   Fuel.  The model's [bsearch F] answers [OutOfFuel] when F probes were not enough; the interpreter's loop spends one
   unit of ITS fuel per probe and one more to see the loop condition fail.  The relation proved here:
     whenever the model's answer with fuel F is definite (not OutOfFuel), the translated function run with ANY
     interpreter fuel f > F returns exactly that answer;
   and the model's answer is definite as soon as n < 2^F (C05_Lemmas.bsearch_fuel_enough) — in particular for the
   fuel 64 = [search_fuel] that [has] uses, on every count below 2^62. *)
From Coq Require Import List ZArith NArith String Bool Lia.
Import ListNotations.
Require Import YF.GoLite YF.GoLiteLemmas YF.Generated.GoLiteC05 YF.C05_Model YF.C05_Lemmas YF.GoLiteC04_Search.
Local Open Scope string_scope.
Local Open Scope Z_scope.

(* Everything below holds for ANY translated program that binds the name to this function term: bucketteer and
   deprecated/bucketteer. *)
Section Generic.
Variable prog : program.
Hypothesis prog_searchEytzinger : plookup "searchEytzinger" prog = Some fn_searchEytzinger.

Section Search.
  Variable get : N -> option N.                 (* the model's getter: None = the read of that element failed *)

  (* the Go getter func(int) (uint64, error) as an oracle of the interpreter *)
  Definition ext_getN : string -> list val -> option val := fun f args =>
    match f, args with
    | "getter", [VInt i] =>
        match get (Z.to_N i) with
        | Some k => Some (VTuple [VInt (Z.of_N k); VNil])
        | None => Some (VTuple [VInt 0; VErr "read"])
        end
    | _, _ => None
    end.

  (* what Has makes of the two results: (k, nil) with k = x -> true; ErrNotFound -> false; other errors -> error *)
  Definition encb (x : N) (r : outcome bool) : GoLite.res :=
    match r with
    | Ok true => RRet (VTuple [VInt (Z.of_N x); VNil])
    | Ok false => RRet (VTuple [VInt 0; VErr "ErrNotFound"])
    | Err => RRet (VTuple [VInt 0; VErr "read"])
    | OutOfFuel => RFuel
    end.

  Definition sb_body : stmt :=
    SSeq (SCallExt [LVar "k"; LVar "err"] "getter" [EVar "index"])
    (SSeq (SIf (ENot (EIsNil (EVar "err"))) (SReturn [EInt 0; EVar "err"]) SSkip)
    (SSeq (SIf (ECmp CEq (EVar "k") (EVar "x")) (SReturn [EVar "k"; ENil]) SSkip)
    (SSeq (SAssign (LVar "index") (EBin OOr I64 (EShl I64 (EVar "index") (EInt 1)) (EInt 1)))
          (SIf (ECmp CLt (EVar "k") (EVar "x"))
               (SAssign (LVar "index") (EBin OAdd I64 (EVar "index") (EInt 1))) SSkip)))).
  Definition sb_loop : stmt := SFor (ECmp CLt (EVar "index") (EVar "max")) SSkip sb_body.

  Definition benv6 (n x idx : N) (kv ev : val) : env :=
    [("min", VInt 0); ("max", VInt (Z.of_N n)); ("x", VInt (Z.of_N x)); ("index", VInt (Z.of_N idx)); ("k", kv); ("err", ev)].
  Definition benv4 (n x idx : N) : env :=
    [("min", VInt 0); ("max", VInt (Z.of_N n)); ("x", VInt (Z.of_N x)); ("index", VInt (Z.of_N idx))].

  (* result of the loop: a return carrying the model's answer, or (not found) a normal exit *)
  Definition bloop_res (x : N) (r : outcome bool) (out : GoLite.res) : Prop :=
    match r with
    | Ok false => exists e', out = RNorm e'
    | _ => out = encb x r
    end.

  Lemma next_indexN (idx : N) : Z.of_N idx < 4611686018427387904 ->
    wrap I64 (Z.lor (wrap I64 (Z.of_N idx * 2 ^ 1)) 1) = Z.of_N (2 * idx + 1).
  Proof.
    intros Hb. change (2 ^ 1) with 2.
    rewrite (wrap_i64_small (Z.of_N idx * 2)) by lia.
    replace (Z.of_N idx * 2) with (2 * Z.of_N idx) by lia.
    rewrite lor_double_1. rewrite wrap_i64_small by lia. lia.
  Qed.

  (* one iteration from either environment shape leads to the six-variable shape *)
  Definition biter_res (n x idx : N) : GoLite.res :=
    match get idx with
    | None => encb x Err
    | Some k =>
        if N.eqb k x then encb x (Ok true)
        else RNorm (benv6 n x (2 * idx + 1 + (if N.ltb k x then 1 else 0)) (VInt (Z.of_N k)) VNil)
    end.

  (* the search loop under ANY oracle that answers "getter" below nmax as ext_getN does (the caller of searchEytzinger
     uses further externals) *)
  Section AnyExt.
  Variable ext : string -> list val -> option val.
  Variable nmax : N.
  Hypothesis ext_getter : forall i, (i < nmax)%N -> ext "getter" [VInt (Z.of_N i)] = ext_getN "getter" [VInt (Z.of_N i)].

  Lemma sb_iter f n x idx (e0 : env) :
    (e0 = benv4 n x idx \/ exists kv ev, e0 = benv6 n x idx kv ev) ->
    Z.of_N n < 4611686018427387904 -> (idx < n)%N -> (n <= nmax)%N ->
    exec prog ext f sb_body e0 = biter_res n x idx.
  Proof.
    intros Hshape Hn Hidx Hmax.
    assert (Hi : Z.of_N idx < 4611686018427387904) by lia.
    assert (HN : Z.to_N (Z.of_N idx) = idx) by apply N2Z.id.
    unfold biter_res.
    destruct Hshape as [->|[kv [ev ->]]]; unfold sb_body, benv4, benv6;
      (go_run; rewrite ext_getter by lia; unfold ext_getN at 1; go_cbn; rewrite HN;
       destruct (get idx) as [k|]; [|go_run; reflexivity];
       go_run; rewrite of_N_eqb;
       destruct (N.eqb_spec k x) as [->|Hne]; [reflexivity|];
       go_run; rewrite (next_indexN idx Hi); rewrite of_N_ltb;
       destruct (N.ltb k x); go_run;
       [ rewrite wrap_i64_small by lia;
         replace (Z.of_N (2 * idx + 1) + 1) with (Z.of_N (2 * idx + 1 + 1)) by lia; reflexivity
       | replace (2 * idx + 1 + 0)%N with (2 * idx + 1)%N by lia; reflexivity ]).
  Qed.

  Lemma sb_loop_spec : forall F f n x idx e0,
    (e0 = benv4 n x idx \/ exists kv ev, e0 = benv6 n x idx kv ev) ->
    Z.of_N n < 4611686018427387904 ->
    bsearch F get n x idx <> OutOfFuel -> (F < f)%nat -> (n <= nmax)%N ->
    bloop_res x (bsearch F get n x idx) (exec prog ext f sb_loop e0).
  Proof.
    induction F as [|F IH]; intros f n x idx e0 Hshape Hn Hdef Hf Hmax;
      (destruct f as [|f]; [lia|]);
      unfold sb_loop; rewrite exec_for_S; fold sb_loop; cbn [bsearch] in *;
      (assert (Hc : eval e0 (ECmp CLt (EVar "index") (EVar "max")) = EV (VBool (Z.of_N idx <? Z.of_N n)))
         by (destruct Hshape as [->|[kv [ev ->]]]; reflexivity));
      rewrite Hc; cbn [of_eres]; rewrite of_N_ltb;
      destruct (N.ltb_spec idx n) as [Hlt|Hge].
    - congruence.
    - eexists. reflexivity.
    - rewrite (sb_iter (S f) n x idx e0 Hshape Hn Hlt Hmax). unfold biter_res.
      destruct (get idx) as [k|]; [|reflexivity].
      destruct (N.eqb k x) eqn:Heq; [reflexivity|].
      rewrite exec_skip.
      apply IH; [right; eexists; eexists; reflexivity|exact Hn|exact Hdef|lia|exact Hmax].
    - eexists. reflexivity.
  Qed.

  (* Go's searchEytzinger (min = 0, as its only caller passes it) IS the model's search, for every getter oracle:
     a definite answer of the model with fuel F is the answer of the Go function under any interpreter fuel f > F *)
  Theorem searchEytzinger_is_bsearch_ext F f n x :
    Z.of_N n < 4611686018427387904 ->
    bsearch F get n x 0 <> OutOfFuel -> (F < f)%nat -> (n <= nmax)%N ->
    call prog ext f "searchEytzinger" [VInt 0; VInt (Z.of_N n); VInt (Z.of_N x)] = encb x (bsearch F get n x 0).
  Proof.
    intros Hn Hdef Hf Hmax. unfold call. rewrite prog_searchEytzinger. unfold fn_searchEytzinger.
    cbn [f_params f_body bind_params]. go_run.
    fold sb_body. fold sb_loop.
    pose proof (sb_loop_spec F f n x 0%N (benv4 n x 0) (or_introl eq_refl) Hn Hdef Hf Hmax) as H.
    unfold benv4 in H. change (Z.of_N 0) with 0 in H.
    destruct (bsearch F get n x 0) as [[|]| |] eqn:Hs; cbn [bloop_res] in H.
    - rewrite H. reflexivity.
    - destruct H as [e' ->]. go_run. reflexivity.
    - rewrite H. reflexivity.
    - congruence.
  Qed.
  End AnyExt.

  Theorem searchEytzinger_is_bsearch F f n x :
    Z.of_N n < 4611686018427387904 ->
    bsearch F get n x 0 <> OutOfFuel -> (F < f)%nat ->
    call prog ext_getN f "searchEytzinger" [VInt 0; VInt (Z.of_N n); VInt (Z.of_N x)] = encb x (bsearch F get n x 0).
  Proof.
    intros Hn Hdef Hf.
    exact (searchEytzinger_is_bsearch_ext ext_getN n (fun _ _ => eq_refl) F f n x Hn Hdef Hf (N.le_refl n)).
  Qed.

  (* the model never runs out of fuel once n < 2^F; so for such n the two agree outright *)
  Corollary searchEytzinger_is_bsearch_pow F f n x :
    Z.of_N n < 4611686018427387904 -> (n < 2 ^ N.of_nat F)%N -> (F < f)%nat ->
    call prog ext_getN f "searchEytzinger" [VInt 0; VInt (Z.of_N n); VInt (Z.of_N x)] = encb x (bsearch F get n x 0) /\
    bsearch F get n x 0 <> OutOfFuel.
  Proof.
    intros Hn Hp Hf.
    assert (Hdef : bsearch F get n x 0 <> OutOfFuel) by (apply bsearch_fuel_enough; lia).
    split; [apply searchEytzinger_is_bsearch; assumption|exact Hdef].
  Qed.

  (* with the fuel [has] uses (search_fuel = 64): every count below 2^62 (Has passes int(uint32)) *)
  Corollary searchEytzinger_is_has_search f n x :
    Z.of_N n < 4611686018427387904 -> (search_fuel < f)%nat ->
    call prog ext_getN f "searchEytzinger" [VInt 0; VInt (Z.of_N n); VInt (Z.of_N x)]
      = encb x (bsearch search_fuel get n x 0) /\
    bsearch search_fuel get n x 0 <> OutOfFuel.
  Proof.
    intros Hn Hf. apply searchEytzinger_is_bsearch_pow; [exact Hn| |exact Hf].
    unfold search_fuel. change (2 ^ N.of_nat 64)%N with 18446744073709551616%N. lia.
  Qed.
End Search.
End Generic.
