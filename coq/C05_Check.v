(* C05 — executable checker run on the harness's observations (vm_compute inside the case files).
   It runs the very functions the theorems are about: C05_Model.{puts, writer_has, seal, open_, has},
   with XXH.xxh64 (memoised) as the hash.

   A case is one writer run of the Go code: the signatures Put, the metadata, whether Seal succeeded,
   the bytes of the file the Go writer produced (transported as segments, see [expand]) and, for each
   probe signature, the Go writer's in-memory Has and the Go reader's Has through mmap (Open) and
   through a plain io.ReaderAt.  The case passes when
     (a) the model writer's Has equals the Go writer's Has on every probe,
     (b) the MODEL reader on the GO-written bytes answers what the Go reader answered (cross-read), and
     (c) the model reader on the MODEL-written file answers the same again (model writer vs Go writer;
         byte equality of the two files is not demanded). *)
From Coq Require Import List Arith Bool NArith Lia.
Import ListNotations.
Require Import Codec XXH C05_Model.
Local Open Scope N_scope.

(* ---------- transport of file bytes: a lossless segment encoding expanded here ---------- *)
Inductive seg :=
| Lit (bs : list N)                      (* the bytes themselves *)
| Rep (n : N) (bs : list N)              (* bs repeated n times *)
| Arith (n : N) (p dp o d : N).          (* n records  LE16(p + i*dp) ‖ LE64(o + i*d),  i = 0..n-1 *)

Fixpoint rep (n : nat) (bs acc : list N) : list N :=
  match n with O => acc | S m => bs ++ rep m bs acc end.
Fixpoint arith (n : nat) (p dp o d : N) (acc : list N) : list N :=
  match n with O => acc | S m => le_enc 2 p ++ le_enc 8 o ++ arith m (p + dp) dp (o + d) d acc end.
Fixpoint expand (segs : list seg) : list N :=
  match segs with
  | [] => []
  | Lit bs :: r => bs ++ expand r
  | Rep n bs :: r => rep (N.to_nat n) bs (expand r)
  | Arith n p dp o d :: r => arith (N.to_nat n) p dp o d (expand r)
  end.

(* 64-byte signatures of the small runs: two prefix bytes, then either 62 bytes expanded from a 64-bit tag
   (the harness builds them the same way; only prefix and hash of a signature matter to bucketteer) or
   62 bytes given as one little-endian number *)
Fixpoint words (n : nat) (x : N) : list N :=
  match n with
  | O => []
  | S m => le_enc 8 x ++ words m ((x * 6364136223846793005 + 1442695040888963407) mod 18446744073709551616)
  end.
Definition sg (p0 p1 t : N) : list N := p0 :: p1 :: firstn 62 (words 8 t).
Definition sgx (p0 p1 t : N) : list N := p0 :: p1 :: le_enc 62 t.

(* ---------- memoised hash (extensionally XXH.xxh64) ---------- *)
Fixpoint assoc (tbl : list (list N * N)) (s : list N) : option N :=
  match tbl with
  | [] => None
  | (k, v) :: r => if list_eqb k s then Some v else assoc r s
  end.
Fixpoint mk_tbl_from (tbl : list (list N * N)) (sigs : list (list N)) : list (list N * N) :=
  match sigs with
  | [] => tbl
  | s :: r => match assoc tbl s with
              | Some _ => mk_tbl_from tbl r
              | None => mk_tbl_from ((s, xxh64 s) :: tbl) r
              end
  end.
Definition mk_tbl (sigs : list (list N)) : list (list N * N) := mk_tbl_from [] sigs.
Definition memo_hash (tbl : list (list N * N)) (s : list N) : N :=
  match assoc tbl s with Some h => h | None => xxh64 s end.

Lemma list_eqb_eq a : forall b, list_eqb a b = true -> a = b.
Proof.
  induction a as [|x a IH]; intros [|y b] H; cbn in H; try discriminate; auto.
  apply andb_prop in H. destruct H as [H1 H2]. apply N.eqb_eq in H1. subst. f_equal. auto.
Qed.

Definition tbl_ok (tbl : list (list N * N)) : Prop := forall k v, In (k, v) tbl -> v = xxh64 k.

Lemma assoc_ok tbl s h : tbl_ok tbl -> assoc tbl s = Some h -> h = xxh64 s.
Proof.
  intros Hok. induction tbl as [|[k v] tbl IH]; cbn [assoc]; [discriminate|].
  destruct (list_eqb k s) eqn:E.
  - intros H; inversion H; subst. apply list_eqb_eq in E. subst. apply (Hok s h). now left.
  - apply IH. intros k' v' Hin. apply Hok. now right.
Qed.

Lemma mk_tbl_from_ok sigs : forall tbl, tbl_ok tbl -> tbl_ok (mk_tbl_from tbl sigs).
Proof.
  induction sigs as [|s r IH]; intros tbl Hok; cbn [mk_tbl_from]; auto.
  destruct (assoc tbl s); apply IH; auto.
  intros k v [E|Hin]; [inversion E; subst; reflexivity|now apply Hok].
Qed.

Lemma memo_hash_is_xxh64 sigs s : memo_hash (mk_tbl sigs) s = xxh64 s.
Proof.
  unfold memo_hash. destruct (assoc (mk_tbl sigs) s) as [h|] eqn:E; [|reflexivity].
  eapply assoc_ok; [|exact E]. apply mk_tbl_from_ok. intros k v [].
Qed.

(* ---------- observations ---------- *)
Inductive obs := OTrue | OFalse | OErr.
Definition obs_eqb (a b : obs) : bool :=
  match a, b with OTrue, OTrue | OFalse, OFalse | OErr, OErr => true | _, _ => false end.
(* the model running out of fuel never equals an observation *)
Definition agrees (o : outcome bool) (g : obs) : bool :=
  match o, g with
  | Ok true, OTrue | Ok false, OFalse | Err, OErr => true
  | _, _ => false
  end.

Definition probe := (list N * (bool * (obs * obs)))%type.   (* sig, writer Has, Has via mmap, Has via ReaderAt *)

Inductive case :=
| CSeal (ver : version) (m : meta) (sigs : list (list N)) (sealed : bool) (gofile : list seg)
        (probes : list probe)
| CHash (s : list N) (h : N).                                (* cespare/xxhash vs XXH.xxh64 *)

Definition read_probes (H : list N -> N) (ver : version) (f : list N) (probes : list probe) : bool :=
  let R := file_reader f in
  match open_ ver R with
  | Ok rd => forallb (fun pr : probe =>
               let o := has H ver R rd (fst pr) in
               agrees o (fst (snd (snd pr))) && agrees o (snd (snd (snd pr)))) probes
  | _ => false
  end.

Definition check_case (c : case) : bool :=
  match c with
  | CHash s h => xxh64 s =? h
  | CSeal ver m sigs sealed gofile probes =>
    let H := memo_hash (mk_tbl (sigs ++ map fst probes)) in
    let w := puts H sigs in
    forallb (fun pr : probe => Bool.eqb (writer_has H w (fst pr)) (fst (snd pr))) probes
    && match seal ver m w with
       | Ok f' => let gf := expand gofile in
                  sealed && read_probes H ver gf probes
                  && (if list_eqb f' gf then true (* same bytes, same answers *) else read_probes H ver f' probes)
       | Err => negb sealed
       | OutOfFuel => false
       end
  end.

Fixpoint check_from (i : nat) (cs : list case) : list nat :=
  match cs with
  | [] => []
  | c :: r => if check_case c then check_from (S i) r else i :: check_from (S i) r
  end.
Definition check (cs : list case) : list nat := check_from 0 cs.

(* information only: is the Go-written file byte-identical to the model-written one? *)
Definition same_bytes (c : case) : bool :=
  match c with
  | CSeal ver m sigs true gofile probes =>
    match seal ver m (puts xxh64 sigs) with Ok f' => list_eqb f' (expand gofile) | _ => false end
  | _ => true
  end.

(* decidable well-formedness of signatures (used by the non-vacuity examples) *)
Definition wf_sigb (s : list N) : bool := Nat.eqb (length s) 64 && forallb (fun b => b <? 256) s.
Lemma wf_sigs_sound (sigs : list (list N)) : forallb wf_sigb sigs = true -> Forall wf_sig sigs.
Proof.
  intros H. apply Forall_forall. intros s Hs. rewrite forallb_forall in H. specialize (H s Hs).
  unfold wf_sigb in H. apply andb_prop in H. destruct H as [H1 H2]. split.
  - now apply Nat.eqb_eq.
  - apply Forall_forall. intros b Hb. rewrite forallb_forall in H2. specialize (H2 b Hb). now apply N.ltb_lt.
Qed.
