(* C05 — Reader.Has of the sig-exists index (bucketteer/read.go), the whole lookup of a signature, translated from
   the Go source on every check (Generated/GoLiteHasC05.v): prefix -> bucket offset, the bucket's hash count read through
   readFullAt, the section reader over the bucket's hashes, the signature's hash, and searchEytzinger whose getter is
   the function literal that reads the index-th hash through the section reader (translated as "Reader.Has$getter";
   the translator records the binding).  For every file reader R (all-or-nothing reads, any failures), every offset
   table and every signature it IS the model's has (C05_Model.has — the function the C05 theorems are about),
   the uint32 wrap of the section size and the int64 conversion of the offset included. *)
From Coq Require Import List ZArith NArith String Bool Lia.
Import ListNotations.
Require Import YF.GoLite YF.GoLiteLemmas YF.Codec YF.C05_Model YF.C05_Lemmas.
Require Import YF.Generated.GoLiteHasC05.
Require YF.Generated.GoLiteC05 YF.GoLiteC05_Search YF.GoLiteC04_Codec.
Local Open Scope string_scope.
Local Open Scope Z_scope.
Local Open Scope list_scope.

Definition zs (l : list N) : list Z := map Z.of_N l.
Lemma zlen_zs l : zlen (zs l) = Z.of_nat (List.length l).
Proof. unfold zlen, zs. rewrite map_length. reflexivity. Qed.
Lemma nth_z_zs (l : list N) (i : nat) : nth_z (zs l) (Z.of_nat i) = Z.of_N (nth i l 0%N).
Proof.
  unfold nth_z, zs. rewrite Nat2Z.id. change 0 with (Z.of_N 0). apply map_nth.
Qed.

Lemma wrap_i64_big z : 9223372036854775808 <= z < 18446744073709551616 -> wrap I64 z = z - 18446744073709551616.
Proof.
  intros H. unfold wrap. cbn [signed width]. change (2 ^ (64 - 1)) with 9223372036854775808.
  change (2 ^ 64) with 18446744073709551616.
  replace (z + 9223372036854775808) with ((z - 9223372036854775808) + 1 * 18446744073709551616) by lia.
  rewrite Z.mod_add by lia. rewrite Z.mod_small by lia. lia.
Qed.

Lemma same_search : GoLiteHasC05.fn_searchEytzinger = GoLiteC05.fn_searchEytzinger.
Proof. reflexivity. Qed.

Section Has.
Variable hash : list N -> N.                    (* xxhash.Sum64 *)
Variable R : N -> N -> option (list N).         (* the file: R off len = the len bytes at off, or None (short / failed read) *)
Hypothesis R_len : forall o l bs, R o l = Some bs -> List.length bs = N.to_nat l.
Hypothesis R_bytes : forall o l bs, R o l = Some bs -> Forall (fun b => (b < 256)%N) bs.
Hypothesis R_bound : forall o l bs, R o l = Some bs -> (o + l < 4611686018427387904)%N.   (* files are shorter than 2^62 bytes *)
Variable base : N.                              (* where the content (the buckets) starts in the file: r_base *)

(* reader values *)
Definition content : val := VStruct [("content", VNil)].
Definition sect (b lim : Z) : val := VStruct [("base", VInt b); ("lim", VInt lim)].

Definition rdo (tok : val) (off len : Z) : option (list N) :=
  match tok with
  | VStruct [("content", VNil)] => if off <? 0 then None else R (base + Z.to_N off) (Z.to_N len)
  | VStruct [("base", VInt b); ("lim", VInt lim)] =>
      if (0 <=? off) && (off + len <=? lim) then R (base + Z.to_N b + Z.to_N off) (Z.to_N len) else None
  | _ => None
  end.

(* the oracles of the translated code below the getter *)
Definition ext_rd : string -> list val -> option val := fun f args =>
  match f, args with
  | "io.ReaderAt.ReadAt", [tok; VInts buf; VInt off] =>
      match rdo tok off (zlen buf) with
      | Some bs => Some (VTuple [VInt (zlen buf); VNil; VInts (zs bs)])
      | None => Some (VTuple [VInt 0; VErr "read"; VInts buf])
      end
  | "io.NewSectionReader", [_; VInt b; VInt n] => Some (sect b n)
  | "xxhash.Sum64", [VInts s] => Some (VInt (Z.of_N (hash (map Z.to_N s) mod two64)))
  | _, _ => None
  end.

Lemma ext_readat tok buf off : ext_rd "io.ReaderAt.ReadAt" [tok; VInts buf; VInt off] =
  match rdo tok off (zlen buf) with
  | Some bs => Some (VTuple [VInt (zlen buf); VNil; VInts (zs bs)])
  | None => Some (VTuple [VInt 0; VErr "read"; VInts buf])
  end.
Proof. reflexivity. Qed.

Definition prog := GoLiteHasC05.prog.

(* readFullAt / readUint64Le with the receiver-aware oracle *)
Lemma readFullAt_body (ext : string -> list val -> option val) f tok (buf : list Z) off :
  (forall t b o, ext "io.ReaderAt.ReadAt" [t; VInts b; VInt o] = ext_rd "io.ReaderAt.ReadAt" [t; VInts b; VInt o]) ->
  0 < zlen buf ->
  exec prog ext f (f_body fn_readFullAt) [("reader", tok); ("buf", VInts buf); ("off", VInt off)] =
  match rdo tok off (zlen buf) with
  | Some bs => RRet (VTuple [VNil; VInts (zs bs)])
  | None => RRet (VTuple [VErr "read"; VInts buf])
  end.
Proof.
  intros Hext Hpos. unfold fn_readFullAt. cbn [f_body]. go_run. rewrite Hext, ext_readat.
  destruct (rdo tok off (zlen buf)) as [bs|] eqn:Hr.
  - go_run. rewrite zlen_zs.
    assert (Hl : Z.of_nat (List.length bs) = zlen buf).
    { unfold rdo in Hr. destruct tok as [| | | | | |fs]; try discriminate.
      destruct fs as [|[k v] fs]; try discriminate.
      repeat (match type of Hr with context [match ?x with _ => _ end] => destruct x; try discriminate end);
        apply R_len in Hr; rewrite Hr; pose proof (zlen_nonneg buf); lia. }
    rewrite Hl. rewrite Z.eqb_refl. go_run. reflexivity.
  - go_run. destruct (Z.eqb_spec 0 (zlen buf)) as [E|_]; [lia|]. go_run. reflexivity.
Qed.

Lemma rdo_len tok off len bs : 0 <= len -> rdo tok off len = Some bs -> List.length bs = Z.to_nat len.
Proof.
  intros Hlen Hr. unfold rdo in Hr. destruct tok as [| | | | | |fs]; try discriminate.
  destruct fs as [|[k v] fs]; try discriminate.
  repeat (match type of Hr with context [match ?x with _ => _ end] => destruct x; try discriminate end);
    apply R_len in Hr; rewrite Hr; lia.
Qed.

Lemma le_value_zs8 (bs : list N) : List.length bs = 8%nat -> le_value (firstn 8 (zs bs)) = Z.of_N (le_dec bs).
Proof.
  intros H. rewrite firstn_all2 by (unfold zs; rewrite map_length; lia).
  apply GoLiteC04_Codec.le_value_zs.
Qed.

Lemma readUint64Le_body (ext : string -> list val -> option val) f tok pos :
  (forall t b o, ext "io.ReaderAt.ReadAt" [t; VInts b; VInt o] = ext_rd "io.ReaderAt.ReadAt" [t; VInts b; VInt o]) ->
  exec prog ext (S f) (f_body fn_readUint64Le) [("reader", tok); ("pos", VInt pos)] =
  match rdo tok pos 8 with
  | Some bs => RRet (VTuple [VInt (Z.of_N (le_dec bs)); VNil])
  | None => RRet (VTuple [VInt 0; VErr "read"])
  end.
Proof.
  intros Hext. unfold fn_readUint64Le. cbn [f_body]. go_run.
  rewrite exec_call_S. go_cbn. change (plookup "readFullAt" prog) with (Some fn_readFullAt).
  cbn [bind_params f_params fn_readFullAt].
  cbv beta iota. rewrite (readFullAt_body ext f tok [0; 0; 0; 0; 0; 0; 0; 0] pos Hext) by (vm_compute; reflexivity).
  change (zlen [0; 0; 0; 0; 0; 0; 0; 0]) with 8.
  destruct (rdo tok pos 8) as [bs|] eqn:Hr.
  - go_run. pose proof (rdo_len tok pos 8 bs ltac:(lia) Hr) as Hl. change (Z.to_nat 8) with 8%nat in Hl.
    rewrite zlen_zs. rewrite Hl. go_consts. go_cbn. rewrite le_value_zs8 by exact Hl. reflexivity.
  - go_run. reflexivity.
Qed.

(* the function literal passed as the getter: the index-th hash through the section reader *)
Lemma getter_call (b lim : Z) (i : N) : (i < 4294967296)%N ->
  call prog ext_rd 3 "Reader.Has$getter" [sect b lim; VInt (Z.of_N i)] =
  match rdo (sect b lim) (Z.of_N i * 8) 8 with
  | Some bs => RRet (VTuple [VInt (Z.of_N (le_dec bs)); VNil])
  | None => RRet (VTuple [VInt 0; VErr "read"])
  end.
Proof.
  intros Hi. unfold call. change (plookup "Reader.Has$getter" prog) with (Some fn_Reader_Has_getter).
  unfold fn_Reader_Has_getter. cbn [f_params f_body bind_params]. go_run.
  rewrite (wrap_i64_small (Z.of_N i * 8)) by lia. rewrite (wrap_i64_small (Z.of_N i * 8)) by lia.
  rewrite exec_call_S. go_cbn. change (plookup "readUint64Le" prog) with (Some fn_readUint64Le).
  cbn [bind_params f_params fn_readUint64Le].
  cbv beta iota. rewrite (readUint64Le_body ext_rd 1) by (intros; reflexivity).
  destruct (rdo (sect b lim) (Z.of_N i * 8) 8); go_run; reflexivity.
Qed.

Definition to_oracle (r : res) : option val := match r with RRet v => Some v | _ => None end.

(* the oracle of Has: as ext_rd, and the getter IS the translated function literal run over the section reader that Has
   built (its token is determined by the bucket offset and the hash count) *)
Definition ext_has (b lim : Z) : string -> list val -> option val := fun f args =>
  match f, args with
  | "getter", [VInt i] => to_oracle (call prog ext_rd 3 "Reader.Has$getter" [sect b lim; VInt i])
  | _, _ => ext_rd f args
  end.

(* ------------------------------------------------------------------ Has *)
Variable tab : list N.                          (* the Go table prefixToOffset [65536]uint64 *)
Variable mtab : list (N * N).                   (* the model's table (prefix, offset) *)
Hypothesis tab_len : Z.of_nat (List.length tab) = 65536.
Hypothesis tab_u64 : Forall (fun v => (v < two64)%N) tab.
Hypothesis tab_rel : forall p, (p < 65536)%N ->
  lookup_off V2 mtab p = (if (nth (N.to_nat p) tab 0 =? maxu64)%N then None else Some (nth (N.to_nat p) tab 0%N)).

Definition rv : val := VStruct [("prefixToOffset", VInts (zs tab)); ("contentReader", content)].

Definition enc_has (o : outcome bool) (out : res) : Prop :=
  match o with
  | Ok b => out = RRet (VTuple [VBool b; VNil])
  | Err => exists e, out = RRet (VTuple [VBool false; VErr e])
  | OutOfFuel => False
  end.

Definition off_of (s : list N) : N := nth (N.to_nat (prefix s)) tab 0%N.
Definition n_of (s : list N) : N := match R (base + off_of s) 4 with Some nb => le_dec nb | None => 0%N end.
Definition ext_of (s : list N) : string -> list val -> option val :=
  ext_has (Z.of_N (off_of s) + 4) (Z.of_N ((n_of s * 8) mod two32)).

Lemma prefix_lt (s : list N) : wf_sig s -> (prefix s < 65536)%N.
Proof.
  intros [Hl Hb]. unfold prefix.
  assert (H0 : (nth 0 s 0 < 256)%N).
  { destruct s as [|a r]; [discriminate|]. inversion Hb; subst. cbn. assumption. }
  assert (H1 : (nth 1 s 0 < 256)%N).
  { destruct s as [|a [|b r]]; try discriminate. inversion Hb as [|? ? _ Hb']; subst. inversion Hb'; subst. cbn. assumption. }
  lia.
Qed.

Theorem Has_is_has (s : list N) f : wf_sig s -> (search_fuel + 2 < f)%nat ->
  enc_has (has hash V2 R {| r_tab := mtab; r_base := base |} s)
          (call prog (ext_of s) f "Reader.Has" [rv; VInts (zs s)]).
Proof.
  intros Hwf Hf. pose proof (prefix_lt s Hwf) as Hp. destruct Hwf as [Hls Hbs].
  destruct f as [|f]; [lia|].
  unfold call. change (plookup "Reader.Has" prog) with (Some fn_Reader_Has).
  unfold fn_Reader_Has, rv. cbn [f_params f_body bind_params]. go_run.
  rewrite zlen_zs, Hls. go_consts. go_cbn.
  change (nth_z (zs s) 0) with (nth_z (zs s) (Z.of_nat 0)). change (nth_z (zs s) 1) with (nth_z (zs s) (Z.of_nat 1)).
  rewrite !nth_z_zs.
  (* prefixToUint16 *)
  repeat rewrite exec_seq. rewrite exec_call_S. go_cbn.
  change (plookup "prefixToUint16" prog) with (Some fn_prefixToUint16).
  cbn [bind_params f_params fn_prefixToUint16 f_body]. cbv beta iota. go_run.
  assert (Hpz : le_value [Z.of_N (nth 0 s 0%N); Z.of_N (nth 1 s 0%N)] = Z.of_N (prefix s)).
  { unfold prefix. cbn [le_value]. lia. }
  set (a := Z.of_N (nth 0 s 0%N)) in *. set (b := Z.of_N (nth 1 s 0%N)) in *.
  change (slice_z [a; b] 0 2) with [a; b]. change (zlen [a; b]) with 2. go_consts. go_cbn.
  change (firstn 2 [a; b]) with [a; b]. rewrite Hpz. go_run.
  (* the table *)
  rewrite zlen_zs, tab_len.
  assert (Hb : (0 <=? Z.of_N (prefix s)) && (Z.of_N (prefix s) <? 65536) = true).
  { rewrite andb_true_iff. split; [apply Z.leb_le|apply Z.ltb_lt]; lia. }
  rewrite Hb. go_cbn.
  assert (Hnth : nth_z (zs tab) (Z.of_N (prefix s)) = Z.of_N (off_of s)).
  { unfold off_of. replace (Z.of_N (prefix s)) with (Z.of_nat (N.to_nat (prefix s))) by lia. apply nth_z_zs. }
  rewrite Hnth. go_run.
  unfold has. cbn [r_tab r_base]. rewrite (tab_rel _ Hp). fold (off_of s).
  change 18446744073709551615 with (Z.of_N maxu64). rewrite of_N_eqb.
  destruct (N.eqb_spec (off_of s) maxu64) as [Hmax|Hnm]; [reflexivity|].
  assert (Hoff : (off_of s < two64)%N).
  { unfold off_of. rewrite Forall_forall in tab_u64. apply tab_u64. apply nth_In. lia. }
  (* the hash count *)
  go_run. rewrite exec_call_S. go_cbn.
  change (plookup "readFullAt" prog) with (Some fn_readFullAt).
  cbn [bind_params f_params fn_readFullAt]. cbv beta iota.
  rewrite (readFullAt_body (ext_of s) f content [0; 0; 0; 0] _ (fun _ _ _ => eq_refl)) by (vm_compute; reflexivity).
  change (zlen [0; 0; 0; 0]) with 4.
  unfold two64 in Hoff.
  destruct (N.leb_spec two63 (off_of s)) as [Hbig|Hsmall]; unfold two63 in *.
  { (* int64(offset) is negative: the read fails *)
    rewrite wrap_i64_big by lia. unfold rdo, content.
    destruct (Z.ltb_spec (Z.of_N (off_of s) - 18446744073709551616) 0) as [_|Hc]; [|lia].
    go_run. eexists. reflexivity. }
  rewrite wrap_i64_small by lia. unfold rdo at 1. unfold content at 1.
  destruct (Z.ltb_spec (Z.of_N (off_of s)) 0) as [Hc|_]; [lia|].
  rewrite N2Z.id. change (Z.to_N 4) with 4%N.
  destruct (R (base + off_of s) 4) as [nb|] eqn:Hnb; [|go_run; eexists; reflexivity].
  pose proof (R_len _ _ _ Hnb) as Hlnb. change (N.to_nat 4) with 4%nat in Hlnb.
  go_run. rewrite zlen_zs, Hlnb. go_consts. go_cbn.
  assert (Hle4 : le_value (firstn 4 (zs nb)) = Z.of_N (le_dec nb)).
  { rewrite firstn_all2 by (unfold zs; rewrite map_length; lia). apply GoLiteC04_Codec.le_value_zs. }
  rewrite Hle4.
  pose proof (R_bound _ _ _ Hnb) as Hbound.
  assert (Hn32 : (le_dec nb < 4294967296)%N).
  { pose proof (R_bytes _ _ _ Hnb) as Hby.
    destruct nb as [|b0 [|b1 [|b2 [|b3 [|? ?]]]]]; try discriminate Hlnb.
    inversion Hby as [|? ? H0 Hby1]; subst. inversion Hby1 as [|? ? H1 Hby2]; subst.
    inversion Hby2 as [|? ? H2 Hby3]; subst. inversion Hby3 as [|? ? H3 _]; subst.
    cbn [le_dec]. lia. }
  (* the section reader *)
  rewrite exec_seq. rewrite exec_callext. go_cbn.
  rewrite (wrap_i64_small (Z.of_N (off_of s))) by lia.
  rewrite (wrap_i64_small (Z.of_N (off_of s) + 4)) by lia.
  assert (Hw32 : wrap U32 (Z.of_N (le_dec nb) * 8) = Z.of_N ((le_dec nb * 8) mod two32)).
  { unfold wrap. cbn [signed width]. change (2 ^ 32) with (Z.of_N two32). rewrite N2Z.inj_mod. f_equal. lia. }
  rewrite Hw32.
  assert (Hlim : (0 <= Z.of_N ((le_dec nb * 8) mod two32) < 4294967296)).
  { pose proof (N.mod_upper_bound (le_dec nb * 8) two32 ltac:(discriminate)). unfold two32 in *. lia. }
  rewrite (wrap_i64_small (Z.of_N ((le_dec nb * 8) mod two32))) by lia.
  change (ext_of s "io.NewSectionReader"
            [content; VInt (Z.of_N (off_of s) + 4); VInt (Z.of_N ((le_dec nb * 8) mod two32))])
    with (Some (sect (Z.of_N (off_of s) + 4) (Z.of_N ((le_dec nb * 8) mod two32)))).
  cbn [ret_values sect]. go_run.
  (* the hash *)
  rewrite exec_call_S. go_cbn. change (plookup "Hash" prog) with (Some fn_Hash).
  cbn [bind_params f_params fn_Hash f_body]. cbv beta iota. go_run.
  rewrite zlen_zs. rewrite Hls. go_consts. go_cbn.
  assert (Hsl : slice_z (zs s) 0 64 = zs s).
  { replace 64 with (zlen (zs s)) by (rewrite zlen_zs, Hls; reflexivity). apply slice_z_all. }
  rewrite Hsl.
  change (ext_of s "xxhash.Sum64" [VInts (zs s)]) with (Some (VInt (Z.of_N (hash (map Z.to_N (zs s)) mod two64)))).
  assert (Hns : map Z.to_N (zs s) = s).
  { unfold zs. rewrite map_map. rewrite <- (map_id s) at 2. apply map_ext. intros x. apply N2Z.id. }
  rewrite Hns. fold (h64 hash s). go_run.
  (* the search, its getter being the function literal over the section reader *)
  set (lim := ((le_dec nb * 8) mod two32)%N) in *.
  set (get := fun idx : N =>
       if (idx * 8 + 8 <=? lim)%N
       then match R (base + off_of s + 4 + idx * 8) 8 with Some eb => Some (le_dec eb) | None => None end
       else None).
  assert (Hget : forall i, (i < le_dec nb)%N ->
            ext_of s "getter" [VInt (Z.of_N i)] = GoLiteC05_Search.ext_getN get "getter" [VInt (Z.of_N i)]).
  { intros i Hi. unfold ext_of, ext_has, n_of. rewrite Hnb. fold lim.
    rewrite getter_call by lia. unfold GoLiteC05_Search.ext_getN. rewrite N2Z.id.
    unfold rdo, sect, get.
    destruct (Z.leb_spec 0 (Z.of_N i * 8)) as [_|Hc]; [|lia]. cbn [andb].
    replace (Z.of_N i * 8 + 8 <=? Z.of_N lim) with (i * 8 + 8 <=? lim)%N
      by (destruct (N.leb_spec (i * 8 + 8) lim); destruct (Z.leb_spec (Z.of_N i * 8 + 8) (Z.of_N lim)); lia || reflexivity).
    destruct (i * 8 + 8 <=? lim)%N; [|reflexivity].
    replace (base + Z.to_N (Z.of_N (off_of s) + 4) + Z.to_N (Z.of_N i * 8))%N with (base + off_of s + 4 + i * 8)%N by lia.
    change (Z.to_N 8) with 8%N.
    destruct (R (base + off_of s + 4 + i * 8) 8); reflexivity. }
  assert (Hdef : bsearch search_fuel get (le_dec nb) (h64 hash s) 0 <> OutOfFuel).
  { apply bsearch_fuel_enough. unfold search_fuel. change (2 ^ N.of_nat 64)%N with 18446744073709551616%N. lia. }
  pose proof (GoLiteC05_Search.searchEytzinger_is_bsearch_ext prog eq_refl get (ext_of s) (le_dec nb) Hget
                search_fuel f (le_dec nb) (h64 hash s) ltac:(lia) Hdef ltac:(lia) (N.le_refl _)) as HS.
  unfold call in HS. change (plookup "searchEytzinger" prog) with (Some fn_searchEytzinger) in HS.
  cbn [bind_params f_params fn_searchEytzinger] in HS.
  rewrite exec_call_S. go_cbn. rewrite (wrap_i64_small (Z.of_N (le_dec nb))) by lia.
  change (plookup "searchEytzinger" prog) with (Some fn_searchEytzinger).
  cbn [bind_params f_params fn_searchEytzinger]. cbv beta iota.
  fold get.
  destruct (exec prog (ext_of s) f (f_body fn_searchEytzinger)
              [("min", VInt 0); ("max", VInt (Z.of_N (le_dec nb))); ("x", VInt (Z.of_N (h64 hash s)))]) eqn:Hx;
    destruct (bsearch search_fuel get (le_dec nb) (h64 hash s) 0) as [[|]| |] eqn:Hb2;
    cbn [GoLiteC05_Search.encb] in HS; try discriminate HS; try congruence; injection HS as ->; go_run.
  - rewrite Z.eqb_refl. reflexivity.
  - reflexivity.
  - eexists. reflexivity.
Qed.

End Has.
