(* C17 — model of range-cache/range-cache.go (RangeCache over a fixed remote file).

   State  = cache (Go map Range -> bytes, as an association list) + per-thread "pending miss".
   Atomic actions (what happens inside one critical section of rc.mu):
     ALookup  — GetRange part 1: range check (int64 arithmetic, wraps), then getRangeFromCache under RLock:
                empty cache -> miss; exact key -> hit; otherwise ANY superset entry (Go map order: [pick])
                with sub-slice arithmetic Value[start-r0 : end-r0]; ctx.Err() polled in the loop ([cancel]).
     AMiss    — GetRange part 2 (under the write lock): remote fetch; on success setRange(clone) whose error
                is ignored, the fetched bytes are returned; on failure nothing is cached.
     ASet     — SetRange under the write lock.
     ADeleteOld — DeleteOldEntries under the write lock (expired entries; possibly cut short by ctx).
   A GetRange of thread t is ALookup followed (on a miss) by AMiss of the same thread, with arbitrary actions
   of other threads in between.  A history/schedule is a list of (thread, action); all choices are in the action. *)
From Coq Require Import List Arith Lia Bool PeanoNat NArith ZArith.
Import ListNotations.
Require Import YF.ReadAt.
Local Open Scope nat_scope.

Definition range := (nat * nat)%type.                 (* [start, end) *)
Definition entry := (range * list N)%type.
Definition cache := list entry.

Definition slice (f : list N) (s e : nat) : list N := firstn (e - s) (skipn s f).
Definition contains (r r2 : range) : bool := (fst r <=? fst r2) && (snd r2 <=? snd r).
Definition range_eqb (r r2 : range) : bool := (fst r =? fst r2) && (snd r =? snd r2).

(* Go int64 *)
Definition two63 : Z := 9223372036854775808%Z.
Definition two64 : Z := 18446744073709551616%Z.
Definition wrap64 (z : Z) : Z := ((z + two63) mod two64 - two63)%Z.
Definition int64 (z : Z) : Prop := (- two63 <= z < two63)%Z.

Inductive reply := RBytes (bs : list N) | RErr.
Inductive event :=
| EvGet (start ln : Z) (r : reply)        (* a GetRange(start, ln) returned r *)
| EvSet (start ln : Z) (ok : bool).       (* a SetRange(start, ln, _) returned nil (true) / an error (false) *)

Record pendrec := { p_start : Z; p_ln : Z; p_rq : range }.
Record state := { st_cache : cache; st_pend : list (nat * pendrec) }.
Definition init : state := {| st_cache := []; st_pend := [] |}.

Inductive action :=
| ALookup (start ln : Z) (pick : nat) (cancel : bool)
| AMiss (fetch_ok : bool) (del : range -> bool) (cancel : bool)
| ASet (start ln : Z) (v : list N) (del : range -> bool) (cancel : bool)
| ADeleteOld (old : range -> bool).

Definition pending (st : state) (t : nat) : option pendrec :=
  match find (fun x => fst x =? t) (st_pend st) with Some x => Some (snd x) | None => None end.
Definition set_pend (st : state) (t : nat) (p : pendrec) : state :=
  {| st_cache := st_cache st; st_pend := (t, p) :: st_pend st |}.
Definition clear_pend (st : state) (t : nat) : state :=
  {| st_cache := st_cache st; st_pend := filter (fun x => negb (fst x =? t)) (st_pend st) |}.
Definition with_cache (st : state) (c : cache) : state := {| st_cache := c; st_pend := st_pend st |}.

(* getRangeFromCache *)
Definition supersets (c : cache) (rq : range) : cache := filter (fun e => contains (fst e) rq) c.
Inductive lres := LHit (bs : list N) | LCancelled | LMiss.
Definition lookup (c : cache) (rq : range) (pick : nat) (cancel : bool) : lres :=
  match c with
  | [] => LMiss                                                       (* len(rc.cache) == 0 *)
  | _ :: _ =>
      match find (fun e => range_eqb (fst e) rq) c with
      | Some e => LHit (snd e)                                        (* exact hit: clone(v.Value) *)
      | None =>
          if cancel then LCancelled                                   (* ctx.Err() != nil inside the loop *)
          else match nth_error (supersets c rq) (pick mod length (supersets c rq)) with
               | Some (r, v) => LHit (slice v (fst rq - fst r) (snd rq - fst r))
               | None => LMiss                                        (* no superset *)
               end
      end
  end.

(* setRange after its argument checks.  The loop visits the map in random order:
   - a superset (or the key itself) met  => return nil, nothing inserted; subsets met before it were deleted
   - ctx cancelled (non-empty map only)  => return ctx.Err(), nothing inserted; subsets met before were deleted
   - otherwise every subset is deleted and the range inserted.
   [del] says which strict subsets were met before the loop stopped early.  Result: new cache, returned-nil? *)
Definition strict_sub (rq r : range) : bool := contains rq r && negb (contains r rq).
Definition set_range (del : range -> bool) (cancel : bool) (c : cache) (rq : range) (v : list N) : cache * bool :=
  match c with
  | [] => ([(rq, v)], true)
  | _ :: _ =>
      if cancel then (filter (fun e => negb (strict_sub rq (fst e) && del (fst e))) c, false)
      else if existsb (fun e => contains (fst e) rq) c
           then (filter (fun e => negb (strict_sub rq (fst e) && del (fst e))) c, true)
           else ((rq, v) :: filter (fun e => negb (contains rq (fst e))) c, true)
  end.

Section RC.
Variable remote : list N.
Let size := length remote.
(* rc.size is an int64: the file length fits (explicit premise of the theorems that need it) *)
Hypothesis size_fits : (Z.of_nat (length remote) < two63)%Z.

(* the argument check shared by getRange and setRange:
     end := start + ln;  if start < 0 || end > rc.size || start > end { error }       (int64, wrapping) *)
Definition req_range (start ln : Z) : option range :=
  let e := wrap64 (start + ln) in
  if ((start <? 0) || (Z.of_nat size <? e) || (e <? start))%Z then None
  else Some (Z.to_nat start, Z.to_nat e).

(* SPECIFICATION side: what the remote holds at (start, ln); None when the read is not inside the file *)
Definition remote_read (start ln : Z) : option (list N) :=
  if ((0 <=? start) && (0 <=? ln) && (start + ln <=? Z.of_nat size))%Z
  then Some (firstn (Z.to_nat ln) (skipn (Z.to_nat start) remote)) else None.

Definition reply_of (rq : range) (bs : list N) : reply :=      (* GetRange: len(got) != end-start -> error *)
  if length bs =? snd rq - fst rq then RBytes bs else RErr.

Definition step (st : state) (t : nat) (a : action) : state * option event :=
  match a with
  | ALookup start ln pick cancel =>
      match pending st t with
      | Some _ => (st, None)                                  (* t is inside a GetRange: not enabled *)
      | None =>
          match req_range start ln with
          | None => (st, Some (EvGet start ln RErr))          (* refused *)
          | Some rq =>
              match lookup (st_cache st) rq pick cancel with
              | LHit bs => (st, Some (EvGet start ln (reply_of rq bs)))
              | LCancelled => (st, Some (EvGet start ln RErr))
              | LMiss => (set_pend st t {| p_start := start; p_ln := ln; p_rq := rq |}, None)
              end
          end
      end
  | AMiss ok del cancel =>
      match pending st t with
      | None => (st, None)                                    (* not enabled *)
      | Some p =>
          let st' := clear_pend st t in
          if ok then
            let v := slice remote (fst (p_rq p)) (snd (p_rq p)) in     (* the fetcher filled the buffer *)
            (with_cache st' (fst (set_range del cancel (st_cache st) (p_rq p) v)),
             Some (EvGet (p_start p) (p_ln p) (reply_of (p_rq p) v)))
          else (st', Some (EvGet (p_start p) (p_ln p) RErr))           (* failed fetch: nothing cached *)
      end
  | ASet start ln v del cancel =>
      match req_range start ln with
      | None => (st, Some (EvSet start ln false))
      | Some rq =>
          if length v =? snd rq - fst rq
          then let '(c', ok) := set_range del cancel (st_cache st) rq v in
               (with_cache st c', Some (EvSet start ln ok))
          else (st, Some (EvSet start ln false))
      end
  | ADeleteOld old => (with_cache st (filter (fun e => negb (old (fst e))) (st_cache st)), None)
  end.

Fixpoint run (st : state) (h : list (nat * action)) : state * list (option event) :=
  match h with
  | [] => (st, [])
  | (t, a) :: h' => let '(st1, ev) := step st t a in
                    let '(st2, evs) := run st1 h' in (st2, ev :: evs)
  end.

(* externally supplied SetRange values are the remote bytes (the cache cannot check them) *)
Definition truthful (a : action) : Prop :=
  match a with
  | ASet start ln v _ _ => forall rq, req_range start ln = Some rq -> length v = snd rq - fst rq ->
                           v = slice remote (fst rq) (snd rq)
  | _ => True
  end.
Definition fetch_failed (a : action) : Prop := match a with AMiss false _ _ => True | _ => False end.
Definition ctx_cancelled (a : action) : Prop := match a with ALookup _ _ _ true => True | _ => False end.

(* ------------------------------------------------------------------ invariants *)
Definition Inv (c : cache) : Prop :=
  forall r v, In (r, v) c -> fst r <= snd r /\ snd r <= size /\ v = slice remote (fst r) (snd r).
Definition PInv (st : state) : Prop :=
  forall t p, In (t, p) (st_pend st) -> req_range (p_start p) (p_ln p) = Some (p_rq p).
Definition SInv (st : state) : Prop := Inv (st_cache st) /\ PInv st.

(* ------------------------------------------------------------------ list / slice facts *)
Lemma skipn_add {T} (a b : nat) (l : list T) : skipn (a + b) l = skipn b (skipn a l).
Proof. revert l; induction a as [|a IH]; intros l; cbn; auto. destruct l; auto. now destruct b. Qed.

Lemma slice_length s e : s <= e -> e <= size -> length (slice remote s e) = e - s.
Proof. intros H1 H2. unfold slice. rewrite firstn_length, skipn_length. fold size. lia. Qed.

Lemma slice_slice a b s e : a <= s -> s <= e -> e <= b -> b <= size ->
  slice (slice remote a b) (s - a) (e - a) = slice remote s e.
Proof.
  intros H1 H2 H3 H4. unfold slice.
  rewrite skipn_firstn_comm. rewrite <- skipn_add. replace (a + (s - a)) with s by lia.
  rewrite firstn_firstn. replace (e - a - (s - a)) with (e - s) by lia. f_equal. lia.
Qed.

Lemma range_eqb_eq r r2 : range_eqb r r2 = true -> r = r2.
Proof.
  destruct r, r2; unfold range_eqb; cbn. rewrite andb_true_iff, !Nat.eqb_eq. intros [-> ->]; reflexivity.
Qed.
Lemma range_eqb_refl r : range_eqb r r = true.
Proof. unfold range_eqb. now rewrite !Nat.eqb_refl. Qed.

(* ------------------------------------------------------------------ the argument check *)
Lemma wrap64_id z : int64 z -> wrap64 z = z.
Proof. unfold int64, wrap64, two63, two64. intros H. Z.div_mod_to_equations. lia. Qed.
Lemma wrap64_over z : (two63 <= z < two64)%Z -> wrap64 z = (z - two64)%Z.
Proof. unfold wrap64, two63, two64. intros H. Z.div_mod_to_equations. lia. Qed.

Lemma req_range_valid start ln rq : req_range start ln = Some rq -> fst rq <= snd rq /\ snd rq <= size.
Proof.
  unfold req_range. destruct (_ || _ || _)%Z eqn:E; [discriminate|].
  rewrite !orb_false_iff, !Z.ltb_ge in E. destruct E as [[E1 E2] E3].
  intros H; inversion H; subst; cbn. lia.
Qed.

(* on int64 arguments the wrapping check accepts exactly the reads that lie inside the file *)
Lemma req_range_some start ln rq : int64 start -> int64 ln -> req_range start ln = Some rq ->
  (0 <= start /\ 0 <= ln /\ start + ln <= Z.of_nat size)%Z /\
  rq = (Z.to_nat start, Z.to_nat (start + ln)) /\
  remote_read start ln = Some (slice remote (fst rq) (snd rq)).
Proof.
  intros Hs Hl. unfold req_range. destruct (_ || _ || _)%Z eqn:E; [discriminate|].
  rewrite !orb_false_iff, !Z.ltb_ge in E. destruct E as [[E1 E2] E3].
  intros H; inversion H; subst; clear H.
  assert (W : wrap64 (start + ln) = (start + ln)%Z).
  { destruct (Z_lt_le_dec (start + ln) two63) as [L|L].
    - apply wrap64_id. unfold int64 in *. unfold two63 in *. lia.
    - exfalso. rewrite wrap64_over in E3 by (unfold int64, two63, two64 in *; lia).
      unfold int64, two63, two64 in *. lia. }
  rewrite W in *.
  assert (R : (0 <= start /\ 0 <= ln /\ start + ln <= Z.of_nat size)%Z) by lia.
  split; [exact R|]. split; [reflexivity|].
  unfold remote_read. destruct R as [R1 [R2 R3]].
  replace ((0 <=? start) && (0 <=? ln) && (start + ln <=? Z.of_nat size))%Z with true
    by (symmetry; rewrite !andb_true_iff, !Z.leb_le; auto).
  cbn [fst snd]. unfold slice. do 2 f_equal. lia.
Qed.

Lemma req_range_none start ln : int64 start -> int64 ln -> req_range start ln = None ->
  remote_read start ln = None.
Proof.
  intros Hs Hl. unfold req_range. destruct (_ || _ || _)%Z eqn:E; [|discriminate]. intros _.
  unfold remote_read.
  destruct ((0 <=? start) && (0 <=? ln) && (start + ln <=? Z.of_nat size))%Z eqn:F; [|reflexivity].
  exfalso. rewrite !andb_true_iff, !Z.leb_le in F. destruct F as [[F1 F2] F3].
  rewrite wrap64_id in E by (unfold int64, size, two63 in *; lia).
  rewrite !orb_true_iff, !Z.ltb_lt in E. lia.
Qed.

(* the specification is io.ReaderAt on the remote bytes *)
Lemma remote_read_is_read_at start ln : (0 <= start)%Z -> (0 <= ln)%Z ->
  remote_read start ln = read_at remote (Z.to_nat start) (Z.to_nat ln).
Proof.
  intros H1 H2. unfold remote_read, read_at. fold size.
  replace (0 <=? start)%Z with true by (symmetry; apply Z.leb_le; auto).
  replace (0 <=? ln)%Z with true by (symmetry; apply Z.leb_le; auto). cbn [andb].
  destruct (start + ln <=? Z.of_nat size)%Z eqn:E.
  - apply Z.leb_le in E. replace (Z.to_nat start + Z.to_nat ln <=? size) with true; auto.
    symmetry. apply Nat.leb_le. lia.
  - apply Z.leb_gt in E. replace (Z.to_nat start + Z.to_nat ln <=? size) with false; auto.
    symmetry. apply Nat.leb_gt. lia.
Qed.

Lemma remote_read_length start ln bs : remote_read start ln = Some bs -> Z.of_nat (length bs) = ln.
Proof.
  unfold remote_read. destruct (_ && _ && _)%Z eqn:E; [|discriminate].
  rewrite !andb_true_iff, !Z.leb_le in E. destruct E as [[E1 E2] E3].
  intros H; inversion H; subst. rewrite firstn_length, skipn_length. unfold size in *. lia.
Qed.

(* ------------------------------------------------------------------ lookup *)
Lemma lookup_hit_correct c rq pick cancel bs :
  Inv c -> fst rq <= snd rq -> snd rq <= size ->
  lookup c rq pick cancel = LHit bs -> bs = slice remote (fst rq) (snd rq).
Proof.
  intros HI V1 V2. unfold lookup. destruct c as [|e0 c0]; [discriminate|]. remember (e0 :: c0) as c.
  destruct (find (fun e => range_eqb (fst e) rq) c) as [e|] eqn:Ef.
  - apply find_some in Ef. destruct Ef as [Hin Heq]. apply range_eqb_eq in Heq.
    intros H; inversion H; subst bs. destruct e as [r v]; cbn in *. subst r.
    apply (HI rq v Hin).
  - destruct cancel; [discriminate|].
    destruct (nth_error (supersets c rq) _) as [[r v]|] eqn:En; [|discriminate].
    apply nth_error_In in En. unfold supersets in En. apply filter_In in En. destruct En as [Hin Hc].
    cbn in Hc. intros H; inversion H; subst bs.
    destruct (HI r v Hin) as [A [B C]]. subst v.
    unfold contains in Hc. rewrite andb_true_iff, !Nat.leb_le in Hc.
    apply slice_slice; lia.
Qed.

(* a miss really means that nothing in the cache covers the request (exact when ctx is live) *)
Lemma lookup_miss_none c rq pick cancel : lookup c rq pick cancel = LMiss -> supersets c rq = [].
Proof.
  unfold lookup. destruct c as [|e0 c0]; [reflexivity|]. remember (e0 :: c0) as c.
  destruct (find (fun e => range_eqb (fst e) rq) c); [discriminate|]. destruct cancel; [discriminate|].
  destruct (supersets c rq) as [|x l] eqn:E; [reflexivity|].
  destruct (nth_error (x :: l) (pick mod length (x :: l))) as [[r v]|] eqn:En; [discriminate|].
  apply nth_error_None in En. pose proof (Nat.mod_upper_bound pick (length (x :: l))) as B.
  cbn [length] in *. lia.
Qed.

(* ------------------------------------------------------------------ setRange *)
Lemma Inv_filter c f : Inv c -> Inv (filter f c).
Proof. intros H r v Hin. apply filter_In in Hin. apply H; tauto. Qed.

Lemma set_range_Inv del cancel c rq v :
  Inv c -> fst rq <= snd rq -> snd rq <= size -> v = slice remote (fst rq) (snd rq) ->
  Inv (fst (set_range del cancel c rq v)).
Proof.
  intros H V1 V2 Hv. unfold set_range. destruct c as [|e0 c0].
  - cbn. intros r w [E|[]]. inversion E; subst; auto.
  - remember (e0 :: c0) as c. destruct cancel; cbn [fst]; [apply Inv_filter; auto|].
    destruct (existsb (fun e => contains (fst e) rq) c); cbn [fst]; [apply Inv_filter; auto|].
    intros r w [E|Hin]; [inversion E; subst; auto|]. apply (Inv_filter c _ H r w Hin).
Qed.

(* what setRange may do to the key set: nothing new except the range itself *)
Lemma set_range_keys del cancel c rq v e :
  In e (fst (set_range del cancel c rq v)) -> e = (rq, v) \/ In e c.
Proof.
  unfold set_range. destruct c as [|e0 c0]; [cbn; intros [E|[]]; auto|]. remember (e0 :: c0) as c.
  destruct cancel; cbn [fst]; [intros H; apply filter_In in H; tauto|].
  destruct (existsb (fun e => contains (fst e) rq) c); cbn [fst]; [intros H; apply filter_In in H; tauto|].
  intros [E|H]; [auto|apply filter_In in H; tauto].
Qed.

(* ------------------------------------------------------------------ pending bookkeeping *)
Lemma pending_in st t p : pending st t = Some p -> In (t, p) (st_pend st).
Proof.
  unfold pending. destruct (find _ (st_pend st)) as [[t' p']|] eqn:E; [|discriminate].
  apply find_some in E. destruct E as [Hin Ht]. cbn in Ht. apply Nat.eqb_eq in Ht. subst t'.
  intros H; inversion H; subst; auto.
Qed.
Lemma PInv_clear st t : PInv st -> PInv (clear_pend st t).
Proof. intros H t' p Hin. cbn in Hin. apply filter_In in Hin. apply (H t' p); tauto. Qed.
Lemma PInv_with_cache st c : PInv st -> PInv (with_cache st c).
Proof. intros H t p Hin. apply (H t p); auto. Qed.

(* ------------------------------------------------------------------ C17 (a): the invariant *)
Theorem init_SInv : SInv init.
Proof. split; intros ? ? []. Qed.

Theorem step_SInv st t a : SInv st -> truthful a -> SInv (fst (step st t a)).
Proof.
  intros [HI HP] Ht. destruct a as [start ln pick cancel|ok del cancel|start ln v del cancel|old]; cbn [step].
  - destruct (pending st t); [split; auto|].
    destruct (req_range start ln) as [rq|] eqn:Er; [|split; auto].
    destruct (lookup (st_cache st) rq pick cancel); cbn [fst]; try (split; auto; fail).
    split; [exact HI|]. intros t' p [E|Hin]; [inversion E; subst; cbn; auto|apply (HP t' p Hin)].
  - destruct (pending st t) as [p|] eqn:Ep; [|split; auto].
    pose proof (HP t p (pending_in st t p Ep)) as Hr. destruct (req_range_valid _ _ _ Hr) as [V1 V2].
    destruct ok; cbn [fst].
    + split; [cbn; apply set_range_Inv; auto|]. apply PInv_with_cache, PInv_clear; auto.
    + split; [exact HI|apply PInv_clear; auto].
  - destruct (req_range start ln) as [rq|] eqn:Er; [|split; auto].
    destruct (length v =? snd rq - fst rq) eqn:El; [|split; auto]. apply Nat.eqb_eq in El.
    destruct (req_range_valid _ _ _ Er) as [V1 V2].
    pose proof (set_range_Inv del cancel (st_cache st) rq v HI V1 V2 (Ht rq Er El)) as H.
    destruct (set_range del cancel (st_cache st) rq v) as [c' ok']; cbn [fst] in *.
    split; [exact H|apply PInv_with_cache; auto].
  - cbn [fst]. split; [cbn; apply Inv_filter; auto|apply PInv_with_cache; auto].
Qed.

Lemma run_SInv h : forall st, SInv st -> Forall (fun ta => truthful (snd ta)) h -> SInv (fst (run st h)).
Proof.
  induction h as [|[t a] h IH]; intros st H Ht; cbn [run]; auto.
  inversion Ht as [|? ? Ha Ht']; subst. cbn in Ha.
  pose proof (step_SInv st t a H Ha) as H1. destruct (step st t a) as [st1 ev]; cbn [fst] in H1.
  specialize (IH st1 H1 Ht'). destruct (run st1 h) as [st2 evs]; auto.
Qed.

(* ------------------------------------------------------------------ C17 (b): one completed GetRange *)
Definition get_spec (a : action) (start ln : Z) (r : reply) : Prop :=
  match r with
  | RBytes bs => remote_read start ln = Some bs
  | RErr => remote_read start ln = None \/ fetch_failed a \/ ctx_cancelled a
  end.

Lemma reply_of_ok rq : fst rq <= snd rq -> snd rq <= size ->
  reply_of rq (slice remote (fst rq) (snd rq)) = RBytes (slice remote (fst rq) (snd rq)).
Proof. intros V1 V2. unfold reply_of. rewrite slice_length by auto. now rewrite Nat.eqb_refl. Qed.

Lemma step_get_spec st t a st' start ln r :
  SInv st -> step st t a = (st', Some (EvGet start ln r)) -> int64 start -> int64 ln -> get_spec a start ln r.
Proof.
  intros [HI HP] Hs I1 I2.
  destruct a as [start0 ln0 pick cancel|ok del cancel|start0 ln0 v del cancel|old]; cbn [step] in Hs.
  - destruct (pending st t); [discriminate|].
    destruct (req_range start0 ln0) as [rq|] eqn:Er.
    + destruct (req_range_valid _ _ _ Er) as [V1 V2].
      destruct (lookup (st_cache st) rq pick cancel) as [bs| |] eqn:El; inversion Hs; subst; clear Hs.
      * pose proof (lookup_hit_correct _ _ _ _ _ HI V1 V2 El) as Hb. subst bs.
        rewrite reply_of_ok by auto. cbn.
        destruct (req_range_some _ _ _ I1 I2 Er) as [_ [_ R]]. exact R.
      * destruct cancel; [cbn; auto|].
        exfalso. unfold lookup in El. destruct (st_cache st'); [discriminate|].
        match type of El with context [find ?f ?l] => destruct (find f l) end; [discriminate|].
        match type of El with context [nth_error ?l ?i] => destruct (nth_error l i) as [[? ?]|] end; discriminate.
    + inversion Hs; subst. cbn. left. apply req_range_none; auto.
  - destruct (pending st t) as [p|] eqn:Ep; [|discriminate].
    pose proof (HP t p (pending_in st t p Ep)) as Hr. destruct (req_range_valid _ _ _ Hr) as [V1 V2].
    destruct ok; inversion Hs; subst; clear Hs.
    + rewrite reply_of_ok by auto. cbn. destruct (req_range_some _ _ _ I1 I2 Hr) as [_ [_ R]]. exact R.
    + cbn. auto.
  - destruct (req_range start0 ln0) as [rq|]; [|discriminate].
    destruct (length v =? _); [|discriminate].
    destruct (set_range del cancel (st_cache st) rq v); discriminate.
  - discriminate.
Qed.

(* C17 (b): transparency over every history x interleaving x choice *)
Theorem transparent h : Forall (fun ta => truthful (snd ta)) h ->
  forall st0, SInv st0 ->
  SInv (fst (run st0 h)) /\
  forall k t a start ln r,
    nth_error h k = Some (t, a) -> nth_error (snd (run st0 h)) k = Some (Some (EvGet start ln r)) ->
    int64 start -> int64 ln -> get_spec a start ln r.
Proof.
  intros Ht st0 H0. split; [apply run_SInv; auto|].
  revert st0 H0. induction h as [|[t0 a0] h IH]; intros st0 H0 k t a start ln r Hk He I1 I2.
  - destruct k; discriminate.
  - inversion Ht as [|? ? Ha Ht']; subst. cbn in Ha. cbn [run] in He.
    pose proof (step_SInv st0 t0 a0 H0 Ha) as H1.
    destruct (step st0 t0 a0) as [st1 ev] eqn:Es. cbn [fst] in H1.
    destruct (run st1 h) as [st2 evs] eqn:Er. cbn [snd] in He.
    destruct k as [|k]; cbn [nth_error] in *.
    + inversion Hk; subst. inversion He; subst. eapply step_get_spec; [exact H0|exact Es|auto|auto].
    + eapply (IH Ht' st1 H1 k); eauto. rewrite Er. exact He.
Qed.

(* ------------------------------------------------------------------ C17 (c): a failed fetch is not cached *)
Theorem failed_fetch_not_cached st t del cancel p :
  pending st t = Some p ->
  step st t (AMiss false del cancel) = (clear_pend st t, Some (EvGet (p_start p) (p_ln p) RErr)) /\
  st_cache (clear_pend st t) = st_cache st.
Proof. intros Hp. cbn [step]. rewrite Hp. split; reflexivity. Qed.

(* more generally: no GetRange that reports an error changes the cache *)
Theorem error_leaves_cache st t a st' start ln :
  SInv st -> step st t a = (st', Some (EvGet start ln RErr)) -> st_cache st' = st_cache st.
Proof.
  intros [HI HP] Hs.
  destruct a as [start0 ln0 pick cancel|ok del cancel|start0 ln0 v del cancel|old]; cbn [step] in Hs.
  - destruct (pending st t); [discriminate|]. destruct (req_range start0 ln0) as [rq|]; [|inversion Hs; auto].
    destruct (lookup _ _ _ _); inversion Hs; auto.
  - destruct (pending st t) as [p|] eqn:Ep; [|discriminate].
    pose proof (HP t p (pending_in st t p Ep)) as Hr. destruct (req_range_valid _ _ _ Hr) as [V1 V2].
    destruct ok; [|inversion Hs; auto].
    rewrite reply_of_ok in Hs by auto. inversion Hs.
  - destruct (req_range start0 ln0) as [rq|]; [|discriminate]. destruct (length v =? _); [|discriminate].
    destruct (set_range _ _ _ _ _); discriminate.
  - discriminate.
Qed.

(* ------------------------------------------------------------------ C17 (d): never padded *)
Theorem past_eof_refused st t start ln pick cancel :
  int64 start -> int64 ln -> pending st t = None ->
  ~ (0 <= start /\ 0 <= ln /\ start + ln <= Z.of_nat size)%Z ->
  step st t (ALookup start ln pick cancel) = (st, Some (EvGet start ln RErr)).
Proof.
  intros I1 I2 Hp Hn. cbn [step]. rewrite Hp.
  destruct (req_range start ln) as [rq|] eqn:Er; [|reflexivity].
  exfalso. apply Hn. apply (req_range_some _ _ _ I1 I2 Er).
Qed.

(* every GetRange terminates with exactly one reply: Lookup answers or leaves a pending miss, and Miss answers *)
Theorem get_completes st t start ln pick c1 ok del c2 :
  pending st t = None ->
  (exists r, step st t (ALookup start ln pick c1) = (st, Some (EvGet start ln r))) \/
  (exists st1 st2 r, step st t (ALookup start ln pick c1) = (st1, None) /\
                     step st1 t (AMiss ok del c2) = (st2, Some (EvGet start ln r)) /\ pending st2 t = None).
Proof.
  intros Hp. cbn [step]. rewrite Hp. destruct (req_range start ln) as [rq|]; [|left; eauto].
  destruct (lookup (st_cache st) rq pick c1); [left; eauto|left; eauto|]. right.
  set (p := {| p_start := start; p_ln := ln; p_rq := rq |}).
  assert (P1 : pending (set_pend st t p) t = Some p).
  { unfold pending, set_pend; cbn. now rewrite Nat.eqb_refl. }
  assert (P2 : forall s, pending (clear_pend s t) t = None).
  { intros s. unfold pending, clear_pend; cbn.
    destruct (find _ (filter _ (st_pend s))) as [x|] eqn:E; [|reflexivity].
    apply find_some in E. destruct E as [E1 E2]. apply filter_In in E1. destruct E1 as [_ E1].
    rewrite E2 in E1. discriminate. }
  destruct ok.
  - eexists _, _, _. split; [reflexivity|]. cbn [step]. rewrite P1. split; [reflexivity|].
    unfold pending, with_cache; cbn [st_pend]. apply (P2 (set_pend st t p)).
  - eexists _, _, _. split; [reflexivity|]. cbn [step]. rewrite P1. split; [reflexivity|]. apply P2.
Qed.

(* ------------------------------------------------------------------ the cache stays a map and an antichain *)
(* no cached range contains another one (in particular keys are unique): with a live context setRange is
   therefore deterministic — a superset and a strict subset of the same request never coexist. *)
Definition Anti (c : cache) : Prop :=
  NoDup (map fst c) /\
  forall r1 r2, In r1 (map fst c) -> In r2 (map fst c) -> contains r1 r2 = true -> r1 = r2.

Lemma map_fst_filter_in (f : entry -> bool) c r : In r (map fst (filter f c)) -> In r (map fst c).
Proof.
  intros H. apply in_map_iff in H. destruct H as [e [E Hin]]. apply filter_In in Hin.
  apply in_map_iff. exists e; tauto.
Qed.
Lemma NoDup_map_filter (f : entry -> bool) c : NoDup (map fst c) -> NoDup (map fst (filter f c)).
Proof.
  induction c as [|e c IH]; cbn; auto. intros H. inversion H; subst.
  destruct (f e); cbn; auto. constructor; auto. intros Hin. apply map_fst_filter_in in Hin. auto.
Qed.
Lemma Anti_filter f c : Anti c -> Anti (filter f c).
Proof.
  intros [H1 H2]. split; [apply NoDup_map_filter; auto|].
  intros r1 r2 A B. apply H2; eapply map_fst_filter_in; eauto.
Qed.

Lemma contains_antisym r1 r2 : contains r1 r2 = true -> contains r2 r1 = true -> r1 = r2.
Proof.
  destruct r1, r2; unfold contains; cbn. rewrite !andb_true_iff, !Nat.leb_le. intros [A B] [C D].
  f_equal; lia.
Qed.

Lemma set_range_Anti del cancel c rq v : Anti c -> Anti (fst (set_range del cancel c rq v)).
Proof.
  intros HA. unfold set_range. destruct c as [|e0 c0].
  - cbn. split; [repeat constructor; auto|]. intros r1 r2 [<-|[]] [<-|[]] _; reflexivity.
  - remember (e0 :: c0) as c. destruct cancel; cbn [fst]; [apply Anti_filter; auto|].
    destruct (existsb (fun e => contains (fst e) rq) c) eqn:Ex; cbn [fst]; [apply Anti_filter; auto|].
    assert (Hno : forall r, In r (map fst c) -> contains r rq = false).
    { intros r Hin. apply in_map_iff in Hin. destruct Hin as [e [<- Hin]].
      destruct (contains (fst e) rq) eqn:Ec; auto.
      assert (existsb (fun e => contains (fst e) rq) c = true) by (apply existsb_exists; eauto). congruence. }
    set (f := fun e : entry => negb (contains rq (fst e))).
    assert (Hf : forall r, In r (map fst (filter f c)) -> contains rq r = false /\ In r (map fst c)).
    { intros r Hin. apply in_map_iff in Hin. destruct Hin as [e [<- Hin]]. apply filter_In in Hin.
      destruct Hin as [Hin Hfe]. unfold f in Hfe. apply negb_true_iff in Hfe. split; auto.
      apply in_map_iff; eauto. }
    destruct (Anti_filter f c HA) as [N1 N2]. split.
    + cbn [map fst]. constructor; auto. intros Hin. destruct (Hf rq Hin) as [_ Hin'].
      pose proof (Hno rq Hin') as X. unfold contains in X. rewrite !Nat.leb_refl in X. discriminate.
    + cbn [map fst]. intros r1 r2 [<-|A] [<-|B] Hc; auto.
      * destruct (Hf r2 B) as [X _]. congruence.
      * destruct (Hf r1 A) as [_ X]. rewrite (Hno r1 X) in Hc. discriminate.
Qed.

Theorem step_Anti st t a : Anti (st_cache st) -> Anti (st_cache (fst (step st t a))).
Proof.
  intros HA. destruct a as [start ln pick cancel|ok del cancel|start ln v del cancel|old]; cbn [step].
  - destruct (pending st t); auto. destruct (req_range start ln); auto.
    destruct (lookup _ _ _ _); auto.
  - destruct (pending st t); auto. destruct ok; cbn; auto. apply set_range_Anti; auto.
  - destruct (req_range start ln) as [rq|]; auto. destruct (length v =? _); auto.
    pose proof (set_range_Anti del cancel (st_cache st) rq v HA) as H.
    destruct (set_range del cancel (st_cache st) rq v); cbn in *; auto.
  - cbn. apply Anti_filter; auto.
Qed.

(* with a live context the outcome of setRange does not depend on the map iteration order *)
Theorem set_range_deterministic del1 del2 c rq v :
  Anti c -> set_range del1 false c rq v = set_range del2 false c rq v.
Proof.
  intros [_ HA]. unfold set_range. destruct c as [|e0 c0]; [reflexivity|]. remember (e0 :: c0) as c.
  destruct (existsb (fun e => contains (fst e) rq) c) eqn:Ex; [|reflexivity].
  apply existsb_exists in Ex. destruct Ex as [es [Hs Hc]].
  f_equal. apply filter_ext_in. intros e Hin.
  destruct (strict_sub rq (fst e)) eqn:Ess; [|reflexivity]. exfalso.
  unfold strict_sub in Ess. apply andb_true_iff in Ess. destruct Ess as [S1 S2].
  apply negb_true_iff in S2.
  assert (T : contains (fst es) (fst e) = true).
  { unfold contains in *. rewrite !andb_true_iff, !Nat.leb_le in *. lia. }
  assert (fst es = fst e) by (apply HA; auto using in_map). congruence.
Qed.

End RC.
