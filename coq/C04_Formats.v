(* C04 — the three on-disk formats: header / metadata encodings and their parsers ([open_*]), the builders'
   input validation, and the property theorems for each format (instances of C04_Model's generic theorems).
     compactindexsized            : magic, header length, value size, bucket count, version, indexmeta key/values
     deprecated/compactindex      : fixed 32-byte header (magic, FileSize, NumBuckets, version, 11 zero bytes);
                                    values are uint64 cut to intWidth(FileSize) bytes
     deprecated/compactindex36    : same header, 36-byte values *)
From Coq Require Import List Arith Lia Bool PeanoNat NArith Sorting.Permutation.
Import ListNotations.
Require Import YF.Codec YF.ReadAt YF.CI YF.C04_Core YF.C04_Model YF.Generated.ConstsC04.
Close Scope N_scope.
Arguments Nat.mul : simpl never.
Arguments Nat.modulo : simpl never.
Arguments Nat.div : simpl never.

(* the constants the model hard-wires are the ones in the code today (a changed constant breaks this file) *)
Example consts_as_modelled :
  sized_HashSize = 3%N /\ sized_bucketHdrLen = 16%N /\ legacy8_bucketHdrLen = 16%N /\ legacy36_bucketHdrLen = 16%N /\
  legacy8_mineAttempts = sized_mineAttempts /\ legacy36_mineAttempts = sized_mineAttempts /\
  legacy8_targetEntriesPerBucket = sized_targetEntriesPerBucket /\
  legacy36_targetEntriesPerBucket = sized_targetEntriesPerBucket /\
  legacy36_Magic = legacy8_Magic /\ legacy36_Version = legacy8_Version /\
  legacy8_headerSize = 32%N /\ legacy36_headerSize = 32%N /\ legacy36_valueLength = 36%N /\
  length sized_Magic = 8 /\ length legacy8_Magic = 8 /\
  (sized_Version < 256)%N /\ (legacy8_Version < 256)%N /\
  indexmeta_MaxNumKVs = 255%N /\ indexmeta_MaxKeySize = 255%N /\ indexmeta_MaxValueSize = 255%N /\
  (0 < sized_targetEntriesPerBucket)%N /\ (sized_mineAttempts <= 4294967296)%N.
Proof. repeat split; try reflexivity; vm_compute; discriminate. Qed.

(* ------------------------------------------------------------------ small list facts *)
Lemma firstn_app_exact {T} (a b : list T) n : n = length a -> firstn n (a ++ b) = a.
Proof. intros ->. rewrite firstn_app, Nat.sub_diag, firstn_all. cbn. apply app_nil_r. Qed.
Lemma skipn_app_exact {T} (a b : list T) n : n = length a -> skipn n (a ++ b) = b.
Proof. intros ->. rewrite skipn_app, Nat.sub_diag, skipn_all. reflexivity. Qed.

Definition bytes_eqb (a b : list N) : bool := if list_eq_dec N.eq_dec a b then true else false.
Lemma bytes_eqb_refl a : bytes_eqb a a = true.
Proof. unfold bytes_eqb. destruct (list_eq_dec N.eq_dec a a); congruence. Qed.

(* ------------------------------------------------------------------ indexmeta *)
Definition meta := list (list N * list N).

(* Meta.MarshalBinary: count byte, then per pair: key length byte, key, value length byte, value *)
Definition meta_kv_bytes (x : list N * list N) : list N :=
  [(N.of_nat (length (fst x)) mod 256)%N] ++ fst x ++ [(N.of_nat (length (snd x)) mod 256)%N] ++ snd x.
Definition meta_bytes (m : meta) : list N :=
  [(N.of_nat (length m) mod 256)%N] ++ concat (map meta_kv_bytes m).

(* MarshalBinary returns an error (Bytes panics) beyond these limits; Meta.Add enforces them *)
Definition meta_ok (m : meta) : Prop :=
  length m <= 255 /\ Forall (fun x => length (fst x) <= 255 /\ length (snd x) <= 255) m.

(* Meta.UnmarshalWithDecoder *)
Fixpoint parse_meta_kvs (n : nat) (s : list N) : option meta :=
  match n with
  | O => Some []
  | S n' =>
    match s with
    | [] => None
    | klb :: s1 =>
      let kl := N.to_nat klb in
      if length s1 <? kl then None
      else match skipn kl s1 with
           | [] => None
           | vlb :: s2 =>
             let vl := N.to_nat vlb in
             if length s2 <? vl then None
             else match parse_meta_kvs n' (skipn vl s2) with
                  | None => None
                  | Some r => Some ((firstn kl s1, firstn vl s2) :: r)
                  end
           end
    end
  end.
(* Meta.UnmarshalBinary: an empty buffer is an empty metadata *)
Definition parse_meta (s : list N) : option meta :=
  match s with [] => Some [] | c :: r => parse_meta_kvs (N.to_nat c) r end.

Lemma byte_of_len n : n <= 255 -> N.to_nat (N.of_nat n mod 256) = n.
Proof. intros H. rewrite N.mod_small by lia. apply Nat2N.id. Qed.

Lemma parse_meta_kvs_roundtrip (m : meta) : forall tail,
  Forall (fun x => length (fst x) <= 255 /\ length (snd x) <= 255) m ->
  parse_meta_kvs (length m) (concat (map meta_kv_bytes m) ++ tail) = Some m.
Proof.
  induction m as [|[k v] m IH]; intros tail H; [reflexivity|].
  inversion H as [|? ? [Hk Hv] Hm]; subst. cbn [fst snd] in *.
  cbn [length map concat parse_meta_kvs]. unfold meta_kv_bytes at 1. cbn [fst snd].
  rewrite <- !app_assoc. cbn [app]. rewrite byte_of_len by exact Hk.
  replace (length (k ++ (N.of_nat (length v) mod 256)%N :: v ++ concat (map meta_kv_bytes m) ++ tail) <? length k)
    with false by (symmetry; apply Nat.ltb_ge; rewrite app_length; lia).
  rewrite skipn_app_exact by reflexivity. rewrite byte_of_len by exact Hv.
  replace (length (v ++ concat (map meta_kv_bytes m) ++ tail) <? length v)
    with false by (symmetry; apply Nat.ltb_ge; rewrite app_length; lia).
  rewrite skipn_app_exact by reflexivity. rewrite IH by exact Hm.
  rewrite !firstn_app_exact by reflexivity. reflexivity.
Qed.

Theorem parse_meta_roundtrip m : meta_ok m -> parse_meta (meta_bytes m) = Some m.
Proof.
  intros [Hn Hf]. unfold meta_bytes, parse_meta. cbn [app]. rewrite byte_of_len by exact Hn.
  pose proof (parse_meta_kvs_roundtrip m [] Hf) as R. now rewrite app_nil_r in R.
Qed.

Lemma meta_bytes_length m : meta_ok m -> length (meta_bytes m) <= 1 + 512 * length m.
Proof.
  intros [_ Hf]. unfold meta_bytes. cbn [app length]. apply le_n_S.
  induction Hf as [|[k v] m [Hk Hv] Hf IH]; cbn [map concat length]; [lia|].
  rewrite app_length. unfold meta_kv_bytes at 1. cbn [fst snd] in *. rewrite !app_length. cbn [length]. lia.
Qed.

(* ------------------------------------------------------------------ compactindexsized header *)
(* Header.Bytes: magic | uint32 length of the rest | uint64 ValueSize | uint32 NumBuckets | version | metadata.
   The conversions uint64(valueSize), uint32(numBuckets), uint32(len) are the truncations of le_enc. *)
Definition hdr_rest (vs nb : nat) (m : meta) : list N :=
  le_enc 8 (N.of_nat vs) ++ le_enc 4 (N.of_nat nb) ++ [sized_Version] ++ meta_bytes m.
Definition hdr_sized (vs nb : nat) (m : meta) : list N :=
  sized_Magic ++ le_enc 4 (N.of_nat (length (hdr_rest vs nb m))) ++ hdr_rest vs nb m.

(* query.go Open + Header.Load. Reads are ReadAt(buf, 0): they fail when the file is shorter than the buffer.
   Returns (ValueSize, NumBuckets, metadata, headerSize). The buffer size 8+4+size is computed in uint32. *)
Definition open_sized (file : list N) : option (nat * nat * meta * nat) :=
  if length file <? 12 then None
  else if negb (bytes_eqb (firstn 8 file) sized_Magic) then None
  else
    let size := le_dec (firstn 4 (skipn 8 file)) in
    let tot := N.to_nat ((12 + size) mod 4294967296)%N in
    if length file <? tot then None
    else
      let buf := firstn tot file in
      if (size <? 13)%N then None   (* Load rejects < 12; with exactly 12 it indexes buf[24] of a 24-byte buffer *)
      else
        let vs := le_dec (firstn 8 (skipn 12 buf)) in
        let nb := le_dec (firstn 4 (skipn 20 buf)) in
        if negb (N.eqb (nth 24 buf 0%N) sized_Version) then None
        else match parse_meta (skipn 25 buf) with
             | None => None
             | Some m => if (vs =? 0)%N then None else if (nb =? 0)%N then None
                         else Some (N.to_nat vs, N.to_nat nb, m, tot)
             end.

Lemma hdr_rest_length vs nb m : length (hdr_rest vs nb m) = 13 + length (meta_bytes m).
Proof. unfold hdr_rest. rewrite !app_length, !le_enc_length. cbn [length]. lia. Qed.

Lemma hdr_sized_length vs nb m : length (hdr_sized vs nb m) = 25 + length (meta_bytes m).
Proof.
  unfold hdr_sized. rewrite !app_length, le_enc_length, hdr_rest_length.
  replace (length sized_Magic) with 8 by reflexivity. lia.
Qed.

Theorem open_sized_hdr vs nb m rest :
  0 < vs -> (N.of_nat vs < 2 ^ 64)%N -> 0 < nb -> (N.of_nat nb < 2 ^ 32)%N -> meta_ok m ->
  open_sized (hdr_sized vs nb m ++ rest) = Some (vs, nb, m, length (hdr_sized vs nb m)).
Proof.
  intros Hvs Hvs64 Hnb Hnb32 Hm.
  pose proof (meta_bytes_length m Hm) as Hml. destruct Hm as [Hcnt Hf]. assert (Hm : meta_ok m) by (split; auto).
  set (R := hdr_rest vs nb m). set (L := length R).
  assert (HL : L = 13 + length (meta_bytes m)) by apply hdr_rest_length.
  assert (HLs : (N.of_nat L < 256 ^ N.of_nat 4)%N).
  { change (256 ^ N.of_nat 4)%N with 4294967296%N. lia. }
  unfold open_sized.
  assert (Hlen : length (hdr_sized vs nb m ++ rest) = 12 + L + length rest).
  { rewrite app_length, hdr_sized_length. lia. }
  rewrite Hlen. replace (12 + L + length rest <? 12) with false by (symmetry; apply Nat.ltb_ge; lia).
  unfold hdr_sized. fold R. fold L. rewrite <- !app_assoc.
  rewrite (firstn_app_exact sized_Magic) by reflexivity. rewrite bytes_eqb_refl. cbn [negb].
  rewrite (skipn_app_exact sized_Magic) by reflexivity.
  rewrite firstn_le_enc_app. rewrite (le_roundtrip 4) by exact HLs.
  rewrite N.mod_small by (change 4294967296%N with (256 ^ N.of_nat 4)%N; change (256 ^ N.of_nat 4)%N with 4294967296%N; lia).
  replace (N.to_nat (12 + N.of_nat L)) with (12 + L) by lia.
  replace (12 + L + length rest <? 12 + L) with false by (symmetry; apply Nat.ltb_ge; lia).
  replace (N.of_nat L <? 13)%N with false by (symmetry; apply N.ltb_ge; lia).
  (* the header buffer *)
  replace (firstn (12 + L) (sized_Magic ++ le_enc 4 (N.of_nat L) ++ R ++ rest))
    with (sized_Magic ++ le_enc 4 (N.of_nat L) ++ R).
  2:{ replace (sized_Magic ++ le_enc 4 (N.of_nat L) ++ R ++ rest)
        with ((sized_Magic ++ le_enc 4 (N.of_nat L) ++ R) ++ rest) by (now rewrite <- !app_assoc).
      symmetry. apply firstn_app_exact. rewrite !app_length, le_enc_length. replace (length sized_Magic) with 8 by reflexivity.
      fold L. lia. }
  assert (S12 : skipn 12 (sized_Magic ++ le_enc 4 (N.of_nat L) ++ R) = R).
  { change 12 with (8 + 4). rewrite skipn_plus. rewrite (skipn_app_exact sized_Magic) by reflexivity.
    apply skipn_le_enc_app. }
  rewrite S12.
  assert (S20 : skipn 20 (sized_Magic ++ le_enc 4 (N.of_nat L) ++ R) = le_enc 4 (N.of_nat nb) ++ [sized_Version] ++ meta_bytes m).
  { change 20 with (12 + 8). rewrite skipn_plus, S12. unfold R, hdr_rest. apply skipn_le_enc_app. }
  rewrite S20.
  assert (S25 : skipn 25 (sized_Magic ++ le_enc 4 (N.of_nat L) ++ R) = meta_bytes m).
  { change 25 with (20 + (4 + 1)). rewrite skipn_plus, S20. rewrite skipn_plus, skipn_le_enc_app. reflexivity. }
  rewrite S25.
  assert (N24 : nth 24 (sized_Magic ++ le_enc 4 (N.of_nat L) ++ R) 0%N = sized_Version).
  { rewrite <- (firstn_skipn 24 (sized_Magic ++ le_enc 4 (N.of_nat L) ++ R)) at 1.
    rewrite app_nth2 by (rewrite firstn_length; lia).
    rewrite firstn_length, !app_length, le_enc_length. replace (length sized_Magic) with 8 by reflexivity. fold L.
    replace (24 - Nat.min 24 (8 + (4 + L))) with 0 by lia.
    change 24 with (20 + 4). rewrite skipn_plus, S20, skipn_le_enc_app. reflexivity. }
  rewrite N24, N.eqb_refl. cbn [negb].
  replace (firstn 8 R) with (le_enc 8 (N.of_nat vs)) by (unfold R, hdr_rest; now rewrite firstn_le_enc_app).
  rewrite (le_roundtrip 8) by (change (256 ^ N.of_nat 8)%N with (2 ^ 64)%N; exact Hvs64).
  rewrite firstn_le_enc_app. rewrite (le_roundtrip 4) by (change (256 ^ N.of_nat 4)%N with (2 ^ 32)%N; exact Hnb32).
  rewrite parse_meta_roundtrip by exact Hm.
  replace (N.of_nat vs =? 0)%N with false by (symmetry; apply N.eqb_neq; lia).
  replace (N.of_nat nb =? 0)%N with false by (symmetry; apply N.eqb_neq; lia).
  rewrite !Nat2N.id. f_equal.
Qed.

(* ------------------------------------------------------------------ legacy header (both legacy packages) *)
(* Header.Store: magic | uint64 FileSize | uint32 NumBuckets | version | 11 zero bytes *)
Definition hdr_legacy (fs : N) (nb : nat) : list N :=
  legacy8_Magic ++ le_enc 8 fs ++ le_enc 4 (N.of_nat nb) ++ [legacy8_Version] ++ repeat 0%N 11.

(* Open + Header.Load of the legacy packages: returns (FileSize, NumBuckets) *)
Definition open_legacy (file : list N) : option (N * nat) :=
  if length file <? 32 then None
  else
    let buf := firstn 32 file in
    if negb (bytes_eqb (firstn 8 buf) legacy8_Magic) then None
    else if negb (N.eqb (nth 20 buf 0%N) legacy8_Version) then None
    else if negb (forallb (N.eqb 0) (skipn 21 buf)) then None
    else Some (le_dec (firstn 8 (skipn 8 buf)), N.to_nat (le_dec (firstn 4 (skipn 16 buf)))).

Lemma hdr_legacy_length fs nb : length (hdr_legacy fs nb) = 32.
Proof. unfold hdr_legacy. rewrite !app_length, !le_enc_length, repeat_length. reflexivity. Qed.

Theorem open_legacy_hdr fs nb rest : (fs < 2 ^ 64)%N -> (N.of_nat nb < 2 ^ 32)%N ->
  open_legacy (hdr_legacy fs nb ++ rest) = Some (fs, nb).
Proof.
  intros Hfs Hnb. unfold open_legacy. rewrite app_length, hdr_legacy_length.
  replace (32 + length rest <? 32) with false by (symmetry; apply Nat.ltb_ge; lia).
  rewrite firstn_app_exact by (now rewrite hdr_legacy_length).
  pose proof (hdr_legacy_length fs nb) as HdL. unfold hdr_legacy in *.
  set (T := [legacy8_Version] ++ repeat 0%N 11) in *.
  set (Hd := legacy8_Magic ++ le_enc 8 fs ++ le_enc 4 (N.of_nat nb) ++ T) in *.
  assert (F8 : firstn 8 Hd = legacy8_Magic) by (unfold Hd; apply firstn_app_exact; reflexivity).
  assert (S8 : skipn 8 Hd = le_enc 8 fs ++ le_enc 4 (N.of_nat nb) ++ T) by (unfold Hd; apply skipn_app_exact; reflexivity).
  assert (S16 : skipn 16 Hd = le_enc 4 (N.of_nat nb) ++ T).
  { change 16 with (8 + 8). rewrite skipn_plus, S8. apply skipn_le_enc_app. }
  assert (S20 : skipn 20 Hd = T).
  { change 20 with (16 + 4). rewrite skipn_plus, S16. apply skipn_le_enc_app. }
  assert (N20 : nth 20 Hd 0%N = legacy8_Version).
  { rewrite <- (firstn_skipn 20 Hd) at 1. rewrite app_nth2 by (rewrite firstn_length; lia).
    rewrite firstn_length, HdL. replace (20 - Nat.min 20 32) with 0 by lia. rewrite S20. reflexivity. }
  assert (S21 : skipn 21 Hd = repeat 0%N 11).
  { change 21 with (20 + 1). rewrite skipn_plus, S20. reflexivity. }
  rewrite F8, bytes_eqb_refl, N20, N.eqb_refl, S21. cbn [negb repeat forallb N.eqb andb].
  rewrite S8, S16, !firstn_le_enc_app.
  rewrite (le_roundtrip 8) by (change (256 ^ N.of_nat 8)%N with (2 ^ 64)%N; exact Hfs).
  rewrite (le_roundtrip 4) by (change (256 ^ N.of_nat 4)%N with (2 ^ 32)%N; exact Hnb).
  now rewrite Nat2N.id.
Qed.

(* ------------------------------------------------------------------ builders *)
(* numBuckets := (numItems + targetEntriesPerBucket - 1) / targetEntriesPerBucket *)
Definition tpb : nat := N.to_nat sized_targetEntriesPerBucket.
Definition num_buckets (items : nat) : nat := (items + (tpb - 1)) / tpb.

Lemma num_buckets_pos items : 0 < items -> 0 < num_buckets items.
Proof.
  intros H. unfold num_buckets. assert (Ht : 0 < tpb) by (unfold tpb; vm_compute; lia).
  apply Nat.div_str_pos. lia.
Qed.

(* NewBuilderSized: valueSize 0 and > 255 are refused; the repair also refuses 253..255 (3 + valueSize must fit
   the uint8 entry stride); numItems 0 is refused *)
Definition cfg_err (var : variant) (items vs : nat) : option berr :=
  if vs =? 0 then Some EValueSize
  else if 255 <? vs then Some EValueSize
  else if v_check_vs var && (252 <? vs) then Some EValueSize
  else if items =? 0 then Some ENumItems
  else None.

Definition fmt_sized (vs nb : nat) (m : meta) : format :=
  {| f_hdr := hdr_sized vs nb m; f_svs := vs; f_evs := vs; f_vt := fun v => v |}.

Definition supported (items vs : nat) (kvs : list kv) : Prop :=
  1 <= items /\ 1 <= vs /\ 3 + vs < 256 /\ keys_ok kvs /\ Forall (fun x => length (snd x) = vs) kvs.

(* FileSize 0 means "unknown" *)
Definition legacy_fs (fs : N) : N := if (fs =? 0)%N then 18446744073709551615%N else fs.
(* intWidth: bytes needed for n  =  (bits.Len64(n) + 7) / 8 *)
Definition int_width (fs : N) : nat := N.to_nat ((N.size fs + 7) / 8).

Definition fmt_legacy36 (fs : N) (nb : nat) : format :=
  {| f_hdr := hdr_legacy (legacy_fs fs) nb; f_svs := 36; f_evs := 36; f_vt := fun v => v |}.
(* Insert(key, uint64): 8 value bytes in the spill; marshalEntry keeps the low intWidth(FileSize) bytes *)
Definition fmt_legacy8 (fs : N) (nb : nat) : format :=
  {| f_hdr := hdr_legacy (legacy_fs fs) nb; f_svs := 8; f_evs := int_width (legacy_fs fs);
     f_vt := firstn (int_width (legacy_fs fs)) |}.

Lemma legacy_fs_lt fs : (fs < 2 ^ 64)%N -> (legacy_fs fs < 2 ^ 64)%N.
Proof. intros H. unfold legacy_fs. destruct (fs =? 0)%N; [reflexivity|exact H]. Qed.

Lemma size_le_64 fs : (fs < 2 ^ 64)%N -> (N.size fs <= 64)%N.
Proof.
  intros H. destruct (N.eq_dec fs 0) as [->|Hz]; [cbn; lia|].
  rewrite N.size_log2 by exact Hz. assert (N.log2 fs < 64)%N by (apply N.log2_lt_pow2; lia). lia.
Qed.

Lemma int_width_le fs : (fs < 2 ^ 64)%N -> int_width fs <= 8.
Proof.
  intros H. unfold int_width. pose proof (size_le_64 fs H) as Hs.
  assert ((N.size fs + 7) / 8 < 9)%N; [|lia].
  apply N.div_lt_upper_bound; lia.
Qed.

Lemma fits_width fs v : (v <= fs)%N -> (v < 256 ^ N.of_nat (int_width fs))%N.
Proof.
  intros H. unfold int_width. rewrite N2Nat.id.
  assert (Hfs : (fs < 2 ^ N.size fs)%N) by apply N.size_gt.
  assert (Hp : (2 ^ N.size fs <= 256 ^ ((N.size fs + 7) / 8))%N).
  { change 256%N with (2 ^ 8)%N. rewrite <- N.pow_mul_r. apply N.pow_le_mono_r; [lia|].
    pose proof (N.div_mod (N.size fs + 7) 8 ltac:(lia)) as D.
    pose proof (N.mod_lt (N.size fs + 7) 8 ltac:(lia)) as M. lia. }
  lia.
Qed.

Lemma firstn_le_enc w : forall j v, firstn w (le_enc (w + j) v) = le_enc w v.
Proof. induction w as [|w IH]; intros j v; cbn [Nat.add le_enc firstn]; auto. now rewrite IH. Qed.

Lemma cfg_ok_repaired items vs : cfg_err repaired items vs = None <-> 1 <= items /\ 1 <= vs /\ 3 + vs < 256.
Proof.
  unfold cfg_err. cbn [v_check_vs repaired andb].
  destruct (vs =? 0) eqn:E0; [apply Nat.eqb_eq in E0; split; [discriminate|lia]|]. apply Nat.eqb_neq in E0.
  destruct (255 <? vs) eqn:E1; [apply Nat.ltb_lt in E1; split; [discriminate|lia]|]. apply Nat.ltb_ge in E1.
  destruct (252 <? vs) eqn:E2; [apply Nat.ltb_lt in E2; split; [discriminate|lia]|]. apply Nat.ltb_ge in E2.
  destruct (items =? 0) eqn:E3; [apply Nat.eqb_eq in E3; split; [discriminate|lia]|]. apply Nat.eqb_neq in E3.
  split; [lia|reflexivity].
Qed.

Lemma fmt_sized_ok vs nb m : 3 + vs < 256 -> fmt_ok (fmt_sized vs nb m) /\ entry_sized (fmt_sized vs nb m).
Proof. intros H. split; [exact H|]. intros v Hv. exact Hv. Qed.

Lemma fmt_legacy8_ok fs nb : (fs < 2 ^ 64)%N -> fmt_ok (fmt_legacy8 fs nb) /\ entry_sized (fmt_legacy8 fs nb).
Proof.
  intros H. pose proof (int_width_le (legacy_fs fs) (legacy_fs_lt fs H)) as Hw. split.
  - unfold fmt_ok. cbn [f_evs fmt_legacy8]. lia.
  - intros v Hv. cbn [f_vt f_evs f_svs fmt_legacy8] in *. rewrite firstn_length. lia.
Qed.

Section Formats.
Variable hash : N -> list N -> N.
Variable bucket_of : nat -> list N -> nat.
Hypothesis bucket_of_lt : forall nb k, 0 < nb -> bucket_of nb k < nb.

Notation build_fmt := (build_fmt hash bucket_of).
Notation lookup_at := (lookup_at hash bucket_of).

(* ---------------------------------------------------------------- compactindexsized *)
(* NewBuilderSized(items, vs) ; SetKind/Metadata ; Insert* ; Seal *)
Definition build_sized (var : variant) (items vs : nat) (m : meta) (kvs : list kv) : bres :=
  match cfg_err var items vs with
  | Some e => BErr e
  | None => build_fmt var (fmt_sized vs (num_buckets items) m) (num_buckets items) kvs
  end.

(* Open ; Lookup *)
Definition lookup_sized (file : list N) (k : list N) : res :=
  match open_sized file with
  | None => ReadErr
  | Some (vs, nb, _, hlen) => lookup_at vs hlen nb file k
  end.

Lemma build_sized_shape items vs m kvs file : build_sized repaired items vs m kvs = BOk file ->
  exists rest, file = hdr_sized vs (num_buckets items) m ++ rest.
Proof.
  unfold build_sized. destruct (cfg_err repaired items vs); [discriminate|].
  unfold C04_Model.build_fmt. destruct (_ && _); [discriminate|].
  destruct (seal_buckets _ _ _ _ _ _ _) as [bs| |]; try discriminate. intros H. inversion H; subst.
  unfold assemble. cbn [f_hdr fmt_sized]. eauto.
Qed.

(* Open of a sealed file returns what the builder was given: value size, bucket count, metadata *)
Theorem sized_open items vs m kvs file :
  meta_ok m -> (N.of_nat (num_buckets items) < 2 ^ 32)%N ->
  build_sized repaired items vs m kvs = BOk file ->
  open_sized file = Some (vs, num_buckets items, m, length (hdr_sized vs (num_buckets items) m)).
Proof.
  intros Hm Hnb Hb. destruct (build_sized_shape _ _ _ _ _ Hb) as [rest ->].
  unfold build_sized in Hb. destruct (cfg_err repaired items vs) eqn:Ec; [discriminate|].
  apply cfg_ok_repaired in Ec. destruct Ec as [Hi [Hv Hs]].
  apply open_sized_hdr; auto; try lia. apply num_buckets_pos. lia.
Qed.

(* every inserted key is found with exactly its value: any hash, any declared count, value size, metadata *)
Theorem sized_found items vs m kvs file k v :
  supported items vs kvs -> meta_ok m -> (N.of_nat (num_buckets items) < 2 ^ 32)%N ->
  build_sized repaired items vs m kvs = BOk file ->
  (N.of_nat (length file) < 256 ^ 6)%N -> (N.of_nat (length kvs) < 256 ^ 4)%N ->
  In (k, v) kvs -> lookup_sized file k = Found v.
Proof.
  intros [Hi [Hv [Hs [Hk Hvals]]]] Hm Hnb Hb Hsize Hcount Hin.
  unfold lookup_sized. rewrite (sized_open items vs m kvs file Hm Hnb Hb).
  unfold build_sized in Hb. destruct (cfg_err repaired items vs); [discriminate|].
  destruct (fmt_sized_ok vs (num_buckets items) m Hs) as [Hf He].
  pose proof (fmt_found hash bucket_of bucket_of_lt _ _ kvs file k v Hf He (num_buckets_pos items ltac:(lia)) Hb Hsize Hcount Hin) as F.
  cbn [f_evs f_hdr f_svs f_vt fmt_sized] in F. rewrite F. f_equal. apply fit_id.
  rewrite Forall_forall in Hvals. exact (Hvals (k, v) Hin).
Qed.

Theorem sized_no_read_error items vs m kvs file k :
  meta_ok m -> (N.of_nat (num_buckets items) < 2 ^ 32)%N ->
  build_sized repaired items vs m kvs = BOk file ->
  (N.of_nat (length file) < 256 ^ 6)%N -> (N.of_nat (length kvs) < 256 ^ 4)%N ->
  lookup_sized file k <> ReadErr.
Proof.
  intros Hm Hnb Hb Hsize Hcount.
  unfold lookup_sized. rewrite (sized_open items vs m kvs file Hm Hnb Hb).
  unfold build_sized in Hb. destruct (cfg_err repaired items vs) eqn:Ec; [discriminate|].
  apply cfg_ok_repaired in Ec. destruct Ec as [Hi [Hv Hs]].
  destruct (fmt_sized_ok vs (num_buckets items) m Hs) as [Hf He].
  exact (fmt_no_read_error hash bucket_of bucket_of_lt _ _ kvs file k Hf He (num_buckets_pos items ltac:(lia)) Hb Hsize Hcount).
Qed.

(* whatever a lookup returns is the (stored) value of an inserted key with the same bucket and 24-bit hash *)
Theorem sized_false_positive_char items vs m kvs file k' w :
  meta_ok m -> (N.of_nat (num_buckets items) < 2 ^ 32)%N ->
  build_sized repaired items vs m kvs = BOk file ->
  (N.of_nat (length file) < 256 ^ 6)%N -> (N.of_nat (length kvs) < 256 ^ 4)%N ->
  lookup_sized file k' = Found w ->
  exists k v d, In (k, v) kvs /\ w = fit vs v /\
    bucket_of (num_buckets items) k = bucket_of (num_buckets items) k' /\
    d < attempts /\ h24 hash (N.of_nat d) k = h24 hash (N.of_nat d) k'.
Proof.
  intros Hm Hnb Hb Hsize Hcount Hl.
  unfold lookup_sized in Hl. rewrite (sized_open items vs m kvs file Hm Hnb Hb) in Hl.
  unfold build_sized in Hb. destruct (cfg_err repaired items vs) eqn:Ec; [discriminate|].
  apply cfg_ok_repaired in Ec. destruct Ec as [Hi [Hv Hs]].
  destruct (fmt_sized_ok vs (num_buckets items) m Hs) as [Hf He].
  destruct (fmt_false_positive_char hash bucket_of bucket_of_lt _ _ kvs file k' w Hf He (num_buckets_pos items ltac:(lia)) Hb Hsize Hcount Hl)
    as [k [v [d [Hin [Hw [Hbk [Hmine Hh]]]]]]].
  cbn [f_vt f_svs fmt_sized] in Hw. exists k, v, d. repeat split; auto.
  apply (mine_sound hash) in Hmine. lia.
Qed.

(* byte-identical result for every insertion order (also when the result is an error) *)
Theorem sized_order_independent items vs m kvs kvs' : Permutation kvs kvs' ->
  build_sized repaired items vs m kvs = build_sized repaired items vs m kvs'.
Proof.
  intros P. unfold build_sized. destruct (cfg_err repaired items vs) eqn:Ec; auto.
  apply cfg_ok_repaired in Ec. destruct Ec as [Hi [Hv Hs]].
  apply (fmt_order_independent hash bucket_of bucket_of_lt); auto.
Qed.

Theorem sized_fail_duplicate items vs m kvs : ~ NoDup (map fst kvs) ->
  exists e, build_sized repaired items vs m kvs = BErr e.
Proof.
  intros H. unfold build_sized. destruct (cfg_err repaired items vs) eqn:Ec; [eauto|].
  apply cfg_ok_repaired in Ec. destruct Ec as [Hi [Hv Hs]].
  apply (fmt_fail_duplicate hash bucket_of bucket_of_lt); [exact Hs|apply num_buckets_pos; lia|exact H].
Qed.

Theorem sized_fail_overfull items vs m kvs b : b < num_buckets items ->
  (forall d, d < attempts -> collides_keys hash d (bucket_kvs bucket_of (num_buckets items) b kvs)) ->
  exists e, build_sized repaired items vs m kvs = BErr e.
Proof.
  intros Hb H. unfold build_sized. destruct (cfg_err repaired items vs) eqn:Ec; [eauto|].
  apply cfg_ok_repaired in Ec. destruct Ec as [Hi [Hv Hs]].
  apply (fmt_fail_overfull hash bucket_of bucket_of_lt _ _ kvs b); [exact Hs|exact Hb|exact H].
Qed.

(* unsupported declared count / value size / key length => error, never a file, never a panic *)
Theorem sized_reject_unsupported items vs m kvs :
  Forall (fun x => length (snd x) = vs) kvs -> ~ supported items vs kvs ->
  exists e, build_sized repaired items vs m kvs = BErr e.
Proof.
  intros Hvals Hns. unfold build_sized. destruct (cfg_err repaired items vs) eqn:Ec; [eauto|].
  apply cfg_ok_repaired in Ec. exists EKeyLen. apply fmt_reject_long_key.
  intros Hk. apply Hns. unfold supported. tauto.
Qed.

Theorem sized_never_panics items vs m kvs : build_sized repaired items vs m kvs <> BPanic.
Proof.
  unfold build_sized. destruct (cfg_err repaired items vs) eqn:Ec; [discriminate|].
  apply cfg_ok_repaired in Ec. destruct Ec as [Hi [Hv Hs]].
  rewrite (build_fmt_seal hash bucket_of bucket_of_lt) by exact Hs.
  destruct (existsb long_key kvs); [discriminate|]. destruct (CI.seal _ _ _ _ _ _); discriminate.
Qed.

(* a file is produced only for supported input without duplicate keys *)
Theorem sized_ok_only_if_supported items vs m kvs file :
  Forall (fun x => length (snd x) = vs) kvs ->
  build_sized repaired items vs m kvs = BOk file -> supported items vs kvs /\ NoDup (map fst kvs).
Proof.
  intros Hvals Hb. unfold build_sized in Hb. destruct (cfg_err repaired items vs) eqn:Ec; [discriminate|].
  apply cfg_ok_repaired in Ec. destruct Ec as [Hi [Hv Hs]].
  destruct (fmt_ok_implies_supported hash bucket_of bucket_of_lt (fmt_sized vs (num_buckets items) m) _ kvs file Hs (num_buckets_pos items ltac:(lia)) Hb) as [Hk Hnd].
  unfold supported. tauto.
Qed.

(* a key sharing (bucket, 24-bit hash under the bucket's mined domain) with no inserted key is "not found" *)
Theorem sized_absent items vs m kvs file k :
  meta_ok m -> (N.of_nat (num_buckets items) < 2 ^ 32)%N ->
  build_sized repaired items vs m kvs = BOk file ->
  (N.of_nat (length file) < 256 ^ 6)%N -> (N.of_nat (length kvs) < 256 ^ 4)%N ->
  (forall d k0 v0, d < attempts -> In (k0, v0) kvs ->
     bucket_of (num_buckets items) k0 = bucket_of (num_buckets items) k ->
     ~ collides_keys hash d (bucket_kvs bucket_of (num_buckets items) (bucket_of (num_buckets items) k) kvs) ->
     h24 hash (N.of_nat d) k0 <> h24 hash (N.of_nat d) k) ->
  lookup_sized file k = NotFound.
Proof.
  intros Hm Hnb Hb Hsize Hcount Hno.
  unfold lookup_sized. rewrite (sized_open items vs m kvs file Hm Hnb Hb).
  unfold build_sized in Hb. destruct (cfg_err repaired items vs) eqn:Ec; [discriminate|].
  apply cfg_ok_repaired in Ec. destruct Ec as [Hi [Hv Hs]].
  destruct (fmt_sized_ok vs (num_buckets items) m Hs) as [Hf He].
  apply (fmt_absent hash bucket_of bucket_of_lt (fmt_sized vs (num_buckets items) m) _ kvs file k Hf He
           (num_buckets_pos items ltac:(lia)) Hb Hsize Hcount).
  intros d k0 v0 Hmine Hin Hbk. apply (mine_sound hash) in Hmine. destruct Hmine as [Hnd Hd].
  apply (Hno d k0 v0); auto; [lia|].
  intros C. apply C. rewrite stored_bucket in Hnd. unfold transformed, fitted in Hnd. rewrite !map_map in Hnd. exact Hnd.
Qed.

(* the PINNED builder (no key-length check) given one key of exactly 65536 bytes produces the file that the
   empty key would give: the inserted key is lost and the empty key appears *)
Theorem sized_pinned_long_key_as_empty items vs m K v :
  cfg_err repaired items vs = None -> num_buckets items = 1 -> N.of_nat (length K) = 65536%N ->
  build_sized pinned items vs m [(K, v)] = build_sized repaired items vs m [([], v)].
Proof.
  intros Hc Hn HK. unfold build_sized. rewrite Hc.
  assert (Hp : cfg_err pinned items vs = None).
  { unfold cfg_err in *. cbn [v_check_vs pinned repaired andb] in *.
    destruct (vs =? 0); [discriminate|]. destruct (255 <? vs); [discriminate|]. destruct (252 <? vs); [discriminate|]. exact Hc. }
  rewrite Hp, Hn. apply (pinned_long_key_as_empty hash bucket_of bucket_of_lt). exact HK.
Qed.

(* ---------------------------------------------------------------- deprecated/compactindex36 *)
(* NewBuilder(items, fileSize) has no validation; with 0 items there is no bucket and Insert divides by zero *)
Definition build_legacy36 (var : variant) (items : nat) (fs : N) (kvs : list kv) : bres :=
  if (items =? 0) && negb (Nat.eqb (length kvs) 0) then BPanic
  else build_fmt var (fmt_legacy36 fs (num_buckets items)) (num_buckets items) kvs.

Definition lookup_legacy36 (file : list N) (k : list N) : res :=
  match open_legacy file with
  | None => ReadErr
  | Some (_, nb) => if nb =? 0 then ReadErr (* Go: BucketHash divides by zero *) else lookup_at 36 32 nb file k
  end.

Lemma build_legacy36_shape items fs kvs file : 0 < items -> build_legacy36 repaired items fs kvs = BOk file ->
  build_fmt repaired (fmt_legacy36 fs (num_buckets items)) (num_buckets items) kvs = BOk file /\
  exists rest, file = hdr_legacy (legacy_fs fs) (num_buckets items) ++ rest.
Proof.
  intros Hi. unfold build_legacy36. replace (items =? 0) with false by (symmetry; apply Nat.eqb_neq; lia).
  cbn [andb]. intros H. split; auto. unfold C04_Model.build_fmt in H. destruct (_ && _); [discriminate|].
  destruct (seal_buckets _ _ _ _ _ _ _) as [bs| |]; try discriminate. inversion H; subst.
  unfold assemble. cbn [f_hdr fmt_legacy36]. eauto.
Qed.

Theorem legacy36_found items fs kvs file k v :
  0 < items -> (fs < 2 ^ 64)%N -> (N.of_nat (num_buckets items) < 2 ^ 32)%N ->
  Forall (fun x => length (snd x) = 36) kvs ->
  build_legacy36 repaired items fs kvs = BOk file ->
  (N.of_nat (length file) < 256 ^ 6)%N -> (N.of_nat (length kvs) < 256 ^ 4)%N ->
  In (k, v) kvs -> lookup_legacy36 file k = Found v.
Proof.
  intros Hi Hfs Hnb Hvals Hb Hsize Hcount Hin.
  destruct (build_legacy36_shape items fs kvs file Hi Hb) as [Hb' [rest Hfile]].
  unfold lookup_legacy36. rewrite Hfile, open_legacy_hdr by (auto using legacy_fs_lt). rewrite <- Hfile.
  pose proof (num_buckets_pos items Hi) as Hpos.
  replace (num_buckets items =? 0) with false by (symmetry; apply Nat.eqb_neq; lia).
  assert (Hf : fmt_ok (fmt_legacy36 fs (num_buckets items))) by (unfold fmt_ok; cbn; lia).
  assert (He : entry_sized (fmt_legacy36 fs (num_buckets items))) by (intros w Hw; exact Hw).
  pose proof (fmt_found hash bucket_of bucket_of_lt _ _ kvs file k v Hf He Hpos Hb' Hsize Hcount Hin) as F.
  cbn [f_evs f_hdr f_svs f_vt fmt_legacy36] in F. rewrite hdr_legacy_length in F. rewrite F. f_equal. apply fit_id.
  rewrite Forall_forall in Hvals. exact (Hvals (k, v) Hin).
Qed.

Theorem legacy36_order_independent items fs kvs kvs' : Permutation kvs kvs' ->
  build_legacy36 repaired items fs kvs = build_legacy36 repaired items fs kvs'.
Proof.
  intros P. unfold build_legacy36. rewrite (Permutation_length P).
  destruct ((items =? 0) && negb (length kvs' =? 0)); auto.
  apply (fmt_order_independent hash bucket_of bucket_of_lt); auto. unfold fmt_ok; cbn; lia.
Qed.

Theorem legacy36_fail_duplicate items fs kvs : 0 < items -> ~ NoDup (map fst kvs) ->
  exists e, build_legacy36 repaired items fs kvs = BErr e.
Proof.
  intros Hi H. unfold build_legacy36. replace (items =? 0) with false by (symmetry; apply Nat.eqb_neq; lia). cbn [andb].
  apply (fmt_fail_duplicate hash bucket_of bucket_of_lt); auto. unfold fmt_ok; cbn; lia. now apply num_buckets_pos.
Qed.

Theorem legacy36_reject_long_key items fs kvs : 0 < items -> ~ keys_ok kvs ->
  build_legacy36 repaired items fs kvs = BErr EKeyLen.
Proof.
  intros Hi H. unfold build_legacy36. replace (items =? 0) with false by (symmetry; apply Nat.eqb_neq; lia). cbn [andb].
  now apply fmt_reject_long_key.
Qed.

(* ---------------------------------------------------------------- deprecated/compactindex (uint64 values) *)
Definition kv8 := (list N * N)%type.
Definition as_bytes8 (kvs : list kv8) : list kv := map (fun x => (fst x, le_enc 8 (snd x))) kvs.

Definition build_legacy8 (var : variant) (items : nat) (fs : N) (kvs : list kv8) : bres :=
  if (items =? 0) && negb (Nat.eqb (length kvs) 0) then BPanic
  else build_fmt var (fmt_legacy8 fs (num_buckets items)) (num_buckets items) (as_bytes8 kvs).

Inductive res8 := Found8 (v : N) | NotFound8 | ReadErr8.
Definition lookup_legacy8 (file : list N) (k : list N) : res8 :=
  match open_legacy file with
  | None => ReadErr8
  | Some (fs, nb) =>
    if nb =? 0 then ReadErr8
    else match lookup_at (int_width fs) 32 nb file k with
         | Found bs => Found8 (le_dec bs)      (* uintLe *)
         | NotFound => NotFound8
         | ReadErr => ReadErr8
         end
  end.

Lemma build_legacy8_shape items fs kvs file : 0 < items -> build_legacy8 repaired items fs kvs = BOk file ->
  build_fmt repaired (fmt_legacy8 fs (num_buckets items)) (num_buckets items) (as_bytes8 kvs) = BOk file /\
  exists rest, file = hdr_legacy (legacy_fs fs) (num_buckets items) ++ rest.
Proof.
  intros Hi. unfold build_legacy8. replace (items =? 0) with false by (symmetry; apply Nat.eqb_neq; lia).
  cbn [andb]. intros H. split; auto. unfold C04_Model.build_fmt in H. destruct (_ && _); [discriminate|].
  destruct (seal_buckets _ _ _ _ _ _ _) as [bs| |]; try discriminate. inversion H; subst.
  unfold assemble. cbn [f_hdr fmt_legacy8]. eauto.
Qed.

(* every inserted key is found with its value, provided the value fits the index's offset width
   (the documented precondition "the writer must not pass a value greater than targetFileSize" implies it) *)
Theorem legacy8_found items fs kvs file k v :
  0 < items -> (fs < 2 ^ 64)%N -> (N.of_nat (num_buckets items) < 2 ^ 32)%N ->
  Forall (fun x => (snd x < 256 ^ N.of_nat (int_width (legacy_fs fs)))%N) kvs ->
  build_legacy8 repaired items fs kvs = BOk file ->
  (N.of_nat (length file) < 256 ^ 6)%N -> (N.of_nat (length kvs) < 256 ^ 4)%N ->
  In (k, v) kvs -> lookup_legacy8 file k = Found8 v.
Proof.
  intros Hi Hfs Hnb Hvals Hb Hsize Hcount Hin.
  destruct (build_legacy8_shape items fs kvs file Hi Hb) as [Hb' [rest Hfile]].
  unfold lookup_legacy8. rewrite Hfile, open_legacy_hdr by (auto using legacy_fs_lt). rewrite <- Hfile.
  pose proof (num_buckets_pos items Hi) as Hpos.
  replace (num_buckets items =? 0) with false by (symmetry; apply Nat.eqb_neq; lia).
  destruct (fmt_legacy8_ok fs (num_buckets items) Hfs) as [Hf He].
  assert (Hin' : In (k, le_enc 8 v) (as_bytes8 kvs)).
  { unfold as_bytes8. apply in_map_iff. exists (k, v). split; auto. }
  assert (Hcount' : (N.of_nat (length (as_bytes8 kvs)) < 256 ^ 4)%N) by (unfold as_bytes8; now rewrite map_length).
  pose proof (fmt_found hash bucket_of bucket_of_lt _ _ (as_bytes8 kvs) file k (le_enc 8 v) Hf He Hpos Hb' Hsize Hcount' Hin') as F.
  cbn [f_evs f_hdr f_svs f_vt fmt_legacy8] in F. rewrite hdr_legacy_length in F. rewrite F.
  rewrite fit_id by apply le_enc_length.
  pose proof (int_width_le (legacy_fs fs) (legacy_fs_lt fs Hfs)) as Hw.
  replace 8 with (int_width (legacy_fs fs) + (8 - int_width (legacy_fs fs))) at 1 by lia.
  rewrite firstn_le_enc. rewrite le_roundtrip; auto.
  rewrite Forall_forall in Hvals. exact (Hvals (k, v) Hin).
Qed.

Lemma legacy8_value_le_filesize_fits fs v : (fs <> 0)%N -> (v <= fs)%N -> (v < 256 ^ N.of_nat (int_width (legacy_fs fs)))%N.
Proof.
  intros Hz H. unfold legacy_fs. replace (fs =? 0)%N with false by (symmetry; apply N.eqb_neq; exact Hz).
  now apply fits_width.
Qed.

Theorem legacy8_order_independent items fs kvs kvs' : (fs < 2 ^ 64)%N -> Permutation kvs kvs' ->
  build_legacy8 repaired items fs kvs = build_legacy8 repaired items fs kvs'.
Proof.
  intros Hfs P. unfold build_legacy8. rewrite (Permutation_length P).
  destruct ((items =? 0) && negb (length kvs' =? 0)); auto.
  apply (fmt_order_independent hash bucket_of bucket_of_lt).
  - apply (fmt_legacy8_ok fs _ Hfs).
  - unfold as_bytes8. now apply Permutation_map.
Qed.

Theorem legacy8_fail_duplicate items fs kvs : 0 < items -> (fs < 2 ^ 64)%N -> ~ NoDup (map fst kvs) ->
  exists e, build_legacy8 repaired items fs kvs = BErr e.
Proof.
  intros Hi Hfs H. unfold build_legacy8. replace (items =? 0) with false by (symmetry; apply Nat.eqb_neq; lia). cbn [andb].
  apply (fmt_fail_duplicate hash bucket_of bucket_of_lt).
  - apply (fmt_legacy8_ok fs _ Hfs).
  - now apply num_buckets_pos.
  - unfold as_bytes8. rewrite map_map. exact H.
Qed.

Theorem legacy8_reject_long_key items fs kvs : 0 < items -> ~ keys_ok (as_bytes8 kvs) ->
  build_legacy8 repaired items fs kvs = BErr EKeyLen.
Proof.
  intros Hi H. unfold build_legacy8. replace (items =? 0) with false by (symmetry; apply Nat.eqb_neq; lia). cbn [andb].
  now apply fmt_reject_long_key.
Qed.

End Formats.
