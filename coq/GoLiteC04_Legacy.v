(* C04 — the two LEGACY index packages the server still reads (deprecated/compactindex36, deprecated/compactindex):
   their hashUint64, (Header).BucketHash, (BucketHeader).Hash, uintLe and eytzinger, translated from the Go source
   on every check (Generated/GoLiteL36C04.v, Generated/GoLiteL8C04.v), are TODAY the very same GoLite terms as the
   ones of compactindexsized (Generated/GoLiteC04.v) — the [same*] lemmas below, re-checked on every run — so the
   generic theorems of GoLiteC04_Proofs / GoLiteC04_Codec / GoLiteC04_Eytz (stated for any program binding the
   name to that term) hold for them by instantiation.  Bodies that call other functions (BucketHash -> hashUint64,
   eytzinger -> eytzinger) call them by NAME inside their own package's program, which is why the instantiation
   takes the legacy package's own [prog] and look-up lemmas.
   The two searchEytzinger differ from the current one: see GoLiteC04_LegacySearch.v. *)
From Coq Require Import List ZArith NArith String Bool Lia.
Import ListNotations.
Require Import YF.GoLite YF.C04_Hash YF.Codec YF.Eytz.
Require YF.Generated.GoLiteC04 YF.Generated.GoLiteL36C04 YF.Generated.GoLiteL8C04.
Require Import YF.GoLiteC04_Proofs YF.GoLiteC04_Codec YF.GoLiteC04_Eytz.
Local Open Scope string_scope.
Local Open Scope Z_scope.

(* ------------------------------------------------------------------ same terms (fails when a package's source drifts) *)
Lemma same36_hashUint64 : GoLiteL36C04.fn_hashUint64 = GoLiteC04.fn_hashUint64. Proof. reflexivity. Qed.
Lemma same36_Header_BucketHash : GoLiteL36C04.fn_Header_BucketHash = GoLiteC04.fn_Header_BucketHash. Proof. reflexivity. Qed.
Lemma same36_BucketHeader_Hash : GoLiteL36C04.fn_BucketHeader_Hash = GoLiteC04.fn_BucketHeader_Hash. Proof. reflexivity. Qed.
Lemma same36_uintLe : GoLiteL36C04.fn_uintLe = GoLiteC04.fn_uintLe. Proof. reflexivity. Qed.
Lemma same36_eytzinger : GoLiteL36C04.fn_eytzinger = GoLiteC04.fn_eytzinger. Proof. reflexivity. Qed.
Lemma same8_hashUint64 : GoLiteL8C04.fn_hashUint64 = GoLiteC04.fn_hashUint64. Proof. reflexivity. Qed.
Lemma same8_Header_BucketHash : GoLiteL8C04.fn_Header_BucketHash = GoLiteC04.fn_Header_BucketHash. Proof. reflexivity. Qed.
Lemma same8_BucketHeader_Hash : GoLiteL8C04.fn_BucketHeader_Hash = GoLiteC04.fn_BucketHeader_Hash. Proof. reflexivity. Qed.
Lemma same8_uintLe : GoLiteL8C04.fn_uintLe = GoLiteC04.fn_uintLe. Proof. reflexivity. Qed.
Lemma same8_eytzinger : GoLiteL8C04.fn_eytzinger = GoLiteC04.fn_eytzinger. Proof. reflexivity. Qed.

(* the look-up lemmas of the legacy programs, re-targeted at the compactindexsized terms *)
Definition p36_hashUint64 : plookup "hashUint64" GoLiteL36C04.prog = Some GoLiteC04.fn_hashUint64 :=
  eq_trans GoLiteL36C04.prog_hashUint64 (f_equal Some same36_hashUint64).
Definition p36_Header_BucketHash : plookup "Header.BucketHash" GoLiteL36C04.prog = Some GoLiteC04.fn_Header_BucketHash :=
  eq_trans GoLiteL36C04.prog_Header_BucketHash (f_equal Some same36_Header_BucketHash).
Definition p36_BucketHeader_Hash : plookup "BucketHeader.Hash" GoLiteL36C04.prog = Some GoLiteC04.fn_BucketHeader_Hash :=
  eq_trans GoLiteL36C04.prog_BucketHeader_Hash (f_equal Some same36_BucketHeader_Hash).
Definition p36_uintLe : plookup "uintLe" GoLiteL36C04.prog = Some GoLiteC04.fn_uintLe :=
  eq_trans GoLiteL36C04.prog_uintLe (f_equal Some same36_uintLe).
Definition p36_eytzinger : plookup "eytzinger" GoLiteL36C04.prog = Some GoLiteC04.fn_eytzinger :=
  eq_trans GoLiteL36C04.prog_eytzinger (f_equal Some same36_eytzinger).
Definition p8_hashUint64 : plookup "hashUint64" GoLiteL8C04.prog = Some GoLiteC04.fn_hashUint64 :=
  eq_trans GoLiteL8C04.prog_hashUint64 (f_equal Some same8_hashUint64).
Definition p8_Header_BucketHash : plookup "Header.BucketHash" GoLiteL8C04.prog = Some GoLiteC04.fn_Header_BucketHash :=
  eq_trans GoLiteL8C04.prog_Header_BucketHash (f_equal Some same8_Header_BucketHash).
Definition p8_BucketHeader_Hash : plookup "BucketHeader.Hash" GoLiteL8C04.prog = Some GoLiteC04.fn_BucketHeader_Hash :=
  eq_trans GoLiteL8C04.prog_BucketHeader_Hash (f_equal Some same8_BucketHeader_Hash).
Definition p8_uintLe : plookup "uintLe" GoLiteL8C04.prog = Some GoLiteC04.fn_uintLe :=
  eq_trans GoLiteL8C04.prog_uintLe (f_equal Some same8_uintLe).
Definition p8_eytzinger : plookup "eytzinger" GoLiteL8C04.prog = Some GoLiteC04.fn_eytzinger :=
  eq_trans GoLiteL8C04.prog_eytzinger (f_equal Some same8_eytzinger).

(* ================================================================== deprecated/compactindex36 *)
Theorem legacy36_hashUint64_is_murmur ext fuel (x : N) : u64 x ->
  call GoLiteL36C04.prog ext fuel "hashUint64" [VInt (Z.of_N x)] = RRet (VInt (Z.of_N (murmur x))).
Proof. exact (hashUint64_is_murmur GoLiteL36C04.prog p36_hashUint64 ext fuel x). Qed.

Theorem legacy36_BucketHash_is_model_reject (sum64 : list Z -> N) (Hs : forall k, u64 (sum64 k)) f key nb mx :
  (0 < nb)%N -> (nb < 4294967296)%N ->
  let h := VStruct [("NumBuckets", VInt (Z.of_N nb)); ("X", mx)] in
  let r := ((18446744073709551616 - nb) mod nb)%N in
  forall v, call GoLiteL36C04.prog (ext_sum sum64) f "Header.BucketHash" [h; VInts key] = RRet v ->
  exists k, (r <= rounds k (sum64 key))%N /\ v = VInt (Z.of_N (rounds k (sum64 key) mod nb)) /\
            ((k <= 64)%nat -> v = VInt (Z.of_N (reject 64 (sum64 key) r mod nb))).
Proof. exact (BucketHash_is_model_reject GoLiteL36C04.prog p36_hashUint64 p36_Header_BucketHash sum64 Hs f key nb mx). Qed.

Theorem legacy36_BucketHeader_Hash_is_mod (eh : Z -> list Z -> N) (He : forall d k, u64 (eh d k)) f d hl key rest :
  0 <= d -> (1 <= hl <= 8)%N ->
  call GoLiteL36C04.prog (ext_eh eh) f "BucketHeader.Hash"
    [VStruct (("HashDomain", VInt d) :: ("NumEntries", VInt 0) :: ("HashLen", VInt (Z.of_N hl)) :: rest); VInts key]
  = RRet (VInt (Z.of_N (eh d key mod 256 ^ hl))).
Proof. exact (BucketHeader_Hash_is_mod GoLiteL36C04.prog p36_BucketHeader_Hash eh He f d hl key rest). Qed.

Theorem legacy36_uintLe_is_le_dec ext fuel (bs : list N) : (List.length bs <= 8)%nat ->
  call GoLiteL36C04.prog ext fuel "uintLe" [VInts (zs bs)] = RRet (VInt (Z.of_N (le_dec bs))).
Proof. exact (uintLe_is_le_dec GoLiteL36C04.prog p36_uintLe ext fuel bs). Qed.

Theorem legacy36_eytzinger_is_go ext f (inp out : list Z) :
  List.length out = List.length inp ->
  Z.of_nat (List.length inp) < 2305843009213693952 ->
  (List.length inp < 2 ^ f)%nat ->
  call GoLiteL36C04.prog ext f "eytzinger" [VInts inp; VInts out; VInt 0; VInt 1] = ey_ret (go Z 0 (S f) inp out 0 1).
Proof. exact (eytzinger_is_go GoLiteL36C04.prog p36_eytzinger ext f inp out). Qed.

(* ================================================================== deprecated/compactindex *)
Theorem legacy8_hashUint64_is_murmur ext fuel (x : N) : u64 x ->
  call GoLiteL8C04.prog ext fuel "hashUint64" [VInt (Z.of_N x)] = RRet (VInt (Z.of_N (murmur x))).
Proof. exact (hashUint64_is_murmur GoLiteL8C04.prog p8_hashUint64 ext fuel x). Qed.

Theorem legacy8_BucketHash_is_model_reject (sum64 : list Z -> N) (Hs : forall k, u64 (sum64 k)) f key nb mx :
  (0 < nb)%N -> (nb < 4294967296)%N ->
  let h := VStruct [("NumBuckets", VInt (Z.of_N nb)); ("X", mx)] in
  let r := ((18446744073709551616 - nb) mod nb)%N in
  forall v, call GoLiteL8C04.prog (ext_sum sum64) f "Header.BucketHash" [h; VInts key] = RRet v ->
  exists k, (r <= rounds k (sum64 key))%N /\ v = VInt (Z.of_N (rounds k (sum64 key) mod nb)) /\
            ((k <= 64)%nat -> v = VInt (Z.of_N (reject 64 (sum64 key) r mod nb))).
Proof. exact (BucketHash_is_model_reject GoLiteL8C04.prog p8_hashUint64 p8_Header_BucketHash sum64 Hs f key nb mx). Qed.

Theorem legacy8_BucketHeader_Hash_is_mod (eh : Z -> list Z -> N) (He : forall d k, u64 (eh d k)) f d hl key rest :
  0 <= d -> (1 <= hl <= 8)%N ->
  call GoLiteL8C04.prog (ext_eh eh) f "BucketHeader.Hash"
    [VStruct (("HashDomain", VInt d) :: ("NumEntries", VInt 0) :: ("HashLen", VInt (Z.of_N hl)) :: rest); VInts key]
  = RRet (VInt (Z.of_N (eh d key mod 256 ^ hl))).
Proof. exact (BucketHeader_Hash_is_mod GoLiteL8C04.prog p8_BucketHeader_Hash eh He f d hl key rest). Qed.

Theorem legacy8_uintLe_is_le_dec ext fuel (bs : list N) : (List.length bs <= 8)%nat ->
  call GoLiteL8C04.prog ext fuel "uintLe" [VInts (zs bs)] = RRet (VInt (Z.of_N (le_dec bs))).
Proof. exact (uintLe_is_le_dec GoLiteL8C04.prog p8_uintLe ext fuel bs). Qed.

Theorem legacy8_eytzinger_is_go ext f (inp out : list Z) :
  List.length out = List.length inp ->
  Z.of_nat (List.length inp) < 2305843009213693952 ->
  (List.length inp < 2 ^ f)%nat ->
  call GoLiteL8C04.prog ext f "eytzinger" [VInts inp; VInts out; VInt 0; VInt 1] = ey_ret (go Z 0 (S f) inp out 0 1).
Proof. exact (eytzinger_is_go GoLiteL8C04.prog p8_eytzinger ext f inp out). Qed.
