From Coq Require Import List Arith Lia Bool PeanoNat NArith.
Import ListNotations.
Require Import Codec ReadAt.
Close Scope N_scope.

(* CAR layout, running-offset indexing (cmd-x-index-all.go) and CID-checked fetch (epoch.go) *)
Section Car.
Record obj := { cid : list N; data : list N }.

(* go-cid's CidFromReader is modelled by its contract on the CIDs that occur in the CAR *)
Variable cid_parse : list N -> option (list N * nat).
Variable good_cid : list N -> Prop.
Hypothesis cid_parse_ok : forall c rest, good_cid c -> cid_parse (c ++ rest) = Some (c, length c).

Definition section (o : obj) : list N :=
  uvarint (N.of_nat (length (cid o) + length (data o))) ++ cid o ++ data o.
Definition seclen (o : obj) : nat := length (section o).

Definition car (hdr : list N) (objs : list obj) : list N := hdr ++ concat (map section objs).

(* createAllIndexes: Put(cid, totalOffset, sectionLength); totalOffset += sectionLength *)
Fixpoint index_from (off : nat) (objs : list obj) : list (list N * nat * nat) :=
  match objs with
  | [] => []
  | o :: r => (cid o, off, seclen o) :: index_from (off + seclen o) r
  end.
Definition index_all (hdr : list N) (objs : list obj) := index_from (length hdr) objs.

Lemma offsets_exact objs : forall hdr i o,
  nth_error objs i = Some o ->
  exists off, nth_error (index_all hdr objs) i = Some (cid o, off, seclen o) /\
              read_at (car hdr objs) off (seclen o) = Some (section o).
Proof.
  induction objs as [|x objs IH]; intros hdr i o H; [destruct i; discriminate|].
  destruct i as [|i]; cbn [nth_error] in H.
  - inversion H; subst. exists (length hdr). split; [reflexivity|].
    unfold car, seclen. cbn [map concat]. apply read_at_mid.
  - destruct (IH (hdr ++ section x) i o H) as [off [H1 H2]]. exists off. split.
    + unfold index_all in *. cbn [index_from nth_error]. rewrite app_length in H1. exact H1.
    + unfold car in *. cbn [map concat]. rewrite <- app_assoc in H2. exact H2.
Qed.

(* epoch.go:parseNodeFromSection *)
Definition parse_node (sec : list N) (wanted : list N) : option (list N) :=
  match uvarint_dec sec with
  | None => None
  | Some (_, n) =>
      let rest := skipn n sec in
      match cid_parse rest with
      | None => None
      | Some (c, clen) => if list_eq_dec N.eq_dec c wanted then Some (skipn clen rest) else None   (* CID mismatch *)
      end
  end.

Definition get_node (file : list N) (ix : list (list N * nat * nat)) (wanted : list N) : option (list N) :=
  match find (fun e => if list_eq_dec N.eq_dec (fst (fst e)) wanted then true else false) ix with
  | None => None
  | Some (_, off, len) =>
      match read_at file off len with
      | None => None
      | Some sec => parse_node sec wanted
      end
  end.

Lemma parse_section o : good_cid (cid o) ->
  (N.of_nat (length (cid o) + length (data o)) < 2 ^ 64)%N ->
  parse_node (section o) (cid o) = Some (data o).
Proof.
  intros Hg Hlen. unfold parse_node, section.
  rewrite uvarint_roundtrip by exact Hlen.
  rewrite skipn_app, Nat.sub_diag, skipn_all. cbn [app skipn].
  rewrite cid_parse_ok by auto.
  destruct (list_eq_dec N.eq_dec (cid o) (cid o)); [|congruence].
  rewrite skipn_app, Nat.sub_diag, skipn_all. reflexivity.
Qed.

(* C01 (objects): with distinct CIDs every object is fetched by its CID with exactly its bytes *)
Theorem get_every_object hdr objs o :
  NoDup (map cid objs) -> Forall (fun o => good_cid (cid o)) objs ->
  Forall (fun o => (N.of_nat (length (cid o) + length (data o)) < 2 ^ 64)%N) objs ->
  In o objs ->
  get_node (car hdr objs) (index_all hdr objs) (cid o) = Some (data o).
Proof.
  intros ND Hg Hl Hin. apply In_nth_error in Hin. destruct Hin as [i Hi].
  destruct (offsets_exact objs hdr i o Hi) as [off [Hix Hrd]].
  unfold get_node.
  (* find returns the entry of o because CIDs are distinct *)
  assert (Hfind : find (fun e => if list_eq_dec N.eq_dec (fst (fst e)) (cid o) then true else false) (index_all hdr objs)
                  = Some (cid o, off, seclen o)).
  { unfold index_all in *. clear Hrd. revert i Hi off Hix. generalize (length hdr) as base.
    clear Hg Hl. induction objs as [|x r IH]; intros base i Hi off Hix; [destruct i; discriminate|].
    cbn [map] in ND. inversion ND as [|? ? Hnin ND']; subst.
    destruct i as [|i]; cbn [nth_error index_from find fst] in *.
    - inversion Hi; subst. inversion Hix; subst.
      destruct (list_eq_dec N.eq_dec (cid o) (cid o)); [reflexivity|congruence].
    - destruct (list_eq_dec N.eq_dec (cid x) (cid o)) as [E|E].
      + exfalso. apply Hnin. rewrite E. apply in_map. eapply nth_error_In; eauto.
      + apply (IH ND' (base + seclen x) i Hi off Hix). }
  rewrite Hfind, Hrd.
  rewrite Forall_forall in Hg, Hl. apply nth_error_In in Hi. apply parse_section; auto.
Qed.
End Car.
Print Assumptions get_every_object.
