From Coq Require Import List NArith Lia ZArith.
From Coq Require Import ZifyN ZifyNat ZifyBool.
Import ListNotations.
Open Scope N_scope.
Ltac Zify.zify_post_hook ::= Z.div_mod_to_equations.

(* little-endian fixed width *)
Fixpoint le_enc (n : nat) (x : N) : list N :=
  match n with O => [] | S m => x mod 256 :: le_enc m (x / 256) end.
Fixpoint le_dec (bs : list N) : N :=
  match bs with [] => 0 | b :: r => b + 256 * le_dec r end.

Lemma le_enc_length n x : length (le_enc n x) = n.
Proof. revert x; induction n; intros; cbn; auto. Qed.

Lemma le_enc_bytes n x : Forall (fun b => b < 256) (le_enc n x).
Proof. revert x; induction n; intros x; cbn; constructor; auto. apply N.mod_lt. lia. Qed.

Lemma le_roundtrip n x : x < 256 ^ N.of_nat n -> le_dec (le_enc n x) = x.
Proof.
  revert x; induction n as [|n IH]; intros x H.
  - cbn in *. lia.
  - cbn [le_enc le_dec]. rewrite IH.
    + pose proof (N.div_mod x 256). lia.
    + rewrite Nat2N.inj_succ, N.pow_succ_r' in H. apply N.div_lt_upper_bound; lia.
Qed.

Lemma le_dec_enc bs : Forall (fun b => b < 256) bs -> le_enc (length bs) (le_dec bs) = bs.
Proof.
  induction 1 as [|b r Hb Hr IH]; cbn [length le_enc le_dec]; auto.
  f_equal.
  - lia.
  - replace ((b + 256 * le_dec r) / 256) with (le_dec r); [exact IH|].
    assert (Hb' : b < 256) by exact Hb. clear - Hb'. generalize (le_dec r). intros m. lia.
Qed.

(* uvarint (encoding/binary): 7 bits per byte, continuation bit 0x80, at most 10 bytes for uint64 *)
Fixpoint uv_enc (fuel : nat) (x : N) : list N :=
  match fuel with
  | O => [x]
  | S f => if x <? 128 then [x] else (x mod 128 + 128) :: uv_enc f (x / 128)
  end.
Definition uvarint (x : N) : list N := uv_enc 9 x.

(* binary.Uvarint: returns Some (value, bytes consumed); None stands for n <= 0 *)
Fixpoint uv_dec (i : nat) (acc shift : N) (bs : list N) : option (N * nat) :=
  match bs with
  | [] => None
  | b :: r =>
    if Nat.eqb i 10 then None
    else if b <? 128 then
      if andb (Nat.eqb i 9) (1 <? b) then None else Some (acc + b * 2 ^ shift, S i)
    else uv_dec (S i) (acc + (b - 128) * 2 ^ shift) (shift + 7) r
  end.
Definition uvarint_dec (bs : list N) := uv_dec 0 0 0 bs.

Lemma uv_roundtrip_gen f : forall x i acc shift rest,
  (i + f = 9)%nat -> x < 2 ^ (64 - 7 * N.of_nat i) -> shift = 7 * N.of_nat i ->
  uv_dec i acc shift (uv_enc f x ++ rest) = Some (acc + x * 2 ^ shift, (i + length (uv_enc f x))%nat).
Proof.
  induction f as [|f IH]; intros x i acc shift rest Hi Hx Hs.
  - assert (i = 9%nat) by lia. subst i. cbn [uv_enc app uv_dec length]. cbn [Nat.eqb].
    change (64 - 7 * N.of_nat 9) with 1 in Hx. change (2 ^ 1) with 2 in Hx.
    replace (x <? 128) with true by (symmetry; apply N.ltb_lt; lia).
    replace (1 <? x) with false by (symmetry; apply N.ltb_ge; lia). cbn [andb].
    f_equal; f_equal; try lia.
  - cbn [uv_enc]. destruct (x <? 128) eqn:Hlt.
    + cbn [app uv_dec length]. replace (Nat.eqb i 10) with false by (symmetry; apply Nat.eqb_neq; lia).
      rewrite Hlt. replace (Nat.eqb i 9) with false by (symmetry; apply Nat.eqb_neq; lia). cbn [andb].
      f_equal; f_equal; try lia.
    + apply N.ltb_ge in Hlt. cbn [app uv_dec length].
      replace (Nat.eqb i 10) with false by (symmetry; apply Nat.eqb_neq; lia).
      assert (Hm : x mod 128 < 128) by (apply N.mod_lt; lia).
      replace (x mod 128 + 128 <? 128) with false by (symmetry; apply N.ltb_ge; lia).
      rewrite (IH (x / 128) (S i) _ (shift + 7) rest); try lia.
      * f_equal. f_equal; [|lia].
        replace (x mod 128 + 128 - 128) with (x mod 128) by lia.
        rewrite N.pow_add_r. change (2 ^ 7) with 128.
        pose proof (N.div_mod x 128 ltac:(lia)). nia.
      * rewrite Nat2N.inj_succ.
        assert (Hi9 : N.of_nat i <= 8) by lia.
        replace (64 - 7 * N.of_nat i) with (7 + (64 - 7 * N.succ (N.of_nat i))) in Hx by lia.
        rewrite N.pow_add_r in Hx. change (2 ^ 7) with 128 in Hx.
        apply N.div_lt_upper_bound; lia.
Qed.

Theorem uvarint_roundtrip x rest : x < 2 ^ 64 ->
  uvarint_dec (uvarint x ++ rest) = Some (x, length (uvarint x)).
Proof.
  intros H. unfold uvarint_dec, uvarint.
  rewrite (uv_roundtrip_gen 9 x 0%nat 0 0 rest); auto.
  f_equal. f_equal. cbn. lia.
Qed.
Print Assumptions uvarint_roundtrip.
Print Assumptions le_roundtrip.
