(* C13 / C04 — the bucket-header reader of the compact index ((BucketHeader).readFrom, Load, bucketOffset),
   translated from the Go source on every check: a complete 16-byte read at headerSize + 16*i is decoded field by
   field exactly as the model's parse_bucket_hdr does (4-byte domain, 4-byte entry count, hash length byte, 6-byte
   file offset, all little endian); a read that delivers fewer than 16 bytes yields the reader's error and leaves
   the header untouched. *)
From Coq Require Import List ZArith NArith String Bool Lia.
Import ListNotations.
Require Import YF.GoLite YF.GoLiteLemmas YF.Generated.GoLiteC13 YF.GoLiteC13_Load.
Local Open Scope string_scope.
Local Open Scope Z_scope.
Local Open Scope list_scope.

Lemma zlen_slice_z (l : list Z) a b : 0 <= a -> a <= b -> b <= zlen l -> zlen (slice_z l a b) = b - a.
Proof. intros Ha Hab Hb. unfold zlen, slice_z in *. rewrite firstn_length, skipn_length. lia. Qed.

Definition hdr_val (dom ne hl fo hs : Z) : val :=
  VStruct [("HashDomain", VInt dom); ("NumEntries", VInt ne); ("HashLen", VInt hl); ("FileOffset", VInt fo); ("headerSize", VInt hs)].

(* the fields a 16-byte bucket header holds *)
Definition hdr_of_bytes (bs : list Z) (hs : Z) : val :=
  hdr_val (le_value (firstn 4 (slice_z bs 0 4))) (le_value (firstn 4 (slice_z bs 4 8))) (nth_z bs 8)
          (le_value (firstn 8 (slice_z bs 10 16))) hs.

Section Header.
Variable prog : program.
Hypothesis prog_uintLe : plookup "uintLe" prog = Some GoLiteC13.fn_uintLe.
Hypothesis prog_bucketOffset : plookup "bucketOffset" prog = Some fn_bucketOffset.
Hypothesis prog_Load : plookup "BucketHeader.Load" prog = Some fn_BucketHeader_Load.
Hypothesis prog_readFrom : plookup "BucketHeader.readFrom" prog = Some fn_BucketHeader_readFrom.

Lemma Load_body ext fuel dom ne hl fo hs (bs : list Z) : zlen bs = 16 -> (1 <= fuel)%nat ->
  exec prog ext fuel (f_body fn_BucketHeader_Load) [("b", hdr_val dom ne hl fo hs); ("buf", VInts bs)] =
  RRet (hdr_of_bytes bs hs).
Proof.
  intros Hl Hf. destruct fuel as [|fuel]; [lia|].
  unfold fn_BucketHeader_Load, hdr_val. cbn [f_body]. go_run. rewrite Hl. go_consts. cbn [andb]. go_cbn.
  assert (Hz4 : zlen (slice_z bs 0 4) = 4) by (apply zlen_slice_z; lia).
  assert (Hz8 : zlen (slice_z bs 4 8) = 4) by (rewrite zlen_slice_z; lia).
  rewrite Hz4. go_consts. go_cbn. go_run. rewrite Hl. go_consts. cbn [andb]. go_cbn.
  rewrite Hz8. go_consts. go_cbn. go_run. rewrite Hl. go_consts. cbn [andb]. go_cbn. go_run.
  rewrite exec_call_S. go_cbn. rewrite Hl. go_consts. cbn [andb]. go_cbn. rewrite prog_uintLe.
  change (bind_params (f_params GoLiteC13.fn_uintLe) [VInts (slice_z bs 10 16)]) with (Some [("buf", VInts (slice_z bs 10 16))]).
  cbv beta iota. rewrite (uintLe_body prog prog_uintLe). go_run. reflexivity.
Qed.

Variable rd : Z -> Z -> list Z * val.        (* the positioned reader: bytes delivered (at most len), error value *)
Hypothesis rd_len : forall off len, 0 <= len -> zlen (fst (rd off len)) <= len.
Definition ext_ra : string -> list val -> option val := fun f args =>
  match f, args with
  | "io.ReaderAt.ReadAt", [VInts buf; VInt off] =>
      let '(bs, e) := rd off (zlen buf) in Some (VTuple [VInt (zlen bs); e; VInts (blit buf O bs)])
  | _, _ => None
  end.

Theorem readFrom_spec fuel dom ne hl fo hs rdv (i : Z) :
  0 <= hs < 4611686018427387904 -> 0 <= i < 4294967296 -> (2 <= fuel)%nat ->
  call prog ext_ra fuel "BucketHeader.readFrom" [hdr_val dom ne hl fo hs; rdv; VInt i] =
  let '(bs, e) := rd (hs + i * 16) 16 in
  if zlen bs <? 16 then RRet (VTuple [e; hdr_val dom ne hl fo hs])
  else RRet (VTuple [VNil; hdr_of_bytes bs hs]).
Proof.
  intros Hhs Hi Hfuel. destruct fuel as [|[|fuel]]; try lia.
  unfold call. rewrite prog_readFrom. unfold fn_BucketHeader_readFrom, hdr_val.
  cbn [f_params f_body bind_params]. go_run.
  rewrite exec_call_S. go_cbn. rewrite prog_bucketOffset. unfold fn_bucketOffset.
  cbn [f_params f_body bind_params]. go_run.
  rewrite (wrap_i64_small i) by lia. rewrite (wrap_i64_small (i * 16)) by lia.
  rewrite (wrap_i64_small (hs + i * 16)) by lia. go_run.
  unfold ext_ra at 1.
  change (slice_z [0; 0; 0; 0; 0; 0; 0; 0; 0; 0; 0; 0; 0; 0; 0; 0] 0 16) with [0; 0; 0; 0; 0; 0; 0; 0; 0; 0; 0; 0; 0; 0; 0; 0].
  go_consts.
  pose proof (rd_len (hs + i * 16) 16 ltac:(lia)) as Hn.
  destruct (rd (hs + i * 16) 16) as [bs e] eqn:Hrd. cbn [fst] in Hn.
  go_cbn. go_run. rewrite zlen_blit. go_consts. go_cbn.
  destruct (zlen bs <? 16) eqn:Hlt.
  - go_run. rewrite ?Hlt. go_run. reflexivity.
  - go_run. rewrite ?Hlt. go_run. apply Z.ltb_ge in Hlt.
    assert (Hfull : blit [0; 0; 0; 0; 0; 0; 0; 0; 0; 0; 0; 0; 0; 0; 0; 0] O bs = bs).
    { apply blit_full. unfold zlen in *. cbn [List.length]. lia. }
    rewrite Hfull. rewrite (blit_full [0; 0; 0; 0; 0; 0; 0; 0; 0; 0; 0; 0; 0; 0; 0; 0] bs) by (unfold zlen in *; cbn [List.length]; lia).
    rewrite exec_call_S. go_cbn. rewrite prog_Load. fold (hdr_val dom ne hl fo hs).
    change (bind_params (f_params fn_BucketHeader_Load) [hdr_val dom ne hl fo hs; VInts bs])
      with (Some [("b", hdr_val dom ne hl fo hs); ("buf", VInts bs)]).
    cbv beta iota. rewrite (Load_body ext_ra (S fuel)) by lia.
    go_run. reflexivity.
Qed.
End Header.
