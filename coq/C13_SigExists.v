(* C13 for the signature-existence index, on the byte-level model that C05's correspondence check runs against the
   Go reader (C05_Model.open_ / has over any read oracle): the model is MONOTONE in the oracle, so on a truncated
   copy of a file it gives the answer the complete file gives, or Err — never "absent" for a present signature. *)
From Coq Require Import List Arith Lia Bool PeanoNat NArith ZifyN ZifyNat.
Import ListNotations.
Require Import YF.Codec YF.C05_Model.
Local Open Scope N_scope.

Definition refinesN (R R' : N -> N -> option (list N)) : Prop := forall off len bs, R off len = Some bs -> R' off len = Some bs.

Lemma file_reader_trunc (f : list N) (n : nat) : refinesN (file_reader (firstn n f)) (file_reader f).
Proof.
  intros off len bs. unfold file_reader.
  destruct (N.leb_spec (off + len) (N.of_nat (length (firstn n f)))) as [H|H]; [|discriminate].
  intros E. injection E as <-.
  pose proof (firstn_le_length n f) as L. rewrite firstn_length in H.
  destruct (N.leb_spec (off + len) (N.of_nat (length f))) as [_|H']; [|lia].
  f_equal. rewrite skipn_firstn_comm, firstn_firstn. f_equal. lia.
Qed.

Lemma bsearch_mono fuel : forall (get get' : N -> option N) n x idx r,
  (forall i k, get i = Some k -> get' i = Some k) -> bsearch fuel get n x idx = r -> r <> Err -> bsearch fuel get' n x idx = r.
Proof.
  induction fuel as [|f IH]; intros get get' n x idx r Hg; cbn [bsearch].
  - destruct (idx <? n); auto.
  - destruct (idx <? n); [|auto]. destruct (get idx) as [k|] eqn:E; [|congruence].
    rewrite (Hg _ _ E). destruct (k =? x); [auto|]. apply IH. exact Hg.
Qed.

Section S.
Variable hash : list N -> N.

Theorem has_mono ver R R' rd s r : refinesN R R' -> has hash ver R rd s = r -> r <> Err -> has hash ver R' rd s = r.
Proof.
  intros HR. unfold has. destruct (lookup_off ver (r_tab rd) (prefix s)) as [off|]; [|auto].
  destruct (two63 <=? off); [auto|].
  destruct (R (r_base rd + off) 4) as [nb|] eqn:E; [|congruence]. rewrite (HR _ _ _ E).
  apply bsearch_mono. intros i k. destruct (i * 8 + 8 <=? (le_dec nb * 8) mod two32); [|discriminate].
  destruct (R (r_base rd + off + 4 + i * 8) 8) as [eb|] eqn:E2; [|discriminate]. rewrite (HR _ _ _ E2). auto.
Qed.

Theorem open_mono ver R R' r : refinesN R R' -> open_ ver R = r -> r <> Err -> open_ ver R' = r.
Proof.
  intros HR. unfold open_.
  destruct (R 0 1) as [b0|] eqn:E0; [|congruence]. rewrite (HR _ _ _ E0).
  destruct (R 0 4) as [hb|] eqn:E1; [|congruence]. rewrite (HR _ _ _ E1).
  destruct (R 4 (le_dec hb)) as [buf|] eqn:E2; [|congruence]. rewrite (HR _ _ _ E2). auto.
Qed.

(* C13, signature-existence index: a truncated copy answers what the complete file answers, or fails *)
Theorem sigexists_truncated ver (f : list N) (n : nat) s :
  file_has hash ver (firstn n f) s = file_has hash ver f s \/ file_has hash ver (firstn n f) s = Err.
Proof.
  destruct (file_has hash ver (firstn n f) s) eqn:E; [left|right; reflexivity|left].
  - symmetry. unfold file_has in *. pose proof (file_reader_trunc f n) as HR.
    destruct (open_ ver (file_reader (firstn n f))) as [rd| |] eqn:Eo; try discriminate.
    rewrite (open_mono _ _ _ _ HR Eo) by discriminate. eapply has_mono; eauto. discriminate.
  - symmetry. unfold file_has in *. pose proof (file_reader_trunc f n) as HR.
    destruct (open_ ver (file_reader (firstn n f))) as [rd| |] eqn:Eo; try discriminate.
    + rewrite (open_mono _ _ _ _ HR Eo) by discriminate. eapply has_mono; eauto. discriminate.
    + rewrite (open_mono _ _ _ _ HR Eo) by discriminate. reflexivity.
Qed.

Corollary sigexists_truncated_never_absent ver f n s :
  file_has hash ver f s = Ok true -> file_has hash ver (firstn n f) s <> Ok false.
Proof.
  intros H C. destruct (sigexists_truncated ver f n s) as [E|E]; rewrite C in E; [rewrite H in E|]; discriminate.
Qed.
End S.
