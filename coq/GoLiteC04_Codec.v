(* C04 — the remaining leaf functions of compactindex.go, translated from the Go source on every check:
     BucketHeader.Hash = EntryHash64 reduced to HashLen bytes (for 1..8: modulo 256^HashLen; the builder writes 3)
     uintLe            = little-endian value of the first (at most 8) bytes     (= Codec.le_dec)
     putUintLe         = the first len(buf) little-endian bytes of x             (= Codec.le_enc)
     maxCls64          = all ones below the highest set bit *)
From Coq Require Import List ZArith NArith String Bool Lia.
Import ListNotations.
Require Import YF.GoLite YF.GoLiteLemmas YF.Generated.GoLiteC04 YF.Codec YF.GoLiteC04_Proofs.
Local Open Scope string_scope.
Local Open Scope Z_scope.
Local Open Scope list_scope.

(* ------------------------------------------------------------------ lists of machine integers vs lists of N *)
Lemma le_value_zs l : le_value (zs l) = Z.of_N (le_dec l).
Proof.
  induction l as [|b r IH]; [reflexivity|].
  cbn [zs map le_value le_dec]. fold (zs r). rewrite IH. lia.
Qed.

Lemma le_bytes_zs n x : le_bytes n (Z.of_N x) = zs (le_enc n x).
Proof.
  revert x. induction n as [|n IH]; intros x; [reflexivity|].
  cbn [le_bytes le_enc zs map]. fold (zs (le_enc n (x / 256)%N)).
  rewrite <- IH. f_equal.
  - change 256 with (Z.of_N 256). rewrite <- N2Z.inj_mod. reflexivity.
  - f_equal. change 256 with (Z.of_N 256). rewrite <- N2Z.inj_div. reflexivity.
Qed.

Lemma le_value_app_zeros l k : le_value (l ++ repeat 0 k) = le_value l.
Proof.
  induction l as [|b r IH]; cbn [app le_value].
  - induction k as [|k IHk]; cbn [repeat le_value]; lia.
  - rewrite IH. reflexivity.
Qed.

Lemma blit_zeros n : forall src, blit (repeat 0 n) O src = firstn n src ++ repeat 0 (n - List.length src).
Proof.
  induction n as [|n IH]; intros src; [destruct src; reflexivity|].
  destruct src as [|s ss]; cbn [repeat blit firstn List.length app Nat.sub].
  - reflexivity.
  - rewrite IH. reflexivity.
Qed.

Lemma blit_prefix : forall (buf src : list Z), (List.length buf <= List.length src)%nat ->
  blit buf O src = firstn (List.length buf) src.
Proof.
  induction buf as [|b r IH]; intros src H; [destruct src; reflexivity|].
  destruct src as [|s ss]; cbn [List.length] in H; [lia|].
  cbn [blit firstn List.length]. rewrite IH by lia. reflexivity.
Qed.

Lemma firstn_le_bytes k n x : (k <= n)%nat -> firstn k (le_bytes n x) = le_bytes k x.
Proof.
  revert n x. induction k as [|k IH]; intros n x H; [reflexivity|].
  destruct n as [|n]; [lia|]. cbn [le_bytes firstn]. rewrite IH by lia. reflexivity.
Qed.

(* Everything below holds for ANY translated program that binds these names to these function terms: the
   compactindexsized package, and the deprecated packages wherever their source is textually the same function. *)
Section Generic.
Variable prog : program.
Hypothesis prog_uintLe : plookup "uintLe" prog = Some fn_uintLe.
Hypothesis prog_putUintLe : plookup "putUintLe" prog = Some fn_putUintLe.
Hypothesis prog_BucketHeader_Hash : plookup "BucketHeader.Hash" prog = Some fn_BucketHeader_Hash.

(* ------------------------------------------------------------------ uintLe *)
Local Notation z8 := [0; 0; 0; 0; 0; 0; 0; 0] (only parsing).

Theorem uintLe_is_le_value ext fuel buf :
  call prog ext fuel "uintLe" [VInts buf] = RRet (VInt (le_value (firstn 8 buf))).
Proof.
  unfold call. rewrite prog_uintLe. unfold fn_uintLe. cbn [f_params f_body bind_params]. go_run.
  change (slice_z z8 0 8) with z8.
  assert (Hlen : List.length (blit z8 O buf) = 8%nat) by (rewrite blit_length; reflexivity).
  assert (Hz : zlen (blit z8 O buf) = 8) by (unfold zlen; rewrite Hlen; reflexivity).
  rewrite Hz. go_consts. go_cbn.
  rewrite (blit_full z8 (blit z8 O buf)) by (rewrite Hlen; reflexivity).
  go_run. rewrite Hz. go_consts. cbn [andb]. go_cbn.
  assert (Hs : slice_z (blit z8 O buf) 0 8 = blit z8 O buf) by (rewrite <- Hz at 1; apply slice_z_all).
  rewrite Hs, Hz. go_consts. go_cbn.
  rewrite <- Hlen at 1. rewrite firstn_all.
  change z8 with (repeat 0 8). rewrite blit_zeros. rewrite le_value_app_zeros. reflexivity.
Qed.

Corollary uintLe_is_le_dec ext fuel (bs : list N) : (List.length bs <= 8)%nat ->
  call prog ext fuel "uintLe" [VInts (zs bs)] = RRet (VInt (Z.of_N (le_dec bs))).
Proof.
  intros H. rewrite uintLe_is_le_value. rewrite firstn_all2 by (unfold zs; rewrite map_length; exact H).
  rewrite le_value_zs. reflexivity.
Qed.

(* ------------------------------------------------------------------ putUintLe *)
Theorem putUintLe_is_le_bytes ext fuel buf x : (List.length buf <= 8)%nat ->
  call prog ext fuel "putUintLe" [VInts buf; VInt x] = RRet (VInts (le_bytes (List.length buf) x)).
Proof.
  intros Hb.
  unfold call. rewrite prog_putUintLe. unfold fn_putUintLe. cbn [f_params f_body bind_params]. go_run.
  change (slice_z z8 0 8) with z8. go_run.
  assert (Hl8 : List.length (le_bytes 8 x) = 8%nat) by apply le_bytes_length.
  rewrite (blit_full z8 (le_bytes 8 x)) by (rewrite Hl8; reflexivity).
  assert (Hz : zlen (le_bytes 8 x) = 8) by (unfold zlen; rewrite Hl8; reflexivity).
  rewrite Hz. go_consts. go_cbn.
  go_run. rewrite (blit_full z8 (le_bytes 8 x)) by (rewrite Hl8; reflexivity).
  rewrite Hz. go_consts. cbn [andb]. go_cbn.
  assert (Hs : slice_z (le_bytes 8 x) 0 8 = le_bytes 8 x) by (rewrite <- Hz at 1; apply slice_z_all).
  rewrite Hs. go_run.
  rewrite blit_prefix by (rewrite Hl8; exact Hb).
  rewrite firstn_le_bytes by exact Hb. reflexivity.
Qed.

Corollary putUintLe_is_le_enc ext fuel buf (x : N) : (List.length buf <= 8)%nat ->
  call prog ext fuel "putUintLe" [VInts buf; VInt (Z.of_N x)] = RRet (VInts (zs (le_enc (List.length buf) x))).
Proof. intros H. rewrite putUintLe_is_le_bytes by exact H. rewrite le_bytes_zs. reflexivity. Qed.

(* ------------------------------------------------------------------ BucketHeader.Hash *)
Section EntryHash.
  Variable eh : Z -> list Z -> N.                     (* EntryHash64, an oracle here *)
  Hypothesis eh_u64 : forall d k, u64 (eh d k).
  Definition ext_eh : string -> list val -> option val := fun f args =>
    match f, args with
    | "EntryHash64", [VInt d; VInts k] => Some (VInt (Z.of_N (eh d k)))
    | _, _ => None
    end.

  Lemma land_mask x n : 0 <= n -> Z.land (Z.of_N x) (2 ^ n - 1) = Z.of_N x mod 2 ^ n.
  Proof. intros Hn. replace (2 ^ n - 1) with (Z.ones n) by (rewrite Z.ones_equiv; lia). apply Z.land_ones. exact Hn. Qed.

  (* for hash lengths 1..8 bytes (the builder writes HashSize = 3): the 64-bit entry hash modulo 256^HashLen *)
  Ltac hash_mod_script pre d key hl :=
    unfold call; rewrite prog_BucketHeader_Hash; unfold fn_BucketHeader_Hash; cbn [f_params f_body bind_params];
    go_run; pre; unfold ext_eh at 1; go_run;
    let Hcases := fresh "Hcases" in let Hu := fresh "Hu" in let Hfin := fresh "Hfin" in
    assert (Hcases : (hl = 1 \/ hl = 2 \/ hl = 3 \/ hl = 4 \/ hl = 5 \/ hl = 6 \/ hl = 7 \/ hl = 8)%N) by lia;
    pose proof (eh_u64 d key) as Hu; unfold u64 in Hu;
    assert (Hfin : forall n : Z, 0 <= n <= 64 ->
              wrap U64 (Z.land (Z.of_N (eh d key)) (2 ^ n - 1)) = Z.of_N (eh d key) mod 2 ^ n);
    [ intros n Hn; rewrite land_mask by lia; apply wrap_u64_small;
      pose proof (Z.mod_pos_bound (Z.of_N (eh d key)) (2 ^ n) ltac:(apply Z.pow_pos_nonneg; lia));
      assert (2 ^ n <= 2 ^ 64) by (apply Z.pow_le_mono_r; lia);
      change (2 ^ 64) with 18446744073709551616 in *; lia
    | destruct Hcases as [->|[->|[->|[->|[->|[->|[->| ->]]]]]]];
      cbn [Z.of_N]; go_consts;
      match goal with
      | |- context [wrap U8 (64 - wrap U8 (?a * 8))] =>
          let v := eval vm_compute in (wrap U8 (64 - wrap U8 (a * 8))) in
          change (wrap U8 (64 - wrap U8 (a * 8))) with v
      end; go_consts; go_cbn;
      match goal with
      | |- context [wrap U64 (Z.shiftr 18446744073709551615 ?s)] =>
          let v := eval vm_compute in (wrap U64 (Z.shiftr 18446744073709551615 s)) in
          change (wrap U64 (Z.shiftr 18446744073709551615 s)) with v
      end;
      [ change 255 with (2 ^ 8 - 1) | change 65535 with (2 ^ 16 - 1) | change 16777215 with (2 ^ 24 - 1)
      | change 4294967295 with (2 ^ 32 - 1) | change 1099511627775 with (2 ^ 40 - 1)
      | change 281474976710655 with (2 ^ 48 - 1) | change 72057594037927935 with (2 ^ 56 - 1)
      | change 18446744073709551615 with (2 ^ 64 - 1) ];
      rewrite Hfin by lia; rewrite N2Z.inj_mod; reflexivity ].

  Theorem BucketHeader_Hash_is_mod f d hl key rest : 0 <= d -> (1 <= hl <= 8)%N ->
    call prog ext_eh f "BucketHeader.Hash"
      [VStruct (("HashDomain", VInt d) :: ("NumEntries", VInt 0) :: ("HashLen", VInt (Z.of_N hl)) :: rest); VInts key]
    = RRet (VInt (Z.of_N (eh d key mod 256 ^ hl))).
  Proof. intros Hd Hhl. hash_mod_script idtac d key hl. Qed.

  (* the same for a header value that lists its fields in another order and with any entry count (field access is by
     name; this is the shape the C13 loader theorems use) *)
  Theorem BucketHeader_Hash_is_mod' f d ne hl key rest : 0 <= d -> (1 <= hl <= 8)%N ->
    call prog ext_eh f "BucketHeader.Hash"
      [VStruct (("HashLen", VInt (Z.of_N hl)) :: ("HashDomain", VInt d) :: ("NumEntries", VInt ne) :: rest); VInts key]
    = RRet (VInt (Z.of_N (eh d key mod 256 ^ hl))).
  Proof. intros Hd Hhl. hash_mod_script idtac d key hl. Qed.
  (* ... and under ANY oracle that answers "EntryHash64" as ext_eh does (callers use further externals) *)
  Theorem BucketHeader_Hash_is_mod_ext' (ext : string -> list val -> option val) f d ne hl key rest :
    (forall d k, ext "EntryHash64" [VInt d; VInts k] = ext_eh "EntryHash64" [VInt d; VInts k]) ->
    0 <= d -> (1 <= hl <= 8)%N ->
    call prog ext f "BucketHeader.Hash"
      [VStruct (("HashLen", VInt (Z.of_N hl)) :: ("HashDomain", VInt d) :: ("NumEntries", VInt ne) :: rest); VInts key]
    = RRet (VInt (Z.of_N (eh d key mod 256 ^ hl))).
  Proof. intros Hext Hd Hhl. hash_mod_script ltac:(rewrite Hext) d key hl. Qed.
End EntryHash.
End Generic.
