(* C02 — RPC answers for archived slots and signatures reproduce the archive exactly.
   Model of the response assembly in multiepoch-getBlock.go / grpc-server.go:GetBlock (routing by slot,
   entries and transactions fetched concurrently into index-addressed cells in ANY completion order, merge,
   sort by position, blockhash = hash of the last entry, previous blockhash rule) and of the signature ->
   epoch search of multiepoch-getTransaction.go on top of the FirstSuccess model (C18). *)
From Coq Require Import List Arith Lia Bool PeanoNat NArith Sorting.Sorted Sorting.Permutation Sorting.Mergesort Orders.
Import ListNotations.
Require Import FS FS2 FS3 FSCheck.

(* ---------- archive ---------- *)
Record tx := { t_pos : nat; t_id : N }.          (* t_id stands for the byte-identical payloads (tx + metadata) *)
Record entry := { e_hash : N; e_txs : list tx }.
Record block := { b_slot : N; b_parent : N; b_time : N; b_height : option N; b_entries : list entry }.
Definition epoch_len : N := 432000%N.
Definition epoch_of (slot : N) : N := (slot / epoch_len)%N.

(* an epoch = its number and a lookup of blocks by slot (the indexes + key confirmation, C01/C03) *)
Record epoch := { ep_num : N; ep_block : N -> option block }.

Definition find_epoch (me : list epoch) (n : N) : option epoch := find (fun e => N.eqb (ep_num e) n) me.

(* ---------- sorting transactions by position ---------- *)
Module TxOrder <: TotalLeBool.
  Definition t := tx.
  Definition leb (x y : t) := Nat.leb (t_pos x) (t_pos y).
  Theorem leb_total : forall x y, leb x y = true \/ leb y x = true.
  Proof. intros x y. unfold leb. destruct (Nat.leb_spec (t_pos x) (t_pos y)); [left; reflexivity|right]. apply Nat.leb_le. lia. Qed.
End TxOrder.
Module TxSort := Sort TxOrder.

Definition le_pos (x y : tx) : Prop := t_pos x <= t_pos y.

Lemma sort_sorted l : StronglySorted le_pos (TxSort.sort l).
Proof.
  pose proof (TxSort.StronglySorted_sort l) as H.
  assert (T : Transitive (fun x y => is_true (TxOrder.leb x y))).
  { intros x y z. unfold is_true, TxOrder.leb. rewrite !Nat.leb_le. lia. }
  specialize (H T). induction H; constructor; auto.
  rewrite Forall_forall in *. intros y Hy. specialize (H0 y Hy). unfold is_true, TxOrder.leb in H0. apply Nat.leb_le in H0. exact H0.
Qed.

(* two position-sorted lists with the same elements and distinct positions are equal *)
Lemma sorted_perm_unique (l1 : list tx) : forall l2,
  StronglySorted le_pos l1 -> StronglySorted le_pos l2 -> Permutation l1 l2 ->
  NoDup (map t_pos l1) -> l1 = l2.
Proof.
  induction l1 as [|a l1 IH]; intros l2 S1 S2 P ND.
  - apply Permutation_nil in P. subst; reflexivity.
  - destruct l2 as [|b l2]; [apply Permutation_sym, Permutation_nil in P; discriminate|].
    inversion S1 as [|? ? S1' F1]; inversion S2 as [|? ? S2' F2]; subst.
    cbn [map] in ND. inversion ND as [|? ? Hnin ND']; subst.
    assert (Hab : a = b).
    { assert (Ia : In a (b :: l2)) by (eapply Permutation_in; [exact P|left; reflexivity]).
      assert (Ib : In b (a :: l1)) by (eapply Permutation_in; [apply Permutation_sym; exact P|left; reflexivity]).
      destruct Ia as [->|Ia]; [reflexivity|]. destruct Ib as [->|Ib]; [reflexivity|].
      rewrite Forall_forall in F1, F2. pose proof (F1 b Ib) as A. pose proof (F2 a Ia) as B. unfold le_pos in *.
      exfalso. apply Hnin. replace (t_pos a) with (t_pos b) by lia. apply in_map; exact Ib. }
    subst b. f_equal. apply IH; auto. eapply Permutation_cons_inv; eauto.
Qed.

(* ---------- concurrent fetch into index-addressed cells ---------- *)
(* grid[i][j] is written exactly by the task (i,j); tasks complete in an arbitrary order *)
Definition grid := list (list (option tx)).
Definition empty_grid (es : list entry) : grid := map (fun e => repeat None (length (e_txs e))) es.

Fixpoint set_nth {A} (l : list A) (i : nat) (x : A) : list A :=
  match l, i with
  | [], _ => []
  | _ :: t, O => x :: t
  | h :: t, S j => h :: set_nth t j x
  end.
Definition put (es : list entry) (g : grid) (ij : nat * nat) : grid :=
  let '(i, j) := ij in
  match nth_error es i with
  | Some e => match nth_error (e_txs e) j with
              | Some t => set_nth g i (set_nth (nth i g []) j (Some t))
              | None => g
              end
  | None => g
  end.
Definition fill (es : list entry) (order : list (nat * nat)) : grid := fold_left (put es) order (empty_grid es).

Definition all_cells (es : list entry) : list (nat * nat) :=
  flat_map (fun ie => map (fun j => (fst ie, j)) (seq 0 (length (e_txs (snd ie))))) (combine (seq 0 (length es)) es).

(* cell-wise characterisation: after running the tasks of [order], cell (i,j) holds the transaction iff (i,j)
   completed *)
Definition cell (g : grid) (i j : nat) : option tx :=
  match nth_error g i with Some row => match nth_error row j with Some c => c | None => None end | None => None end.

Lemma set_nth_length {A} (l : list A) i x : length (set_nth l i x) = length l.
Proof. revert i; induction l; destruct i; cbn; auto. Qed.
Lemma nth_set_nth_same {A} (l : list A) i x : i < length l -> nth_error (set_nth l i x) i = Some x.
Proof. revert i; induction l; destruct i; cbn; intros; try lia; auto. apply IHl; lia. Qed.
Lemma nth_set_nth_other {A} (l : list A) i j x : i <> j -> nth_error (set_nth l i x) j = nth_error l j.
Proof. revert i j; induction l; destruct i, j; cbn; intros; try congruence; auto. Qed.

Definition shape_ok (es : list entry) (g : grid) : Prop :=
  length g = length es /\ forall i e, nth_error es i = Some e -> exists row, nth_error g i = Some row /\ length row = length (e_txs e).

Lemma empty_shape es : shape_ok es (empty_grid es).
Proof.
  split; [unfold empty_grid; apply map_length|]. intros i e H. unfold empty_grid.
  exists (repeat None (length (e_txs e))). split; [|apply repeat_length].
  rewrite nth_error_map, H. reflexivity.
Qed.

Lemma put_shape es g ij : shape_ok es g -> shape_ok es (put es g ij).
Proof.
  intros [L R]. destruct ij as [i j]. unfold put.
  destruct (nth_error es i) as [e|] eqn:Ee; [|split; auto].
  destruct (nth_error (e_txs e) j) as [t|] eqn:Et; [|split; auto].
  split; [rewrite set_nth_length; exact L|].
  intros i' e' H'. destruct (Nat.eq_dec i i') as [<-|Hne].
  - rewrite Ee in H'. inversion H'; subst e'. destruct (R i e Ee) as [row [Hr Hl]].
    exists (set_nth (nth i g []) j (Some t)). split.
    + apply nth_set_nth_same. apply nth_error_Some. congruence.
    + rewrite set_nth_length. rewrite (nth_error_nth g i [] Hr). exact Hl.
  - rewrite nth_set_nth_other by exact Hne. apply R; exact H'.
Qed.

Lemma put_cell es g ij i j : shape_ok es g ->
  cell (put es g ij) i j =
  if (Nat.eqb (fst ij) i && Nat.eqb (snd ij) j)%bool
  then match nth_error es i with
       | Some e => match nth_error (e_txs e) j with Some t => Some t | None => cell g i j end
       | None => cell g i j end
  else cell g i j.
Proof.
  intros [L R]. destruct ij as [a b]. cbn [fst snd]. unfold put.
  destruct (Nat.eqb_spec a i) as [->|Hai]; cbn [andb].
  - destruct (nth_error es i) as [e|] eqn:Ee.
    + destruct (R i e Ee) as [row [Hr Hl]].
      destruct (Nat.eqb_spec b j) as [->|Hbj].
      * destruct (nth_error (e_txs e) j) as [t|] eqn:Et; [|reflexivity].
        unfold cell. rewrite nth_set_nth_same by (apply nth_error_Some; congruence).
        rewrite nth_set_nth_same; [reflexivity|].
        rewrite (nth_error_nth g i [] Hr), Hl. apply nth_error_Some. congruence.
      * destruct (nth_error (e_txs e) b) as [t|] eqn:Et; [|reflexivity].
        unfold cell. rewrite nth_set_nth_same by (apply nth_error_Some; congruence).
        rewrite nth_set_nth_other by exact Hbj. rewrite (nth_error_nth g i [] Hr), Hr. reflexivity.
    + destruct (Nat.eqb b j); reflexivity.
  - destruct (nth_error es a) as [e|]; [|reflexivity].
    destruct (nth_error (e_txs e) b); [|reflexivity].
    unfold cell. rewrite nth_set_nth_other by exact Hai. reflexivity.
Qed.

Lemma fill_cell es order : forall g i j e t, shape_ok es g ->
  nth_error es i = Some e -> nth_error (e_txs e) j = Some t ->
  cell (fold_left (put es) order g) i j = if existsb (fun ij => Nat.eqb (fst ij) i && Nat.eqb (snd ij) j)%bool order then Some t else cell g i j.
Proof.
  induction order as [|ij order IH]; intros g i j e t Hs He Ht; cbn [fold_left existsb]; [reflexivity|].
  rewrite (IH (put es g ij) i j e t (put_shape es g ij Hs) He Ht).
  rewrite (put_cell es g ij i j Hs), He, Ht.
  destruct (Nat.eqb (fst ij) i && Nat.eqb (snd ij) j)%bool; cbn [orb].
  - destruct (existsb _ order); reflexivity.
  - reflexivity.
Qed.

(* the completed grid, whatever the completion order *)
Definition full_grid (es : list entry) : grid := map (fun e => map Some (e_txs e)) es.

Lemma grid_ext (g1 g2 : grid) :
  length g1 = length g2 ->
  (forall i r1 r2, nth_error g1 i = Some r1 -> nth_error g2 i = Some r2 -> length r1 = length r2) ->
  (forall i j, cell g1 i j = cell g2 i j) ->
  (forall i r j, nth_error g2 i = Some r -> j < length r -> exists t, nth_error r j = Some (Some t)) ->
  g1 = g2.
Proof.
  revert g2. induction g1 as [|r1 g1 IH]; intros [|r2 g2] L R C F; cbn in L; try lia; [reflexivity|].
  f_equal.
  - pose proof (R 0 r1 r2 eq_refl eq_refl) as Lr.
    apply nth_ext with (d := None) (d' := None); [exact Lr|].
    intros j Hj. specialize (C 0 j). unfold cell in C. cbn [nth_error] in C.
    assert (Hj2 : j < length r2) by lia.
    destruct (F 0 r2 j eq_refl Hj2) as [t Ht]. rewrite Ht in C.
    destruct (nth_error r1 j) as [c|] eqn:E1; [|apply nth_error_None in E1; lia].
    rewrite (nth_error_nth r1 j None E1), (nth_error_nth r2 j None Ht). exact C.
  - apply IH; [lia| | |].
    + intros i a b Ha Hb. apply (R (S i) a b); exact Ha || exact Hb.
    + intros i j. exact (C (S i) j).
    + intros i r j Hr Hj. exact (F (S i) r j Hr Hj).
Qed.

Theorem fill_any_order es order :
  (forall i j e t, nth_error es i = Some e -> nth_error (e_txs e) j = Some t -> In (i, j) order) ->
  fill es order = full_grid es.
Proof.
  intros Hall. unfold fill.
  assert (Hs : shape_ok es (fold_left (put es) order (empty_grid es))).
  { clear Hall. generalize (empty_shape es). generalize (empty_grid es). induction order as [|ij o IH]; intros g Hg; cbn; auto.
    apply IH. apply put_shape; exact Hg. }
  destruct Hs as [L R].
  apply grid_ext.
  - rewrite L. unfold full_grid. rewrite map_length. reflexivity.
  - intros i r1 r2 H1 H2. unfold full_grid in H2. rewrite nth_error_map in H2.
    destruct (nth_error es i) as [e|] eqn:Ee; [|discriminate]. inversion H2; subst r2.
    destruct (R i e Ee) as [row [Hr Hl]]. rewrite Hr in H1. inversion H1; subst. rewrite map_length. exact Hl.
  - intros i j. unfold full_grid at 1.
    destruct (nth_error es i) as [e|] eqn:Ee.
    + destruct (nth_error (e_txs e) j) as [t|] eqn:Et.
      * rewrite (fill_cell es order (empty_grid es) i j e t (empty_shape es) Ee Et).
        replace (existsb _ order) with true.
        -- unfold cell, full_grid. rewrite nth_error_map, Ee. cbn. rewrite nth_error_map, Et. reflexivity.
        -- symmetry. apply existsb_exists. exists (i, j). split; [eapply Hall; eauto|]. cbn. rewrite !Nat.eqb_refl. reflexivity.
      * (* outside the row: both sides None *)
        destruct (R i e Ee) as [row [Hr Hl]]. unfold cell. rewrite Hr.
        assert (nth_error row j = None) by (apply nth_error_None; rewrite Hl; apply nth_error_None; exact Et).
        rewrite H. unfold full_grid. rewrite nth_error_map, Ee. cbn. rewrite nth_error_map, Et. reflexivity.
    + unfold cell. assert (nth_error (fold_left (put es) order (empty_grid es)) i = None).
      { apply nth_error_None. rewrite L. apply nth_error_None. exact Ee. }
      rewrite H. unfold full_grid. rewrite nth_error_map, Ee. reflexivity.
  - intros i r j Hr Hj. unfold full_grid in Hr. rewrite nth_error_map in Hr.
    destruct (nth_error es i) as [e|]; [|discriminate]. inversion Hr; subst r. rewrite map_length in Hj.
    destruct (nth_error (e_txs e) j) as [t|] eqn:Et; [|apply nth_error_None in Et; lia].
    exists t. rewrite nth_error_map, Et. reflexivity.
Qed.

(* ---------- response assembly ---------- *)
Definition merge (g : grid) : list tx := flat_map (fun row => flat_map (fun c => match c with Some t => [t] | None => [] end) row) g.
Definition all_txs (b : block) : list tx := flat_map e_txs (b_entries b).

Lemma merge_full es : merge (full_grid es) = flat_map e_txs es.
Proof.
  unfold merge, full_grid. induction es as [|e es IH]; [reflexivity|]. cbn [map flat_map]. rewrite IH. f_equal.
  induction (e_txs e) as [|t ts IHt]; [reflexivity|]. cbn. rewrite IHt. reflexivity.
Qed.

Record response := {
  r_slot : N; r_parent : N; r_time : option N; r_height : option N;
  r_blockhash : option N; r_prev : option N; r_txs : list tx
}.
Inductive answer (A : Type) := Reply (a : A) | EpochNotAvailable | SlotNotFound | InternalError.
Arguments Reply {A} a. Arguments EpochNotAvailable {A}. Arguments SlotNotFound {A}. Arguments InternalError {A}.

Definition last_hash (b : block) : option N := match rev (b_entries b) with e :: _ => Some (e_hash e) | [] => None end.

(* previous blockhash: only when the parent is in the same epoch ((parent <> 0 \/ slot = 1) in the code) *)
Definition prev_hash (e : epoch) (b : block) : answer (option N) :=
  let parent := b_parent b in
  if ((negb (N.eqb parent 0) || N.eqb (b_slot b) 1) && N.eqb (epoch_of parent) (ep_num e))%bool then
    match ep_block e parent with
    | None => InternalError                       (* "failed to get/decode block" *)
    | Some pb => Reply (last_hash pb)
    end
  else Reply None.

Definition get_block (me : list epoch) (order : list (nat * nat)) (slot : N) : answer response :=
  match find_epoch me (epoch_of slot) with
  | None => EpochNotAvailable
  | Some e =>
      match ep_block e slot with
      | None => SlotNotFound
      | Some b =>
          let g := fill (b_entries b) order in
          let txs := TxSort.sort (merge g) in
          match prev_hash e b with
          | Reply p => Reply {| r_slot := slot; r_parent := b_parent b;
                                r_time := if N.eqb (b_time b) 0 then None else Some (b_time b);
                                r_height := b_height b; r_blockhash := last_hash b; r_prev := p; r_txs := txs |}
          | _ => InternalError
          end
      end
  end.

(* ---------- the specification, written directly from the archive ---------- *)
Definition in_position_order (b : block) (l : list tx) : Prop :=
  Permutation l (all_txs b) /\ StronglySorted le_pos l.

Definition block_response_spec (e : epoch) (b : block) (r : response) : Prop :=
  r_slot r = b_slot b /\ r_parent r = b_parent b /\
  r_time r = (if N.eqb (b_time b) 0 then None else Some (b_time b)) /\
  r_height r = b_height b /\ r_blockhash r = last_hash b /\
  (forall pb, ((b_parent b <> 0%N \/ b_slot b = 1%N) /\ epoch_of (b_parent b) = ep_num e) ->
              ep_block e (b_parent b) = Some pb -> r_prev r = last_hash pb) /\
  in_position_order b (r_txs r).

Definition complete_order (b : block) (order : list (nat * nat)) : Prop :=
  forall i j e t, nth_error (b_entries b) i = Some e -> nth_error (e_txs e) j = Some t -> In (i, j) order.

Theorem get_block_correct me e b order :
  find_epoch me (epoch_of (b_slot b)) = Some e -> ep_block e (b_slot b) = Some b ->
  (* the parent, when it lies in the same epoch, is archived (a well-formed epoch) *)
  (((b_parent b <> 0%N \/ b_slot b = 1%N) /\ epoch_of (b_parent b) = ep_num e) -> exists pb, ep_block e (b_parent b) = Some pb) ->
  complete_order b order ->
  exists r, get_block me order (b_slot b) = Reply r /\ block_response_spec e b r.
Proof.
  intros He Hb Hparent Hord. unfold get_block. rewrite He, Hb.
  rewrite (fill_any_order (b_entries b) order Hord), merge_full.
  unfold prev_hash.
  destruct ((negb (N.eqb (b_parent b) 0) || N.eqb (b_slot b) 1) && N.eqb (epoch_of (b_parent b)) (ep_num e))%bool eqn:Ec.
  - apply andb_true_iff in Ec. destruct Ec as [E1 E2]. apply N.eqb_eq in E2.
    assert (P : (b_parent b <> 0%N \/ b_slot b = 1%N)).
    { apply orb_true_iff in E1. destruct E1 as [E1|E1]; [left; apply negb_true_iff, N.eqb_neq in E1; exact E1|right; apply N.eqb_eq; exact E1]. }
    destruct (Hparent (conj P E2)) as [pb Hpb]. rewrite Hpb.
    eexists; split; [reflexivity|]. unfold block_response_spec; cbn.
    repeat split; auto.
    + intros pb' _ Hpb'. rewrite Hpb in Hpb'. inversion Hpb'; subst; reflexivity.
    + apply Permutation_sym, TxSort.Permuted_sort.
    + apply sort_sorted.
  - eexists; split; [reflexivity|]. unfold block_response_spec; cbn.
    repeat split; auto.
    + intros pb [P E2] _. exfalso. apply andb_false_iff in Ec. destruct Ec as [Ec|Ec].
      * apply orb_false_iff in Ec. destruct Ec as [A B]. apply negb_false_iff, N.eqb_eq in A. apply N.eqb_neq in B.
        destruct P as [P|P]; congruence.
      * apply N.eqb_neq in Ec. congruence.
    + apply Permutation_sym, TxSort.Permuted_sort.
    + apply sort_sorted.
Qed.

(* with distinct positions the transaction list of the reply is THE position-ordered list: unique *)
Theorem txs_unique b l1 l2 : NoDup (map t_pos (all_txs b)) ->
  in_position_order b l1 -> in_position_order b l2 -> l1 = l2.
Proof.
  intros ND [P1 S1] [P2 S2]. apply sorted_perm_unique; auto.
  - eapply Permutation_trans; [exact P1|apply Permutation_sym; exact P2].
  - eapply Permutation_NoDup; [|exact ND]. apply Permutation_map, Permutation_sym; exact P1.
Qed.

(* an absent slot / unloaded epoch is answered accordingly, never with a block *)
Theorem get_block_absent me order slot :
  (forall e, find_epoch me (epoch_of slot) = Some e -> ep_block e slot = None) ->
  get_block me order slot = EpochNotAvailable \/ get_block me order slot = SlotNotFound.
Proof.
  intros H. unfold get_block. destruct (find_epoch me (epoch_of slot)) as [e|] eqn:E; [|left; reflexivity].
  rewrite (H e eq_refl). right; reflexivity.
Qed.

(* ---------- getBlockTime ---------- *)
Definition get_block_time (me : list epoch) (bt : N -> N -> option N) (slot : N) : answer N :=
  match find_epoch me (epoch_of slot) with
  | None => EpochNotAvailable
  | Some e => match bt (ep_num e) slot with Some t => Reply t | None => SlotNotFound end
  end.

(* ---------- getTransaction: signature -> epoch search on top of FirstSuccess (C18) ---------- *)
(* job i searches epoch i: success with the epoch number iff the signature is archived there, else NotFound *)
Definition search_jobs (has : list (N * bool)) : list outcome :=
  map (fun p : N * bool => if snd p then Succ (fst p) else Fail not_found_code) has.

Theorem search_finds_the_epoch has limit cs s r e :
  run (search_jobs has) limit init cs = Some s -> ret s = Some r ->
  (* the signature is archived in exactly the epochs numbered e *)
  In (e, true) has -> (forall e', In (e', true) has -> e' = e) ->
  map_find r = Found e.
Proof.
  intros Hrun Hret Hin Huniq. destruct r as [v|es].
  - pose proof (result_is_a_job_success _ _ _ _ _ Hrun Hret) as Hs. unfold search_jobs in Hs.
    apply in_map_iff in Hs. destruct Hs as [[e' b] [Hv Hin']]. cbn in Hv. destruct b; [|discriminate].
    inversion Hv; subst. cbn. f_equal. apply Huniq. exact Hin'.
  - exfalso. eapply (success_wins (search_jobs has) limit cs s e); eauto.
    unfold search_jobs. apply in_map_iff. exists (e, true). split; auto.
Qed.

Theorem search_not_found has limit cs s r :
  run (search_jobs has) limit init cs = Some s -> ret s = Some r ->
  (forall e, ~ In (e, true) has) ->
  map_find r = NotFoundR.
Proof.
  intros Hrun Hret Hnone. destruct r as [v|es].
  - pose proof (result_is_a_job_success _ _ _ _ _ Hrun Hret) as Hs. unfold search_jobs in Hs.
    apply in_map_iff in Hs. destruct Hs as [[e' b] [Hv Hin']]. cbn in Hv. destruct b; [|discriminate].
    exfalso. eapply Hnone; eauto.
  - destruct (error_result_complete _ _ _ _ _ Hrun Hret) as [_ Hperm].
    unfold map_find. replace (forallb (N.eqb not_found_code) es) with true; [reflexivity|].
    symmetry. apply forallb_forall. intros x Hx. apply N.eqb_eq.
    assert (Hx' : In x (FS3.fails (search_jobs has))) by (eapply Permutation_in; eauto).
    unfold FS3.fails in Hx'. apply in_flat_map in Hx'. destruct Hx' as [o [Ho Hxo]].
    unfold search_jobs in Ho. apply in_map_iff in Ho. destruct Ho as [[e' b] [Hv _]]. cbn in Hv.
    destruct b; subst o; cbn in Hxo; [tauto|]. destruct Hxo as [<-|[]]. reflexivity.
Qed.

(* ---------- checker for the harness's observations ---------- *)
(* one getBlock case: the archived block's entries (tx positions + payload ids per entry), and the
   (position, payload id) list observed in the reply, plus the previous-blockhash decision *)
Inductive case :=
| CBlockTxs (entries : list (list (nat * N))) (observed : list (nat * N))
| CPrev (slot parent epoch : N) (parent_archived : bool) (observed_has_prev : bool).

Definition mk_entries (l : list (list (nat * N))) : list entry :=
  map (fun txs => {| e_hash := 0%N; e_txs := map (fun p => {| t_pos := fst p; t_id := snd p |}) txs |}) l.
Definition canonical_order (es : list entry) : list (nat * nat) := all_cells es.
Fixpoint pairs_eqb (a b : list (nat * N)) : bool :=
  match a, b with
  | [], [] => true
  | (p, i) :: x, (q, j) :: y => Nat.eqb p q && N.eqb i j && pairs_eqb x y
  | _, _ => false
  end.
Definition case_ok (c : case) : bool :=
  match c with
  | CBlockTxs entries observed =>
      let es := mk_entries entries in
      pairs_eqb (map (fun t => (t_pos t, t_id t)) (TxSort.sort (merge (fill es (rev (canonical_order es)))))) observed
  | CPrev slot parent epoch archived has_prev =>
      let b := {| b_slot := slot; b_parent := parent; b_time := 1%N; b_height := None; b_entries := [{| e_hash := 7%N; e_txs := [] |}] |} in
      let e := {| ep_num := epoch; ep_block := fun s => if (archived && N.eqb s parent)%bool then Some b else None |} in
      match prev_hash e b with
      | Reply (Some _) => has_prev
      | Reply None => negb has_prev
      | _ => negb has_prev   (* internal error: no reply with a previous blockhash *)
      end
  end.
Fixpoint bad_from (i : nat) (cs : list case) : list nat :=
  match cs with [] => [] | c :: t => if case_ok c then bad_from (S i) t else i :: bad_from (S i) t end.
Definition check (cs : list case) : list nat := bad_from 0 cs.
