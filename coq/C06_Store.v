(* C06 — two stores for the writer machine of C06_Machine.v, and the refinement between them.

   AStore : the log is a list of records, a pointer is the POSITION of a record (the prototype Gsfa.v).
   BStore : the log is a byte file written by LinkedLog.Put, a pointer is (offset, size); Get walks the file
            with ReadWithSize (C06_LinkedLog.v).
   [Rb] relates them: file = encode(log), byte heads = (offset,size) of the head records.  It is preserved
   by flushKVs ([Rb_flush]) and under it the byte-level Get returns what the position-level Get returns
   ([bget_refines]), provided offsets fit in 6 bytes and record sizes in 3 bytes ([fits]). *)
From Coq Require Import List NArith Lia Arith Bool PeanoNat.
From Coq Require Import ZifyN ZifyNat ZifyBool.
Import ListNotations.
Require Import Codec ReadAt Gsfa GsfaP GsfaT C06_LinkedLog C06_Machine.
Local Close Scope N_scope.
Local Open Scope nat_scope.

(* ================= position store ================= *)
Section AStore.
Variable entry : Type.

Definition astore := st entry.
Definition a_init : astore := init entry.
Definition aflush (s : astore) (k : nat) (b : list entry) : astore := flush1 entry s (k, b).
Definition aget (s : astore) (k : nat) : list entry := get entry s k.
Definition ainv (s : astore) : Prop := wf entry s.

Lemma ainv_init : ainv a_init.
Proof. apply wf_init. Qed.
Lemma aget_init k : aget a_init k = [].
Proof. reflexivity. Qed.
Lemma ainv_flush s k b : ainv s -> ainv (aflush s k b).
Proof. apply wf_flush1. Qed.
Lemma aget_same s k b : ainv s -> aget (aflush s k b) k = rev b ++ aget s k.
Proof.
  intros H. destruct b as [|e b]; [reflexivity|]. apply get_flush1_same; [exact H|discriminate].
Qed.
Lemma aget_other s k k' b : ainv s -> k' <> k -> aget (aflush s k b) k' = aget s k'.
Proof. intros H Hk. apply get_flush1_other; assumption. Qed.
End AStore.

(* ================= byte store ================= *)
Section BStore.
Variable compress : list N -> list N.
Variable decompress : list N -> option (list N).
Notation rec := (rec entry).
Notation r_entries := (r_entries entry).
Notation r_prev := (r_prev entry).

Record bstore := BS { b_file : list N; b_heads : nat -> option ptr }.
Definition b_init : bstore := BS [] (fun _ => None).

(* flushKVs for one key: callbackBefore reads a.offsets (zero pointer when absent), Put appends the record,
   callbackAfter stores (offset, bytes written) *)
Definition bflush (s : bstore) (k : nat) (b : list entry) : bstore :=
  match b with
  | [] => s
  | _ =>
    let prev := match b_heads s k with Some p => p | None => ptr_zero end in
    let fp := put compress (b_file s) prev b in
    BS (fst fp) (upd (b_heads s) k (Some (snd fp)))
  end.

(* GsfaReader.Get without limit: follow the previous pointers until the zero pointer *)
Fixpoint bwalk (fuel : nat) (file : list N) (p : ptr) : option (list entry) :=
  if ptr_is_zero p then Some [] else
  match fuel with
  | O => None
  | S f =>
    match read_with_size decompress file (fst p) (snd p) with
    | None => None
    | Some (es, prev) =>
      match bwalk f file prev with
      | None => None
      | Some rest => Some (es ++ rest)
      end
    end
  end.
(* None: "pubkey not found" or a read error *)
Definition bget (fuel : nat) (s : bstore) (k : nat) : option (list entry) :=
  match b_heads s k with None => None | Some p => bwalk fuel (b_file s) p end.

(* ---------- layout of a position log as bytes ---------- *)
Definition rsize (r : rec) : nat := length (record compress (r_entries r) ptr_zero).

Fixpoint offs (lg : list rec) (i : nat) : nat :=
  match i, lg with
  | S i', r :: t => rsize r + offs t i'
  | _, _ => 0
  end.
Definition total (lg : list rec) : nat := offs lg (length lg).

Definition ptr_at (lg : list rec) (i : nat) : ptr :=
  match nth_error lg i with
  | Some r => (N.of_nat (offs lg i), N.of_nat (rsize r))
  | None => ptr_zero
  end.
Definition optr (lg : list rec) (p : option nat) : ptr :=
  match p with Some i => ptr_at lg i | None => ptr_zero end.
Definition rbytes (ctx : list rec) (r : rec) : list N := record compress (r_entries r) (optr ctx (r_prev r)).
Definition encode_in (ctx lg : list rec) : list N := flat_map (rbytes ctx) lg.
Definition encode (lg : list rec) : list N := encode_in lg lg.

(* the 6+3-byte pointer format can address this log *)
Definition fits (lg : list rec) : Prop :=
  (N.of_nat (total lg) < 2 ^ 48)%N /\ Forall (fun r => (N.of_nat (rsize r) < 2 ^ 24)%N) lg.

Lemma rbytes_length ctx r : length (rbytes ctx r) = rsize r.
Proof. unfold rbytes, rsize. now rewrite !record_length. Qed.

Lemma rsize_pos r : 10 <= rsize r.
Proof.
  unfold rsize. rewrite record_length. pose proof (uvarint_length_pos (N.of_nat (length (payload compress (r_entries r))) + 9)). lia.
Qed.

Lemma offs_app lg ext i : i <= length lg -> offs (lg ++ ext) i = offs lg i.
Proof.
  revert i; induction lg as [|r lg IH]; intros i Hi; cbn in Hi.
  - assert (i = 0) by lia. subst. destruct ext; reflexivity.
  - destruct i as [|i]; [reflexivity|]. cbn [offs app]. rewrite IH by lia. reflexivity.
Qed.

Lemma offs_le lg : forall i j, i <= j -> offs lg i <= offs lg j.
Proof.
  induction lg as [|r lg IH]; intros i j H; [destruct i, j; cbn; lia|].
  destruct i as [|i]; [cbn; lia|]. destruct j as [|j]; [lia|]. cbn [offs]. specialize (IH i j). lia.
Qed.

Lemma offs_beyond lg : forall i, length lg <= i -> offs lg i = total lg.
Proof.
  unfold total. induction lg as [|r lg IH]; intros i H; [destruct i; reflexivity|].
  destruct i as [|i]; [cbn in H; lia|]. cbn [offs length]. rewrite IH by (cbn in H; lia). reflexivity.
Qed.

Lemma encode_in_length ctx lg : length (encode_in ctx lg) = total lg.
Proof.
  unfold total, encode_in. induction lg as [|r lg IH]; [reflexivity|].
  cbn [flat_map length offs]. rewrite app_length, rbytes_length, IH. reflexivity.
Qed.

Lemma ptr_at_app lg ext i : i < length lg -> ptr_at (lg ++ ext) i = ptr_at lg i.
Proof.
  intros H. unfold ptr_at. rewrite nth_error_app1 by exact H. rewrite offs_app by lia. reflexivity.
Qed.

Lemma optr_app lg ext p : (forall i, p = Some i -> i < length lg) -> optr (lg ++ ext) p = optr lg p.
Proof. intros H. destruct p as [i|]; [|reflexivity]. cbn. apply ptr_at_app. auto. Qed.

Lemma flat_map_ext_in {A C} (f g : A -> list C) l : (forall x, In x l -> f x = g x) -> flat_map f l = flat_map g l.
Proof.
  induction l as [|x l IH]; intros H; [reflexivity|]. cbn. rewrite (H x) by (now left). rewrite IH; auto.
  intros y Hy. apply H. now right.
Qed.

Lemma encode_snoc lg r : chain_ok entry lg -> (forall j, r_prev r = Some j -> j < length lg) ->
  encode (lg ++ [r]) = encode lg ++ rbytes lg r.
Proof.
  intros Hc Hr. unfold encode, encode_in. rewrite flat_map_app. cbn [flat_map]. rewrite app_nil_r. f_equal.
  - apply flat_map_ext_in. intros x Hx. unfold rbytes. f_equal. apply optr_app.
    intros i Hi. apply In_nth_error in Hx. destruct Hx as [n Hn].
    pose proof (Hc n x Hn i Hi). assert (n < length lg) by (apply nth_error_Some; congruence). lia.
  - unfold rbytes. f_equal. apply optr_app. exact Hr.
Qed.

(* a record in the middle of the encoded log *)
Lemma encode_in_split ctx : forall lg i r, nth_error lg i = Some r ->
  exists a c, encode_in ctx lg = a ++ rbytes ctx r ++ c /\ length a = offs lg i.
Proof.
  induction lg as [|x lg IH]; intros i r H; [destruct i; discriminate|].
  destruct i as [|i]; cbn [nth_error] in H.
  - inversion H; subst. exists [], (encode_in ctx lg). split; reflexivity.
  - destruct (IH i r H) as (a & c & E & L). exists (rbytes ctx x ++ a), c. split.
    + unfold encode_in in *. cbn [flat_map]. rewrite E. now rewrite <- app_assoc.
    + rewrite app_length, rbytes_length, L. reflexivity.
Qed.

Lemma ptr_at_fits lg i : fits lg -> ptr_fits (ptr_at lg i).
Proof.
  intros [Ht Hs]. unfold ptr_at. destruct (nth_error lg i) as [r|] eqn:E.
  - split; cbn [fst snd].
    + assert (offs lg i <= total lg).
      { unfold total. apply offs_le. apply Nat.lt_le_incl. apply nth_error_Some. congruence. }
      lia.
    + rewrite Forall_forall in Hs. apply Hs. eapply nth_error_In; eauto.
  - split; cbn; lia.
Qed.

Lemma optr_fits lg p : fits lg -> ptr_fits (optr lg p).
Proof. intros H. destruct p; [apply ptr_at_fits; exact H|split; cbn; lia]. Qed.

Hypothesis decompress_compress : forall x, decompress (compress x) = Some x.

Lemma read_record_at lg i r : nth_error lg i = Some r -> fits lg -> Forall entry_wf (r_entries r) ->
  read_with_size decompress (encode lg) (fst (ptr_at lg i)) (snd (ptr_at lg i))
  = Some (r_entries r, optr lg (r_prev r)).
Proof.
  intros Hn Hf Hw. destruct (encode_in_split lg lg i r Hn) as (a & c & E & L).
  unfold encode. rewrite E. unfold ptr_at. rewrite Hn. cbn [fst snd]. rewrite <- L.
  unfold rbytes. rewrite <- (rbytes_length lg r). unfold rbytes.
  apply read_record_mid; auto.
  - apply optr_fits. exact Hf.
  - fold (rbytes lg r). rewrite rbytes_length. destruct Hf as [_ Hs]. rewrite Forall_forall in Hs.
    pose proof (Hs r (nth_error_In _ _ Hn)). unfold max_read. assert (2 ^ 24 = 16777216)%N by reflexivity. lia.
Qed.

Lemma ptr_at_nonzero lg i r : nth_error lg i = Some r -> ptr_is_zero (ptr_at lg i) = false.
Proof.
  intros H. unfold ptr_at. rewrite H. unfold ptr_is_zero. cbn [fst snd]. pose proof (rsize_pos r).
  replace (N.of_nat (rsize r) =? 0)%N with false by (symmetry; apply N.eqb_neq; lia). apply andb_false_r.
Qed.

(* the byte-level walk follows the position-level walk *)
Lemma bwalk_walk lg : chain_ok entry lg -> fits lg -> forall i f1 f2, i < f1 -> i < f2 -> i < length lg ->
  Forall entry_wf (walk entry f2 lg (Some i)) ->
  bwalk f1 (encode lg) (ptr_at lg i) = Some (walk entry f2 lg (Some i)).
Proof.
  intros Hc Hf i. induction i as [i IH] using lt_wf_ind. intros f1 f2 H1 H2 Hi Hw.
  destruct f1 as [|f1]; [lia|]. destruct f2 as [|f2]; [lia|].
  destruct (nth_error lg i) as [r|] eqn:Hn; [|apply nth_error_None in Hn; lia].
  cbn [bwalk]. rewrite (ptr_at_nonzero lg i r Hn).
  rewrite walk_unfold in Hw |- *. rewrite Hn in Hw |- *. apply Forall_app in Hw. destruct Hw as [Hwr Hwt].
  rewrite (read_record_at lg i r Hn Hf Hwr).
  destruct (r_prev r) as [j|] eqn:Hj.
  - pose proof (Hc i r Hn j Hj) as Hji. cbn [optr]. rewrite (IH j Hji f1 f2); auto; lia.
  - cbn [optr]. rewrite walk_none. destruct f1; cbn; now rewrite app_nil_r.
Qed.

(* ---------- the refinement relation ---------- *)
Definition Rb (bs : bstore) (s : st entry) : Prop :=
  wf entry s /\ b_file bs = encode (log entry s) /\
  forall k, b_heads bs k = option_map (ptr_at (log entry s)) (heads entry s k).

Lemma Rb_init : Rb b_init (init entry).
Proof. split; [apply wf_init|]. split; reflexivity. Qed.

Lemma Rb_flush bs s k b : Rb bs s -> Rb (bflush bs k b) (aflush entry s k b).
Proof.
  intros (Hwf & Hfile & Hheads). unfold aflush. destruct b as [|e b]; [split; [exact Hwf|split; assumption]|].
  split; [apply wf_flush1; exact Hwf|].
  destruct Hwf as [Hc Hh]. set (lg := log entry s) in *.
  set (r := {| Gsfa.r_entries := rev (e :: b); Gsfa.r_prev := heads entry s k |}).
  assert (Hr : forall j, r_prev r = Some j -> j < length lg) by (intros j Hj; eapply Hh; exact Hj).
  assert (Hprev : match b_heads bs k with Some p => p | None => ptr_zero end = optr lg (r_prev r)).
  { rewrite Hheads. cbn [Gsfa.r_prev r]. destruct (heads entry s k); reflexivity. }
  unfold flush1. cbn [log heads]. fold lg. fold r. unfold bflush. cbn [b_file b_heads fst snd put].
  rewrite Hprev. split.
  - rewrite encode_snoc by assumption. rewrite Hfile. reflexivity.
  - intros k0. unfold upd. destruct (k0 =? k) eqn:Ek.
    + cbn [option_map]. f_equal. unfold ptr_at. rewrite nth_error_app2 by lia. rewrite Nat.sub_diag. cbn [nth_error].
      rewrite offs_app by lia. fold (total lg). rewrite Hfile. unfold encode. rewrite encode_in_length.
      change (record compress (rev (e :: b)) (optr lg (r_prev r))) with (rbytes lg r). rewrite rbytes_length. reflexivity.
    + rewrite Hheads. destruct (heads entry s k0) as [i|] eqn:Ei; [|reflexivity].
      cbn [option_map]. f_equal. symmetry. apply ptr_at_app. eapply Hh; eauto.
Qed.

(* under the relation the byte-level Get returns what the position-level Get returns *)
Theorem bget_refines bs s k fuel : Rb bs s -> fits (log entry s) -> length (log entry s) <= fuel ->
  Forall entry_wf (get entry s k) ->
  bget fuel bs k = match heads entry s k with None => None | Some _ => Some (get entry s k) end.
Proof.
  intros (Hwf & Hfile & Hheads) Hf Hfuel Hw. unfold bget. rewrite Hheads, Hfile.
  destruct (heads entry s k) as [i|] eqn:Ei; [|reflexivity]. cbn [option_map].
  destruct Hwf as [Hc Hh]. pose proof (Hh k i Ei) as Hi. unfold get in *. rewrite Ei in *.
  apply bwalk_walk; auto; lia.
Qed.

End BStore.
