(* C07 — proofs about the model in C07_Model.v.
   A. one pass of the reachedBefore/until/limit machine over a flat history = slice_spec   (as in Paging.v, here over
      tagged entries; `slice_sig_view` shows the signatures of the slice are Paging.slice_spec of the signatures)
   B. fold fusion: the nested loops epochs -> records -> entries with their early exits and the per-record
      limit pre-check = one pass over the concatenated history
   C. the map view (keys / lookup), sorting of epoch numbers, reply assembly
   D. the slot-window variant *)
From Coq Require Import List Arith Lia Bool PeanoNat NArith ZArith Permutation Sorting.Sorted.
From Coq Require Import ZifyN ZifyNat ZifyBool.
Import ListNotations.
Require Import YF.Paging YF.C07_Model.

(* ================================================================================================ *)
(* A. the flat machine *)

Definition F (limit : nat) (before until : option nat) (l : list tagged) (s : st) : st :=
  fold_left (visit limit before until) l s.

Lemma F_nil limit before until s : F limit before until [] s = s.
Proof. reflexivity. Qed.
Lemma F_cons limit before until x l s :
  F limit before until (x :: l) s = F limit before until l (visit limit before until s x).
Proof. reflexivity. Qed.
Lemma F_app limit before until l1 l2 s :
  F limit before until (l1 ++ l2) s = F limit before until l2 (F limit before until l1 s).
Proof. unfold F. apply fold_left_app. Qed.

Lemma F_stopped limit before until l : forall s, stop s = true -> F limit before until l s = s.
Proof.
  induction l as [|x l IH]; intros s H; [reflexivity|].
  rewrite F_cons. unfold visit. rewrite H. apply IH; exact H.
Qed.

Lemma saturated limit before until l s :
  stop s = false -> reached s = true -> limit <= length (out s) ->
  out (F limit before until l s) = out s.
Proof.
  intros Es Hre E. destruct l as [|x l]; [reflexivity|].
  rewrite F_cons. unfold visit, step. rewrite Es, Hre. cbn [negb andb].
  replace (limit <=? length (out s)) with true by (symmetry; apply Nat.leb_le; lia).
  now rewrite F_stopped.
Qed.

Definition okst (s : st) : Prop := reached s = false -> out s = [].

Lemma step_ok limit before until s x : okst s -> okst (step limit before until s x).
Proof.
  unfold okst, step. intros H.
  destruct (reached s) eqn:R; cbn [negb andb].
  - destruct (limit <=? length (out s)); cbn [reached out]; intros HH; discriminate HH.
  - destruct (is_key before x); cbn [reached out].
    + intros HH; discriminate HH.
    + rewrite R. exact H.
Qed.
Lemma visit_ok limit before until s x : okst s -> okst (visit limit before until s x).
Proof. unfold visit. destruct (stop s); auto. apply step_ok. Qed.
Lemma F_ok limit before until l : forall s, okst s -> okst (F limit before until l s).
Proof. induction l as [|x l IH]; intros s H; [exact H|]. rewrite F_cons. apply IH. now apply visit_ok. Qed.

Definition cut_until (until : option nat) (c : list tagged) : list tagged :=
  match until with Some u => upto u c | None => c end.
Definition tail_spec (limit : nat) (until : option nat) (o l : list tagged) : list tagged :=
  o ++ cut_until until (firstn (limit - length o) l).

Lemma reached_spec limit before until : forall l o,
  out (F limit before until l {| reached := true; out := o; stop := false |}) = tail_spec limit until o l.
Proof.
  induction l as [|x l IH]; intros o.
  - unfold tail_spec, cut_until. cbn. destruct until; rewrite firstn_nil; cbn; now rewrite app_nil_r.
  - destruct (Nat.le_gt_cases limit (length o)) as [Hle|Hgt].
    + rewrite saturated by (cbn; auto). unfold tail_spec, cut_until. replace (limit - length o) with 0 by lia.
      cbn. destruct until; cbn; now rewrite app_nil_r.
    + rewrite F_cons. unfold visit, step. cbn [stop reached negb andb out].
      replace (limit <=? length o) with false by (symmetry; apply Nat.leb_gt; lia).
      unfold tail_spec. destruct (limit - length o) as [|k] eqn:Ek; [lia|]. cbn [firstn].
      destruct until as [u|]; cbn [is_key cut_until].
      * cbn [upto]. destruct (Nat.eqb (key x) u) eqn:Exu.
        -- now rewrite F_stopped.
        -- rewrite IH. unfold tail_spec, cut_until. rewrite app_length. cbn [length].
           replace (limit - (length o + 1)) with k by lia. now rewrite <- app_assoc.
      * rewrite IH. unfold tail_spec, cut_until. rewrite app_length. cbn [length].
        replace (limit - (length o + 1)) with k by lia. now rewrite <- app_assoc.
Qed.

Lemma unreached_spec limit b until : forall l,
  out (F limit (Some b) until l {| reached := false; out := []; stop := false |}) =
  tail_spec limit until [] (after b l).
Proof.
  induction l as [|x l IH].
  - unfold tail_spec, cut_until. cbn. destruct until; rewrite firstn_nil; reflexivity.
  - rewrite F_cons. cbn [after]. unfold visit, step. cbn [stop reached negb andb out is_key].
    destruct (Nat.eqb (key x) b) eqn:E.
    + apply reached_spec.
    + exact IH.
Qed.

(* one pass over the flat history computes the slice *)
Theorem flat_spec limit before until hist :
  out (F limit before until hist (init_st before)) = slice_spec limit before until hist.
Proof.
  unfold slice_spec, init_st. destruct before as [b|].
  - rewrite unreached_spec. unfold tail_spec, cut_until. cbn. now rewrite Nat.sub_0_r.
  - rewrite reached_spec. unfold tail_spec, cut_until. cbn. now rewrite Nat.sub_0_r.
Qed.

(* the signatures of the slice are the prototype's slice (Paging.v) of the signatures *)
Lemma after_sig_view b l : map key (after b l) = Paging.after b (map key l).
Proof. induction l as [|x l IH]; [reflexivity|]. cbn. destruct (Nat.eqb (key x) b); auto. Qed.
Lemma upto_sig_view u l : map key (upto u l) = Paging.upto u (map key l).
Proof. induction l as [|x l IH]; [reflexivity|]. cbn. destruct (Nat.eqb (key x) u); cbn; congruence. Qed.
Lemma slice_sig_view limit before until hist :
  map key (slice_spec limit before until hist) = Paging.slice_spec limit before until (map key hist).
Proof.
  unfold slice_spec, Paging.slice_spec.
  destruct until as [u|]; [rewrite upto_sig_view|]; rewrite <- firstn_map;
    (destruct before as [b|]; [rewrite after_sig_view|]); reflexivity.
Qed.

(* ================================================================================================ *)
(* B. fold fusion *)

(* two states are equivalent when no continuation can tell them apart *)
Definition equiv (limit : nat) (before until : option nat) (s1 s2 : st) : Prop :=
  forall l, out (F limit before until l s1) = out (F limit before until l s2).

Lemma equiv_refl limit before until s : equiv limit before until s s.
Proof. intros l; reflexivity. Qed.
Lemma equiv_trans limit before until s1 s2 s3 :
  equiv limit before until s1 s2 -> equiv limit before until s2 s3 -> equiv limit before until s1 s3.
Proof. intros H1 H2 l. now rewrite H1, H2. Qed.
Lemma equiv_F limit before until l s1 s2 :
  equiv limit before until s1 s2 -> equiv limit before until (F limit before until l s1) (F limit before until l s2).
Proof. intros H l'. rewrite <- !F_app. apply H. Qed.

Lemma entries_loop_F limit before until r : forall s, stop s = false ->
  entries_loop limit before until s r = F limit before until r s.
Proof.
  induction r as [|x r IH]; intros s Hs; [reflexivity|].
  cbn [entries_loop]. rewrite F_cons. unfold visit. rewrite Hs.
  destruct (stop (step limit before until s x)) eqn:E.
  - now rewrite F_stopped.
  - apply IH; exact E.
Qed.

Lemma set_stop_ok s : okst s -> okst (set_stop s).
Proof. unfold okst, set_stop; cbn. auto. Qed.

(* when the limit is reached, stopping at once and carrying on are indistinguishable *)
Lemma limit_reached_equiv limit before until s L :
  0 < limit -> okst s -> stop s = false -> limit <= length (out s) ->
  equiv limit before until (set_stop s) (F limit before until L s).
Proof.
  intros Hl Hok Hs Hle l.
  assert (Hre : reached s = true).
  { destruct (reached s) eqn:R; auto. rewrite (Hok R) in Hle. cbn in Hle. lia. }
  rewrite F_stopped by reflexivity. cbn [set_stop out].
  rewrite <- F_app. now rewrite saturated.
Qed.

Lemma visible_cons_nonempty {A} (x : A) r c : visible ((x :: r) :: c) = (x :: r) :: visible c.
Proof. reflexivity. Qed.

Lemma chain_fusion limit before until : 0 < limit -> forall c s, stop s = false -> okst s ->
  equiv limit before until (chain_loop limit before until s c) (F limit before until (concat (visible c)) s)
  /\ okst (chain_loop limit before until s c).
Proof.
  intros Hl. induction c as [|r c IH]; intros s Hs Hok.
  - split; [apply equiv_refl|exact Hok].
  - cbn [chain_loop]. destruct (limit <=? length (out s)) eqn:E.
    + apply Nat.leb_le in E. split; [|now apply set_stop_ok]. now apply limit_reached_equiv.
    + destruct r as [|x r].
      * split; [apply equiv_refl|exact Hok].
      * rewrite visible_cons_nonempty. cbn [concat]. rewrite entries_loop_F by exact Hs.
        set (s' := F limit before until (x :: r) s).
        assert (Hok' : okst s') by (apply F_ok; exact Hok).
        destruct (stop s') eqn:Es'.
        -- split; [|exact Hok']. intros l. rewrite F_app. fold s'.
           now rewrite (F_stopped _ _ _ (concat (visible c)) s' Es').
        -- destruct (IH s' Es' Hok') as [H1 H2]. split; [|exact H2].
           intros l. rewrite F_app. fold s'. apply H1.
Qed.

Lemma epochs_fusion limit before until : 0 < limit -> forall eps s, stop s = false -> okst s ->
  Forall (fun i => i <> Failed) eps ->
  exists s', epochs_loop limit before until s eps = Some s' /\
             equiv limit before until s' (F limit before until (concat (map idx_hist eps)) s).
Proof.
  intros Hl. induction eps as [|i eps IH]; intros s Hs Hok Hnf.
  - exists s. split; [reflexivity|apply equiv_refl].
  - inversion Hnf as [|? ? Hi Hnf']; subst. destruct i as [c| |]; [| |congruence].
    + cbn [epochs_loop map concat idx_hist].
      destruct (chain_fusion limit before until Hl c s Hs Hok) as [He Hok'].
      set (s1 := chain_loop limit before until s c) in *.
      destruct (stop s1) eqn:Es1.
      * exists s1. split; [reflexivity|]. intros l.
        rewrite F_stopped by exact Es1. rewrite F_app, <- F_app.
        rewrite <- (He (concat (map idx_hist eps) ++ l)). now rewrite F_stopped.
      * destruct (IH s1 Es1 Hok' Hnf') as [s' [E1 E2]]. exists s'. split; [exact E1|].
        eapply equiv_trans; [exact E2|]. intros l. rewrite (F_app _ _ _ (concat (visible c))).
        apply equiv_F. exact He.
    + cbn [epochs_loop map concat idx_hist app]. apply IH; auto.
Qed.

Lemma tag_epochs_hist eps : concat (map idx_hist (tag_epochs eps)) = history eps.
Proof. unfold history, tag_epochs. now rewrite map_map. Qed.

Lemma tag_epochs_no_failure eps :
  Forall no_failure eps -> Forall (fun i => i <> @Failed tagged) (tag_epochs eps).
Proof.
  unfold tag_epochs. intros H. apply Forall_map. eapply Forall_impl; [|exact H].
  intros [e i] Hi. unfold no_failure in Hi. cbn in *. destruct i; cbn; congruence.
Qed.

(* the nested loops return exactly the slice of the concatenated history *)
Theorem get_before_until_spec eps limit before until :
  Forall no_failure eps ->
  get_before_until eps limit before until = Some (slice_spec (Z.to_nat limit) before until (history eps)).
Proof.
  intros Hnf. unfold get_before_until. destruct (Z.leb_spec limit 0) as [Hle|Hgt].
  - replace (Z.to_nat limit) with 0 by lia. unfold slice_spec. cbn [firstn]. now destruct until.
  - assert (Hl : 0 < Z.to_nat limit) by lia.
    destruct (epochs_fusion (Z.to_nat limit) before until Hl (tag_epochs eps) (init_st before)) as [s' [E1 E2]].
    + reflexivity.
    + unfold okst, init_st; cbn. auto.
    + now apply tag_epochs_no_failure.
    + rewrite E1. cbn [option_map]. f_equal.
      specialize (E2 []). rewrite !F_nil in E2. rewrite E2, tag_epochs_hist. apply flat_spec.
Qed.

(* a failing index lookup that is reached makes the call fail — and only that *)
Lemma get_before_until_total eps limit before until :
  Forall no_failure eps -> get_before_until eps limit before until <> None.
Proof. intros H. rewrite get_before_until_spec by exact H. discriminate. Qed.

(* chains the writer produces have no empty record; then every recorded entry is visible *)
Lemma visible_id {A} (c : list (list A)) : Forall (fun r => r <> []) c -> visible c = c.
Proof.
  induction c as [|r c IH]; intros H; [reflexivity|]. inversion H; subst.
  destruct r; [congruence|]. cbn. f_equal. auto.
Qed.
Lemma concat_map_map {A B} (f : A -> B) (c : list (list A)) : concat (map (map f) c) = map f (concat c).
Proof. now rewrite concat_map. Qed.
Lemma history_full eps : Forall no_empty_record eps -> history eps = full_history eps.
Proof.
  unfold history, full_history. intros H. f_equal. apply map_ext_in. intros [e i] Hin.
  rewrite Forall_forall in H. specialize (H _ Hin). unfold no_empty_record in H. cbn in *.
  destruct i as [c| |]; cbn; auto. rewrite visible_id.
  - apply concat_map_map.
  - apply Forall_map. eapply Forall_impl; [|exact H]. intros r Hr. destruct r; [congruence|discriminate].
Qed.

(* epochs in which the address is absent contribute nothing and never fail the call *)
Lemma history_absent eps1 e eps2 : history (eps1 ++ (e, NotFound) :: eps2) = history (eps1 ++ eps2).
Proof. unfold history. rewrite !map_app, !concat_app. reflexivity. Qed.

Lemma epochs_loop_absent limit before until eps1 eps2 : forall s,
  epochs_loop limit before until s (eps1 ++ NotFound :: eps2) = epochs_loop limit before until s (eps1 ++ eps2).
Proof.
  induction eps1 as [|i eps1 IH]; intros s; [reflexivity|].
  cbn [app epochs_loop]. destruct i; auto. destruct (stop _); auto.
Qed.

Theorem absent_skipped eps1 e eps2 limit before until :
  get_before_until (eps1 ++ (e, NotFound) :: eps2) limit before until =
  get_before_until (eps1 ++ eps2) limit before until.
Proof.
  unfold get_before_until. destruct (limit <=? 0)%Z; [reflexivity|].
  unfold tag_epochs. rewrite !map_app. cbn [map fst snd tag_idx]. now rewrite epochs_loop_absent.
Qed.
