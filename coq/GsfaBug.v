From Coq Require Import List Arith Lia Bool PeanoNat.
Import ListNotations.
Require Import Gsfa GsfaP GsfaT.

(* The pinned tree's Close: flush the accumulators FIRST, then let the background goroutine drain the
   channel; batches parked in tmpBuf are never flushed at exit. *)
Section Bug.
Variable entry : Type.
Variable P : nat.

Definition close_pinned (keys : list nat) (s : st entry) : st entry :=
  let s1 := flush_all entry s (map (fun k => (k, accum entry s k)) keys) in
  let s2 := {| accum := fun _ => []; chan := chan entry s1; parked := parked entry s1; log := log entry s1; heads := heads entry s1 |} in
  bg_drain entry P (length (chan entry s2)) s2.     (* parked batches stay parked: lost *)
End Bug.

(* Witness with batch size 2 (the real code: 1000): three pushes for one address *)
Definition ops3 : list (op nat) := [Push nat 7 1; Push nat 7 2; Push nat 7 3].
Definition after3 := fold_left (apply_op nat 2 256) ops3 (init nat).

(* fixed order: everything comes back, newest first *)
Example fixed_ok : get nat (close nat 256 [7] after3) 7 = [3; 2; 1].
Proof. vm_compute. reflexivity. Qed.

(* pinned order: the full batch [1;2] is parked and lost; only the remainder is readable.
   This is the shape observed on the real code: pushed 1001 -> got 1, pushed 1000 -> "not found". *)
Example C06_parked_refuted : get nat (close_pinned nat 256 [7] after3) 7 = [3].
Proof. vm_compute. reflexivity. Qed.

Example C06_exact_batch_refuted :
  get nat (close_pinned nat 256 [7] (fold_left (apply_op nat 2 256) [Push nat 7 1; Push nat 7 2] (init nat))) 7 = [].
Proof. vm_compute. reflexivity. Qed.

(* and even if parked batches were flushed at exit, flushing the accumulators before the drain
   puts the older batch ahead of the newer entries (wrong order) *)
Definition close_accum_first (keys : list nat) (s : st nat) : st nat :=
  let s1 := flush_all nat s (map (fun k => (k, accum nat s k)) keys) in
  let s2 := {| accum := fun _ => []; chan := chan nat s1; parked := parked nat s1; log := log nat s1; heads := heads nat s1 |} in
  let s3 := bg_drain nat 256 (length (chan nat s2)) s2 in
  flush_all nat s3 (parked nat s3).
Example C06_order_refuted : get nat (close_accum_first [7] after3) 7 = [2; 1; 3].
Proof. vm_compute. reflexivity. Qed.
